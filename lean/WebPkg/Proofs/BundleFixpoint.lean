import WebPkg.Proofs.BundleRoundTrip
/-
  C03, last clause: "re-serializing what was read and reading it again reaches a byte-identical fixpoint"
  (one representation per URL, as in `read_write`).

  Contents
    0   bfp_perm_eq_of_strict, small facts about `canonicalKey` / `lowerAscii` / `isAscii`
    1   bfp_NormH, Normal                 the "read-back form" of a header list / a bundle
    2   bfp_encodeMap_raw, bfp_decode_respHeader, bfp_loadResponse_encodeResponse
                                           `brt_*` counterparts that keep the order in which `EncodeMap` emitted the fields
    3   bfp_parseIndex_enc, bfp_loadMetadata_write
                                           `brt_*` counterparts that keep the order of the index map
    4   bfp_read_write                     the round trip with the order information
    5   read_normal                        (1) what `Read` returns is `Normal`
        read_write_normal                  (2) `Read ∘ WriteTo` is the identity on `Normal` bundles (exact equality)
        bfp_RDomG_read                     the domain `RDomG` is preserved by reading
        bfp_encodeResponse_back, bfp_finalize_ok, bfp_write_ok_of
                                           `WriteTo` accepts what `Read` returned
        read_write_fixpoint, write_read_fixpoint
                                           (3) the byte-identical fixpoint
        bfp_ex_normal, bfp_ex_fixpoint     non-vacuity

  Sections 2 and 3 repeat proofs of BundleRoundTrip.lean (`brt_decode_respHeader`, `brt_loadResponse_encodeResponse`,
  `brt_parseIndex_enc`, `brt_loadMetadata_write`) with one more conjunct each — the `StrictAsc` part of
  `C11.encodeMap_layout`, which the `brt_` statements drop.

  Scope / what is not covered
    * one representation per URL (`RDomG.urlsDistinct`), as in `read_write`: b1 bundles with Variants / Variant-Key
      groups are outside the model's round-trip theorems, hence outside this file.
    * `out₂.length < 2 ^ 63` stays a hypothesis of the fixpoint: it does not follow from `out₁.length < 2 ^ 63`,
      because re-ordering the exchanges changes the offsets stored in the index and `encodeUint` is variable-length.
-/
namespace WebPkg.Bundle
open WebPkg.Cbor WebPkg.Http

/-! ### 0. small facts -/

/-- two permutations of each other that are both strictly ascending for the same key are equal -/
theorem bfp_perm_eq_of_strict {α : Type} (key : α → Bytes) (l₁ l₂ : List α) (hp : l₁.Perm l₂)
    (s1 : l₁.Pairwise (fun a b => blt (key a) (key b) = true))
    (s2 : l₂.Pairwise (fun a b => blt (key a) (key b) = true)) : l₁ = l₂ := by
  apply List.Perm.eq_of_pairwise (le := fun a b => blt (key a) (key b) = true) _ s1 s2 hp
  intro a b _ _ hab hba
  have := blt_trans hab hba
  rw [blt_irrefl] at this
  cases this

theorem bfp_toLower_lt128 : ∀ n : Fin 256, toLowerByte (UInt8.ofNat n.val) < 128 → UInt8.ofNat n.val < 128 := by
  decide +kernel

theorem bfp_isAscii_of_lower (s : Bytes) (h : isAscii (lowerAscii s) = true) : isAscii s = true := by
  unfold isAscii lowerAscii at *
  rw [List.all_eq_true] at h ⊢
  intro c hc
  have h1 := h (toLowerByte c) (List.mem_map.mpr ⟨c, hc, rfl⟩)
  simp only [decide_eq_true_eq] at h1 ⊢
  have := bfp_toLower_lt128 ⟨c.toNat, c.toNat_lt⟩
  simp only [Sxg.u8_ofNat_toNat] at this
  exact this h1

/-- the canonical form of an ASCII name is ASCII -/
theorem bfp_isAscii_canonicalKey (s : Bytes) (h : isAscii s = true) : isAscii (canonicalKey s) = true := by
  apply bfp_isAscii_of_lower
  rw [Sxg.lowerAscii_canonicalKey]
  exact Sxg.isAscii_lowerAscii _ h

theorem bfp_head_lower58 (s : Bytes) (h : s.head? = some 58) : (lowerAscii s).head? = some 58 := by
  cases s with
  | nil => cases h
  | cons c rest =>
    simp only [List.head?_cons, Option.some.injEq] at h
    subst h
    rfl

/-- canonicalisation does not create a pseudo-header name -/
theorem bfp_head_canonicalKey (s : Bytes) (h : s.head? ≠ some 58) : (canonicalKey s).head? ≠ some 58 := by
  intro hc
  have h1 := bfp_head_lower58 _ hc
  rw [Sxg.lowerAscii_canonicalKey] at h1
  exact brt_head_lower s h h1

theorem bfp_joinComma_single (v : Bytes) : joinComma [v] = v := by
  rw [joinComma]

/-! ### 1. normal forms -/

/-- the key under which the response-header map of the writer orders a field: the CBOR byte string of the
    lower-cased name -/
def bfp_hkey (kv : Bytes × List Bytes) : Bytes := encodeBytes (lowerAscii kv.1)

/-- a header list as the reader returns it: names in canonical MIME form, one (comma-joined) value per name, fields
    in the order of the canonical CBOR header map (bytewise order of the encoded lower-case names) -/
structure bfp_NormH (hs : Headers) : Prop where
  names : ∀ kv ∈ hs, canonicalKey (lowerAscii kv.1) = kv.1
  single : ∀ kv ∈ hs, ∃ v, kv.2 = [v]
  sorted : hs.Pairwise (fun a b => blt (bfp_hkey a) (bfp_hkey b) = true)

/-- **read-back form** of a bundle: the exchanges are listed in the order of the index map (bytewise order of the CBOR
    text strings of their URLs, which also makes the URLs pairwise distinct) and every header list is in the form
    `bfp_NormH` -/
structure Normal (b : Bundle) : Prop where
  order : b.exchanges.Pairwise (fun a c => blt (tstr a.url) (tstr c.url) = true)
  headers : ∀ e ∈ b.exchanges, bfp_NormH e.resp.headers

/-- normalising a header list in normal form changes nothing -/
theorem bfp_normField_id (hs : Headers) (hn : bfp_NormH hs) : hs.map Sxg.normField = hs := by
  have : ∀ kv ∈ hs, Sxg.normField kv = kv := by
    intro kv hkv
    obtain ⟨v, hv⟩ := hn.single kv hkv
    obtain ⟨n, vs⟩ := kv
    have h1 := hn.names _ hkv
    dsimp only at hv h1
    subst hv
    unfold Sxg.normField
    dsimp only
    rw [h1, bfp_joinComma_single]
  rw [List.map_congr_left this]
  exact List.map_id' hs

/-- a header list in normal form is determined by its fields -/
theorem bfp_NormH_unique (hs hs' : Headers) (hp : hs.Perm hs') (h1 : bfp_NormH hs) (h2 : bfp_NormH hs') : hs = hs' :=
  bfp_perm_eq_of_strict bfp_hkey hs hs' hp h1.sorted h2.sorted

/-! ### 2. one response, keeping the order of the header map -/

/-- `Sxg.encodeMap_raw` with the order: the emitted entries are strictly ascending in their encoded keys -/
theorem bfp_encodeMap_raw (raw : List (Bytes × Bytes)) (out : Bytes) (h : encodeMap (raw.map Sxg.encE) = .ok out) :
    ∃ rs, rs.Perm raw ∧ (raw.map Prod.fst).Nodup ∧ out = encodeHead 5 raw.length ++ Sxg.flat rs ∧
      rs.Pairwise (fun a b => blt (encodeBytes a.1) (encodeBytes b.1) = true) := by
  obtain ⟨rs0, hp0, hnd, _⟩ := Sxg.encodeMap_raw raw out h
  obtain ⟨sorted, hp, hs, ho⟩ := C11.encodeMap_layout _ _ h
  obtain ⟨rs, hrs, rfl⟩ := Sxg.perm_map_exists Sxg.encE sorted raw hp
  refine ⟨rs, hrs, hnd, ?_, ?_⟩
  · rw [ho, List.length_map, List.map_map]; rfl
  · unfold StrictAsc at hs
    rw [List.pairwise_map] at hs
    exact hs

/-- `brt_decode_respHeader` with the order: the header list the reader builds is in normal form -/
theorem bfp_decode_respHeader (r : Resp) (hm : Bytes) (hd : brt_RespDom r) (h : encodeRespHeader r = .ok hm)
    (hlen : hm.length < 2 ^ 63) :
    ∃ n bs hs, decodeMapHeader hm = some (n, bs) ∧
      decodeHeaderEntries n bs [] [] = some (hs, [(Sxg.keyStatus, SH.formatInt r.status)]) ∧
      hs.Perm (r.headers.map Sxg.normField) ∧ bfp_NormH hs := by
  let raw : List (Bytes × Bytes) := (Sxg.keyStatus, SH.formatInt r.status) :: r.headers.map Sxg.hraw
  have hraw_def : raw = (Sxg.keyStatus, SH.formatInt r.status) :: r.headers.map Sxg.hraw := rfl
  have he : encodeRespHeader r = encodeMap (raw.map Sxg.encE) := by
    unfold encodeRespHeader
    rw [Sxg.headerEntries_eq_rt]; rfl
  rw [he] at h
  obtain ⟨rs, hp, hnd, rfl, hsorted⟩ := bfp_encodeMap_raw raw hm h
  have hlen2 : (Sxg.flat rs).length < 2 ^ 63 := by
    simp only [List.length_append] at hlen; omega
  have hn : raw.length = rs.length := hp.length_eq.symm
  have hn64 : rs.length < 2 ^ 64 := by have := Sxg.length_le_flat rs; omega
  obtain ⟨hs3, _⟩ := brt_status3 r.status hd.status.1 hd.status.2
  have hdig : (SH.formatInt r.status).all SH.isDigit = true := by
    unfold isStatus3 at hs3
    simp only [Bool.and_eq_true] at hs3
    exact hs3.2
  -- facts about the raw entries
  have hrawfacts : ∀ kv ∈ raw, isAscii kv.1 = true ∧ isAscii kv.2 = true ∧ lowerAscii kv.1 = kv.1 ∧
      (brt_isPs kv = true ↔ kv = (Sxg.keyStatus, SH.formatInt r.status)) := by
    intro kv hkv
    rw [hraw_def] at hkv
    rcases List.mem_cons.mp hkv with rfl | hm
    · exact ⟨(by decide : isAscii Sxg.keyStatus = true), brt_isAscii_digits _ hdig,
        (by decide : lowerAscii Sxg.keyStatus = Sxg.keyStatus), ⟨fun _ => rfl, fun _ => brt_ps_status _⟩⟩
    · obtain ⟨x, hx, rfl⟩ := List.mem_map.mp hm
      obtain ⟨a1, a2, a3⟩ := hd.hdrAscii x hx
      have hnp : brt_isPs (Sxg.hraw x) = false := by
        have := brt_head_lower x.1 a3
        simp only [brt_isPs, Sxg.hraw]
        cases hb : ((lowerAscii x.1).head? == some 58) with
        | false => rfl
        | true => exact absurd (by simpa using hb) this
      refine ⟨(Sxg.hraw_ok x a1).1, brt_isAscii_joinComma _ a2, (Sxg.hraw_ok x a1).2, ?_⟩
      rw [hnp]
      constructor
      · intro hc; cases hc
      · intro hc
        rw [hc, brt_ps_status] at hnp
        cases hnp
  have hcond : ∀ kv ∈ rs, brt_EntryOk kv := by
    intro kv hkv
    have hb := Sxg.mem_flat_bound rs kv hkv
    obtain ⟨a1, a2, a3, _⟩ := hrawfacts kv (hp.subset hkv)
    exact ⟨by omega, by omega, a1, a2, a3⟩
  -- the pseudo entries
  have hnd' := hnd
  rw [hraw_def, List.map_cons, List.nodup_cons] at hnd'
  have hfps_raw : raw.filter brt_isPs = [(Sxg.keyStatus, SH.formatInt r.status)] := by
    rw [hraw_def, List.filter_cons_of_pos (p := brt_isPs) (brt_ps_status _)]
    congr 1
    rw [List.filter_eq_nil_iff]
    intro kv hkv hps
    have hkr : kv ∈ raw := by rw [hraw_def]; exact List.mem_cons_of_mem _ hkv
    have := ((hrawfacts kv hkr).2.2.2).mp hps
    apply hnd'.1
    rw [this] at hkv
    exact List.mem_map.mpr ⟨_, hkv, rfl⟩
  have hfnp_raw : raw.filter (fun kv => !brt_isPs kv) = r.headers.map Sxg.hraw := by
    rw [hraw_def, List.filter_cons_of_neg (p := fun kv => !brt_isPs kv) (by rw [brt_ps_status]; decide), List.filter_eq_self]
    intro kv hkv
    have hkr : kv ∈ raw := by rw [hraw_def]; exact List.mem_cons_of_mem _ hkv
    cases hps : brt_isPs kv with
    | false => rfl
    | true =>
      exfalso
      have := ((hrawfacts kv hkr).2.2.2).mp hps
      apply hnd'.1
      rw [this] at hkv
      exact List.mem_map.mpr ⟨_, hkv, rfl⟩
  have hfps : rs.filter brt_isPs = [(Sxg.keyStatus, SH.formatInt r.status)] := by
    have := hp.filter brt_isPs
    rw [hfps_raw] at this
    exact List.perm_singleton.mp this
  have hpnp : (rs.filter (fun kv => !brt_isPs kv)).Perm (r.headers.map Sxg.hraw) := by
    have := hp.filter (fun kv => !brt_isPs kv)
    rw [hfnp_raw] at this
    exact this
  have hnd1 : ((rs.filter (fun kv => !brt_isPs kv)).map Prod.fst).Nodup := by
    have h1 : (rs.map Prod.fst).Nodup := ((hp.map Prod.fst).nodup_iff).mpr hnd
    exact List.Nodup.sublist (List.filter_sublist.map Prod.fst) h1
  have hnd2 : ((rs.filter (fun kv => !brt_isPs kv)).map (fun kv => canonicalKey kv.1)).Nodup := by
    unfold List.Nodup at hnd1 ⊢
    rw [List.pairwise_map] at hnd1 ⊢
    refine List.Pairwise.imp_of_mem ?_ hnd1
    intro a b ha hb hab hc
    have ha' := (hrawfacts a (hp.subset (List.mem_filter.mp ha).1)).2.2.1
    have hb' := (hrawfacts b (hp.subset (List.mem_filter.mp hb).1)).2.2.1
    exact hab (Sxg.canonicalKey_inj_lower ha' hb' hc)
  have hloop := brt_hdrLoop rs [] [] [] hcond (by simpa using hnd2) (by rw [hfps]; simp)
  rw [List.append_nil] at hloop
  have hlow : ∀ kv ∈ rs.filter (fun kv => !brt_isPs kv), lowerAscii kv.1 = kv.1 := fun kv hkv =>
    (hrawfacts kv (hp.subset (List.mem_filter.mp hkv).1)).2.2.1
  refine ⟨rs.length, Sxg.flat rs,
    (rs.filter (fun kv => !brt_isPs kv)).map (fun kv : Bytes × Bytes => (canonicalKey kv.1, [kv.2])), ?_, ?_, ?_, ?_⟩
  · rw [hn]
    exact C12.roundtrip_mapHeader _ hn64 _
  · rw [hloop, hfps]; rfl
  · have := hpnp.map (fun kv : Bytes × Bytes => (canonicalKey kv.1, [kv.2]))
    rw [Sxg.normField_eq] at this
    exact this
  · refine ⟨?_, ?_, ?_⟩
    · intro kv hkv
      obtain ⟨x, hx, rfl⟩ := List.mem_map.mp hkv
      dsimp only
      rw [Sxg.lowerAscii_canonicalKey, hlow x hx]
    · intro kv hkv
      obtain ⟨x, hx, rfl⟩ := List.mem_map.mp hkv
      exact ⟨x.2, rfl⟩
    · rw [List.pairwise_map]
      refine List.Pairwise.imp_of_mem ?_ (hsorted.sublist List.filter_sublist)
      intro a b ha hb hab
      unfold bfp_hkey
      dsimp only
      rw [Sxg.lowerAscii_canonicalKey, Sxg.lowerAscii_canonicalKey, hlow a ha, hlow b hb]
      exact hab

/-- `brt_loadResponse_encodeResponse` with the order: the header list that comes back is in normal form -/
theorem bfp_loadResponse_encodeResponse (r : Resp) (x u : Bytes) (off : Nat) (bs : Bytes) (hd : brt_RespDom r)
    (hx : encodeResponse r = .ok x) (hbs : (bs.drop off).take x.length = x) (hb : off + x.length ≤ bs.length)
    (hlen : bs.length < 2 ^ 63) :
    ∃ hs, loadResponse { url := u, offset := off, length := x.length } bs =
        .ok { status := r.status, headers := hs, body := r.body } ∧
      hs.Perm (r.headers.map Sxg.normField) ∧ bfp_NormH hs := by
  obtain ⟨hm, hh, hxe⟩ := encodeResponse_eq r x hx
  have hxe' : x = 0x82 :: (encodeBytes hm ++ encodeBytes r.body) := by
    rw [hxe]; rfl
  have hl1 : hm.length < 2 ^ 63 := by
    have := congrArg List.length hxe'
    simp only [List.length_cons, List.length_append, encodeBytes] at this
    omega
  have hl2 : r.body.length < 2 ^ 63 := by
    have := congrArg List.length hxe'
    simp only [List.length_cons, List.length_append, encodeBytes] at this
    omega
  obtain ⟨n, hbs', hs, e1, e2, e3, e4⟩ := bfp_decode_respHeader r hm hd hh hl1
  obtain ⟨s3, sv⟩ := brt_status3 r.status hd.status.1 hd.status.2
  refine ⟨hs, ?_, e3, e4⟩
  have hw : w64 (off + x.length) = off + x.length := w64_of_lt (by omega)
  have hc : ¬ (w64 (off + x.length) < off ∨ bs.length < w64 (off + x.length)) := by
    rw [hw]; omega
  unfold loadResponse
  dsimp only
  rw [if_neg hc, hbs, hxe']
  dsimp only
  rw [if_neg (by decide), C12.roundtrip_bytes _ hl1]
  dsimp only
  rw [e1]
  dsimp only
  rw [e2]
  dsimp only
  rw [if_neg (by decide), s3, if_neg (by decide)]
  have := C12.roundtrip_bytes r.body hl2 []
  rw [List.append_nil] at this
  rw [this]
  dsimp only
  rw [if_neg (by decide), sv]

/-! ### 3. the index, keeping the order of the index map -/

/-- `brt_parseIndex_enc` with the order: the requests come out strictly ascending in the encoded URL -/
theorem bfp_parseIndex_enc (url : BUrlFacts) (ver : BVer) (idx : Bytes) (S : Nat) (pre : List SectionOffset)
    (respLen : Nat) (post : List SectionOffset) (ents : List IndexEntry)
    (hpre : ∀ s ∈ pre, s.name ≠ nResponses) (hb : S + lenSum pre + respLen < 2 ^ 64)
    (hall0 : ∀ e ∈ ents, utf8Valid e.url = true ∧ indexUrl url e.url = some e.url ∧ e.offset + e.length ≤ respLen)
    (h : encodeMap (ents.map (brt_idxEv ver)) = .ok idx) (hlen : idx.length < 2 ^ 63) :
    ∃ σ : List IndexEntry, σ.Perm ents ∧ σ.Pairwise (fun a c => blt (tstr a.url) (tstr c.url) = true) ∧
      parseIndex url ver idx S (pre ++ { name := nResponses, length := respLen } :: post) =
        some (σ.map (brt_mkReq (S + lenSum pre))) := by
  obtain ⟨sorted, hp, hasc, ho⟩ := C11.encodeMap_layout _ _ h
  obtain ⟨σ, hσ, rfl⟩ := Sxg.perm_map_exists (brt_idxEv ver) sorted ents hp
  have hn : ents.length = σ.length := hσ.length_eq.symm
  have hall : ∀ e ∈ σ, brt_IdxOk url respLen e := by
    intro e he
    obtain ⟨a1, a2, a3⟩ := hall0 e (hσ.subset he)
    refine ⟨a1, ?_, a2, a3⟩
    have hm : (brt_idxEv ver e).1 ++ (brt_idxEv ver e).2 ∈ ((σ.map (brt_idxEv ver)).map fun e => e.1 ++ e.2) :=
      List.mem_map.mpr ⟨brt_idxEv ver e, List.mem_map.mpr ⟨e, he, rfl⟩, rfl⟩
    have h1 := Sxg.length_le_flatten _ _ hm
    have h2 := congrArg List.length ho
    simp only [List.length_append, brt_idxEv_fst, tstr] at h1 h2
    omega
  have hcount := brt_len_le_idxv ver σ
  have hl := congrArg List.length ho
  rw [List.length_append] at hl
  refine ⟨σ, hσ, ?_, ?_⟩
  · unfold StrictAsc at hasc
    rw [List.pairwise_map] at hasc
    refine hasc.imp ?_
    intro a c hac
    rw [brt_idxEv_fst, brt_idxEv_fst] at hac
    exact hac
  unfold parseIndex
  have hmh : decodeMapHeader (encodeHead 5 σ.length ++
      ((σ.map (brt_idxEv ver)).map fun e => e.1 ++ e.2).flatten) = some (σ.length, _) :=
    C12.roundtrip_mapHeader _ (by rw [List.length_map] at hl; omega) _
  rw [ho, List.length_map, hn, hmh]
  dsimp only
  have := brt_findSection pre { name := nResponses, length := respLen } post 0 hpre (by omega)
  dsimp only at this
  rw [this]
  dsimp only
  rw [Nat.zero_add, w64_of_lt (by omega), List.map_map]
  cases ver with
  | b1 =>
    have := brt_indexLoopB1 url respLen (S + lenSum pre) (by omega) σ [] [] hall
    rw [List.append_nil, List.nil_append] at this
    exact this
  | b2 =>
    have := brt_indexLoopB2 url respLen (S + lenSum pre) (by omega) σ [] [] hall
    rw [List.append_nil, List.nil_append] at this
    exact this

/-- `brt_loadMetadata_write` with the order: the requests are strictly ascending in the encoded URL (the order of
    the index map) -/
theorem bfp_loadMetadata_write (url : BUrlFacts) (parseOk : Bytes → Bool) (b : Bundle) (out : Bytes)
    (hd : RDomG url parseOk b) (hw : write b = .ok (.ok out)) (hlen : out.length < 2 ^ 63) :
    ∃ (L σ : List (Exch × Bytes × Nat)) (respOff : Nat),
      L.map (·.1) = b.exchanges ∧ σ.Perm L ∧
      σ.Pairwise (fun a c => blt (tstr a.1.url) (tstr c.1.url) = true) ∧
      (∀ t ∈ L, encodeResponse t.1.resp = .ok t.2.1 ∧ respOff + t.2.2 + t.2.1.length ≤ out.length ∧
        (out.drop (respOff + t.2.2)).take t.2.1.length = t.2.1) ∧
      loadMetadata url parseOk out =
        .ok { version := b.version, primaryURL := b.primaryURL, manifestURL := b.manifestURL,
              signatures := b.signatures, requests := σ.map (brt_reqOf respOff) } := by
  obtain ⟨respBuf, entries, idx, p, m, s, hdr, h1, h2, h3, h4, h5, h6, ho⟩ := write_ok b out hw
  obtain ⟨hpF, hpE⟩ := brt_primarySec b p h3
  obtain ⟨hmF, hmE⟩ := brt_manifestSec b m h4
  obtain ⟨hsF, hsE⟩ := brt_sigsSec b s h5
  -- the exchanges loop
  obtain ⟨L, tail, l1, l2, l3, l4⟩ := brt_addExchanges _ _ _ _ _ h1
  rw [List.nil_append] at l2
  -- the layout of the file
  obtain ⟨footer, hfl, ho'⟩ : ∃ footer : Bytes, footer.length = 9 ∧
      out = bodyOf hdr (sectionsOf idx respBuf p m s) ++ footer := ⟨_, footer_length _, ho⟩
  clear ho
  have hndp0 := sections_nodup idx respBuf p m s
    (by rcases primarySec_ok b p h3 with h | ⟨_, h⟩
        · exact Or.inl h
        · exact Or.inr h)
    (by rcases manifestSec_ok b m h4 with h | ⟨_, h⟩
        · exact Or.inl h
        · exact Or.inr h)
    (sigsSec_ok b s h5)
  have hcnt : (p ++ (m ++ s)).length ≤ 3 := by
    have a1 : p.length ≤ 1 := by
      rcases primarySec_ok b p h3 with h | ⟨_, x, h⟩ <;> rw [h] <;> simp
    have a2 : m.length ≤ 1 := by
      rcases manifestSec_ok b m h4 with h | ⟨_, x, h⟩ <;> rw [h] <;> simp
    have a3 : s.length ≤ 1 := by
      rcases sigsSec_ok b s h5 with h | ⟨x, h⟩ <;> rw [h] <;> simp
    simp only [List.length_append]; omega
  have hsec : sectionsOf idx respBuf p m s = ([(nIndex, idx)] ++ (p ++ (m ++ s))) ++ [(nResponses, respBuf)] := by
    unfold sectionsOf; simp
  generalize hmid : p ++ (m ++ s) = mid at hsec hcnt
  rw [hsec] at ho' hndp0
  unfold bodyOf at ho'
  simp only [List.append_assoc] at ho' hndp0
  have hmidn : ∀ x ∈ mid, x.1 = nPrimary ∨ x.1 = nManifest ∨ x.1 = nSignatures := by
    intro x hx
    rw [← hmid] at hx
    rcases List.mem_append.mp hx with hx | hx
    · exact Or.inl (hpF x hx).1
    · rcases List.mem_append.mp hx with hx | hx
      · exact Or.inr (Or.inl (hmF x hx).1)
      · exact Or.inr (Or.inr (hsF x hx).1)
  have hnames : ∀ x ∈ [(nIndex, idx)] ++ (mid ++ [(nResponses, respBuf)]),
      x.1 = nIndex ∨ x.1 = nPrimary ∨ x.1 = nManifest ∨ x.1 = nSignatures ∨ x.1 = nResponses := by
    intro x hx
    rcases List.mem_append.mp hx with hx | hx
    · rw [List.mem_singleton.mp hx]; exact Or.inl rfl
    · rcases List.mem_append.mp hx with hx | hx
      · rcases hmidn x hx with h | h | h
        · exact Or.inr (Or.inl h)
        · exact Or.inr (Or.inr (Or.inl h))
        · exact Or.inr (Or.inr (Or.inr (Or.inl h)))
      · rw [List.mem_singleton.mp hx]; exact Or.inr (Or.inr (Or.inr (Or.inr rfl)))
  have hall : ∀ x ∈ [(nIndex, idx)] ++ (mid ++ [(nResponses, respBuf)]),
      utf8Valid x.1 = true ∧ x.1.length < 2 ^ 63 := by
    intro x hx
    rcases hnames x hx with h | h | h | h | h <;> rw [h] <;> exact ⟨by decide +kernel, by decide⟩
  have hsl : (lengthsOf ([(nIndex, idx)] ++ (mid ++ [(nResponses, respBuf)]))).length < 8192 := by
    have := brt_lengthsOf_le ([(nIndex, idx)] ++ (mid ++ [(nResponses, respBuf)])) (by
      intro x hx
      rcases hnames x hx with h | h | h | h | h <;> rw [h] <;> decide)
    simp only [List.length_append, List.length_cons, List.length_nil] at this ⊢
    omega
  -- the prologue
  have hmeta : ∀ fallback, brt_metaTail url parseOk b.version out fallback
      (encodeBytes (lengthsOf ([(nIndex, idx)] ++ (mid ++ [(nResponses, respBuf)]))) ++
        (encodeArrayHeader ([(nIndex, idx)] ++ (mid ++ [(nResponses, respBuf)])).length ++
          ((([(nIndex, idx)] ++ (mid ++ [(nResponses, respBuf)])).map (·.2)).flatten ++ footer))) =
      sectionLoop url parseOk b.version out
        (hdr ++ (encodeBytes (lengthsOf ([(nIndex, idx)] ++ (mid ++ [(nResponses, respBuf)]))) ++
          encodeArrayHeader ([(nIndex, idx)] ++ (mid ++ [(nResponses, respBuf)])).length)).length
        (brt_sos ([(nIndex, idx)] ++ (mid ++ [(nResponses, respBuf)])))
        (brt_sos ([(nIndex, idx)] ++ (mid ++ [(nResponses, respBuf)])))
        (hdr ++ (encodeBytes (lengthsOf ([(nIndex, idx)] ++ (mid ++ [(nResponses, respBuf)]))) ++
          encodeArrayHeader ([(nIndex, idx)] ++ (mid ++ [(nResponses, respBuf)])).length)).length
        { version := b.version, primaryURL := fallback, manifestURL := none, signatures := none, requests := [] } := by
    intro fallback
    have := brt_metaTail_sections url parseOk b.version fallback hdr ([(nIndex, idx)] ++ mid) respBuf footer
      (by rw [List.append_assoc]; exact hall) (by rw [List.append_assoc]; exact hndp0)
      (by rw [List.append_assoc]; exact hsl) (by rw [List.append_assoc, ← ho']; exact hlen)
    rw [List.append_assoc, ← ho'] at this
    exact this
  have hload : ∃ fallback, (mid = [] ∨ b.version = .b1 → fallback = b.primaryURL) ∧
      (b.version = .b2 → fallback = none) ∧
      loadMetadata url parseOk out = brt_metaTail url parseOk b.version out fallback
        (encodeBytes (lengthsOf ([(nIndex, idx)] ++ (mid ++ [(nResponses, respBuf)]))) ++
          (encodeArrayHeader ([(nIndex, idx)] ++ (mid ++ [(nResponses, respBuf)])).length ++
            ((([(nIndex, idx)] ++ (mid ++ [(nResponses, respBuf)])).map (·.2)).flatten ++ footer))) := by
    rcases brt_headOf b hdr h6 with ⟨hv, rfl⟩ | ⟨hv, u, t, hu, ht, rfl⟩
    · refine ⟨none, ?_, fun _ => rfl, ?_⟩
      · intro hc
        rcases hc with hc | hc
        · have : p = [] := by
            rw [← hmid] at hc
            exact (List.append_eq_nil_iff.mp hc).1
          exact (hpE this hv).symm
        · rw [hv] at hc; cases hc
      · rw [hv]
        exact brt_loadMetadata_b2 url parseOk out _ (by rw [ho']; exact brt_parseMagic_b2 _)
    · refine ⟨some u, fun _ => hu.symm, fun hc => (by rw [hv] at hc; cases hc), ?_⟩
      obtain ⟨frag, user, abs, hurl, _⟩ := hd.primaryOk u hu
      obtain ⟨hul, _⟩ := brt_encodeText_len u t ht
      have hl := congrArg List.length ho'
      simp only [List.length_append] at hl
      rw [hv]
      refine brt_loadMetadata_b1 url parseOk out (t ++ _) u _ u frag user abs
        (by rw [ho', List.append_assoc]; exact brt_parseMagic_b1 _)
        (C12.roundtrip_text u t (by omega) ht _) hurl
  obtain ⟨fallback, hfb1, hfb2, hload⟩ := hload
  rw [hmeta] at hload
  clear hmeta
  generalize hPRE : hdr ++ (encodeBytes (lengthsOf ([(nIndex, idx)] ++ (mid ++ [(nResponses, respBuf)]))) ++
      encodeArrayHeader ([(nIndex, idx)] ++ (mid ++ [(nResponses, respBuf)])).length) = PRE at hload
  have hout : out = PRE ++ (idx ++ ((mid.map (·.2)).flatten ++ (respBuf ++ footer))) := by
    rw [ho', ← hPRE]
    simp only [List.append_assoc, List.map_append, List.map_cons, List.map_nil, List.flatten_append,
      List.flatten_cons, List.flatten_nil, List.append_nil, List.cons_append, List.nil_append]
  have houtl := congrArg List.length hout
  simp only [List.length_append] at houtl
  -- the index
  have hurls : (entries.map (·.url)).Nodup := by
    rw [l2, List.map_map]
    have : (L.map ((fun e : IndexEntry => e.url) ∘ brt_toEntry)) = (L.map (·.1)).map (·.url) := by
      rw [List.map_map]; rfl
    rw [this, l1]
    exact hd.urlsDistinct
  obtain ⟨hidxmap, hutf8⟩ := brt_finalize_v b.version entries idx hurls h2
  have hsosE : brt_sos ([(nIndex, idx)] ++ (mid ++ [(nResponses, respBuf)])) =
      brt_sos ([(nIndex, idx)] ++ mid) ++ { name := nResponses, length := respBuf.length } :: [] := by
    simp [brt_sos]
  have hlenpre : lenSum (brt_sos ([(nIndex, idx)] ++ mid)) = idx.length + (mid.map (·.2)).flatten.length := by
    rw [brt_lenSum_sos]
    simp
  have hinL : ∀ t ∈ L, t.2.2 + t.2.1.length ≤ respBuf.length := by
    intro t ht
    obtain ⟨_, _, A, B, e, eA⟩ := l4 t ht
    have := congrArg List.length e
    simp only [List.length_append] at this
    omega
  obtain ⟨σe, hσe, hsorted, hpi⟩ := bfp_parseIndex_enc url b.version idx PRE.length (brt_sos ([(nIndex, idx)] ++ mid))
    respBuf.length [] entries (by
      intro so hso
      obtain ⟨x, hx, rfl⟩ := List.mem_map.mp hso
      intro hc
      have hnd' := hndp0
      rw [← List.append_assoc, List.map_append, List.nodup_append] at hnd'
      exact hnd'.2.2 x.1 (List.mem_map.mpr ⟨x, hx, rfl⟩) nResponses (by simp) hc)
    (by rw [hlenpre]; omega)
    (by
      intro e he
      rw [l2] at he
      obtain ⟨t, ht, rfl⟩ := List.mem_map.mp he
      have hmem : t.1 ∈ b.exchanges := by rw [← l1]; exact List.mem_map.mpr ⟨t, ht, rfl⟩
      obtain ⟨isAbs, hu⟩ := hd.urlsOk t.1 hmem
      refine ⟨hutf8 _ (by rw [l2]; exact List.mem_map.mpr ⟨t, ht, rfl⟩), ?_, hinL t ht⟩
      show indexUrl url t.1.url = some t.1.url
      unfold indexUrl
      rw [hu]
      rfl)
    hidxmap (by omega)
  rw [l2] at hσe
  obtain ⟨σ, hσ, rfl⟩ := Sxg.perm_map_exists brt_toEntry σe L hσe
  rw [hlenpre] at hpi
  refine ⟨L, σ, PRE.length + (idx.length + (mid.map (·.2)).flatten.length), l1, hσ, ?_, ?_, ?_⟩
  · rw [List.pairwise_map] at hsorted
    exact hsorted
  · intro t ht
    obtain ⟨a1, _, A, B, e, eA⟩ := l4 t ht
    have := hinL t ht
    refine ⟨a1, by omega, ?_⟩
    have e2 : out = (PRE ++ idx ++ (mid.map (·.2)).flatten ++ A) ++ t.2.1 ++ (B ++ footer) := by
      rw [hout, e]; simp only [List.append_assoc]
    rw [e2]
    exact brt_drop_take _ _ _ _ (by simp only [List.length_append]; omega)
  · -- the section loop
    have hxlen : ∀ x ∈ mid, x.2.length < 2 ^ 63 := by
      intro x hx
      have := Sxg.length_le_flatten _ _ (List.mem_map.mpr ⟨x, hx, rfl⟩ : x.2 ∈ mid.map (·.2))
      omega
    have hpP : ∀ x ∈ p, x.1 = nPrimary ∧ parseUrlSection url x.2 = b.primaryURL := by
      intro x hx
      obtain ⟨hn, u, hu, he, hv⟩ := hpF x hx
      refine ⟨hn, ?_⟩
      obtain ⟨frag, user, abs, hurl, hb2⟩ := hd.primaryOk u hu
      obtain ⟨rfl, rfl, rfl⟩ := hb2 hv
      have hxl := hxlen x (by rw [← hmid]; exact List.mem_append_left _ hx)
      have := brt_encodeText_len u x.2 he
      rw [hu]
      exact brt_parseUrlSection url u x.2 he (by omega) hurl
    have hmP : ∀ x ∈ m, x.1 = nManifest ∧ parseUrlSection url x.2 = b.manifestURL := by
      intro x hx
      obtain ⟨hn, u, hu, he⟩ := hmF x hx
      refine ⟨hn, ?_⟩
      have hxl := hxlen x (by rw [← hmid]; exact List.mem_append_right _ (List.mem_append_left _ hx))
      have := brt_encodeText_len u x.2 he
      rw [hu]
      exact brt_parseUrlSection url u x.2 he (by omega) (hd.manifestOk u hu)
    have hsP : ∀ x ∈ s, x.1 = nSignatures ∧ parseSignatures parseOk x.2 = b.signatures := by
      intro x hx
      obtain ⟨hn, sg, hu, he⟩ := hsF x hx
      refine ⟨hn, ?_⟩
      have hxl := hxlen x (by rw [← hmid]; exact List.mem_append_right _ (List.mem_append_right _ hx))
      rw [hu]
      exact brt_parseSignatures_encode parseOk sg x.2 he hxl (hd.certsOk sg hu) (hd.authIdx sg hu)
    have hsecok : ∀ x ∈ mid, brt_SecOk url parseOk x := by
      intro x hx
      rw [← hmid] at hx
      rcases List.mem_append.mp hx with hx | hx
      · obtain ⟨hn, u, hu, _⟩ := hpF x hx
        exact Or.inl ⟨hn, u, by rw [(hpP x hx).2, hu]⟩
      · rcases List.mem_append.mp hx with hx | hx
        · obtain ⟨hn, u, hu, _⟩ := hmF x hx
          exact Or.inr (Or.inl ⟨hn, u, by rw [(hmP x hx).2, hu]⟩)
        · obtain ⟨hn, sg, hu, _⟩ := hsF x hx
          exact Or.inr (Or.inr ⟨hn, sg, by rw [(hsP x hx).2, hu]⟩)
    have hc1 : (out.drop PRE.length).take idx.length = idx := by
      rw [hout, ← List.append_assoc]
      exact brt_drop_take PRE idx _ _ rfl
    rw [hload, hsosE]
    have e : brt_sos ([(nIndex, idx)] ++ mid) ++ [({ name := nResponses, length := respBuf.length } : SectionOffset)] =
        { name := nIndex, length := idx.length } ::
          (brt_sos mid ++ [({ name := nResponses, length := respBuf.length } : SectionOffset)]) := by
      simp [brt_sos]
    rw [e] at hpi ⊢
    rw [brt_step_index url parseOk b.version out PRE.length _ _ _ PRE.length _ _ rfl (by dsimp only; omega)
      (by omega) (by dsimp only; rw [hc1]; exact hpi)]
    have hmidloop := brt_loop_mid url parseOk b.version out PRE.length
      ({ name := nIndex, length := idx.length } ::
        (brt_sos mid ++ [({ name := nResponses, length := respBuf.length } : SectionOffset)]))
      (respBuf ++ footer) [{ name := nResponses, length := respBuf.length }]
      (by rw [List.length_append]; omega) (by omega) mid (PRE ++ idx)
      { version := b.version, primaryURL := fallback, manifestURL := none, signatures := none,
        requests := (σ.map brt_toEntry).map (brt_mkReq (PRE.length + (idx.length + (mid.map (·.2)).flatten.length))) }
      (by rw [hout]; simp only [List.append_assoc]) hsecok
    rw [List.length_append] at hmidloop
    dsimp only
    rw [hmidloop, brt_step_responses _ _ _ _ _ _ _ _ _ _ rfl, sectionLoop]
    -- the accumulated metadata
    rw [← hmid, List.foldl_append, List.foldl_append, brt_foldl_primary url parseOk b.primaryURL p _ hpP,
      brt_foldl_manifest url parseOk b.manifestURL m _ hmP, brt_foldl_sigs url parseOk b.signatures s _ hsP]
    have f1 : (if p.isEmpty = true then fallback else b.primaryURL) = b.primaryURL := by
      cases p with
      | nil =>
        cases hv : b.version with
        | b1 => exact hfb1 (Or.inr hv)
        | b2 => rw [hfb2 hv, hpE rfl hv]; rfl
      | cons x tl => rfl
    have f2 : (if m.isEmpty = true then (none : Option Bytes) else b.manifestURL) = b.manifestURL := by
      cases m with
      | nil => rw [hmE rfl]; rfl
      | cons x tl => rfl
    have f3 : (if s.isEmpty = true then (none : Option Sigs) else b.signatures) = b.signatures := by
      cases s with
      | nil => rw [hsE rfl]; rfl
      | cons x tl => rfl
    dsimp only
    rw [f1, f2, f3, List.map_map]
    rfl

/-! ### 4. the round trip with the order information -/

theorem bfp_forall₂_map_imp {α β γ δ : Type} (f : α → β) (g : α → γ) {R : β → δ → Prop} {S : γ → δ → Prop} :
    ∀ (as : List α) (ds : List δ), (∀ a ∈ as, ∀ d, R (f a) d → S (g a) d) → Forall₂ R (as.map f) ds →
      Forall₂ S (as.map g) ds := by
  intro as
  induction as with
  | nil =>
    intro ds _ h
    cases h
    exact Forall₂.nil
  | cons a rest ih =>
    intro ds himp h
    rw [List.map_cons] at h
    cases h with
    | cons h1 h2 =>
      rw [List.map_cons]
      exact Forall₂.cons (himp a (by simp) _ h1) (ih _ (fun x hx => himp x (List.mem_cons_of_mem _ hx)) h2)

theorem bfp_forall₂_eq {α : Type} {R : α → α → Prop} {as bs : List α} (h : Forall₂ R as bs)
    (himp : ∀ a ∈ as, ∀ b, R a b → b = a) : bs = as := by
  induction h with
  | nil => rfl
  | cons hab _ ih =>
    rw [himp _ (by simp) _ hab, ih (fun a ha => himp a (List.mem_cons_of_mem _ ha))]

theorem bfp_forall₂_map_eq {α β γ : Type} {R : α → β → Prop} (k' : α → γ) (k : β → γ) {as : List α} {bs : List β}
    (h : Forall₂ R as bs) (himp : ∀ a b, R a b → k b = k' a) : bs.map k = as.map k' := by
  induction h with
  | nil => rfl
  | cons hab _ ih => rw [List.map_cons, List.map_cons, himp _ _ hab, ih]

theorem bfp_forall₂_mem {α β : Type} {R : α → β → Prop} {as : List α} {bs : List β} (h : Forall₂ R as bs) :
    ∀ b ∈ bs, ∃ a ∈ as, R a b := by
  induction h with
  | nil => intro b hb; cases hb
  | cons hab _ ih =>
    intro b hb
    rcases List.mem_cons.mp hb with rfl | hb
    · exact ⟨_, by simp, hab⟩
    · obtain ⟨a, ha, hr⟩ := ih b hb
      exact ⟨a, List.mem_cons_of_mem _ ha, hr⟩

/-- how the exchange `t` that was written comes back as `e`: same URL, status and body; the header fields of `t`
    normalised (`Sxg.normField kv = (canonicalKey (lowerAscii kv.1), [joinComma kv.2])`) and arranged in normal form -/
def bfp_Back (t e : Exch) : Prop :=
  e.url = t.url ∧ e.resp.status = t.resp.status ∧ e.resp.body = t.resp.body ∧
    e.resp.headers.Perm (t.resp.headers.map Sxg.normField) ∧ bfp_NormH e.resp.headers

/-- `read_write` with the order information: `σ`, the order in which the exchanges come back, is the arrangement of
    the written exchanges that is strictly ascending in the encoded URL, and every header list comes back in normal form -/
theorem bfp_read_write (url : BUrlFacts) (parseOk : Bytes → Bool) (b : Bundle) (out : Bytes)
    (hd : RDomG url parseOk b) (hw : write b = .ok (.ok out)) (hlen : out.length < 2 ^ 63) :
    ∃ (b' : Bundle) (σ : List Exch), read url parseOk out = .ok b' ∧ b'.version = b.version ∧
      b'.primaryURL = b.primaryURL ∧ b'.manifestURL = b.manifestURL ∧ b'.signatures = b.signatures ∧
      σ.Perm b.exchanges ∧ σ.Pairwise (fun a c => blt (tstr a.url) (tstr c.url) = true) ∧
      Forall₂ bfp_Back σ b'.exchanges := by
  obtain ⟨L, σL, respOff, l1, hσ, hsorted, hL, hmeta⟩ := bfp_loadMetadata_write url parseOk b out hd hw hlen
  have hone : ∀ t ∈ σL, ∃ hs, loadResponse (brt_reqOf respOff t) out =
      .ok { status := t.1.resp.status, headers := hs, body := t.1.resp.body } ∧
      hs.Perm (t.1.resp.headers.map Sxg.normField) ∧ bfp_NormH hs := by
    intro t ht
    have htL := hσ.subset ht
    obtain ⟨a1, a2, a3⟩ := hL t htL
    have hmem : t.1 ∈ b.exchanges := by rw [← l1]; exact List.mem_map.mpr ⟨t, htL, rfl⟩
    exact bfp_loadResponse_encodeResponse t.1.resp t.2.1 t.1.url (respOff + t.2.2) out
      ⟨hd.status t.1 hmem, hd.hdrAscii t.1 hmem⟩ a1 a3 a2 hlen
  obtain ⟨es, hlr, hf⟩ := brt_loadResponses out (σL.map (brt_reqOf respOff)) [] (by
    intro r hr
    obtain ⟨t, ht, rfl⟩ := List.mem_map.mp hr
    obtain ⟨hs, h1, _⟩ := hone t ht
    exact ⟨_, h1⟩)
  rw [List.nil_append] at hlr
  refine ⟨{ version := b.version, primaryURL := b.primaryURL, exchanges := es, manifestURL := b.manifestURL,
            signatures := b.signatures }, σL.map (·.1), ?_, rfl, rfl, rfl, rfl, ?_, ?_, ?_⟩
  · unfold read
    rw [hmeta]
    dsimp only
    rw [hlr]
  · rw [← l1]; exact hσ.map _
  · rw [List.pairwise_map]
    exact hsorted
  · refine bfp_forall₂_map_imp (brt_reqOf respOff) (·.1) σL es ?_ hf
    intro t ht e ⟨hu, hr⟩
    obtain ⟨hs, hl, hperm, hnorm⟩ := hone t ht
    rw [hl] at hr
    injection hr with hr
    refine ⟨hu, ?_, ?_, ?_, ?_⟩
    · rw [← hr]
    · rw [← hr]
    · rw [← hr]; exact hperm
    · rw [← hr]; exact hnorm

/-! ### 5. the normal form is reached after one cycle, and it is a fixpoint -/

/-- **(1) what `Read` returns is in read-back form**: reading a bundle that `WriteTo` wrote gives a bundle whose
    exchanges are listed in index order and whose header lists are canonical, single-valued and in header-map order. -/
theorem read_normal (url : BUrlFacts) (parseOk : Bytes → Bool) (b : Bundle) (out : Bytes)
    (hd : RDomG url parseOk b) (hw : write b = .ok (.ok out)) (hlen : out.length < 2 ^ 63) :
    ∃ b', read url parseOk out = .ok b' ∧ Normal b' := by
  obtain ⟨b', σ, hr, _, _, _, _, _, hsorted, hf⟩ := bfp_read_write url parseOk b out hd hw hlen
  refine ⟨b', hr, ?_, ?_⟩
  · have hu : b'.exchanges.map (·.url) = σ.map (·.url) := bfp_forall₂_map_eq (·.url) (·.url) hf (fun _ _ h => h.1)
    have h1 : (σ.map (·.url)).Pairwise (fun x y => blt (tstr x) (tstr y) = true) := by
      rw [List.pairwise_map]; exact hsorted
    rw [← hu, List.pairwise_map] at h1
    exact h1
  · intro e he
    obtain ⟨t, _, hb⟩ := bfp_forall₂_mem hf e he
    exact hb.2.2.2.2

/-- an exchange whose header list is in normal form comes back as itself -/
theorem bfp_Back_normal (t e : Exch) (hn : bfp_NormH t.resp.headers) (h : bfp_Back t e) : e = t := by
  obtain ⟨h1, h2, h3, h4, h5⟩ := h
  rw [bfp_normField_id _ hn] at h4
  have h6 := bfp_NormH_unique _ _ h4 h5 hn
  obtain ⟨eu, ⟨es, eh, eb⟩⟩ := e
  obtain ⟨tu, ⟨ts, th, tb⟩⟩ := t
  dsimp only at h1 h2 h3 h6
  rw [h1, h2, h3, h6]

/-- **(2) `Read ∘ WriteTo` is the identity on bundles in read-back form** (exact equality: same order of the exchanges,
    same header lists). -/
theorem read_write_normal (url : BUrlFacts) (parseOk : Bytes → Bool) (b : Bundle) (out : Bytes)
    (hn : Normal b) (hd : RDomG url parseOk b) (hw : write b = .ok (.ok out)) (hlen : out.length < 2 ^ 63) :
    read url parseOk out = .ok b := by
  obtain ⟨b', σ, hr, h1, h2, h3, h4, hperm, hsorted, hf⟩ := bfp_read_write url parseOk b out hd hw hlen
  have hσ : σ = b.exchanges := bfp_perm_eq_of_strict (fun e : Exch => tstr e.url) σ b.exchanges hperm hsorted hn.order
  rw [hσ] at hf
  have hex : b'.exchanges = b.exchanges :=
    bfp_forall₂_eq hf (fun t ht e hb => bfp_Back_normal t e (hn.headers t ht) hb)
  rw [hr]
  obtain ⟨v', p', e', m', s'⟩ := b'
  obtain ⟨v, p, e, m, s⟩ := b
  dsimp only at h1 h2 h3 h4 hex
  rw [h1, h2, h3, h4, hex]

/-- the format constraints `RDomG` carry over to the bundle that is read back -/
theorem bfp_RDomG_read (url : BUrlFacts) (parseOk : Bytes → Bool) (b b' : Bundle) (σ : List Exch)
    (hd : RDomG url parseOk b) (h1 : b'.version = b.version) (h2 : b'.primaryURL = b.primaryURL)
    (h3 : b'.manifestURL = b.manifestURL) (h4 : b'.signatures = b.signatures) (hperm : σ.Perm b.exchanges)
    (hf : Forall₂ bfp_Back σ b'.exchanges) : RDomG url parseOk b' := by
  have hback : ∀ e ∈ b'.exchanges, ∃ t ∈ b.exchanges, bfp_Back t e := by
    intro e he
    obtain ⟨t, ht, hb⟩ := bfp_forall₂_mem hf e he
    exact ⟨t, hperm.subset ht, hb⟩
  refine ⟨?_, ?_, ?_, ?_, ?_, ?_, ?_, ?_⟩
  · intro e he
    obtain ⟨t, ht, hb⟩ := hback e he
    rw [hb.1]
    exact hd.urlsOk t ht
  · have hu : b'.exchanges.map (·.url) = σ.map (·.url) := bfp_forall₂_map_eq (·.url) (·.url) hf (fun _ _ h => h.1)
    rw [hu]
    exact ((hperm.map (·.url)).nodup_iff).mpr hd.urlsDistinct
  · intro u hu
    rw [h2] at hu
    rw [h1]
    exact hd.primaryOk u hu
  · intro u hu
    rw [h3] at hu
    exact hd.manifestOk u hu
  · intro e he
    obtain ⟨t, ht, hb⟩ := hback e he
    rw [hb.2.1]
    exact hd.status t ht
  · intro e he kv hkv
    obtain ⟨t, ht, hb⟩ := hback e he
    have hkv' := hb.2.2.2.1.subset hkv
    obtain ⟨x, hx, rfl⟩ := List.mem_map.mp hkv'
    obtain ⟨a1, a2, a3⟩ := hd.hdrAscii t ht x hx
    refine ⟨bfp_isAscii_canonicalKey _ (Sxg.isAscii_lowerAscii _ a1), ?_, bfp_head_canonicalKey _ (brt_head_lower _ a3)⟩
    intro v hv
    rw [show (Sxg.normField x).2 = [joinComma x.2] from rfl, List.mem_singleton] at hv
    rw [hv]
    exact brt_isAscii_joinComma _ a2
  · intro s hs
    rw [h4] at hs
    exact hd.certsOk s hs
  · intro s hs
    rw [h4] at hs
    exact hd.authIdx s hs

/-! #### `WriteTo` accepts the bundle that was read back -/

theorem bfp_hraw_normField (kv : Bytes × List Bytes) : Sxg.hraw (Sxg.normField kv) = Sxg.hraw kv := by
  unfold Sxg.hraw Sxg.normField
  dsimp only
  rw [Sxg.lowerAscii_canonicalKey, Sxg.lowerAscii_idem, bfp_joinComma_single]

/-- the encoded response depends on the header list only through the set of normalised fields: an exchange and its
    read-back form have the same encoding -/
theorem bfp_encodeResponse_back (t e : Exch) (hb : bfp_Back t e) : encodeResponse e.resp = encodeResponse t.resp := by
  obtain ⟨_, h2, h3, h4, _⟩ := hb
  have hperm : (Sxg.headerEntries e.resp.headers).Perm (Sxg.headerEntries t.resp.headers) := by
    rw [Sxg.headerEntries_eq_rt, Sxg.headerEntries_eq_rt]
    have := (h4.map Sxg.hraw).map Sxg.encE
    have e : t.resp.headers.map (Sxg.hraw ∘ Sxg.normField) = t.resp.headers.map Sxg.hraw :=
      List.map_congr_left (fun kv _ => bfp_hraw_normField kv)
    rw [List.map_map (l := t.resp.headers), e] at this
    exact this
  have hh : encodeRespHeader e.resp = encodeRespHeader t.resp := by
    unfold encodeRespHeader
    rw [h2]
    exact C11.encodeMap_perm _ _ (List.Perm.cons _ hperm)
  unfold encodeResponse
  rw [hh, h3]

theorem bfp_addExchanges_ok : ∀ (es : List Exch) (buf : Bytes) (acc : List IndexEntry),
    (∀ e ∈ es, ∃ r, encodeResponse e.resp = .ok r) →
    ∃ buf' acc', addExchanges es buf acc = .ok (buf', acc') ∧
      acc'.map (·.url) = acc.map (·.url) ++ es.map (·.url) := by
  intro es
  induction es with
  | nil => intro buf acc _; exact ⟨buf, acc, rfl, by simp⟩
  | cons e rest ih =>
    intro buf acc h
    obtain ⟨r, hr⟩ := h e (by simp)
    obtain ⟨buf', acc', h1, h2⟩ := ih (buf ++ r)
      (acc ++ [{ url := e.url, variants := joinComma (rawValues e.resp.headers hVariants),
                 variantKey := joinComma (rawValues e.resp.headers hVariantKey), offset := buf.length,
                 length := r.length }])
      (fun x hx => h x (List.mem_cons_of_mem _ hx))
    refine ⟨buf', acc', ?_, ?_⟩
    · rw [addExchanges, hr]
      exact h1
    · rw [h2]; simp

theorem bfp_encodeMap_ok (es : List Entry) (hnd : (es.map Prod.fst).Nodup) : ∃ out, encodeMap es = .ok out := by
  unfold encodeMap
  dsimp only
  rw [(hasAdjDup_sort_iff es).mpr hnd]
  exact ⟨_, rfl⟩

/-- `Finalize` succeeds on entries with pairwise distinct, valid UTF-8 URLs -/
theorem bfp_finalize_ok (ver : BVer) (entries : List IndexEntry) (hndk : ((entries.map (·.url)).map tstr).Nodup)
    (hutf : ∀ e ∈ entries, utf8Valid e.url = true) : ∃ idx, finalizeIndex ver entries = .ok (.ok idx) := by
  have hnd : (entries.map (·.url)).Nodup := Sxg.nodup_of_map _ _ hndk
  have hg := brt_groupByUrl_nodup entries [] (by simpa using hnd)
  rw [List.nil_append] at hg
  have h1 : ¬ ((groupByUrl entries []).any (fun g => !utf8Valid g.1) = true) := by
    rw [hg]
    intro hc
    obtain ⟨g, hgm, hgv⟩ := List.any_eq_true.mp hc
    obtain ⟨e, he, rfl⟩ := List.mem_map.mp hgm
    rw [hutf e he] at hgv
    cases hgv
  have hkeys : ∀ (f : IndexEntry → Entry), (∀ e, (f e).1 = tstr e.url) → ((entries.map f).map Prod.fst).Nodup := by
    intro f hf
    rw [List.map_map]
    have : entries.map (Prod.fst ∘ f) = (entries.map (·.url)).map tstr := by
      rw [List.map_map]
      apply List.map_congr_left
      intro e _
      exact hf e
    rw [this]
    exact hndk
  cases ver with
  | b2 =>
    have h2 : ¬ ((groupByUrl entries []).any (fun g => decide (g.2.length > 1)) = true) := by
      rw [hg]
      intro hc
      obtain ⟨g, hgm, hgv⟩ := List.any_eq_true.mp hc
      obtain ⟨e, he, rfl⟩ := List.mem_map.mp hgm
      simp at hgv
    obtain ⟨idx, hidx⟩ := bfp_encodeMap_ok
      ((groupByUrl entries []).map fun (g : Bytes × List IndexEntry) =>
        (tstr g.1, encodeArrayHeader 2 ++ (g.2.map fun e => encodeUint e.offset ++ encodeUint e.length).flatten))
      (by
        have := hkeys (fun e : IndexEntry => (tstr e.url, encodeArrayHeader 2 ++
          ([e].map fun e => encodeUint e.offset ++ encodeUint e.length).flatten)) (fun e => rfl)
        rw [List.map_map] at this
        rw [hg, List.map_map, List.map_map]
        exact this)
    refine ⟨idx, ?_⟩
    unfold finalizeIndex
    dsimp only
    rw [if_neg h1, if_neg h2, hidx]
  | b1 =>
    rw [finalizeIndex_b1_eq, if_neg h1, hg,
      brt_mapM_map buildB1 (fun e : IndexEntry => (e.url, [e])) brt_idxE1 (by
        intro e
        unfold buildB1
        rw [if_neg (by simp)]
        simp [brt_idxE1])]
    obtain ⟨idx, hidx⟩ := bfp_encodeMap_ok (entries.map brt_idxE1) (hkeys brt_idxE1 (fun e => rfl))
    exact ⟨idx, by dsimp only; rw [hidx]⟩

/-- **`WriteTo` accepts what `Read` returned**: if `b` was written successfully and `b'` has the same version, URLs
    and signatures, the same resource URLs (in any order, pairwise distinct) and responses that can be encoded, then
    `b'` is written successfully too. -/
theorem bfp_write_ok_of (b b' : Bundle) (out : Bytes) (hw : write b = .ok (.ok out))
    (h1 : b'.version = b.version) (h2 : b'.primaryURL = b.primaryURL) (h3 : b'.manifestURL = b.manifestURL)
    (h4 : b'.signatures = b.signatures) (hnd : (b.exchanges.map (·.url)).Nodup)
    (hurls : (b'.exchanges.map (·.url)).Perm (b.exchanges.map (·.url)))
    (henc : ∀ e ∈ b'.exchanges, ∃ r, encodeResponse e.resp = .ok r) : ∃ out', write b' = .ok (.ok out') := by
  obtain ⟨respBuf, entries, idx, p, m, s, hdr, w1, w2, w3, w4, w5, w6, _⟩ := write_ok b out hw
  obtain ⟨_, _, _, _, wurl, _⟩ := addExchanges_top b respBuf entries w1
  obtain ⟨hmap, hutf⟩ := brt_finalize_v b.version entries idx (by rw [wurl]; exact hnd) w2
  have hndk : ((entries.map (·.url)).map tstr).Nodup := by
    have : ((entries.map (brt_idxEv b.version)).map Prod.fst).Nodup := by
      apply Classical.byContradiction
      intro hn
      rw [(C11.encodeMap_dup_iff _).mpr hn] at hmap
      cases hmap
    rw [List.map_map] at this ⊢
    have e : entries.map (Prod.fst ∘ brt_idxEv b.version) = entries.map (tstr ∘ fun e => e.url) :=
      List.map_congr_left (fun e _ => brt_idxEv_fst _ e)
    rw [← e]
    exact this
  obtain ⟨respBuf', entries', a1, a2⟩ := bfp_addExchanges_ok b'.exchanges (encodeArrayHeader b'.exchanges.length) [] henc
  rw [List.map_nil, List.nil_append] at a2
  have hperm' : (entries'.map (·.url)).Perm (entries.map (·.url)) := by rw [a2, wurl]; exact hurls
  obtain ⟨idx', hidx'⟩ := bfp_finalize_ok b'.version entries'
    (((hperm'.map tstr).nodup_iff).mpr hndk)
    (by
      intro e he
      have : e.url ∈ entries.map (·.url) := hperm'.subset (List.mem_map.mpr ⟨e, he, rfl⟩)
      obtain ⟨e0, he0, hu⟩ := List.mem_map.mp this
      rw [← hu]
      exact hutf e0 he0)
  have e3 : primarySec b' = .ok p := by
    rw [← w3]; unfold primarySec; rw [h1, h2]
  have e4 : manifestSec b' = .ok m := by
    rw [← w4]; unfold manifestSec; rw [h1, h3]
  have e5 : sigsSec b' = .ok s := by
    rw [← w5]; unfold sigsSec; rw [h4]
  have e6 : headOf b' = .ok (.ok hdr) := by
    rw [← w6]; unfold headOf; rw [h1, h2]
  have hwt : writeTail b' idx' respBuf' = .ok (.ok (bodyOf hdr (sectionsOf idx' respBuf' p m s) ++
      encodeBytes (beBytes 8 ((bodyOf hdr (sectionsOf idx' respBuf' p m s)).length + 9)))) := by
    unfold writeTail
    rw [e3, e4, e5]
    dsimp only
    rw [e6]
  exact ⟨_, by rw [write_eq, a1]; dsimp only; rw [hidx']; exact hwt⟩

/-- **(3) byte-identical fixpoint after one cycle.**  Let `b` be any bundle in the domain `RDomG` of `read_write`
    (one representation per URL, URLs that print as themselves, three-digit status codes, ASCII header fields, …)
    that `WriteTo` accepts, giving `out₁` (shorter than `2^63` bytes).  Then
      * `Read out₁` succeeds with a bundle `b₁` that is in read-back form (`Normal`) and again in the domain;
      * `WriteTo b₁` succeeds, with some `out₂` (`out₂` differs from `out₁` when `b` was not in read-back form: the
        responses are laid out in the order of the exchange list, and the offsets in the index change with it — this
        is also why the length of `out₂` is not determined by that of `out₁`);
      * provided `out₂` is shorter than `2^63` bytes, `Read out₂` gives `b₁` again — exactly, with the same order of
        exchanges and of header fields — and therefore everything `Read out₂` can return re-serialises to `out₂`,
        byte for byte (`write` is a function, so from here on every further `WriteTo` / `Read` cycle reproduces
        `out₂` and `b₁`).
    `url` (net/url `Parse` + `String`) and `parseOk` (x509 `ParseCertificate`) are the external functions of the
    reader; nothing is assumed about them beyond `RDomG` (in particular no idempotence hypothesis is needed: `RDomG`
    already says that the URLs of `b` print as themselves, and reading does not change them). -/
theorem read_write_fixpoint (url : BUrlFacts) (parseOk : Bytes → Bool) (b : Bundle) (out₁ : Bytes)
    (hd : RDomG url parseOk b) (hw₁ : write b = .ok (.ok out₁)) (hlen₁ : out₁.length < 2 ^ 63) :
    ∃ b₁ out₂, read url parseOk out₁ = .ok b₁ ∧ Normal b₁ ∧ RDomG url parseOk b₁ ∧
      write b₁ = .ok (.ok out₂) ∧
      (out₂.length < 2 ^ 63 →
        read url parseOk out₂ = .ok b₁ ∧
        ∀ b₂, read url parseOk out₂ = .ok b₂ → write b₂ = .ok (.ok out₂)) := by
  obtain ⟨b₁, σ, hr, h1, h2, h3, h4, hperm, hsorted, hf⟩ := bfp_read_write url parseOk b out₁ hd hw₁ hlen₁
  obtain ⟨b₁', hr', hn⟩ := read_normal url parseOk b out₁ hd hw₁ hlen₁
  rw [hr] at hr'
  injection hr' with hr'
  subst hr'
  have hd₁ := bfp_RDomG_read url parseOk b b₁ σ hd h1 h2 h3 h4 hperm hf
  -- `WriteTo b₁` succeeds
  have hu : b₁.exchanges.map (·.url) = σ.map (·.url) := bfp_forall₂_map_eq (·.url) (·.url) hf (fun _ _ h => h.1)
  obtain ⟨respBuf, entries, _, _, _, _, _, w1, _⟩ := write_ok b out₁ hw₁
  obtain ⟨rs, _, _, wenc, _⟩ := addExchanges_top b respBuf entries w1
  obtain ⟨out₂, hw₂⟩ := bfp_write_ok_of b b₁ out₁ hw₁ h1 h2 h3 h4 hd.urlsDistinct
    (by rw [hu]; exact hperm.map _)
    (by
      intro e he
      obtain ⟨t, ht, hb⟩ := bfp_forall₂_mem hf e he
      have hm : encodeResponse t.resp ∈ b.exchanges.map (fun e => encodeResponse e.resp) :=
        List.mem_map.mpr ⟨t, hperm.subset ht, rfl⟩
      rw [wenc] at hm
      obtain ⟨r, _, hr⟩ := List.mem_map.mp hm
      exact ⟨r, by rw [bfp_encodeResponse_back t e hb, hr]⟩)
  refine ⟨b₁, out₂, hr, hn, hd₁, hw₂, ?_⟩
  intro hlen₂
  have hr₂ := read_write_normal url parseOk b₁ out₂ hn hd₁ hw₂ hlen₂
  refine ⟨hr₂, ?_⟩
  intro b₂ hb₂
  rw [hr₂] at hb₂
  injection hb₂ with hb₂
  rw [← hb₂]
  exact hw₂

/-- (3), in the form "write, read, write, read": the second read returns the first read's bundle, and whatever is
    read from `out₂` is written back as `out₂`. -/
theorem write_read_fixpoint (url : BUrlFacts) (parseOk : Bytes → Bool) (b b₁ : Bundle) (out₁ out₂ : Bytes)
    (hd : RDomG url parseOk b) (hw₁ : write b = .ok (.ok out₁)) (hlen₁ : out₁.length < 2 ^ 63)
    (hr₁ : read url parseOk out₁ = .ok b₁) (hw₂ : write b₁ = .ok (.ok out₂)) (hlen₂ : out₂.length < 2 ^ 63) :
    read url parseOk out₂ = .ok b₁ ∧ ∀ b₂, read url parseOk out₂ = .ok b₂ → write b₂ = .ok (.ok out₂) := by
  obtain ⟨b₁', out₂', hr, _, _, hw, hfix⟩ := read_write_fixpoint url parseOk b out₁ hd hw₁ hlen₁
  rw [hr₁] at hr
  injection hr with hr
  subst hr
  rw [hw₂] at hw
  injection hw with hw
  injection hw with hw
  subst hw
  exact hfix hlen₂

/-! ### non-vacuity: the one-resource bundle of `brt_ex_roundtrip` is in read-back form and is its own fixpoint -/

theorem bfp_ex_normal : Normal brt_exBundle where
  order := by simp [brt_exBundle]
  headers := by
    intro e he
    rw [List.mem_singleton.mp he]
    exact ⟨fun _ h => (by cases h), fun _ h => (by cases h), List.Pairwise.nil⟩

theorem bfp_ex_fixpoint : ∃ out, write brt_exBundle = .ok (.ok out) ∧
    read (fun s => some (false, false, true, s)) (fun _ => true) out = .ok brt_exBundle := by
  obtain ⟨out, hw, hl⟩ := brt_ex_write
  obtain ⟨hg, _⟩ := brt_RDomG_of_b2 _ (fun _ => true) brt_exBundle out rfl brt_ex_dom hw
  exact ⟨out, hw, read_write_normal _ _ brt_exBundle out bfp_ex_normal hg hw hl⟩

end WebPkg.Bundle
