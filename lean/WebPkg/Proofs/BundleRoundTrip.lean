import WebPkg.Proofs.BundleWF
import WebPkg.Proofs.BundleSafe
import WebPkg.Proofs.SxgRoundTrip
import WebPkg.Proofs.CertChain
import WebPkg.Properties.C11
import WebPkg.Properties.C12
/-
  Write → read round trip for the Web Bundle model (Model/Bundle.lean): `read url parseOk out` recovers the
  bundle from `write b = .ok (.ok out)`.

  Contents
    1   brt_hdrLoop, brt_decode_respHeader, brt_loadResponse_encodeResponse
                                        `loadResponse` on one `[headers, payload]` item of the writer
    2   brt_indexLoopB2, brt_indexEntriesB2_encode, brt_parseIndex_b2
                                        the reader's b2 index loop over the writer's index map
    3   brt_parseMagic_*, brt_decodeSectionLengths, brt_metaTail_sections, brt_findSection, brt_step_*
                                        prologue of `loadMetadata` and the steps of its section loop
    4   brt_addExchanges, brt_groupByUrl_nodup, brt_finalize_b2, brt_loadResponses, brt_read_of_meta
                                        the writer's loop / index, and from the metadata to the bundle
    5a  brt_encodeSignatures, brt_parseSignatures_encode      signatures section (uses Proofs/CertChain)
    5b  brt_indexLoopB1, brt_parseIndex_enc, brt_finalize_b1  b1 index, one resource per URL
    5c  brt_loop_mid, brt_loadMetadata_write                  optional sections; `loadMetadata ∘ write`, both versions
    5d  read_write                                            the round trip, both versions, all sections
        RDom, brt_write_b2_urlsDistinct, brt_loadMetadata_write_b2, read_write_b2
                                                              version b2 without signatures (corollary)
        brt_ex_roundtrip                                      non-vacuity

  `out.length < 2 ^ 63` (Go slice lengths are `int`) is needed instead of `< 2 ^ 64`: the CBOR decoder rejects byte
  strings of 2^63 bytes or more (fix F3), so a body of that size would not be read back.
-/
namespace WebPkg.Bundle
open WebPkg.Cbor WebPkg.Http

/-! ### small list facts -/

theorem brt_any_fst_false {α : Type} (l : List (Bytes × α)) (k : Bytes) (hk : k ∉ l.map Prod.fst) :
    l.any (fun x => x.1 == k) = false := by
  cases hh : l.any (fun x => x.1 == k) with
  | false => rfl
  | true =>
    exfalso
    obtain ⟨x, hx, hxe⟩ := List.any_eq_true.mp hh
    exact hk (List.mem_map.mpr ⟨x, hx, by simpa using hxe⟩)

theorem brt_drop_take (A c B : Bytes) (n : Nat) (h : A.length = n) : ((A ++ c ++ B).drop n).take c.length = c := by
  rw [List.append_assoc, List.drop_left' h, List.take_left' rfl]

/-! ### 1. one response -/

/-- pseudo header fields (names starting with ':') -/
def brt_isPs (kv : Bytes × Bytes) : Bool := kv.1.head? == some 58

/-- what `decodeCborHeaders` needs of one emitted (name, value) pair -/
structure brt_EntryOk (kv : Bytes × Bytes) : Prop where
  l1 : kv.1.length < 2 ^ 63
  l2 : kv.2.length < 2 ^ 63
  a1 : isAscii kv.1 = true
  a2 : isAscii kv.2 = true
  lower : lowerAscii kv.1 = kv.1

/-- the header-map loop of `decodeCborHeaders` consumes exactly the emitted entries: pseudo fields go to the second
    component, the others are stored under their canonical name, both in the emitted order -/
theorem brt_hdrLoop : ∀ (rs : List (Bytes × Bytes)) (tail : Bytes) (h : Headers) (p : List (Bytes × Bytes)),
    (∀ kv ∈ rs, brt_EntryOk kv) →
    (h.map Prod.fst ++ (rs.filter (fun kv => !brt_isPs kv)).map (fun kv => canonicalKey kv.1)).Nodup →
    (p.map Prod.fst ++ (rs.filter brt_isPs).map Prod.fst).Nodup →
    decodeHeaderEntries rs.length (Sxg.flat rs ++ tail) h p =
      some (h ++ (rs.filter (fun kv => !brt_isPs kv)).map (fun kv => (canonicalKey kv.1, [kv.2])),
            p ++ rs.filter brt_isPs) := by
  intro rs
  induction rs with
  | nil => intro tail h p _ _ _; simp [Sxg.flat, decodeHeaderEntries]
  | cons kv rest ih =>
    intro tail h p hall hn1 hn2
    have hok := hall kv (by simp)
    have hrest : ∀ kv ∈ rest, brt_EntryOk kv := fun kv' hkv' => hall kv' (List.mem_cons_of_mem _ hkv')
    rw [Sxg.flat_cons, List.length_cons, decodeHeaderEntries, C12.roundtrip_bytes _ hok.l1]
    dsimp only
    rw [C12.roundtrip_bytes _ hok.l2]
    dsimp only
    have c1 : ¬ ((!isAscii kv.1 || !isAscii kv.2) = true) := by rw [hok.a1, hok.a2]; decide
    have c2 : ¬ (lowerAscii kv.1 ≠ kv.1) := fun hne => hne hok.lower
    rw [if_neg c1, if_neg c2]
    by_cases hps : kv.1.head? = some 58
    · have hps' : brt_isPs kv = true := by simp [brt_isPs, hps]
      rw [if_pos hps]
      rw [List.filter_cons_of_pos (p := brt_isPs) hps'] at hn2 ⊢
      rw [List.filter_cons_of_neg (p := fun kv => !brt_isPs kv) (a := kv) (by simp [hps'])] at hn1 ⊢
      have hfresh : kv.1 ∉ p.map Prod.fst := by
        intro hm
        exact (List.nodup_append.mp hn2).2.2 _ hm kv.1 (by simp) rfl
      rw [brt_any_fst_false p kv.1 hfresh]
      rw [if_neg (by decide)]
      rw [ih tail h (p ++ [kv]) hrest hn1 (by
        have : ((p ++ [kv]).map Prod.fst ++ (rest.filter brt_isPs).map Prod.fst) =
            p.map Prod.fst ++ (kv :: rest.filter brt_isPs).map Prod.fst := by simp
        rw [this]; exact hn2)]
      simp
    · have hps' : brt_isPs kv = false := by simp [brt_isPs, hps]
      rw [if_neg hps]
      rw [List.filter_cons_of_neg (p := brt_isPs) (a := kv) (by simp [hps'])] at hn2 ⊢
      rw [List.filter_cons_of_pos (p := fun kv => !brt_isPs kv) (a := kv) (by simp [hps'])] at hn1 ⊢
      have hfresh : canonicalKey kv.1 ∉ h.map Prod.fst := by
        intro hm
        exact (List.nodup_append.mp hn1).2.2 _ hm (canonicalKey kv.1) (by simp) rfl
      rw [brt_any_fst_false h _ hfresh]
      rw [if_neg (by decide)]
      rw [ih tail (h ++ [(canonicalKey kv.1, [kv.2])]) p hrest (by
        have : ((h ++ [(canonicalKey kv.1, [kv.2])]).map Prod.fst ++
              ((rest.filter (fun kv => !brt_isPs kv)).map (fun kv => canonicalKey kv.1))) =
            h.map Prod.fst ++ (kv :: rest.filter (fun kv => !brt_isPs kv)).map (fun kv => canonicalKey kv.1) := by simp
        rw [this]; exact hn1) hn2]
      simp

/-- three-digit status codes: `strconv.Itoa` gives three digits that read back as the same number -/
theorem brt_status3 (s : Int) (h1 : 100 ≤ s) (h2 : s ≤ 999) :
    isStatus3 (SH.formatInt s) = true ∧ ((SH.digitsVal (SH.formatInt s) : Nat) : Int) = s := by
  have hz : ¬ s < 0 := by omega
  unfold SH.formatInt
  rw [if_neg hz]
  obtain ⟨hv, hall, _⟩ := SH.natDigits_spec 20 s.toNat (by omega) (by decide)
  have e : SH.natDigits 20 s.toNat = [UInt8.ofNat (48 + s.toNat / 10 / 10)] ++ [UInt8.ofNat (48 + s.toNat / 10 % 10)] ++
      [UInt8.ofNat (48 + s.toNat % 10)] := by
    rw [show (20 : Nat) = 17 + 1 + 1 + 1 from rfl, SH.natDigits, if_neg (by omega), SH.natDigits, if_neg (by omega),
      SH.natDigits, if_pos (by omega)]
  refine ⟨?_, by rw [hv]; omega⟩
  unfold isStatus3
  rw [hall, e]
  rfl

theorem brt_toLower_ne58 : ∀ n : Fin 256, toLowerByte (UInt8.ofNat n.val) = 58 → UInt8.ofNat n.val = 58 := by
  decide +kernel

theorem brt_head_lower (s : Bytes) (h : s.head? ≠ some 58) : (lowerAscii s).head? ≠ some 58 := by
  cases s with
  | nil => simp [lowerAscii]
  | cons c rest =>
    simp only [lowerAscii, List.map_cons, List.head?_cons, ne_eq, Option.some.injEq] at h ⊢
    intro hc
    apply h
    have := brt_toLower_ne58 ⟨c.toNat, c.toNat_lt⟩
    simp only [Sxg.u8_ofNat_toNat] at this
    exact this hc

theorem brt_isAscii_append (a b : Bytes) (ha : isAscii a = true) (hb : isAscii b = true) : isAscii (a ++ b) = true := by
  unfold isAscii at *
  rw [List.all_append, ha, hb]; rfl

theorem brt_isAscii_joinComma : ∀ (vs : List Bytes), (∀ v ∈ vs, isAscii v = true) → isAscii (joinComma vs) = true := by
  intro vs
  induction vs with
  | nil => intro _; rfl
  | cons v rest ih =>
    intro h
    cases rest with
    | nil => rw [joinComma]; exact h v (by simp)
    | cons w rest' =>
      rw [joinComma]
      · apply brt_isAscii_append
        · apply brt_isAscii_append
          · exact h v (by simp)
          · decide
        · exact ih (fun x hx => h x (List.mem_cons_of_mem _ hx))
      · intro hc; cases hc

theorem brt_isAscii_digits (s : Bytes) (h : s.all SH.isDigit = true) : isAscii s = true := by
  unfold isAscii
  rw [List.all_eq_true] at h ⊢
  intro c hc
  have := h c hc
  simp only [SH.isDigit, Bool.and_eq_true, decide_eq_true_eq] at this
  simp only [decide_eq_true_eq]
  have h2 := this.2
  rw [UInt8.le_iff_toNat_le] at h2
  rw [UInt8.lt_iff_toNat_lt]
  have : (57 : UInt8).toNat = 57 := rfl
  have : (128 : UInt8).toNat = 128 := rfl
  omega

/-- the domain of one response: what the reader enforces and the writer does not check -/
structure brt_RespDom (r : Resp) : Prop where
  status : 100 ≤ r.status ∧ r.status ≤ 999
  hdrAscii : ∀ kv ∈ r.headers, isAscii kv.1 = true ∧ (∀ v ∈ kv.2, isAscii v = true) ∧ kv.1.head? ≠ some 58

theorem brt_ps_status (v : Bytes) : brt_isPs (Sxg.keyStatus, v) = true := rfl

/-- the reader's header pass over the writer's header map -/
theorem brt_decode_respHeader (r : Resp) (hm : Bytes) (hd : brt_RespDom r) (h : encodeRespHeader r = .ok hm)
    (hlen : hm.length < 2 ^ 63) :
    ∃ n bs hs, decodeMapHeader hm = some (n, bs) ∧
      decodeHeaderEntries n bs [] [] = some (hs, [(Sxg.keyStatus, SH.formatInt r.status)]) ∧
      hs.Perm (r.headers.map Sxg.normField) := by
  let raw : List (Bytes × Bytes) := (Sxg.keyStatus, SH.formatInt r.status) :: r.headers.map Sxg.hraw
  have hraw_def : raw = (Sxg.keyStatus, SH.formatInt r.status) :: r.headers.map Sxg.hraw := rfl
  have he : encodeRespHeader r = encodeMap (raw.map Sxg.encE) := by
    unfold encodeRespHeader
    rw [Sxg.headerEntries_eq_rt]; rfl
  rw [he] at h
  obtain ⟨rs, hp, hnd, rfl⟩ := Sxg.encodeMap_raw raw hm h
  have hlen2 : (Sxg.flat rs).length < 2 ^ 63 := by
    simp only [List.length_append] at hlen; omega
  have hn : raw.length = rs.length := hp.length_eq.symm
  have hn64 : rs.length < 2 ^ 64 := by have := Sxg.length_le_flat rs; omega
  obtain ⟨hs3, _⟩ := brt_status3 r.status hd.status.1 hd.status.2
  have hdig : (SH.formatInt r.status).all SH.isDigit = true := by
    unfold isStatus3 at hs3
    simp only [Bool.and_eq_true] at hs3
    exact hs3.2
  -- facts about the raw entries
  have hrawfacts : ∀ kv ∈ raw, isAscii kv.1 = true ∧ isAscii kv.2 = true ∧ lowerAscii kv.1 = kv.1 ∧
      (brt_isPs kv = true ↔ kv = (Sxg.keyStatus, SH.formatInt r.status)) := by
    intro kv hkv
    rw [hraw_def] at hkv
    rcases List.mem_cons.mp hkv with rfl | hm
    · exact ⟨(by decide : isAscii Sxg.keyStatus = true), brt_isAscii_digits _ hdig,
        (by decide : lowerAscii Sxg.keyStatus = Sxg.keyStatus), ⟨fun _ => rfl, fun _ => brt_ps_status _⟩⟩
    · obtain ⟨x, hx, rfl⟩ := List.mem_map.mp hm
      obtain ⟨a1, a2, a3⟩ := hd.hdrAscii x hx
      have hnp : brt_isPs (Sxg.hraw x) = false := by
        have := brt_head_lower x.1 a3
        simp only [brt_isPs, Sxg.hraw]
        cases hb : ((lowerAscii x.1).head? == some 58) with
        | false => rfl
        | true => exact absurd (by simpa using hb) this
      refine ⟨(Sxg.hraw_ok x a1).1, brt_isAscii_joinComma _ a2, (Sxg.hraw_ok x a1).2, ?_⟩
      rw [hnp]
      constructor
      · intro hc; cases hc
      · intro hc
        rw [hc, brt_ps_status] at hnp
        cases hnp
  have hcond : ∀ kv ∈ rs, brt_EntryOk kv := by
    intro kv hkv
    have hb := Sxg.mem_flat_bound rs kv hkv
    obtain ⟨a1, a2, a3, _⟩ := hrawfacts kv (hp.subset hkv)
    exact ⟨by omega, by omega, a1, a2, a3⟩
  -- the pseudo entries
  have hnd' := hnd
  rw [hraw_def, List.map_cons, List.nodup_cons] at hnd'
  have hfps_raw : raw.filter brt_isPs = [(Sxg.keyStatus, SH.formatInt r.status)] := by
    rw [hraw_def, List.filter_cons_of_pos (p := brt_isPs) (brt_ps_status _)]
    congr 1
    rw [List.filter_eq_nil_iff]
    intro kv hkv hps
    have hkr : kv ∈ raw := by rw [hraw_def]; exact List.mem_cons_of_mem _ hkv
    have := ((hrawfacts kv hkr).2.2.2).mp hps
    apply hnd'.1
    rw [this] at hkv
    exact List.mem_map.mpr ⟨_, hkv, rfl⟩
  have hfnp_raw : raw.filter (fun kv => !brt_isPs kv) = r.headers.map Sxg.hraw := by
    rw [hraw_def, List.filter_cons_of_neg (p := fun kv => !brt_isPs kv) (by rw [brt_ps_status]; decide), List.filter_eq_self]
    intro kv hkv
    have hkr : kv ∈ raw := by rw [hraw_def]; exact List.mem_cons_of_mem _ hkv
    cases hps : brt_isPs kv with
    | false => rfl
    | true =>
      exfalso
      have := ((hrawfacts kv hkr).2.2.2).mp hps
      apply hnd'.1
      rw [this] at hkv
      exact List.mem_map.mpr ⟨_, hkv, rfl⟩
  have hfps : rs.filter brt_isPs = [(Sxg.keyStatus, SH.formatInt r.status)] := by
    have := hp.filter brt_isPs
    rw [hfps_raw] at this
    exact List.perm_singleton.mp this
  have hpnp : (rs.filter (fun kv => !brt_isPs kv)).Perm (r.headers.map Sxg.hraw) := by
    have := hp.filter (fun kv => !brt_isPs kv)
    rw [hfnp_raw] at this
    exact this
  have hnd1 : ((rs.filter (fun kv => !brt_isPs kv)).map Prod.fst).Nodup := by
    have h1 : (rs.map Prod.fst).Nodup := ((hp.map Prod.fst).nodup_iff).mpr hnd
    exact List.Nodup.sublist (List.filter_sublist.map Prod.fst) h1
  have hnd2 : ((rs.filter (fun kv => !brt_isPs kv)).map (fun kv => canonicalKey kv.1)).Nodup := by
    unfold List.Nodup at hnd1 ⊢
    rw [List.pairwise_map] at hnd1 ⊢
    refine List.Pairwise.imp_of_mem ?_ hnd1
    intro a b ha hb hab hc
    have ha' := (hrawfacts a (hp.subset (List.mem_filter.mp ha).1)).2.2.1
    have hb' := (hrawfacts b (hp.subset (List.mem_filter.mp hb).1)).2.2.1
    exact hab (Sxg.canonicalKey_inj_lower ha' hb' hc)
  have hloop := brt_hdrLoop rs [] [] [] hcond (by simpa using hnd2) (by rw [hfps]; simp)
  rw [List.append_nil] at hloop
  refine ⟨rs.length, Sxg.flat rs,
    (rs.filter (fun kv => !brt_isPs kv)).map (fun kv : Bytes × Bytes => (canonicalKey kv.1, [kv.2])), ?_, ?_, ?_⟩
  · rw [hn]
    exact C12.roundtrip_mapHeader _ hn64 _
  · rw [hloop, hfps]; rfl
  · have := hpnp.map (fun kv : Bytes × Bytes => (canonicalKey kv.1, [kv.2]))
    rw [Sxg.normField_eq] at this
    exact this

/-- (1) `loadResponse` on the byte range holding `encodeResponse r` returns `r` with the same status and body
    and the header fields case-folded / comma-joined (`Sxg.normField`) -/
theorem brt_loadResponse_encodeResponse (r : Resp) (x u : Bytes) (off : Nat) (bs : Bytes) (hd : brt_RespDom r)
    (hx : encodeResponse r = .ok x) (hbs : (bs.drop off).take x.length = x) (hb : off + x.length ≤ bs.length)
    (hlen : bs.length < 2 ^ 63) :
    ∃ hs, loadResponse { url := u, offset := off, length := x.length } bs =
        .ok { status := r.status, headers := hs, body := r.body } ∧
      hs.Perm (r.headers.map Sxg.normField) := by
  obtain ⟨hm, hh, hxe⟩ := encodeResponse_eq r x hx
  have hxe' : x = 0x82 :: (encodeBytes hm ++ encodeBytes r.body) := by
    rw [hxe]; rfl
  have hl1 : hm.length < 2 ^ 63 := by
    have := congrArg List.length hxe'
    simp only [List.length_cons, List.length_append, encodeBytes] at this
    omega
  have hl2 : r.body.length < 2 ^ 63 := by
    have := congrArg List.length hxe'
    simp only [List.length_cons, List.length_append, encodeBytes] at this
    omega
  obtain ⟨n, hbs', hs, e1, e2, e3⟩ := brt_decode_respHeader r hm hd hh hl1
  obtain ⟨s3, sv⟩ := brt_status3 r.status hd.status.1 hd.status.2
  refine ⟨hs, ?_, e3⟩
  have hw : w64 (off + x.length) = off + x.length := w64_of_lt (by omega)
  have hc : ¬ (w64 (off + x.length) < off ∨ bs.length < w64 (off + x.length)) := by
    rw [hw]; omega
  unfold loadResponse
  dsimp only
  rw [if_neg hc, hbs, hxe']
  dsimp only
  rw [if_neg (by decide), C12.roundtrip_bytes _ hl1]
  dsimp only
  rw [e1]
  dsimp only
  rw [e2]
  dsimp only
  rw [if_neg (by decide), s3, if_neg (by decide)]
  have := C12.roundtrip_bytes r.body hl2 []
  rw [List.append_nil] at this
  rw [this]
  dsimp only
  rw [if_neg (by decide), sv]

/-! ### 2. the index -/

theorem brt_encodeHead_pos (mt n : Nat) : 0 < (encodeHead mt n).length := by
  rw [encodeHead_length]
  repeat' split
  all_goals omega

theorem brt_encodeHead_le9 (mt n : Nat) : (encodeHead mt n).length ≤ 9 := by
  rw [encodeHead_length]
  repeat' split
  all_goals omega

theorem brt_decodeText_tstr (u : Bytes) (hu : utf8Valid u = true) (hl : u.length < 2 ^ 63) (r : Bytes) :
    decodeTextString (tstr u ++ r) = some (u, r) :=
  C12.decodeText_complete _ _ ⟨_, encodeHead_isHead 3 _ (by decide) (by omega), rfl⟩ hl hu r

/-- the b2 index entry the writer emits for one resource -/
def brt_idxE (e : IndexEntry) : Entry :=
  (tstr e.url, encodeArrayHeader 2 ++ (encodeUint e.offset ++ encodeUint e.length))

/-- the request the reader derives from it (`respOff` = start of the responses section in the file) -/
def brt_mkReq (respOff : Nat) (e : IndexEntry) : ReqEntry :=
  { url := e.url, offset := respOff + e.offset, length := e.length }

structure brt_IdxOk (url : BUrlFacts) (respLen : Nat) (e : IndexEntry) : Prop where
  utf8 : utf8Valid e.url = true
  len : e.url.length < 2 ^ 63
  urlOk : indexUrl url e.url = some e.url
  inResp : e.offset + e.length ≤ respLen

/-- the b2 index loop consumes exactly the emitted entries -/
theorem brt_indexLoopB2 (url : BUrlFacts) (respLen respOff : Nat) (hro : respOff + respLen < 2 ^ 64) :
    ∀ (es : List IndexEntry) (tail : Bytes) (acc : List ReqEntry), (∀ e ∈ es, brt_IdxOk url respLen e) →
    indexEntriesB2 url respLen respOff es.length
      ((es.map fun e => (brt_idxE e).1 ++ (brt_idxE e).2).flatten ++ tail) acc =
      some (acc ++ es.map (brt_mkReq respOff)) := by
  intro es
  induction es with
  | nil => intro tail acc _; simp [indexEntriesB2]
  | cons e rest ih =>
    intro tail acc hall
    have hok := hall e (by simp)
    have hrest : ∀ x ∈ rest, brt_IdxOk url respLen x := fun x hx => hall x (List.mem_cons_of_mem _ hx)
    have hin := hok.inResp
    have e0 : ((e :: rest).map fun e => (brt_idxE e).1 ++ (brt_idxE e).2).flatten ++ tail =
        tstr e.url ++ (encodeArrayHeader 2 ++ (encodeUint e.offset ++ (encodeUint e.length ++
          ((rest.map fun e => (brt_idxE e).1 ++ (brt_idxE e).2).flatten ++ tail)))) := by
      simp [brt_idxE]
    rw [e0, List.length_cons, indexEntriesB2, brt_decodeText_tstr _ hok.utf8 hok.len]
    dsimp only
    rw [hok.urlOk]
    dsimp only
    rw [C12.roundtrip_arrayHeader 2 (by decide)]
    dsimp only
    rw [if_neg (by decide), decodeLocations, C12.roundtrip_uint _ (by omega)]
    dsimp only
    rw [C12.roundtrip_uint _ (by omega)]
    dsimp only
    have hmr : makeRelative respLen respOff e.offset e.length = some (respOff + e.offset, e.length) := by
      unfold makeRelative
      rw [if_neg (by omega), w64_of_lt (by omega)]
    rw [hmr]
    dsimp only
    rw [decodeLocations]
    dsimp only
    rw [ih tail _ hrest]
    simp [brt_mkReq]

theorem brt_len_le_idx (σ : List IndexEntry) :
    σ.length ≤ (((σ.map brt_idxE).map fun e => e.1 ++ e.2).flatten).length := by
  induction σ with
  | nil => simp
  | cons e rest ih =>
    have : 0 < (tstr e.url).length := by
      unfold tstr
      have := brt_encodeHead_pos 3 e.url.length
      simp only [List.length_append]; omega
    simp only [List.map_cons, List.flatten_cons, List.length_append, List.length_cons, brt_idxE] at ih ⊢
    omega

/-- (2) `parseIndex`'s entry loop on a successfully encoded b2 index map: the requests come out in the order in
    which `EncodeMap` emitted the entries (a permutation `σ` of the writer's entries) -/
theorem brt_indexEntriesB2_encode (url : BUrlFacts) (respLen respOff : Nat) (hro : respOff + respLen < 2 ^ 64)
    (ents : List IndexEntry) (idx : Bytes)
    (hall0 : ∀ e ∈ ents, utf8Valid e.url = true ∧ indexUrl url e.url = some e.url ∧ e.offset + e.length ≤ respLen)
    (h : encodeMap (ents.map brt_idxE) = .ok idx) (hlen : idx.length < 2 ^ 63) :
    ∃ (σ : List IndexEntry) (n : Nat) (bs : Bytes), σ.Perm ents ∧ decodeMapHeader idx = some (n, bs) ∧
      indexEntriesB2 url respLen respOff n bs [] = some (σ.map (brt_mkReq respOff)) := by
  obtain ⟨sorted, hp, _, ho⟩ := C11.encodeMap_layout _ _ h
  obtain ⟨σ, hσ, rfl⟩ := Sxg.perm_map_exists brt_idxE sorted ents hp
  have hn : ents.length = σ.length := hσ.length_eq.symm
  have hall : ∀ e ∈ ents, brt_IdxOk url respLen e := by
    intro e he
    obtain ⟨a1, a2, a3⟩ := hall0 e he
    refine ⟨a1, ?_, a2, a3⟩
    have hm : (brt_idxE e).1 ++ (brt_idxE e).2 ∈ ((σ.map brt_idxE).map fun e => e.1 ++ e.2) :=
      List.mem_map.mpr ⟨brt_idxE e, List.mem_map.mpr ⟨e, hσ.symm.subset he, rfl⟩, rfl⟩
    have h1 := Sxg.length_le_flatten _ _ hm
    have h2 := congrArg List.length ho
    simp only [List.length_append, brt_idxE, tstr] at h1 h2
    omega
  refine ⟨σ, σ.length, ((σ.map brt_idxE).map fun e => e.1 ++ e.2).flatten, hσ, ?_, ?_⟩
  · rw [ho, List.length_map, hn]
    refine C12.roundtrip_mapHeader _ ?_ _
    -- the entry count is below the byte length
    have hlen' := hlen
    rw [ho, List.length_append] at hlen'
    have := brt_len_le_idx σ
    omega
  · have := brt_indexLoopB2 url respLen respOff hro σ [] [] (fun e he => hall e (hσ.subset he))
    rw [List.append_nil, List.nil_append] at this
    rw [List.map_map]
    exact this

/-! ### 3. `loadMetadata` -/

theorem brt_parseMagic_b2 (rest : Bytes) : parseMagic (BVer.magic .b2 ++ rest) = some (.b2, rest) := by
  simp [parseMagic, BVer.magic, headerMagicB1, headerMagicB2, versionMagicB1, versionMagicB2]

theorem brt_parseMagic_b1 (rest : Bytes) : parseMagic (BVer.magic .b1 ++ rest) = some (.b1, rest) := by
  simp [parseMagic, BVer.magic, headerMagicB1, headerMagicB2, versionMagicB1]

theorem brt_any_name_false (l : List SectionOffset) (k : Bytes) (hk : k ∉ l.map (·.name)) :
    l.any (fun x => x.name == k) = false := by
  cases hh : l.any (fun x => x.name == k) with
  | false => rfl
  | true =>
    exfalso
    obtain ⟨x, hx, hxe⟩ := List.any_eq_true.mp hh
    exact hk (List.mem_map.mpr ⟨x, hx, by simpa using hxe⟩)

/-- the section table the reader builds from the writer's sections -/
def brt_sos (sections : List (Bytes × Bytes)) : List SectionOffset :=
  sections.map fun s => { name := s.1, length := s.2.length }

/-- the pair loop of `decodeSectionLengthsCBOR` over the writer's (name, length) pairs -/
theorem brt_sectionPairs : ∀ (secs : List (Bytes × Bytes)) (tail : Bytes) (acc : List SectionOffset),
    (∀ s ∈ secs, utf8Valid s.1 = true ∧ s.1.length < 2 ^ 63 ∧ s.2.length < 2 ^ 64) →
    (acc.map (·.name) ++ secs.map Prod.fst).Nodup →
    decodeSectionPairs secs.length ((secs.map fun s => tstr s.1 ++ encodeUint s.2.length).flatten ++ tail) acc =
      some (acc ++ brt_sos secs) := by
  intro secs
  induction secs with
  | nil => intro tail acc _ _; simp [decodeSectionPairs, brt_sos]
  | cons s rest ih =>
    intro tail acc hall hnd
    obtain ⟨a1, a2, a3⟩ := hall s (by simp)
    have hrest : ∀ x ∈ rest, utf8Valid x.1 = true ∧ x.1.length < 2 ^ 63 ∧ x.2.length < 2 ^ 64 :=
      fun x hx => hall x (List.mem_cons_of_mem _ hx)
    have e0 : ((s :: rest).map fun s => tstr s.1 ++ encodeUint s.2.length).flatten ++ tail =
        tstr s.1 ++ (encodeUint s.2.length ++ ((rest.map fun s => tstr s.1 ++ encodeUint s.2.length).flatten ++ tail)) := by
      simp
    have hfresh : s.1 ∉ acc.map (·.name) := by
      intro hm
      exact (List.nodup_append.mp hnd).2.2 _ hm s.1 (by simp) rfl
    rw [e0, List.length_cons, decodeSectionPairs, brt_decodeText_tstr _ a1 a2]
    dsimp only
    rw [brt_any_name_false acc s.1 hfresh, if_neg (by decide), C12.roundtrip_uint _ a3]
    dsimp only
    rw [ih tail _ hrest (by
      have : ((acc ++ [({ name := s.1, length := s.2.length } : SectionOffset)]).map (·.name) ++ rest.map Prod.fst) =
          acc.map (·.name) ++ (s :: rest).map Prod.fst := by simp
      rw [this]; exact hnd)]
    simp [brt_sos]

theorem brt_decodeSectionLengths (sections : List (Bytes × Bytes))
    (hall : ∀ s ∈ sections, utf8Valid s.1 = true ∧ s.1.length < 2 ^ 63 ∧ s.2.length < 2 ^ 64)
    (hnd : (sections.map Prod.fst).Nodup) (hn : sections.length < 2 ^ 63) :
    decodeSectionLengths (lengthsOf sections) = some (brt_sos sections) := by
  have e : lengthsOf sections = encodeArrayHeader (sections.length * 2) ++
      ((sections.map fun s => tstr s.1 ++ encodeUint s.2.length).flatten ++ []) := by
    rw [List.append_nil]; rfl
  unfold decodeSectionLengths
  rw [e, C12.roundtrip_arrayHeader _ (by omega)]
  dsimp only
  have : (sections.length * 2 + 1) / 2 = sections.length := by omega
  rw [this, brt_sectionPairs sections [] [] hall (by simpa using hnd), List.nil_append]

theorem brt_sectionsFit_of_le : ∀ (sos : List SectionOffset) (rem : Nat), lenSum sos ≤ rem → sectionsFit sos rem = true := by
  intro sos
  induction sos with
  | nil => intro rem _; rfl
  | cons so rest ih =>
    intro rem h
    rw [lenSum_cons] at h
    rw [sectionsFit, if_neg (by omega)]
    exact ih _ (by omega)

theorem brt_lenSum_sos (sections : List (Bytes × Bytes)) :
    lenSum (brt_sos sections) = ((sections.map (·.2)).flatten).length := by
  induction sections with
  | nil => rfl
  | cons s rest ih =>
    simp only [brt_sos, List.map_cons, lenSum_cons, List.flatten_cons, List.length_append] at ih ⊢
    rw [ih]

/-- the part of `loadMetadata` after the magic bytes (and, for b1, the fallback URL) -/
def brt_metaTail (url : BUrlFacts) (parseOk : Bytes → Bool) (ver : BVer) (bs : Bytes) (fallback : Option Bytes)
    (r1 : Bytes) : Outcome Meta :=
  match decodeByteString r1 with
  | none => .error
  | some (slbytes, r2) =>
    if slbytes.length ≥ 8192 then .error
    else match decodeSectionLengths slbytes with
      | none => .error
      | some sos =>
        match decodeArrayHeader r2 with
        | none => .error
        | some (numSections, r3) =>
          if numSections ≠ sos.length then .error
          else
            let sectionsStart := bs.length - r3.length
            if sos.isEmpty ∨ (sos.getLast?.map (·.name)) ≠ some nResponses then .error
            else if !sectionsFit sos (bs.length - sectionsStart) then .error
            else sectionLoop url parseOk ver bs sectionsStart sos sos sectionsStart
              { version := ver, primaryURL := fallback, manifestURL := none, signatures := none, requests := [] }

theorem brt_loadMetadata_b2 (url : BUrlFacts) (parseOk : Bytes → Bool) (bs r0 : Bytes)
    (h : parseMagic bs = some (.b2, r0)) : loadMetadata url parseOk bs = brt_metaTail url parseOk .b2 bs none r0 := by
  unfold loadMetadata
  rw [h]
  rfl

theorem brt_loadMetadata_b1 (url : BUrlFacts) (parseOk : Bytes → Bool) (bs r0 raw r1 str : Bytes) (x y z : Bool)
    (h : parseMagic bs = some (.b1, r0)) (h1 : decodeTextString r0 = some (raw, r1)) (h2 : url raw = some (x, y, z, str)) :
    loadMetadata url parseOk bs = brt_metaTail url parseOk .b1 bs (some str) r1 := by
  unfold loadMetadata
  rw [h]
  dsimp only
  rw [h1]
  dsimp only
  rw [h2]
  rfl

/-- the prologue of `loadMetadata` on the writer's layout: the section table comes back and the section loop starts
    at the first section -/
theorem brt_metaTail_sections (url : BUrlFacts) (parseOk : Bytes → Bool) (ver : BVer) (fallback : Option Bytes)
    (pre : Bytes) (init : List (Bytes × Bytes)) (resp footer : Bytes)
    (hall : ∀ s ∈ init ++ [(nResponses, resp)], utf8Valid s.1 = true ∧ s.1.length < 2 ^ 63)
    (hnd : ((init ++ [(nResponses, resp)]).map Prod.fst).Nodup)
    (hsl : (lengthsOf (init ++ [(nResponses, resp)])).length < 8192)
    (hlen : (pre ++ (encodeBytes (lengthsOf (init ++ [(nResponses, resp)])) ++
      (encodeArrayHeader (init ++ [(nResponses, resp)]).length ++
        (((init ++ [(nResponses, resp)]).map (·.2)).flatten ++ footer)))).length < 2 ^ 63) :
    brt_metaTail url parseOk ver
      (pre ++ (encodeBytes (lengthsOf (init ++ [(nResponses, resp)])) ++
        (encodeArrayHeader (init ++ [(nResponses, resp)]).length ++
          (((init ++ [(nResponses, resp)]).map (·.2)).flatten ++ footer)))) fallback
      (encodeBytes (lengthsOf (init ++ [(nResponses, resp)])) ++
        (encodeArrayHeader (init ++ [(nResponses, resp)]).length ++
          (((init ++ [(nResponses, resp)]).map (·.2)).flatten ++ footer))) =
    sectionLoop url parseOk ver
      (pre ++ (encodeBytes (lengthsOf (init ++ [(nResponses, resp)])) ++
        (encodeArrayHeader (init ++ [(nResponses, resp)]).length ++
          (((init ++ [(nResponses, resp)]).map (·.2)).flatten ++ footer))))
      (pre ++ (encodeBytes (lengthsOf (init ++ [(nResponses, resp)])) ++
        encodeArrayHeader (init ++ [(nResponses, resp)]).length)).length
      (brt_sos (init ++ [(nResponses, resp)])) (brt_sos (init ++ [(nResponses, resp)]))
      (pre ++ (encodeBytes (lengthsOf (init ++ [(nResponses, resp)])) ++
        encodeArrayHeader (init ++ [(nResponses, resp)]).length)).length
      { version := ver, primaryURL := fallback, manifestURL := none, signatures := none, requests := [] } := by
  generalize hsec : init ++ [(nResponses, resp)] = sections at *
  have hflat : ∀ s ∈ sections, s.2.length ≤ ((sections.map (·.2)).flatten).length := fun s hs =>
    Sxg.length_le_flatten _ _ (List.mem_map.mpr ⟨s, hs, rfl⟩)
  simp only [List.length_append] at hlen
  have hall' : ∀ s ∈ sections, utf8Valid s.1 = true ∧ s.1.length < 2 ^ 63 ∧ s.2.length < 2 ^ 64 := by
    intro s hs
    have := hflat s hs
    exact ⟨(hall s hs).1, (hall s hs).2, by omega⟩
  have hcount : sections.length < 2 ^ 63 := by
    have : sections.length ≤ (lengthsOf sections).length := by
      rw [lengthsOf_eq]
      clear hflat hall hall' hnd hsl hlen hsec
      have : ∀ (l : List (Bytes × Bytes)), l.length ≤
          ((l.map fun (s : Bytes × Bytes) => Spec.Sxg.tstr s.1 ++ encodeHead 0 s.2.length).flatten).length := by
        intro l
        induction l with
        | nil => simp
        | cons s rest ih =>
          have := brt_encodeHead_pos 0 s.2.length
          simp only [List.map_cons, List.flatten_cons, List.length_append, List.length_cons] at ih ⊢
          omega
      have := this sections
      simp only [List.length_append]; omega
    omega
  unfold brt_metaTail
  rw [C12.roundtrip_bytes _ (by omega)]
  dsimp only
  rw [if_neg (by omega), brt_decodeSectionLengths sections hall' hnd hcount]
  dsimp only
  rw [C12.roundtrip_arrayHeader _ (by omega)]
  dsimp only
  have hsl' : (brt_sos sections).length = sections.length := by simp [brt_sos]
  rw [if_neg (by rw [hsl']; exact fun h => h rfl)]
  have hne : ¬ ((brt_sos sections).isEmpty = true ∨ ((brt_sos sections).getLast?.map (·.name)) ≠ some nResponses) := by
    rw [← hsec]
    simp [brt_sos]
  rw [if_neg hne]
  have hS : (pre ++ (encodeBytes (lengthsOf sections) ++ (encodeArrayHeader sections.length ++
        ((sections.map (·.2)).flatten ++ footer)))).length - ((sections.map (·.2)).flatten ++ footer).length =
      (pre ++ (encodeBytes (lengthsOf sections) ++ encodeArrayHeader sections.length)).length := by
    simp only [List.length_append]; omega
  rw [hS]
  have hfit : sectionsFit (brt_sos sections)
      ((pre ++ (encodeBytes (lengthsOf sections) ++ (encodeArrayHeader sections.length ++
        ((sections.map (·.2)).flatten ++ footer)))).length -
        (pre ++ (encodeBytes (lengthsOf sections) ++ encodeArrayHeader sections.length)).length) = true := by
    apply brt_sectionsFit_of_le
    rw [brt_lenSum_sos]
    simp only [List.length_append]; omega
  rw [hfit]
  rfl

theorem brt_findSection : ∀ (pre : List SectionOffset) (so : SectionOffset) (post : List SectionOffset) (off : Nat),
    (∀ s ∈ pre, s.name ≠ so.name) → off + lenSum pre < 2 ^ 64 →
    findSection (pre ++ so :: post) so.name off = some (so, off + lenSum pre) := by
  intro pre
  induction pre with
  | nil => intro so post off _ _; simp [findSection]
  | cons s rest ih =>
    intro so post off hne hb
    rw [lenSum_cons] at hb
    rw [List.cons_append, findSection, if_neg (hne s (by simp)), w64_of_lt (by omega),
      ih so post _ (fun x hx => hne x (List.mem_cons_of_mem _ hx)) (by omega), lenSum_cons]
    congr 2; omega

/-! #### steps of the section loop -/

theorem brt_step_responses (url : BUrlFacts) (parseOk : Bytes → Bool) (ver : BVer) (bs : Bytes) (start : Nat)
    (sos : List SectionOffset) (so : SectionOffset) (rest : List SectionOffset) (offset : Nat) (m : Meta)
    (hn : so.name = nResponses) :
    sectionLoop url parseOk ver bs start sos (so :: rest) offset m =
      sectionLoop url parseOk ver bs start sos rest offset m := by
  rw [sectionLoop, hn, if_neg (by decide), if_pos rfl]

/-- common part of the steps that look at the contents of a section -/
theorem brt_step_contents (url : BUrlFacts) (parseOk : Bytes → Bool) (ver : BVer) (bs : Bytes) (start : Nat)
    (sos : List SectionOffset) (so : SectionOffset) (rest : List SectionOffset) (offset : Nat) (m : Meta)
    (hk : knownSection so.name = true) (hn : so.name ≠ nResponses) (hb : offset + so.length < bs.length)
    (hlen : bs.length < 2 ^ 64) :
    sectionLoop url parseOk ver bs start sos (so :: rest) offset m =
      if so.name = nIndex then
        match parseIndex url ver ((bs.drop offset).take so.length) start sos with
        | none => .error
        | some reqs => sectionLoop url parseOk ver bs start sos rest (offset + so.length) { m with requests := reqs }
      else if so.name = nPrimary then
        match parseUrlSection url ((bs.drop offset).take so.length) with
        | none => .error
        | some u => sectionLoop url parseOk ver bs start sos rest (offset + so.length) { m with primaryURL := some u }
      else if so.name = nManifest then
        match parseUrlSection url ((bs.drop offset).take so.length) with
        | none => .error
        | some u => sectionLoop url parseOk ver bs start sos rest (offset + so.length) { m with manifestURL := some u }
      else
        match parseSignatures parseOk ((bs.drop offset).take so.length) with
        | none => .error
        | some s => sectionLoop url parseOk ver bs start sos rest (offset + so.length) { m with signatures := some s } := by
  rw [sectionLoop, hk, if_neg (by decide), if_neg hn, if_neg (by omega)]
  dsimp only
  rw [w64_of_lt (by omega), if_neg (by omega), if_neg (by omega)]
  rfl

theorem brt_step_index (url : BUrlFacts) (parseOk : Bytes → Bool) (ver : BVer) (bs : Bytes) (start : Nat)
    (sos : List SectionOffset) (so : SectionOffset) (rest : List SectionOffset) (offset : Nat) (m : Meta)
    (reqs : List ReqEntry) (hname : so.name = nIndex) (hb : offset + so.length < bs.length) (hlen : bs.length < 2 ^ 64)
    (hp : parseIndex url ver ((bs.drop offset).take so.length) start sos = some reqs) :
    sectionLoop url parseOk ver bs start sos (so :: rest) offset m =
      sectionLoop url parseOk ver bs start sos rest (offset + so.length) { m with requests := reqs } := by
  rw [brt_step_contents url parseOk ver bs start sos so rest offset m (by rw [hname]; decide)
    (by rw [hname]; decide) hb hlen, if_pos hname, hp]

theorem brt_step_primary (url : BUrlFacts) (parseOk : Bytes → Bool) (ver : BVer) (bs : Bytes) (start : Nat)
    (sos : List SectionOffset) (so : SectionOffset) (rest : List SectionOffset) (offset : Nat) (m : Meta)
    (u : Bytes) (hname : so.name = nPrimary) (hb : offset + so.length < bs.length) (hlen : bs.length < 2 ^ 64)
    (hp : parseUrlSection url ((bs.drop offset).take so.length) = some u) :
    sectionLoop url parseOk ver bs start sos (so :: rest) offset m =
      sectionLoop url parseOk ver bs start sos rest (offset + so.length) { m with primaryURL := some u } := by
  rw [brt_step_contents url parseOk ver bs start sos so rest offset m (by rw [hname]; decide)
    (by rw [hname]; decide) hb hlen, hname, if_neg (by decide), if_pos rfl, hp]

theorem brt_step_manifest (url : BUrlFacts) (parseOk : Bytes → Bool) (ver : BVer) (bs : Bytes) (start : Nat)
    (sos : List SectionOffset) (so : SectionOffset) (rest : List SectionOffset) (offset : Nat) (m : Meta)
    (u : Bytes) (hname : so.name = nManifest) (hb : offset + so.length < bs.length) (hlen : bs.length < 2 ^ 64)
    (hp : parseUrlSection url ((bs.drop offset).take so.length) = some u) :
    sectionLoop url parseOk ver bs start sos (so :: rest) offset m =
      sectionLoop url parseOk ver bs start sos rest (offset + so.length) { m with manifestURL := some u } := by
  rw [brt_step_contents url parseOk ver bs start sos so rest offset m (by rw [hname]; decide)
    (by rw [hname]; decide) hb hlen, hname, if_neg (by decide), if_neg (by decide), if_pos rfl, hp]

theorem brt_step_sigs (url : BUrlFacts) (parseOk : Bytes → Bool) (ver : BVer) (bs : Bytes) (start : Nat)
    (sos : List SectionOffset) (so : SectionOffset) (rest : List SectionOffset) (offset : Nat) (m : Meta)
    (s : Sigs) (hname : so.name = nSignatures) (hb : offset + so.length < bs.length) (hlen : bs.length < 2 ^ 64)
    (hp : parseSignatures parseOk ((bs.drop offset).take so.length) = some s) :
    sectionLoop url parseOk ver bs start sos (so :: rest) offset m =
      sectionLoop url parseOk ver bs start sos rest (offset + so.length) { m with signatures := some s } := by
  rw [brt_step_contents url parseOk ver bs start sos so rest offset m (by rw [hname]; decide)
    (by rw [hname]; decide) hb hlen, hname, if_neg (by decide), if_neg (by decide), if_neg (by decide), hp]

/-- `parsePrimarySection` / `parseManifestSection` on the writer's text item -/
theorem brt_parseUrlSection (url : BUrlFacts) (u x : Bytes) (hx : encodeUrlSection u = .ok x) (hl : u.length < 2 ^ 63)
    (hu : url u = some (false, false, true, u)) : parseUrlSection url x = some u := by
  unfold encodeUrlSection at hx
  have := C12.roundtrip_text u x hl hx []
  rw [List.append_nil] at this
  unfold parseUrlSection
  rw [this]
  dsimp only
  rw [hu]
  rfl

/-! ### 4. the exchanges loop and the index of the writer -/

/-- the index entry `WriteTo` records for the exchange `t.1` whose encoded response `t.2.1` starts at `t.2.2` -/
def brt_toEntry (t : Exch × Bytes × Nat) : IndexEntry :=
  { url := t.1.url, variants := joinComma (rawValues t.1.resp.headers hVariants),
    variantKey := joinComma (rawValues t.1.resp.headers hVariantKey), offset := t.2.2, length := t.2.1.length }

/-- the loop of `WriteTo` over the exchanges, keeping exchange, encoded response and offset together -/
theorem brt_addExchanges : ∀ (es : List Exch) (buf : Bytes) (acc : List IndexEntry) (buf' : Bytes) (acc' : List IndexEntry),
    addExchanges es buf acc = .ok (buf', acc') →
    ∃ (L : List (Exch × Bytes × Nat)) (tail : Bytes), L.map (·.1) = es ∧ acc' = acc ++ L.map brt_toEntry ∧
      buf' = buf ++ tail ∧
      ∀ t ∈ L, encodeResponse t.1.resp = .ok t.2.1 ∧ buf.length ≤ t.2.2 ∧
        ∃ A B, buf' = A ++ t.2.1 ++ B ∧ A.length = t.2.2 := by
  intro es
  induction es with
  | nil =>
    intro buf acc buf' acc' h
    rw [addExchanges] at h
    injection h with h
    injection h with h1 h2
    subst h1; subst h2
    exact ⟨[], [], rfl, by simp, by simp, by simp⟩
  | cons e rest ih =>
    intro buf acc buf' acc' h
    rw [addExchanges] at h
    cases hr : encodeResponse e.resp with
    | error err => simp only [hr] at h; cases h
    | ok r =>
      simp only [hr] at h
      obtain ⟨L, tail, h1, h2, h3, h4⟩ := ih _ _ _ _ h
      refine ⟨(e, r, buf.length) :: L, r ++ tail, by simp [h1], ?_, by rw [h3, List.append_assoc], ?_⟩
      · rw [h2]; simp [brt_toEntry]
      · intro t ht
        rcases List.mem_cons.mp ht with rfl | ht
        · exact ⟨hr, Nat.le_refl _, buf, tail, h3, rfl⟩
        · obtain ⟨a1, a2, a3⟩ := h4 t ht
          refine ⟨a1, ?_, a3⟩
          rw [List.length_append] at a2; omega

/-- with pairwise distinct URLs every group is a singleton, in first-seen order -/
theorem brt_groupByUrl_nodup : ∀ (es : List IndexEntry) (acc : List (Bytes × List IndexEntry)),
    (acc.map Prod.fst ++ es.map (·.url)).Nodup →
    groupByUrl es acc = acc ++ es.map fun e => (e.url, [e]) := by
  intro es
  induction es with
  | nil => intro acc _; simp [groupByUrl]
  | cons e rest ih =>
    intro acc hnd
    have hfresh : e.url ∉ acc.map Prod.fst := by
      intro hm
      exact (List.nodup_append.mp hnd).2.2 _ hm e.url (by simp) rfl
    rw [groupByUrl, brt_any_fst_false acc e.url hfresh, if_neg (by decide), ih _ (by
      have : ((acc ++ [(e.url, [e])]).map Prod.fst ++ rest.map (·.url)) =
          acc.map Prod.fst ++ (e :: rest).map (·.url) := by simp
      rw [this]; exact hnd)]
    simp

/-- a successful `Finalize` of a b2 index over entries with distinct URLs: one `[offset, length]` entry per
    resource, all URLs valid UTF-8 -/
theorem brt_finalize_b2 (entries : List IndexEntry) (idx : Bytes) (hnd : (entries.map (·.url)).Nodup)
    (h : finalizeIndex .b2 entries = .ok (.ok idx)) :
    encodeMap (entries.map brt_idxE) = .ok idx ∧ ∀ e ∈ entries, utf8Valid e.url = true := by
  obtain ⟨hg, hm⟩ := finalizeIndex_b2 entries idx h
  rw [brt_groupByUrl_nodup entries [] (by simpa using hnd), List.nil_append] at hg hm
  constructor
  · rw [← hm, List.map_map]
    congr 1
    apply List.map_congr_left
    intro e _
    simp [brt_idxE]
  · intro e he
    exact (hg (e.url, [e]) (List.mem_map.mpr ⟨e, he, rfl⟩)).1

/-- `parseIndexSection` on the writer's index: `pre` are the sections in front of the responses section -/
theorem brt_parseIndex_b2 (url : BUrlFacts) (idx : Bytes) (S : Nat) (pre : List SectionOffset) (respLen : Nat)
    (post : List SectionOffset) (ents : List IndexEntry)
    (hpre : ∀ s ∈ pre, s.name ≠ nResponses) (hb : S + lenSum pre + respLen < 2 ^ 64)
    (hall0 : ∀ e ∈ ents, utf8Valid e.url = true ∧ indexUrl url e.url = some e.url ∧ e.offset + e.length ≤ respLen)
    (h : encodeMap (ents.map brt_idxE) = .ok idx) (hlen : idx.length < 2 ^ 63) :
    ∃ σ : List IndexEntry, σ.Perm ents ∧
      parseIndex url .b2 idx S (pre ++ { name := nResponses, length := respLen } :: post) =
        some (σ.map (brt_mkReq (S + lenSum pre))) := by
  obtain ⟨σ, n, bs, hσ, e1, e2⟩ := brt_indexEntriesB2_encode url respLen (S + lenSum pre) (by omega) ents idx hall0 h hlen
  refine ⟨σ, hσ, ?_⟩
  unfold parseIndex
  rw [e1]
  dsimp only
  have := brt_findSection pre { name := nResponses, length := respLen } post 0 hpre (by omega)
  dsimp only at this
  rw [this]
  dsimp only
  rw [Nat.zero_add, w64_of_lt (by omega)]
  exact e2

theorem brt_lengthsOf_le (sections : List (Bytes × Bytes)) (hn : ∀ s ∈ sections, s.1.length ≤ 10) :
    (lengthsOf sections).length ≤ 9 + sections.length * 28 := by
  rw [lengthsOf_eq, List.length_append]
  have h0 := brt_encodeHead_le9 4 (sections.length * 2)
  have : ((sections.map fun (s : Bytes × Bytes) => Spec.Sxg.tstr s.1 ++ encodeHead 0 s.2.length).flatten).length ≤
      sections.length * 28 := by
    clear h0
    induction sections with
    | nil => simp
    | cons s rest ih =>
      have ih' := ih (fun x hx => hn x (List.mem_cons_of_mem _ hx))
      have h1 := brt_encodeHead_le9 3 s.1.length
      have h2 := brt_encodeHead_le9 0 s.2.length
      have h3 := hn s (by simp)
      simp only [List.map_cons, List.flatten_cons, List.length_append, List.length_cons, Spec.Sxg.tstr] at ih' ⊢
      omega
  omega

/-! ### 4b. from the metadata to the bundle -/

/-- the request the reader derives for the exchange `t.1` whose response `t.2.1` starts at offset `t.2.2` of the
    responses section, which starts at `respOff` in the file -/
def brt_reqOf (respOff : Nat) (t : Exch × Bytes × Nat) : ReqEntry :=
  { url := t.1.url, offset := respOff + t.2.2, length := t.2.1.length }

theorem brt_loadResponses (bs : Bytes) : ∀ (reqs : List ReqEntry) (acc : List Exch),
    (∀ r ∈ reqs, ∃ resp, loadResponse r bs = .ok resp) →
    ∃ es', loadResponses bs reqs acc = .ok (acc ++ es') ∧
      Forall₂ (fun (r : ReqEntry) (e : Exch) => e.url = r.url ∧ loadResponse r bs = .ok e.resp) reqs es' := by
  intro reqs
  induction reqs with
  | nil => intro acc _; exact ⟨[], by simp [loadResponses], Forall₂.nil⟩
  | cons req rest ih =>
    intro acc h
    obtain ⟨resp, hr⟩ := h req (by simp)
    obtain ⟨es', e1, e2⟩ := ih (acc ++ [{ url := req.url, resp := resp }]) (fun r hr => h r (List.mem_cons_of_mem _ hr))
    refine ⟨{ url := req.url, resp := resp } :: es', ?_, Forall₂.cons ⟨rfl, hr⟩ e2⟩
    rw [loadResponses, hr]
    dsimp only
    rw [e1, List.append_assoc]
    rfl

theorem brt_forall₂_urls {P : ReqEntry → Exch → Prop} {reqs : List ReqEntry} {es : List Exch}
    (h : Forall₂ (fun r e => e.url = r.url ∧ P r e) reqs es) : es.map (·.url) = reqs.map (·.url) := by
  induction h with
  | nil => rfl
  | cons hab _ ih => simp only [List.map_cons, ih, hab.1]

/-- from the metadata to the bundle: `read` loads one response per request -/
theorem brt_read_of_meta (url : BUrlFacts) (parseOk : Bytes → Bool) (exs : List Exch) (out : Bytes)
    (hlen : out.length < 2 ^ 63) (hdom : ∀ e ∈ exs, brt_RespDom e.resp)
    (L σL : List (Exch × Bytes × Nat)) (respOff : Nat) (l1 : L.map (·.1) = exs) (hσ : σL.Perm L)
    (hL : ∀ t ∈ L, encodeResponse t.1.resp = .ok t.2.1 ∧ respOff + t.2.2 + t.2.1.length ≤ out.length ∧
      (out.drop (respOff + t.2.2)).take t.2.1.length = t.2.1)
    (mt : Meta) (hreq : mt.requests = σL.map (brt_reqOf respOff)) (hmeta : loadMetadata url parseOk out = .ok mt) :
    ∃ b', read url parseOk out = .ok b' ∧ b'.version = mt.version ∧ b'.primaryURL = mt.primaryURL ∧
      b'.manifestURL = mt.manifestURL ∧ b'.signatures = mt.signatures ∧
      ∃ σ : List Exch, σ.Perm exs ∧ b'.exchanges.length = σ.length ∧
        b'.exchanges.map (·.url) = σ.map (·.url) ∧
        ∀ i (hi : i < σ.length), ∃ e', b'.exchanges[i]? = some e' ∧ e'.url = σ[i].url ∧
          e'.resp.status = σ[i].resp.status ∧ e'.resp.body = σ[i].resp.body ∧
          e'.resp.headers.Perm (σ[i].resp.headers.map
            fun kv => (canonicalKey (lowerAscii kv.1), [joinComma kv.2])) := by
  have hone : ∀ t ∈ σL, ∃ hs, loadResponse (brt_reqOf respOff t) out =
      .ok { status := t.1.resp.status, headers := hs, body := t.1.resp.body } ∧
      hs.Perm (t.1.resp.headers.map Sxg.normField) := by
    intro t ht
    have htL := hσ.subset ht
    obtain ⟨a1, a2, a3⟩ := hL t htL
    have hmem : t.1 ∈ exs := by rw [← l1]; exact List.mem_map.mpr ⟨t, htL, rfl⟩
    exact brt_loadResponse_encodeResponse t.1.resp t.2.1 t.1.url (respOff + t.2.2) out (hdom t.1 hmem) a1 a3 a2 hlen
  obtain ⟨es, hlr, hf⟩ := brt_loadResponses out (σL.map (brt_reqOf respOff)) [] (by
    intro r hr
    obtain ⟨t, ht, rfl⟩ := List.mem_map.mp hr
    obtain ⟨hs, h1, _⟩ := hone t ht
    exact ⟨_, h1⟩)
  rw [List.nil_append] at hlr
  refine ⟨{ version := mt.version, primaryURL := mt.primaryURL, exchanges := es, manifestURL := mt.manifestURL,
            signatures := mt.signatures },
    ?_, rfl, rfl, rfl, rfl, σL.map (·.1), ?_, ?_, ?_, ?_⟩
  · unfold read
    rw [hmeta]
    dsimp only
    rw [hreq, hlr]
  · rw [← l1]; exact hσ.map _
  · obtain ⟨h1, _⟩ := forall₂_index hf
    rw [h1]; simp
  · show es.map (·.url) = (σL.map (·.1)).map (·.url)
    rw [brt_forall₂_urls hf, List.map_map, List.map_map]
    rfl
  · intro i hi
    obtain ⟨_, h2⟩ := forall₂_index hf
    have hi' : i < σL.length := by simpa using hi
    obtain ⟨e', he', hu, hr⟩ := h2 i (by simpa using hi')
    rw [List.getElem_map] at hu hr
    obtain ⟨hs, hl, hperm⟩ := hone σL[i] (List.getElem_mem hi')
    rw [hl] at hr
    injection hr with hr
    refine ⟨e', he', ?_, ?_, ?_, ?_⟩
    · rw [List.getElem_map]; exact hu
    · rw [List.getElem_map, ← hr]
    · rw [List.getElem_map, ← hr]
    · rw [List.getElem_map, ← hr]; exact hperm

/-! ### 5a. the signatures section -/

/-- closed form of one vouched-subset map: keys in bytewise order `sig` < `signed` < `authority` -/
def brt_encVouched (vs : VouchedSubset) : Bytes :=
  encodeHead 5 3 ++ (tstr kSig ++ (encodeBytes vs.sig ++ (tstr kSigned ++ (encodeBytes vs.signed ++
    (tstr kAuthority ++ encodeUint vs.authority)))))

theorem brt_encodeVouched (vs : VouchedSubset) :
    encodeMap [(tstr kAuthority, encodeUint vs.authority), (tstr kSig, encodeBytes vs.sig),
      (tstr kSigned, encodeBytes vs.signed)] = .ok (brt_encVouched vs) := by
  have h := CertChain.encodeMap_of_sorted
    ([(tstr kAuthority, encodeUint vs.authority)] ++ [(tstr kSig, encodeBytes vs.sig), (tstr kSigned, encodeBytes vs.signed)])
    [(tstr kSig, encodeBytes vs.sig), (tstr kSigned, encodeBytes vs.signed), (tstr kAuthority, encodeUint vs.authority)]
    (List.perm_append_comm (l₁ := [(tstr kSig, encodeBytes vs.sig), (tstr kSigned, encodeBytes vs.signed)])
      (l₂ := [(tstr kAuthority, encodeUint vs.authority)]))
    (by show ([tstr kAuthority, tstr kSig, tstr kSigned] : List Bytes).Nodup; decide +kernel)
    (by
      apply CertChain.entryLe_pairwise_of_keys
      show ([tstr kSig, tstr kSigned, tstr kAuthority] : List Bytes).Pairwise _
      decide +kernel)
  show encodeMap ([(tstr kAuthority, encodeUint vs.authority)] ++
    [(tstr kSig, encodeBytes vs.sig), (tstr kSigned, encodeBytes vs.signed)]) = _
  rw [h]
  simp [brt_encVouched]

/-- the body of the loop of `newSignaturesSection` over the vouched subsets -/
def brt_vstep (acc : Bytes) (vs : VouchedSubset) : Except EncErr Bytes := do
  let m ← encodeMap [(tstr kAuthority, encodeUint vs.authority), (tstr kSig, encodeBytes vs.sig),
    (tstr kSigned, encodeBytes vs.signed)]
  pure (acc ++ m)

theorem brt_vstep_eq (acc : Bytes) (vs : VouchedSubset) : brt_vstep acc vs = .ok (acc ++ brt_encVouched vs) := by
  unfold brt_vstep
  rw [brt_encodeVouched]
  rfl

theorem brt_foldlM_vouched : ∀ (subs : List VouchedSubset) (acc : Bytes),
    subs.foldlM brt_vstep acc = .ok (acc ++ (subs.map brt_encVouched).flatten) := by
  intro subs
  induction subs with
  | nil => intro acc; simp [pure, Except.pure]
  | cons vs rest ih =>
    intro acc
    rw [List.foldlM_cons, brt_vstep_eq]
    show List.foldlM brt_vstep (acc ++ brt_encVouched vs) rest = _
    rw [ih]
    simp

theorem brt_encodeSignatures (s : Sigs) : encodeSignatures s =
    .ok (encodeArrayHeader 2 ++ (encodeArrayHeader s.authorities.length ++ ((s.authorities.map CertChain.encAug).flatten ++
      (encodeArrayHeader s.subsets.length ++ (s.subsets.map brt_encVouched).flatten)))) := by
  unfold encodeSignatures
  rw [CertChain.encodeAll_eq]
  show (do
    let auths ← (Except.ok (s.authorities.map CertChain.encAug).flatten : Except EncErr Bytes)
    let subs ← s.subsets.foldlM brt_vstep []
    pure (encodeArrayHeader 2 ++ encodeArrayHeader s.authorities.length ++ auths ++
      encodeArrayHeader s.subsets.length ++ subs)) = _
  rw [brt_foldlM_vouched]
  simp [bind, Except.bind, pure, Except.pure]

theorem brt_decodeVouched_enc (vs : VouchedSubset) (rest : Bytes) (acc : VouchedSubset)
    (h1 : vs.sig.length < 2 ^ 63) (h2 : vs.signed.length < 2 ^ 63) (h3 : vs.authority < 2 ^ 64) :
    decodeVouched 3 (tstr kSig ++ (encodeBytes vs.sig ++ (tstr kSigned ++ (encodeBytes vs.signed ++
      (tstr kAuthority ++ (encodeUint vs.authority ++ rest)))))) acc = some (vs, rest) := by
  rw [decodeVouched, brt_decodeText_tstr kSig (by decide +kernel) (by decide)]
  dsimp only
  rw [if_neg (by decide), if_pos rfl, C12.roundtrip_bytes _ h1]
  dsimp only
  rw [decodeVouched, brt_decodeText_tstr kSigned (by decide +kernel) (by decide)]
  dsimp only
  rw [if_neg (by decide), if_neg (by decide), if_pos rfl, C12.roundtrip_bytes _ h2]
  dsimp only
  rw [decodeVouched, brt_decodeText_tstr kAuthority (by decide +kernel) (by decide)]
  dsimp only
  rw [if_pos rfl, C12.roundtrip_uint _ h3]
  dsimp only
  rw [decodeVouched]

theorem brt_decodeVouchedList_enc : ∀ (subs : List VouchedSubset) (rest : Bytes) (acc : List VouchedSubset),
    (∀ vs ∈ subs, vs.sig.length < 2 ^ 63 ∧ vs.signed.length < 2 ^ 63 ∧ vs.authority < 2 ^ 64) →
    decodeVouchedList subs.length ((subs.map brt_encVouched).flatten ++ rest) acc =
      if rest = rest then some (acc ++ subs) else none := by
  intro subs
  induction subs with
  | nil => intro rest acc _; simp [decodeVouchedList]
  | cons vs tl ih =>
    intro rest acc h
    obtain ⟨h1, h2, h3⟩ := h vs (by simp)
    have e : ((vs :: tl).map brt_encVouched).flatten ++ rest =
        encodeMapHeader 3 ++ (tstr kSig ++ (encodeBytes vs.sig ++ (tstr kSigned ++ (encodeBytes vs.signed ++
          (tstr kAuthority ++ (encodeUint vs.authority ++ ((tl.map brt_encVouched).flatten ++ rest))))))) := by
      simp [brt_encVouched, encodeMapHeader]
    rw [e, List.length_cons, decodeVouchedList, C12.roundtrip_mapHeader 3 (by decide)]
    dsimp only
    rw [if_neg (by decide), brt_decodeVouched_enc vs _ _ h1 h2 h3]
    dsimp only
    rw [ih rest _ (fun x hx => h x (List.mem_cons_of_mem _ hx))]
    simp

theorem brt_len_le_flatten_map {α : Type} (f : α → Bytes) (h : ∀ a, 0 < (f a).length) :
    ∀ (l : List α), l.length ≤ ((l.map f).flatten).length := by
  intro l
  induction l with
  | nil => simp
  | cons a rest ih =>
    have := h a
    simp only [List.map_cons, List.flatten_cons, List.length_append, List.length_cons]
    omega

theorem brt_encAug_bounds (a : CertChain.AugCert) :
    0 < (CertChain.encAug a).length ∧ a.cert.length ≤ (CertChain.encAug a).length ∧
    (∀ o, a.ocsp = some o → o.length ≤ (CertChain.encAug a).length) ∧
    (∀ s, a.sct = some s → s.length ≤ (CertChain.encAug a).length) := by
  obtain ⟨c, o, s⟩ := a
  have h0 := brt_encodeHead_pos 5 (CertChain.augCount ⟨c, o, s⟩)
  cases o <;> cases s <;>
    simp only [CertChain.encAug, CertChain.optBytes, List.length_append, encodeBytes, List.append_nil] <;>
    refine ⟨by omega, by omega, ?_, ?_⟩ <;> intro x hx <;> cases hx <;> omega

theorem brt_encVouched_bounds (vs : VouchedSubset) :
    0 < (brt_encVouched vs).length ∧ vs.sig.length ≤ (brt_encVouched vs).length ∧
    vs.signed.length ≤ (brt_encVouched vs).length := by
  simp only [brt_encVouched, List.length_append, encodeBytes]
  have := brt_encodeHead_pos 5 3
  omega

/-- `parseSignaturesSection` inverts `newSignaturesSection` when every authority certificate parses -/
theorem brt_parseSignatures_encode (parseOk : Bytes → Bool) (s : Sigs) (x : Bytes) (hx : encodeSignatures s = .ok x)
    (hlen : x.length < 2 ^ 63) (hp : ∀ a ∈ s.authorities, parseOk a.cert = true)
    (hauth : ∀ vs ∈ s.subsets, vs.authority < 2 ^ 64) : parseSignatures parseOk x = some s := by
  rw [brt_encodeSignatures] at hx
  injection hx with hx
  have hl := congrArg List.length hx
  simp only [List.length_append] at hl
  have hna := brt_len_le_flatten_map CertChain.encAug (fun a => (brt_encAug_bounds a).1) s.authorities
  have hnv := brt_len_le_flatten_map brt_encVouched (fun a => (brt_encVouched_bounds a).1) s.subsets
  have hcert : ∀ a ∈ s.authorities, a.cert.length < 2 ^ 63 ∧ (∀ o, a.ocsp = some o → o.length < 2 ^ 63) ∧
      (∀ s, a.sct = some s → s.length < 2 ^ 63) := by
    intro a ha
    have h1 := Sxg.length_le_flatten _ _ (List.mem_map.mpr ⟨a, ha, rfl⟩ : CertChain.encAug a ∈ s.authorities.map CertChain.encAug)
    obtain ⟨_, b1, b2, b3⟩ := brt_encAug_bounds a
    refine ⟨by omega, ?_, ?_⟩
    · intro o ho; have := b2 o ho; omega
    · intro o ho; have := b3 o ho; omega
  have hsub : ∀ vs ∈ s.subsets, vs.sig.length < 2 ^ 63 ∧ vs.signed.length < 2 ^ 63 ∧ vs.authority < 2 ^ 64 := by
    intro vs hvs
    have h1 := Sxg.length_le_flatten _ _ (List.mem_map.mpr ⟨vs, hvs, rfl⟩ : brt_encVouched vs ∈ s.subsets.map brt_encVouched)
    obtain ⟨_, b1, b2⟩ := brt_encVouched_bounds vs
    exact ⟨by omega, by omega, hauth vs hvs⟩
  unfold parseSignatures
  rw [← hx, C12.roundtrip_arrayHeader 2 (by decide)]
  dsimp only
  rw [if_neg (by decide), C12.roundtrip_arrayHeader _ (by omega)]
  dsimp only
  rw [CertChain.decodeCerts_encAll parseOk s.authorities hp hcert [] _]
  dsimp only
  rw [C12.roundtrip_arrayHeader _ (by omega)]
  dsimp only
  have := brt_decodeVouchedList_enc s.subsets [] [] hsub
  rw [List.append_nil, if_pos rfl, List.nil_append] at this
  rw [this]
  simp

/-! ### 5b. the b1 index (every URL occurs once: `[bstr "", offset, length]`) -/

/-- the b1 index entry the writer emits for a URL with a single resource -/
def brt_idxE1 (e : IndexEntry) : Entry :=
  (tstr e.url, encodeArrayHeader 3 ++ (encodeBytes [] ++ (encodeUint e.offset ++ encodeUint e.length)))

theorem brt_indexLoopB1 (url : BUrlFacts) (respLen respOff : Nat) (hro : respOff + respLen < 2 ^ 64) :
    ∀ (es : List IndexEntry) (tail : Bytes) (acc : List ReqEntry), (∀ e ∈ es, brt_IdxOk url respLen e) →
    indexEntriesB1 url respLen respOff es.length
      ((es.map fun e => (brt_idxE1 e).1 ++ (brt_idxE1 e).2).flatten ++ tail) acc =
      some (acc ++ es.map (brt_mkReq respOff)) := by
  intro es
  induction es with
  | nil => intro tail acc _; simp [indexEntriesB1]
  | cons e rest ih =>
    intro tail acc hall
    have hok := hall e (by simp)
    have hrest : ∀ x ∈ rest, brt_IdxOk url respLen x := fun x hx => hall x (List.mem_cons_of_mem _ hx)
    have hin := hok.inResp
    have e0 : ((e :: rest).map fun e => (brt_idxE1 e).1 ++ (brt_idxE1 e).2).flatten ++ tail =
        tstr e.url ++ (encodeArrayHeader 3 ++ (encodeBytes [] ++ (encodeUint e.offset ++ (encodeUint e.length ++
          ((rest.map fun e => (brt_idxE1 e).1 ++ (brt_idxE1 e).2).flatten ++ tail))))) := by
      simp [brt_idxE1]
    rw [e0, List.length_cons, indexEntriesB1, brt_decodeText_tstr _ hok.utf8 hok.len]
    dsimp only
    rw [hok.urlOk]
    dsimp only
    rw [C12.roundtrip_arrayHeader 3 (by decide)]
    dsimp only
    rw [if_neg (by decide), C12.roundtrip_bytes [] (by decide)]
    dsimp only
    rw [if_pos (show ([] : Bytes).isEmpty = true from rfl), if_neg (by decide), decodeLocations,
      C12.roundtrip_uint _ (by omega)]
    dsimp only
    rw [C12.roundtrip_uint _ (by omega)]
    dsimp only
    have hmr : makeRelative respLen respOff e.offset e.length = some (respOff + e.offset, e.length) := by
      unfold makeRelative
      rw [if_neg (by omega), w64_of_lt (by omega)]
    rw [hmr]
    dsimp only
    rw [decodeLocations]
    dsimp only
    rw [ih tail _ hrest]
    simp [brt_mkReq]

/-- the index entry by version -/
def brt_idxEv (ver : BVer) (e : IndexEntry) : Entry :=
  match ver with
  | .b1 => brt_idxE1 e
  | .b2 => brt_idxE e

theorem brt_idxEv_fst (ver : BVer) (e : IndexEntry) : (brt_idxEv ver e).1 = tstr e.url := by
  cases ver <;> rfl

theorem brt_len_le_idxv (ver : BVer) (σ : List IndexEntry) :
    σ.length ≤ (((σ.map (brt_idxEv ver)).map fun e => e.1 ++ e.2).flatten).length := by
  rw [List.map_map]
  apply brt_len_le_flatten_map
  intro e
  have := brt_encodeHead_pos 3 e.url.length
  simp only [Function.comp, brt_idxEv_fst, List.length_append, tstr]
  omega

/-- `parseIndexSection` / `parseIndexSectionWithVariants` on the writer's index (one resource per URL): `pre` are
    the sections in front of the responses section; the requests come out in the order in which `EncodeMap` emitted
    the entries (a permutation `σ` of the writer's entries) -/
theorem brt_parseIndex_enc (url : BUrlFacts) (ver : BVer) (idx : Bytes) (S : Nat) (pre : List SectionOffset)
    (respLen : Nat) (post : List SectionOffset) (ents : List IndexEntry)
    (hpre : ∀ s ∈ pre, s.name ≠ nResponses) (hb : S + lenSum pre + respLen < 2 ^ 64)
    (hall0 : ∀ e ∈ ents, utf8Valid e.url = true ∧ indexUrl url e.url = some e.url ∧ e.offset + e.length ≤ respLen)
    (h : encodeMap (ents.map (brt_idxEv ver)) = .ok idx) (hlen : idx.length < 2 ^ 63) :
    ∃ σ : List IndexEntry, σ.Perm ents ∧
      parseIndex url ver idx S (pre ++ { name := nResponses, length := respLen } :: post) =
        some (σ.map (brt_mkReq (S + lenSum pre))) := by
  obtain ⟨sorted, hp, _, ho⟩ := C11.encodeMap_layout _ _ h
  obtain ⟨σ, hσ, rfl⟩ := Sxg.perm_map_exists (brt_idxEv ver) sorted ents hp
  have hn : ents.length = σ.length := hσ.length_eq.symm
  have hall : ∀ e ∈ σ, brt_IdxOk url respLen e := by
    intro e he
    obtain ⟨a1, a2, a3⟩ := hall0 e (hσ.subset he)
    refine ⟨a1, ?_, a2, a3⟩
    have hm : (brt_idxEv ver e).1 ++ (brt_idxEv ver e).2 ∈ ((σ.map (brt_idxEv ver)).map fun e => e.1 ++ e.2) :=
      List.mem_map.mpr ⟨brt_idxEv ver e, List.mem_map.mpr ⟨e, he, rfl⟩, rfl⟩
    have h1 := Sxg.length_le_flatten _ _ hm
    have h2 := congrArg List.length ho
    simp only [List.length_append, brt_idxEv_fst, tstr] at h1 h2
    omega
  have hcount := brt_len_le_idxv ver σ
  have hl := congrArg List.length ho
  rw [List.length_append] at hl
  refine ⟨σ, hσ, ?_⟩
  unfold parseIndex
  have hmh : decodeMapHeader (encodeHead 5 σ.length ++
      ((σ.map (brt_idxEv ver)).map fun e => e.1 ++ e.2).flatten) = some (σ.length, _) :=
    C12.roundtrip_mapHeader _ (by rw [List.length_map] at hl; omega) _
  rw [ho, List.length_map, hn, hmh]
  dsimp only
  have := brt_findSection pre { name := nResponses, length := respLen } post 0 hpre (by omega)
  dsimp only at this
  rw [this]
  dsimp only
  rw [Nat.zero_add, w64_of_lt (by omega), List.map_map]
  cases ver with
  | b1 =>
    have := brt_indexLoopB1 url respLen (S + lenSum pre) (by omega) σ [] [] hall
    rw [List.append_nil, List.nil_append] at this
    exact this
  | b2 =>
    have := brt_indexLoopB2 url respLen (S + lenSum pre) (by omega) σ [] [] hall
    rw [List.append_nil, List.nil_append] at this
    exact this

theorem brt_mapM_map {α β γ : Type} (f : β → Option γ) (g : α → β) (h : α → γ) (hf : ∀ a, f (g a) = some (h a)) :
    ∀ (l : List α), (l.map g).mapM f = some (l.map h) := by
  intro l
  induction l with
  | nil => rfl
  | cons a rest ih =>
    rw [List.map_cons, List.mapM_cons, hf, ih]
    rfl

/-- a successful `Finalize` of a b1 index over entries with distinct URLs -/
theorem brt_finalize_b1 (entries : List IndexEntry) (idx : Bytes) (hnd : (entries.map (·.url)).Nodup)
    (h : finalizeIndex .b1 entries = .ok (.ok idx)) :
    encodeMap (entries.map brt_idxE1) = .ok idx ∧ ∀ e ∈ entries, utf8Valid e.url = true := by
  obtain ⟨hg, mes, hmes, hm⟩ := finalizeIndex_b1 entries idx h
  rw [brt_groupByUrl_nodup entries [] (by simpa using hnd), List.nil_append] at hg hmes
  rw [brt_mapM_map buildB1 (fun e : IndexEntry => (e.url, [e])) brt_idxE1 (by
    intro e
    unfold buildB1
    rw [if_neg (by simp)]
    simp [brt_idxE1])] at hmes
  injection hmes with hmes
  subst hmes
  exact ⟨hm, fun e he => hg (e.url, [e]) (List.mem_map.mpr ⟨e, he, rfl⟩)⟩

theorem brt_finalize_v (ver : BVer) (entries : List IndexEntry) (idx : Bytes) (hnd : (entries.map (·.url)).Nodup)
    (h : finalizeIndex ver entries = .ok (.ok idx)) :
    encodeMap (entries.map (brt_idxEv ver)) = .ok idx ∧ ∀ e ∈ entries, utf8Valid e.url = true := by
  cases ver with
  | b1 => exact brt_finalize_b1 entries idx hnd h
  | b2 => exact brt_finalize_b2 entries idx hnd h

/-! ### 5c. the optional sections (primary, manifest, signatures), both versions -/

/-- the effect of one optional section on the metadata -/
def brt_eff (url : BUrlFacts) (parseOk : Bytes → Bool) (m : Meta) (s : Bytes × Bytes) : Meta :=
  if s.1 = nPrimary then { m with primaryURL := parseUrlSection url s.2 }
  else if s.1 = nManifest then { m with manifestURL := parseUrlSection url s.2 }
  else { m with signatures := parseSignatures parseOk s.2 }

/-- an optional section the reader accepts -/
def brt_SecOk (url : BUrlFacts) (parseOk : Bytes → Bool) (s : Bytes × Bytes) : Prop :=
  (s.1 = nPrimary ∧ ∃ u, parseUrlSection url s.2 = some u) ∨
  (s.1 = nManifest ∧ ∃ u, parseUrlSection url s.2 = some u) ∨
  (s.1 = nSignatures ∧ ∃ sg, parseSignatures parseOk s.2 = some sg)

/-- the section loop over a run of optional sections -/
theorem brt_loop_mid (url : BUrlFacts) (parseOk : Bytes → Bool) (ver : BVer) (bs : Bytes) (start : Nat)
    (sos : List SectionOffset) (B : Bytes) (rest : List SectionOffset) (hB : 0 < B.length) (hlen : bs.length < 2 ^ 64) :
    ∀ (mid : List (Bytes × Bytes)) (A : Bytes) (m : Meta),
    bs = A ++ ((mid.map (·.2)).flatten ++ B) → (∀ s ∈ mid, brt_SecOk url parseOk s) →
    sectionLoop url parseOk ver bs start sos (brt_sos mid ++ rest) A.length m =
      sectionLoop url parseOk ver bs start sos rest (A.length + (mid.map (·.2)).flatten.length)
        (mid.foldl (brt_eff url parseOk) m) := by
  intro mid
  induction mid with
  | nil => intro A m _ _; simp [brt_sos]
  | cons s tl ih =>
    intro A m hbs hok
    have hbs' : bs = (A ++ s.2) ++ ((tl.map (·.2)).flatten ++ B) := by
      rw [hbs]; simp
    have hl := congrArg List.length hbs'
    simp only [List.length_append] at hl
    have hc : (bs.drop A.length).take s.2.length = s.2 := by
      rw [hbs']
      exact brt_drop_take A s.2 _ _ rfl
    have ih' := ih (A ++ s.2) (brt_eff url parseOk m s) hbs' (fun x hx => hok x (List.mem_cons_of_mem _ hx))
    have e : brt_sos (s :: tl) ++ rest = { name := s.1, length := s.2.length } :: (brt_sos tl ++ rest) := by
      simp [brt_sos]
    rw [e, List.foldl_cons]
    have hlen2 : A.length + ((s :: tl).map (·.2)).flatten.length =
        (A ++ s.2).length + (tl.map (·.2)).flatten.length := by
      simp only [List.map_cons, List.flatten_cons, List.length_append]; omega
    rw [hlen2, ← ih', List.length_append]
    rcases hok s (by simp) with ⟨hn, u, hu⟩ | ⟨hn, u, hu⟩ | ⟨hn, sg, hsg⟩
    · rw [brt_step_primary url parseOk ver bs start sos _ _ A.length m u hn (by dsimp only; omega) hlen
        (by dsimp only; rw [hc]; exact hu)]
      unfold brt_eff
      rw [if_pos hn, hu]
    · rw [brt_step_manifest url parseOk ver bs start sos _ _ A.length m u hn (by dsimp only; omega) hlen
        (by dsimp only; rw [hc]; exact hu)]
      unfold brt_eff
      rw [hn, if_neg (by decide), if_pos rfl, hu]
    · rw [brt_step_sigs url parseOk ver bs start sos _ _ A.length m sg hn (by dsimp only; omega) hlen
        (by dsimp only; rw [hc]; exact hsg)]
      unfold brt_eff
      rw [hn, if_neg (by decide), if_neg (by decide), hsg]

/-- a run of sections that all set the primary URL to `v` -/
theorem brt_foldl_primary (url : BUrlFacts) (parseOk : Bytes → Bool) (v : Option Bytes) :
    ∀ (l : List (Bytes × Bytes)) (m : Meta), (∀ s ∈ l, s.1 = nPrimary ∧ parseUrlSection url s.2 = v) →
    l.foldl (brt_eff url parseOk) m = { m with primaryURL := if l.isEmpty then m.primaryURL else v } := by
  intro l
  induction l with
  | nil => intro m _; rfl
  | cons s tl ih =>
    intro m h
    obtain ⟨h1, h2⟩ := h s (by simp)
    rw [List.foldl_cons, ih _ (fun x hx => h x (List.mem_cons_of_mem _ hx))]
    unfold brt_eff
    rw [if_pos h1, h2]
    cases tl <;> rfl

theorem brt_foldl_manifest (url : BUrlFacts) (parseOk : Bytes → Bool) (v : Option Bytes) :
    ∀ (l : List (Bytes × Bytes)) (m : Meta), (∀ s ∈ l, s.1 = nManifest ∧ parseUrlSection url s.2 = v) →
    l.foldl (brt_eff url parseOk) m = { m with manifestURL := if l.isEmpty then m.manifestURL else v } := by
  intro l
  induction l with
  | nil => intro m _; rfl
  | cons s tl ih =>
    intro m h
    obtain ⟨h1, h2⟩ := h s (by simp)
    rw [List.foldl_cons, ih _ (fun x hx => h x (List.mem_cons_of_mem _ hx))]
    unfold brt_eff
    rw [h1, if_neg (by decide), if_pos rfl, h2]
    cases tl <;> rfl

theorem brt_foldl_sigs (url : BUrlFacts) (parseOk : Bytes → Bool) (v : Option Sigs) :
    ∀ (l : List (Bytes × Bytes)) (m : Meta), (∀ s ∈ l, s.1 = nSignatures ∧ parseSignatures parseOk s.2 = v) →
    l.foldl (brt_eff url parseOk) m = { m with signatures := if l.isEmpty then m.signatures else v } := by
  intro l
  induction l with
  | nil => intro m _; rfl
  | cons s tl ih =>
    intro m h
    obtain ⟨h1, h2⟩ := h s (by simp)
    rw [List.foldl_cons, ih _ (fun x hx => h x (List.mem_cons_of_mem _ hx))]
    unfold brt_eff
    rw [h1, if_neg (by decide), if_neg (by decide), h2]
    cases tl <;> rfl

theorem brt_primarySec (b : Bundle) (p : List (Bytes × Bytes)) (h : primarySec b = .ok p) :
    (∀ x ∈ p, x.1 = nPrimary ∧ ∃ u, b.primaryURL = some u ∧ encodeUrlSection u = .ok x.2 ∧ b.version = .b2) ∧
    (p = [] → b.version = .b2 → b.primaryURL = none) := by
  unfold primarySec at h
  cases hv : b.version with
  | b1 =>
    rw [hv] at h
    injection h with h
    subst h
    exact ⟨fun x hx => (by cases hx), fun _ hc => (by cases hc)⟩
  | b2 =>
    cases hu : b.primaryURL with
    | none =>
      rw [hv, hu] at h
      injection h with h
      subst h
      exact ⟨fun x hx => (by cases hx), fun _ _ => rfl⟩
    | some u =>
      rw [hv, hu] at h
      cases he : encodeUrlSection u with
      | error e => simp only [he] at h; cases h
      | ok x =>
        simp only [he] at h
        injection h with h
        subst h
        refine ⟨?_, fun hc => by cases hc⟩
        intro y hy
        rw [List.mem_singleton.mp hy]
        exact ⟨rfl, u, rfl, he, rfl⟩

theorem brt_manifestSec (b : Bundle) (m : List (Bytes × Bytes)) (h : manifestSec b = .ok m) :
    (∀ x ∈ m, x.1 = nManifest ∧ ∃ u, b.manifestURL = some u ∧ encodeUrlSection u = .ok x.2) ∧
    (m = [] → b.manifestURL = none) := by
  unfold manifestSec at h
  cases hu : b.manifestURL with
  | none =>
    rw [hu] at h
    injection h with h
    subst h
    exact ⟨fun x hx => (by cases hx), fun _ => rfl⟩
  | some u =>
    rw [hu] at h
    dsimp only at h
    by_cases hv : b.version ≠ .b1
    · rw [if_pos hv] at h; cases h
    · rw [if_neg hv] at h
      cases he : encodeUrlSection u with
      | error e => simp only [he] at h; cases h
      | ok x =>
        simp only [he] at h
        injection h with h
        subst h
        refine ⟨?_, fun hc => by cases hc⟩
        intro y hy
        rw [List.mem_singleton.mp hy]
        exact ⟨rfl, u, rfl, he⟩

theorem brt_sigsSec (b : Bundle) (s : List (Bytes × Bytes)) (h : sigsSec b = .ok s) :
    (∀ x ∈ s, x.1 = nSignatures ∧ ∃ sg, b.signatures = some sg ∧ encodeSignatures sg = .ok x.2) ∧
    (s = [] → b.signatures = none) := by
  unfold sigsSec at h
  cases hu : b.signatures with
  | none =>
    rw [hu] at h
    injection h with h
    subst h
    exact ⟨fun x hx => (by cases hx), fun _ => rfl⟩
  | some sg =>
    rw [hu] at h
    cases he : encodeSignatures sg with
    | error e => simp only [he] at h; cases h
    | ok x =>
      simp only [he] at h
      injection h with h
      subst h
      refine ⟨?_, fun hc => by cases hc⟩
      intro y hy
      rw [List.mem_singleton.mp hy]
      exact ⟨rfl, sg, rfl, he⟩

theorem brt_headOf (b : Bundle) (hdr : Bytes) (h : headOf b = .ok (.ok hdr)) :
    (b.version = .b2 ∧ hdr = BVer.magic .b2) ∨
    (b.version = .b1 ∧ ∃ u t, b.primaryURL = some u ∧ encodeText u = .ok t ∧ hdr = BVer.magic .b1 ++ t) := by
  unfold headOf at h
  cases hv : b.version with
  | b2 =>
    rw [hv] at h
    injection h with h
    injection h with h
    exact Or.inl ⟨rfl, h.symm⟩
  | b1 =>
    rw [hv] at h
    dsimp only at h
    cases hu : b.primaryURL with
    | none => rw [hu] at h; cases h
    | some u =>
      rw [hu] at h
      dsimp only at h
      cases he : encodeText u with
      | error e => simp only [he] at h; cases h
      | ok t =>
        simp only [he] at h
        injection h with h
        injection h with h
        exact Or.inr ⟨rfl, u, t, rfl, he, h.symm⟩

theorem brt_encodeText_len (u t : Bytes) (h : encodeText u = .ok t) : u.length ≤ t.length ∧ utf8Valid u = true := by
  unfold encodeText at h
  by_cases hval : utf8Valid u = true
  · rw [if_pos hval] at h
    injection h with h
    rw [← h, List.length_append]
    exact ⟨by omega, hval⟩
  · rw [if_neg hval] at h; cases h

/-- format constraints the reader enforces and the writer does not check (both versions, all sections) -/
structure RDomG (url : BUrlFacts) (parseOk : Bytes → Bool) (b : Bundle) : Prop where
  /-- every resource URL parses, has no fragment and no credentials, and prints as itself -/
  urlsOk : ∀ e ∈ b.exchanges, ∃ isAbs, url e.url = some (false, false, isAbs, e.url)
  /-- one resource per URL (b2: the writer refuses otherwise; b1: no variants) -/
  urlsDistinct : (b.exchanges.map (·.url)).Nodup
  /-- the primary URL parses and prints as itself; in the b2 `primary` section it must moreover be absolute without
      fragment and credentials (the b1 header field is not checked by the reader) -/
  primaryOk : ∀ u, b.primaryURL = some u → ∃ frag user abs, url u = some (frag, user, abs, u) ∧
    (b.version = .b2 → frag = false ∧ user = false ∧ abs = true)
  /-- the manifest URL is absolute, has no fragment and no credentials, and prints as itself -/
  manifestOk : ∀ u, b.manifestURL = some u → url u = some (false, false, true, u)
  /-- three-digit status codes -/
  status : ∀ e ∈ b.exchanges, 100 ≤ e.resp.status ∧ e.resp.status ≤ 999
  /-- ASCII header names (not pseudo headers) and values -/
  hdrAscii : ∀ e ∈ b.exchanges, ∀ kv ∈ e.resp.headers,
    isAscii kv.1 = true ∧ (∀ v ∈ kv.2, isAscii v = true) ∧ kv.1.head? ≠ some 58
  /-- `x509.ParseCertificate` accepts every authority certificate -/
  certsOk : ∀ s, b.signatures = some s → ∀ a ∈ s.authorities, parseOk a.cert = true
  /-- `VouchedSubset.Authority` is a Go `uint64` -/
  authIdx : ∀ s, b.signatures = some s → ∀ vs ∈ s.subsets, vs.authority < 2 ^ 64

/-- (3, general) `loadMetadata` on the writer's output, both versions, with optional primary / manifest /
    signatures sections: all metadata fields come back, and there is one request per exchange, in index order
    (`σ`), each delimiting the bytes of that exchange's encoded response -/
theorem brt_loadMetadata_write (url : BUrlFacts) (parseOk : Bytes → Bool) (b : Bundle) (out : Bytes)
    (hd : RDomG url parseOk b) (hw : write b = .ok (.ok out)) (hlen : out.length < 2 ^ 63) :
    ∃ (L σ : List (Exch × Bytes × Nat)) (respOff : Nat),
      L.map (·.1) = b.exchanges ∧ σ.Perm L ∧
      (∀ t ∈ L, encodeResponse t.1.resp = .ok t.2.1 ∧ respOff + t.2.2 + t.2.1.length ≤ out.length ∧
        (out.drop (respOff + t.2.2)).take t.2.1.length = t.2.1) ∧
      loadMetadata url parseOk out =
        .ok { version := b.version, primaryURL := b.primaryURL, manifestURL := b.manifestURL,
              signatures := b.signatures, requests := σ.map (brt_reqOf respOff) } := by
  obtain ⟨respBuf, entries, idx, p, m, s, hdr, h1, h2, h3, h4, h5, h6, ho⟩ := write_ok b out hw
  obtain ⟨hpF, hpE⟩ := brt_primarySec b p h3
  obtain ⟨hmF, hmE⟩ := brt_manifestSec b m h4
  obtain ⟨hsF, hsE⟩ := brt_sigsSec b s h5
  -- the exchanges loop
  obtain ⟨L, tail, l1, l2, l3, l4⟩ := brt_addExchanges _ _ _ _ _ h1
  rw [List.nil_append] at l2
  -- the layout of the file
  obtain ⟨footer, hfl, ho'⟩ : ∃ footer : Bytes, footer.length = 9 ∧
      out = bodyOf hdr (sectionsOf idx respBuf p m s) ++ footer := ⟨_, footer_length _, ho⟩
  clear ho
  have hndp0 := sections_nodup idx respBuf p m s
    (by rcases primarySec_ok b p h3 with h | ⟨_, h⟩
        · exact Or.inl h
        · exact Or.inr h)
    (by rcases manifestSec_ok b m h4 with h | ⟨_, h⟩
        · exact Or.inl h
        · exact Or.inr h)
    (sigsSec_ok b s h5)
  have hcnt : (p ++ (m ++ s)).length ≤ 3 := by
    have a1 : p.length ≤ 1 := by
      rcases primarySec_ok b p h3 with h | ⟨_, x, h⟩ <;> rw [h] <;> simp
    have a2 : m.length ≤ 1 := by
      rcases manifestSec_ok b m h4 with h | ⟨_, x, h⟩ <;> rw [h] <;> simp
    have a3 : s.length ≤ 1 := by
      rcases sigsSec_ok b s h5 with h | ⟨x, h⟩ <;> rw [h] <;> simp
    simp only [List.length_append]; omega
  have hsec : sectionsOf idx respBuf p m s = ([(nIndex, idx)] ++ (p ++ (m ++ s))) ++ [(nResponses, respBuf)] := by
    unfold sectionsOf; simp
  generalize hmid : p ++ (m ++ s) = mid at hsec hcnt
  rw [hsec] at ho' hndp0
  unfold bodyOf at ho'
  simp only [List.append_assoc] at ho' hndp0
  have hmidn : ∀ x ∈ mid, x.1 = nPrimary ∨ x.1 = nManifest ∨ x.1 = nSignatures := by
    intro x hx
    rw [← hmid] at hx
    rcases List.mem_append.mp hx with hx | hx
    · exact Or.inl (hpF x hx).1
    · rcases List.mem_append.mp hx with hx | hx
      · exact Or.inr (Or.inl (hmF x hx).1)
      · exact Or.inr (Or.inr (hsF x hx).1)
  have hnames : ∀ x ∈ [(nIndex, idx)] ++ (mid ++ [(nResponses, respBuf)]),
      x.1 = nIndex ∨ x.1 = nPrimary ∨ x.1 = nManifest ∨ x.1 = nSignatures ∨ x.1 = nResponses := by
    intro x hx
    rcases List.mem_append.mp hx with hx | hx
    · rw [List.mem_singleton.mp hx]; exact Or.inl rfl
    · rcases List.mem_append.mp hx with hx | hx
      · rcases hmidn x hx with h | h | h
        · exact Or.inr (Or.inl h)
        · exact Or.inr (Or.inr (Or.inl h))
        · exact Or.inr (Or.inr (Or.inr (Or.inl h)))
      · rw [List.mem_singleton.mp hx]; exact Or.inr (Or.inr (Or.inr (Or.inr rfl)))
  have hall : ∀ x ∈ [(nIndex, idx)] ++ (mid ++ [(nResponses, respBuf)]),
      utf8Valid x.1 = true ∧ x.1.length < 2 ^ 63 := by
    intro x hx
    rcases hnames x hx with h | h | h | h | h <;> rw [h] <;> exact ⟨by decide +kernel, by decide⟩
  have hsl : (lengthsOf ([(nIndex, idx)] ++ (mid ++ [(nResponses, respBuf)]))).length < 8192 := by
    have := brt_lengthsOf_le ([(nIndex, idx)] ++ (mid ++ [(nResponses, respBuf)])) (by
      intro x hx
      rcases hnames x hx with h | h | h | h | h <;> rw [h] <;> decide)
    simp only [List.length_append, List.length_cons, List.length_nil] at this ⊢
    omega
  -- the prologue
  have hmeta : ∀ fallback, brt_metaTail url parseOk b.version out fallback
      (encodeBytes (lengthsOf ([(nIndex, idx)] ++ (mid ++ [(nResponses, respBuf)]))) ++
        (encodeArrayHeader ([(nIndex, idx)] ++ (mid ++ [(nResponses, respBuf)])).length ++
          ((([(nIndex, idx)] ++ (mid ++ [(nResponses, respBuf)])).map (·.2)).flatten ++ footer))) =
      sectionLoop url parseOk b.version out
        (hdr ++ (encodeBytes (lengthsOf ([(nIndex, idx)] ++ (mid ++ [(nResponses, respBuf)]))) ++
          encodeArrayHeader ([(nIndex, idx)] ++ (mid ++ [(nResponses, respBuf)])).length)).length
        (brt_sos ([(nIndex, idx)] ++ (mid ++ [(nResponses, respBuf)])))
        (brt_sos ([(nIndex, idx)] ++ (mid ++ [(nResponses, respBuf)])))
        (hdr ++ (encodeBytes (lengthsOf ([(nIndex, idx)] ++ (mid ++ [(nResponses, respBuf)]))) ++
          encodeArrayHeader ([(nIndex, idx)] ++ (mid ++ [(nResponses, respBuf)])).length)).length
        { version := b.version, primaryURL := fallback, manifestURL := none, signatures := none, requests := [] } := by
    intro fallback
    have := brt_metaTail_sections url parseOk b.version fallback hdr ([(nIndex, idx)] ++ mid) respBuf footer
      (by rw [List.append_assoc]; exact hall) (by rw [List.append_assoc]; exact hndp0)
      (by rw [List.append_assoc]; exact hsl) (by rw [List.append_assoc, ← ho']; exact hlen)
    rw [List.append_assoc, ← ho'] at this
    exact this
  have hload : ∃ fallback, (mid = [] ∨ b.version = .b1 → fallback = b.primaryURL) ∧
      (b.version = .b2 → fallback = none) ∧
      loadMetadata url parseOk out = brt_metaTail url parseOk b.version out fallback
        (encodeBytes (lengthsOf ([(nIndex, idx)] ++ (mid ++ [(nResponses, respBuf)]))) ++
          (encodeArrayHeader ([(nIndex, idx)] ++ (mid ++ [(nResponses, respBuf)])).length ++
            ((([(nIndex, idx)] ++ (mid ++ [(nResponses, respBuf)])).map (·.2)).flatten ++ footer))) := by
    rcases brt_headOf b hdr h6 with ⟨hv, rfl⟩ | ⟨hv, u, t, hu, ht, rfl⟩
    · refine ⟨none, ?_, fun _ => rfl, ?_⟩
      · intro hc
        rcases hc with hc | hc
        · have : p = [] := by
            rw [← hmid] at hc
            exact (List.append_eq_nil_iff.mp hc).1
          exact (hpE this hv).symm
        · rw [hv] at hc; cases hc
      · rw [hv]
        exact brt_loadMetadata_b2 url parseOk out _ (by rw [ho']; exact brt_parseMagic_b2 _)
    · refine ⟨some u, fun _ => hu.symm, fun hc => (by rw [hv] at hc; cases hc), ?_⟩
      obtain ⟨frag, user, abs, hurl, _⟩ := hd.primaryOk u hu
      obtain ⟨hul, _⟩ := brt_encodeText_len u t ht
      have hl := congrArg List.length ho'
      simp only [List.length_append] at hl
      rw [hv]
      refine brt_loadMetadata_b1 url parseOk out (t ++ _) u _ u frag user abs
        (by rw [ho', List.append_assoc]; exact brt_parseMagic_b1 _)
        (C12.roundtrip_text u t (by omega) ht _) hurl
  obtain ⟨fallback, hfb1, hfb2, hload⟩ := hload
  rw [hmeta] at hload
  clear hmeta
  generalize hPRE : hdr ++ (encodeBytes (lengthsOf ([(nIndex, idx)] ++ (mid ++ [(nResponses, respBuf)]))) ++
      encodeArrayHeader ([(nIndex, idx)] ++ (mid ++ [(nResponses, respBuf)])).length) = PRE at hload
  have hout : out = PRE ++ (idx ++ ((mid.map (·.2)).flatten ++ (respBuf ++ footer))) := by
    rw [ho', ← hPRE]
    simp only [List.append_assoc, List.map_append, List.map_cons, List.map_nil, List.flatten_append,
      List.flatten_cons, List.flatten_nil, List.append_nil, List.cons_append, List.nil_append]
  have houtl := congrArg List.length hout
  simp only [List.length_append] at houtl
  -- the index
  have hurls : (entries.map (·.url)).Nodup := by
    rw [l2, List.map_map]
    have : (L.map ((fun e : IndexEntry => e.url) ∘ brt_toEntry)) = (L.map (·.1)).map (·.url) := by
      rw [List.map_map]; rfl
    rw [this, l1]
    exact hd.urlsDistinct
  obtain ⟨hidxmap, hutf8⟩ := brt_finalize_v b.version entries idx hurls h2
  have hsosE : brt_sos ([(nIndex, idx)] ++ (mid ++ [(nResponses, respBuf)])) =
      brt_sos ([(nIndex, idx)] ++ mid) ++ { name := nResponses, length := respBuf.length } :: [] := by
    simp [brt_sos]
  have hlenpre : lenSum (brt_sos ([(nIndex, idx)] ++ mid)) = idx.length + (mid.map (·.2)).flatten.length := by
    rw [brt_lenSum_sos]
    simp
  have hinL : ∀ t ∈ L, t.2.2 + t.2.1.length ≤ respBuf.length := by
    intro t ht
    obtain ⟨_, _, A, B, e, eA⟩ := l4 t ht
    have := congrArg List.length e
    simp only [List.length_append] at this
    omega
  obtain ⟨σe, hσe, hpi⟩ := brt_parseIndex_enc url b.version idx PRE.length (brt_sos ([(nIndex, idx)] ++ mid))
    respBuf.length [] entries (by
      intro so hso
      obtain ⟨x, hx, rfl⟩ := List.mem_map.mp hso
      intro hc
      have hnd' := hndp0
      rw [← List.append_assoc, List.map_append, List.nodup_append] at hnd'
      exact hnd'.2.2 x.1 (List.mem_map.mpr ⟨x, hx, rfl⟩) nResponses (by simp) hc)
    (by rw [hlenpre]; omega)
    (by
      intro e he
      rw [l2] at he
      obtain ⟨t, ht, rfl⟩ := List.mem_map.mp he
      have hmem : t.1 ∈ b.exchanges := by rw [← l1]; exact List.mem_map.mpr ⟨t, ht, rfl⟩
      obtain ⟨isAbs, hu⟩ := hd.urlsOk t.1 hmem
      refine ⟨hutf8 _ (by rw [l2]; exact List.mem_map.mpr ⟨t, ht, rfl⟩), ?_, hinL t ht⟩
      show indexUrl url t.1.url = some t.1.url
      unfold indexUrl
      rw [hu]
      rfl)
    hidxmap (by omega)
  rw [l2] at hσe
  obtain ⟨σ, hσ, rfl⟩ := Sxg.perm_map_exists brt_toEntry σe L hσe
  rw [hlenpre] at hpi
  refine ⟨L, σ, PRE.length + (idx.length + (mid.map (·.2)).flatten.length), l1, hσ, ?_, ?_⟩
  · intro t ht
    obtain ⟨a1, _, A, B, e, eA⟩ := l4 t ht
    have := hinL t ht
    refine ⟨a1, by omega, ?_⟩
    have e2 : out = (PRE ++ idx ++ (mid.map (·.2)).flatten ++ A) ++ t.2.1 ++ (B ++ footer) := by
      rw [hout, e]; simp only [List.append_assoc]
    rw [e2]
    exact brt_drop_take _ _ _ _ (by simp only [List.length_append]; omega)
  · -- the section loop
    have hxlen : ∀ x ∈ mid, x.2.length < 2 ^ 63 := by
      intro x hx
      have := Sxg.length_le_flatten _ _ (List.mem_map.mpr ⟨x, hx, rfl⟩ : x.2 ∈ mid.map (·.2))
      omega
    have hpP : ∀ x ∈ p, x.1 = nPrimary ∧ parseUrlSection url x.2 = b.primaryURL := by
      intro x hx
      obtain ⟨hn, u, hu, he, hv⟩ := hpF x hx
      refine ⟨hn, ?_⟩
      obtain ⟨frag, user, abs, hurl, hb2⟩ := hd.primaryOk u hu
      obtain ⟨rfl, rfl, rfl⟩ := hb2 hv
      have hxl := hxlen x (by rw [← hmid]; exact List.mem_append_left _ hx)
      have := brt_encodeText_len u x.2 he
      rw [hu]
      exact brt_parseUrlSection url u x.2 he (by omega) hurl
    have hmP : ∀ x ∈ m, x.1 = nManifest ∧ parseUrlSection url x.2 = b.manifestURL := by
      intro x hx
      obtain ⟨hn, u, hu, he⟩ := hmF x hx
      refine ⟨hn, ?_⟩
      have hxl := hxlen x (by rw [← hmid]; exact List.mem_append_right _ (List.mem_append_left _ hx))
      have := brt_encodeText_len u x.2 he
      rw [hu]
      exact brt_parseUrlSection url u x.2 he (by omega) (hd.manifestOk u hu)
    have hsP : ∀ x ∈ s, x.1 = nSignatures ∧ parseSignatures parseOk x.2 = b.signatures := by
      intro x hx
      obtain ⟨hn, sg, hu, he⟩ := hsF x hx
      refine ⟨hn, ?_⟩
      have hxl := hxlen x (by rw [← hmid]; exact List.mem_append_right _ (List.mem_append_right _ hx))
      rw [hu]
      exact brt_parseSignatures_encode parseOk sg x.2 he hxl (hd.certsOk sg hu) (hd.authIdx sg hu)
    have hsecok : ∀ x ∈ mid, brt_SecOk url parseOk x := by
      intro x hx
      rw [← hmid] at hx
      rcases List.mem_append.mp hx with hx | hx
      · obtain ⟨hn, u, hu, _⟩ := hpF x hx
        exact Or.inl ⟨hn, u, by rw [(hpP x hx).2, hu]⟩
      · rcases List.mem_append.mp hx with hx | hx
        · obtain ⟨hn, u, hu, _⟩ := hmF x hx
          exact Or.inr (Or.inl ⟨hn, u, by rw [(hmP x hx).2, hu]⟩)
        · obtain ⟨hn, sg, hu, _⟩ := hsF x hx
          exact Or.inr (Or.inr ⟨hn, sg, by rw [(hsP x hx).2, hu]⟩)
    have hc1 : (out.drop PRE.length).take idx.length = idx := by
      rw [hout, ← List.append_assoc]
      exact brt_drop_take PRE idx _ _ rfl
    rw [hload, hsosE]
    have e : brt_sos ([(nIndex, idx)] ++ mid) ++ [({ name := nResponses, length := respBuf.length } : SectionOffset)] =
        { name := nIndex, length := idx.length } ::
          (brt_sos mid ++ [({ name := nResponses, length := respBuf.length } : SectionOffset)]) := by
      simp [brt_sos]
    rw [e] at hpi ⊢
    rw [brt_step_index url parseOk b.version out PRE.length _ _ _ PRE.length _ _ rfl (by dsimp only; omega)
      (by omega) (by dsimp only; rw [hc1]; exact hpi)]
    have hmidloop := brt_loop_mid url parseOk b.version out PRE.length
      ({ name := nIndex, length := idx.length } ::
        (brt_sos mid ++ [({ name := nResponses, length := respBuf.length } : SectionOffset)]))
      (respBuf ++ footer) [{ name := nResponses, length := respBuf.length }]
      (by rw [List.length_append]; omega) (by omega) mid (PRE ++ idx)
      { version := b.version, primaryURL := fallback, manifestURL := none, signatures := none,
        requests := (σ.map brt_toEntry).map (brt_mkReq (PRE.length + (idx.length + (mid.map (·.2)).flatten.length))) }
      (by rw [hout]; simp only [List.append_assoc]) hsecok
    rw [List.length_append] at hmidloop
    dsimp only
    rw [hmidloop, brt_step_responses _ _ _ _ _ _ _ _ _ _ rfl, sectionLoop]
    -- the accumulated metadata
    rw [← hmid, List.foldl_append, List.foldl_append, brt_foldl_primary url parseOk b.primaryURL p _ hpP,
      brt_foldl_manifest url parseOk b.manifestURL m _ hmP, brt_foldl_sigs url parseOk b.signatures s _ hsP]
    have f1 : (if p.isEmpty = true then fallback else b.primaryURL) = b.primaryURL := by
      cases p with
      | nil =>
        cases hv : b.version with
        | b1 => exact hfb1 (Or.inr hv)
        | b2 => rw [hfb2 hv, hpE rfl hv]; rfl
      | cons x tl => rfl
    have f2 : (if m.isEmpty = true then (none : Option Bytes) else b.manifestURL) = b.manifestURL := by
      cases m with
      | nil => rw [hmE rfl]; rfl
      | cons x tl => rfl
    have f3 : (if s.isEmpty = true then (none : Option Sigs) else b.signatures) = b.signatures := by
      cases s with
      | nil => rw [hsE rfl]; rfl
      | cons x tl => rfl
    dsimp only
    rw [f1, f2, f3, List.map_map]
    rfl


/-! ### 5d. the round trip, both versions, all sections -/

/-- **write → read round trip** for b1 (one resource per URL, i.e. no variants) and b2, with optional primary /
    manifest / signatures sections: version, primary URL, manifest URL and the signatures section (authority
    certificates with OCSP / SCT, vouched subsets) come back unchanged, and the exchanges come back in index order
    as in `read_write_b2`. -/
theorem read_write (url : BUrlFacts) (parseOk : Bytes → Bool) (b : Bundle) (out : Bytes)
    (hd : RDomG url parseOk b) (hw : write b = .ok (.ok out)) (hlen : out.length < 2 ^ 63) :
    ∃ b', read url parseOk out = .ok b' ∧ b'.version = b.version ∧ b'.primaryURL = b.primaryURL ∧
      b'.manifestURL = b.manifestURL ∧ b'.signatures = b.signatures ∧
      ∃ σ : List Exch, σ.Perm b.exchanges ∧ b'.exchanges.length = σ.length ∧
        b'.exchanges.map (·.url) = σ.map (·.url) ∧
        ∀ i (hi : i < σ.length), ∃ e', b'.exchanges[i]? = some e' ∧ e'.url = σ[i].url ∧
          e'.resp.status = σ[i].resp.status ∧ e'.resp.body = σ[i].resp.body ∧
          e'.resp.headers.Perm (σ[i].resp.headers.map
            fun kv => (canonicalKey (lowerAscii kv.1), [joinComma kv.2])) := by
  obtain ⟨L, σL, respOff, l1, hσ, hL, hmeta⟩ := brt_loadMetadata_write url parseOk b out hd hw hlen
  exact brt_read_of_meta url parseOk b.exchanges out hlen
    (fun e he => ⟨hd.status e he, hd.hdrAscii e he⟩) L σL respOff l1 hσ hL _ rfl hmeta

/-- group sizes only grow while `groupByUrl` runs -/
theorem brt_groupByUrl_mono : ∀ (es : List IndexEntry) (acc : List (Bytes × List IndexEntry))
    (g : Bytes × List IndexEntry), g ∈ acc →
    ∃ g' ∈ groupByUrl es acc, g'.1 = g.1 ∧ g.2.length ≤ g'.2.length := by
  intro es
  induction es with
  | nil => intro acc g hg; rw [groupByUrl]; exact ⟨g, hg, rfl, Nat.le_refl _⟩
  | cons e rest ih =>
    intro acc g hg
    rw [groupByUrl]
    by_cases hc : acc.any (·.1 == e.url) = true
    · rw [if_pos hc]
      obtain ⟨u, es0⟩ := g
      by_cases hu : (u == e.url) = true
      · obtain ⟨g', hg', h1, h2⟩ := ih (acc.map fun (u, es) => if u == e.url then (u, es ++ [e]) else (u, es)) (u, es0 ++ [e])
          (List.mem_map.mpr ⟨(u, es0), hg, by simp [hu]⟩)
        refine ⟨g', hg', h1, ?_⟩
        simp only [List.length_append] at h2
        dsimp only
        omega
      · obtain ⟨g', hg', h1, h2⟩ := ih (acc.map fun (u, es) => if u == e.url then (u, es ++ [e]) else (u, es)) (u, es0)
          (List.mem_map.mpr ⟨(u, es0), hg, by simp [hu]⟩)
        exact ⟨g', hg', h1, h2⟩
    · rw [if_neg hc]
      exact ih _ g (List.mem_append_left _ hg)

/-- if no group ends up with more than one entry, the URLs were pairwise distinct -/
theorem brt_groupByUrl_small : ∀ (es : List IndexEntry) (acc : List (Bytes × List IndexEntry)),
    (acc.map Prod.fst).Nodup → (∀ g ∈ acc, 1 ≤ g.2.length) → (∀ g ∈ groupByUrl es acc, g.2.length ≤ 1) →
    (acc.map Prod.fst ++ es.map (·.url)).Nodup := by
  intro es
  induction es with
  | nil => intro acc hnd _ _; simpa using hnd
  | cons e rest ih =>
    intro acc hnd hne hsmall
    rw [groupByUrl] at hsmall
    by_cases hc : acc.any (·.1 == e.url) = true
    · exfalso
      rw [if_pos hc] at hsmall
      obtain ⟨g, hg, hge⟩ := List.any_eq_true.mp hc
      obtain ⟨u, es0⟩ := g
      have hu : (u == e.url) = true := hge
      obtain ⟨g', hg', _, h2⟩ := brt_groupByUrl_mono rest (acc.map fun (u, es) => if u == e.url then (u, es ++ [e]) else (u, es)) (u, es0 ++ [e])
        (List.mem_map.mpr ⟨(u, es0), hg, by simp [hu]⟩)
      have h3 := hsmall g' hg'
      have h4 := hne (u, es0) hg
      simp only [List.length_append, List.length_cons, List.length_nil] at h2
      dsimp only at h4
      omega
    · rw [if_neg hc] at hsmall
      have hfresh : e.url ∉ acc.map Prod.fst := by
        intro hm
        obtain ⟨g, hg, hge⟩ := List.mem_map.mp hm
        exact hc (List.any_eq_true.mpr ⟨g, hg, by simp [hge]⟩)
      have := ih (acc ++ [(e.url, [e])])
        (by
          rw [List.map_append, List.nodup_append]
          refine ⟨hnd, by simp, ?_⟩
          intro a ha b hb hab
          simp only [List.map_cons, List.map_nil, List.mem_singleton] at hb
          subst hb; subst hab
          exact hfresh ha)
        (by
          intro g hg
          rcases List.mem_append.mp hg with hg | hg
          · exact hne g hg
          · rw [List.mem_singleton.mp hg]; exact Nat.le_refl _)
        hsmall
      have e2 : ((acc ++ [(e.url, [e])]).map Prod.fst ++ rest.map (·.url)) =
          acc.map Prod.fst ++ (e :: rest).map (·.url) := by simp
      rw [e2] at this
      exact this

/-- a b2 bundle that `WriteTo` accepted has pairwise distinct resource URLs -/
theorem brt_write_b2_urlsDistinct (b : Bundle) (out : Bytes) (hv : b.version = .b2) (hw : write b = .ok (.ok out)) :
    (b.exchanges.map (·.url)).Nodup := by
  obtain ⟨respBuf, entries, idx, p, m, s, hdr, h1, h2, _⟩ := write_ok b out hw
  rw [hv] at h2
  obtain ⟨_, _, _, _, hurl, _⟩ := addExchanges_top b respBuf entries h1
  obtain ⟨hg, _⟩ := finalizeIndex_b2 entries idx h2
  have := brt_groupByUrl_small entries [] (by simp) (by intro g hg; cases hg) (fun g hgm => (hg g hgm).2)
  rw [List.map_nil, List.nil_append, hurl] at this
  exact this


/-! ### the round trip, version b2 without signatures section (the case asked for first; corollary of the above) -/

/-- format constraints the reader enforces and the writer does not check -/
structure RDom (url : BUrlFacts) (b : Bundle) : Prop where
  /-- every resource URL parses, has no fragment and no credentials, and prints as itself -/
  urlsOk : ∀ e ∈ b.exchanges, ∃ isAbs, url e.url = some (false, false, isAbs, e.url)
  /-- the primary URL is absolute, has no fragment and no credentials, and prints as itself -/
  primaryOk : ∀ u, b.primaryURL = some u → url u = some (false, false, true, u)
  /-- three-digit status codes -/
  status : ∀ e ∈ b.exchanges, 100 ≤ e.resp.status ∧ e.resp.status ≤ 999
  /-- ASCII header names (not pseudo headers) and values -/
  hdrAscii : ∀ e ∈ b.exchanges, ∀ kv ∈ e.resp.headers,
    isAscii kv.1 = true ∧ (∀ v ∈ kv.2, isAscii v = true) ∧ kv.1.head? ≠ some 58
  /-- no signatures section -/
  sigs : b.signatures = none


/-- the b2 domain is an instance of the general one; a b2 bundle that was written has no manifest URL -/
theorem brt_RDomG_of_b2 (url : BUrlFacts) (parseOk : Bytes → Bool) (b : Bundle) (out : Bytes) (hv : b.version = .b2)
    (hd : RDom url b) (hw : write b = .ok (.ok out)) : RDomG url parseOk b ∧ b.manifestURL = none := by
  obtain ⟨respBuf, entries, idx, p, m, s, hdr, h1, h2, h3, h4, h5, h6, ho⟩ := write_ok b out hw
  have hman : b.manifestURL = none := by
    rcases manifestSec_ok b m h4 with hm | ⟨hm, _⟩
    · exact (brt_manifestSec b m h4).2 hm
    · rw [hv] at hm; cases hm
  refine ⟨⟨hd.urlsOk, brt_write_b2_urlsDistinct b out hv hw, ?_, ?_, hd.status, hd.hdrAscii, ?_, ?_⟩, hman⟩
  · intro u hu
    exact ⟨false, false, true, hd.primaryOk u hu, fun _ => ⟨rfl, rfl, rfl⟩⟩
  · intro u hu; rw [hman] at hu; cases hu
  · intro s hs; rw [hd.sigs] at hs; cases hs
  · intro s hs; rw [hd.sigs] at hs; cases hs

/-- (3) `loadMetadata` on the writer's output: version, primary URL, and one request per exchange, in index order
    (`σ`), each delimiting the bytes of that exchange's encoded response -/
theorem brt_loadMetadata_write_b2 (url : BUrlFacts) (parseOk : Bytes → Bool) (b : Bundle) (out : Bytes)
    (hv : b.version = .b2) (hd : RDom url b) (hw : write b = .ok (.ok out)) (hlen : out.length < 2 ^ 63) :
    ∃ (L σ : List (Exch × Bytes × Nat)) (respOff : Nat),
      L.map (·.1) = b.exchanges ∧ σ.Perm L ∧
      (∀ t ∈ L, encodeResponse t.1.resp = .ok t.2.1 ∧ respOff + t.2.2 + t.2.1.length ≤ out.length ∧
        (out.drop (respOff + t.2.2)).take t.2.1.length = t.2.1) ∧
      b.manifestURL = none ∧
      loadMetadata url parseOk out =
        .ok { version := .b2, primaryURL := b.primaryURL, manifestURL := none, signatures := none,
              requests := σ.map (brt_reqOf respOff) } := by
  obtain ⟨hg, hman⟩ := brt_RDomG_of_b2 url parseOk b out hv hd hw
  obtain ⟨L, σ, respOff, l1, hσ, hL, hmeta⟩ := brt_loadMetadata_write url parseOk b out hg hw hlen
  rw [hv, hman, hd.sigs] at hmeta
  exact ⟨L, σ, respOff, l1, hσ, hL, hman, hmeta⟩

/-- (4) **write → read round trip, version b2 (no signatures section).**  Reading what `WriteTo` wrote gives back the
    version and the primary URL, and the exchanges in index order: `σ` is a permutation of the written exchanges
    (nothing dropped, duplicated or attributed to another URL); the `i`-th exchange read has the URL, status and
    body of `σ[i]` and its header fields with names canonicalised from the lower-cased form and values comma-joined
    (`Sxg.normField kv = (canonicalKey (lowerAscii kv.1), [joinComma kv.2])`), up to the order of the fields. -/
theorem read_write_b2 (url : BUrlFacts) (parseOk : Bytes → Bool) (b : Bundle) (out : Bytes) (hv : b.version = .b2)
    (hd : RDom url b) (hw : write b = .ok (.ok out)) (hlen : out.length < 2 ^ 63) :
    ∃ b', read url parseOk out = .ok b' ∧ b'.version = .b2 ∧ b'.primaryURL = b.primaryURL ∧
      b'.manifestURL = none ∧ b.manifestURL = none ∧ b'.signatures = none ∧
      ∃ σ : List Exch, σ.Perm b.exchanges ∧ b'.exchanges.length = σ.length ∧
        b'.exchanges.map (·.url) = σ.map (·.url) ∧
        ∀ i (hi : i < σ.length), ∃ e', b'.exchanges[i]? = some e' ∧ e'.url = σ[i].url ∧
          e'.resp.status = σ[i].resp.status ∧ e'.resp.body = σ[i].resp.body ∧
          e'.resp.headers.Perm (σ[i].resp.headers.map
            fun kv => (canonicalKey (lowerAscii kv.1), [joinComma kv.2])) := by
  obtain ⟨L, σL, respOff, l1, hσ, hL, hman, hmeta⟩ := brt_loadMetadata_write_b2 url parseOk b out hv hd hw hlen
  obtain ⟨b', h1, h2, h3, h4, h5, h6⟩ := brt_read_of_meta url parseOk b.exchanges out hlen
    (fun e he => ⟨hd.status e he, hd.hdrAscii e he⟩) L σL respOff l1 hσ hL _ rfl hmeta
  exact ⟨b', h1, h2, h3, h4, hman, h5, h6⟩

/-! ### non-vacuity: a bundle with one resource meets all hypotheses of `read_write_b2` -/

theorem brt_encodeMap_single (e : Entry) : encodeMap [e] = .ok (encodeMapHeader 1 ++ (e.1 ++ e.2)) := by
  unfold encodeMap sortEntries
  simp [hasAdjDup]

def brt_exUrl : Bytes := [104, 116, 116, 112, 115, 58, 47, 47, 97, 46, 98, 47]   -- "https://a.b/"
def brt_exResp : Resp := { status := 200, headers := [], body := [104, 105] }
def brt_exBundle : Bundle :=
  { version := .b2, primaryURL := some brt_exUrl, exchanges := [{ url := brt_exUrl, resp := brt_exResp }],
    manifestURL := none, signatures := none }

theorem brt_ex_write : ∃ out, write brt_exBundle = .ok (.ok out) ∧ out.length < 2 ^ 63 := by
  have hr : encodeResponse brt_exResp = .ok (encodeArrayHeader 2 ++ encodeBytes (encodeMapHeader 1 ++
      (encodeBytes Sxg.keyStatus ++ encodeBytes (SH.formatInt 200))) ++ encodeBytes [104, 105]) := by
    unfold encodeResponse encodeRespHeader
    simp only [brt_exResp, Sxg.headerEntries, List.map_nil, brt_encodeMap_single]
    rfl
  have hu : utf8Valid brt_exUrl = true := by decide +kernel
  rw [write_eq]
  simp only [brt_exBundle, addExchanges, hr]
  unfold finalizeIndex
  simp only [groupByUrl, List.any_nil, List.nil_append, List.any_cons, hu, Bool.not_true, Bool.or_false,
    Bool.false_eq_true, if_false, List.length_cons, List.length_nil, List.map_cons, List.map_nil, brt_encodeMap_single]
  rw [if_neg (by decide)]
  dsimp only
  unfold writeTail primarySec manifestSec sigsSec headOf encodeUrlSection encodeText
  simp only [hu, if_true]
  exact ⟨_, rfl, by decide +kernel⟩

theorem brt_ex_dom : RDom (fun s => some (false, false, true, s)) brt_exBundle where
  urlsOk := fun _ _ => ⟨true, rfl⟩
  primaryOk := fun _ _ => rfl
  status := by
    intro e he
    rw [List.mem_singleton.mp he]
    decide
  hdrAscii := by
    intro e he kv hkv
    rw [List.mem_singleton.mp he] at hkv
    cases hkv
  sigs := rfl

/-- the round trip theorem applies to it -/
theorem brt_ex_roundtrip : ∃ out b', write brt_exBundle = .ok (.ok out) ∧
    read (fun s => some (false, false, true, s)) (fun _ => true) out = .ok b' ∧
    b'.primaryURL = some brt_exUrl ∧ b'.exchanges.map (·.url) = [brt_exUrl] := by
  obtain ⟨out, hw, hl⟩ := brt_ex_write
  obtain ⟨b', h1, _, h3, _, _, _, σ, hσ, _, hu, _⟩ :=
    read_write_b2 _ (fun _ => true) brt_exBundle out rfl brt_ex_dom hw hl
  refine ⟨out, b', hw, h1, h3, ?_⟩
  rw [hu, List.perm_singleton.mp hσ]
  rfl

end WebPkg.Bundle
