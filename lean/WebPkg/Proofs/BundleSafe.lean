import WebPkg.Model.Bundle
import WebPkg.Proofs.Cbor
import WebPkg.Proofs.Deterministic
/-
  Memory safety of the Web Bundle reader model (`WebPkg.Bundle.read`): with 64-bit wrapping offset
  arithmetic (`w64`) no slice expression goes out of bounds (`.panic` is unreachable) and every
  response is decoded from bytes inside the responses section of the file.
-/
namespace WebPkg.Bundle
open WebPkg.Cbor WebPkg.Spec.Cbor

/-! ### 1. CBOR arguments are below 2^64 -/

theorem decodeOfType_lt {t : Nat} {bs : Bytes} {n : Nat} {rest : Bytes}
    (h : Cbor.decodeOfType t bs = some (n, rest)) : n < 2 ^ 64 := by
  obtain ⟨hd, hh, _⟩ := decodeOfType_sound h
  exact (WebPkg.Det.isHead_bounds hh).2

theorem decodeUint_lt {bs : Bytes} {n : Nat} {rest : Bytes}
    (h : Cbor.decodeUint bs = some (n, rest)) : n < 2 ^ 64 := decodeOfType_lt h

theorem decodeArrayHeader_lt {bs : Bytes} {n : Nat} {rest : Bytes}
    (h : Cbor.decodeArrayHeader bs = some (n, rest)) : n < 2 ^ 64 := decodeOfType_lt h

theorem decodeMapHeader_lt {bs : Bytes} {n : Nat} {rest : Bytes}
    (h : Cbor.decodeMapHeader bs = some (n, rest)) : n < 2 ^ 64 := decodeOfType_lt h

theorem w64_of_lt {n : Nat} (h : n < 2 ^ 64) : w64 n = n := Nat.mod_eq_of_lt h

theorem w64_lt (n : Nat) : w64 n < 2 ^ 64 := Nat.mod_lt _ (by decide)

/-! ### 2. section table -/

theorem decodeSectionPairs_lt : ∀ (pairs : Nat) (bs : Bytes) (acc sos : List SectionOffset),
    (∀ so ∈ acc, so.length < 2 ^ 64) → decodeSectionPairs pairs bs acc = some sos →
    ∀ so ∈ sos, so.length < 2 ^ 64 := by
  intro pairs
  induction pairs with
  | zero =>
    intro bs acc sos hacc h
    simp only [decodeSectionPairs, Option.some.injEq] at h
    subst h; exact hacc
  | succ k ih =>
    intro bs acc sos hacc h
    rw [decodeSectionPairs] at h
    cases h1 : decodeTextString bs with
    | none => simp [h1] at h
    | some p =>
      obtain ⟨name, bs1⟩ := p
      simp only [h1] at h
      by_cases hd : (acc.any (·.name == name)) = true
      · rw [if_pos hd] at h; cases h
      · rw [if_neg hd] at h
        cases h2 : decodeUint bs1 with
        | none => simp [h2] at h
        | some q =>
          obtain ⟨len, bs2⟩ := q
          simp only [h2] at h
          refine ih bs2 _ sos ?_ h
          intro so hso
          rcases List.mem_append.1 hso with h' | h'
          · exact hacc so h'
          · simp only [List.mem_singleton] at h'
            subst h'; exact decodeUint_lt h2

theorem decodeSectionLengths_lt {bs : Bytes} {sos : List SectionOffset}
    (h : decodeSectionLengths bs = some sos) : ∀ so ∈ sos, so.length < 2 ^ 64 := by
  unfold decodeSectionLengths at h
  cases h1 : decodeArrayHeader bs with
  | none => simp [h1] at h
  | some p =>
    obtain ⟨n, rest⟩ := p
    simp only [h1] at h
    exact decodeSectionPairs_lt _ _ [] sos (by intro so hso; cases hso) h

/-! ### 3. `sectionsFit` and `findSection` -/

/-- true (unbounded) sum of the section lengths -/
def lenSum (sos : List SectionOffset) : Nat := (sos.map (·.length)).sum

@[simp] theorem lenSum_nil : lenSum [] = 0 := rfl
@[simp] theorem lenSum_cons (so : SectionOffset) (rest : List SectionOffset) :
    lenSum (so :: rest) = so.length + lenSum rest := by simp [lenSum]
theorem lenSum_append (a b : List SectionOffset) : lenSum (a ++ b) = lenSum a + lenSum b := by
  induction a with
  | nil => simp
  | cons x xs ih => simp [ih]; omega

theorem sectionsFit_lenSum : ∀ {sos : List SectionOffset} {rem : Nat},
    sectionsFit sos rem = true → lenSum sos ≤ rem
  | [], _, _ => by simp
  | so :: rest, rem, h => by
    rw [sectionsFit] at h
    by_cases hc : so.length > rem
    · rw [if_pos hc] at h; cases h
    · rw [if_neg hc] at h
      have := sectionsFit_lenSum h
      rw [lenSum_cons]; omega

theorem sectionsFit_sum {sos : List SectionOffset} {rem : Nat} (h : sectionsFit sos rem = true) :
    (sos.map (·.length)).sum ≤ rem := sectionsFit_lenSum h

/-- as long as `off + Σ lengths` stays below 2^64 the running `uint64` sum of `FindSection` is the true sum -/
theorem findSection_aux : ∀ (sos : List SectionOffset) (name : Bytes) (off : Nat) (so : SectionOffset) (rel : Nat),
    off + lenSum sos < 2 ^ 64 → findSection sos name off = some (so, rel) →
    ∃ pre post, sos = pre ++ so :: post ∧ so.name = name ∧ rel = off + lenSum pre := by
  intro sos
  induction sos with
  | nil => intro name off so rel _ h; simp [findSection] at h
  | cons s rest ih =>
    intro name off so rel hb h
    rw [findSection] at h
    by_cases hn : s.name = name
    · rw [if_pos hn] at h
      simp only [Option.some.injEq, Prod.mk.injEq] at h
      obtain ⟨rfl, rfl⟩ := h
      exact ⟨[], rest, rfl, hn, by simp⟩
    · rw [if_neg hn] at h
      rw [lenSum_cons] at hb
      rw [w64_of_lt (by omega)] at h
      obtain ⟨pre, post, e, hname, hrel⟩ := ih name (off + s.length) so rel (by omega) h
      refine ⟨s :: pre, post, by rw [e]; rfl, hname, ?_⟩
      rw [lenSum_cons]; omega

theorem findSection_spec {sos : List SectionOffset} {name : Bytes} {so : SectionOffset} {rel start : Nat} {bs : Bytes}
    (hfit : sectionsFit sos (bs.length - start) = true) (hs : start ≤ bs.length) (hlen : bs.length < 2 ^ 64)
    (h : findSection sos name 0 = some (so, rel)) :
    ∃ pre post, sos = pre ++ so :: post ∧ so.name = name ∧ rel = lenSum pre ∧
      start + rel + so.length ≤ bs.length ∧ w64 (start + rel) = start + rel := by
  have hsum := sectionsFit_lenSum hfit
  obtain ⟨pre, post, e, hname, hrel⟩ := findSection_aux sos name 0 so rel (by omega) h
  have hs2 : lenSum sos = lenSum pre + (so.length + lenSum post) := by
    rw [e, lenSum_append, lenSum_cons]
  have hrel' : rel = lenSum pre := by omega
  refine ⟨pre, post, e, hname, hrel', by omega, w64_of_lt (by omega)⟩

/-! ### 4. index entries are inside the responses section -/

/-- the byte range of `r` lies inside `[respStart, respStart + respLen)` (true sums) -/
abbrev InResp (respStart respLen : Nat) (r : ReqEntry) : Prop :=
  respStart ≤ r.offset ∧ r.offset + r.length ≤ respStart + respLen

theorem makeRelative_spec {respLen respOff offset length o l : Nat} (hb : respOff + respLen < 2 ^ 64)
    (h : makeRelative respLen respOff offset length = some (o, l)) :
    length ≤ respLen ∧ offset ≤ respLen - length ∧ o = respOff + offset ∧ l = length := by
  unfold makeRelative at h
  by_cases hc : length > respLen ∨ offset > respLen - length
  · rw [if_pos hc] at h; cases h
  · rw [if_neg hc] at h
    simp only [Option.some.injEq, Prod.mk.injEq] at h
    obtain ⟨rfl, rfl⟩ := h
    refine ⟨by omega, by omega, w64_of_lt (by omega), rfl⟩

theorem makeRelative_inResp {respLen respOff offset length o l : Nat} (u : Bytes) (hb : respOff + respLen < 2 ^ 64)
    (h : makeRelative respLen respOff offset length = some (o, l)) :
    InResp respOff respLen { url := u, offset := o, length := l } := by
  obtain ⟨h1, h2, rfl, rfl⟩ := makeRelative_spec hb h
  constructor
  · show respOff ≤ respOff + offset; omega
  · show respOff + offset + l ≤ respOff + respLen; omega

theorem decodeLocations_inv (P : ReqEntry → Prop) {respLen respOff : Nat} {u : Bytes}
    (hP : ∀ off len o l, makeRelative respLen respOff off len = some (o, l) → P { url := u, offset := o, length := l }) :
    ∀ (k : Nat) (bs : Bytes) (acc acc' : List ReqEntry) (bs' : Bytes), (∀ r ∈ acc, P r) →
      decodeLocations respLen respOff u k bs acc = some (acc', bs') → ∀ r ∈ acc', P r := by
  intro k
  induction k with
  | zero =>
    intro bs acc acc' bs' hacc h
    simp only [decodeLocations, Option.some.injEq, Prod.mk.injEq] at h
    obtain ⟨rfl, _⟩ := h; exact hacc
  | succ k ih =>
    intro bs acc acc' bs' hacc h
    rw [decodeLocations] at h
    cases h1 : decodeUint bs with
    | none => simp [h1] at h
    | some p =>
      obtain ⟨off, bs1⟩ := p
      simp only [h1] at h
      cases h2 : decodeUint bs1 with
      | none => simp [h2] at h
      | some q =>
        obtain ⟨len, bs2⟩ := q
        simp only [h2] at h
        cases h3 : makeRelative respLen respOff off len with
        | none => simp [h3] at h
        | some ol =>
          obtain ⟨o, l⟩ := ol
          simp only [h3] at h
          refine ih bs2 _ acc' bs' ?_ h
          intro r hr
          rcases List.mem_append.1 hr with h' | h'
          · exact hacc r h'
          · simp only [List.mem_singleton] at h'
            subst h'; exact hP off len o l h3

theorem indexEntriesB2_inv (P : ReqEntry → Prop) {url : BUrlFacts} {respLen respOff : Nat}
    (hP : ∀ u off len o l, makeRelative respLen respOff off len = some (o, l) → P { url := u, offset := o, length := l }) :
    ∀ (n : Nat) (bs : Bytes) (acc reqs : List ReqEntry), (∀ r ∈ acc, P r) →
      indexEntriesB2 url respLen respOff n bs acc = some reqs → ∀ r ∈ reqs, P r := by
  intro n
  induction n with
  | zero =>
    intro bs acc reqs hacc h
    simp only [indexEntriesB2, Option.some.injEq] at h
    subst h; exact hacc
  | succ n ih =>
    intro bs acc reqs hacc h
    rw [indexEntriesB2] at h
    cases h1 : decodeTextString bs with
    | none => simp [h1] at h
    | some p =>
      obtain ⟨raw, bs1⟩ := p
      simp only [h1] at h
      cases h2 : indexUrl url raw with
      | none => simp [h2] at h
      | some u =>
        simp only [h2] at h
        cases h3 : decodeArrayHeader bs1 with
        | none => simp [h3] at h
        | some q =>
          obtain ⟨k, bs2⟩ := q
          simp only [h3] at h
          by_cases hk : k ≠ 2
          · rw [if_pos hk] at h; cases h
          · rw [if_neg hk] at h
            cases h4 : decodeLocations respLen respOff u 1 bs2 acc with
            | none => simp [h4] at h
            | some ab =>
              obtain ⟨acc', bs3⟩ := ab
              simp only [h4] at h
              exact ih bs3 acc' reqs (decodeLocations_inv P (hP u) 1 bs2 acc acc' bs3 hacc h4) h

theorem indexEntriesB1_inv (P : ReqEntry → Prop) {url : BUrlFacts} {respLen respOff : Nat}
    (hP : ∀ u off len o l, makeRelative respLen respOff off len = some (o, l) → P { url := u, offset := o, length := l }) :
    ∀ (n : Nat) (bs : Bytes) (acc reqs : List ReqEntry), (∀ r ∈ acc, P r) →
      indexEntriesB1 url respLen respOff n bs acc = some reqs → ∀ r ∈ reqs, P r := by
  intro n
  induction n with
  | zero =>
    intro bs acc reqs hacc h
    simp only [indexEntriesB1, Option.some.injEq] at h
    subst h; exact hacc
  | succ n ih =>
    intro bs acc reqs hacc h
    rw [indexEntriesB1] at h
    cases h1 : decodeTextString bs with
    | none => simp [h1] at h
    | some p =>
      obtain ⟨raw, bs1⟩ := p
      simp only [h1] at h
      cases h2 : indexUrl url raw with
      | none => simp [h2] at h
      | some u =>
        simp only [h2] at h
        cases h3 : decodeArrayHeader bs1 with
        | none => simp [h3] at h
        | some q =>
          obtain ⟨k, bs2⟩ := q
          simp only [h3] at h
          by_cases hk : k = 0
          · rw [if_pos hk] at h; cases h
          · rw [if_neg hk] at h
            cases h4 : decodeByteString bs2 with
            | none => simp [h4] at h
            | some vb =>
              obtain ⟨vv, bs3⟩ := vb
              simp only [h4] at h
              by_cases hv : vv.isEmpty = true
              · rw [if_pos hv] at h
                by_cases hk3 : k ≠ 3
                · rw [if_pos hk3] at h; cases h
                · rw [if_neg hk3] at h
                  cases h5 : decodeLocations respLen respOff u 1 bs3 acc with
                  | none => simp [h5] at h
                  | some ab =>
                    obtain ⟨acc', bs4⟩ := ab
                    simp only [h5] at h
                    exact ih bs4 acc' reqs (decodeLocations_inv P (hP u) 1 bs3 acc acc' bs4 hacc h5) h
              · rw [if_neg hv] at h
                cases h5 : parseListOfStringLists vv with
                | none => simp [h5] at h
                | some variants =>
                  simp only [h5] at h
                  cases h6 : numberOfPossibleKeys variants 1 with
                  | none => simp [h6] at h
                  | some num =>
                    simp only [h6] at h
                    by_cases hkn : k ≠ 2 * num + 1
                    · rw [if_pos hkn] at h; cases h
                    · rw [if_neg hkn] at h
                      cases h7 : decodeLocations respLen respOff u num bs3 acc with
                      | none => simp [h7] at h
                      | some ab =>
                        obtain ⟨acc', bs4⟩ := ab
                        simp only [h7] at h
                        exact ih bs4 acc' reqs (decodeLocations_inv P (hP u) num bs3 acc acc' bs4 hacc h7) h

/-- every index entry accepted by `parseIndex` lies inside the responses section, which lies inside the file -/
theorem parseIndex_in_bounds {url : BUrlFacts} {ver : BVer} {contents : Bytes} {start : Nat} {sos : List SectionOffset}
    {bs : Bytes} {reqs : List ReqEntry}
    (hfit : sectionsFit sos (bs.length - start) = true) (hs : start ≤ bs.length) (hlen : bs.length < 2 ^ 64)
    (h : parseIndex url ver contents start sos = some reqs) :
    ∃ so rel, findSection sos nResponses 0 = some (so, rel) ∧ start + rel + so.length ≤ bs.length ∧
      ∀ r ∈ reqs, start + rel ≤ r.offset ∧ r.offset + r.length ≤ start + rel + so.length := by
  unfold parseIndex at h
  cases h1 : decodeMapHeader contents with
  | none => simp [h1] at h
  | some p =>
    obtain ⟨n, cs⟩ := p
    simp only [h1] at h
    cases h2 : findSection sos nResponses 0 with
    | none => simp [h2] at h
    | some q =>
      obtain ⟨so, rel⟩ := q
      simp only [h2] at h
      obtain ⟨pre, post, _, _, _, hle, hw⟩ := findSection_spec hfit hs hlen h2
      rw [hw] at h
      have hP : ∀ u off len o l, makeRelative so.length (start + rel) off len = some (o, l) →
          InResp (start + rel) so.length { url := u, offset := o, length := l } :=
        fun u off len o l hm => makeRelative_inResp u (by omega) hm
      refine ⟨so, rel, rfl, hle, ?_⟩
      cases ver with
      | b1 => exact indexEntriesB1_inv _ hP n cs [] reqs (by intro r hr; cases hr) h
      | b2 => exact indexEntriesB2_inv _ hP n cs [] reqs (by intro r hr; cases hr) h

/-- item 4 in the requested shape -/
theorem parseIndex_in_bounds' {url : BUrlFacts} {ver : BVer} {contents : Bytes} {start : Nat} {sos : List SectionOffset}
    {bs : Bytes} {reqs : List ReqEntry}
    (hfit : sectionsFit sos (bs.length - start) = true) (hs : start ≤ bs.length) (hlen : bs.length < 2 ^ 64)
    (h : parseIndex url ver contents start sos = some reqs) :
    ∃ respStart respLen, respStart + respLen ≤ bs.length ∧
      ∀ r ∈ reqs, respStart ≤ r.offset ∧ r.offset + r.length ≤ respStart + respLen := by
  obtain ⟨so, rel, _, hle, hall⟩ := parseIndex_in_bounds hfit hs hlen h
  exact ⟨start + rel, so.length, hle, hall⟩

/-! ### 7. `loadResponse` -/

theorem loadResponse_no_panic (req : ReqEntry) (bs : Bytes) (h : req.offset + req.length ≤ bs.length)
    (hlen : bs.length < 2 ^ 64) : loadResponse req bs ≠ .panic := by
  unfold loadResponse
  have hw : w64 (req.offset + req.length) = req.offset + req.length := w64_of_lt (by omega)
  have hc : ¬ (w64 (req.offset + req.length) < req.offset ∨ bs.length < w64 (req.offset + req.length)) := by
    rw [hw]; omega
  simp only []
  rw [if_neg hc]
  repeat' split
  all_goals (intro hh; cases hh)

/-- the result of `loadResponse` depends only on the delimited byte range -/
theorem loadResponse_in_bounds (req : ReqEntry) (bs : Bytes) (h : req.offset + req.length ≤ bs.length)
    (hlen : bs.length < 2 ^ 64) :
    loadResponse req bs =
      loadResponse { url := req.url, offset := 0, length := req.length } ((bs.drop req.offset).take req.length) := by
  have hw : w64 (req.offset + req.length) = req.offset + req.length := w64_of_lt (by omega)
  have hc : ¬ (w64 (req.offset + req.length) < req.offset ∨ bs.length < w64 (req.offset + req.length)) := by
    rw [hw]; omega
  have hl : ((bs.drop req.offset).take req.length).length = req.length := by
    rw [List.length_take, List.length_drop]; omega
  have hw' : w64 (0 + req.length) = req.length := by rw [Nat.zero_add]; exact w64_of_lt (by omega)
  have hc' : ¬ (w64 (0 + req.length) < 0 ∨ ((bs.drop req.offset).take req.length).length < w64 (0 + req.length)) := by
    rw [hw', hl]; omega
  have ht : ((List.drop 0 ((bs.drop req.offset).take req.length)).take req.length) = (bs.drop req.offset).take req.length := by
    rw [List.drop_zero, List.take_take, Nat.min_self]
  unfold loadResponse
  simp only []
  rw [if_neg hc, if_neg hc', ht]

/-- stronger form: a successfully loaded response is exactly `0x82`, a byte-string item (the header map)
    and a byte-string item (the body) filling the whole delimited range -/
theorem loadResponse_ok_shape (req : ReqEntry) (bs : Bytes) (r : Resp) (hok : loadResponse req bs = .ok r) :
    ∃ hdrItem hdrBytes bodyItem, IsString 2 hdrItem hdrBytes ∧ IsString 2 bodyItem r.body ∧
      (bs.drop req.offset).take req.length = 0x82 :: (hdrItem ++ bodyItem) := by
  unfold loadResponse at hok
  simp only [] at hok
  by_cases hc : w64 (req.offset + req.length) < req.offset ∨ bs.length < w64 (req.offset + req.length)
  · rw [if_pos hc] at hok; cases hok
  · rw [if_neg hc] at hok
    generalize (bs.drop req.offset).take req.length = rng at hok ⊢
    cases rng with
    | nil => simp at hok
    | cons b r1 =>
      simp only [] at hok
      by_cases hb : b ≠ 0x82
      · rw [if_pos hb] at hok; cases hok
      · rw [if_neg hb] at hok
        have hb' : b = 0x82 := Decidable.not_not.1 hb
        cases h1 : decodeByteString r1 with
        | none => simp [h1] at hok
        | some p =>
          obtain ⟨hdrBytes, r2⟩ := p
          simp only [h1] at hok
          cases h2 : decodeMapHeader hdrBytes with
          | none => simp [h2] at hok
          | some q =>
            obtain ⟨n, hbs⟩ := q
            simp only [h2] at hok
            cases h3 : decodeHeaderEntries n hbs [] [] with
            | none => simp [h3] at hok
            | some hp =>
              obtain ⟨headers, pseudos⟩ := hp
              simp only [h3] at hok
              split at hok
              · rename_i k status
                by_cases hk : k ≠ Sxg.keyStatus
                · rw [if_pos hk] at hok; cases hok
                · rw [if_neg hk] at hok
                  by_cases hst : (!isStatus3 status) = true
                  · rw [if_pos hst] at hok; cases hok
                  · rw [if_neg hst] at hok
                    cases h4 : decodeByteString r2 with
                    | none => simp [h4] at hok
                    | some br =>
                      obtain ⟨body, r3⟩ := br
                      simp only [h4] at hok
                      by_cases hr3 : r3.length ≠ 0
                      · rw [if_pos hr3] at hok; cases hok
                      · rw [if_neg hr3] at hok
                        simp only [Outcome.ok.injEq] at hok
                        subst hok
                        have hr3' : r3 = [] := List.eq_nil_of_length_eq_zero (Decidable.not_not.1 hr3)
                        obtain ⟨item1, hs1, e1⟩ := decodeBytesOfType_sound h1
                        obtain ⟨item2, hs2, e2⟩ := decodeBytesOfType_sound h4
                        refine ⟨item1, hdrBytes, item2, hs1, hs2, ?_⟩
                        rw [hb', e1, e2, hr3', List.append_nil]
              · cases hok

/-! ### 5, 10. the section loop -/

/-- unknown sections are stepped over -/
theorem sectionLoop_skips_unknown (url : BUrlFacts) (parseOk : Bytes → Bool) (ver : BVer) (bs : Bytes) (start : Nat)
    (sos : List SectionOffset) (so : SectionOffset) (rest : List SectionOffset) (offset : Nat) (m : Meta)
    (hk : knownSection so.name = false) :
    sectionLoop url parseOk ver bs start sos (so :: rest) offset m =
      sectionLoop url parseOk ver bs start sos rest (w64 (offset + so.length)) m := by
  rw [sectionLoop]
  rw [if_pos (by rw [hk]; rfl)]

/-- under the loop invariant the `uint64` addition that steps over a section does not wrap -/
theorem step_no_wrap {bs : Bytes} {so : SectionOffset} {rest : List SectionOffset} {offset : Nat}
    (hlen : bs.length < 2 ^ 64) (hinv : offset + lenSum (so :: rest) ≤ bs.length) :
    w64 (offset + so.length) = offset + so.length ∧ offset + so.length + lenSum rest ≤ bs.length := by
  rw [lenSum_cons] at hinv
  exact ⟨w64_of_lt (by omega), by omega⟩

theorem sectionLoop_skips_unknown' (url : BUrlFacts) (parseOk : Bytes → Bool) (ver : BVer) (bs : Bytes) (start : Nat)
    (sos : List SectionOffset) (so : SectionOffset) (rest : List SectionOffset) (offset : Nat) (m : Meta)
    (hk : knownSection so.name = false) (hlen : bs.length < 2 ^ 64)
    (hinv : offset + lenSum (so :: rest) ≤ bs.length) :
    sectionLoop url parseOk ver bs start sos (so :: rest) offset m =
      sectionLoop url parseOk ver bs start sos rest (offset + so.length) m := by
  rw [sectionLoop_skips_unknown _ _ _ _ _ _ _ _ _ _ hk, (step_no_wrap hlen hinv).1]

/-- loop invariant: current offset + true sum of the lengths of the remaining sections ≤ len(bs) -/
theorem sectionLoop_no_panic (url : BUrlFacts) (parseOk : Bytes → Bool) (ver : BVer) (bs : Bytes) (start : Nat)
    (sos : List SectionOffset) (hlen : bs.length < 2 ^ 64) :
    ∀ (rest : List SectionOffset) (offset : Nat) (m : Meta), offset + lenSum rest ≤ bs.length →
      sectionLoop url parseOk ver bs start sos rest offset m ≠ .panic := by
  intro rest
  induction rest with
  | nil => intro offset m _ h; simp [sectionLoop] at h
  | cons so rest ih =>
    intro offset m hinv
    obtain ⟨hw, hinv'⟩ := step_no_wrap hlen hinv
    rw [sectionLoop, hw]
    by_cases hk : (!knownSection so.name) = true
    · rw [if_pos hk]; exact ih _ m hinv'
    · rw [if_neg hk]
      by_cases hr : so.name = nResponses
      · rw [if_pos hr]; exact ih _ m (by omega)
      · rw [if_neg hr]
        by_cases h1 : bs.length ≤ offset
        · rw [if_pos h1]; intro hh; cases hh
        · rw [if_neg h1]
          simp only []
          by_cases h2 : bs.length ≤ offset + so.length
          · rw [if_pos h2]; intro hh; cases hh
          · rw [if_neg h2]
            have h3 : ¬ (offset + so.length < offset ∨ bs.length < offset + so.length) := by omega
            rw [if_neg h3]
            repeat' split
            all_goals first
              | exact ih _ _ hinv'
              | (intro hh; cases hh)

/-- whatever property holds of the initial requests and of every result of `parseIndex` (called with the
    loop's `sectionsStart` and section table) holds of the requests of every returned `Meta` -/
theorem sectionLoop_requests (url : BUrlFacts) (parseOk : Bytes → Bool) (ver : BVer) (bs : Bytes) (start : Nat)
    (sos : List SectionOffset) (P : List ReqEntry → Prop)
    (hP : ∀ contents reqs, parseIndex url ver contents start sos = some reqs → P reqs) :
    ∀ (rest : List SectionOffset) (offset : Nat) (m m' : Meta), P m.requests →
      sectionLoop url parseOk ver bs start sos rest offset m = .ok m' → P m'.requests := by
  intro rest
  induction rest with
  | nil =>
    intro offset m m' hm h
    simp only [sectionLoop, Outcome.ok.injEq] at h
    subst h; exact hm
  | cons so rest ih =>
    intro offset m m' hm h
    rw [sectionLoop] at h
    by_cases hk : (!knownSection so.name) = true
    · rw [if_pos hk] at h; exact ih _ m m' hm h
    · rw [if_neg hk] at h
      by_cases hr : so.name = nResponses
      · rw [if_pos hr] at h; exact ih _ m m' hm h
      · rw [if_neg hr] at h
        by_cases h1 : bs.length ≤ offset
        · rw [if_pos h1] at h; cases h
        · rw [if_neg h1] at h
          simp only [] at h
          by_cases h2 : bs.length ≤ w64 (offset + so.length)
          · rw [if_pos h2] at h; cases h
          · rw [if_neg h2] at h
            by_cases h3 : w64 (offset + so.length) < offset ∨ bs.length < w64 (offset + so.length)
            · rw [if_pos h3] at h; cases h
            · rw [if_neg h3] at h
              by_cases hi : so.name = nIndex
              · rw [if_pos hi] at h
                cases hp : parseIndex url ver ((bs.drop offset).take so.length) start sos with
                | none => simp [hp] at h
                | some reqs =>
                  simp only [hp] at h
                  exact ih _ _ m' (hP _ reqs hp) h
              · rw [if_neg hi] at h
                by_cases hpr : so.name = nPrimary
                · rw [if_pos hpr] at h
                  cases hp : parseUrlSection url ((bs.drop offset).take so.length) with
                  | none => simp [hp] at h
                  | some u =>
                    simp only [hp] at h
                    refine ih _ _ m' ?_ h; exact hm
                · rw [if_neg hpr] at h
                  by_cases hma : so.name = nManifest
                  · rw [if_pos hma] at h
                    cases hp : parseUrlSection url ((bs.drop offset).take so.length) with
                    | none => simp [hp] at h
                    | some u =>
                      simp only [hp] at h
                      refine ih _ _ m' ?_ h; exact hm
                  · rw [if_neg hma] at h
                    cases hp : parseSignatures parseOk ((bs.drop offset).take so.length) with
                    | none => simp [hp] at h
                    | some s =>
                      simp only [hp] at h
                      refine ih _ _ m' ?_ h; exact hm

/-- the requests of a returned `Meta` are the initial ones or the result of a `parseIndex` call -/
theorem sectionLoop_requests_origin (url : BUrlFacts) (parseOk : Bytes → Bool) (ver : BVer) (bs : Bytes) (start : Nat)
    (sos rest : List SectionOffset) (offset : Nat) (m m' : Meta)
    (h : sectionLoop url parseOk ver bs start sos rest offset m = .ok m') :
    m'.requests = m.requests ∨ ∃ contents, parseIndex url ver contents start sos = some m'.requests :=
  sectionLoop_requests url parseOk ver bs start sos
    (fun rs => rs = m.requests ∨ ∃ contents, parseIndex url ver contents start sos = some rs)
    (fun contents _ hp => Or.inr ⟨contents, hp⟩) rest offset m m' (Or.inl rfl) h

/-! ### 6. `loadMetadata` -/

/-- `loadMetadata` either fails before the section loop or runs the loop on a section table that fits -/
theorem loadMetadata_cases (url : BUrlFacts) (parseOk : Bytes → Bool) (bs : Bytes) :
    loadMetadata url parseOk bs = .error ∨
    ∃ (ver : BVer) (sos : List SectionOffset) (start : Nat) (m0 : Meta),
      start ≤ bs.length ∧ sectionsFit sos (bs.length - start) = true ∧ m0.requests = [] ∧
      loadMetadata url parseOk bs = sectionLoop url parseOk ver bs start sos sos start m0 := by
  unfold loadMetadata
  repeat' (first | split | (dsimp only; split))
  all_goals first
    | exact Or.inl rfl
    | (right
       rename_i hfit
       refine ⟨_, _, _, _, Nat.sub_le _ _, ?_, rfl, rfl⟩
       simpa using hfit)

theorem loadMetadata_no_panic (url : BUrlFacts) (parseOk : Bytes → Bool) (bs : Bytes) (hlen : bs.length < 2 ^ 64) :
    loadMetadata url parseOk bs ≠ .panic := by
  rcases loadMetadata_cases url parseOk bs with h | ⟨ver, sos, start, m0, hs, hfit, _, h⟩
  · rw [h]; intro hh; cases hh
  · rw [h]
    have := sectionsFit_lenSum hfit
    exact sectionLoop_no_panic url parseOk ver bs start sos hlen sos start m0 (by omega)

theorem loadMetadata_requests_in_bounds (url : BUrlFacts) (parseOk : Bytes → Bool) (bs : Bytes)
    (hlen : bs.length < 2 ^ 64) (m : Meta) (h : loadMetadata url parseOk bs = .ok m) :
    ∃ respStart respLen, respStart + respLen ≤ bs.length ∧
      ∀ r ∈ m.requests, respStart ≤ r.offset ∧ r.offset + r.length ≤ respStart + respLen := by
  rcases loadMetadata_cases url parseOk bs with he | ⟨ver, sos, start, m0, hs, hfit, hm0, hl⟩
  · rw [he] at h; cases h
  · rw [hl] at h
    refine sectionLoop_requests url parseOk ver bs start sos
      (fun rs => ∃ respStart respLen, respStart + respLen ≤ bs.length ∧
        ∀ r ∈ rs, respStart ≤ r.offset ∧ r.offset + r.length ≤ respStart + respLen)
      (fun contents reqs hp => parseIndex_in_bounds' hfit hs hlen hp) sos start m0 m ?_ h
    refine ⟨0, 0, Nat.zero_le _, ?_⟩
    rw [hm0]; intro r hr; cases hr

/-! ### 8, 9. `read` -/

/-- pointwise relation between two lists of the same length (core Lean has no `Forall₂`) -/
inductive Forall₂ {α β : Type} (R : α → β → Prop) : List α → List β → Prop
  | nil : Forall₂ R [] []
  | cons {a b as bs} : R a b → Forall₂ R as bs → Forall₂ R (a :: as) (b :: bs)

theorem loadResponses_no_panic (bs : Bytes) (hlen : bs.length < 2 ^ 64) :
    ∀ (reqs : List ReqEntry) (acc : List Exch), (∀ r ∈ reqs, r.offset + r.length ≤ bs.length) →
      loadResponses bs reqs acc ≠ .panic := by
  intro reqs
  induction reqs with
  | nil => intro acc _ h; simp [loadResponses] at h
  | cons req rest ih =>
    intro acc hall
    rw [loadResponses]
    cases hr : loadResponse req bs with
    | ok r => simp only []; exact ih _ (fun r hr => hall r (List.mem_cons_of_mem _ hr))
    | error => simp only []; intro hh; cases hh
    | panic => exact absurd hr (loadResponse_no_panic req bs (hall req (List.mem_cons_self ..)) hlen)

/-- `loadResponses` appends, in order, one exchange per request, obtained by `loadResponse` on that request -/
theorem loadResponses_spec (bs : Bytes) :
    ∀ (reqs : List ReqEntry) (acc es : List Exch), loadResponses bs reqs acc = .ok es →
      ∃ es', es = acc ++ es' ∧
        Forall₂ (fun (r : ReqEntry) (e : Exch) => e.url = r.url ∧ loadResponse r bs = .ok e.resp) reqs es' := by
  intro reqs
  induction reqs with
  | nil =>
    intro acc es h
    simp only [loadResponses, Outcome.ok.injEq] at h
    exact ⟨[], by simp [h], Forall₂.nil⟩
  | cons req rest ih =>
    intro acc es h
    rw [loadResponses] at h
    cases hr : loadResponse req bs with
    | ok r =>
      simp only [hr] at h
      obtain ⟨es', e, hf⟩ := ih _ es h
      refine ⟨{ url := req.url, resp := r } :: es', by rw [e, List.append_assoc]; rfl, ?_⟩
      exact Forall₂.cons ⟨rfl, hr⟩ hf
    | error => simp [hr] at h
    | panic => simp [hr] at h

theorem forall₂_index {α β : Type} {R : α → β → Prop} {as : List α} {bs : List β} (h : Forall₂ R as bs) :
    bs.length = as.length ∧ ∀ i (hi : i < as.length), ∃ b, bs[i]? = some b ∧ R as[i] b := by
  induction h with
  | nil => exact ⟨rfl, fun i hi => absurd hi (Nat.not_lt_zero _)⟩
  | cons hab _ ih =>
    refine ⟨by simp [ih.1], ?_⟩
    intro i hi
    cases i with
    | zero => exact ⟨_, rfl, hab⟩
    | succ j =>
      obtain ⟨b, hb, hr⟩ := ih.2 j (by simpa using hi)
      exact ⟨b, by simpa using hb, by simpa using hr⟩

/-- main theorem: `bundle.Read` never hits a slice-bounds panic -/
theorem read_no_panic (url : BUrlFacts) (parseOk : Bytes → Bool) (bs : Bytes) (hlen : bs.length < 2 ^ 64) :
    read url parseOk bs ≠ .panic := by
  unfold read
  cases hm : loadMetadata url parseOk bs with
  | error => simp only []; intro hh; cases hh
  | panic => exact absurd hm (loadMetadata_no_panic url parseOk bs hlen)
  | ok m =>
    simp only []
    obtain ⟨respStart, respLen, hle, hall⟩ := loadMetadata_requests_in_bounds url parseOk bs hlen m hm
    have hnp := loadResponses_no_panic bs hlen m.requests []
      (fun r hr => by have := hall r hr; omega)
    cases hl : loadResponses bs m.requests [] with
    | error => simp only []; intro hh; cases hh
    | panic => exact absurd hl hnp
    | ok es => simp only []; intro hh; cases hh

/-- `read` succeeds only through `loadMetadata` and one `loadResponse` per index entry, in order -/
theorem read_ok_forall₂ (url : BUrlFacts) (parseOk : Bytes → Bool) (bs : Bytes) (b : Bundle)
    (h : read url parseOk bs = .ok b) :
    ∃ (m : Meta), loadMetadata url parseOk bs = .ok m ∧
      b.version = m.version ∧ b.primaryURL = m.primaryURL ∧ b.manifestURL = m.manifestURL ∧
      b.signatures = m.signatures ∧
      Forall₂ (fun (r : ReqEntry) (e : Exch) => e.url = r.url ∧ loadResponse r bs = .ok e.resp)
        m.requests b.exchanges := by
  unfold read at h
  cases hm : loadMetadata url parseOk bs with
  | error => simp [hm] at h
  | panic => simp [hm] at h
  | ok m =>
    simp only [hm] at h
    cases hl : loadResponses bs m.requests [] with
    | error => simp [hl] at h
    | panic => simp [hl] at h
    | ok es =>
      simp only [hl, Outcome.ok.injEq] at h
      obtain ⟨es', e, hf⟩ := loadResponses_spec bs m.requests [] es hl
      rw [List.nil_append] at e
      subst e; subst h
      exact ⟨m, rfl, rfl, rfl, rfl, rfl, hf⟩

/-- main theorem: every response of a successfully read bundle was decoded from a byte range inside the
    responses section, which is inside the file -/
theorem read_in_bounds (url : BUrlFacts) (parseOk : Bytes → Bool) (bs : Bytes) (hlen : bs.length < 2 ^ 64)
    (b : Bundle) (h : read url parseOk bs = .ok b) :
    ∃ (m : Meta), loadMetadata url parseOk bs = .ok m ∧
      (∃ respStart respLen, respStart + respLen ≤ bs.length ∧
        ∀ r ∈ m.requests, respStart ≤ r.offset ∧ r.offset + r.length ≤ respStart + respLen) ∧
      b.exchanges.length = m.requests.length ∧
      ∀ i (hi : i < m.requests.length), ∃ e, b.exchanges[i]? = some e ∧ e.url = (m.requests[i]).url ∧
        loadResponse (m.requests[i]) bs = .ok e.resp := by
  obtain ⟨m, hm, _, _, _, _, hf⟩ := read_ok_forall₂ url parseOk bs b h
  obtain ⟨hlen', hidx⟩ := forall₂_index hf
  exact ⟨m, hm, loadMetadata_requests_in_bounds url parseOk bs hlen m hm, hlen', hidx⟩

end WebPkg.Bundle
