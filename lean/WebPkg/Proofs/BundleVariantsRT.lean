import WebPkg.Proofs.BundleFixpoint
import WebPkg.Proofs.Variants
import WebPkg.Proofs.BundleWF
/-
  C03, variants clause: "for b1 variant sets the representations come back in row-major order of the Variants axes,
  and incomplete or overlapping variant coverage is refused at write time".
  Model: Model/Bundle.lean (`finalizeIndex`, `groupByUrl`, `entriesInPossibleKeyOrder`; `indexEntriesB1`,
  `decodeLocations`).  Builds on Proofs/Variants.lean (mixed-radix laws), Proofs/BundleWF.lean (`placeEntry` /
  `placeKey` form of the writer's loops) and Proofs/BundleRoundTrip.lean / BundleFixpoint.lean (the round trip for one
  representation per URL, whose `urlsDistinct` hypothesis is dropped here).

  Contents
    a  bvr_entriesInPossibleKeyOrder_perm   single-key groups: the result is a rearrangement of the group, one entry
                                            per possible key, the `i`-th entry has key `possibleKeyAt variants i`
    b  bvr_decodeLocations, bvr_indexLoopB1, bvr_parseIndex_enc
                                            the reader's b1 index loop over `url → [variants-value, (off, len)*]`
                                            entries with `2 * num + 1` elements (generalises `brt_indexLoopB1`)
    c  bvr_groupByUrl_spec                  the groups of `groupByUrl`: distinct URLs, `filter` by URL, a partition
    d  bvr_finalize_b1, bvr_wOf_spec        the index the writer emits, group by group
    e  VariantGroup, bvr_index_core         from `Finalize` to `parseIndexSectionWithVariants`
    f  VDom, bvr_loadMetadata_write         `loadMetadata ∘ write` (the section-table part repeats `bfp_loadMetadata_write`)
    g  read_write_b1_variants               **the round trip with variant groups**
    h  bvr_coverage_exact, bvr_overlap_refused, bvr_incomplete_refused, bvr_finalize_refuses,
       write_b1_variants_checked            **what the writer checked / refuses** (any number of keys per entry)
    i  VariantGroup.position, read_write_b1_variants_byUrl, write_b1_refuses_overlap, write_b1_refuses_incomplete
    j  bvr_ex_write, bvr_ex_dom, bvr_ex_roundtrip
                                            non-vacuity: one URL in two languages, written fr/en, read back en/fr

  Scope: Variant-Key values naming a single key (`VDom.singleKey`).  The reader returns one exchange per index
  location, so an exchange that claims several keys comes back several times by design (see the end of the file).
-/
namespace WebPkg.Bundle
open WebPkg.Cbor WebPkg.Http

/-! ### a. `entriesInPossibleKeyOrder` -/

/-- `possibleKeyAt_indexInPossibleKeys` without the (unused) validity hypothesis -/
theorem bvr_possibleKeyAt_of_index (v : List (List Bytes)) (vk : List Bytes) (i : Nat)
    (h : indexInPossibleKeys v vk = some i) : possibleKeyAt v i = some vk := by
  unfold indexInPossibleKeys at h
  by_cases hl : v.length ≠ vk.length
  · rw [if_pos hl] at h; cases h
  · rw [if_neg hl] at h
    unfold possibleKeyAt
    rw [possibleKeyAtAux_of_index v vk 0 i h]
    simp

/-- the Variant-Key value of the entry is a single key -/
def bvr_SingleKey (e : IndexEntry) : Prop := ∃ vk, parseListOfStringLists e.variantKey = some [vk]

theorem bvr_filterMap_set {α : Type} (e : α) : ∀ (r : List (Option α)) (i : Nat) (hi : i < r.length), r[i] = none →
    ((r.set i (some e)).filterMap id).Perm (e :: r.filterMap id) := by
  intro r
  induction r with
  | nil => intro i hi; exact absurd hi (Nat.not_lt_zero _)
  | cons x xs ih =>
    intro i hi hn
    cases i with
    | zero =>
      simp only [List.getElem_cons_zero] at hn
      subst hn
      simp
    | succ j =>
      simp only [List.getElem_cons_succ] at hn
      have := ih j (by simpa using hi) hn
      cases x with
      | none => simpa using this
      | some a =>
        simp only [List.set_cons_succ, List.filterMap_cons, id]
        exact (this.cons a).trans (List.Perm.swap e a _)

theorem bvr_mapM_id {α : Type} : ∀ (res : List (Option α)) (out : List α), res.mapM id = some out → res = out.map some := by
  intro res
  induction res with
  | nil =>
    intro out h
    rw [List.mapM_nil] at h
    injection h with h
    subst h
    rfl
  | cons a l ih =>
    intro out h
    rw [List.mapM_cons] at h
    cases a with
    | none => cases h
    | some x =>
      cases hl : l.mapM id with
      | none => simp only [id, hl] at h; cases h
      | some xs =>
        simp only [id, hl] at h
        injection h with h
        subst h
        rw [ih xs hl]
        rfl

theorem bvr_filterMap_some {α : Type} (l : List α) : (l.map some).filterMap id = l := by
  induction l with
  | nil => rfl
  | cons a l ih => simp [ih]

/-- slot invariant of the outer loop of `entriesInPossibleKeyOrder` when every entry has a single key -/
def bvr_Slots (variants : List (List Bytes)) (first : IndexEntry) (num : Nat) (seen : List IndexEntry)
    (r : List (Option IndexEntry)) : Prop :=
  r.length = num ∧ (r.filterMap id).Perm seen ∧
  ∀ i e, r[i]? = some (some e) → e.variants = first.variants ∧
    ∃ vk, parseListOfStringLists e.variantKey = some [vk] ∧ indexInPossibleKeys variants vk = some i

theorem bvr_placeEntry_step (variants : List (List Bytes)) (first : IndexEntry) (num : Nat) (hnum : num = keyCount variants)
    (seen : List IndexEntry) (r r' : List (Option IndexEntry)) (e : IndexEntry) (hsk : bvr_SingleKey e)
    (hr : bvr_Slots variants first num seen r) (h : placeEntry variants first (some r) e = some r') :
    bvr_Slots variants first num (seen ++ [e]) r' := by
  obtain ⟨vk, hvk⟩ := hsk
  obtain ⟨h1, h2, h3⟩ := hr
  unfold placeEntry at h
  dsimp only at h
  by_cases hc : e.variants ≠ first.variants
  · rw [if_pos hc] at h; cases h
  · rw [if_neg hc] at h
    have hev : e.variants = first.variants := Classical.byContradiction hc
    rw [hvk] at h
    dsimp only at h
    rw [List.foldl_cons, List.foldl_nil] at h
    unfold placeKey at h
    dsimp only at h
    cases hi : indexInPossibleKeys variants vk with
    | none => simp only [hi] at h; cases h
    | some i =>
      simp only [hi] at h
      by_cases hs : (r.getD i none).isSome = true
      · rw [if_pos hs] at h; cases h
      · rw [if_neg hs] at h
        injection h with h
        subst h
        have hlt : i < r.length := by
          rw [h1, hnum]; exact indexInPossibleKeys_lt variants vk i hi
        have hnone : r[i] = none := by
          rw [List.getD_eq_getElem?_getD, List.getElem?_eq_getElem hlt, Option.getD_some] at hs
          cases hx : r[i] with
          | none => rfl
          | some x => rw [hx] at hs; exact absurd rfl hs
        refine ⟨by rw [List.length_set]; exact h1, ?_, ?_⟩
        · refine (bvr_filterMap_set e r i hlt hnone).trans ?_
          refine (List.Perm.cons e h2).trans ?_
          exact (List.perm_append_comm (l₁ := [e]) (l₂ := seen))
        · intro j x hj
          by_cases hij : i = j
          · subst hij
            rw [List.getElem?_set_self hlt] at hj
            injection hj with hj
            injection hj with hj
            subst hj
            exact ⟨hev, vk, hvk, hi⟩
          · rw [List.getElem?_set_ne hij] at hj
            exact h3 j x hj

theorem bvr_foldl_placeEntry (variants : List (List Bytes)) (first : IndexEntry) (num : Nat) (hnum : num = keyCount variants) :
    ∀ (es seen : List IndexEntry) (r r' : List (Option IndexEntry)), (∀ e ∈ es, bvr_SingleKey e) →
    bvr_Slots variants first num seen r → es.foldl (placeEntry variants first) (some r) = some r' →
    bvr_Slots variants first num (seen ++ es) r' := by
  intro es
  induction es with
  | nil =>
    intro seen r r' _ hr h
    rw [List.foldl_nil] at h
    injection h with h
    subst h
    rw [List.append_nil]; exact hr
  | cons e es ih =>
    intro seen r r' hsk hr h
    rw [List.foldl_cons] at h
    cases hs : placeEntry variants first (some r) e with
    | none => rw [hs, foldl_placeEntry_none] at h; cases h
    | some r1 =>
      rw [hs] at h
      have := ih (seen ++ [e]) r1 r' (fun x hx => hsk x (List.mem_cons_of_mem _ hx))
        (bvr_placeEntry_step variants first num hnum seen r r1 e (hsk e List.mem_cons_self) hr hs) h
      rw [List.append_assoc] at this
      exact this

/-- **(a)** when every entry of the group claims a single key and `entriesInPossibleKeyOrder` succeeds, the result is a
    rearrangement of the group (nothing dropped, nothing repeated), it has one entry per possible key, all entries
    carry the Variants value of the first one, and the `i`-th entry is the one whose key is `possibleKeyAt variants i`
    (row-major order of the axes) -/
theorem bvr_entriesInPossibleKeyOrder_perm (es out : List IndexEntry) (h : entriesInPossibleKeyOrder es = some out)
    (hsk : ∀ e ∈ es, bvr_SingleKey e) :
    out.Perm es ∧ ∃ first variants num, es.head? = some first ∧ first.variants.isEmpty = false ∧
      parseListOfStringLists first.variants = some variants ∧ numberOfPossibleKeys variants 1 = some num ∧
      out.length = num ∧ (∀ e ∈ es, e.variants = first.variants) ∧
      ∀ i (hi : i < out.length), ∃ vk, parseListOfStringLists out[i].variantKey = some [vk] ∧
        indexInPossibleKeys variants vk = some i ∧ possibleKeyAt variants i = some vk := by
  rw [entriesInPossibleKeyOrder_eq] at h
  cases es with
  | nil => cases h
  | cons first rest =>
    dsimp only at h
    by_cases h0 : first.variants.isEmpty = true
    · rw [if_pos h0] at h; cases h
    · rw [if_neg h0] at h
      cases h1 : parseListOfStringLists first.variants with
      | none => simp only [h1] at h; cases h
      | some variants =>
        simp only [h1] at h
        cases h2 : numberOfPossibleKeys variants 1 with
        | none => simp only [h2] at h; cases h
        | some num =>
          simp only [h2] at h
          cases h3 : (first :: rest).foldl (placeEntry variants first) (some (List.replicate num none)) with
          | none => simp only [h3] at h; cases h
          | some res =>
            simp only [h3] at h
            obtain ⟨hn1, _, _⟩ := numberOfPossibleKeys_eq variants num h2
            have hinit : bvr_Slots variants first num [] (List.replicate num none) := by
              refine ⟨List.length_replicate, ?_, ?_⟩
              · have : (List.replicate num (none : Option IndexEntry)).filterMap id = [] := by
                  rw [List.filterMap_eq_nil_iff]
                  intro a ha
                  rw [List.eq_of_mem_replicate ha]; rfl
                rw [this]
              · intro i e hi
                exfalso
                have := List.mem_of_getElem? hi
                have := List.eq_of_mem_replicate this
                cases this
            obtain ⟨s1, s2, s3⟩ := bvr_foldl_placeEntry variants first num hn1 (first :: rest) [] _ res hsk hinit h3
            have hres := bvr_mapM_id res out h
            subst hres
            rw [bvr_filterMap_some, List.nil_append] at s2
            rw [List.length_map] at s1
            have hslot : ∀ i (hi : i < out.length), out[i].variants = first.variants ∧
                ∃ vk, parseListOfStringLists out[i].variantKey = some [vk] ∧ indexInPossibleKeys variants vk = some i := by
              intro i hi
              apply s3 i out[i]
              rw [List.getElem?_map, List.getElem?_eq_getElem hi]
              rfl
            refine ⟨s2, first, variants, num, rfl, by simpa using h0, h1, h2, s1, ?_, ?_⟩
            · intro e he
              obtain ⟨i, hi, rfl⟩ := List.getElem_of_mem (s2.symm.subset he)
              exact (hslot i hi).1
            · intro i hi
              obtain ⟨_, vk, a1, a2⟩ := hslot i hi
              exact ⟨vk, a1, a2, bvr_possibleKeyAt_of_index variants vk i a2⟩

/-! ### b. the b1 index loop over entries with several locations -/

/-- a written index group: URL, stored Variants value, entries in index order -/
abbrev bvr_WG := Bytes × Bytes × List IndexEntry

/-- the `(offset, length)*` part of an index value -/
def bvr_locs (es : List IndexEntry) : Bytes := (es.map fun e => encodeUint e.offset ++ encodeUint e.length).flatten

/-- the b1 index entry the writer emits for a group: `url → [variants-value, (offset, length)*]` -/
def bvr_idxG (g : bvr_WG) : Entry :=
  (tstr g.1, encodeArrayHeader (1 + g.2.2.length * 2) ++ (encodeBytes g.2.1 ++ bvr_locs g.2.2))

theorem bvr_locs_cons (e : IndexEntry) (es : List IndexEntry) :
    bvr_locs (e :: es) = encodeUint e.offset ++ (encodeUint e.length ++ bvr_locs es) := by
  simp [bvr_locs]

/-- `decodeLocations` reads back the locations of a group, in order, all with the URL of the group -/
theorem bvr_decodeLocations (respLen respOff : Nat) (hro : respOff + respLen < 2 ^ 64) (u : Bytes) :
    ∀ (es : List IndexEntry) (tail : Bytes) (acc : List ReqEntry), (∀ e ∈ es, e.offset + e.length ≤ respLen) →
    decodeLocations respLen respOff u es.length (bvr_locs es ++ tail) acc =
      some (acc ++ es.map (fun e => { url := u, offset := respOff + e.offset, length := e.length }), tail) := by
  intro es
  induction es with
  | nil => intro tail acc _; simp [decodeLocations, bvr_locs]
  | cons e rest ih =>
    intro tail acc hall
    have hin := hall e (by simp)
    rw [bvr_locs_cons, List.length_cons, decodeLocations, List.append_assoc, C12.roundtrip_uint _ (by omega)]
    dsimp only
    rw [List.append_assoc, C12.roundtrip_uint _ (by omega)]
    dsimp only
    have hmr : makeRelative respLen respOff e.offset e.length = some (respOff + e.offset, e.length) := by
      unfold makeRelative
      rw [if_neg (by omega), w64_of_lt (by omega)]
    rw [hmr]
    dsimp only
    rw [ih tail _ (fun x hx => hall x (List.mem_cons_of_mem _ hx))]
    simp

/-- what the reader needs of one written group -/
structure bvr_GrpOk (url : BUrlFacts) (respLen : Nat) (g : bvr_WG) : Prop where
  utf8 : utf8Valid g.1 = true
  len : g.1.length < 2 ^ 63
  urlOk : indexUrl url g.1 = some g.1
  sameUrl : ∀ e ∈ g.2.2, e.url = g.1
  inResp : ∀ e ∈ g.2.2, e.offset + e.length ≤ respLen
  vlen : g.2.1.length < 2 ^ 63
  /-- a single resource without Variants value, or as many resources as the stored Variants value has possible keys -/
  shape : (g.2.1 = [] ∧ g.2.2.length = 1) ∨
    (g.2.1 ≠ [] ∧ ∃ variants, parseListOfStringLists g.2.1 = some variants ∧
      numberOfPossibleKeys variants 1 = some g.2.2.length)

theorem bvr_map_mkReq (respOff : Nat) (u : Bytes) (es : List IndexEntry) (h : ∀ e ∈ es, e.url = u) :
    es.map (fun e => ({ url := u, offset := respOff + e.offset, length := e.length } : ReqEntry)) =
      es.map (brt_mkReq respOff) := by
  apply List.map_congr_left
  intro e he
  rw [brt_mkReq, h e he]

/-- **(b)** the b1 index loop (`parseIndexSectionWithVariants`) consumes exactly the emitted groups: one request per
    location, in the stored order, group after group -/
theorem bvr_indexLoopB1 (url : BUrlFacts) (respLen respOff : Nat) (hro : respOff + respLen < 2 ^ 64) :
    ∀ (gs : List bvr_WG) (tail : Bytes) (acc : List ReqEntry), (∀ g ∈ gs, bvr_GrpOk url respLen g) →
    indexEntriesB1 url respLen respOff gs.length
      ((gs.map fun g => (bvr_idxG g).1 ++ (bvr_idxG g).2).flatten ++ tail) acc =
      some (acc ++ (gs.map fun g => g.2.2.map (brt_mkReq respOff)).flatten) := by
  intro gs
  induction gs with
  | nil => intro tail acc _; simp [indexEntriesB1]
  | cons g rest ih =>
    intro tail acc hall
    have hok := hall g (by simp)
    have hrest : ∀ x ∈ rest, bvr_GrpOk url respLen x := fun x hx => hall x (List.mem_cons_of_mem _ hx)
    obtain ⟨u, vv, es⟩ := g
    have e0 : (((u, vv, es) :: rest).map fun g => (bvr_idxG g).1 ++ (bvr_idxG g).2).flatten ++ tail =
        tstr u ++ (encodeArrayHeader (1 + es.length * 2) ++ (encodeBytes vv ++ (bvr_locs es ++
          ((rest.map fun g => (bvr_idxG g).1 ++ (bvr_idxG g).2).flatten ++ tail)))) := by
      simp [bvr_idxG]
    have hdl := bvr_decodeLocations respLen respOff hro u es
      ((rest.map fun g => (bvr_idxG g).1 ++ (bvr_idxG g).2).flatten ++ tail) acc hok.inResp
    rw [bvr_map_mkReq respOff u es hok.sameUrl] at hdl
    have hk : 1 + es.length * 2 < 2 ^ 64 := by
      rcases hok.shape with ⟨_, h1⟩ | ⟨_, variants, _, h2⟩
      · dsimp only at h1; omega
      · obtain ⟨_, hle, _⟩ := numberOfPossibleKeys_eq variants _ h2
        dsimp only at hle; omega
    rw [e0, List.length_cons, indexEntriesB1, brt_decodeText_tstr _ hok.utf8 hok.len]
    dsimp only
    rw [hok.urlOk]
    dsimp only
    rw [C12.roundtrip_arrayHeader _ hk]
    dsimp only
    rw [if_neg (by omega), C12.roundtrip_bytes vv hok.vlen]
    dsimp only
    rcases hok.shape with ⟨h0, h1⟩ | ⟨h0, variants, h1, h2⟩
    · dsimp only at h0 h1
      subst h0
      rw [if_pos (show ([] : Bytes).isEmpty = true from rfl), if_neg (by omega)]
      rw [h1] at hdl
      rw [hdl]
      dsimp only
      rw [ih tail _ hrest]
      simp
    · dsimp only at h0 h1 h2
      have hne : ¬ (vv.isEmpty = true) := by
        intro hc
        exact h0 (List.isEmpty_iff.mp hc)
      rw [if_neg hne, h1]
      dsimp only
      rw [h2]
      dsimp only
      rw [if_neg (by omega), hdl]
      dsimp only
      rw [ih tail _ hrest]
      simp

theorem bvr_len_le_idxG (σ : List bvr_WG) :
    σ.length ≤ (((σ.map bvr_idxG).map fun e => e.1 ++ e.2).flatten).length := by
  rw [List.map_map]
  apply brt_len_le_flatten_map
  intro g
  have := brt_encodeHead_pos 3 g.1.length
  simp only [Function.comp, bvr_idxG, List.length_append, tstr]
  omega

/-- `bvr_GrpOk` without the length bounds (they follow from the size of the index section) -/
structure bvr_GrpOk0 (url : BUrlFacts) (respLen : Nat) (g : bvr_WG) : Prop where
  utf8 : utf8Valid g.1 = true
  urlOk : indexUrl url g.1 = some g.1
  sameUrl : ∀ e ∈ g.2.2, e.url = g.1
  inResp : ∀ e ∈ g.2.2, e.offset + e.length ≤ respLen
  shape : (g.2.1 = [] ∧ g.2.2.length = 1) ∨
    (g.2.1 ≠ [] ∧ ∃ variants, parseListOfStringLists g.2.1 = some variants ∧
      numberOfPossibleKeys variants 1 = some g.2.2.length)

/-- `parseIndexSectionWithVariants` on the writer's b1 index with variant groups: the groups come out in the order of
    the index map (strictly ascending encoded URL), each as its locations in the stored order -/
theorem bvr_parseIndex_enc (url : BUrlFacts) (idx : Bytes) (S : Nat) (pre : List SectionOffset)
    (respLen : Nat) (post : List SectionOffset) (gs : List bvr_WG)
    (hpre : ∀ s ∈ pre, s.name ≠ nResponses) (hb : S + lenSum pre + respLen < 2 ^ 64)
    (hall0 : ∀ g ∈ gs, bvr_GrpOk0 url respLen g)
    (h : encodeMap (gs.map bvr_idxG) = .ok idx) (hlen : idx.length < 2 ^ 63) :
    ∃ σ : List bvr_WG, σ.Perm gs ∧ σ.Pairwise (fun a c => blt (tstr a.1) (tstr c.1) = true) ∧
      parseIndex url .b1 idx S (pre ++ { name := nResponses, length := respLen } :: post) =
        some ((σ.map fun g => g.2.2.map (brt_mkReq (S + lenSum pre))).flatten) := by
  obtain ⟨sorted, hp, hasc, ho⟩ := C11.encodeMap_layout _ _ h
  obtain ⟨σ, hσ, rfl⟩ := Sxg.perm_map_exists bvr_idxG sorted gs hp
  have hn : gs.length = σ.length := hσ.length_eq.symm
  have hall : ∀ g ∈ σ, bvr_GrpOk url respLen g := by
    intro g hg
    obtain ⟨a1, a2, a3, a4, a5⟩ := hall0 g (hσ.subset hg)
    have hm : (bvr_idxG g).1 ++ (bvr_idxG g).2 ∈ ((σ.map bvr_idxG).map fun e => e.1 ++ e.2) :=
      List.mem_map.mpr ⟨bvr_idxG g, List.mem_map.mpr ⟨g, hg, rfl⟩, rfl⟩
    have h1 := Sxg.length_le_flatten _ _ hm
    have h2 := congrArg List.length ho
    simp only [List.length_append, bvr_idxG, tstr, encodeBytes] at h1 h2
    exact ⟨a1, by omega, a2, a3, a4, by omega, a5⟩
  have hcount := bvr_len_le_idxG σ
  have hl := congrArg List.length ho
  rw [List.length_append] at hl
  refine ⟨σ, hσ, ?_, ?_⟩
  · unfold StrictAsc at hasc
    rw [List.pairwise_map] at hasc
    exact hasc
  unfold parseIndex
  have hmh : decodeMapHeader (encodeHead 5 σ.length ++
      ((σ.map bvr_idxG).map fun e => e.1 ++ e.2).flatten) = some (σ.length, _) :=
    C12.roundtrip_mapHeader _ (by rw [List.length_map] at hl; omega) _
  rw [ho, List.length_map, hn, hmh]
  dsimp only
  have := brt_findSection pre { name := nResponses, length := respLen } post 0 hpre (by omega)
  dsimp only at this
  rw [this]
  dsimp only
  rw [Nat.zero_add, w64_of_lt (by omega), List.map_map]
  have := bvr_indexLoopB1 url respLen (S + lenSum pre) (by omega) σ [] [] hall
  rw [List.append_nil, List.nil_append] at this
  exact this

/-! ### c. the writer's groups -/

/-- invariant of `groupByUrl`: distinct keys, every group is the sub-list of the entries seen so far with its URL (in
    insertion order) and is not empty, every URL seen has a group -/
def bvr_GInv (seen : List IndexEntry) (acc : List (Bytes × List IndexEntry)) : Prop :=
  (acc.map Prod.fst).Nodup ∧ (∀ g ∈ acc, g.2 = seen.filter (fun e => e.url == g.1) ∧ g.2 ≠ []) ∧
  (∀ e ∈ seen, e.url ∈ acc.map Prod.fst)

theorem bvr_groupByUrl_inv : ∀ (es seen : List IndexEntry) (acc : List (Bytes × List IndexEntry)),
    bvr_GInv seen acc → bvr_GInv (seen ++ es) (groupByUrl es acc) := by
  intro es
  induction es with
  | nil => intro seen acc h; rw [groupByUrl, List.append_nil]; exact h
  | cons e rest ih =>
    intro seen acc ⟨h1, h2, h3⟩
    rw [groupByUrl]
    have hassoc : seen ++ e :: rest = (seen ++ [e]) ++ rest := by simp
    rw [hassoc]
    by_cases hc : acc.any (·.1 == e.url) = true
    · rw [if_pos hc]
      apply ih
      have hfst : (acc.map fun (u, es) => if u == e.url then (u, es ++ [e]) else (u, es)).map Prod.fst =
          acc.map Prod.fst := by
        rw [List.map_map]
        apply List.map_congr_left
        intro g _
        obtain ⟨u, es0⟩ := g
        simp only [Function.comp]
        split <;> rfl
      refine ⟨by rw [hfst]; exact h1, ?_, ?_⟩
      · intro g' hg'
        obtain ⟨⟨u, es0⟩, hg, rfl⟩ := List.mem_map.mp hg'
        obtain ⟨a1, a2⟩ := h2 _ hg
        dsimp only at a1 a2 ⊢
        by_cases hu : u = e.url
        · have hb : (u == e.url) = true := by simp [hu]
          rw [if_pos hb]
          dsimp only
          rw [List.filter_append, ← a1]
          have : [e].filter (fun x => x.url == u) = [e] := by simp [hu]
          rw [this]
          exact ⟨rfl, by simp⟩
        · have hb : ¬ ((u == e.url) = true) := by simpa using hu
          rw [if_neg hb]
          dsimp only
          rw [List.filter_append, ← a1]
          have : [e].filter (fun x => x.url == u) = [] := by
            simp only [List.filter_cons, List.filter_nil]
            rw [if_neg (by simpa using fun h => hu h.symm)]
          rw [this, List.append_nil]
          exact ⟨rfl, a2⟩
      · intro x hx
        rw [hfst]
        rcases List.mem_append.mp hx with hx | hx
        · exact h3 x hx
        · rw [List.mem_singleton.mp hx]
          obtain ⟨g, hg, hge⟩ := List.any_eq_true.mp hc
          exact List.mem_map.mpr ⟨g, hg, by simpa using hge⟩
    · rw [if_neg hc]
      apply ih
      have hfresh : e.url ∉ acc.map Prod.fst := by
        intro hm
        obtain ⟨g, hg, hge⟩ := List.mem_map.mp hm
        exact hc (List.any_eq_true.mpr ⟨g, hg, by simp [hge]⟩)
      refine ⟨?_, ?_, ?_⟩
      · rw [List.map_append, List.nodup_append]
        refine ⟨h1, by simp, ?_⟩
        intro a ha b hb hab
        simp only [List.map_cons, List.map_nil, List.mem_singleton] at hb
        subst hb; subst hab
        exact hfresh ha
      · intro g hg
        rcases List.mem_append.mp hg with hg | hg
        · obtain ⟨a1, a2⟩ := h2 g hg
          have hne : g.1 ≠ e.url := by
            intro hc2
            exact hfresh (hc2 ▸ List.mem_map.mpr ⟨g, hg, rfl⟩)
          have : [e].filter (fun x => x.url == g.1) = [] := by
            simp only [List.filter_cons, List.filter_nil]
            rw [if_neg (by simpa using fun h => hne h.symm)]
          rw [List.filter_append, ← a1, this, List.append_nil]
          exact ⟨rfl, a2⟩
        · rw [List.mem_singleton.mp hg]
          dsimp only
          have h0 : seen.filter (fun x => x.url == e.url) = [] := by
            rw [List.filter_eq_nil_iff]
            intro x hx hxe
            apply hfresh
            have := h3 x hx
            rw [show x.url = e.url by simpa using hxe] at this
            exact this
          rw [List.filter_append, h0, List.nil_append]
          exact ⟨by simp, by simp⟩
      · intro x hx
        rw [List.map_append]
        rcases List.mem_append.mp hx with hx | hx
        · exact List.mem_append_left _ (h3 x hx)
        · rw [List.mem_singleton.mp hx]; simp

/-- the entries are the concatenation of the sub-lists by URL, up to order -/
theorem bvr_perm_filter_keys : ∀ (keys : List Bytes) (entries : List IndexEntry), keys.Nodup →
    (∀ e ∈ entries, e.url ∈ keys) →
    ((keys.map fun u => entries.filter (fun e => e.url == u)).flatten).Perm entries := by
  intro keys
  induction keys with
  | nil =>
    intro entries _ h
    have : entries = [] := List.eq_nil_iff_forall_not_mem.mpr fun e he => by simpa using h e he
    subst this
    exact List.Perm.refl _
  | cons u ks ih =>
    intro entries hnd h
    rw [List.nodup_cons] at hnd
    rw [List.map_cons, List.flatten_cons]
    have hE' : ∀ e ∈ entries.filter (fun e => !(e.url == u)), e.url ∈ ks := by
      intro e he
      obtain ⟨he1, he2⟩ := List.mem_filter.mp he
      rcases List.mem_cons.mp (h e he1) with hx | hx
      · simp [hx] at he2
      · exact hx
    have ih' := ih (entries.filter (fun e => !(e.url == u))) hnd.2 hE'
    have hcongr : (ks.map fun k => (entries.filter (fun e => !(e.url == u))).filter (fun e => e.url == k)) =
        ks.map fun k => entries.filter (fun e => e.url == k) := by
      apply List.map_congr_left
      intro k hk
      rw [List.filter_filter]
      apply List.filter_congr
      intro e _
      have hku : k ≠ u := fun hc => hnd.1 (hc ▸ hk)
      by_cases hek : e.url = k
      · have : (e.url == u) = false := by simpa [hek] using hku
        simp [hek, hku]
      · simp [hek]
    rw [hcongr] at ih'
    exact (List.Perm.append_left _ ih').trans (List.filter_append_perm _ entries)

/-- the groups of `groupByUrl entries []`: distinct URLs, each group is the non-empty sub-list of the entries with
    its URL, and together they are the entries -/
theorem bvr_groupByUrl_spec (entries : List IndexEntry) :
    ((groupByUrl entries []).map Prod.fst).Nodup ∧
    (∀ g ∈ groupByUrl entries [], g.2 = entries.filter (fun e => e.url == g.1) ∧ g.2 ≠ []) ∧
    (((groupByUrl entries []).map Prod.snd).flatten).Perm entries := by
  obtain ⟨h1, h2, h3⟩ := bvr_groupByUrl_inv entries [] [] ⟨by simp, by simp, by simp⟩
  rw [List.nil_append] at h2 h3
  refine ⟨h1, h2, ?_⟩
  have := bvr_perm_filter_keys _ entries h1 h3
  rw [List.map_map] at this
  have e : (groupByUrl entries []).map Prod.snd =
      (groupByUrl entries []).map ((fun u => entries.filter (fun e => e.url == u)) ∘ Prod.fst) := by
    apply List.map_congr_left
    intro g hg
    exact (h2 g hg).1
  rw [e]
  exact this

/-! ### d. the index the writer emits for the groups -/

/-- the group as written: URL, stored Variants value (the raw header value of the first entry; empty for a single
    resource) and the entries in index order -/
def bvr_wOf (g : Bytes × List IndexEntry) : Option bvr_WG :=
  if g.2.length > 1 then (entriesInPossibleKeyOrder g.2).map fun es => (g.1, (g.2.headD default).variants, es)
  else some (g.1, [], g.2)

theorem bvr_buildB1_eq (g : Bytes × List IndexEntry) : buildB1 g = (bvr_wOf g).map bvr_idxG := by
  unfold buildB1 bvr_wOf
  by_cases hc : g.2.length > 1
  · rw [if_pos hc, if_pos hc]
    cases entriesInPossibleKeyOrder g.2 with
    | none => rfl
    | some es => simp [bvr_idxG, bvr_locs]
  · rw [if_neg hc, if_neg hc]
    simp [bvr_idxG, bvr_locs]

theorem bvr_mapM_forall₂ {α β : Type} (f : α → Option β) : ∀ (l : List α) (out : List β), l.mapM f = some out →
    Forall₂ (fun a b => f a = some b) l out := by
  intro l
  induction l with
  | nil =>
    intro out h
    rw [List.mapM_nil] at h
    injection h with h
    subst h
    exact Forall₂.nil
  | cons a l ih =>
    intro out h
    rw [List.mapM_cons] at h
    cases ha : f a with
    | none => rw [ha] at h; cases h
    | some b =>
      cases hl : l.mapM f with
      | none => rw [ha, hl] at h; cases h
      | some bs =>
        rw [ha, hl] at h
        injection h with h
        subst h
        exact Forall₂.cons ha (ih bs hl)

theorem bvr_mapM_map_opt {α β γ : Type} (f : α → Option β) (k : β → γ) : ∀ (l : List α) (out : List γ),
    l.mapM (fun a => (f a).map k) = some out → ∃ mid, l.mapM f = some mid ∧ out = mid.map k := by
  intro l
  induction l with
  | nil =>
    intro out h
    rw [List.mapM_nil] at h
    injection h with h
    subst h
    exact ⟨[], rfl, rfl⟩
  | cons a l ih =>
    intro out h
    rw [List.mapM_cons] at h
    cases ha : f a with
    | none => rw [ha] at h; cases h
    | some b =>
      cases hl : l.mapM (fun a => (f a).map k) with
      | none => rw [ha, hl] at h; cases h
      | some bs =>
        rw [ha, hl] at h
        injection h with h
        subst h
        obtain ⟨mid, h1, h2⟩ := ih bs hl
        refine ⟨b :: mid, ?_, by rw [h2]; rfl⟩
        rw [List.mapM_cons, ha, h1]
        rfl

/-- a successful `Finalize` of a b1 index: the groups of `groupByUrl`, each turned into its written form, encoded as
    one map -/
theorem bvr_finalize_b1 (entries : List IndexEntry) (idx : Bytes) (h : finalizeIndex .b1 entries = .ok (.ok idx)) :
    (∀ g ∈ groupByUrl entries [], utf8Valid g.1 = true) ∧
    ∃ W : List bvr_WG, Forall₂ (fun g w => bvr_wOf g = some w) (groupByUrl entries []) W ∧
      encodeMap (W.map bvr_idxG) = .ok idx := by
  obtain ⟨hg, mes, hmes, hm⟩ := finalizeIndex_b1 entries idx h
  have : buildB1 = fun g => (bvr_wOf g).map bvr_idxG := funext bvr_buildB1_eq
  rw [this] at hmes
  obtain ⟨W, hW, rfl⟩ := bvr_mapM_map_opt bvr_wOf bvr_idxG _ _ hmes
  exact ⟨hg, W, bvr_mapM_forall₂ bvr_wOf _ _ hW, hm⟩

/-- what `bvr_wOf g = some w` means for a non-empty group whose entries (if more than one) claim a single key each -/
theorem bvr_wOf_spec (g : Bytes × List IndexEntry) (w : bvr_WG) (h : bvr_wOf g = some w) (hne : g.2 ≠ [])
    (hsk : 1 < g.2.length → ∀ e ∈ g.2, bvr_SingleKey e) :
    w.1 = g.1 ∧ w.2.2.Perm g.2 ∧
    ((g.2.length = 1 ∧ w.2.1 = [] ∧ w.2.2 = g.2) ∨
     (1 < g.2.length ∧ w.2.1 ≠ [] ∧ (∀ e ∈ g.2, e.variants = w.2.1) ∧
       ∃ variants, parseListOfStringLists w.2.1 = some variants ∧
         numberOfPossibleKeys variants 1 = some w.2.2.length ∧
         ∀ i (hi : i < w.2.2.length), ∃ vk, parseListOfStringLists w.2.2[i].variantKey = some [vk] ∧
           indexInPossibleKeys variants vk = some i ∧ possibleKeyAt variants i = some vk)) := by
  unfold bvr_wOf at h
  by_cases hc : g.2.length > 1
  · rw [if_pos hc] at h
    cases ho : entriesInPossibleKeyOrder g.2 with
    | none => rw [ho] at h; cases h
    | some es =>
      rw [ho] at h
      injection h with h
      subst h
      obtain ⟨hp, first, variants, num, f1, f2, f3, f4, f5, f6, f7⟩ :=
        bvr_entriesInPossibleKeyOrder_perm g.2 es ho (hsk hc)
      have hfirst : (g.2.headD default) = first := by
        cases hg : g.2 with
        | nil => exact absurd hg hne
        | cons a l => rw [hg] at f1; simpa using f1
      refine ⟨rfl, hp, Or.inr ⟨hc, ?_, ?_, variants, ?_, ?_, ?_⟩⟩
      · dsimp only
        rw [hfirst]
        intro hc2
        rw [hc2] at f2
        cases f2
      · dsimp only; rw [hfirst]; exact f6
      · dsimp only; rw [hfirst]; exact f3
      · dsimp only; rw [f5]; exact f4
      · intro i hi
        exact f7 i hi
  · rw [if_neg hc] at h
    injection h with h
    subst h
    refine ⟨rfl, List.Perm.refl _, Or.inl ⟨?_, rfl, rfl⟩⟩
    have : g.2.length ≠ 0 := fun h0 => hne (List.length_eq_zero_iff.mp h0)
    omega

/-! ### e. the index: from the writer's entries to the reader's requests -/

theorem bvr_split_flatten {α β γ : Type} (f : α → β) (q : γ → List β) : ∀ (ws : List γ) (l : List α),
    l.map f = (ws.map q).flatten →
    ∃ gs : List (List α), l = gs.flatten ∧ Forall₂ (fun w g => g.map f = q w) ws gs := by
  intro ws
  induction ws with
  | nil =>
    intro l h
    have : l = [] := by simpa using h
    exact ⟨[], by simp [this], Forall₂.nil⟩
  | cons w ws ih =>
    intro l h
    rw [List.map_cons, List.flatten_cons] at h
    obtain ⟨l1, l2, e0, e1, e2⟩ := List.map_eq_append_iff.mp h
    obtain ⟨gs, g1, g2⟩ := ih l2 e2
    exact ⟨l1 :: gs, by rw [e0, g1]; rfl, Forall₂.cons e1 g2⟩

theorem bvr_forall₂_imp {α β : Type} {R S : α → β → Prop} {as : List α} {bs : List β} (h : Forall₂ R as bs)
    (himp : ∀ a ∈ as, ∀ b ∈ bs, R a b → S a b) : Forall₂ S as bs := by
  induction h with
  | nil => exact Forall₂.nil
  | cons hab _ ih =>
    exact Forall₂.cons (himp _ (by simp) _ (by simp) hab)
      (ih fun a ha b hb => himp a (List.mem_cons_of_mem _ ha) b (List.mem_cons_of_mem _ hb))

theorem bvr_forall₂_pairwise {α β : Type} {R : α → β → Prop} {P : α → α → Prop} {Q : β → β → Prop}
    {as : List α} {bs : List β} (h : Forall₂ R as bs) (hp : as.Pairwise P)
    (himp : ∀ a b x y, R a x → R b y → P a b → Q x y) : bs.Pairwise Q := by
  induction h with
  | nil => exact List.Pairwise.nil
  | cons hab hrest ih =>
    rw [List.pairwise_cons] at hp ⊢
    refine ⟨?_, ih hp.2⟩
    intro y hy
    obtain ⟨b, hb, hr⟩ := bfp_forall₂_mem hrest y hy
    exact himp _ _ _ _ hab hr (hp.1 b hb)

theorem bvr_forall₂_perm_flatten {α β γ : Type} (p : α → List γ) (q : β → List γ) {as : List α} {bs : List β}
    (h : Forall₂ (fun a b => (q b).Perm (p a)) as bs) : ((bs.map q).flatten).Perm ((as.map p).flatten) := by
  induction h with
  | nil => exact List.Perm.refl _
  | cons hab _ ih =>
    rw [List.map_cons, List.map_cons, List.flatten_cons, List.flatten_cons]
    exact List.Perm.append hab ih

/-- the raw `Variants` / `Variant-Key` header values the writer looks at -/
def exVariants (e : Exch) : Bytes := joinComma (rawValues e.resp.headers hVariants)
def exVariantKey (e : Exch) : Bytes := joinComma (rawValues e.resp.headers hVariantKey)

/-- a run of exchanges that forms one index group: same URL; if it has several members they all carry the same
    non-empty Variants value `V`, there are as many as `V` has possible keys, and the `i`-th one is the representation
    whose (single) Variant-Key is `possibleKeyAt V i` -- the row-major order of the Variants axes -/
structure VariantGroup (g : List Exch) : Prop where
  ne : g ≠ []
  sameUrl : ∀ e ∈ g, ∀ e' ∈ g, e.url = e'.url
  rowMajor : 1 < g.length → ∃ V variants, V ≠ [] ∧ (∀ e ∈ g, exVariants e = V) ∧
    parseListOfStringLists V = some variants ∧ numberOfPossibleKeys variants 1 = some g.length ∧
    ∀ i (hi : i < g.length), ∃ vk, parseListOfStringLists (exVariantKey g[i]) = some [vk] ∧
      indexInPossibleKeys variants vk = some i ∧ possibleKeyAt variants i = some vk

/-- the index of a b1 bundle with variant groups, from `Finalize` to `parseIndexSectionWithVariants`: the requests are
    the exchanges arranged in groups `gs`, the groups in index-map order and each group in row-major order -/
theorem bvr_index_core (url : BUrlFacts) (idx : Bytes) (S : Nat) (pre : List SectionOffset) (respLen : Nat)
    (post : List SectionOffset) (L : List (Exch × Bytes × Nat))
    (hpre : ∀ s ∈ pre, s.name ≠ nResponses) (hb : S + lenSum pre + respLen < 2 ^ 64)
    (hurl : ∀ t ∈ L, indexUrl url t.1.url = some t.1.url) (hin : ∀ t ∈ L, t.2.2 + t.2.1.length ≤ respLen)
    (hsk : ∀ t ∈ L, 1 < (L.filter (fun t' => t'.1.url == t.1.url)).length → bvr_SingleKey (brt_toEntry t))
    (h : finalizeIndex .b1 (L.map brt_toEntry) = .ok (.ok idx)) (hlen : idx.length < 2 ^ 63) :
    ∃ gs : List (List (Exch × Bytes × Nat)), gs.flatten.Perm L ∧
      gs.Pairwise (fun g1 g2 => ∀ t1 ∈ g1, ∀ t2 ∈ g2, blt (tstr t1.1.url) (tstr t2.1.url) = true) ∧
      (∀ g ∈ gs, VariantGroup (g.map (·.1))) ∧
      parseIndex url .b1 idx S (pre ++ { name := nResponses, length := respLen } :: post) =
        some (gs.flatten.map (brt_reqOf (S + lenSum pre))) := by
  obtain ⟨hutf, W, hFW, hmap⟩ := bvr_finalize_b1 _ idx h
  obtain ⟨g1, g2, g3⟩ := bvr_groupByUrl_spec (L.map brt_toEntry)
  -- members of a group
  have hmemG : ∀ g ∈ groupByUrl (L.map brt_toEntry) [], ∀ e ∈ g.2, ∃ t ∈ L, e = brt_toEntry t ∧ t.1.url = g.1 := by
    intro g hg e he
    rw [(g2 g hg).1] at he
    obtain ⟨he1, he2⟩ := List.mem_filter.mp he
    obtain ⟨t, ht, rfl⟩ := List.mem_map.mp he1
    exact ⟨t, ht, rfl, by simpa [brt_toEntry] using he2⟩
  have hskG : ∀ g ∈ groupByUrl (L.map brt_toEntry) [], 1 < g.2.length → ∀ e ∈ g.2, bvr_SingleKey e := by
    intro g hg hlen1 e he
    obtain ⟨t, ht, rfl, htu⟩ := hmemG g hg e he
    apply hsk t ht
    have : g.2.length = (L.filter (fun t' => t'.1.url == t.1.url)).length := by
      rw [(g2 g hg).1, List.filter_map, List.length_map, htu]
      rfl
    omega
  have hspec : ∀ g ∈ groupByUrl (L.map brt_toEntry) [], ∀ w, bvr_wOf g = some w → _ :=
    fun g hg w hw => bvr_wOf_spec g w hw (g2 g hg).2 (hskG g hg)
  -- every written group is acceptable to the reader
  have hW0 : ∀ w ∈ W, bvr_GrpOk0 url respLen w := by
    intro w hw
    obtain ⟨g, hg, hgw⟩ := bfp_forall₂_mem hFW w hw
    obtain ⟨s1, s2, s3⟩ := hspec g hg w hgw
    have hne := (g2 g hg).2
    obtain ⟨e0, he0⟩ := List.exists_mem_of_ne_nil _ hne
    obtain ⟨t0, ht0, _, htu0⟩ := hmemG g hg e0 he0
    refine ⟨by rw [s1]; exact hutf g hg, by rw [s1, ← htu0]; exact hurl t0 ht0, ?_, ?_, ?_⟩
    · intro e he
      obtain ⟨t, _, rfl, htu⟩ := hmemG g hg e (s2.subset he)
      rw [s1]; exact htu
    · intro e he
      obtain ⟨t, ht, rfl, _⟩ := hmemG g hg e (s2.subset he)
      exact hin t ht
    · rcases s3 with ⟨a1, a2, a3⟩ | ⟨a1, a2, _, variants, a4, a5, _⟩
      · exact Or.inl ⟨a2, by rw [a3]; exact a1⟩
      · exact Or.inr ⟨a2, variants, a4, a5⟩
  obtain ⟨σW, hσW, hsorted, hpi⟩ := bvr_parseIndex_enc url idx S pre respLen post W hpre hb hW0 hmap hlen
  -- the entries in index order are a rearrangement of the writer's entries
  have hperm : ((σW.map (·.2.2)).flatten).Perm (L.map brt_toEntry) := by
    refine ((hσW.map (·.2.2)).flatten).trans (List.Perm.trans ?_ g3)
    refine bvr_forall₂_perm_flatten (Prod.snd : Bytes × List IndexEntry → List IndexEntry)
      (fun w : bvr_WG => w.2.2) (bvr_forall₂_imp hFW ?_)
    intro g hg w _ hgw
    exact (hspec g hg w hgw).2.1
  obtain ⟨σ, hσ, hσe⟩ := Sxg.perm_map_exists brt_toEntry _ L hperm
  obtain ⟨gs, hgs1, hgs2⟩ := bvr_split_flatten brt_toEntry (·.2.2) σW σ hσe.symm
  have hgs3 : Forall₂ (fun w g => g.map brt_toEntry = w.2.2 ∧ w ∈ W) σW gs :=
    bvr_forall₂_imp hgs2 fun w hw g _ hwg => ⟨hwg, hσW.subset hw⟩
  refine ⟨gs, by rw [← hgs1]; exact hσ, ?_, ?_, ?_⟩
  · refine bvr_forall₂_pairwise hgs3 hsorted ?_
    intro a c x y ⟨hax, haW⟩ ⟨hcy, hcW⟩ hac t1 ht1 t2 ht2
    have h1 := (hW0 a haW).sameUrl (brt_toEntry t1) (by rw [← hax]; exact List.mem_map.mpr ⟨t1, ht1, rfl⟩)
    have h2 := (hW0 c hcW).sameUrl (brt_toEntry t2) (by rw [← hcy]; exact List.mem_map.mpr ⟨t2, ht2, rfl⟩)
    rw [← h1, ← h2] at hac
    exact hac
  · intro g hg
    obtain ⟨w, _, hgw, hwW⟩ := bfp_forall₂_mem hgs3 g hg
    obtain ⟨g0, hg0, hg0w⟩ := bfp_forall₂_mem hFW w hwW
    obtain ⟨s1, s2, s3⟩ := hspec g0 hg0 w hg0w
    have hsame := (hW0 w hwW).sameUrl
    obtain ⟨u, vv, es⟩ := w
    dsimp only at hgw s1 s2 s3 hsame
    subst hgw
    have hlen0 := s2.length_eq
    rw [List.length_map] at hlen0
    refine ⟨?_, ?_, ?_⟩
    · intro hc
      have hg' : g = [] := by simpa using hc
      rw [hg'] at hlen0
      exact (g2 g0 hg0).2 (List.length_eq_zero_iff.mp hlen0.symm)
    · intro e he e' he'
      obtain ⟨t, ht, rfl⟩ := List.mem_map.mp he
      obtain ⟨t', ht', rfl⟩ := List.mem_map.mp he'
      have h1 := hsame (brt_toEntry t) (List.mem_map.mpr ⟨t, ht, rfl⟩)
      have h2 := hsame (brt_toEntry t') (List.mem_map.mpr ⟨t', ht', rfl⟩)
      exact h1.trans h2.symm
    · intro hlen1
      rw [List.length_map] at hlen1
      rcases s3 with ⟨a1, _, _⟩ | ⟨_, a2, a3, variants, a4, a5, a6⟩
      · omega
      · refine ⟨vv, variants, a2, ?_, a4, ?_, ?_⟩
        · intro e he
          obtain ⟨t, ht, rfl⟩ := List.mem_map.mp he
          exact a3 (brt_toEntry t) (s2.subset (List.mem_map.mpr ⟨t, ht, rfl⟩))
        · rw [List.length_map] at a5 ⊢
          exact a5
        · intro i hi
          rw [List.length_map] at hi
          obtain ⟨vk, b1, b2⟩ := a6 i (by rw [List.length_map]; exact hi)
          rw [List.getElem_map] at b1
          refine ⟨vk, ?_, b2⟩
          rw [List.getElem_map]
          exact b1
  · rw [hpi]
    congr 1
    have e1 : (σW.map fun g => g.2.2.map (brt_mkReq (S + lenSum pre))) =
        (σW.map (·.2.2)).map (List.map (brt_mkReq (S + lenSum pre))) := by
      rw [List.map_map]; rfl
    rw [e1, ← List.map_flatten, hσe, ← hgs1, List.map_map]
    rfl
/-! ### f. `loadMetadata` on the writer's output (b1 with variant groups) -/

/-- format constraints the reader enforces and the writer does not check, for b1 bundles that may hold several
    representations per URL: `RDomG` without `urlsDistinct`, plus single-key Variant-Key values inside variant groups
    (the reader flattens a multi-key entry into repeated exchanges by design) -/
structure VDom (url : BUrlFacts) (parseOk : Bytes → Bool) (b : Bundle) : Prop where
  /-- every resource URL parses, has no fragment and no credentials, and prints as itself -/
  urlsOk : ∀ e ∈ b.exchanges, ∃ isAbs, url e.url = some (false, false, isAbs, e.url)
  /-- the primary URL (b1 header field) parses and prints as itself -/
  primaryOk : ∀ u, b.primaryURL = some u → ∃ frag user abs, url u = some (frag, user, abs, u)
  /-- the manifest URL is absolute, has no fragment and no credentials, and prints as itself -/
  manifestOk : ∀ u, b.manifestURL = some u → url u = some (false, false, true, u)
  /-- three-digit status codes -/
  status : ∀ e ∈ b.exchanges, 100 ≤ e.resp.status ∧ e.resp.status ≤ 999
  /-- ASCII header names (not pseudo headers) and values -/
  hdrAscii : ∀ e ∈ b.exchanges, ∀ kv ∈ e.resp.headers,
    isAscii kv.1 = true ∧ (∀ v ∈ kv.2, isAscii v = true) ∧ kv.1.head? ≠ some 58
  /-- `x509.ParseCertificate` accepts every authority certificate -/
  certsOk : ∀ s, b.signatures = some s → ∀ a ∈ s.authorities, parseOk a.cert = true
  /-- `VouchedSubset.Authority` is a Go `uint64` -/
  authIdx : ∀ s, b.signatures = some s → ∀ vs ∈ s.subsets, vs.authority < 2 ^ 64
  /-- an exchange that shares its URL with another one names exactly one variant key -/
  singleKey : ∀ e ∈ b.exchanges, 1 < (b.exchanges.filter (fun e' => e'.url == e.url)).length →
    ∃ vk, parseListOfStringLists (exVariantKey e) = some [vk]

/-- `bfp_loadMetadata_write` for b1 bundles with variant groups: the requests are the exchanges arranged in groups,
    the groups in index-map order (strictly ascending encoded URL) and each group in row-major order of its Variants
    axes -/
theorem bvr_loadMetadata_write (url : BUrlFacts) (parseOk : Bytes → Bool) (b : Bundle) (out : Bytes)
    (hv : b.version = .b1) (hd : VDom url parseOk b) (hw : write b = .ok (.ok out)) (hlen : out.length < 2 ^ 63) :
    ∃ (L : List (Exch × Bytes × Nat)) (gs : List (List (Exch × Bytes × Nat))) (respOff : Nat),
      L.map (·.1) = b.exchanges ∧ gs.flatten.Perm L ∧
      gs.Pairwise (fun g1 g2 => ∀ t1 ∈ g1, ∀ t2 ∈ g2, blt (tstr t1.1.url) (tstr t2.1.url) = true) ∧
      (∀ g ∈ gs, VariantGroup (g.map (·.1))) ∧
      (∀ t ∈ L, encodeResponse t.1.resp = .ok t.2.1 ∧ respOff + t.2.2 + t.2.1.length ≤ out.length ∧
        (out.drop (respOff + t.2.2)).take t.2.1.length = t.2.1) ∧
      loadMetadata url parseOk out =
        .ok { version := b.version, primaryURL := b.primaryURL, manifestURL := b.manifestURL,
              signatures := b.signatures, requests := gs.flatten.map (brt_reqOf respOff) } := by
  obtain ⟨respBuf, entries, idx, p, m, s, hdr, h1, h2, h3, h4, h5, h6, ho⟩ := write_ok b out hw
  obtain ⟨hpF, hpE⟩ := brt_primarySec b p h3
  obtain ⟨hmF, hmE⟩ := brt_manifestSec b m h4
  obtain ⟨hsF, hsE⟩ := brt_sigsSec b s h5
  -- the exchanges loop
  obtain ⟨L, tail, l1, l2, l3, l4⟩ := brt_addExchanges _ _ _ _ _ h1
  rw [List.nil_append] at l2
  -- the layout of the file
  obtain ⟨footer, hfl, ho'⟩ : ∃ footer : Bytes, footer.length = 9 ∧
      out = bodyOf hdr (sectionsOf idx respBuf p m s) ++ footer := ⟨_, footer_length _, ho⟩
  clear ho
  have hndp0 := sections_nodup idx respBuf p m s
    (by rcases primarySec_ok b p h3 with h | ⟨_, h⟩
        · exact Or.inl h
        · exact Or.inr h)
    (by rcases manifestSec_ok b m h4 with h | ⟨_, h⟩
        · exact Or.inl h
        · exact Or.inr h)
    (sigsSec_ok b s h5)
  have hcnt : (p ++ (m ++ s)).length ≤ 3 := by
    have a1 : p.length ≤ 1 := by
      rcases primarySec_ok b p h3 with h | ⟨_, x, h⟩ <;> rw [h] <;> simp
    have a2 : m.length ≤ 1 := by
      rcases manifestSec_ok b m h4 with h | ⟨_, x, h⟩ <;> rw [h] <;> simp
    have a3 : s.length ≤ 1 := by
      rcases sigsSec_ok b s h5 with h | ⟨x, h⟩ <;> rw [h] <;> simp
    simp only [List.length_append]; omega
  have hsec : sectionsOf idx respBuf p m s = ([(nIndex, idx)] ++ (p ++ (m ++ s))) ++ [(nResponses, respBuf)] := by
    unfold sectionsOf; simp
  generalize hmid : p ++ (m ++ s) = mid at hsec hcnt
  rw [hsec] at ho' hndp0
  unfold bodyOf at ho'
  simp only [List.append_assoc] at ho' hndp0
  have hmidn : ∀ x ∈ mid, x.1 = nPrimary ∨ x.1 = nManifest ∨ x.1 = nSignatures := by
    intro x hx
    rw [← hmid] at hx
    rcases List.mem_append.mp hx with hx | hx
    · exact Or.inl (hpF x hx).1
    · rcases List.mem_append.mp hx with hx | hx
      · exact Or.inr (Or.inl (hmF x hx).1)
      · exact Or.inr (Or.inr (hsF x hx).1)
  have hnames : ∀ x ∈ [(nIndex, idx)] ++ (mid ++ [(nResponses, respBuf)]),
      x.1 = nIndex ∨ x.1 = nPrimary ∨ x.1 = nManifest ∨ x.1 = nSignatures ∨ x.1 = nResponses := by
    intro x hx
    rcases List.mem_append.mp hx with hx | hx
    · rw [List.mem_singleton.mp hx]; exact Or.inl rfl
    · rcases List.mem_append.mp hx with hx | hx
      · rcases hmidn x hx with h | h | h
        · exact Or.inr (Or.inl h)
        · exact Or.inr (Or.inr (Or.inl h))
        · exact Or.inr (Or.inr (Or.inr (Or.inl h)))
      · rw [List.mem_singleton.mp hx]; exact Or.inr (Or.inr (Or.inr (Or.inr rfl)))
  have hall : ∀ x ∈ [(nIndex, idx)] ++ (mid ++ [(nResponses, respBuf)]),
      utf8Valid x.1 = true ∧ x.1.length < 2 ^ 63 := by
    intro x hx
    rcases hnames x hx with h | h | h | h | h <;> rw [h] <;> exact ⟨by decide +kernel, by decide⟩
  have hsl : (lengthsOf ([(nIndex, idx)] ++ (mid ++ [(nResponses, respBuf)]))).length < 8192 := by
    have := brt_lengthsOf_le ([(nIndex, idx)] ++ (mid ++ [(nResponses, respBuf)])) (by
      intro x hx
      rcases hnames x hx with h | h | h | h | h <;> rw [h] <;> decide)
    simp only [List.length_append, List.length_cons, List.length_nil] at this ⊢
    omega
  -- the prologue
  have hmeta : ∀ fallback, brt_metaTail url parseOk b.version out fallback
      (encodeBytes (lengthsOf ([(nIndex, idx)] ++ (mid ++ [(nResponses, respBuf)]))) ++
        (encodeArrayHeader ([(nIndex, idx)] ++ (mid ++ [(nResponses, respBuf)])).length ++
          ((([(nIndex, idx)] ++ (mid ++ [(nResponses, respBuf)])).map (·.2)).flatten ++ footer))) =
      sectionLoop url parseOk b.version out
        (hdr ++ (encodeBytes (lengthsOf ([(nIndex, idx)] ++ (mid ++ [(nResponses, respBuf)]))) ++
          encodeArrayHeader ([(nIndex, idx)] ++ (mid ++ [(nResponses, respBuf)])).length)).length
        (brt_sos ([(nIndex, idx)] ++ (mid ++ [(nResponses, respBuf)])))
        (brt_sos ([(nIndex, idx)] ++ (mid ++ [(nResponses, respBuf)])))
        (hdr ++ (encodeBytes (lengthsOf ([(nIndex, idx)] ++ (mid ++ [(nResponses, respBuf)]))) ++
          encodeArrayHeader ([(nIndex, idx)] ++ (mid ++ [(nResponses, respBuf)])).length)).length
        { version := b.version, primaryURL := fallback, manifestURL := none, signatures := none, requests := [] } := by
    intro fallback
    have := brt_metaTail_sections url parseOk b.version fallback hdr ([(nIndex, idx)] ++ mid) respBuf footer
      (by rw [List.append_assoc]; exact hall) (by rw [List.append_assoc]; exact hndp0)
      (by rw [List.append_assoc]; exact hsl) (by rw [List.append_assoc, ← ho']; exact hlen)
    rw [List.append_assoc, ← ho'] at this
    exact this
  have hload : ∃ fallback, (mid = [] ∨ b.version = .b1 → fallback = b.primaryURL) ∧
      (b.version = .b2 → fallback = none) ∧
      loadMetadata url parseOk out = brt_metaTail url parseOk b.version out fallback
        (encodeBytes (lengthsOf ([(nIndex, idx)] ++ (mid ++ [(nResponses, respBuf)]))) ++
          (encodeArrayHeader ([(nIndex, idx)] ++ (mid ++ [(nResponses, respBuf)])).length ++
            ((([(nIndex, idx)] ++ (mid ++ [(nResponses, respBuf)])).map (·.2)).flatten ++ footer))) := by
    rcases brt_headOf b hdr h6 with ⟨hv, rfl⟩ | ⟨hv, u, t, hu, ht, rfl⟩
    · refine ⟨none, ?_, fun _ => rfl, ?_⟩
      · intro hc
        rcases hc with hc | hc
        · have : p = [] := by
            rw [← hmid] at hc
            exact (List.append_eq_nil_iff.mp hc).1
          exact (hpE this hv).symm
        · rw [hv] at hc; cases hc
      · rw [hv]
        exact brt_loadMetadata_b2 url parseOk out _ (by rw [ho']; exact brt_parseMagic_b2 _)
    · refine ⟨some u, fun _ => hu.symm, fun hc => (by rw [hv] at hc; cases hc), ?_⟩
      obtain ⟨frag, user, abs, hurl⟩ := hd.primaryOk u hu
      obtain ⟨hul, _⟩ := brt_encodeText_len u t ht
      have hl := congrArg List.length ho'
      simp only [List.length_append] at hl
      rw [hv]
      refine brt_loadMetadata_b1 url parseOk out (t ++ _) u _ u frag user abs
        (by rw [ho', List.append_assoc]; exact brt_parseMagic_b1 _)
        (C12.roundtrip_text u t (by omega) ht _) hurl
  obtain ⟨fallback, hfb1, hfb2, hload⟩ := hload
  rw [hmeta] at hload
  clear hmeta
  generalize hPRE : hdr ++ (encodeBytes (lengthsOf ([(nIndex, idx)] ++ (mid ++ [(nResponses, respBuf)]))) ++
      encodeArrayHeader ([(nIndex, idx)] ++ (mid ++ [(nResponses, respBuf)])).length) = PRE at hload
  have hout : out = PRE ++ (idx ++ ((mid.map (·.2)).flatten ++ (respBuf ++ footer))) := by
    rw [ho', ← hPRE]
    simp only [List.append_assoc, List.map_append, List.map_cons, List.map_nil, List.flatten_append,
      List.flatten_cons, List.flatten_nil, List.append_nil, List.cons_append, List.nil_append]
  have houtl := congrArg List.length hout
  simp only [List.length_append] at houtl
  -- the index
  have hsosE : brt_sos ([(nIndex, idx)] ++ (mid ++ [(nResponses, respBuf)])) =
      brt_sos ([(nIndex, idx)] ++ mid) ++ { name := nResponses, length := respBuf.length } :: [] := by
    simp [brt_sos]
  have hlenpre : lenSum (brt_sos ([(nIndex, idx)] ++ mid)) = idx.length + (mid.map (·.2)).flatten.length := by
    rw [brt_lenSum_sos]
    simp
  have hinL : ∀ t ∈ L, t.2.2 + t.2.1.length ≤ respBuf.length := by
    intro t ht
    obtain ⟨_, _, A, B, e, eA⟩ := l4 t ht
    have := congrArg List.length e
    simp only [List.length_append] at this
    omega
  rw [hv, l2] at h2
  obtain ⟨gs, hgsP, hgsS, hgsV, hpi⟩ := bvr_index_core url idx PRE.length (brt_sos ([(nIndex, idx)] ++ mid))
    respBuf.length [] L (by
      intro so hso
      obtain ⟨x, hx, rfl⟩ := List.mem_map.mp hso
      intro hc
      have hnd' := hndp0
      rw [← List.append_assoc, List.map_append, List.nodup_append] at hnd'
      exact hnd'.2.2 x.1 (List.mem_map.mpr ⟨x, hx, rfl⟩) nResponses (by simp) hc)
    (by rw [hlenpre]; omega)
    (by
      intro t ht
      have hmem : t.1 ∈ b.exchanges := by rw [← l1]; exact List.mem_map.mpr ⟨t, ht, rfl⟩
      obtain ⟨isAbs, hu⟩ := hd.urlsOk t.1 hmem
      unfold indexUrl
      rw [hu]
      rfl)
    hinL
    (by
      intro t ht hcnt
      have hmem : t.1 ∈ b.exchanges := by rw [← l1]; exact List.mem_map.mpr ⟨t, ht, rfl⟩
      apply hd.singleKey t.1 hmem
      rw [← l1, List.filter_map, List.length_map]
      exact hcnt)
    h2 (by omega)
  rw [hlenpre] at hpi
  have hpi' : parseIndex url b.version idx PRE.length
      (brt_sos ([(nIndex, idx)] ++ mid) ++ [({ name := nResponses, length := respBuf.length } : SectionOffset)]) =
      some (gs.flatten.map (brt_reqOf (PRE.length + (idx.length + (mid.map (·.2)).flatten.length)))) := by
    rw [hv]; exact hpi
  clear hpi
  refine ⟨L, gs, PRE.length + (idx.length + (mid.map (·.2)).flatten.length), l1, hgsP, hgsS, hgsV, ?_, ?_⟩
  · intro t ht
    obtain ⟨a1, _, A, B, e, eA⟩ := l4 t ht
    have := hinL t ht
    refine ⟨a1, by omega, ?_⟩
    have e2 : out = (PRE ++ idx ++ (mid.map (·.2)).flatten ++ A) ++ t.2.1 ++ (B ++ footer) := by
      rw [hout, e]; simp only [List.append_assoc]
    rw [e2]
    exact brt_drop_take _ _ _ _ (by simp only [List.length_append]; omega)
  · -- the section loop
    have hxlen : ∀ x ∈ mid, x.2.length < 2 ^ 63 := by
      intro x hx
      have := Sxg.length_le_flatten _ _ (List.mem_map.mpr ⟨x, hx, rfl⟩ : x.2 ∈ mid.map (·.2))
      omega
    have hpP : ∀ x ∈ p, x.1 = nPrimary ∧ parseUrlSection url x.2 = b.primaryURL := by
      intro x hx
      obtain ⟨hn, u, hu, he, hv2⟩ := hpF x hx
      rw [hv] at hv2
      cases hv2
    have hmP : ∀ x ∈ m, x.1 = nManifest ∧ parseUrlSection url x.2 = b.manifestURL := by
      intro x hx
      obtain ⟨hn, u, hu, he⟩ := hmF x hx
      refine ⟨hn, ?_⟩
      have hxl := hxlen x (by rw [← hmid]; exact List.mem_append_right _ (List.mem_append_left _ hx))
      have := brt_encodeText_len u x.2 he
      rw [hu]
      exact brt_parseUrlSection url u x.2 he (by omega) (hd.manifestOk u hu)
    have hsP : ∀ x ∈ s, x.1 = nSignatures ∧ parseSignatures parseOk x.2 = b.signatures := by
      intro x hx
      obtain ⟨hn, sg, hu, he⟩ := hsF x hx
      refine ⟨hn, ?_⟩
      have hxl := hxlen x (by rw [← hmid]; exact List.mem_append_right _ (List.mem_append_right _ hx))
      rw [hu]
      exact brt_parseSignatures_encode parseOk sg x.2 he hxl (hd.certsOk sg hu) (hd.authIdx sg hu)
    have hsecok : ∀ x ∈ mid, brt_SecOk url parseOk x := by
      intro x hx
      rw [← hmid] at hx
      rcases List.mem_append.mp hx with hx | hx
      · obtain ⟨hn, u, hu, _⟩ := hpF x hx
        exact Or.inl ⟨hn, u, by rw [(hpP x hx).2, hu]⟩
      · rcases List.mem_append.mp hx with hx | hx
        · obtain ⟨hn, u, hu, _⟩ := hmF x hx
          exact Or.inr (Or.inl ⟨hn, u, by rw [(hmP x hx).2, hu]⟩)
        · obtain ⟨hn, sg, hu, _⟩ := hsF x hx
          exact Or.inr (Or.inr ⟨hn, sg, by rw [(hsP x hx).2, hu]⟩)
    have hc1 : (out.drop PRE.length).take idx.length = idx := by
      rw [hout, ← List.append_assoc]
      exact brt_drop_take PRE idx _ _ rfl
    rw [hload, hsosE]
    have e : brt_sos ([(nIndex, idx)] ++ mid) ++ [({ name := nResponses, length := respBuf.length } : SectionOffset)] =
        { name := nIndex, length := idx.length } ::
          (brt_sos mid ++ [({ name := nResponses, length := respBuf.length } : SectionOffset)]) := by
      simp [brt_sos]
    rw [e] at hpi' ⊢
    rw [brt_step_index url parseOk b.version out PRE.length _ _ _ PRE.length _ _ rfl (by dsimp only; omega)
      (by omega) (by dsimp only; rw [hc1]; exact hpi')]
    have hmidloop := brt_loop_mid url parseOk b.version out PRE.length
      ({ name := nIndex, length := idx.length } ::
        (brt_sos mid ++ [({ name := nResponses, length := respBuf.length } : SectionOffset)]))
      (respBuf ++ footer) [{ name := nResponses, length := respBuf.length }]
      (by rw [List.length_append]; omega) (by omega) mid (PRE ++ idx)
      { version := b.version, primaryURL := fallback, manifestURL := none, signatures := none,
        requests := gs.flatten.map (brt_reqOf (PRE.length + (idx.length + (mid.map (·.2)).flatten.length))) }
      (by rw [hout]; simp only [List.append_assoc]) hsecok
    rw [List.length_append] at hmidloop
    dsimp only
    rw [hmidloop, brt_step_responses _ _ _ _ _ _ _ _ _ _ rfl, sectionLoop]
    -- the accumulated metadata
    rw [← hmid, List.foldl_append, List.foldl_append, brt_foldl_primary url parseOk b.primaryURL p _ hpP,
      brt_foldl_manifest url parseOk b.manifestURL m _ hmP, brt_foldl_sigs url parseOk b.signatures s _ hsP]
    have f1 : (if p.isEmpty = true then fallback else b.primaryURL) = b.primaryURL := by
      cases p with
      | nil =>
        cases hv : b.version with
        | b1 => exact hfb1 (Or.inr hv)
        | b2 => rw [hfb2 hv, hpE rfl hv]; rfl
      | cons x tl => rfl
    have f2 : (if m.isEmpty = true then (none : Option Bytes) else b.manifestURL) = b.manifestURL := by
      cases m with
      | nil => rw [hmE rfl]; rfl
      | cons x tl => rfl
    have f3 : (if s.isEmpty = true then (none : Option Sigs) else b.signatures) = b.signatures := by
      cases s with
      | nil => rw [hsE rfl]; rfl
      | cons x tl => rfl
    dsimp only
    rw [f1, f2, f3]

/-! ### g. the round trip -/

/-- **write → read round trip for b1 bundles with variant groups** (single-key Variant-Key values).  Reading what
    `WriteTo` wrote gives back version, primary URL, manifest URL and signatures, and the exchanges in the order
    `groups.flatten`, where
    * `groups.flatten` is a rearrangement of the written exchanges (nothing dropped, repeated, or attributed to
      another URL), and the `i`-th exchange read corresponds to the `i`-th of `groups.flatten` as in `bfp_read_write`
      (same URL, status, body; header fields normalised, in normal form);
    * the groups come in index-map order: strictly ascending encoded URL (so different groups have different URLs:
      all representations of a URL are adjacent);
    * every group is a `VariantGroup`: one URL, and if it has several members they share one non-empty Variants value
      `V`, there is exactly one member per possible key of `V`, and the `i`-th member is the representation whose
      Variant-Key is `possibleKeyAt V i`, i.e. the members come back in row-major order of the Variants axes. -/
theorem read_write_b1_variants (url : BUrlFacts) (parseOk : Bytes → Bool) (b : Bundle) (out : Bytes)
    (hv : b.version = .b1) (hd : VDom url parseOk b) (hw : write b = .ok (.ok out)) (hlen : out.length < 2 ^ 63) :
    ∃ (b' : Bundle) (groups : List (List Exch)), read url parseOk out = .ok b' ∧ b'.version = .b1 ∧
      b'.primaryURL = b.primaryURL ∧ b'.manifestURL = b.manifestURL ∧ b'.signatures = b.signatures ∧
      groups.flatten.Perm b.exchanges ∧
      Forall₂ bfp_Back groups.flatten b'.exchanges ∧
      groups.Pairwise (fun g1 g2 => ∀ e1 ∈ g1, ∀ e2 ∈ g2, blt (tstr e1.url) (tstr e2.url) = true) ∧
      ∀ g ∈ groups, VariantGroup g := by
  obtain ⟨L, gs, respOff, l1, hσ, hsorted, hvg, hL, hmeta⟩ := bvr_loadMetadata_write url parseOk b out hv hd hw hlen
  have hone : ∀ t ∈ gs.flatten, ∃ hs, loadResponse (brt_reqOf respOff t) out =
      .ok { status := t.1.resp.status, headers := hs, body := t.1.resp.body } ∧
      hs.Perm (t.1.resp.headers.map Sxg.normField) ∧ bfp_NormH hs := by
    intro t ht
    have htL := hσ.subset ht
    obtain ⟨a1, a2, a3⟩ := hL t htL
    have hmem : t.1 ∈ b.exchanges := by rw [← l1]; exact List.mem_map.mpr ⟨t, htL, rfl⟩
    exact bfp_loadResponse_encodeResponse t.1.resp t.2.1 t.1.url (respOff + t.2.2) out
      ⟨hd.status t.1 hmem, hd.hdrAscii t.1 hmem⟩ a1 a3 a2 hlen
  obtain ⟨es, hlr, hf⟩ := brt_loadResponses out (gs.flatten.map (brt_reqOf respOff)) [] (by
    intro r hr
    obtain ⟨t, ht, rfl⟩ := List.mem_map.mp hr
    obtain ⟨hs, h1, _⟩ := hone t ht
    exact ⟨_, h1⟩)
  rw [List.nil_append] at hlr
  have hflat : (gs.map (List.map (·.1))).flatten = gs.flatten.map (·.1) := List.map_flatten.symm
  refine ⟨{ version := b.version, primaryURL := b.primaryURL, exchanges := es, manifestURL := b.manifestURL,
            signatures := b.signatures }, gs.map (List.map (·.1)), ?_, hv, rfl, rfl, rfl, ?_, ?_, ?_, ?_⟩
  · unfold read
    rw [hmeta]
    dsimp only
    rw [hlr]
  · rw [hflat, ← l1]; exact hσ.map _
  · rw [hflat]
    refine bfp_forall₂_map_imp (brt_reqOf respOff) (·.1) gs.flatten es ?_ hf
    intro t ht e ⟨hu, hr⟩
    obtain ⟨hs, hl, hperm, hnorm⟩ := hone t ht
    rw [hl] at hr
    injection hr with hr
    refine ⟨hu, ?_, ?_, ?_, ?_⟩
    · rw [← hr]
    · rw [← hr]
    · rw [← hr]; exact hperm
    · rw [← hr]; exact hnorm
  · rw [List.pairwise_map]
    refine hsorted.imp ?_
    intro g1 g2 h12 e1 he1 e2 he2
    obtain ⟨t1, ht1, rfl⟩ := List.mem_map.mp he1
    obtain ⟨t2, ht2, rfl⟩ := List.mem_map.mp he2
    exact h12 t1 ht1 t2 ht2
  · intro g hg
    obtain ⟨g0, hg0, rfl⟩ := List.mem_map.mp hg
    exact hvg g0 hg0

/-! ### h. incomplete or overlapping coverage is refused (any number of keys per Variant-Key value) -/

/-- the keys an entry claims -/
def bvr_keysOf (e : IndexEntry) : List (List Bytes) := (parseListOfStringLists e.variantKey).getD []

/-- all the keys claimed by the entries of a group, with multiplicity -/
def bvr_claims (es : List IndexEntry) : List (List Bytes) := (es.map bvr_keysOf).flatten

/-- slot invariant without assumption on the number of keys per entry: exactly the slots of the claimed keys are
    filled, and no key was claimed twice -/
def bvr_GSlots (variants : List (List Bytes)) (num : Nat) (claimed : List (List Bytes))
    (r : List (Option IndexEntry)) : Prop :=
  r.length = num ∧
  (∀ vk ∈ claimed, ∃ i x, indexInPossibleKeys variants vk = some i ∧ r[i]? = some (some x)) ∧
  (∀ i x, r[i]? = some (some x) → ∃ vk ∈ claimed, indexInPossibleKeys variants vk = some i) ∧
  claimed.Nodup

theorem bvr_placeKey_step (variants : List (List Bytes)) (num : Nat) (hnum : num = keyCount variants)
    (e : IndexEntry) (claimed : List (List Bytes)) (r r' : List (Option IndexEntry)) (vk : List Bytes)
    (hr : bvr_GSlots variants num claimed r) (h : placeKey variants e (some r) vk = some r') :
    bvr_GSlots variants num (claimed ++ [vk]) r' := by
  obtain ⟨h1, h2, h3, h4⟩ := hr
  unfold placeKey at h
  dsimp only at h
  cases hi : indexInPossibleKeys variants vk with
  | none => simp only [hi] at h; cases h
  | some i =>
    simp only [hi] at h
    by_cases hs : (r.getD i none).isSome = true
    · rw [if_pos hs] at h; cases h
    · rw [if_neg hs] at h
      injection h with h
      subst h
      have hlt : i < r.length := by
        rw [h1, hnum]; exact indexInPossibleKeys_lt variants vk i hi
      have hnone : ∀ x, r[i]? ≠ some (some x) := by
        intro x hx
        rw [List.getD_eq_getElem?_getD, hx] at hs
        exact hs rfl
      refine ⟨by rw [List.length_set]; exact h1, ?_, ?_, ?_⟩
      · intro vk' hvk'
        rcases List.mem_append.mp hvk' with hvk' | hvk'
        · obtain ⟨i', x, a1, a2⟩ := h2 vk' hvk'
          have hne : i ≠ i' := by
            intro hc; subst hc; exact hnone x a2
          exact ⟨i', x, a1, by rw [List.getElem?_set_ne hne]; exact a2⟩
        · rw [List.mem_singleton.mp hvk']
          exact ⟨i, e, hi, List.getElem?_set_self hlt⟩
      · intro j x hj
        by_cases hij : i = j
        · subst hij
          exact ⟨vk, by simp, hi⟩
        · rw [List.getElem?_set_ne hij] at hj
          obtain ⟨vk', a1, a2⟩ := h3 j x hj
          exact ⟨vk', List.mem_append_left _ a1, a2⟩
      · rw [List.nodup_append]
        refine ⟨h4, by simp, ?_⟩
        intro a ha c hc hac
        rw [List.mem_singleton.mp hc] at hac
        subst hac
        obtain ⟨i', x, a1, a2⟩ := h2 a ha
        rw [hi] at a1
        injection a1 with a1
        subst a1
        exact hnone x a2

theorem bvr_foldl_placeKey (variants : List (List Bytes)) (num : Nat) (hnum : num = keyCount variants)
    (e : IndexEntry) : ∀ (vks claimed : List (List Bytes)) (r r' : List (Option IndexEntry)),
    bvr_GSlots variants num claimed r → vks.foldl (placeKey variants e) (some r) = some r' →
    bvr_GSlots variants num (claimed ++ vks) r' := by
  intro vks
  induction vks with
  | nil =>
    intro claimed r r' hr h
    rw [List.foldl_nil] at h
    injection h with h
    subst h
    rw [List.append_nil]; exact hr
  | cons vk vks ih =>
    intro claimed r r' hr h
    rw [List.foldl_cons] at h
    cases hs : placeKey variants e (some r) vk with
    | none => rw [hs, foldl_placeKey_none] at h; cases h
    | some r1 =>
      rw [hs] at h
      have := ih (claimed ++ [vk]) r1 r' (bvr_placeKey_step variants num hnum e claimed r r1 vk hr hs) h
      rw [List.append_assoc] at this
      exact this

theorem bvr_foldl_placeEntry_gen (variants : List (List Bytes)) (first : IndexEntry) (num : Nat)
    (hnum : num = keyCount variants) : ∀ (es : List IndexEntry) (claimed : List (List Bytes))
    (r r' : List (Option IndexEntry)),
    bvr_GSlots variants num claimed r → es.foldl (placeEntry variants first) (some r) = some r' →
    bvr_GSlots variants num (claimed ++ bvr_claims es) r' ∧
      ∀ e ∈ es, e.variants = first.variants ∧ ∃ vks, parseListOfStringLists e.variantKey = some vks := by
  intro es
  induction es with
  | nil =>
    intro claimed r r' hr h
    rw [List.foldl_nil] at h
    injection h with h
    subst h
    refine ⟨?_, by simp⟩
    simp only [bvr_claims, List.map_nil, List.flatten_nil, List.append_nil]
    exact hr
  | cons e es ih =>
    intro claimed r r' hr h
    rw [List.foldl_cons] at h
    cases hs : placeEntry variants first (some r) e with
    | none => rw [hs, foldl_placeEntry_none] at h; cases h
    | some r1 =>
      rw [hs] at h
      unfold placeEntry at hs
      dsimp only at hs
      by_cases hc : e.variants ≠ first.variants
      · rw [if_pos hc] at hs; cases hs
      · rw [if_neg hc] at hs
        cases hp : parseListOfStringLists e.variantKey with
        | none => simp only [hp] at hs; cases hs
        | some vks =>
          simp only [hp] at hs
          have hk : bvr_keysOf e = vks := by unfold bvr_keysOf; rw [hp]; rfl
          obtain ⟨i1, i2⟩ := ih (claimed ++ vks) r1 r' (bvr_foldl_placeKey variants num hnum e vks claimed r r1 hr hs) h
          refine ⟨?_, ?_⟩
          · have : claimed ++ bvr_claims (e :: es) = claimed ++ vks ++ bvr_claims es := by
              simp only [bvr_claims, List.map_cons, List.flatten_cons, hk, List.append_assoc]
            rw [this]; exact i1
          · intro x hx
            rcases List.mem_cons.mp hx with rfl | hx
            · exact ⟨Classical.byContradiction hc, vks, hp⟩
            · exact i2 x hx

/-- what the writer checked when `entriesInPossibleKeyOrder` succeeds, whatever the number of keys per entry: every
    entry carries the (non-empty, parsable) Variants value of the first one and a parsable Variant-Key; no possible
    key is claimed twice (**no overlap**); every claimed key is a possible key; and every possible key index below the
    number of possible keys is claimed (**complete coverage**) -/
theorem bvr_coverage_exact (es out : List IndexEntry) (h : entriesInPossibleKeyOrder es = some out) :
    ∃ first variants num, es.head? = some first ∧ first.variants.isEmpty = false ∧
      parseListOfStringLists first.variants = some variants ∧ numberOfPossibleKeys variants 1 = some num ∧
      (∀ e ∈ es, e.variants = first.variants ∧ ∃ vks, parseListOfStringLists e.variantKey = some vks) ∧
      (bvr_claims es).Nodup ∧
      (∀ vk ∈ bvr_claims es, ∃ i, i < num ∧ indexInPossibleKeys variants vk = some i ∧
        possibleKeyAt variants i = some vk) ∧
      (∀ i, i < num → ∃ vk ∈ bvr_claims es, indexInPossibleKeys variants vk = some i ∧
        possibleKeyAt variants i = some vk) := by
  rw [entriesInPossibleKeyOrder_eq] at h
  cases es with
  | nil => cases h
  | cons first rest =>
    dsimp only at h
    by_cases h0 : first.variants.isEmpty = true
    · rw [if_pos h0] at h; cases h
    · rw [if_neg h0] at h
      cases h1 : parseListOfStringLists first.variants with
      | none => simp only [h1] at h; cases h
      | some variants =>
        simp only [h1] at h
        cases h2 : numberOfPossibleKeys variants 1 with
        | none => simp only [h2] at h; cases h
        | some num =>
          simp only [h2] at h
          cases h3 : (first :: rest).foldl (placeEntry variants first) (some (List.replicate num none)) with
          | none => simp only [h3] at h; cases h
          | some res =>
            simp only [h3] at h
            obtain ⟨hn1, _, _⟩ := numberOfPossibleKeys_eq variants num h2
            have hinit : bvr_GSlots variants num [] (List.replicate num none) := by
              refine ⟨List.length_replicate, by simp, ?_, List.nodup_nil⟩
              intro i e hi
              exfalso
              have := List.eq_of_mem_replicate (List.mem_of_getElem? hi)
              cases this
            obtain ⟨⟨s1, s2, s3, s4⟩, s5⟩ :=
              bvr_foldl_placeEntry_gen variants first num hn1 (first :: rest) [] _ res hinit h3
            rw [List.nil_append] at s2 s3 s4
            have hres := bvr_mapM_id res out h
            subst hres
            rw [List.length_map] at s1
            refine ⟨first, variants, num, rfl, by simpa using h0, h1, h2, s5, s4, ?_, ?_⟩
            · intro vk hvk
              obtain ⟨i, _, a1, _⟩ := s2 vk hvk
              exact ⟨i, by rw [hn1]; exact indexInPossibleKeys_lt variants vk i a1, a1,
                bvr_possibleKeyAt_of_index variants vk i a1⟩
            · intro i hi
              obtain ⟨vk, a1, a2⟩ := s3 i out[i] (by
                rw [List.getElem?_map, List.getElem?_eq_getElem (by omega)]; rfl)
              exact ⟨vk, a1, a2, bvr_possibleKeyAt_of_index variants vk i a2⟩

/-- **overlap is refused**: if two claims (of different entries or of the same one) name the same key, the group is
    not accepted -/
theorem bvr_overlap_refused (es : List IndexEntry) (h : ¬ (bvr_claims es).Nodup) : entriesInPossibleKeyOrder es = none := by
  cases ho : entriesInPossibleKeyOrder es with
  | none => rfl
  | some out =>
    obtain ⟨_, _, _, _, _, _, _, _, hn, _⟩ := bvr_coverage_exact es out ho
    exact absurd hn h

/-- **incomplete coverage is refused**: if some possible key of the Variants value of the first entry is claimed by no
    entry, the group is not accepted -/
theorem bvr_incomplete_refused (es : List IndexEntry) (first : IndexEntry) (variants : List (List Bytes)) (num i : Nat)
    (hf : es.head? = some first) (hp : parseListOfStringLists first.variants = some variants)
    (hn : numberOfPossibleKeys variants 1 = some num) (hi : i < num)
    (h : ∀ vk ∈ bvr_claims es, indexInPossibleKeys variants vk ≠ some i) : entriesInPossibleKeyOrder es = none := by
  cases ho : entriesInPossibleKeyOrder es with
  | none => rfl
  | some out =>
    exfalso
    obtain ⟨first', variants', num', a1, _, a3, a4, _, _, _, a8⟩ := bvr_coverage_exact es out ho
    rw [hf] at a1
    injection a1 with a1
    subst a1
    rw [hp] at a3
    injection a3 with a3
    subst a3
    rw [hn] at a4
    injection a4 with a4
    subst a4
    obtain ⟨vk, b1, b2, _⟩ := a8 i hi
    exact h vk b1 b2

theorem bvr_mapM_none {α β : Type} (f : α → Option β) : ∀ (l : List α) (a : α), a ∈ l → f a = none → l.mapM f = none := by
  intro l
  induction l with
  | nil => intro a ha; cases ha
  | cons x l ih =>
    intro a ha h
    rw [List.mapM_cons]
    rcases List.mem_cons.mp ha with rfl | ha
    · rw [h]; rfl
    · cases hx : f x with
      | none => rfl
      | some y => rw [ih a ha h]; rfl

/-- a variant group that `entriesInPossibleKeyOrder` rejects makes `Finalize` fail: the error of `WriteTo`, or the
    panic on a URL that is not valid UTF-8, which comes first -/
theorem bvr_finalize_refuses (entries : List IndexEntry) (g : Bytes × List IndexEntry)
    (hg : g ∈ groupByUrl entries []) (hl : 1 < g.2.length) (h : entriesInPossibleKeyOrder g.2 = none) :
    finalizeIndex .b1 entries = .ok (.error .variants) ∨ finalizeIndex .b1 entries = .panic := by
  rw [finalizeIndex_b1_eq]
  by_cases h1 : (groupByUrl entries []).any (fun g => !utf8Valid g.1) = true
  · rw [if_pos h1]
    have h2 : ¬ (BVer.b1 = .b2 ∧ (groupByUrl entries []).any (fun g => decide (g.2.length > 1)) = true) :=
      fun hc => by cases hc.1
    rw [if_neg h2]
    exact Or.inr rfl
  · rw [if_neg h1]
    have : buildB1 g = none := by
      unfold buildB1
      rw [if_pos hl, h]
    rw [bvr_mapM_none buildB1 _ g hg this]
    exact Or.inl rfl

/-- the keys claimed by the exchanges of a URL group, with multiplicity -/
def exClaims (g : List Exch) : List (List Bytes) :=
  (g.map fun e => (parseListOfStringLists (exVariantKey e)).getD []).flatten

/-- **what `WriteTo` checked** for every URL of a b1 bundle with more than one representation: all representations
    carry the same non-empty parsable Variants value and a parsable Variant-Key; the claimed keys are possible keys,
    pairwise distinct (no overlap), and every possible key is claimed (complete coverage).  Contrapositive: a bundle
    with an incomplete or overlapping variant set is not written. -/
theorem write_b1_variants_checked (b : Bundle) (out : Bytes) (hv : b.version = .b1) (hw : write b = .ok (.ok out))
    (u : Bytes) (hl : 1 < (b.exchanges.filter (fun e => e.url == u)).length) :
    ∃ V variants num, V ≠ [] ∧
      (∀ e ∈ b.exchanges.filter (fun e => e.url == u), exVariants e = V ∧
        ∃ vks, parseListOfStringLists (exVariantKey e) = some vks) ∧
      parseListOfStringLists V = some variants ∧ numberOfPossibleKeys variants 1 = some num ∧
      (exClaims (b.exchanges.filter (fun e => e.url == u))).Nodup ∧
      (∀ vk ∈ exClaims (b.exchanges.filter (fun e => e.url == u)), ∃ i, i < num ∧
        indexInPossibleKeys variants vk = some i ∧ possibleKeyAt variants i = some vk) ∧
      (∀ i, i < num → ∃ vk ∈ exClaims (b.exchanges.filter (fun e => e.url == u)),
        indexInPossibleKeys variants vk = some i ∧ possibleKeyAt variants i = some vk) := by
  obtain ⟨respBuf, entries, idx, p, m, s, hdr, h1, h2, _⟩ := write_ok b out hw
  obtain ⟨L, tail, l1, l2, _, _⟩ := brt_addExchanges _ _ _ _ _ h1
  rw [List.nil_append] at l2
  rw [hv, l2] at h2
  obtain ⟨_, mes, hmes, _⟩ := finalizeIndex_b1 _ idx h2
  obtain ⟨_, g2, g3⟩ := bvr_groupByUrl_spec (L.map brt_toEntry)
  -- the exchanges and the entries of the URL
  have hE : b.exchanges.filter (fun e => e.url == u) = (L.filter (fun t => t.1.url == u)).map (·.1) := by
    rw [← l1, List.filter_map]; rfl
  have hG : (L.map brt_toEntry).filter (fun e => e.url == u) = (L.filter (fun t => t.1.url == u)).map brt_toEntry := by
    rw [List.filter_map]; rfl
  rw [hE] at hl ⊢
  rw [List.length_map] at hl
  -- its group
  obtain ⟨t0, ht0⟩ : ∃ t0, t0 ∈ L.filter (fun t => t.1.url == u) := by
    cases hx : L.filter (fun t => t.1.url == u) with
    | nil => rw [hx] at hl; simp at hl
    | cons a l => exact ⟨a, by simp⟩
  have hmem0 : brt_toEntry t0 ∈ L.map brt_toEntry := List.mem_map.mpr ⟨t0, (List.mem_filter.mp ht0).1, rfl⟩
  obtain ⟨gl, hgl, hin⟩ := List.mem_flatten.mp (g3.symm.subset hmem0)
  obtain ⟨g, hg, rfl⟩ := List.mem_map.mp hgl
  have hgu : g.1 = u := by
    rw [(g2 g hg).1] at hin
    have h3 := (List.mem_filter.mp hin).2
    have h4 := (List.mem_filter.mp ht0).2
    have e1 : (brt_toEntry t0).url = g.1 := by simpa using h3
    have e2 : t0.1.url = u := by simpa using h4
    rw [← e1, ← e2]; rfl
  have hg2 : g.2 = (L.filter (fun t => t.1.url == u)).map brt_toEntry := by
    rw [(g2 g hg).1, hgu, hG]
  obtain ⟨_, hb⟩ := mapM_some_mem buildB1 _ mes hmes
  have hsome : ∃ es, entriesInPossibleKeyOrder g.2 = some es := by
    cases ho : entriesInPossibleKeyOrder g.2 with
    | some es => exact ⟨es, rfl⟩
    | none =>
      exfalso
      have hgl1 : 1 < g.2.length := by rw [hg2, List.length_map]; exact hl
      have : buildB1 g = none := by
        unfold buildB1
        rw [if_pos hgl1, ho]
      rw [bvr_mapM_none buildB1 _ g hg this] at hmes
      cases hmes
  obtain ⟨es, ho⟩ := hsome
  obtain ⟨first, variants, num, c1, c2, c3, c4, c5, c6, c7, c8⟩ := bvr_coverage_exact g.2 es ho
  have hclaims : bvr_claims g.2 = exClaims ((L.filter (fun t => t.1.url == u)).map (·.1)) := by
    rw [hg2]
    unfold bvr_claims exClaims
    rw [List.map_map, List.map_map]
    rfl
  rw [hclaims] at c6 c7 c8
  refine ⟨first.variants, variants, num, ?_, ?_, c3, c4, c6, c7, c8⟩
  · intro hc
    rw [hc] at c2
    cases c2
  · intro e he
    obtain ⟨t, ht, rfl⟩ := List.mem_map.mp he
    exact c5 (brt_toEntry t) (by rw [hg2]; exact List.mem_map.mpr ⟨t, ht, rfl⟩)

/-! ### i. corollaries -/

/-- the position of a member of a variant group is the row-major number `Σ_j d_j * Π_{k>j} size_k` of its key, where
    `d_j` is the position of the `j`-th component of the key among the possible values of the `j`-th axis (the first
    axis is the most significant) -/
theorem VariantGroup.position {g : List Exch} (h : VariantGroup g) (hl : 1 < g.length) :
    ∃ variants, (∀ e ∈ g, parseListOfStringLists (exVariants e) = some variants) ∧
      ∀ i (hi : i < g.length), ∃ vk, parseListOfStringLists (exVariantKey g[i]) = some [vk] ∧
        KeyIn variants vk ∧ i = _root_.WebPkg.Bundle.rowMajor variants (digitsOf variants vk) := by
  obtain ⟨V, variants, _, a2, a3, _, a5⟩ := h.rowMajor hl
  refine ⟨variants, fun e he => by rw [a2 e he]; exact a3, ?_⟩
  intro i hi
  obtain ⟨vk, b1, b2, _⟩ := a5 i hi
  obtain ⟨c1, c2⟩ := indexInPossibleKeys_rowMajor variants vk i b2
  exact ⟨vk, b1, c1, c2⟩

/-- with groups of one URL each in strictly ascending URL order, the exchanges of a URL are exactly one group -/
theorem bvr_filter_groups : ∀ (groups : List (List Exch)),
    groups.Pairwise (fun g1 g2 => ∀ e1 ∈ g1, ∀ e2 ∈ g2, blt (tstr e1.url) (tstr e2.url) = true) →
    (∀ g ∈ groups, ∀ e ∈ g, ∀ e' ∈ g, e.url = e'.url) → ∀ (u : Bytes),
    groups.flatten.filter (fun e => e.url == u) = [] ∨ groups.flatten.filter (fun e => e.url == u) ∈ groups := by
  intro groups
  induction groups with
  | nil => intro _ _ u; exact Or.inl rfl
  | cons g gs ih =>
    intro hp hs u
    rw [List.pairwise_cons] at hp
    rw [List.flatten_cons, List.filter_append]
    by_cases hex : ∃ e ∈ g, e.url = u
    · obtain ⟨e, he, heu⟩ := hex
      have h1 : g.filter (fun e => e.url == u) = g := by
        rw [List.filter_eq_self]
        intro x hx
        have := hs g (by simp) x hx e he
        simp [this, heu]
      have h2 : gs.flatten.filter (fun e => e.url == u) = [] := by
        rw [List.filter_eq_nil_iff]
        intro x hx hxu
        obtain ⟨g2, hg2, hx2⟩ := List.mem_flatten.mp hx
        have := hp.1 g2 hg2 e he x hx2
        rw [heu, show x.url = u by simpa using hxu, blt_irrefl] at this
        cases this
      rw [h1, h2, List.append_nil]
      exact Or.inr (by simp)
    · have h1 : g.filter (fun e => e.url == u) = [] := by
        rw [List.filter_eq_nil_iff]
        intro x hx hxu
        exact hex ⟨x, hx, by simpa using hxu⟩
      rw [h1, List.nil_append]
      rcases ih hp.2 (fun g' hg' => hs g' (List.mem_cons_of_mem _ hg')) u with h | h
      · exact Or.inl h
      · exact Or.inr (List.mem_cons_of_mem _ h)

/-- `read_write_b1_variants`, per URL: `σ` is the order in which the exchanges come back; for every URL the
    exchanges of `σ` with that URL form a `VariantGroup` -- in particular, when there are several, they are one per
    possible key of their common Variants value, in row-major order of its axes -/
theorem read_write_b1_variants_byUrl (url : BUrlFacts) (parseOk : Bytes → Bool) (b : Bundle) (out : Bytes)
    (hv : b.version = .b1) (hd : VDom url parseOk b) (hw : write b = .ok (.ok out)) (hlen : out.length < 2 ^ 63) :
    ∃ (b' : Bundle) (σ : List Exch), read url parseOk out = .ok b' ∧ b'.version = .b1 ∧
      b'.primaryURL = b.primaryURL ∧ b'.manifestURL = b.manifestURL ∧ b'.signatures = b.signatures ∧
      σ.Perm b.exchanges ∧ Forall₂ bfp_Back σ b'.exchanges ∧
      ∀ u, σ.filter (fun e => e.url == u) = [] ∨ VariantGroup (σ.filter (fun e => e.url == u)) := by
  obtain ⟨b', groups, h1, h2, h3, h4, h5, h6, h7, h8, h9⟩ := read_write_b1_variants url parseOk b out hv hd hw hlen
  refine ⟨b', groups.flatten, h1, h2, h3, h4, h5, h6, h7, ?_⟩
  intro u
  rcases bvr_filter_groups groups h8 (fun g hg => (h9 g hg).sameUrl) u with h | h
  · exact Or.inl h
  · exact Or.inr (h9 _ h)

/-- a b1 bundle in which two Variant-Key claims of one URL name the same key is not written -/
theorem write_b1_refuses_overlap (b : Bundle) (hv : b.version = .b1) (u : Bytes)
    (hl : 1 < (b.exchanges.filter (fun e => e.url == u)).length)
    (h : ¬ (exClaims (b.exchanges.filter (fun e => e.url == u))).Nodup) (out : Bytes) : write b ≠ .ok (.ok out) := by
  intro hw
  obtain ⟨_, _, _, _, _, _, _, hn, _⟩ := write_b1_variants_checked b out hv hw u hl
  exact h hn

/-- a b1 bundle in which some possible key of the Variants value of a URL with several representations is claimed
    by none of them is not written -/
theorem write_b1_refuses_incomplete (b : Bundle) (hv : b.version = .b1) (u : Bytes)
    (hl : 1 < (b.exchanges.filter (fun e => e.url == u)).length)
    (e0 : Exch) (he0 : e0 ∈ b.exchanges.filter (fun e => e.url == u)) (variants : List (List Bytes)) (num i : Nat)
    (hp : parseListOfStringLists (exVariants e0) = some variants) (hn : numberOfPossibleKeys variants 1 = some num)
    (hi : i < num)
    (h : ∀ vk ∈ exClaims (b.exchanges.filter (fun e => e.url == u)), indexInPossibleKeys variants vk ≠ some i)
    (out : Bytes) : write b ≠ .ok (.ok out) := by
  intro hw
  obtain ⟨V, variants', num', _, a2, a3, a4, _, _, a7⟩ := write_b1_variants_checked b out hv hw u hl
  rw [(a2 e0 he0).1, a3] at hp
  injection hp with hp
  subst hp
  rw [a4] at hn
  injection hn with hn
  subst hn
  obtain ⟨vk, b1, b2, _⟩ := a7 i hi
  exact h vk b1 b2

/-! ### j. non-vacuity: a b1 bundle with one URL in two languages -/

def bvr_exVariants : Bytes :=                               -- "Accept-Language;en;fr"
  [65, 99, 99, 101, 112, 116, 45, 76, 97, 110, 103, 117, 97, 103, 101, 59, 101, 110, 59, 102, 114]
def bvr_exResp (key body : Bytes) : Resp :=
  { status := 200, headers := [(hVariants, [bvr_exVariants]), (hVariantKey, [key])], body := body }
def bvr_exFr : Exch := { url := brt_exUrl, resp := bvr_exResp [102, 114] [98, 111, 110, 106, 111, 117, 114] }
def bvr_exEn : Exch := { url := brt_exUrl, resp := bvr_exResp [101, 110] [104, 101, 108, 108, 111] }
/-- written in the order fr, en -/
def bvr_exBundle : Bundle :=
  { version := .b1, primaryURL := some brt_exUrl, exchanges := [bvr_exFr, bvr_exEn], manifestURL := none,
    signatures := none }

def bvr_exHdrEntries (key : Bytes) : List Entry :=
  (encodeBytes Sxg.keyStatus, encodeBytes (SH.formatInt 200)) ::
    Sxg.headerEntries [(hVariants, [bvr_exVariants]), (hVariantKey, [key])]

def bvr_exHdr (key : Bytes) : Bytes :=
  encodeHead 5 (bvr_exHdrEntries key).length ++ ((bvr_exHdrEntries key).map fun e => e.1 ++ e.2).flatten

theorem bvr_ex_respHeader (key body : Bytes) : encodeRespHeader (bvr_exResp key body) = .ok (bvr_exHdr key) := by
  unfold encodeRespHeader
  refine CertChain.encodeMap_of_sorted (bvr_exHdrEntries key) _ (List.Perm.refl _) ?_ ?_
  · show ([encodeBytes Sxg.keyStatus, encodeBytes (lowerAscii hVariants), encodeBytes (lowerAscii hVariantKey)] : List Bytes).Nodup
    decide +kernel
  · apply CertChain.entryLe_pairwise_of_keys
    show ([encodeBytes Sxg.keyStatus, encodeBytes (lowerAscii hVariants), encodeBytes (lowerAscii hVariantKey)] : List Bytes).Pairwise _
    decide +kernel

def bvr_exEnc (key body : Bytes) : Bytes := encodeArrayHeader 2 ++ encodeBytes (bvr_exHdr key) ++ encodeBytes body

theorem bvr_ex_resp (key body : Bytes) : encodeResponse (bvr_exResp key body) = .ok (bvr_exEnc key body) := by
  unfold encodeResponse
  rw [bvr_ex_respHeader]
  rfl

/-- the writer puts the `en` representation first: `en` is the first possible value of the axis -/
theorem bvr_ex_order (o1 l1 o2 l2 : Nat) :
    entriesInPossibleKeyOrder [⟨brt_exUrl, bvr_exVariants, [102, 114], o1, l1⟩, ⟨brt_exUrl, bvr_exVariants, [101, 110], o2, l2⟩] =
      some [⟨brt_exUrl, bvr_exVariants, [101, 110], o2, l2⟩, ⟨brt_exUrl, bvr_exVariants, [102, 114], o1, l1⟩] := by
  rfl

theorem bvr_ex_finalize (o1 l1 o2 l2 : Nat) :
    finalizeIndex .b1 [⟨brt_exUrl, bvr_exVariants, [102, 114], o1, l1⟩, ⟨brt_exUrl, bvr_exVariants, [101, 110], o2, l2⟩] =
      .ok (.ok (encodeMapHeader 1 ++
        ((bvr_idxG (brt_exUrl, bvr_exVariants, [⟨brt_exUrl, bvr_exVariants, [101, 110], o2, l2⟩, ⟨brt_exUrl, bvr_exVariants, [102, 114], o1, l1⟩])).1 ++
         (bvr_idxG (brt_exUrl, bvr_exVariants, [⟨brt_exUrl, bvr_exVariants, [101, 110], o2, l2⟩, ⟨brt_exUrl, bvr_exVariants, [102, 114], o1, l1⟩])).2))) := by
  have hu : utf8Valid brt_exUrl = true := by decide +kernel
  have hg : groupByUrl [⟨brt_exUrl, bvr_exVariants, [102, 114], o1, l1⟩, ⟨brt_exUrl, bvr_exVariants, [101, 110], o2, l2⟩] [] =
      [(brt_exUrl, [⟨brt_exUrl, bvr_exVariants, [102, 114], o1, l1⟩, ⟨brt_exUrl, bvr_exVariants, [101, 110], o2, l2⟩])] := by
    rfl
  rw [finalizeIndex_b1_eq, hg]
  have ha : ([(brt_exUrl, ([⟨brt_exUrl, bvr_exVariants, [102, 114], o1, l1⟩, ⟨brt_exUrl, bvr_exVariants, [101, 110], o2, l2⟩] : List IndexEntry))].any
      fun g => !utf8Valid g.1) = false := by
    simp [hu]
  rw [ha, if_neg (by decide), List.mapM_cons, List.mapM_nil, bvr_buildB1_eq]
  unfold bvr_wOf
  rw [if_pos (by simp), bvr_ex_order]
  simp only [Option.map, List.headD, pure, bind, Option.bind, brt_encodeMap_single]

theorem bvr_ex_write : ∃ out, write bvr_exBundle = .ok (.ok out) ∧ out.length < 2 ^ 63 := by
  have hu : utf8Valid brt_exUrl = true := by decide +kernel
  have ha : addExchanges bvr_exBundle.exchanges (encodeArrayHeader bvr_exBundle.exchanges.length) [] =
      .ok (encodeArrayHeader 2 ++ bvr_exEnc [102, 114] [98, 111, 110, 106, 111, 117, 114] ++ bvr_exEnc [101, 110] [104, 101, 108, 108, 111],
        [⟨brt_exUrl, bvr_exVariants, [102, 114], (encodeArrayHeader 2).length, (bvr_exEnc [102, 114] [98, 111, 110, 106, 111, 117, 114]).length⟩,
         ⟨brt_exUrl, bvr_exVariants, [101, 110],
           (encodeArrayHeader 2 ++ bvr_exEnc [102, 114] [98, 111, 110, 106, 111, 117, 114]).length,
           (bvr_exEnc [101, 110] [104, 101, 108, 108, 111]).length⟩]) := by
    simp only [bvr_exBundle, bvr_exFr, bvr_exEn, addExchanges, bvr_ex_resp]
    rfl
  rw [write_eq, ha]
  dsimp only
  rw [show bvr_exBundle.version = .b1 from rfl, bvr_ex_finalize]
  dsimp only
  unfold writeTail primarySec manifestSec sigsSec headOf encodeText
  simp only [bvr_exBundle, hu, if_true]
  exact ⟨_, rfl, by decide +kernel⟩

theorem bvr_ex_dom : VDom (fun s => some (false, false, true, s)) (fun _ => true) bvr_exBundle where
  urlsOk := fun _ _ => ⟨true, rfl⟩
  primaryOk := fun _ _ => ⟨false, false, true, rfl⟩
  manifestOk := fun _ _ => rfl
  status := by
    intro e he
    simp only [bvr_exBundle, List.mem_cons, List.not_mem_nil, or_false] at he
    rcases he with rfl | rfl <;> decide
  hdrAscii := by
    intro e he kv hkv
    simp only [bvr_exBundle, List.mem_cons, List.not_mem_nil, or_false] at he
    rcases he with rfl | rfl <;>
      simp only [bvr_exFr, bvr_exEn, bvr_exResp, List.mem_cons, List.not_mem_nil, or_false] at hkv <;>
      rcases hkv with rfl | rfl <;> decide +kernel
  certsOk := by intro s hs; cases hs
  authIdx := by intro s hs; cases hs
  singleKey := by
    intro e he _
    simp only [bvr_exBundle, List.mem_cons, List.not_mem_nil, or_false] at he
    rcases he with rfl | rfl
    · exact ⟨[[102, 114]], rfl⟩
    · exact ⟨[[101, 110]], rfl⟩

/-- the round trip theorem applies to the example, and its ordering clause determines the outcome: the bundle was
    written in the order fr, en and is read back in the order en, fr (`en` is the first possible value of the
    `Accept-Language` axis) -/
theorem bvr_ex_roundtrip : ∃ out b', write bvr_exBundle = .ok (.ok out) ∧
    read (fun s => some (false, false, true, s)) (fun _ => true) out = .ok b' ∧
    b'.exchanges.map (fun e => e.resp.body) = [[104, 101, 108, 108, 111], [98, 111, 110, 106, 111, 117, 114]] := by
  obtain ⟨out, hw, hl⟩ := bvr_ex_write
  obtain ⟨b', σ, h1, _, _, _, _, hperm, hback, hby⟩ :=
    read_write_b1_variants_byUrl _ (fun _ => true) bvr_exBundle out rfl bvr_ex_dom hw hl
  refine ⟨out, b', hw, h1, ?_⟩
  have hperm' : σ.Perm [bvr_exFr, bvr_exEn] := hperm
  have hmem : ∀ e ∈ σ, e = bvr_exFr ∨ e = bvr_exEn := by
    intro e he
    simpa using hperm'.subset he
  have hlen2 : σ.length = 2 := hperm'.length_eq
  have hfil : σ.filter (fun e => e.url == brt_exUrl) = σ := by
    rw [List.filter_eq_self]
    intro e he
    rcases hmem e he with rfl | rfl <;> rfl
  have hvg : VariantGroup σ := by
    rcases hby brt_exUrl with h | h
    · rw [hfil] at h; rw [h] at hlen2; cases hlen2
    · rw [hfil] at h; exact h
  obtain ⟨V, variants, _, a2, a3, _, a5⟩ := hvg.rowMajor (by omega)
  have hV : V = bvr_exVariants := (a2 bvr_exFr (hperm'.symm.subset (by simp))).symm
  subst hV
  have hpv : parseListOfStringLists bvr_exVariants =
      some [[[65, 99, 99, 101, 112, 116, 45, 76, 97, 110, 103, 117, 97, 103, 101], [101, 110], [102, 114]]] := by rfl
  rw [hpv] at a3
  injection a3 with a3
  subst a3
  obtain ⟨vk, b1, _, b3⟩ := a5 0 (by omega)
  have hk : vk = [[101, 110]] := by
    have : possibleKeyAt [[[65, 99, 99, 101, 112, 116, 45, 76, 97, 110, 103, 117, 97, 103, 101], [101, 110], [102, 114]]] 0 =
        some [[101, 110]] := by rfl
    rw [this] at b3
    injection b3 with b3
    exact b3.symm
  subst hk
  match σ, hlen2, hperm', hmem, b1, hback with
  | [x, y], _, hp, hm, b1, hback =>
    have hx : x = bvr_exEn := by
      rcases hm x (by simp) with rfl | rfl
      · exfalso
        have : parseListOfStringLists (exVariantKey bvr_exFr) = some [[[102, 114]]] := by rfl
        simp only [List.getElem_cons_zero] at b1
        rw [this] at b1
        revert b1
        decide
      · rfl
    subst hx
    have hy : y = bvr_exFr := by
      have h2 : [bvr_exEn, y].Perm [bvr_exEn, bvr_exFr] := hp.trans (List.Perm.swap _ _ _)
      have h3 := List.perm_singleton.mp ((List.perm_cons _).mp h2)
      injection h3
    subst hy
    generalize b'.exchanges = ex at hback ⊢
    cases hback with
    | cons r1 hrest =>
      cases hrest with
      | cons r2 hnil =>
        cases hnil
        simp only [List.map_cons, List.map_nil]
        rw [r1.2.2.1, r2.2.2.1]
        rfl


/-
  Not covered / remarks

  * Multi-key Variant-Key values are outside `VDom` on purpose.  With them `read ∘ write` is not a rearrangement of the
    exchanges: for the URL "https://a.b/" with `Variants: Accept-Language;en;fr;de` and the two exchanges
      (Variant-Key: "fr, de", body "both"), (Variant-Key: "en", body "hello")
    `write` succeeds (coverage is complete and disjoint, `bvr_coverage_exact`) and `read` returns three exchanges with
    bodies "hello", "both", "both" -- one per index location (evaluated with `#eval` on the model).  The coverage
    theorems of section h do hold for such bundles.
  * A Variant-Key value with no key at all cannot occur: `parseListOfStringLists` fails on the empty string, and a
    parse failure is refused (`bvr_coverage_exact`, fifth conjunct), so no exchange of a variant group is ever left
    out of the index.
  * `out.length < 2 ^ 63` and the hypotheses of `VDom` other than `singleKey` are those of `read_write` (`RDomG`).
-/
end WebPkg.Bundle
