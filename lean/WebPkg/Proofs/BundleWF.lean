import WebPkg.Spec.Bundle
import WebPkg.Proofs.SxgSpec
import WebPkg.Proofs.Variants
/-
  The writer of go/bundle (model: Model/Bundle.lean, section "writer") only emits well-formed bundles
  (spec: Spec/Bundle.lean).
  a  encodeResponse_isResponse, addExchanges_spec     the responses buffer and the (offset, length) bookkeeping
  b  write_b2_wellFormed                              version b2
  c  write_b1_wellFormed                              version b1 (see the statement for the hypothesis)
  d  write_count                                      the trailing length field is the total size
-/
namespace WebPkg.Bundle
open WebPkg.Spec.Bundle WebPkg.Spec.Sxg WebPkg.Cbor WebPkg.Http

/-! ### a. responses -/

theorem encodeResponse_eq (r : Resp) (x : Bytes) (h : encodeResponse r = .ok x) :
    ∃ hm, encodeRespHeader r = .ok hm ∧ x = encodeHead 4 2 ++ bstr hm ++ bstr r.body := by
  unfold encodeResponse at h
  cases hh : encodeRespHeader r with
  | error e => rw [hh] at h; cases h
  | ok hm =>
    rw [hh] at h
    injection h with h
    exact ⟨hm, rfl, h.symm⟩

/-- every response appended by `addResponse` is a `[bstr canonical-header-map, bstr body]` item whose map has
    byte-string names and values and contains ":status" -/
theorem encodeResponse_isResponse (r : Resp) (x : Bytes) (h : encodeResponse r = .ok x) : IsResponse x := by
  obtain ⟨hm, hh, hx⟩ := encodeResponse_eq r x h
  unfold encodeRespHeader at hh
  refine ⟨_, hm, r.body, Sxg.encodeMap_isCanonical _ _ hh, ⟨SH.formatInt r.status, List.mem_cons_self⟩, ?_, hx⟩
  intro p hp
  rcases List.mem_cons.mp hp with hp | hp
  · exact ⟨_, _, hp⟩
  · unfold Sxg.headerEntries at hp
    obtain ⟨⟨n, vs⟩, _, hq⟩ := List.mem_map.mp hp
    exact ⟨_, _, hq.symm⟩

/-- the (offset, length) of consecutive items starting at `start` -/
def locs : Nat → List Bytes → List (Nat × Nat)
  | _, [] => []
  | start, r :: rs => (start, r.length) :: locs (start + r.length) rs

theorem locs_append (start : Nat) (a b : List Bytes) :
    locs start (a ++ b) = locs start a ++ locs (start + a.flatten.length) b := by
  induction a generalizing start with
  | nil => simp [locs]
  | cons r rs ih =>
    simp only [List.cons_append, locs, ih, List.flatten_cons, List.length_append, Nat.add_assoc]

theorem locs_length (start : Nat) (rs : List Bytes) : (locs start rs).length = rs.length := by
  induction rs generalizing start with
  | nil => rfl
  | cons r rs ih => simp [locs, ih]

theorem mem_locs {start : Nat} {rs : List Bytes} {l : Nat × Nat} (h : l ∈ locs start rs) :
    ∃ i, i < rs.length ∧ l.1 = start + ((rs.take i).map List.length).sum ∧ l.2 = (rs.getD i []).length := by
  induction rs generalizing start with
  | nil => simp [locs] at h
  | cons r rs ih =>
    simp only [locs, List.mem_cons] at h
    rcases h with h | h
    · subst h
      exact ⟨0, by simp, by simp, by simp⟩
    · obtain ⟨i, hi, h1, h2⟩ := ih h
      refine ⟨i + 1, by simp; omega, ?_, ?_⟩
      · rw [h1]; simp [Nat.add_assoc]
      · rw [h2]; simp

/-- (a) the loop over the exchanges: the buffer grows by exactly the encoded responses, one per exchange, and
    the index entries record their URL and their position in the buffer -/
theorem addExchanges_spec (es : List Exch) (n : Nat) (rs0 : List Bytes) (acc acc' : List IndexEntry) (buf' : Bytes)
    (h : addExchanges es (encodeHead 4 n ++ rs0.flatten) acc = .ok (buf', acc'))
    (hacc : acc.map (fun e => (e.offset, e.length)) = locs (encodeHead 4 n).length rs0) :
    ∃ (rs : List Bytes) (new : List IndexEntry),
      rs.length = es.length ∧ (∀ r ∈ rs, IsResponse r) ∧
      es.map (fun e => encodeResponse e.resp) = rs.map .ok ∧
      buf' = encodeHead 4 n ++ (rs0 ++ rs).flatten ∧
      acc' = acc ++ new ∧ acc'.length = acc.length + es.length ∧
      new.map (·.url) = es.map (·.url) ∧
      new.map (·.variants) = es.map (fun e => joinComma (rawValues e.resp.headers hVariants)) ∧
      new.map (·.variantKey) = es.map (fun e => joinComma (rawValues e.resp.headers hVariantKey)) ∧
      acc'.map (fun e => (e.offset, e.length)) = locs (encodeHead 4 n).length (rs0 ++ rs) := by
  induction es generalizing rs0 acc with
  | nil =>
    rw [addExchanges] at h
    injection h with h
    injection h with h1 h2
    subst h1; subst h2
    exact ⟨[], [], rfl, by simp, rfl, by simp, by simp, by simp, rfl, rfl, rfl, by simpa using hacc⟩
  | cons e rest ih =>
    rw [addExchanges] at h
    cases hr : encodeResponse e.resp with
    | error err => simp only [hr] at h; cases h
    | ok r =>
      simp only [hr] at h
      have hbuf : encodeHead 4 n ++ rs0.flatten ++ r = encodeHead 4 n ++ (rs0 ++ [r]).flatten := by
        simp [List.append_assoc]
      rw [hbuf] at h
      obtain ⟨rs, new, h1, h2, h3, h4, h5, h6, h7, h8, h9, h10⟩ := ih (rs0 ++ [r]) _ h (by
        rw [List.map_append, hacc, locs_append]
        simp [locs, List.length_append])
      refine ⟨r :: rs, IndexEntry.mk e.url (joinComma (rawValues e.resp.headers hVariants))
            (joinComma (rawValues e.resp.headers hVariantKey))
            (List.length (encodeHead 4 n ++ rs0.flatten)) (List.length r) :: new, by simp [h1], ?_, by simp [hr, h3], ?_, ?_, ?_, ?_, ?_, ?_, ?_⟩
      · intro x hx
        rcases List.mem_cons.mp hx with hx | hx
        · subst hx; exact encodeResponse_isResponse _ _ hr
        · exact h2 x hx
      · rw [h4]; simp
      · rw [h5]; simp
      · rw [h6]; simp; omega
      · simp [h7]
      · simp [h8]
      · simp [h9]
      · rw [h10]; simp

/-! ### the shape of `write` -/

def primarySec (b : Bundle) : Except WErr (List (Bytes × Bytes)) :=
  match b.version, b.primaryURL with
  | .b2, some u => match encodeUrlSection u with
    | .ok s => .ok [(nPrimary, s)]
    | .error e => .error (.enc e)
  | _, _ => .ok []

def manifestSec (b : Bundle) : Except WErr (List (Bytes × Bytes)) :=
  match b.manifestURL with
  | none => .ok []
  | some u =>
    if b.version ≠ .b1 then .error .manifestNotSupported
    else match encodeUrlSection u with
      | .ok s => .ok [(nManifest, s)]
      | .error e => .error (.enc e)

def sigsSec (b : Bundle) : Except WErr (List (Bytes × Bytes)) :=
  match b.signatures with
  | none => .ok []
  | some s => match encodeSignatures s with
    | .ok x => .ok [(nSignatures, x)]
    | .error e => .error (.enc e)

def headOf (b : Bundle) : Outcome (Except WErr Bytes) :=
  match b.version with
  | .b1 =>
    match b.primaryURL with
    | none => .panic
    | some u => match encodeText u with
      | .ok t => .ok (.ok (BVer.magic .b1 ++ t))
      | .error e => .ok (.error (.enc e))
  | .b2 => .ok (.ok (BVer.magic .b2))

def sectionsOf (indexBytes respBuf : Bytes) (p m s : List (Bytes × Bytes)) : List (Bytes × Bytes) :=
  [(nIndex, indexBytes)] ++ p ++ m ++ s ++ [(nResponses, respBuf)]

def lengthsOf (sections : List (Bytes × Bytes)) : Bytes :=
  encodeArrayHeader (sections.length * 2) ++ (sections.map fun (n, c) => Bundle.tstr n ++ encodeUint c.length).flatten

def bodyOf (h : Bytes) (sections : List (Bytes × Bytes)) : Bytes :=
  h ++ encodeBytes (lengthsOf sections) ++ encodeArrayHeader sections.length ++ (sections.map (·.2)).flatten

def writeTail (b : Bundle) (indexBytes respBuf : Bytes) : Outcome (Except WErr Bytes) :=
  match primarySec b, manifestSec b, sigsSec b with
  | .error e, _, _ => .ok (.error e)
  | .ok _, .error e, _ => .ok (.error e)
  | .ok _, .ok _, .error e => .ok (.error e)
  | .ok p, .ok m, .ok s =>
    match headOf b with
    | .ok (.ok h) =>
      .ok (.ok (bodyOf h (sectionsOf indexBytes respBuf p m s) ++
        encodeBytes (beBytes 8 ((bodyOf h (sectionsOf indexBytes respBuf p m s)).length + 9))))
    | other => other

theorem write_eq (b : Bundle) : write b =
    match addExchanges b.exchanges (encodeArrayHeader b.exchanges.length) [] with
    | .error e => .ok (.error (.enc e))
    | .ok (respBuf, entries) =>
      match finalizeIndex b.version entries with
      | .panic => .panic
      | .error => .error
      | .ok (.error e) => .ok (.error e)
      | .ok (.ok indexBytes) => writeTail b indexBytes respBuf := rfl

/-- everything a successful `WriteTo` went through -/
theorem write_ok (b : Bundle) (out : Bytes) (h : write b = .ok (.ok out)) :
    ∃ respBuf entries indexBytes p m s hd,
      addExchanges b.exchanges (encodeArrayHeader b.exchanges.length) [] = .ok (respBuf, entries) ∧
      finalizeIndex b.version entries = .ok (.ok indexBytes) ∧
      primarySec b = .ok p ∧ manifestSec b = .ok m ∧ sigsSec b = .ok s ∧ headOf b = .ok (.ok hd) ∧
      out = bodyOf hd (sectionsOf indexBytes respBuf p m s) ++
        encodeBytes (beBytes 8 ((bodyOf hd (sectionsOf indexBytes respBuf p m s)).length + 9)) := by
  rw [write_eq] at h
  cases h1 : addExchanges b.exchanges (encodeArrayHeader b.exchanges.length) [] with
  | error e => simp only [h1] at h; cases h
  | ok re =>
    obtain ⟨respBuf, entries⟩ := re
    simp only [h1] at h
    cases h2 : finalizeIndex b.version entries with
    | panic => simp only [h2] at h; cases h
    | error => simp only [h2] at h; cases h
    | ok r =>
      cases r with
      | error e => simp only [h2] at h; cases h
      | ok indexBytes =>
        simp only [h2] at h
        unfold writeTail at h
        cases h3 : primarySec b with
        | error e => simp only [h3] at h; cases h
        | ok p =>
          cases h4 : manifestSec b with
          | error e => simp only [h3, h4] at h; cases h
          | ok m =>
            cases h5 : sigsSec b with
            | error e => simp only [h3, h4, h5] at h; cases h
            | ok s =>
              simp only [h3, h4, h5] at h
              cases h6 : headOf b with
              | panic => simp only [h6] at h; cases h
              | error => simp only [h6] at h; cases h
              | ok r =>
                cases r with
                | error e => simp only [h6] at h; cases h
                | ok hd =>
                  simp only [h6] at h
                  injection h with h
                  injection h with h
                  exact ⟨respBuf, entries, indexBytes, p, m, s, hd, rfl, h2, rfl, rfl, rfl, rfl, h.symm⟩

theorem footer_length (x : Nat) : (encodeBytes (beBytes 8 x)).length = 9 := by
  unfold encodeBytes
  rw [beBytes_length]
  rfl

/-- (d) the bundle ends with its own total length as an 8-byte big-endian byte string; the count returned by
    `WriteTo` is `out.length` by construction of the model -/
theorem write_count (b : Bundle) (out : Bytes) (h : write b = .ok (.ok out)) :
    ∃ body, out = body ++ encodeBytes (beBytes 8 (body.length + 9)) ∧ out.length = body.length + 9 := by
  obtain ⟨respBuf, entries, indexBytes, p, m, s, hd, _, _, _, _, _, _, ho⟩ := write_ok b out h
  refine ⟨_, ho, ?_⟩
  rw [ho, List.length_append, footer_length]

/-! ### the optional sections -/

theorem primarySec_ok (b : Bundle) (p) (h : primarySec b = .ok p) :
    p = [] ∨ (b.version = .b2 ∧ ∃ x, p = [(nPrimary, x)]) := by
  unfold primarySec at h
  cases hv : b.version with
  | b1 =>
    rw [hv] at h
    injection h with h
    exact Or.inl h.symm
  | b2 =>
    cases hu : b.primaryURL with
    | none =>
      rw [hv, hu] at h
      injection h with h
      exact Or.inl h.symm
    | some u =>
      rw [hv, hu] at h
      cases he : encodeUrlSection u with
      | error e => simp only [he] at h; cases h
      | ok x =>
        simp only [he] at h
        injection h with h
        exact Or.inr ⟨rfl, x, h.symm⟩

theorem manifestSec_ok (b : Bundle) (m) (h : manifestSec b = .ok m) :
    m = [] ∨ (b.version = .b1 ∧ ∃ x, m = [(nManifest, x)]) := by
  unfold manifestSec at h
  cases hu : b.manifestURL with
  | none =>
    rw [hu] at h
    injection h with h
    exact Or.inl h.symm
  | some u =>
    rw [hu] at h
    dsimp only at h
    by_cases hv : b.version = .b1
    · have hv' : ¬ (b.version ≠ .b1) := fun hn => hn hv
      rw [if_neg hv'] at h
      cases he : encodeUrlSection u with
      | error e => simp only [he] at h; cases h
      | ok x =>
        simp only [he] at h
        injection h with h
        exact Or.inr ⟨hv, x, h.symm⟩
    · have hv' : b.version ≠ .b1 := hv
      rw [if_pos hv'] at h
      cases h

theorem sigsSec_ok (b : Bundle) (s) (h : sigsSec b = .ok s) : s = [] ∨ ∃ x, s = [(nSignatures, x)] := by
  unfold sigsSec at h
  cases hu : b.signatures with
  | none =>
    rw [hu] at h
    injection h with h
    exact Or.inl h.symm
  | some sg =>
    rw [hu] at h
    cases he : encodeSignatures sg with
    | error e => simp only [he] at h; cases h
    | ok x =>
      simp only [he] at h
      injection h with h
      exact Or.inr ⟨x, h.symm⟩

/-- the five section names are distinct, so whatever optional sections are present no name repeats -/
theorem sections_nodup (idx resp : Bytes) (p m s : List (Bytes × Bytes))
    (hp : p = [] ∨ ∃ x, p = [(nPrimary, x)]) (hm : m = [] ∨ ∃ x, m = [(nManifest, x)])
    (hs : s = [] ∨ ∃ x, s = [(nSignatures, x)]) :
    ((sectionsOf idx resp p m s).map (·.1)).Nodup := by
  unfold sectionsOf
  rcases hp with rfl | ⟨x, rfl⟩ <;> rcases hm with rfl | ⟨y, rfl⟩ <;> rcases hs with rfl | ⟨z, rfl⟩ <;>
    dsimp only [List.map, List.append_nil, List.cons_append, List.nil_append] <;>
    decide

theorem lengthsOf_eq (sections : List (Bytes × Bytes)) :
    lengthsOf sections = encodeHead 4 (sections.length * 2) ++
      (sections.map fun (s : Bytes × Bytes) => Spec.Sxg.tstr s.1 ++ encodeHead 0 s.2.length).flatten := rfl

/-! ### the index -/

/-- groups are never empty, and every member of a group is one of the entries that were added -/
theorem groupByUrl_inv (Q : IndexEntry → Prop) (es : List IndexEntry) (acc : List (Bytes × List IndexEntry))
    (hes : ∀ e ∈ es, Q e) (hacc : ∀ g ∈ acc, g.2 ≠ [] ∧ ∀ e ∈ g.2, Q e) :
    ∀ g ∈ groupByUrl es acc, g.2 ≠ [] ∧ ∀ e ∈ g.2, Q e := by
  induction es generalizing acc with
  | nil => rw [groupByUrl]; exact hacc
  | cons e rest ih =>
    rw [groupByUrl]
    have hrest : ∀ x ∈ rest, Q x := fun x hx => hes x (List.mem_cons_of_mem _ hx)
    have he : Q e := hes e List.mem_cons_self
    by_cases hc : acc.any (·.1 == e.url) = true
    · rw [if_pos hc]
      apply ih _ hrest
      intro g hg
      obtain ⟨⟨u, es0⟩, hg0, rfl⟩ := List.mem_map.mp hg
      obtain ⟨h1, h2⟩ := hacc _ hg0
      by_cases hu : (u == e.url) = true
      · simp only [hu, if_true]
        refine ⟨by simp, ?_⟩
        intro x hx
        rcases List.mem_append.mp hx with hx | hx
        · exact h2 x hx
        · rw [List.mem_singleton.mp hx]; exact he
      · simp only [hu]
        exact ⟨h1, h2⟩
    · rw [if_neg hc]
      apply ih _ hrest
      intro g hg
      rcases List.mem_append.mp hg with hg | hg
      · exact hacc g hg
      · rw [List.mem_singleton.mp hg]
        refine ⟨by simp, ?_⟩
        intro x hx
        rw [List.mem_singleton.mp hx]; exact he

/-- what a successful `Finalize` of a b2 index went through -/
theorem finalizeIndex_b2 (entries : List IndexEntry) (idx : Bytes) (h : finalizeIndex .b2 entries = .ok (.ok idx)) :
    (∀ g ∈ groupByUrl entries [], utf8Valid g.1 = true ∧ g.2.length ≤ 1) ∧
    encodeMap ((groupByUrl entries []).map fun (g : Bytes × List IndexEntry) =>
      (Bundle.tstr g.1, encodeArrayHeader 2 ++ (g.2.map fun e => encodeUint e.offset ++ encodeUint e.length).flatten)) = .ok idx := by
  unfold finalizeIndex at h
  dsimp only at h
  by_cases h1 : (groupByUrl entries []).any (fun g => !utf8Valid g.1) = true
  · rw [if_pos h1] at h
    by_cases h2 : (BVer.b2 = BVer.b2 ∧ (groupByUrl entries []).any (fun g => decide (g.2.length > 1)) = true)
    · rw [if_pos h2] at h; cases h
    · rw [if_neg h2] at h; cases h
  · rw [if_neg h1] at h
    by_cases h2 : (groupByUrl entries []).any (fun g => decide (g.2.length > 1)) = true
    · rw [if_pos h2] at h; cases h
    · rw [if_neg h2] at h
      constructor
      · intro g hg
        constructor
        · cases hu : utf8Valid g.1 with
          | true => rfl
          | false =>
            exfalso; apply h1
            exact List.any_eq_true.mpr ⟨g, hg, by simp [hu]⟩
        · apply Classical.byContradiction
          intro hn
          apply h2
          exact List.any_eq_true.mpr ⟨g, hg, by simp; omega⟩
      · cases hm : encodeMap ((groupByUrl entries []).map fun (g : Bytes × List IndexEntry) =>
          (Bundle.tstr g.1, encodeArrayHeader 2 ++ (g.2.map fun e => encodeUint e.offset ++ encodeUint e.length).flatten)) with
        | error e =>
          exfalso
          revert h
          rw [hm]
          intro h; cases h
        | ok x =>
          revert h
          rw [hm]
          intro h
          injection h with h
          injection h with h
          rw [h]

/-- the output has the layout demanded by `WellFormed` (all versions) -/
theorem layout_eq (hd : Bytes) (sections : List (Bytes × Bytes)) (out : Bytes)
    (ho : out = bodyOf hd sections ++ encodeBytes (beBytes 8 ((bodyOf hd sections).length + 9))) :
    out = hd ++ bstr (encodeHead 4 (sections.length * 2) ++
        (sections.map fun (s : Bytes × Bytes) => Spec.Sxg.tstr s.1 ++ encodeHead 0 s.2.length).flatten) ++
      encodeHead 4 sections.length ++ (sections.map (·.2)).flatten ++ bstr (beBytes 8 out.length) := by
  have hl : out.length = (bodyOf hd sections).length + 9 := by
    rw [ho, List.length_append, footer_length]
  rw [hl]
  exact ho

/-- the responses section and the entries after the loop of `WriteTo` -/
theorem addExchanges_top (b : Bundle) (respBuf : Bytes) (entries : List IndexEntry)
    (h : addExchanges b.exchanges (encodeArrayHeader b.exchanges.length) [] = .ok (respBuf, entries)) :
    ∃ rs : List Bytes, IsResponses respBuf rs ∧ rs.length = b.exchanges.length ∧
      b.exchanges.map (fun e => encodeResponse e.resp) = rs.map .ok ∧
      entries.map (·.url) = b.exchanges.map (·.url) ∧
      entries.map (·.variants) = b.exchanges.map (fun e => joinComma (rawValues e.resp.headers hVariants)) ∧
      entries.map (·.variantKey) = b.exchanges.map (fun e => joinComma (rawValues e.resp.headers hVariantKey)) ∧
      entries.map (fun e => (e.offset, e.length)) = locs (encodeHead 4 rs.length).length rs := by
  have h' : addExchanges b.exchanges (encodeHead 4 b.exchanges.length ++ ([] : List Bytes).flatten) [] =
      .ok (respBuf, entries) := by simpa [encodeArrayHeader] using h
  obtain ⟨rs, new, h1, h2, h3, h4, h5, _, h7, h8, h9, h10⟩ := addExchanges_spec _ _ [] [] _ _ h' rfl
  rw [List.nil_append] at h5 h4 h10
  subst h5
  refine ⟨rs, ⟨h2, by rw [h1]; exact h4⟩, h1, h3, h7, h8, h9, by rw [h1]; exact h10⟩

theorem delimits_of_entry (respBuf : Bytes) (rs : List Bytes) (entries : List IndexEntry)
    (hl : entries.map (fun e => (e.offset, e.length)) = locs (encodeHead 4 rs.length).length rs)
    (e : IndexEntry) (he : e ∈ entries) : Delimits respBuf rs e.offset e.length := by
  have : (e.offset, e.length) ∈ locs (encodeHead 4 rs.length).length rs := by
    rw [← hl]; exact List.mem_map.mpr ⟨e, he, rfl⟩
  obtain ⟨i, hi, h1, h2⟩ := mem_locs this
  exact ⟨i, hi, h1, h2⟩

theorem finalizeIndex_b2_isIndex (entries : List IndexEntry) (idx respBuf : Bytes) (rs : List Bytes)
    (hl : entries.map (fun e => (e.offset, e.length)) = locs (encodeHead 4 rs.length).length rs)
    (h : finalizeIndex .b2 entries = .ok (.ok idx)) : IsIndex .b2 idx respBuf rs := by
  obtain ⟨hg, hm⟩ := finalizeIndex_b2 entries idx h
  refine ⟨_, Sxg.encodeMap_isCanonical _ _ hm, ?_⟩
  intro p hp
  obtain ⟨⟨u, es⟩, hgm, rfl⟩ := List.mem_map.mp hp
  obtain ⟨hu, hlen⟩ := hg _ hgm
  obtain ⟨hne, hq⟩ := groupByUrl_inv (fun e => Delimits respBuf rs e.offset e.length) entries []
    (delimits_of_entry respBuf rs entries hl) (by simp) _ hgm
  refine ⟨⟨u, rfl, hu⟩, ?_⟩
  cases es with
  | nil => exact absurd rfl hne
  | cons e rest =>
    cases rest with
    | nil =>
      refine ⟨e.offset, e.length, hq e List.mem_cons_self, ?_⟩
      simp [encodeArrayHeader, encodeUint]
    | cons e2 rest2 => simp at hlen

/-- (b) a bundle of version b2 that `WriteTo` emits without error is well-formed -/
theorem write_b2_wellFormed (b : Bundle) (hv : b.version = .b2) (out : Bytes) (h : write b = .ok (.ok out))
    (hlen : out.length < 2 ^ 64) : WellFormed .b2 out := by
  obtain ⟨respBuf, entries, indexBytes, p, m, s, hd, h1, h2, h3, h4, h5, h6, ho⟩ := write_ok b out h
  obtain ⟨rs, hrs, _, _, _, _, _, hl⟩ := addExchanges_top b respBuf entries h1
  rw [hv] at h2
  have hhd : hd = BVer.magic .b2 := by
    unfold headOf at h6
    rw [hv] at h6
    injection h6 with h6
    injection h6 with h6
    exact h6.symm
  have hp := primarySec_ok b p h3
  have hm : m = [] := by
    rcases manifestSec_ok b m h4 with hm | ⟨hm, _⟩
    · exact hm
    · rw [hv] at hm; cases hm
  have hs := sigsSec_ok b s h5
  refine ⟨BVer.magic .b2, sectionsOf indexBytes respBuf p m s, rs, rfl, ?_, hlen, ?_, ?_⟩
  · rw [← hhd]; exact layout_eq hd _ out ho
  · apply sections_nodup
    · rcases hp with hp | ⟨_, hp⟩
      · exact Or.inl hp
      · exact Or.inr hp
    · exact Or.inl hm
    · exact hs
  · refine ⟨indexBytes, p ++ m ++ s, respBuf, ?_, hrs, finalizeIndex_b2_isIndex entries indexBytes respBuf rs hl h2⟩
    unfold sectionsOf
    simp only [List.append_assoc, List.cons_append, List.nil_append]

/-! ### c. version b1 (index with variants) -/

theorem mapM_some_mem {α β : Type} (f : α → Option β) (l : List α) (out : List β) (h : l.mapM f = some out) :
    out.length = l.length ∧ ∀ y ∈ out, ∃ x ∈ l, f x = some y := by
  induction l generalizing out with
  | nil =>
    rw [List.mapM_nil] at h
    injection h with h
    subst h
    exact ⟨rfl, by simp⟩
  | cons a l ih =>
    rw [List.mapM_cons] at h
    cases ha : f a with
    | none => rw [ha] at h; cases h
    | some b =>
      cases hl : l.mapM f with
      | none => rw [ha, hl] at h; cases h
      | some bs =>
        rw [ha, hl] at h
        injection h with h
        subst h
        obtain ⟨e1, e2⟩ := ih bs hl
        refine ⟨by simp [e1], ?_⟩
        intro y hy
        rcases List.mem_cons.mp hy with hy | hy
        · subst hy; exact ⟨a, List.mem_cons_self, ha⟩
        · obtain ⟨x, hx, hfx⟩ := e2 y hy
          exact ⟨x, List.mem_cons_of_mem _ hx, hfx⟩

/-- one step of the inner loop of `entriesInPossibleKeyOrder`: put `e` at the index of the key `vk` -/
def placeKey (variants : List (List Bytes)) (e : IndexEntry) (acc : Option (List (Option IndexEntry)))
    (vk : List Bytes) : Option (List (Option IndexEntry)) :=
  match acc with
  | none => none
  | some r =>
    match indexInPossibleKeys variants vk with
    | none => none
    | some i => if (r.getD i none).isSome then none else some (r.set i (some e))

/-- one step of the outer loop: all the keys of the entry `e` -/
def placeEntry (variants : List (List Bytes)) (first : IndexEntry) (result : Option (List (Option IndexEntry)))
    (e : IndexEntry) : Option (List (Option IndexEntry)) :=
  match result with
  | none => none
  | some res =>
    if e.variants ≠ first.variants then none
    else match parseListOfStringLists e.variantKey with
      | none => none
      | some vks => vks.foldl (placeKey variants e) (some res)

theorem entriesInPossibleKeyOrder_eq (es : List IndexEntry) : entriesInPossibleKeyOrder es =
    match es with
    | [] => none
    | first :: _ =>
      if first.variants.isEmpty then none
      else match parseListOfStringLists first.variants with
        | none => none
        | some variants =>
          match numberOfPossibleKeys variants 1 with
          | none => none
          | some num =>
            match es.foldl (placeEntry variants first) (some (List.replicate num none)) with
            | none => none
            | some res => res.mapM id := by
  cases es <;> rfl

/-- slots hold only entries satisfying `P`, and the number of slots does not change -/
def SlotsInv (P : IndexEntry → Prop) (num : Nat) (r : List (Option IndexEntry)) : Prop :=
  r.length = num ∧ ∀ e, some e ∈ r → P e

theorem foldl_placeKey_none (variants : List (List Bytes)) (e : IndexEntry) (vks : List (List Bytes)) :
    vks.foldl (placeKey variants e) none = none := by
  induction vks with
  | nil => rfl
  | cons vk vks ih => rw [List.foldl_cons]; exact ih

theorem foldl_placeKey_inv (P : IndexEntry → Prop) (num : Nat) (variants : List (List Bytes)) (e : IndexEntry)
    (he : P e) (vks : List (List Bytes)) (r r' : List (Option IndexEntry)) (hr : SlotsInv P num r)
    (h : vks.foldl (placeKey variants e) (some r) = some r') : SlotsInv P num r' := by
  induction vks generalizing r with
  | nil =>
    rw [List.foldl_nil] at h
    injection h with h
    subst h
    exact hr
  | cons vk vks ih =>
    rw [List.foldl_cons] at h
    cases hs : placeKey variants e (some r) vk with
    | none => rw [hs, foldl_placeKey_none] at h; cases h
    | some r1 =>
      rw [hs] at h
      apply ih r1 _ h
      unfold placeKey at hs
      dsimp only at hs
      cases hi : indexInPossibleKeys variants vk with
      | none => simp only [hi] at hs; cases hs
      | some i =>
        simp only [hi] at hs
        by_cases hc : (r.getD i none).isSome = true
        · rw [if_pos hc] at hs; cases hs
        · rw [if_neg hc] at hs
          injection hs with hs
          subst hs
          refine ⟨by rw [List.length_set]; exact hr.1, ?_⟩
          intro x hx
          rcases List.mem_or_eq_of_mem_set hx with hx | hx
          · exact hr.2 x hx
          · injection hx with hx
            subst hx; exact he

theorem foldl_placeEntry_none (variants : List (List Bytes)) (first : IndexEntry) (es : List IndexEntry) :
    es.foldl (placeEntry variants first) none = none := by
  induction es with
  | nil => rfl
  | cons e es ih => rw [List.foldl_cons]; exact ih

theorem foldl_placeEntry_inv (P : IndexEntry → Prop) (num : Nat) (variants : List (List Bytes)) (first : IndexEntry)
    (es : List IndexEntry) (hes : ∀ e ∈ es, P e) (r r' : List (Option IndexEntry)) (hr : SlotsInv P num r)
    (h : es.foldl (placeEntry variants first) (some r) = some r') : SlotsInv P num r' := by
  induction es generalizing r with
  | nil =>
    rw [List.foldl_nil] at h
    injection h with h
    subst h
    exact hr
  | cons e es ih =>
    rw [List.foldl_cons] at h
    cases hs : placeEntry variants first (some r) e with
    | none => rw [hs, foldl_placeEntry_none] at h; cases h
    | some r1 =>
      rw [hs] at h
      apply ih (fun x hx => hes x (List.mem_cons_of_mem _ hx)) r1 _ h
      unfold placeEntry at hs
      dsimp only at hs
      by_cases hc : e.variants ≠ first.variants
      · rw [if_pos hc] at hs; cases hs
      · rw [if_neg hc] at hs
        cases hp : parseListOfStringLists e.variantKey with
        | none => simp only [hp] at hs; cases hs
        | some vks =>
          simp only [hp] at hs
          exact foldl_placeKey_inv P num variants e (hes e List.mem_cons_self) vks r r1 hr hs

/-- the entries in possible-key order are as many as there are possible keys (at least one) and each of them is
    one of the entries of the group -/
theorem entriesInPossibleKeyOrder_spec (es out : List IndexEntry) (h : entriesInPossibleKeyOrder es = some out) :
    out ≠ [] ∧ (∀ e ∈ out, e ∈ es) ∧
      ∃ variants num, (∃ first, es.head? = some first ∧ parseListOfStringLists first.variants = some variants) ∧
        numberOfPossibleKeys variants 1 = some num ∧ out.length = num := by
  rw [entriesInPossibleKeyOrder_eq] at h
  cases es with
  | nil => cases h
  | cons first rest =>
    dsimp only at h
    by_cases h0 : first.variants.isEmpty = true
    · rw [if_pos h0] at h; cases h
    · rw [if_neg h0] at h
      cases h1 : parseListOfStringLists first.variants with
      | none => simp only [h1] at h; cases h
      | some variants =>
        simp only [h1] at h
        cases h2 : numberOfPossibleKeys variants 1 with
        | none => simp only [h2] at h; cases h
        | some num =>
          simp only [h2] at h
          cases h3 : (first :: rest).foldl (placeEntry variants first) (some (List.replicate num none)) with
          | none => simp only [h3] at h; cases h
          | some res =>
            simp only [h3] at h
            obtain ⟨hl, hm⟩ := mapM_some_mem id res out h
            have hinv : SlotsInv (· ∈ first :: rest) num res :=
              foldl_placeEntry_inv (· ∈ first :: rest) num variants first (first :: rest) (fun e he => he) _ res
                ⟨List.length_replicate, by
                  intro e he
                  have := List.eq_of_mem_replicate he
                  cases this⟩ h3
            obtain ⟨hn1, _, hn3⟩ := numberOfPossibleKeys_eq variants num h2
            have hpos := keyCount_pos hn3
            refine ⟨?_, ?_, variants, num, ⟨first, rfl, h1⟩, h2, by rw [hl, hinv.1]⟩
            · intro hc
              rw [hc, hinv.1] at hl
              simp at hl
              omega
            · intro e he
              obtain ⟨x, hx, hxe⟩ := hm e he
              exact hinv.2 e (by rw [← show x = some e from hxe]; exact hx)

/-- the per-URL step of `indexSection.Finalize` for b1 -/
def buildB1 (g : Bytes × List IndexEntry) : Option Entry :=
  if g.2.length > 1 then
    match entriesInPossibleKeyOrder g.2 with
    | none => none
    | some es =>
      some (Bundle.tstr g.1, encodeArrayHeader (1 + es.length * 2) ++ encodeBytes (g.2.headD default).variants ++
        (es.map fun e => encodeUint e.offset ++ encodeUint e.length).flatten)
  else
    some (Bundle.tstr g.1, encodeArrayHeader (1 + g.2.length * 2) ++ encodeBytes [] ++
      (g.2.map fun e => encodeUint e.offset ++ encodeUint e.length).flatten)

theorem finalizeIndex_b1_eq (entries : List IndexEntry) : finalizeIndex .b1 entries =
    if (groupByUrl entries []).any (fun g => !utf8Valid g.1) then
      (if BVer.b1 = .b2 ∧ (groupByUrl entries []).any (fun g => g.2.length > 1) then .ok (.error .multipleResources)
       else .panic)
    else
      match (groupByUrl entries []).mapM buildB1 with
      | none => .ok (.error .variants)
      | some mes =>
        match encodeMap mes with
        | .ok b => .ok (.ok b)
        | .error e => .ok (.error (.enc e)) := rfl

theorem finalizeIndex_b1 (entries : List IndexEntry) (idx : Bytes) (h : finalizeIndex .b1 entries = .ok (.ok idx)) :
    (∀ g ∈ groupByUrl entries [], utf8Valid g.1 = true) ∧
    ∃ mes, (groupByUrl entries []).mapM buildB1 = some mes ∧ encodeMap mes = .ok idx := by
  rw [finalizeIndex_b1_eq] at h
  by_cases h1 : (groupByUrl entries []).any (fun g => !utf8Valid g.1) = true
  · rw [if_pos h1] at h
    have h2 : ¬ (BVer.b1 = .b2 ∧ (groupByUrl entries []).any (fun g => decide (g.2.length > 1)) = true) :=
      fun hc => by cases hc.1
    rw [if_neg h2] at h; cases h
  · rw [if_neg h1] at h
    constructor
    · intro g hg
      cases hu : utf8Valid g.1 with
      | true => rfl
      | false =>
        exfalso; apply h1
        exact List.any_eq_true.mpr ⟨g, hg, by simp [hu]⟩
    · cases hm : (groupByUrl entries []).mapM buildB1 with
      | none => simp only [hm] at h; cases h
      | some mes =>
        simp only [hm] at h
        refine ⟨mes, rfl, ?_⟩
        cases he : encodeMap mes with
        | error e => simp only [he] at h; cases h
        | ok x =>
          simp only [he] at h
          injection h with h
          injection h with h
          rw [h]

theorem isIndexValue_b1 (respBuf : Bytes) (rs : List Bytes) (vv : Bytes) (es : List IndexEntry) (hne : es ≠ [])
    (hd : ∀ e ∈ es, Delimits respBuf rs e.offset e.length) :
    IsIndexValue .b1 respBuf rs (encodeArrayHeader (1 + es.length * 2) ++ encodeBytes vv ++
      (es.map fun e => encodeUint e.offset ++ encodeUint e.length).flatten) := by
  refine ⟨vv, es.map (fun e => (e.offset, e.length)), ?_, ?_, ?_⟩
  · intro hc
    apply hne
    cases es with
    | nil => rfl
    | cons a l => simp at hc
  · intro l hl
    obtain ⟨e, he, rfl⟩ := List.mem_map.mp hl
    exact hd e he
  · rw [List.length_map, List.map_map]
    rfl

theorem finalizeIndex_b1_isIndex (entries : List IndexEntry) (idx respBuf : Bytes) (rs : List Bytes)
    (hl : entries.map (fun e => (e.offset, e.length)) = locs (encodeHead 4 rs.length).length rs)
    (h : finalizeIndex .b1 entries = .ok (.ok idx)) : IsIndex .b1 idx respBuf rs := by
  obtain ⟨hg, mes, hmes, hm⟩ := finalizeIndex_b1 entries idx h
  refine ⟨mes, Sxg.encodeMap_isCanonical _ _ hm, ?_⟩
  intro p hp
  obtain ⟨_, hmem⟩ := mapM_some_mem buildB1 _ mes hmes
  obtain ⟨g, hgm, hb⟩ := hmem p hp
  have hu := hg g hgm
  obtain ⟨hne, hq⟩ := groupByUrl_inv (fun e => Delimits respBuf rs e.offset e.length) entries []
    (delimits_of_entry respBuf rs entries hl) (by simp) _ hgm
  unfold buildB1 at hb
  by_cases hc : g.2.length > 1
  · rw [if_pos hc] at hb
    cases ho : entriesInPossibleKeyOrder g.2 with
    | none => simp only [ho] at hb; cases hb
    | some es =>
      simp only [ho] at hb
      injection hb with hb
      subst hb
      obtain ⟨e1, e2, _⟩ := entriesInPossibleKeyOrder_spec g.2 es ho
      exact ⟨⟨g.1, rfl, hu⟩, isIndexValue_b1 respBuf rs _ es e1 (fun e he => hq e (e2 e he))⟩
  · rw [if_neg hc] at hb
    injection hb with hb
    subst hb
    exact ⟨⟨g.1, rfl, hu⟩, isIndexValue_b1 respBuf rs _ g.2 hne hq⟩

/-- (c) a bundle of version b1 that `WriteTo` emits without error is well-formed, including URLs with several
    variants (no extra hypothesis) -/
theorem write_b1_wellFormed (b : Bundle) (hv : b.version = .b1) (out : Bytes) (h : write b = .ok (.ok out))
    (hlen : out.length < 2 ^ 64) : WellFormed .b1 out := by
  obtain ⟨respBuf, entries, indexBytes, p, m, s, hd, h1, h2, h3, h4, h5, h6, ho⟩ := write_ok b out h
  obtain ⟨rs, hrs, _, _, _, _, _, hl⟩ := addExchanges_top b respBuf entries h1
  rw [hv] at h2
  have hhd : ∃ u, utf8Valid u = true ∧ hd = BVer.magic .b1 ++ Spec.Sxg.tstr u := by
    unfold headOf at h6
    rw [hv] at h6
    dsimp only at h6
    cases hu : b.primaryURL with
    | none => rw [hu] at h6; cases h6
    | some u =>
      rw [hu] at h6
      dsimp only at h6
      unfold encodeText at h6
      by_cases hval : utf8Valid u = true
      · rw [if_pos hval] at h6
        dsimp only at h6
        injection h6 with h6
        injection h6 with h6
        exact ⟨u, hval, h6.symm⟩
      · rw [if_neg hval] at h6
        cases h6
  obtain ⟨u, hu, hhd⟩ := hhd
  have hp : p = [] := by
    rcases primarySec_ok b p h3 with hp | ⟨hp, _⟩
    · exact hp
    · rw [hv] at hp; cases hp
  have hm := manifestSec_ok b m h4
  have hs := sigsSec_ok b s h5
  refine ⟨hd, sectionsOf indexBytes respBuf p m s, rs, ⟨u, hu, hhd⟩, layout_eq hd _ out ho, hlen, ?_, ?_⟩
  · apply sections_nodup
    · exact Or.inl hp
    · rcases hm with hm | ⟨_, hm⟩
      · exact Or.inl hm
      · exact Or.inr hm
    · exact hs
  · refine ⟨indexBytes, p ++ m ++ s, respBuf, ?_, hrs, finalizeIndex_b1_isIndex entries indexBytes respBuf rs hl h2⟩
    unfold sectionsOf
    simp only [List.append_assoc, List.cons_append, List.nil_append]

/-- both versions -/
theorem write_wellFormed (b : Bundle) (out : Bytes) (h : write b = .ok (.ok out)) (hlen : out.length < 2 ^ 64) :
    WellFormed b.version out := by
  cases hv : b.version with
  | b1 => exact write_b1_wellFormed b hv out h hlen
  | b2 => exact write_b2_wellFormed b hv out h hlen

end WebPkg.Bundle
