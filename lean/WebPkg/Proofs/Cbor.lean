import WebPkg.Model.Cbor
import WebPkg.Spec.Cbor
import WebPkg.Proofs.Basic
namespace WebPkg.Cbor
open WebPkg.Spec.Cbor

theorem first_byte (mt ai : Nat) (hmt : mt < 8) (hai : ai < 32) :
    (UInt8.ofNat (32 * mt + ai)).toNat / 32 = mt ∧ (UInt8.ofNat (32 * mt + ai)).toNat % 32 = ai := by
  rw [toNat_ofNat_lt (by omega)]
  omega

theorem decodeHead_cons (mt ai : Nat) (hmt : mt < 8) (hai : ai < 32) (rest : Bytes) :
    decodeHead (UInt8.ofNat (32 * mt + ai) :: rest) = decodeArg mt ai rest := by
  simp only [decodeHead]
  rw [(first_byte mt ai hmt hai).1, (first_byte mt ai hmt hai).2]

/-- the model decoder inverts every RFC head -/
theorem decodeHead_of_isHead {h : Bytes} {mt n : Nat} (hh : IsHead h mt n) (r : Bytes) :
    decodeHead (h ++ r) = some (mt, n, r) := by
  cases hh with
  | direct mt n hmt hn =>
    rw [List.singleton_append, decodeHead_cons mt n hmt (by omega)]
    simp [decodeArg, nfollow, hn]
  | one mt n hmt hn =>
    rw [List.cons_append, decodeHead_cons mt 24 hmt (by omega)]
    simp [decodeArg, nfollow, beVal_beBytes_of_lt hn]
  | two mt n hmt hn =>
    rw [List.cons_append, decodeHead_cons mt 25 hmt (by omega)]
    simp [decodeArg, nfollow, beVal_beBytes_of_lt hn]
  | four mt n hmt hn =>
    rw [List.cons_append, decodeHead_cons mt 26 hmt (by omega)]
    simp [decodeArg, nfollow, beVal_beBytes_of_lt hn]
  | eight mt n hmt hn =>
    rw [List.cons_append, decodeHead_cons mt 27 hmt (by omega)]
    simp [decodeArg, nfollow, beVal_beBytes_of_lt hn]

theorem byte_decomp (b : UInt8) : b = UInt8.ofNat (32 * (b.toNat / 32) + b.toNat % 32) := by
  have : 32 * (b.toNat / 32) + b.toNat % 32 = b.toNat := by omega
  rw [this]; simp

/-- whatever the model decoder accepts is an RFC head followed by the returned rest -/
theorem isHead_of_decodeHead {bs : Bytes} {mt n : Nat} {r : Bytes}
    (h : decodeHead bs = some (mt, n, r)) : ∃ hd, IsHead hd mt n ∧ bs = hd ++ r := by
  cases bs with
  | nil => simp [decodeHead] at h
  | cons b rest =>
    have hb := b.toNat_lt
    have hmt : b.toNat / 32 < 8 := by omega
    simp only [decodeHead, decodeArg] at h
    generalize hai : b.toNat % 32 = ai at h
    have hai32 : ai < 32 := by omega
    unfold nfollow at h
    by_cases h0 : ai < 24
    · simp only [h0, if_true] at h
      simp at h
      obtain ⟨rfl, rfl, rfl⟩ := h
      refine ⟨[b], ?_, by simp⟩
      have := IsHead.direct (b.toNat / 32) ai hmt h0
      rw [← hai, ← byte_decomp] at this
      rw [← hai]; exact this
    · simp only [h0, if_false] at h
      have key : ∀ k aiv, ai = aiv → 0 < k → aiv < 32 →
          (if rest.length < k then none else some (b.toNat / 32, beVal (rest.take k), rest.drop k)) = some (mt, n, r) →
          (b :: rest.take k = UInt8.ofNat (32 * (b.toNat / 32) + aiv) :: beBytes k n) ∧ mt = b.toNat / 32 ∧ n < 256 ^ k ∧ b :: rest = (b :: rest.take k) ++ r := by
        intro k aiv e hk _ hh
        by_cases hl : rest.length < k
        · simp [hl] at hh
        · simp only [hl, if_false] at hh
          simp at hh
          obtain ⟨rfl, rfl, rfl⟩ := hh
          have hlen : (rest.take k).length = k := by simp; omega
          refine ⟨?_, rfl, ?_, by simp⟩
          · rw [← e, ← hai, ← byte_decomp]
            congr 1
            have := beBytes_beVal (rest.take k)
            rw [hlen] at this; exact this.symm
          · have := beVal_lt (rest.take k); rwa [hlen] at this
      by_cases h1 : ai = 24
      · simp only [h1] at h
        obtain ⟨e1, rfl, hn, e2⟩ := key 1 24 h1 (by decide) (by decide) (by simpa using h)
        exact ⟨b :: rest.take 1, by rw [e1]; exact IsHead.one _ _ hmt hn, e2⟩
      · by_cases h2 : ai = 25
        · simp only [h2] at h
          obtain ⟨e1, rfl, hn, e2⟩ := key 2 25 h2 (by decide) (by decide) (by simpa using h)
          exact ⟨b :: rest.take 2, by rw [e1]; exact IsHead.two _ _ hmt hn, e2⟩
        · by_cases h3 : ai = 26
          · simp only [h3] at h
            obtain ⟨e1, rfl, hn, e2⟩ := key 4 26 h3 (by decide) (by decide) (by simpa using h)
            exact ⟨b :: rest.take 4, by rw [e1]; exact IsHead.four _ _ hmt hn, e2⟩
          · by_cases h4 : ai = 27
            · simp only [h4] at h
              obtain ⟨e1, rfl, hn, e2⟩ := key 8 27 h4 (by decide) (by decide) (by simpa using h)
              exact ⟨b :: rest.take 8, by rw [e1]; exact IsHead.eight _ _ hmt hn, e2⟩
            · simp [h1, h2, h3, h4] at h

theorem isHead_length_pos {h : Bytes} {mt n : Nat} (hh : IsHead h mt n) : 0 < h.length := by
  cases hh <;> simp

/-- `encodeTypedUint` produces an RFC head -/
theorem encodeHead_isHead (mt n : Nat) (hmt : mt < 8) (hn : n < 2 ^ 64) : IsHead (encodeHead mt n) mt n := by
  unfold encodeHead
  by_cases h1 : n < 24
  · simp only [h1, if_true]; exact IsHead.direct mt n hmt h1
  · simp only [h1, if_false]
    by_cases h2 : n < 2 ^ 8
    · simp only [h2, if_true]; exact IsHead.one mt n hmt (by simpa using h2)
    · simp only [h2, if_false]
      by_cases h3 : n < 2 ^ 16
      · simp only [h3, if_true]; exact IsHead.two mt n hmt (by omega)
      · simp only [h3, if_false]
        by_cases h4 : n < 2 ^ 32
        · simp only [h4, if_true]; exact IsHead.four mt n hmt (by omega)
        · simp only [h4, if_false]; exact IsHead.eight mt n hmt (by omega)

theorem encodeHead_length (mt n : Nat) :
    (encodeHead mt n).length = if n < 24 then 1 else if n < 2 ^ 8 then 2 else if n < 2 ^ 16 then 3 else if n < 2 ^ 32 then 5 else 9 := by
  unfold encodeHead
  by_cases h1 : n < 24
  · simp [h1]
  · by_cases h2 : n < 2 ^ 8
    · simp [h1, h2]
    · by_cases h3 : n < 2 ^ 16
      · simp [h1, h2, h3]
      · by_cases h4 : n < 2 ^ 32 <;> simp [h1, h2, h3, h4]

theorem isHead_length_ge {h : Bytes} {mt n : Nat} (hh : IsHead h mt n) : (encodeHead mt n).length ≤ h.length := by
  rw [encodeHead_length]
  cases hh <;> simp <;> repeat' split
  all_goals omega

/-- `encodeTypedUint` always chooses the shortest head -/
theorem encodeHead_shortest (mt n : Nat) (hmt : mt < 8) (hn : n < 2 ^ 64) : ShortestHead (encodeHead mt n) mt n :=
  ⟨encodeHead_isHead mt n hmt hn, fun _ hh => isHead_length_ge hh⟩

/-- a head is determined by (major type, argument, length) -/
theorem isHead_unique {h h' : Bytes} {mt n : Nat} (a : IsHead h mt n) (b : IsHead h' mt n)
    (hl : h.length = h'.length) : h = h' := by
  cases a <;> cases b <;> simp at hl <;> rfl

theorem shortest_unique {h : Bytes} {mt n : Nat} (hmt : mt < 8) (hn : n < 2 ^ 64) (hs : ShortestHead h mt n) :
    h = encodeHead mt n := by
  have e := encodeHead_shortest mt n hmt hn
  exact isHead_unique hs.1 e.1 (Nat.le_antisymm (hs.2 _ e.1) (e.2 _ hs.1))

end WebPkg.Cbor

namespace WebPkg.Cbor
open WebPkg.Spec.Cbor

/-- heads are self-delimiting: the same bytes cannot start with two different heads -/
theorem isHead_prefix_unique {h h' x y : Bytes} {mt n mt' n' : Nat} (a : IsHead h mt n) (b : IsHead h' mt' n')
    (e : h ++ x = h' ++ y) : h = h' ∧ mt = mt' ∧ n = n' ∧ x = y := by
  have d1 := decodeHead_of_isHead a x
  have d2 := decodeHead_of_isHead b y
  rw [e, d2] at d1
  simp at d1
  obtain ⟨rfl, rfl, rfl⟩ := d1
  have := List.append_cancel_right e
  exact ⟨this, rfl, rfl, rfl⟩

theorem decodeOfType_sound {t : Nat} {bs rest : Bytes} {n : Nat} (h : decodeOfType t bs = some (n, rest)) :
    ∃ hd, IsHead hd t n ∧ bs = hd ++ rest := by
  unfold decodeOfType at h
  cases hd : decodeHead bs with
  | none => simp [hd] at h
  | some v =>
    obtain ⟨mt, m, r⟩ := v
    simp only [hd] at h
    by_cases e : mt = t
    · simp [e] at h
      obtain ⟨rfl, rfl⟩ := h
      subst e
      exact isHead_of_decodeHead hd
    · simp [e] at h

theorem decodeOfType_complete {t n : Nat} {hd : Bytes} (h : IsHead hd t n) (rest : Bytes) :
    decodeOfType t (hd ++ rest) = some (n, rest) := by
  simp [decodeOfType, decodeHead_of_isHead h rest]

theorem decodeOfType_wrong_type {t mt n : Nat} {hd : Bytes} (h : IsHead hd mt n) (hne : mt ≠ t) (rest : Bytes) :
    decodeOfType t (hd ++ rest) = none := by
  simp [decodeOfType, decodeHead_of_isHead h rest, hne]

theorem decodeBytesOfType_sound {t : Nat} {bs v rest : Bytes} (h : decodeBytesOfType t bs = some (v, rest)) :
    ∃ item, IsString t item v ∧ bs = item ++ rest := by
  unfold decodeBytesOfType at h
  cases hd : decodeOfType t bs with
  | none => simp [hd] at h
  | some p =>
    obtain ⟨n, r⟩ := p
    simp only [hd] at h
    by_cases h1 : 2 ^ 63 ≤ n
    · simp [h1] at h
    · by_cases h2 : r.length < n
      · simp [h1, h2] at h
      · simp [h1, h2] at h
        obtain ⟨rfl, rfl⟩ := h
        obtain ⟨hdr, hh, e⟩ := decodeOfType_sound hd
        have hlen : (r.take n).length = n := by simp; omega
        refine ⟨hdr ++ r.take n, ⟨hdr, by rw [hlen]; exact hh, rfl⟩, ?_⟩
        rw [e, List.append_assoc, List.take_append_drop]

theorem decodeBytesOfType_complete {t : Nat} {item v : Bytes} (h : IsString t item v) (hl : v.length < 2 ^ 63)
    (rest : Bytes) : decodeBytesOfType t (item ++ rest) = some (v, rest) := by
  obtain ⟨hd, hh, rfl⟩ := h
  unfold decodeBytesOfType
  rw [List.append_assoc, decodeOfType_complete hh]
  have : ¬ (2 ^ 63 ≤ v.length) := by omega
  simp [this]

/-- a proper prefix of a complete string item is never accepted -/
theorem decodeBytesOfType_truncated {t : Nat} {item v : Bytes} (h : IsString t item v) (k : Nat) (hk : k < item.length) :
    decodeBytesOfType t (item.take k) = none := by
  cases hd : decodeBytesOfType t (item.take k) with
  | none => rfl
  | some p =>
    exfalso
    obtain ⟨v', rest⟩ := p
    obtain ⟨item', ⟨h', hh', e'⟩, e⟩ := decodeBytesOfType_sound hd
    obtain ⟨h0, hh0, e0⟩ := h
    -- item = item.take k ++ item.drop k = h' ++ v' ++ rest ++ item.drop k
    have e1 : h0 ++ v = h' ++ (v' ++ rest ++ item.drop k) := by
      rw [← e0]
      conv => lhs; rw [← List.take_append_drop k item]
      rw [e, e']; simp
    obtain ⟨rfl, _, hlen, e2⟩ := isHead_prefix_unique hh0 hh' e1
    have := congrArg List.length e2
    have hk' : (item.take k).length = k := by simp; omega
    have := congrArg List.length e
    simp [e', e0] at *
    omega

end WebPkg.Cbor
