import WebPkg.Model.CertChain
import WebPkg.Properties.C11
import WebPkg.Properties.C12
import WebPkg.Proofs.SxgSpec
/-
  application/cert-chain+cbor (go/signedexchange/certurl/certchain.go) and RFC 6962 SCT lists (sct.go).
  Model: Model/CertChain.lean.
  1  encodeAugCert_ok / encodeAugCert_closed   the three keys never collide; closed form of the map
  2  write_iff_validate                        `Write` succeeds exactly on valid chains
  3  write_canonical(_pairs)                   array head, magic, one canonical CBOR map per certificate
  4  read_write                                `ReadCertChain ∘ Write = id`
  5  read_validates                            only valid chains of parser-accepted certificates are returned
  6  sct_roundtrip / sct_fails_iff / sct_layout   `SerializeSCTList` against an independent RFC 6962 parser
-/
namespace WebPkg.CertChain
open WebPkg.Cbor

/-! ### 6. SCT lists (RFC 6962 section 3.3) -/

/-- the elements of `sct_list`: 2-byte big-endian length, then that many bytes, until the body is
    exhausted (`fuel` bounds the number of elements). -/
def parseSCTs : Nat → Bytes → Option (List Bytes)
  | _, [] => some []
  | 0, _ :: _ => none
  | _ + 1, [_] => none
  | fuel + 1, b0 :: b1 :: rest =>
    if rest.length < beVal [b0, b1] then none
    else match parseSCTs fuel (rest.drop (beVal [b0, b1])) with
      | some l => some (rest.take (beVal [b0, b1]) :: l)
      | none => none

/-- `SignedCertificateTimestampList`: the 2-byte total length must equal the remaining length. -/
def parseSCTList (bs : Bytes) : Option (List Bytes) :=
  match bs with
  | b0 :: b1 :: body => if beVal [b0, b1] = body.length then parseSCTs body.length body else none
  | _ => none

/-- the same parser, additionally enforcing the lower bounds `<1..2^16-1>` of RFC 6962 on the list and
    on every `SerializedSCT`. -/
def parseSCTListStrict (bs : Bytes) : Option (List Bytes) :=
  match parseSCTList bs with
  | some l => if !l.isEmpty && l.all (fun s => !s.isEmpty) then some l else none
  | none => none

def sctBody (scts : List Bytes) : Bytes := (scts.map fun s => beBytes 2 s.length ++ s).flatten
def sctTotal (scts : List Bytes) : Nat := (scts.map fun s => s.length + 2).sum

theorem beBytes_two (n : Nat) : beBytes 2 n = [UInt8.ofNat (n / 256 % 256), UInt8.ofNat (n % 256)] := by
  simp [beBytes]

theorem sctBody_cons (s : Bytes) (r : List Bytes) : sctBody (s :: r) = beBytes 2 s.length ++ (s ++ sctBody r) := by
  simp [sctBody]

theorem sctTotal_cons (s : Bytes) (r : List Bytes) : sctTotal (s :: r) = s.length + 2 + sctTotal r := by
  simp [sctTotal]

theorem sctBody_length (scts : List Bytes) : (sctBody scts).length = sctTotal scts := by
  induction scts with
  | nil => rfl
  | cons s r ih =>
    rw [sctBody_cons, sctTotal_cons, List.length_append, List.length_append, beBytes_length, ih]
    omega

theorem length_le_sctTotal (scts : List Bytes) : scts.length ≤ sctTotal scts := by
  induction scts with
  | nil => exact Nat.zero_le _
  | cons s r ih => rw [sctTotal_cons, List.length_cons]; omega

theorem parseSCTs_nil (fuel : Nat) : parseSCTs fuel [] = some [] := by
  cases fuel <;> rfl

theorem parseSCTs_body (scts : List Bytes) (h : ∀ s ∈ scts, s.length ≤ 65535) :
    ∀ fuel, scts.length ≤ fuel → parseSCTs fuel (sctBody scts) = some scts := by
  induction scts with
  | nil => intro fuel _; exact parseSCTs_nil fuel
  | cons s r ih =>
    intro fuel hf
    cases fuel with
    | zero => simp at hf
    | succ fuel =>
      have hs : s.length < 256 ^ 2 := by
        have := h s (List.mem_cons_self ..)
        omega
      have hv : beVal [UInt8.ofNat (s.length / 256 % 256), UInt8.ofNat (s.length % 256)] = s.length := by
        rw [← beBytes_two]; exact beVal_beBytes_of_lt hs
      have ihr := ih (fun x hx => h x (List.mem_cons_of_mem _ hx)) fuel (by simpa using hf)
      rw [sctBody_cons, beBytes_two]
      show parseSCTs (fuel + 1) (_ :: _ :: (s ++ sctBody r)) = _
      rw [parseSCTs, hv]
      have hlt : ¬ (s ++ sctBody r).length < s.length := by
        rw [List.length_append]; omega
      rw [if_neg hlt, List.drop_left, List.take_left, ihr]

/-- layout: total length, then each SCT with its own length prefix; nothing exceeds 16 bits -/
theorem sct_layout (scts : List Bytes) (out : Bytes) (h : serializeSCTList scts = some out) :
    out = beBytes 2 (scts.map fun s => s.length + 2).sum ++ (scts.map fun s => beBytes 2 s.length ++ s).flatten ∧
      (scts.map fun s => s.length + 2).sum ≤ 65535 ∧ ∀ s ∈ scts, s.length ≤ 65535 := by
  unfold serializeSCTList at h
  by_cases h1 : scts.any (fun s => s.length > 65535) = true
  · rw [if_pos h1] at h; cases h
  · rw [if_neg h1] at h
    simp only at h
    by_cases h2 : (scts.map fun s => s.length + 2).sum > 65535
    · rw [if_pos h2] at h; cases h
    · rw [if_neg h2] at h
      injection h with h
      refine ⟨h.symm, by omega, ?_⟩
      intro s hs
      apply Classical.byContradiction
      intro hn
      apply h1
      rw [List.any_eq_true]
      exact ⟨s, hs, by simpa using hn⟩

/-- `SerializeSCTList` fails exactly when an SCT or the whole list does not fit its 16-bit length -/
theorem sct_fails_iff (scts : List Bytes) :
    serializeSCTList scts = none ↔
      ((∃ s ∈ scts, 65535 < s.length) ∨ 65535 < (scts.map fun s => s.length + 2).sum) := by
  unfold serializeSCTList
  by_cases h1 : scts.any (fun s => s.length > 65535) = true
  · rw [if_pos h1]
    rw [List.any_eq_true] at h1
    obtain ⟨s, hs, hl⟩ := h1
    exact ⟨fun _ => Or.inl ⟨s, hs, by simpa using hl⟩, fun _ => rfl⟩
  · rw [if_neg h1]
    simp only
    by_cases h2 : (scts.map fun s => s.length + 2).sum > 65535
    · rw [if_pos h2]
      exact ⟨fun _ => Or.inr h2, fun _ => rfl⟩
    · rw [if_neg h2]
      constructor
      · intro h; cases h
      · rintro (⟨s, hs, hl⟩ | hl)
        · exfalso; apply h1
          rw [List.any_eq_true]
          exact ⟨s, hs, by simpa using hl⟩
        · exact absurd hl h2

/-- what `SerializeSCTList` writes is read back, SCT by SCT, by the independent parser -/
theorem sct_roundtrip (scts : List Bytes) (out : Bytes) (h : serializeSCTList scts = some out) :
    parseSCTList out = some scts := by
  obtain ⟨ho, ht, hs⟩ := sct_layout scts out h
  have hb : out = beBytes 2 (sctTotal scts) ++ sctBody scts := ho
  have htl : sctTotal scts < 256 ^ 2 := by
    have : sctTotal scts ≤ 65535 := ht
    omega
  have hv : beVal [UInt8.ofNat (sctTotal scts / 256 % 256), UInt8.ofNat (sctTotal scts % 256)] = sctTotal scts := by
    rw [← beBytes_two]; exact beVal_beBytes_of_lt htl
  rw [hb, beBytes_two]
  show parseSCTList (_ :: _ :: sctBody scts) = _
  unfold parseSCTList
  simp only [hv, sctBody_length, if_true]
  exact parseSCTs_body scts hs _ (length_le_sctTotal scts)

/-- the serializer does **not** enforce the lower bounds of RFC 6962 (`<1..2^16-1>`): the strict parser
    reads the output back exactly when the list and every SCT are non-empty. -/
theorem sct_roundtrip_strict_iff (scts : List Bytes) (out : Bytes) (h : serializeSCTList scts = some out) :
    parseSCTListStrict out = some scts ↔ (scts ≠ [] ∧ ∀ s ∈ scts, s ≠ []) := by
  unfold parseSCTListStrict
  rw [sct_roundtrip scts out h]
  simp only
  by_cases hc : (!scts.isEmpty && scts.all (fun s => !s.isEmpty)) = true
  · rw [if_pos hc]
    simp only [Bool.and_eq_true, Bool.not_eq_true', List.isEmpty_eq_false_iff, List.all_eq_true] at hc
    exact ⟨fun _ => ⟨hc.1, fun s hs => hc.2 s hs⟩, fun _ => rfl⟩
  · rw [if_neg hc]
    constructor
    · intro h; cases h
    · rintro ⟨h1, h2⟩
      exfalso; apply hc
      simp only [Bool.and_eq_true, Bool.not_eq_true', List.isEmpty_eq_false_iff, List.all_eq_true]
      exact ⟨h1, fun s hs => h2 s hs⟩

/-! witnesses: values outside the RFC 6962 ranges are serialized without complaint -/
example : serializeSCTList [] = some [0, 0] := by decide
example : serializeSCTList [[]] = some [0, 2, 0, 0] := by decide
example : parseSCTListStrict [0, 0] = none := by decide
example : parseSCTList [0, 7, 0, 2, 0xAA, 0xBB, 0, 1, 0xCC] = some [[0xAA, 0xBB], [0xCC]] := by decide
example : parseSCTList [0, 6, 0, 2, 0xAA, 0xBB, 0, 1, 0xCC] = none := by decide

/-! ### 1. one augmented certificate -/

def optEntry (k : Bytes) : Option Bytes → List Entry
  | some v => [(textItem k, encodeBytes v)]
  | none => []

/-- the entries in the order `EncodeTo` hands them to `EncodeMap` -/
def augEntries (a : AugCert) : List Entry :=
  [(textItem kCert, encodeBytes a.cert)] ++ optEntry kOcsp a.ocsp ++ optEntry kSct a.sct

/-- the entries in bytewise order of the encoded keys: 63 "sct" < 64 "cert" < 64 "ocsp" -/
def augSorted (a : AugCert) : List Entry :=
  optEntry kSct a.sct ++ ([(textItem kCert, encodeBytes a.cert)] ++ optEntry kOcsp a.ocsp)

def augCount (a : AugCert) : Nat :=
  1 + (if a.ocsp.isSome then 1 else 0) + (if a.sct.isSome then 1 else 0)

def optBytes (k : Bytes) : Option Bytes → Bytes
  | some v => textItem k ++ encodeBytes v
  | none => []

/-- closed form of `AugmentedCertificate.EncodeTo` -/
def encAug (a : AugCert) : Bytes :=
  encodeHead 5 (augCount a) ++ optBytes kSct a.sct ++ (textItem kCert ++ encodeBytes a.cert) ++ optBytes kOcsp a.ocsp

theorem encodeAugCert_eq (a : AugCert) : encodeAugCert a = encodeMap (augEntries a) := by
  obtain ⟨c, o, s⟩ := a
  cases o <;> cases s <;> rfl

/-- the same entries with the spec's `tstr` / `bstr` items -/
theorem augEntries_spec (a : AugCert) : augEntries a =
    [(Spec.Sxg.tstr kCert, Spec.Sxg.bstr a.cert)] ++
    (match a.ocsp with | some o => [(Spec.Sxg.tstr kOcsp, Spec.Sxg.bstr o)] | none => []) ++
    (match a.sct with | some s => [(Spec.Sxg.tstr kSct, Spec.Sxg.bstr s)] | none => []) := by
  obtain ⟨c, o, s⟩ := a
  cases o <;> cases s <;> rfl

theorem augEntries_length (a : AugCert) : (augEntries a).length = augCount a := by
  obtain ⟨c, o, s⟩ := a
  cases o <;> cases s <;> rfl

theorem augCount_le (a : AugCert) : augCount a ≤ 3 := by
  obtain ⟨c, o, s⟩ := a
  cases o <;> cases s <;> simp [augCount]

theorem key_order : ([textItem kSct, textItem kCert, textItem kOcsp] : List Bytes).Pairwise (fun a b => blt a b = true) := by
  decide +kernel

/-- "cert", "ocsp", "sct" have pairwise distinct encodings -/
theorem augEntries_nodup (a : AugCert) : ((augEntries a).map Prod.fst).Nodup := by
  obtain ⟨c, o, s⟩ := a
  cases o <;> cases s
  · show ([textItem kCert] : List Bytes).Nodup; decide +kernel
  · show ([textItem kCert, textItem kSct] : List Bytes).Nodup; decide +kernel
  · show ([textItem kCert, textItem kOcsp] : List Bytes).Nodup; decide +kernel
  · show ([textItem kCert, textItem kOcsp, textItem kSct] : List Bytes).Nodup; decide +kernel

theorem augSorted_perm (a : AugCert) : (augSorted a).Perm (augEntries a) := List.perm_append_comm

theorem entryLe_pairwise_of_keys (l : List Entry) (h : (l.map Prod.fst).Pairwise (fun a b => ble a b = true)) :
    l.Pairwise (fun a b => entryLe a b = true) := by
  rw [List.pairwise_map] at h
  exact h

theorem augSorted_sorted (a : AugCert) : (augSorted a).Pairwise (fun x y => entryLe x y = true) := by
  apply entryLe_pairwise_of_keys
  obtain ⟨c, o, s⟩ := a
  cases o <;> cases s
  · show ([textItem kCert] : List Bytes).Pairwise _; decide +kernel
  · show ([textItem kSct, textItem kCert] : List Bytes).Pairwise _; decide +kernel
  · show ([textItem kCert, textItem kOcsp] : List Bytes).Pairwise _; decide +kernel
  · show ([textItem kSct, textItem kCert, textItem kOcsp] : List Bytes).Pairwise _; decide +kernel

/-- `EncodeMap` on distinct keys emits *the* key-sorted arrangement, whichever way it is found -/
theorem encodeMap_of_sorted (es l : List Entry) (hp : l.Perm es) (hnd : (es.map Prod.fst).Nodup)
    (hs : l.Pairwise (fun a b => entryLe a b = true)) :
    encodeMap es = .ok (encodeHead 5 es.length ++ (l.map fun e => e.1 ++ e.2).flatten) := by
  have e := C11.encodeMap_sort_independent es l hp hnd hs
  have hd := (hasAdjDup_sort_iff es).mpr hnd
  unfold encodeMap
  simp only [hd, Bool.false_eq_true, if_false, encodeMapHeader]
  rw [← e]

theorem augSorted_flatten (a : AugCert) : ((augSorted a).map fun e => e.1 ++ e.2).flatten =
    optBytes kSct a.sct ++ (textItem kCert ++ encodeBytes a.cert) ++ optBytes kOcsp a.ocsp := by
  obtain ⟨c, o, s⟩ := a
  cases o <;> cases s <;> simp [augSorted, optEntry, optBytes]

/-- closed form: map head with the number of present fields, then `sct` (if present), `cert`,
    `ocsp` (if present) -/
theorem encodeAugCert_closed (a : AugCert) : encodeAugCert a = .ok (encAug a) := by
  rw [encodeAugCert_eq, encodeMap_of_sorted _ _ (augSorted_perm a) (augEntries_nodup a) (augSorted_sorted a),
    augSorted_flatten, augEntries_length]
  simp only [encAug, List.append_assoc]

theorem encodeAugCert_closed' (a : AugCert) : encodeAugCert a =
    .ok (encodeHead 5 (1 + (if a.ocsp.isSome then 1 else 0) + (if a.sct.isSome then 1 else 0)) ++
      (match a.sct with | some s => textItem kSct ++ encodeBytes s | none => []) ++
      (textItem kCert ++ encodeBytes a.cert) ++
      (match a.ocsp with | some o => textItem kOcsp ++ encodeBytes o | none => [])) := by
  rw [encodeAugCert_closed]
  obtain ⟨c, o, s⟩ := a
  cases o <;> cases s <;> rfl

/-- `EncodeTo` never fails -/
theorem encodeAugCert_ok (a : AugCert) : ∃ out, encodeAugCert a = .ok out := ⟨_, encodeAugCert_closed a⟩

/-- the same fact obtained from the duplicate-key criterion C11.T6 -/
theorem encodeAugCert_no_dup (a : AugCert) : encodeAugCert a ≠ .error .duplicatedKey := by
  rw [encodeAugCert_eq]
  intro h
  exact (C11.encodeMap_dup_iff _).mp h (augEntries_nodup a)

theorem encAug_canonical (a : AugCert) : Spec.Sxg.IsCanonicalMap (encAug a) (augEntries a) :=
  Sxg.encodeMap_isCanonical _ _ (by rw [← encodeAugCert_eq]; exact encodeAugCert_closed a)

/-! ### 2. `Write` -/

theorem encodeAll_eq (chain : List AugCert) : encodeAll chain = .ok (chain.map encAug).flatten := by
  induction chain with
  | nil => rfl
  | cons a rest ih =>
    rw [encodeAll]
    simp only [bind, Except.bind, pure, Except.pure, encodeAugCert_closed, ih, List.map_cons, List.flatten_cons]

theorem write_eq (chain : List AugCert) : write chain =
    if validate chain = true then
      some (encodeHead 4 (chain.length + 1) ++ textItem magic ++ (chain.map encAug).flatten)
    else none := by
  unfold write
  rw [encodeAll_eq]
  cases hv : validate chain <;> simp [encodeArrayHeader]

/-- `Write` succeeds exactly on chains accepted by `Validate` -/
theorem write_iff_validate (chain : List AugCert) : (write chain).isSome = true ↔ validate chain = true := by
  rw [write_eq]
  cases hv : validate chain <;> simp

theorem write_some (chain : List AugCert) (out : Bytes) (h : write chain = some out) :
    validate chain = true ∧
      out = encodeHead 4 (chain.length + 1) ++ textItem magic ++ (chain.map encAug).flatten := by
  rw [write_eq] at h
  by_cases hv : validate chain = true
  · rw [if_pos hv] at h
    injection h with h
    exact ⟨hv, h.symm⟩
  · rw [if_neg hv] at h; cases h

/-! ### 3. the file is an array of the magic string and one canonical map per certificate -/

theorem write_canonical_pairs (chain : List AugCert) (out : Bytes) (h : write chain = some out) :
    ∃ items : List Bytes, items.length = chain.length ∧
      out = encodeHead 4 (chain.length + 1) ++ textItem magic ++ items.flatten ∧
      ∀ i (hi : i < chain.length), Spec.Sxg.IsCanonicalMap (items.getD i []) (augEntries chain[i]) := by
  obtain ⟨_, ho⟩ := write_some chain out h
  refine ⟨chain.map encAug, List.length_map _, ho, ?_⟩
  intro i hi
  have : (chain.map encAug).getD i [] = encAug chain[i] := by
    simp [List.getD_eq_getElem?_getD, hi]
  rw [this]
  exact encAug_canonical _

theorem write_canonical (chain : List AugCert) (out : Bytes) (h : write chain = some out) :
    ∃ items : List Bytes, items.length = chain.length ∧
      out = encodeHead 4 (chain.length + 1) ++ textItem magic ++ items.flatten ∧
      ∀ i, i < chain.length → ∃ pairs, Spec.Sxg.IsCanonicalMap (items.getD i []) pairs := by
  obtain ⟨items, h1, h2, h3⟩ := write_canonical_pairs chain out h
  exact ⟨items, h1, h2, fun i hi => ⟨_, h3 i hi⟩⟩

/-! ### 4. `ReadCertChain ∘ Write = id` -/

theorem magic_utf8 : utf8Valid magic = true := by decide +kernel

theorem isString_textItem (k : Bytes) (hk : k.length < 2 ^ 64) : Spec.Cbor.IsString 3 (textItem k) k :=
  ⟨_, encodeHead_isHead 3 _ (by decide) hk, rfl⟩

theorem decodeEntries_zero (parseOk : Bytes → Bool) (bs : Bytes) (acc : Option Bytes × Option Bytes × Option Bytes) :
    decodeEntries parseOk 0 bs acc = some (acc, bs) := by
  rw [decodeEntries]

/-- one iteration of the entry loop on an entry written by the encoder -/
theorem decodeEntries_step (parseOk : Bytes → Bool) (n : Nat) (k v rest : Bytes)
    (acc : Option Bytes × Option Bytes × Option Bytes)
    (hu : utf8Valid k = true) (hk : k.length < 2 ^ 63) (hv : v.length < 2 ^ 63) :
    decodeEntries parseOk (n + 1) (textItem k ++ (encodeBytes v ++ rest)) acc =
      if k = kCert then (if parseOk v then decodeEntries parseOk n rest (some v, acc.2.1, acc.2.2) else none)
      else if k = kOcsp then decodeEntries parseOk n rest (acc.1, some v, acc.2.2)
      else if k = kSct then decodeEntries parseOk n rest (acc.1, acc.2.1, some v)
      else decodeEntries parseOk n rest acc := by
  rw [decodeEntries, C12.decodeText_complete _ _ (isString_textItem k (by omega)) hk hu]
  simp only
  rw [C12.roundtrip_bytes v hv]

theorem step_cert (parseOk : Bytes → Bool) (n : Nat) (v rest : Bytes) (acc : Option Bytes × Option Bytes × Option Bytes)
    (hp : parseOk v = true) (hv : v.length < 2 ^ 63) :
    decodeEntries parseOk (n + 1) (textItem kCert ++ (encodeBytes v ++ rest)) acc =
      decodeEntries parseOk n rest (some v, acc.2.1, acc.2.2) := by
  rw [decodeEntries_step parseOk n kCert v rest acc (by decide +kernel) (by decide) hv, if_pos rfl, if_pos hp]

theorem step_ocsp (parseOk : Bytes → Bool) (n : Nat) (v rest : Bytes) (acc : Option Bytes × Option Bytes × Option Bytes)
    (hv : v.length < 2 ^ 63) :
    decodeEntries parseOk (n + 1) (textItem kOcsp ++ (encodeBytes v ++ rest)) acc =
      decodeEntries parseOk n rest (acc.1, some v, acc.2.2) := by
  rw [decodeEntries_step parseOk n kOcsp v rest acc (by decide +kernel) (by decide) hv, if_neg (by decide), if_pos rfl]

theorem step_sct (parseOk : Bytes → Bool) (n : Nat) (v rest : Bytes) (acc : Option Bytes × Option Bytes × Option Bytes)
    (hv : v.length < 2 ^ 63) :
    decodeEntries parseOk (n + 1) (textItem kSct ++ (encodeBytes v ++ rest)) acc =
      decodeEntries parseOk n rest (acc.1, acc.2.1, some v) := by
  rw [decodeEntries_step parseOk n kSct v rest acc (by decide +kernel) (by decide) hv, if_neg (by decide),
    if_neg (by decide), if_pos rfl]

/-- `DecodeAugmentedCertificateFrom` inverts `EncodeTo` and consumes exactly the map -/
theorem decodeAugCert_encAug (parseOk : Bytes → Bool) (a : AugCert) (rest : Bytes)
    (hp : parseOk a.cert = true) (hc : a.cert.length < 2 ^ 63)
    (ho : ∀ o, a.ocsp = some o → o.length < 2 ^ 63) (hs : ∀ s, a.sct = some s → s.length < 2 ^ 63) :
    decodeAugCert parseOk (encAug a ++ rest) = some (a, rest) := by
  obtain ⟨c, o, s⟩ := a
  unfold decodeAugCert
  cases o with
  | none =>
    cases s with
    | none =>
      have e : encAug ⟨c, none, none⟩ ++ rest = encodeMapHeader (0 + 1) ++ (textItem kCert ++ (encodeBytes c ++ rest)) := by
        simp [encAug, augCount, optBytes, encodeMapHeader]
      rw [e, C12.roundtrip_mapHeader _ (by decide)]
      simp only [step_cert parseOk _ c _ _ hp hc, decodeEntries_zero]
    | some s =>
      have hs' := hs s rfl
      have e : encAug ⟨c, none, some s⟩ ++ rest =
          encodeMapHeader (0 + 1 + 1) ++ (textItem kSct ++ (encodeBytes s ++ (textItem kCert ++ (encodeBytes c ++ rest)))) := by
        simp [encAug, augCount, optBytes, encodeMapHeader]
      rw [e, C12.roundtrip_mapHeader _ (by decide)]
      simp only [step_sct parseOk _ s _ _ hs', step_cert parseOk _ c _ _ hp hc, decodeEntries_zero]
  | some o =>
    have ho' := ho o rfl
    cases s with
    | none =>
      have e : encAug ⟨c, some o, none⟩ ++ rest =
          encodeMapHeader (0 + 1 + 1) ++ (textItem kCert ++ (encodeBytes c ++ (textItem kOcsp ++ (encodeBytes o ++ rest)))) := by
        simp [encAug, augCount, optBytes, encodeMapHeader]
      rw [e, C12.roundtrip_mapHeader _ (by decide)]
      simp only [step_ocsp parseOk _ o _ _ ho', step_cert parseOk _ c _ _ hp hc, decodeEntries_zero]
    | some s =>
      have hs' := hs s rfl
      have e : encAug ⟨c, some o, some s⟩ ++ rest =
          encodeMapHeader (0 + 1 + 1 + 1) ++ (textItem kSct ++ (encodeBytes s ++ (textItem kCert ++ (encodeBytes c ++
            (textItem kOcsp ++ (encodeBytes o ++ rest)))))) := by
        simp [encAug, augCount, optBytes, encodeMapHeader]
      rw [e, C12.roundtrip_mapHeader _ (by decide)]
      simp only [step_sct parseOk _ s _ _ hs', step_ocsp parseOk _ o _ _ ho', step_cert parseOk _ c _ _ hp hc,
        decodeEntries_zero]

theorem decodeCerts_encAll (parseOk : Bytes → Bool) (chain : List AugCert)
    (hp : ∀ a ∈ chain, parseOk a.cert = true)
    (hlen : ∀ a ∈ chain, a.cert.length < 2 ^ 63 ∧ (∀ o, a.ocsp = some o → o.length < 2 ^ 63) ∧
      (∀ s, a.sct = some s → s.length < 2 ^ 63)) :
    ∀ (acc : List AugCert) (rest : Bytes),
      decodeCerts parseOk chain.length ((chain.map encAug).flatten ++ rest) acc = some (acc ++ chain, rest) := by
  induction chain with
  | nil =>
    intro acc rest
    simp [decodeCerts]
  | cons a r ih =>
    intro acc rest
    have ha := hlen a (List.mem_cons_self ..)
    simp only [List.length_cons, List.map_cons, List.flatten_cons, List.append_assoc]
    rw [decodeCerts, decodeAugCert_encAug parseOk a _ (hp a (List.mem_cons_self ..)) ha.1 ha.2.1 ha.2.2]
    simp only
    rw [ih (fun x hx => hp x (List.mem_cons_of_mem _ hx)) (fun x hx => hlen x (List.mem_cons_of_mem _ hx))]
    simp

/-- every certificate's DER, the OCSP response and the SCT list come back byte for byte -/
theorem read_write (parseOk : Bytes → Bool) (chain : List AugCert) (out : Bytes) (h : write chain = some out)
    (hp : ∀ a ∈ chain, parseOk a.cert = true)
    (hlen : ∀ a ∈ chain, a.cert.length < 2 ^ 63 ∧ (∀ o, a.ocsp = some o → o.length < 2 ^ 63) ∧
      (∀ s, a.sct = some s → s.length < 2 ^ 63))
    (hn : chain.length + 1 < 2 ^ 64) : read parseOk out = some chain := by
  obtain ⟨hv, ho⟩ := write_some chain out h
  subst ho
  have hne : ¬ chain.length + 1 < 2 := by
    cases chain with
    | nil => simp [validate] at hv
    | cons a r => simp
  have hd := decodeCerts_encAll parseOk chain hp hlen [] []
  rw [List.append_nil, List.nil_append] at hd
  unfold read
  rw [List.append_assoc, show encodeHead 4 (chain.length + 1) = encodeArrayHeader (chain.length + 1) from rfl,
    C12.roundtrip_arrayHeader _ hn]
  simp only
  rw [if_neg hne, C12.decodeText_complete _ _ (isString_textItem magic (by decide)) (by decide) magic_utf8]
  simp only
  rw [if_neg (fun hx => hx rfl), Nat.add_sub_cancel, hd]
  simp only [hv, if_true]

/-! ### 5. what `ReadCertChain` returns -/

theorem decodeEntries_cert_ok (parseOk : Bytes → Bool) : ∀ (n : Nat) (bs : Bytes)
    (acc res : Option Bytes × Option Bytes × Option Bytes) (rest : Bytes),
    decodeEntries parseOk n bs acc = some (res, rest) → (∀ c, acc.1 = some c → parseOk c = true) →
    ∀ c, res.1 = some c → parseOk c = true := by
  intro n
  induction n with
  | zero =>
    intro bs acc res rest h hacc
    rw [decodeEntries] at h
    injection h with h
    injection h with h1 h2
    subst h1
    exact hacc
  | succ n ih =>
    intro bs acc res rest h hacc
    rw [decodeEntries] at h
    cases ht : decodeTextString bs with
    | none => simp only [ht] at h; cases h
    | some p =>
      obtain ⟨key, bs1⟩ := p
      simp only [ht] at h
      cases hb : decodeByteString bs1 with
      | none => simp only [hb] at h; cases h
      | some q =>
        obtain ⟨value, bs2⟩ := q
        simp only [hb] at h
        by_cases k1 : key = kCert
        · rw [if_pos k1] at h
          by_cases hp : parseOk value = true
          · rw [if_pos hp] at h
            refine ih _ _ _ _ h ?_
            intro c hc
            have hc' : some value = some c := hc
            injection hc' with hc'
            subst hc'
            exact hp
          · rw [if_neg hp] at h; cases h
        · rw [if_neg k1] at h
          by_cases k2 : key = kOcsp
          · rw [if_pos k2] at h; exact ih _ _ _ _ h hacc
          · rw [if_neg k2] at h
            by_cases k3 : key = kSct
            · rw [if_pos k3] at h; exact ih _ _ _ _ h hacc
            · rw [if_neg k3] at h; exact ih _ _ _ _ h hacc

theorem decodeAugCert_cert_ok (parseOk : Bytes → Bool) (bs : Bytes) (a : AugCert) (rest : Bytes)
    (h : decodeAugCert parseOk bs = some (a, rest)) : parseOk a.cert = true := by
  unfold decodeAugCert at h
  cases hm : decodeMapHeader bs with
  | none => simp only [hm] at h; cases h
  | some p =>
    obtain ⟨m, bs1⟩ := p
    simp only [hm] at h
    cases he : decodeEntries parseOk m bs1 (none, none, none) with
    | none => simp only [he] at h; cases h
    | some q =>
      obtain ⟨⟨oc, o, s⟩, rest'⟩ := q
      simp only [he] at h
      cases oc with
      | none => simp only at h; cases h
      | some c =>
        simp only at h
        injection h with h
        injection h with h1 h2
        subst h1
        exact decodeEntries_cert_ok parseOk m bs1 (none, none, none) (some c, o, s) rest' he
          (fun c hc => by cases hc) c rfl

theorem decodeCerts_cert_ok (parseOk : Bytes → Bool) : ∀ (n : Nat) (bs : Bytes) (acc l : List AugCert) (rest : Bytes),
    decodeCerts parseOk n bs acc = some (l, rest) → (∀ a ∈ acc, parseOk a.cert = true) →
    ∀ a ∈ l, parseOk a.cert = true := by
  intro n
  induction n with
  | zero =>
    intro bs acc l rest h hacc
    rw [decodeCerts] at h
    injection h with h
    injection h with h1 h2
    subst h1
    exact hacc
  | succ n ih =>
    intro bs acc l rest h hacc
    rw [decodeCerts] at h
    cases hd : decodeAugCert parseOk bs with
    | none => simp only [hd] at h; cases h
    | some p =>
      obtain ⟨a, r⟩ := p
      simp only [hd] at h
      refine ih _ _ _ _ h ?_
      intro x hx
      rcases List.mem_append.mp hx with hx | hx
      · exact hacc x hx
      · rw [List.mem_singleton] at hx
        subst hx
        exact decodeAugCert_cert_ok parseOk bs _ r hd

/-- only chains whose first element carries an OCSP response and whose later elements carry none
    are returned, and every returned certificate was accepted by the X.509 parser -/
theorem read_validates (parseOk : Bytes → Bool) (bs : Bytes) (chain : List AugCert)
    (h : read parseOk bs = some chain) : validate chain = true ∧ ∀ a ∈ chain, parseOk a.cert = true := by
  unfold read at h
  cases ha : decodeArrayHeader bs with
  | none => simp only [ha] at h; cases h
  | some p =>
    obtain ⟨n, bs1⟩ := p
    simp only [ha] at h
    by_cases hn : n < 2
    · rw [if_pos hn] at h; cases h
    · rw [if_neg hn] at h
      cases ht : decodeTextString bs1 with
      | none => simp only [ht] at h; cases h
      | some q =>
        obtain ⟨m, bs2⟩ := q
        simp only [ht] at h
        by_cases hm : m ≠ magic
        · rw [if_pos hm] at h; cases h
        · rw [if_neg hm] at h
          cases hd : decodeCerts parseOk (n - 1) bs2 [] with
          | none => simp only [hd] at h; cases h
          | some r =>
            obtain ⟨l, rest⟩ := r
            simp only [hd] at h
            by_cases hv : validate l = true
            · rw [if_pos hv] at h
              injection h with h
              subst h
              exact ⟨hv, decodeCerts_cert_ok parseOk _ _ _ _ _ hd (fun a ha => by cases ha)⟩
            · rw [if_neg hv] at h; cases h

end WebPkg.CertChain
