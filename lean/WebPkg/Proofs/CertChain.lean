import WebPkg.Model.CertChain
import WebPkg.Properties.C11
import WebPkg.Properties.C12
import WebPkg.Proofs.SxgSpec
/-
  application/cert-chain+cbor (go/signedexchange/certurl/certchain.go) and RFC 6962 SCT lists (sct.go).
  Model: Model/CertChain.lean.
  1  encodeAugCert_ok / encodeAugCert_closed   the three keys never collide; closed form of the map
  2  write_iff_validate                        `Write` succeeds exactly on valid chains
  3  write_canonical(_pairs)                   array head, magic, one canonical CBOR map per certificate
  4  read_write                                `ReadCertChain ∘ Write = id`
  5  read_validates                            only valid chains of parser-accepted certificates are returned
  6  sct_roundtrip / sct_fails_iff / sct_layout   `SerializeSCTList` against an independent RFC 6962 parser
-/
namespace WebPkg.CertChain
open WebPkg.Cbor

/-! ### 6. SCT lists (RFC 6962 section 3.3) -/

/-- the elements of `sct_list`: 2-byte big-endian length, then that many bytes, until the body is
    exhausted (`fuel` bounds the number of elements). -/
def parseSCTs : Nat → Bytes → Option (List Bytes)
  | _, [] => some []
  | 0, _ :: _ => none
  | _ + 1, [_] => none
  | fuel + 1, b0 :: b1 :: rest =>
    if rest.length < beVal [b0, b1] then none
    else match parseSCTs fuel (rest.drop (beVal [b0, b1])) with
      | some l => some (rest.take (beVal [b0, b1]) :: l)
      | none => none

/-- `SignedCertificateTimestampList`: the 2-byte total length must equal the remaining length. -/
def parseSCTList (bs : Bytes) : Option (List Bytes) :=
  match bs with
  | b0 :: b1 :: body => if beVal [b0, b1] = body.length then parseSCTs body.length body else none
  | _ => none

/-- the same parser, additionally enforcing the lower bounds `<1..2^16-1>` of RFC 6962 on the list and
    on every `SerializedSCT`. -/
def parseSCTListStrict (bs : Bytes) : Option (List Bytes) :=
  match parseSCTList bs with
  | some l => if !l.isEmpty && l.all (fun s => !s.isEmpty) then some l else none
  | none => none

def sctBody (scts : List Bytes) : Bytes := (scts.map fun s => beBytes 2 s.length ++ s).flatten
def sctTotal (scts : List Bytes) : Nat := (scts.map fun s => s.length + 2).sum

theorem beBytes_two (n : Nat) : beBytes 2 n = [UInt8.ofNat (n / 256 % 256), UInt8.ofNat (n % 256)] := by
  simp [beBytes]

theorem sctBody_cons (s : Bytes) (r : List Bytes) : sctBody (s :: r) = beBytes 2 s.length ++ (s ++ sctBody r) := by
  simp [sctBody]

theorem sctTotal_cons (s : Bytes) (r : List Bytes) : sctTotal (s :: r) = s.length + 2 + sctTotal r := by
  simp [sctTotal]

theorem sctBody_length (scts : List Bytes) : (sctBody scts).length = sctTotal scts := by
  induction scts with
  | nil => rfl
  | cons s r ih =>
    rw [sctBody_cons, sctTotal_cons, List.length_append, List.length_append, beBytes_length, ih]
    omega

theorem length_le_sctTotal (scts : List Bytes) : scts.length ≤ sctTotal scts := by
  induction scts with
  | nil => exact Nat.zero_le _
  | cons s r ih => rw [sctTotal_cons, List.length_cons]; omega

theorem parseSCTs_nil (fuel : Nat) : parseSCTs fuel [] = some [] := by
  cases fuel <;> rfl

theorem parseSCTs_body (scts : List Bytes) (h : ∀ s ∈ scts, s.length ≤ 65535) :
    ∀ fuel, scts.length ≤ fuel → parseSCTs fuel (sctBody scts) = some scts := by
  induction scts with
  | nil => intro fuel _; exact parseSCTs_nil fuel
  | cons s r ih =>
    intro fuel hf
    cases fuel with
    | zero => simp at hf
    | succ fuel =>
      have hs : s.length < 256 ^ 2 := by
        have := h s (List.mem_cons_self ..)
        omega
      have hv : beVal [UInt8.ofNat (s.length / 256 % 256), UInt8.ofNat (s.length % 256)] = s.length := by
        rw [← beBytes_two]; exact beVal_beBytes_of_lt hs
      have ihr := ih (fun x hx => h x (List.mem_cons_of_mem _ hx)) fuel (by simpa using hf)
      rw [sctBody_cons, beBytes_two]
      show parseSCTs (fuel + 1) (_ :: _ :: (s ++ sctBody r)) = _
      rw [parseSCTs, hv]
      have hlt : ¬ (s ++ sctBody r).length < s.length := by
        rw [List.length_append]; omega
      rw [if_neg hlt, List.drop_left, List.take_left, ihr]

/-- layout: total length, then each SCT with its own length prefix; nothing exceeds 16 bits -/
theorem sct_layout (scts : List Bytes) (out : Bytes) (h : serializeSCTList scts = some out) :
    out = beBytes 2 (scts.map fun s => s.length + 2).sum ++ (scts.map fun s => beBytes 2 s.length ++ s).flatten ∧
      (scts.map fun s => s.length + 2).sum ≤ 65535 ∧ ∀ s ∈ scts, s.length ≤ 65535 := by
  unfold serializeSCTList at h
  by_cases h1 : scts.any (fun s => s.length > 65535) = true
  · rw [if_pos h1] at h; cases h
  · rw [if_neg h1] at h
    simp only at h
    by_cases h2 : (scts.map fun s => s.length + 2).sum > 65535
    · rw [if_pos h2] at h; cases h
    · rw [if_neg h2] at h
      injection h with h
      refine ⟨h.symm, by omega, ?_⟩
      intro s hs
      apply Classical.byContradiction
      intro hn
      apply h1
      rw [List.any_eq_true]
      exact ⟨s, hs, by simpa using hn⟩

/-- `SerializeSCTList` fails exactly when an SCT or the whole list does not fit its 16-bit length -/
theorem sct_fails_iff (scts : List Bytes) :
    serializeSCTList scts = none ↔
      ((∃ s ∈ scts, 65535 < s.length) ∨ 65535 < (scts.map fun s => s.length + 2).sum) := by
  unfold serializeSCTList
  by_cases h1 : scts.any (fun s => s.length > 65535) = true
  · rw [if_pos h1]
    rw [List.any_eq_true] at h1
    obtain ⟨s, hs, hl⟩ := h1
    exact ⟨fun _ => Or.inl ⟨s, hs, by simpa using hl⟩, fun _ => rfl⟩
  · rw [if_neg h1]
    simp only
    by_cases h2 : (scts.map fun s => s.length + 2).sum > 65535
    · rw [if_pos h2]
      exact ⟨fun _ => Or.inr h2, fun _ => rfl⟩
    · rw [if_neg h2]
      constructor
      · intro h; cases h
      · rintro (⟨s, hs, hl⟩ | hl)
        · exfalso; apply h1
          rw [List.any_eq_true]
          exact ⟨s, hs, by simpa using hl⟩
        · exact absurd hl h2

/-- what `SerializeSCTList` writes is read back, SCT by SCT, by the independent parser -/
theorem sct_roundtrip (scts : List Bytes) (out : Bytes) (h : serializeSCTList scts = some out) :
    parseSCTList out = some scts := by
  obtain ⟨ho, ht, hs⟩ := sct_layout scts out h
  have hb : out = beBytes 2 (sctTotal scts) ++ sctBody scts := ho
  have htl : sctTotal scts < 256 ^ 2 := by
    have : sctTotal scts ≤ 65535 := ht
    omega
  have hv : beVal [UInt8.ofNat (sctTotal scts / 256 % 256), UInt8.ofNat (sctTotal scts % 256)] = sctTotal scts := by
    rw [← beBytes_two]; exact beVal_beBytes_of_lt htl
  rw [hb, beBytes_two]
  show parseSCTList (_ :: _ :: sctBody scts) = _
  unfold parseSCTList
  simp only [hv, sctBody_length, if_true]
  exact parseSCTs_body scts hs _ (length_le_sctTotal scts)

/-- the serializer does **not** enforce the lower bounds of RFC 6962 (`<1..2^16-1>`): the strict parser
    reads the output back exactly when the list and every SCT are non-empty. -/
theorem sct_roundtrip_strict_iff (scts : List Bytes) (out : Bytes) (h : serializeSCTList scts = some out) :
    parseSCTListStrict out = some scts ↔ (scts ≠ [] ∧ ∀ s ∈ scts, s ≠ []) := by
  unfold parseSCTListStrict
  rw [sct_roundtrip scts out h]
  simp only
  by_cases hc : (!scts.isEmpty && scts.all (fun s => !s.isEmpty)) = true
  · rw [if_pos hc]
    simp only [Bool.and_eq_true, Bool.not_eq_true', List.isEmpty_eq_false_iff, List.all_eq_true] at hc
    exact ⟨fun _ => ⟨hc.1, fun s hs => hc.2 s hs⟩, fun _ => rfl⟩
  · rw [if_neg hc]
    constructor
    · intro h; cases h
    · rintro ⟨h1, h2⟩
      exfalso; apply hc
      simp only [Bool.and_eq_true, Bool.not_eq_true', List.isEmpty_eq_false_iff, List.all_eq_true]
      exact ⟨h1, fun s hs => h2 s hs⟩

/-! witnesses: values outside the RFC 6962 ranges are serialized without complaint -/
example : serializeSCTList [] = some [0, 0] := by decide
example : serializeSCTList [[]] = some [0, 2, 0, 0] := by decide
example : parseSCTListStrict [0, 0] = none := by decide
example : parseSCTList [0, 7, 0, 2, 0xAA, 0xBB, 0, 1, 0xCC] = some [[0xAA, 0xBB], [0xCC]] := by decide
example : parseSCTList [0, 6, 0, 2, 0xAA, 0xBB, 0, 1, 0xCC] = none := by decide

end WebPkg.CertChain
