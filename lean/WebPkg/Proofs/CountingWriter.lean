import WebPkg.Model.CountingWriter
namespace WebPkg.CW

theorem destWrite_received (s : State) (n : Nat) :
    (destWrite s n).2.2.received = s.received + (destWrite s n).1 ∧ (destWrite s n).2.2.written = s.written ∧
    (destWrite s n).2.2.kind = s.kind ∧ (destWrite s n).1 ≤ n := by
  unfold destWrite
  split
  · rename_i short hk
    by_cases h1 : n ≤ s.room
    · rw [if_pos h1]; exact ⟨rfl, rfl, rfl, Nat.le_refl _⟩
    · rw [if_neg h1]
      cases short with
      | true => rw [if_pos rfl]; exact ⟨rfl, rfl, rfl, by simp only; omega⟩
      | false => rw [if_neg (by decide)]; exact ⟨by simp only; omega, rfl, rfl, by simp only; omega⟩
  · exact ⟨rfl, rfl, rfl, Nat.le_refl _⟩

/-- the accounting invariant: what the writer counted is what the destination accepted -/
def Inv (s : State) : Prop := s.written = s.received

theorem write_inv (s : State) (n : Nat) (h : Inv s) : Inv (write s n).2.2 ∧ (write s n).2.2.kind = s.kind := by
  unfold write Inv at *
  obtain ⟨h1, h2, h3, _⟩ := destWrite_received s n
  simp only
  exact ⟨by rw [h1, h2, h], h3⟩

theorem copyLoop_inv : ∀ (fuel : Nat) (s : State) (remaining chunk n : Nat), Inv s →
    Inv (copyLoop fuel s remaining chunk n).2.2 ∧ (copyLoop fuel s remaining chunk n).2.2.kind = s.kind := by
  intro fuel
  induction fuel with
  | zero => intro s _ _ _ h; exact ⟨h, rfl⟩
  | succ fuel ih =>
    intro s remaining chunk n h
    rw [copyLoop]
    by_cases h0 : remaining = 0
    · rw [if_pos h0]; exact ⟨h, rfl⟩
    · rw [if_neg h0]
      simp only
      by_cases h1 : min (min chunk 32768) remaining = 0
      · rw [if_pos h1]; exact ⟨h, rfl⟩
      · rw [if_neg h1]
        obtain ⟨r1, r2, r3, _⟩ := destWrite_received s (min (min chunk 32768) remaining)
        have hinv : Inv { (destWrite s (min (min chunk 32768) remaining)).2.2 with
            written := (destWrite s (min (min chunk 32768) remaining)).2.2.written + (destWrite s (min (min chunk 32768) remaining)).1 } := by
          unfold Inv at *; simp only; rw [r1, r2, h]
        split
        · exact ⟨hinv, r3⟩
        · split
          · exact ⟨hinv, r3⟩
          · obtain ⟨i1, i2⟩ := ih _ (remaining - min (min chunk 32768) remaining) chunk
              (n + (destWrite s (min (min chunk 32768) remaining)).1) hinv
            exact ⟨i1, by rw [i2]; exact r3⟩

theorem readFrom_inv (s : State) (total chunk : Nat) (h : Inv s) : Inv (readFrom s total chunk).2.2 := by
  unfold readFrom
  cases hk : s.kind with
  | readerFrom => unfold Inv at *; simp only; rw [h]
  | plain => exact (copyLoop_inv _ s total chunk 0 h).1
  | failing short => exact (copyLoop_inv _ s total chunk 0 h).1

theorem step_inv (s : State) (op : Op) (h : Inv s) : Inv (step s op) := by
  cases op with
  | write n => exact (write_inv s n h).1
  | readFrom t c => exact readFrom_inv s t c h

/-- for every destination kind and every sequence of Write / ReadFrom calls, `Written` equals the number of bytes the
    destination accepted -/
theorem written_eq_received (k : DestKind) (room : Nat) (ops : List Op) :
    (ops.foldl step (init k room)).written = (ops.foldl step (init k room)).received := by
  have : ∀ (ops : List Op) (s : State), Inv s → Inv (ops.foldl step s) := by
    intro ops
    induction ops with
    | nil => intro s h; exact h
    | cons op rest ih => intro s h; exact ih _ (step_inv s op h)
  exact this ops _ rfl

/-- without a fault, `ReadFrom` moves the whole source whatever the chunking -/
theorem readFrom_complete (s : State) (total chunk : Nat) (hk : s.kind ≠ .readerFrom) (hf : ∀ b, s.kind ≠ .failing b)
    (hc : 0 < chunk) : (readFrom s total chunk).1 = total ∧ (readFrom s total chunk).2.1 = false := by
  have hplain : s.kind = .plain := by
    cases h : s.kind with
    | plain => rfl
    | readerFrom => exact absurd h hk
    | failing b => exact absurd h (hf b)
  have key : ∀ (fuel : Nat) (s : State) (remaining n : Nat), s.kind = .plain → remaining < fuel →
      (copyLoop fuel s remaining chunk n).1 = n + remaining ∧ (copyLoop fuel s remaining chunk n).2.1 = false := by
    intro fuel
    induction fuel with
    | zero => intro _ _ _ _ h; omega
    | succ fuel ih =>
      intro s remaining n hs hlt
      rw [copyLoop]
      by_cases h0 : remaining = 0
      · rw [if_pos h0]; exact ⟨by omega, rfl⟩
      · rw [if_neg h0]
        simp only
        have hnr : min (min chunk 32768) remaining ≠ 0 := by omega
        rw [if_neg hnr]
        have hd : destWrite s (min (min chunk 32768) remaining) =
            (min (min chunk 32768) remaining, false, { s with received := s.received + min (min chunk 32768) remaining }) := by
          unfold destWrite; rw [hs]
        rw [hd]
        simp only [Bool.false_eq_true, if_false, Nat.lt_irrefl]
        obtain ⟨a, b⟩ := ih (State.mk s.kind s.room (s.received + min (min chunk 32768) remaining)
            (s.written + min (min chunk 32768) remaining))
          (remaining - min (min chunk 32768) remaining) (n + min (min chunk 32768) remaining) hs (by omega)
        exact ⟨by rw [a]; omega, b⟩
  unfold readFrom
  rw [hplain]
  simp only
  have := key (total + 1) s total 0 hplain (by omega)
  exact ⟨by rw [this.1]; omega, this.2⟩

end WebPkg.CW
