import WebPkg.Model.Deterministic
import WebPkg.Proofs.Cbor
namespace WebPkg.Det
open WebPkg.Cbor WebPkg.Spec.Cbor

/-! ### bytewise order: model `blt` = spec `LexLt` -/

theorem lexLt_of_blt : ∀ {a b : Bytes}, blt a b = true → LexLt a b
  | [], [], h => by simp [blt] at h
  | [], b :: bs, _ => LexLt.nil b bs
  | a :: as, [], h => by simp [blt, ble] at h
  | a :: as, b :: bs, h => by
    rw [blt_iff] at h
    simp only [ble] at h
    by_cases h1 : a < b
    · exact LexLt.head a b as bs h1
    · by_cases h2 : b < a
      · simp [h1, h2] at h
      · have e : a = b := UInt8.le_antisymm (UInt8.not_lt.mp h2) (UInt8.not_lt.mp h1)
        subst e
        simp [h1] at h
        exact LexLt.tail a as bs (lexLt_of_blt (blt_iff.mpr ⟨h.1, h.2⟩))

theorem blt_of_lexLt {a b : Bytes} (h : LexLt a b) : blt a b = true := by
  induction h with
  | nil b bs => simp [blt, ble]
  | head a b as bs hab =>
    rw [blt_iff]; simp only [ble, hab, if_true, true_and]
    intro e; injection e with e1 _; subst e1; exact absurd hab (UInt8.lt_irrefl _)
  | tail a as bs _ ih =>
    rw [blt_iff] at ih ⊢
    simp only [ble, UInt8.lt_irrefl, if_false]
    exact ⟨ih.1, fun e => ih.2 (by injection e)⟩

theorem blt_iff_lexLt {a b : Bytes} : blt a b = true ↔ LexLt a b := ⟨lexLt_of_blt, blt_of_lexLt⟩

/-! ### `unsignedIntegerDeterministic` -/

theorem aiLength_lower (ai : Nat) (h24 : 24 ≤ ai) (h28 : ai < 28) :
    (ai = 24 ∧ aiLength ai = 1 ∧ aiLowerLimit ai = 24) ∨ (ai = 25 ∧ aiLength ai = 2 ∧ aiLowerLimit ai = 256) ∨
    (ai = 26 ∧ aiLength ai = 4 ∧ aiLowerLimit ai = 2 ^ 16) ∨ (ai = 27 ∧ aiLength ai = 8 ∧ aiLowerLimit ai = 2 ^ 32) := by
  have : ai = 24 ∨ ai = 25 ∨ ai = 26 ∨ ai = 27 := by omega
  rcases this with rfl | rfl | rfl | rfl <;> simp [aiLength, aiLowerLimit]

/-- what `uintDet` accepts is exactly a shortest head; it reports (follow bytes, argument) -/
theorem uintDet_ok {b : UInt8} {rest : Bytes} {k v : Nat} (h : uintDet (b :: rest) = .ok (k, v)) :
    v < 2 ^ 64 ∧ k ≤ rest.length ∧ b :: rest.take k = encodeHead (b.toNat / 32) v ∧ (encodeHead (b.toNat / 32) v).length = k + 1 := by
  have hb := b.toNat_lt
  have hmt : b.toNat / 32 < 8 := by omega
  simp only [uintDet] at h
  generalize hai : b.toNat % 32 = ai at h
  by_cases h28 : 28 ≤ ai
  · simp [h28] at h
  · simp only [h28, if_false] at h
    by_cases h24 : ai < 24
    · simp only [h24, if_true] at h
      simp at h
      obtain ⟨rfl, rfl⟩ := h
      refine ⟨by omega, by simp, ?_, by simp [encodeHead, h24]⟩
      simp only [encodeHead, h24, if_true, List.take_zero]
      rw [← hai, ← byte_decomp]
    · simp only [h24, if_false] at h
      by_cases hl : rest.length < aiLength ai
      · simp [hl] at h
      · simp only [hl, if_false] at h
        by_cases hv : beVal (rest.take (aiLength ai)) < aiLowerLimit ai
        · simp [hv] at h
        · simp only [hv, if_false] at h
          simp at h
          obtain ⟨rfl, rfl⟩ := h
          have hlen : (rest.take (aiLength ai)).length = aiLength ai := by simp; omega
          have hlt := beVal_lt (rest.take (aiLength ai))
          rw [hlen] at hlt
          have hbe := beBytes_beVal (rest.take (aiLength ai))
          rw [hlen] at hbe
          have hbd := byte_decomp b
          rw [hai] at hbd
          rcases aiLength_lower ai (by omega) (by omega) with ⟨e, e1, e2⟩ | ⟨e, e1, e2⟩ | ⟨e, e1, e2⟩ | ⟨e, e1, e2⟩
          all_goals (
            subst e
            rw [e1] at hlt hbe hlen hv ⊢
            rw [e2] at hv
            generalize beVal (List.take _ rest) = v at *
            refine ⟨by omega, by omega, ?_, ?_⟩
            · unfold encodeHead
              have n1 : ¬ v < 24 := by omega
              first
                | (have n2 : v < 2 ^ 8 := by omega
                   simp only [n1, n2, if_true, if_false]; rw [hbe, ← hbd])
                | (have n2 : ¬ v < 2 ^ 8 := by omega
                   have n3 : v < 2 ^ 16 := by omega
                   simp only [n1, n2, n3, if_true, if_false]; rw [hbe, ← hbd])
                | (have n2 : ¬ v < 2 ^ 8 := by omega
                   have n3 : ¬ v < 2 ^ 16 := by omega
                   have n4 : v < 2 ^ 32 := by omega
                   simp only [n1, n2, n3, n4, if_true, if_false]; rw [hbe, ← hbd])
                | (have n2 : ¬ v < 2 ^ 8 := by omega
                   have n3 : ¬ v < 2 ^ 16 := by omega
                   have n4 : ¬ v < 2 ^ 32 := by omega
                   simp only [n1, n2, n3, n4, if_true, if_false]; rw [hbe, ← hbd])
            · rw [encodeHead_length]; repeat' split
              all_goals omega)


theorem uintDet_cons (mt ai : Nat) (hmt : mt < 8) (hai : ai < 32) (rest : Bytes) :
    uintDet (UInt8.ofNat (32 * mt + ai) :: rest) =
      if 28 ≤ ai then .error else if ai < 24 then .ok (0, ai)
      else if rest.length < aiLength ai then .panic
      else if beVal (rest.take (aiLength ai)) < aiLowerLimit ai then .error
      else .ok (aiLength ai, beVal (rest.take (aiLength ai))) := by
  simp only [uintDet]
  rw [(first_byte mt ai hmt hai).2]

/-- every shortest head is accepted by `uintDet`, whatever follows -/
theorem uintDet_encodeHead (mt n : Nat) (hmt : mt < 8) (hn : n < 2 ^ 64) (tail : Bytes) :
    uintDet (encodeHead mt n ++ tail) = .ok ((encodeHead mt n).length - 1, n) := by
  unfold encodeHead
  by_cases h1 : n < 24
  · simp only [h1, if_true, List.singleton_append, List.length_singleton]
    rw [uintDet_cons mt n hmt (by omega)]
    have : ¬ 28 ≤ n := by omega
    simp [this, h1]
  · simp only [h1, if_false]
    by_cases h2 : n < 2 ^ 8
    · simp only [h2, if_true, List.cons_append]
      rw [uintDet_cons mt 24 hmt (by omega)]
      have hv : beVal (beBytes 1 n) = n := beVal_beBytes_of_lt (by omega)
      simp [aiLength, aiLowerLimit, hv]; omega
    · simp only [h2, if_false]
      by_cases h3 : n < 2 ^ 16
      · simp only [h3, if_true, List.cons_append]
        rw [uintDet_cons mt 25 hmt (by omega)]
        have hv : beVal (beBytes 2 n) = n := beVal_beBytes_of_lt (by omega)
        have g1 : ¬ n < 256 := by omega
        simp [aiLength, aiLowerLimit, hv, g1]
      · simp only [h3, if_false]
        by_cases h4 : n < 2 ^ 32
        · simp only [h4, if_true, List.cons_append]
          rw [uintDet_cons mt 26 hmt (by omega)]
          have hv : beVal (beBytes 4 n) = n := beVal_beBytes_of_lt (by omega)
          have g1 : ¬ n < 65536 := by omega
          simp [aiLength, aiLowerLimit, hv, g1]
        · simp only [h4, if_false, List.cons_append]
          rw [uintDet_cons mt 27 hmt (by omega)]
          have hv : beVal (beBytes 8 n) = n := beVal_beBytes_of_lt (by omega)
          have g1 : ¬ n < 4294967296 := by omega
          simp [aiLength, aiLowerLimit, hv, g1]

theorem encodeHead_first (mt n : Nat) (hmt : mt < 8) :
    ∃ b t, encodeHead mt n = b :: t ∧ b.toNat / 32 = mt := by
  unfold encodeHead
  by_cases h1 : n < 24
  · exact ⟨_, _, by simp only [h1, if_true]; rfl, (first_byte mt n hmt (by omega)).1⟩
  · simp only [h1, if_false]
    by_cases h2 : n < 2 ^ 8
    · exact ⟨_, _, by simp only [h2, if_true]; rfl, (first_byte mt 24 hmt (by omega)).1⟩
    · simp only [h2, if_false]
      by_cases h3 : n < 2 ^ 16
      · exact ⟨_, _, by simp only [h3, if_true]; rfl, (first_byte mt 25 hmt (by omega)).1⟩
      · simp only [h3, if_false]
        by_cases h4 : n < 2 ^ 32
        · exact ⟨_, _, by simp only [h4, if_true]; rfl, (first_byte mt 26 hmt (by omega)).1⟩
        · exact ⟨_, _, by simp only [h4, if_false]; rfl, (first_byte mt 27 hmt (by omega)).1⟩


theorem isHead_bounds {h : Bytes} {mt n : Nat} (hh : IsHead h mt n) : mt < 8 ∧ n < 2 ^ 64 := by
  cases hh <;> (constructor <;> omega)

theorem shortest_iff {h : Bytes} {mt n : Nat} : ShortestHead h mt n ↔ (mt < 8 ∧ n < 2 ^ 64 ∧ h = encodeHead mt n) := by
  constructor
  · intro hs
    have := isHead_bounds hs.1
    exact ⟨this.1, this.2, shortest_unique this.1 this.2 hs⟩
  · rintro ⟨h1, h2, rfl⟩
    exact encodeHead_shortest mt n h1 h2

theorem encodeHead_length_pos (mt n : Nat) : 0 < (encodeHead mt n).length := by
  rw [encodeHead_length]; repeat' split
  all_goals omega

theorem detItem_ne_nil {i : Bytes} (h : DetItem i) : i ≠ [] := by
  have key : ∀ (h : Bytes) (mt n : Nat) (x : Bytes), ShortestHead h mt n → h ++ x ≠ [] := by
    intro h mt n x hs e
    have hp := isHead_length_pos hs.1
    cases h with
    | nil => simp at hp
    | cons a as => simp at e
  cases h with
  | uint _ n hs => simpa using key _ 0 n [] hs
  | str mt _ c _ hs => exact key _ mt _ c hs
  | array _ items hs _ => exact key _ 4 _ _ hs
  | map _ kvs hs _ _ _ => exact key _ 5 _ _ hs

/-! ### completeness: every deterministic item is accepted, with its exact length -/

theorem arrLoop_complete : ∀ (items : List Bytes),
    (∀ i ∈ items, ∀ tail, detRec (i ++ tail) = .ok i.length) → (∀ i ∈ items, i ≠ []) →
    ∀ tail, arrLoop items.length (items.flatten ++ tail) = .ok items.flatten.length
  | [], _, _, tail => by rw [arrLoop.eq_def]; simp
  | i :: rest, hi, hne, tail => by
    have hlen : 0 < i.length := List.length_pos_iff.mpr (hne i (by simp))
    simp only [List.length_cons, List.flatten_cons, List.append_assoc]
    rw [arrLoop]
    have h0 : ¬ (i ++ (rest.flatten ++ tail)).length = 0 := by rw [List.length_append]; omega
    simp only [h0, if_false]
    rw [hi i (by simp) (rest.flatten ++ tail)]
    simp only [List.drop_left]
    rw [arrLoop_complete rest (fun j hj => hi j (by simp [hj])) (fun j hj => hne j (by simp [hj])) tail]
    simp

theorem mapLoop_complete : ∀ (kvs : List (Bytes × Bytes)),
    (∀ kv ∈ kvs, ∀ tail, detRec (kv.1 ++ tail) = .ok kv.1.length) →
    (∀ kv ∈ kvs, ∀ tail, detRec (kv.2 ++ tail) = .ok kv.2.length) →
    (∀ kv ∈ kvs, kv.1 ≠ []) → (∀ kv ∈ kvs, kv.2 ≠ []) →
    kvs.Pairwise (fun a b => blt a.1 b.1 = true) →
    ∀ (last : Bytes), (∀ kv ∈ kvs, blt last kv.1 = true) →
    ∀ tail, mapLoop kvs.length last ((kvs.map fun kv => kv.1 ++ kv.2).flatten ++ tail) =
      .ok (kvs.map fun kv => kv.1 ++ kv.2).flatten.length
  | [], _, _, _, _, _, _, _, tail => by rw [mapLoop.eq_def]; simp
  | kv :: rest, hk, hv, hkn, hvn, hs, last, hl, tail => by
    have hklen : 0 < kv.1.length := List.length_pos_iff.mpr (hkn kv (by simp))
    have hvlen : 0 < kv.2.length := List.length_pos_iff.mpr (hvn kv (by simp))
    simp only [List.length_cons, List.map_cons, List.flatten_cons, List.append_assoc]
    rw [mapLoop]
    have h0 : ¬ (kv.1 ++ (kv.2 ++ ((rest.map fun kv => kv.1 ++ kv.2).flatten ++ tail))).length = 0 := by
      rw [List.length_append]; omega
    simp only [h0, if_false]
    rw [hk kv (by simp)]
    simp only [List.take_left, List.drop_left]
    have hb := blt_iff.mp (hl kv (by simp))
    have h1 : ¬ last = kv.1 := hb.2
    have h2 : ¬ ((!ble last kv.1) = true) := by simp [hb.1]
    simp only [h1, h2, if_false]
    have h3 : ¬ (kv.2 ++ ((rest.map fun kv => kv.1 ++ kv.2).flatten ++ tail)).length = 0 := by
      rw [List.length_append]; omega
    simp only [h3, if_false]
    rw [hv kv (by simp)]
    simp only [List.drop_left]
    have hs' := List.pairwise_cons.mp hs
    rw [mapLoop_complete rest (fun j hj => hk j (by simp [hj])) (fun j hj => hv j (by simp [hj]))
      (fun j hj => hkn j (by simp [hj])) (fun j hj => hvn j (by simp [hj])) hs'.2 kv.1 hs'.1 tail]
    simp only [List.length_append]
    show Outcome.ok _ = Outcome.ok _
    congr 1; omega

theorem detRec_head (mt n : Nat) (hmt : mt < 8) (hn : n < 2 ^ 64) (x : Bytes) :
    ∃ b t, encodeHead mt n = b :: t ∧ b.toNat / 32 = mt ∧
      uintDet (b :: (t ++ x)) = .ok (t.length, n) := by
  obtain ⟨b, t, e, hb⟩ := encodeHead_first mt n hmt
  refine ⟨b, t, e, hb, ?_⟩
  have := uintDet_encodeHead mt n hmt hn x
  rw [e] at this
  simpa using this

theorem detRec_complete {item : Bytes} (h : DetItem item) : ∀ tail, detRec (item ++ tail) = .ok item.length := by
  induction h with
  | uint h n hs =>
    intro tail
    obtain ⟨hmt, hn, rfl⟩ := shortest_iff.mp hs
    obtain ⟨b, t, e, hb, hu⟩ := detRec_head 0 n hmt hn tail
    rw [e, List.cons_append, detRec]
    simp only [hb, if_true, hu]
    simp
  | str mt h c hmt23 hs =>
    intro tail
    obtain ⟨hmt, hn, rfl⟩ := shortest_iff.mp hs
    obtain ⟨b, t, e, hb, hu⟩ := detRec_head mt c.length hmt hn (c ++ tail)
    rw [List.append_assoc, e, List.cons_append, detRec]
    have n0 : ¬ mt = 0 := by omega
    simp only [hb, n0, hmt23, if_true, if_false, hu]
    have l1 : ¬ (b :: (t ++ (c ++ tail))).length ≤ c.length := by
      simp only [List.length_cons, List.length_append]; omega
    have l2 : ¬ (b :: (t ++ (c ++ tail))).length ≤ t.length + c.length := by
      simp only [List.length_cons, List.length_append]; omega
    simp only [l1, l2, if_false]
    simp only [List.length_cons, List.length_append]
    congr 1; omega
  | array h items hs hall ih =>
    intro tail
    obtain ⟨hmt, hn, rfl⟩ := shortest_iff.mp hs
    obtain ⟨b, t, e, hb, hu⟩ := detRec_head 4 items.length hmt hn (items.flatten ++ tail)
    rw [List.append_assoc, e, List.cons_append, detRec]
    simp only [hb, hu]
    simp only [show ¬ (4 = 0) by decide, show ¬ (4 = 2 ∨ 4 = 3) by decide, if_true, if_false]
    rw [List.drop_left]
    rw [arrLoop_complete items ih (fun i hi => detItem_ne_nil (hall i hi)) tail]
    simp only [List.length_cons, List.length_append]
    congr 1; omega
  | map h kvs hs hallk hallv hord ihk ihv =>
    intro tail
    obtain ⟨hmt, hn, rfl⟩ := shortest_iff.mp hs
    obtain ⟨b, t, e, hb, hu⟩ := detRec_head 5 kvs.length hmt hn ((kvs.map fun kv => kv.1 ++ kv.2).flatten ++ tail)
    rw [List.append_assoc, e, List.cons_append, detRec]
    simp only [hb, hu]
    simp only [show ¬ (5 = 0) by decide, show ¬ (5 = 2 ∨ 5 = 3) by decide, show ¬ (5 = 4) by decide, if_true, if_false]
    rw [List.drop_left]
    have hkn : ∀ kv ∈ kvs, kv.1 ≠ [] := fun kv hkv => detItem_ne_nil (hallk kv hkv)
    rw [mapLoop_complete kvs ihk ihv hkn (fun kv hkv => detItem_ne_nil (hallv kv hkv))
      (hord.imp (fun hab => blt_of_lexLt hab)) [] ?_ tail]
    · simp only [List.length_cons, List.length_append]
      congr 1; omega
    · intro kv hkv
      have := hkn kv hkv
      cases hk : kv.1 with
      | nil => exact absurd hk this
      | cons x xs => simp [blt, ble]


/-! ### soundness: whatever is accepted is a deterministic item of exactly the reported length -/

def RecSound (k : Nat) : Prop :=
  ∀ bs : Bytes, bs.length ≤ k → ∀ l, detRec bs = .ok l → 0 < l ∧ l ≤ bs.length ∧ DetItem (bs.take l)

theorem arrLoop_sound (k : Nat) (hk : RecSound k) : ∀ (n : Nat) (rem : Bytes), rem.length ≤ k → ∀ c,
    arrLoop n rem = .ok c → c ≤ rem.length ∧
      ∃ items : List Bytes, items.length = n ∧ (∀ i ∈ items, DetItem i) ∧ rem.take c = items.flatten := by
  intro n
  induction n with
  | zero =>
    intro rem _ c h
    rw [arrLoop.eq_def] at h
    simp at h; subst h
    exact ⟨Nat.zero_le _, [], rfl, by simp, by simp⟩
  | succ n ih =>
    intro rem hrem c h
    rw [arrLoop] at h
    by_cases h0 : rem.length = 0
    · simp [h0] at h
    · simp only [h0, if_false] at h
      cases hd : detRec rem with
      | error => simp [hd] at h
      | panic => simp [hd] at h
      | ok l =>
        simp only [hd] at h
        cases hr : arrLoop n (rem.drop l) with
        | error => simp [hr] at h
        | panic => simp [hr] at h
        | ok r =>
          simp only [hr] at h
          simp at h; subst h
          obtain ⟨hl0, hl1, hdi⟩ := hk rem hrem l hd
          obtain ⟨hr1, items, hlen, hall, hflat⟩ := ih (rem.drop l) (by simp; omega) r hr
          refine ⟨by simp at hr1; omega, rem.take l :: items, by simp [hlen], ?_, ?_⟩
          · intro i hi
            rcases List.mem_cons.mp hi with rfl | hi
            · exact hdi
            · exact hall i hi
          · rw [List.take_add, List.flatten_cons, hflat]

theorem mapLoop_sound (k : Nat) (hk : RecSound k) : ∀ (n : Nat) (last rem : Bytes), rem.length ≤ k → ∀ c,
    mapLoop n last rem = .ok c → c ≤ rem.length ∧
      ∃ kvs : List (Bytes × Bytes), kvs.length = n ∧ (∀ kv ∈ kvs, DetItem kv.1) ∧ (∀ kv ∈ kvs, DetItem kv.2) ∧
        kvs.Pairwise (fun a b => blt a.1 b.1 = true) ∧ (∀ kv ∈ kvs, blt last kv.1 = true) ∧
        rem.take c = (kvs.map fun kv => kv.1 ++ kv.2).flatten := by
  intro n
  induction n with
  | zero =>
    intro last rem _ c h
    rw [mapLoop.eq_def] at h
    simp at h; subst h
    exact ⟨Nat.zero_le _, [], rfl, by simp, by simp, List.Pairwise.nil, by simp, by simp⟩
  | succ n ih =>
    intro last rem hrem c h
    rw [mapLoop] at h
    by_cases h0 : rem.length = 0
    · simp [h0] at h
    · simp only [h0, if_false] at h
      cases hd : detRec rem with
      | error => simp [hd] at h
      | panic => simp [hd] at h
      | ok kl =>
        simp only [hd] at h
        by_cases h1 : last = rem.take kl
        · simp [h1] at h
        · simp only [h1, if_false] at h
          by_cases h2 : (!ble last (rem.take kl)) = true
          · simp [h2] at h
          · simp only [h2, if_false] at h
            by_cases h3 : (rem.drop kl).length = 0
            · simp [h3] at h
            · simp only [h3, if_false] at h
              cases hv : detRec (rem.drop kl) with
              | error => simp [hv] at h
              | panic => simp [hv] at h
              | ok vl =>
                simp only [hv, List.drop_drop] at h
                cases hr : mapLoop n (rem.take kl) (rem.drop (kl + vl)) with
                | error => simp [hr] at h
                | panic => simp [hr] at h
                | ok r =>
                  simp only [hr] at h
                  simp at h; subst h
                  obtain ⟨hk0, hk1, hkd⟩ := hk rem hrem kl hd
                  obtain ⟨hv0, hv1, hvd⟩ := hk (rem.drop kl) (by simp; omega) vl hv
                  obtain ⟨hr1, kvs, hlen, hallk, hallv, hpw, hlast, hflat⟩ :=
                    ih (rem.take kl) (rem.drop (kl + vl)) (by simp; omega) r hr
                  have hlk : blt last (rem.take kl) = true := by
                    rw [blt_iff]; exact ⟨by simpa using h2, h1⟩
                  simp only [List.length_drop] at hr1 hv1
                  refine ⟨by omega, (rem.take kl, (rem.drop kl).take vl) :: kvs, by simp [hlen], ?_, ?_, ?_, ?_, ?_⟩
                  · intro kv hkv
                    rcases List.mem_cons.mp hkv with rfl | hkv
                    · exact hkd
                    · exact hallk kv hkv
                  · intro kv hkv
                    rcases List.mem_cons.mp hkv with rfl | hkv
                    · exact hvd
                    · exact hallv kv hkv
                  · exact List.pairwise_cons.mpr ⟨fun kv hkv => hlast kv hkv, hpw⟩
                  · intro kv hkv
                    rcases List.mem_cons.mp hkv with rfl | hkv
                    · exact hlk
                    · exact blt_trans hlk (hlast kv hkv)
                  · rw [List.map_cons, List.flatten_cons, ← hflat, Nat.add_assoc, List.take_add, List.take_add,
                      List.drop_drop]
                    simp [List.append_assoc]

theorem take_succ_cons (b : UInt8) (rest : Bytes) (n : Nat) : (b :: rest).take (n + 1) = b :: rest.take n := rfl

theorem recSound : ∀ k, RecSound k := by
  intro k
  induction k with
  | zero =>
    intro bs hbs l h
    have : bs = [] := List.eq_nil_of_length_eq_zero (by omega)
    subst this
    rw [detRec.eq_def] at h; simp at h
  | succ k ih =>
    intro bs hbs l h
    cases bs with
    | nil => rw [detRec.eq_def] at h; simp at h
    | cons b rest =>
      have hrest : rest.length ≤ k := by simp at hbs; omega
      have hb := b.toNat_lt
      have hmt8 : b.toNat / 32 < 8 := by omega
      rw [detRec] at h
      by_cases m0 : b.toNat / 32 = 0
      · simp only [m0, if_true] at h
        cases hu : uintDet (b :: rest) with
        | error => simp [hu] at h
        | panic => simp [hu] at h
        | ok p =>
          obtain ⟨l', v⟩ := p
          simp only [hu] at h
          simp at h; subst h
          obtain ⟨hv, hl', e, elen⟩ := uintDet_ok hu
          rw [m0] at e elen
          refine ⟨by omega, by simp; omega, ?_⟩
          rw [take_succ_cons, e]
          exact DetItem.uint _ v (encodeHead_shortest 0 v (by decide) hv)
      · simp only [m0, if_false] at h
        by_cases m23 : b.toNat / 32 = 2 ∨ b.toNat / 32 = 3
        · simp only [m23, if_true] at h
          cases hu : uintDet (b :: rest) with
          | error => simp [hu] at h
          | panic => simp [hu] at h
          | ok p =>
            obtain ⟨ul, sl⟩ := p
            simp only [hu, List.length_cons] at h
            by_cases c1 : rest.length + 1 ≤ sl
            · simp [c1] at h
            · simp only [c1, if_false] at h
              by_cases c2 : rest.length + 1 ≤ ul + sl
              · simp [c2] at h
              · simp only [c2, if_false] at h
                simp at h; subst h
                obtain ⟨hv, hl', e, elen⟩ := uintDet_ok hu
                refine ⟨by omega, by simp; omega, ?_⟩
                rw [take_succ_cons, List.take_add, ← List.cons_append, e]
                have hc : ((rest.drop ul).take sl).length = sl := by simp; omega
                have := DetItem.str (b.toNat / 32) (encodeHead (b.toNat / 32) sl) ((rest.drop ul).take sl) m23
                  (by rw [hc]; exact encodeHead_shortest _ sl hmt8 hv)
                exact this
        · simp only [m23, if_false] at h
          by_cases m4 : b.toNat / 32 = 4
          · simp only [m4, if_true] at h
            cases hu : uintDet (b :: rest) with
            | error => simp [hu] at h
            | panic => simp [hu] at h
            | ok p =>
              obtain ⟨l', n⟩ := p
              simp only [hu] at h
              cases ha : arrLoop n (rest.drop l') with
              | error => simp [ha] at h
              | panic => simp [ha] at h
              | ok c =>
                simp only [ha] at h
                simp at h; subst h
                obtain ⟨hv, hl', e, elen⟩ := uintDet_ok hu
                rw [m4] at e
                obtain ⟨hc, items, hlen, hall, hflat⟩ := arrLoop_sound k ih n (rest.drop l') (by simp; omega) c ha
                simp only [List.length_drop] at hc
                refine ⟨by omega, by simp; omega, ?_⟩
                rw [show 1 + l' + c = (l' + c) + 1 by omega, take_succ_cons, List.take_add, ← List.cons_append, e, hflat]
                exact DetItem.array _ items (by rw [hlen]; exact encodeHead_shortest 4 n (by decide) hv) hall
          · simp only [m4, if_false] at h
            by_cases m5 : b.toNat / 32 = 5
            · simp only [m5, if_true] at h
              cases hu : uintDet (b :: rest) with
              | error => simp [hu] at h
              | panic => simp [hu] at h
              | ok p =>
                obtain ⟨l', n⟩ := p
                simp only [hu] at h
                cases ha : mapLoop n [] (rest.drop l') with
                | error => simp [ha] at h
                | panic => simp [ha] at h
                | ok c =>
                  simp only [ha] at h
                  simp at h; subst h
                  obtain ⟨hv, hl', e, elen⟩ := uintDet_ok hu
                  rw [m5] at e
                  obtain ⟨hc, kvs, hlen, hallk, hallv, hpw, _, hflat⟩ :=
                    mapLoop_sound k ih n [] (rest.drop l') (by simp; omega) c ha
                  simp only [List.length_drop] at hc
                  refine ⟨by omega, by simp; omega, ?_⟩
                  rw [show 1 + l' + c = (l' + c) + 1 by omega, take_succ_cons, List.take_add, ← List.cons_append, e, hflat]
                  exact DetItem.map _ kvs (by rw [hlen]; exact encodeHead_shortest 5 n (by decide) hv) hallk hallv
                    (hpw.imp (fun hab => lexLt_of_blt hab))
            · simp [m5] at h

theorem detRec_sound {bs : Bytes} {l : Nat} (h : detRec bs = .ok l) : 0 < l ∧ l ≤ bs.length ∧ DetItem (bs.take l) :=
  recSound bs.length bs (Nat.le_refl _) l h

/-- the dead branch of `seqLoop` (what was the infinite loop before fix F4) -/
theorem detRec_pos {bs : Bytes} {l : Nat} (h : detRec bs = .ok l) : 0 < l := (detRec_sound h).1

end WebPkg.Det
