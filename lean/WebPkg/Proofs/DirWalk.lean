import WebPkg.Model.DirWalk
import WebPkg.Proofs.PathUrl
/- Proofs about Model/DirWalk.lean (the gen-bundle -dir walk): the exchange list is a permutation of the per-file specification, URLs are pairwise distinct. -/
namespace WebPkg.DirWalk
open WebPkg.PathUrl

section Aux
/-! ### auxiliary definitions, used only inside the proofs -/

/-- what child `p` of the directory at `rel` contributes to the directory's own exchange -/
def idxExtra (base rel : Bytes) (p : Bytes × Node) : List Exch :=
  match p.2 with
  | .file c => if p.1 = idx then [⟨dirURL base rel, .body c⟩] else []
  | .dir _ => []

/-- the statement proved by induction over the tree: a child `(n, t)` of the directory at `rel` -/
def PermChild (base : Bytes) (t : Node) : Prop :=
  ∀ rel n, 47 ∉ n → t.allDirs dirOK1 = true →
    (walk base (join rel n) t ++ idxExtra base rel (n, t)).Perm
      ((filesAt (join rel n) t).flatMap (specExch base))

/-- `join rel n = pre rel ++ n` -/
def pre (rel : Bytes) : Bytes := if rel = [46] then [] else rel ++ [47]

mutual
/-- for a node called `n` inside a directory with prefix `π`, the exchanges below it have URLs
    `base ++ escapePath (π ++ n ++ k)` for `k ∈ keys t` -/
def keys : Node → List Bytes
  | .file _ => [[]]
  | .dir cs => ((if (indexOf cs).isSome then [[]] else []) ++ keysChildren cs).map (47 :: ·)
def keysChildren : List (Bytes × Node) → List Bytes
  | [] => []
  | (n, t) :: rest => (keys t).map (n ++ ·) ++ keysChildren rest
end

def keysDir (cs : List (Bytes × Node)) : List Bytes :=
  (if (indexOf cs).isSome then [[]] else []) ++ keysChildren cs

/-- a relative path of a directory that the walk can reach: not empty, no trailing slash -/
def RelOK (rel : Bytes) : Prop := rel ≠ [] ∧ rel.getLast? ≠ some 47

/-- statement proved by induction over the tree: URLs below a non-root node -/
def UrlsNode (base : Bytes) (t : Node) : Prop :=
  ∀ rel, rel ≠ [46] → RelOK rel → t.allDirs dirOK = true →
    (walk base rel t).map (·.url) = (keys t).map (fun k => base ++ escapePath (rel ++ k))

end Aux

/-! ## Lemmas -/
section Lemmas

/-- induction over the nested inductive `Node` -/
theorem dw_node_induct {P : Node → Prop} (hfile : ∀ c, P (.file c))
    (hdir : ∀ cs, (∀ p ∈ cs, P p.2) → P (.dir cs)) : ∀ t, P t := by
  intro t
  exact Node.rec (motive_1 := P) (motive_2 := fun cs => ∀ p ∈ cs, P p.2) (motive_3 := fun p => P p.2)
    hfile (fun cs ih => hdir cs ih) (by simp) (fun hd tl h1 h2 p hp => by
      rcases List.mem_cons.mp hp with rfl | hp
      · exact h1
      · exact h2 p hp)
    (fun n t h => h) t

theorem dw_walkChildren_eq (base rel : Bytes) (cs : List (Bytes × Node)) :
    walkChildren base rel cs = cs.flatMap (fun p => walk base (join rel p.1) p.2) := by
  induction cs with
  | nil => simp [walkChildren]
  | cons p rest ih => obtain ⟨n, t⟩ := p; simp [walkChildren, ih]

theorem dw_filesChildren_eq (rel : Bytes) (cs : List (Bytes × Node)) :
    filesChildren rel cs = cs.flatMap (fun p => filesAt (join rel p.1) p.2) := by
  induction cs with
  | nil => simp [filesChildren]
  | cons p rest ih => obtain ⟨n, t⟩ := p; simp [filesChildren, ih]

theorem dw_allDirsChildren_eq (P : List (Bytes × Node) → Bool) (cs : List (Bytes × Node)) :
    allDirsChildren P cs = cs.all (fun p => p.2.allDirs P) := by
  induction cs with
  | nil => simp [allDirsChildren]
  | cons p rest ih => obtain ⟨n, t⟩ := p; simp [allDirsChildren, ih]

theorem dw_allDirs_dir (P : List (Bytes × Node) → Bool) (cs : List (Bytes × Node)) :
    (Node.dir cs).allDirs P = true ↔ P cs = true ∧ ∀ p ∈ cs, p.2.allDirs P = true := by
  simp [Node.allDirs, dw_allDirsChildren_eq]

/-! ### basename / dirname of a joined path -/

theorem dw_basename_noslash (n : Bytes) (h : 47 ∉ n) : basename n = n := by
  unfold basename
  have : n.reverse.takeWhile (· != 47) = n.reverse := by
    have := List.takeWhile_append_of_pos (p := (· != (47 : UInt8))) (l₁ := n.reverse) (l₂ := [])
      (by intro a ha; simp at ha ⊢; rintro rfl; exact h ha)
    simpa using this
  rw [this]; simp

theorem dw_dirPrefix_noslash (n : Bytes) (h : 47 ∉ n) : dirPrefix n = [] := by
  unfold dirPrefix
  have := List.dropWhile_append_of_pos (p := (· != (47 : UInt8))) (l₁ := n.reverse) (l₂ := [])
    (by intro a ha; simp at ha ⊢; rintro rfl; exact h ha)
  simp at this
  simp [this]

theorem dw_basename_slash (d n : Bytes) (h : 47 ∉ n) : basename (d ++ [47] ++ n) = n := by
  unfold basename
  have := List.takeWhile_append_of_pos (p := (· != (47 : UInt8))) (l₁ := n.reverse) (l₂ := 47 :: d.reverse)
    (by intro a ha; simp at ha ⊢; rintro rfl; exact h ha)
  simp at this
  simp [this]

theorem dw_dirPrefix_slash (d n : Bytes) (h : 47 ∉ n) : dirPrefix (d ++ [47] ++ n) = d ++ [47] := by
  unfold dirPrefix
  have := List.dropWhile_append_of_pos (p := (· != (47 : UInt8))) (l₁ := n.reverse) (l₂ := 47 :: d.reverse)
    (by intro a ha; simp at ha ⊢; rintro rfl; exact h ha)
  simp at this
  simp [this]

theorem dw_basename_join (rel n : Bytes) (h : 47 ∉ n) : basename (join rel n) = n := by
  unfold join
  by_cases hr : rel = [46]
  · simp only [hr, if_true]; exact dw_basename_noslash n h
  · simp only [hr, if_false]; exact dw_basename_slash rel n h

theorem dw_dirname_join (rel n : Bytes) (h : 47 ∉ n) : dirname (join rel n) = rel := by
  unfold join dirname
  by_cases hr : rel = [46]
  · simp only [hr, if_true, dw_dirPrefix_noslash n h]
  · simp only [hr, if_false, dw_dirPrefix_slash rel n h]
    simp

theorem dw_basename_root : basename [46] ≠ idx := by decide

/-! ### permutation helpers -/

theorem dw_perm_flatMap_congr {α β} (l : List α) (f g : α → List β) (h : ∀ a ∈ l, (f a).Perm (g a)) :
    (l.flatMap f).Perm (l.flatMap g) := by
  induction l with
  | nil => simp
  | cons a rest ih =>
    simp only [List.flatMap_cons]
    exact List.Perm.append (h a (by simp)) (ih (fun b hb => h b (by simp [hb])))

theorem dw_perm_flatMap_append {α β} (l : List α) (f g : α → List β) :
    (l.flatMap (fun a => f a ++ g a)).Perm (l.flatMap g ++ l.flatMap f) := by
  induction l with
  | nil => simp
  | cons a rest ih =>
    simp only [List.flatMap_cons]
    have h1 : (f a ++ g a ++ List.flatMap (fun a => f a ++ g a) rest).Perm
        (f a ++ g a ++ (List.flatMap g rest ++ List.flatMap f rest)) := List.Perm.append_left _ ih
    refine h1.trans ?_
    -- f a ++ g a ++ (G ++ F) ~ g a ++ G ++ (f a ++ F)
    have h2 : (f a ++ g a ++ (List.flatMap g rest ++ List.flatMap f rest)).Perm
        (g a ++ (f a ++ (List.flatMap g rest ++ List.flatMap f rest))) := by
      rw [List.append_assoc]; exact List.perm_append_comm_assoc _ _ _
    refine h2.trans ?_
    rw [List.append_assoc]
    exact List.Perm.append_left _ (List.perm_append_comm_assoc _ _ _)

/-! ### the directory exchange is the sum of the per-child "index.html" contributions -/

theorem dw_indexOf_none (cs : List (Bytes × Node)) (h : ∀ p ∈ cs, p.1 ≠ idx) : indexOf cs = none := by
  induction cs with
  | nil => rfl
  | cons p rest ih =>
    obtain ⟨n, t⟩ := p
    have hn : n ≠ idx := h (n, t) (by simp)
    simp only [indexOf, hn, if_false]
    exact ih (fun q hq => h q (by simp [hq]))

theorem dw_idxExtra_nil (base rel : Bytes) (cs : List (Bytes × Node)) (h : ∀ p ∈ cs, p.1 ≠ idx) :
    cs.flatMap (idxExtra base rel) = [] := by
  simp only [List.flatMap_eq_nil_iff]
  intro p hp
  have := h p hp
  unfold idxExtra
  cases p.2 <;> simp [this]

theorem dw_idxExtra_eq (base rel : Bytes) (cs : List (Bytes × Node)) (h : idxOK cs = true) :
    cs.flatMap (idxExtra base rel) = dirExch base rel cs := by
  induction cs with
  | nil => rfl
  | cons p rest ih =>
    obtain ⟨n, t⟩ := p
    simp only [idxOK, Bool.and_eq_true, decide_eq_true_eq, List.all_eq_true] at h
    obtain ⟨hlen, hfile⟩ := h
    by_cases hn : n = idx
    · subst hn
      have hrest : ∀ q ∈ rest, q.1 ≠ idx := by
        intro q hq hqe
        have : (List.filter (fun x => x.1 == idx) rest).length = 0 := by
          simp at hlen; simpa using hlen
        have hnil := List.length_eq_zero_iff.mp this
        rw [List.filter_eq_nil_iff] at hnil
        exact hnil q hq (by simp [hqe])
      have ht := hfile (idx, t) (by simp)
      cases t with
      | dir cs' => simp [Node.isFile] at ht
      | file c =>
        simp [List.flatMap_cons, dw_idxExtra_nil base rel rest hrest, idxExtra, dirExch, indexOf]
    · have hok : idxOK rest = true := by
        simp only [idxOK, Bool.and_eq_true, decide_eq_true_eq, List.all_eq_true]
        refine ⟨?_, fun q hq => hfile q (by simp [hq])⟩
        simpa [List.filter_cons, hn] using hlen
      have h0 : idxExtra base rel (n, t) = [] := by
        unfold idxExtra; cases t <;> simp [hn]
      simp only [List.flatMap_cons, h0, List.nil_append, ih hok]
      simp [dirExch, indexOf, hn]

/-! ### walk is a permutation of the specification list -/

theorem dw_perm_dir (base rel : Bytes) (cs : List (Bytes × Node)) (ih : ∀ p ∈ cs, PermChild base p.2)
    (hwf : (Node.dir cs).allDirs dirOK1 = true) :
    (walk base rel (.dir cs)).Perm ((filesChildren rel cs).flatMap (specExch base)) := by
  rw [dw_allDirs_dir] at hwf
  obtain ⟨hok, hsub⟩ := hwf
  simp only [dirOK1, Bool.and_eq_true, List.all_eq_true] at hok
  obtain ⟨hslash, hidx⟩ := hok
  rw [walk, dw_walkChildren_eq, dw_filesChildren_eq, List.flatMap_assoc, ← dw_idxExtra_eq base rel cs hidx]
  refine List.Perm.symm ?_
  refine (dw_perm_flatMap_congr cs _ (fun p => walk base (join rel p.1) p.2 ++ idxExtra base rel p) ?_).trans ?_
  · intro p hp
    have h47 : 47 ∉ p.1 := by
      have := hslash p hp
      simpa using this
    exact (ih p hp rel p.1 h47 (hsub p hp)).symm
  · exact dw_perm_flatMap_append cs _ _

theorem dw_perm_child (base : Bytes) : ∀ t, PermChild base t := by
  apply dw_node_induct
  · intro c rel n hn _
    simp only [walk, filesAt, idxExtra, List.flatMap_cons, List.flatMap_nil, List.append_nil, specExch,
      dw_basename_join rel n hn, dw_dirname_join rel n hn]
    by_cases h : n = idx <;> simp [h]
  · intro cs ih rel n hn hwf
    simp only [idxExtra, List.append_nil, filesAt]
    exact dw_perm_dir base (join rel n) cs ih hwf

theorem dw_walk_perm (base : Bytes) (t : Node) (hwf : WF1 t) :
    (walk base [46] t).Perm ((files t).flatMap (specExch base)) := by
  cases t with
  | file c => simp [walk, files, filesAt, specExch, dw_basename_root]
  | dir cs => exact dw_perm_dir base [46] cs (fun p _ => dw_perm_child base p.2) hwf

/-! ### keys: the (unescaped) URL suffixes of the exchanges, relative to the enclosing directory -/

theorem dw_keysChildren_eq (cs : List (Bytes × Node)) :
    keysChildren cs = cs.flatMap (fun p => (keys p.2).map (p.1 ++ ·)) := by
  induction cs with
  | nil => simp [keysChildren]
  | cons p rest ih => obtain ⟨n, t⟩ := p; simp [keysChildren, ih]

theorem dw_keys_dir (cs : List (Bytes × Node)) : keys (.dir cs) = (keysDir cs).map (47 :: ·) := by
  simp [keys, keysDir]

theorem dw_keys_tail (t : Node) : ∀ k ∈ keys t, k = [] ∨ ∃ k', k = 47 :: k' := by
  intro k hk
  cases t with
  | file c => simp [keys] at hk; exact Or.inl hk
  | dir cs =>
    rw [dw_keys_dir, List.mem_map] at hk
    obtain ⟨k', _, rfl⟩ := hk
    exact Or.inr ⟨k', rfl⟩

theorem dw_cross (n1 : Bytes) : ∀ (n2 s1 s2 : Bytes), 47 ∉ n1 → 47 ∉ n2 →
    (s1 = [] ∨ ∃ k, s1 = 47 :: k) → (s2 = [] ∨ ∃ k, s2 = 47 :: k) → n1 ++ s1 = n2 ++ s2 → n1 = n2 := by
  induction n1 with
  | nil =>
    intro n2 s1 s2 _ h2 t1 _ h
    cases n2 with
    | nil => rfl
    | cons c n2' =>
      rcases t1 with rfl | ⟨k, rfl⟩
      · simp at h
      · simp at h; exact absurd (by simp [← h.1]) h2
  | cons c n1' ih =>
    intro n2 s1 s2 h1 h2 t1 t2 h
    cases n2 with
    | nil =>
      rcases t2 with rfl | ⟨k, rfl⟩
      · simp at h
      · simp at h; exact absurd (by simp [h.1]) h1
    | cons c' n2' =>
      simp only [List.cons_append, List.cons.injEq] at h
      obtain ⟨rfl, h⟩ := h
      have := ih n2' s1 s2 (fun hh => h1 (by simp [hh])) (fun hh => h2 (by simp [hh])) t1 t2 h
      rw [this]

theorem dw_nameOK (n : Bytes) (h : nameOK n = true) : n ≠ [] ∧ 47 ∉ n ∧ n ≠ [46] := by
  simp [nameOK] at h
  exact ⟨h.1.1.1, h.1.1.2, h.1.2⟩

theorem dw_dirOK (cs : List (Bytes × Node)) (h : dirOK cs = true) :
    (∀ p ∈ cs, nameOK p.1 = true) ∧ (cs.map (·.1)).Nodup ∧ (∀ p ∈ cs, p.1 = idx → p.2.isFile = true) := by
  simp only [dirOK, Bool.and_eq_true, List.all_eq_true, decide_eq_true_eq] at h
  refine ⟨h.1.1, h.1.2, ?_⟩
  intro p hp he
  have := h.2 p hp
  simpa [he] using this

theorem dw_keysDir_nodup (cs : List (Bytes × Node)) (ih : ∀ p ∈ cs, (keys p.2).Nodup)
    (hok : dirOK cs = true) : (keysDir cs).Nodup := by
  obtain ⟨hnames, hnd, _⟩ := dw_dirOK cs hok
  unfold keysDir
  rw [List.nodup_append]
  refine ⟨by split <;> simp, ?_, ?_⟩
  · rw [dw_keysChildren_eq]
    unfold List.Nodup
    rw [List.pairwise_flatMap]
    constructor
    · intro p hp
      exact List.Pairwise.map _ (fun a b hab h => hab (List.append_cancel_left h)) (ih p hp)
    · have hnd' : List.Pairwise (fun p q : Bytes × Node => p.1 ≠ q.1) cs := by
        have := hnd; unfold List.Nodup at this; rwa [List.pairwise_map] at this
      refine List.Pairwise.imp_of_mem ?_ hnd'
      intro p q hp hq hpq x hx y hy hxy
      rw [List.mem_map] at hx hy
      obtain ⟨kx, hkx, rfl⟩ := hx
      obtain ⟨ky, hky, rfl⟩ := hy
      exact hpq (dw_cross p.1 q.1 kx ky (dw_nameOK _ (hnames p hp)).2.1 (dw_nameOK _ (hnames q hq)).2.1
        (dw_keys_tail _ kx hkx) (dw_keys_tail _ ky hky) hxy)
  · intro a ha b hb hab
    have ha' : a = [] := by split at ha <;> simp at ha; exact ha
    subst ha' ; subst hab
    rw [dw_keysChildren_eq, List.mem_flatMap] at hb
    obtain ⟨p, hp, hb⟩ := hb
    rw [List.mem_map] at hb
    obtain ⟨k, _, hk⟩ := hb
    have := (dw_nameOK _ (hnames p hp)).1
    cases hp1 : p.1 with
    | nil => exact this hp1
    | cons c r => rw [hp1] at hk; simp at hk

theorem dw_keys_nodup : ∀ t : Node, t.allDirs dirOK = true → (keys t).Nodup := by
  apply dw_node_induct
  · intro c _; simp [keys]
  · intro cs ih hwf
    rw [dw_allDirs_dir] at hwf
    rw [dw_keys_dir]
    exact List.Pairwise.map _ (fun a b hab h => hab (by simpa using h))
      (dw_keysDir_nodup cs (fun p hp => ih p hp (hwf.2 p hp)) hwf.1)

/-! ### URLs of the exchanges in terms of keys -/

theorem dw_join_pre (rel n : Bytes) : join rel n = pre rel ++ n := by
  unfold join pre; split <;> simp

theorem dw_join_ne_root (rel n : Bytes) (hn : n ≠ [46]) : join rel n ≠ [46] := by
  unfold join
  split
  · exact hn
  · intro h
    have h47 : (47 : UInt8) ∈ rel ++ [47] ++ n := by simp
    rw [h] at h47
    simp at h47

theorem dw_relOK_root : RelOK [46] := by unfold RelOK; decide

theorem dw_relOK_join (rel n : Bytes) (hne : n ≠ []) (hs : 47 ∉ n) : RelOK (join rel n) := by
  rw [dw_join_pre]
  constructor
  · intro h; exact hne (List.append_eq_nil_iff.mp h).2
  · intro h
    have := List.mem_of_getLast? h
    rw [List.getLast?_append] at h
    cases hl : n.getLast? with
    | none => exact hne (List.getLast?_eq_none_iff.mp hl)
    | some a =>
      rw [hl] at h
      simp at h
      subst h
      exact hs (List.mem_of_getLast? hl)

theorem dw_escByte_last_fin :
    ∀ n : Fin 256, (escByte (UInt8.ofNat n.val)).getLast? = some 47 → n.val = 47 := by decide +kernel

theorem dw_escByte_last (c : UInt8) (h : (escByte c).getLast? = some 47) : c = 47 := by
  have h1 : c.toNat = 47 := dw_escByte_last_fin ⟨c.toNat, c.toNat_lt⟩ (by simpa using h)
  have h2 : UInt8.ofNat c.toNat = UInt8.ofNat 47 := by rw [h1]
  simpa using h2

/-- percent-encoding keeps "does not end in a slash" -/
theorem dw_escapePath_last (rel : Bytes) (h : RelOK rel) :
    escapePath rel ≠ [] ∧ (escapePath rel).getLast? ≠ some 47 := by
  obtain ⟨hne, hl⟩ := h
  refine ⟨escapePath_ne_nil hne, ?_⟩
  intro h47
  cases hlast : rel.getLast? with
  | none => exact hne (List.getLast?_eq_none_iff.mp hlast)
  | some a =>
    obtain ⟨ys, rfl⟩ := List.getLast?_eq_some_iff.mp hlast
    rw [escapePath_append, List.getLast?_append] at h47
    have he : escapePath [a] = escByte a := by simp [escapePath_cons]
    rw [he] at h47
    cases hb : (escByte a).getLast? with
    | none => exact escByte_ne_nil a (List.getLast?_eq_none_iff.mp hb)
    | some b =>
      rw [hb] at h47
      simp at h47
      subst h47
      have := dw_escByte_last a hb
      subst this
      exact hl hlast

theorem dw_dirURL (base rel : Bytes) (hb : base.getLast? = some 47) (h : RelOK rel) :
    dirURL base rel = base ++ escapePath (pre rel) := by
  unfold dirURL pre pathToURL
  by_cases hr : rel = [46]
  · simp [hr, hb]
  · simp only [hr, if_false]
    obtain ⟨hne, hl⟩ := dw_escapePath_last rel h
    have : (base ++ escapePath rel).getLast? ≠ some 47 := by
      rw [List.getLast?_append]
      cases hb' : (escapePath rel).getLast? with
      | none => exact absurd (List.getLast?_eq_none_iff.mp hb') hne
      | some b => rw [hb'] at hl; simpa using hl
    rw [if_neg this, escapePath_append]
    have : escapePath [47] = [47] := by decide
    rw [this, List.append_assoc]

theorem dw_flatMap_congr {α β} (l : List α) (f g : α → List β) (h : ∀ a ∈ l, f a = g a) :
    l.flatMap f = l.flatMap g := by
  induction l with
  | nil => rfl
  | cons a rest ih =>
    simp only [List.flatMap_cons, h a (by simp), ih (fun b hb => h b (by simp [hb]))]

theorem dw_urls_dir (base rel : Bytes) (cs : List (Bytes × Node)) (ih : ∀ p ∈ cs, UrlsNode base p.2)
    (hb : base.getLast? = some 47) (hrel : RelOK rel) (hwf : (Node.dir cs).allDirs dirOK = true) :
    (walk base rel (.dir cs)).map (·.url) = (keysDir cs).map (fun k => base ++ escapePath (pre rel ++ k)) := by
  rw [dw_allDirs_dir] at hwf
  obtain ⟨hok, hsub⟩ := hwf
  obtain ⟨hnames, _, _⟩ := dw_dirOK cs hok
  rw [walk, keysDir, List.map_append, List.map_append]
  congr 1
  · unfold dirExch
    cases indexOf cs with
    | none => simp
    | some c => simp [dw_dirURL base rel hb hrel]
  · rw [dw_walkChildren_eq, dw_keysChildren_eq, List.map_flatMap, List.map_flatMap]
    apply dw_flatMap_congr
    intro p hp
    obtain ⟨h1, h2, h3⟩ := dw_nameOK _ (hnames p hp)
    rw [ih p hp (join rel p.1) (dw_join_ne_root rel p.1 h3) (dw_relOK_join rel p.1 h1 h2) (hsub p hp)]
    simp [dw_join_pre, List.append_assoc]

theorem dw_urls_node (base : Bytes) (hb : base.getLast? = some 47) : ∀ t, UrlsNode base t := by
  apply dw_node_induct
  · intro c rel hr _ _
    simp [walk, keys, pathToURL, hr]
  · intro cs ih rel hr hrel hwf
    rw [dw_urls_dir base rel cs ih hb hrel hwf, dw_keys_dir, List.map_map]
    simp [pre, hr, Function.comp_def]

/-- no two exchanges share a URL -/
theorem dw_urls_nodup (base : Bytes) (t : Node) (hb : base.getLast? = some 47) (hwf : WF t) :
    ((walk base [46] t).map (·.url)).Nodup := by
  cases t with
  | file c => simp [walk]
  | dir cs =>
    rw [dw_urls_dir base [46] cs (fun p _ => dw_urls_node base hb p.2) hb dw_relOK_root hwf]
    have hwf' := hwf
    unfold WF at hwf'
    rw [dw_allDirs_dir] at hwf'
    refine List.Pairwise.map _ ?_
      (dw_keysDir_nodup cs (fun p hp => dw_keys_nodup p.2 (hwf'.2 p hp)) hwf'.1)
    intro a b hab h
    exact hab (List.append_cancel_left (escapePath_injective _ _ (List.append_cancel_left h)))

/-! ### "exactly one" from distinct URLs -/

theorem dw_filter_unique (l : List Exch) (hn : (l.map (·.url)).Nodup) (e : Exch) (he : e ∈ l) :
    l.filter (fun x => x.url = e.url) = [e] := by
  induction l with
  | nil => simp at he
  | cons a rest ih =>
    simp only [List.map_cons, List.nodup_cons] at hn
    obtain ⟨hna, hnr⟩ := hn
    rcases List.mem_cons.mp he with rfl | he'
    · have : rest.filter (fun x => decide (x.url = e.url)) = [] := by
        rw [List.filter_eq_nil_iff]
        intro x hx hxe
        exact hna (List.mem_map.mpr ⟨x, hx, by simpa using hxe⟩)
      simp [this]
    · have hne : a.url ≠ e.url := fun h => hna (h ▸ List.mem_map.mpr ⟨e, he', rfl⟩)
      simp [hne, ih hnr he']

/-! ### `WF` implies the weaker `WF1` -/

theorem dw_allDirs_mono (P Q : List (Bytes × Node) → Bool) (h : ∀ cs, P cs = true → Q cs = true) :
    ∀ t : Node, t.allDirs P = true → t.allDirs Q = true := by
  apply dw_node_induct
  · intro c _; simp [Node.allDirs]
  · intro cs ih hwf
    rw [dw_allDirs_dir] at hwf ⊢
    exact ⟨h cs hwf.1, fun p hp => ih p hp (hwf.2 p hp)⟩

theorem dw_filter_idx_le (cs : List (Bytes × Node)) (hnd : (cs.map (·.1)).Nodup) :
    (cs.filter (·.1 == idx)).length ≤ 1 := by
  induction cs with
  | nil => simp
  | cons p rest ih =>
    simp only [List.map_cons, List.nodup_cons] at hnd
    by_cases hp : p.1 = idx
    · have : rest.filter (·.1 == idx) = [] := by
        rw [List.filter_eq_nil_iff]
        intro q hq hqe
        exact hnd.1 (List.mem_map.mpr ⟨q, hq, by rw [hp]; simpa using hqe⟩)
      simp [hp, this]
    · simpa [List.filter_cons, hp] using ih hnd.2

theorem dw_dirOK_dirOK1 (cs : List (Bytes × Node)) (h : dirOK cs = true) : dirOK1 cs = true := by
  obtain ⟨hnames, hnd, hfile⟩ := dw_dirOK cs h
  simp only [dirOK1, idxOK, Bool.and_eq_true, List.all_eq_true, decide_eq_true_eq]
  refine ⟨?_, dw_filter_idx_le cs hnd, ?_⟩
  · intro p hp
    have := (dw_nameOK _ (hnames p hp)).2.1
    simpa using this
  · intro p hp
    by_cases he : p.1 = idx
    · simp [hfile p hp he]
    · simp [he]

theorem dw_WF_WF1 (t : Node) (h : WF t) : WF1 t := dw_allDirs_mono dirOK dirOK1 dw_dirOK_dirOK1 t h

/-- `WF` spelled out for a directory -/
theorem dw_WF_dir_iff (cs : List (Bytes × Node)) :
    WF (.dir cs) ↔
      (∀ p ∈ cs, p.1 ≠ [] ∧ 47 ∉ p.1 ∧ p.1 ≠ [46] ∧ p.1 ≠ [46, 46]) ∧ (cs.map (·.1)).Nodup ∧
      (∀ p ∈ cs, p.1 = idx → p.2.isFile = true) ∧ ∀ p ∈ cs, WF p.2 := by
  unfold WF
  rw [dw_allDirs_dir]
  simp only [dirOK, nameOK, Bool.and_eq_true, List.all_eq_true, decide_eq_true_eq, bne_iff_ne, ne_eq,
    Bool.not_eq_true', Bool.or_eq_true]
  constructor
  · rintro ⟨⟨⟨h1, h2⟩, h3⟩, h4⟩
    refine ⟨fun p hp => ?_, h2, fun p hp he => ?_, h4⟩
    · obtain ⟨⟨⟨a, b⟩, c⟩, d⟩ := h1 p hp
      exact ⟨a, by simpa using b, c, d⟩
    · rcases h3 p hp with h | h
      · exact absurd he h
      · exact h
  · rintro ⟨h1, h2, h3, h4⟩
    refine ⟨⟨⟨fun p hp => ?_, h2⟩, fun p hp => ?_⟩, h4⟩
    · obtain ⟨a, b, c, d⟩ := h1 p hp
      exact ⟨⟨⟨a, by simpa using b⟩, c⟩, d⟩
    · by_cases he : p.1 = idx
      · exact Or.inr (h3 p hp he)
      · exact Or.inl he

end Lemmas

/-! ## Theorems -/
section Theorems

/-- Theorem 0 (the workhorse): the exchange list `fromDir` builds is a permutation of the list the
    specification asks for — per regular file either one 200 exchange, or (for index.html) the redirect
    plus the 200 exchange at the directory URL. -/
theorem walk_perm_spec (base : Bytes) (t : Node) (hwf : WF1 t) :
    (walk base [46] t).Perm ((files t).flatMap (specExch base)) := dw_walk_perm base t hwf

/-
  FINDING. Theorem 1 as first stated ("no well-formedness needed beyond: no directory is called index.html")
  is FALSE in two ways, both about trees that are not file systems:
  (a) a name containing '/': root = dir [("a/index.html", file c)]. `files` lists ("a/index.html", c) whose
      basename is index.html, so the right-hand side asks for ⟨dirURL base "a", body c⟩; the walk never visits
      a directory "a" and produces only the redirect. (`counterexample_slash_in_name` below.)
  (b) two siblings called index.html: `os.Stat`/ServeFile pick one, the right-hand side asks for both bodies.
      (`counterexample_duplicate_index` below.)
  The corrected statement assumes `WF1 t`: no name contains '/', and in every directory at most one child is
  called index.html and it is a regular file. `WF t` implies `WF1 t` (`dw_WF_WF1`).
-/

/-- Theorem 1: an exchange is produced iff it comes from a regular file in one of the three stated ways. -/
theorem walk_characterisation (base : Bytes) (t : Node) (hwf : WF1 t) (e : Exch) :
    e ∈ walk base [46] t ↔
      (∃ pc ∈ files t, basename pc.1 ≠ idx ∧ e = ⟨pathToURL base pc.1, .body pc.2⟩) ∨
      (∃ pc ∈ files t, basename pc.1 = idx ∧ e = ⟨pathToURL base pc.1, .redirect⟩) ∨
      (∃ pc ∈ files t, basename pc.1 = idx ∧ e = ⟨dirURL base (dirname pc.1), .body pc.2⟩) := by
  rw [(dw_walk_perm base t hwf).mem_iff, List.mem_flatMap]
  constructor
  · rintro ⟨pc, hpc, he⟩
    unfold specExch at he
    by_cases hb : basename pc.1 = idx
    · simp only [hb, if_true, List.mem_cons, List.not_mem_nil, or_false] at he
      rcases he with he | he
      · exact Or.inr (Or.inl ⟨pc, hpc, hb, he⟩)
      · exact Or.inr (Or.inr ⟨pc, hpc, hb, he⟩)
    · simp only [hb, if_false, List.mem_cons, List.not_mem_nil, or_false] at he
      exact Or.inl ⟨pc, hpc, hb, he⟩
  · rintro (⟨pc, hpc, hb, he⟩ | ⟨pc, hpc, hb, he⟩ | ⟨pc, hpc, hb, he⟩)
    · exact ⟨pc, hpc, by simp [specExch, hb, he]⟩
    · exact ⟨pc, hpc, by simp [specExch, hb, he]⟩
    · exact ⟨pc, hpc, by simp [specExch, hb, he]⟩

/-- No two exchanges of the walk have the same URL (so the bundle index never merges two entries). -/
theorem walk_urls_distinct (base : Bytes) (t : Node) (hb : base.getLast? = some 47) (hwf : WF t) :
    ((walk base [46] t).map (·.url)).Nodup := dw_urls_nodup base t hb hwf

/-- Theorem 2: a regular file not called index.html is delivered exactly once, at its own URL, with its
    own bytes. -/
theorem each_file_exactly_once (base : Bytes) (t : Node) (hb : base.getLast? = some 47) (hwf : WF t)
    (p c : Bytes) (hpc : (p, c) ∈ files t) (hn : basename p ≠ idx) :
    (walk base [46] t).filter (fun e => e.url = pathToURL base p) = [⟨pathToURL base p, .body c⟩] := by
  have hmem : (⟨pathToURL base p, .body c⟩ : Exch) ∈ walk base [46] t :=
    (walk_characterisation base t (dw_WF_WF1 t hwf) _).mpr (Or.inl ⟨(p, c), hpc, hn, rfl⟩)
  exact dw_filter_unique _ (dw_urls_nodup base t hb hwf) _ hmem

/-- Theorem 3: a file called index.html is answered by the redirect at its own URL (and by nothing else
    there), and its bytes are delivered exactly once at the URL of its directory. -/
theorem index_html_delivered_at_directory (base : Bytes) (t : Node) (hb : base.getLast? = some 47)
    (hwf : WF t) (p c : Bytes) (hpc : (p, c) ∈ files t) (hi : basename p = idx) :
    (walk base [46] t).filter (fun e => e.url = pathToURL base p) = [⟨pathToURL base p, .redirect⟩] ∧
    (walk base [46] t).filter (fun e => e.url = dirURL base (dirname p))
      = [⟨dirURL base (dirname p), .body c⟩] := by
  have h1 : (⟨pathToURL base p, .redirect⟩ : Exch) ∈ walk base [46] t :=
    (walk_characterisation base t (dw_WF_WF1 t hwf) _).mpr (Or.inr (Or.inl ⟨(p, c), hpc, hi, rfl⟩))
  have h2 : (⟨dirURL base (dirname p), .body c⟩ : Exch) ∈ walk base [46] t :=
    (walk_characterisation base t (dw_WF_WF1 t hwf) _).mpr (Or.inr (Or.inr ⟨(p, c), hpc, hi, rfl⟩))
  exact ⟨dw_filter_unique _ (dw_urls_nodup base t hb hwf) _ h1,
    dw_filter_unique _ (dw_urls_nodup base t hb hwf) _ h2⟩

/-- Theorem 4: one exchange per regular file plus one per file called index.html (i.e. per directory that
    has an index.html). -/
theorem walk_length (base : Bytes) (t : Node) (hwf : WF1 t) :
    (walk base [46] t).length = (files t).length + (files t).countP (fun pc => basename pc.1 == idx) := by
  rw [(dw_walk_perm base t hwf).length_eq]
  generalize files t = l
  induction l with
  | nil => rfl
  | cons pc rest ih =>
    simp only [List.flatMap_cons, List.length_append, ih, List.length_cons, List.countP_cons]
    unfold specExch
    by_cases h : basename pc.1 = idx
    · simp [h]; omega
    · simp [h]; omega

/-! ### Theorem 5: non-vacuity -/

/-- "a.txt" -/ def n_a : Bytes := [97, 46, 116, 120, 116]
/-- "sub" -/ def n_sub : Bytes := [115, 117, 98]
/-- "h#x" -/ def n_h : Bytes := [104, 35, 120]
/-- "https://e/" -/ def ex_base : Bytes := [104, 116, 116, 112, 115, 58, 47, 47, 101, 47]

/-- root: a.txt, index.html, sub/ { h#x, index.html } (children in `filepath.Walk` order) -/
def ex_tree : Node :=
  .dir [(n_a, .file [1]), (idx, .file [2]), (n_sub, .dir [(n_h, .file [3]), (idx, .file [4])])]

example : WF ex_tree := by decide

example : ex_base.getLast? = some 47 := by decide

example : files ex_tree =
    [(n_a, [1]), (idx, [2]), (n_sub ++ [47] ++ n_h, [3]), (n_sub ++ [47] ++ idx, [4])] := by decide

/-- https://e/ → index.html bytes; https://e/a.txt; https://e/index.html → redirect;
    https://e/sub/ → sub/index.html bytes; https://e/sub/h%23x; https://e/sub/index.html → redirect -/
example : walk ex_base [46] ex_tree =
    [ ⟨ex_base, .body [2]⟩,
      ⟨ex_base ++ n_a, .body [1]⟩,
      ⟨ex_base ++ idx, .redirect⟩,
      ⟨ex_base ++ n_sub ++ [47], .body [4]⟩,
      ⟨ex_base ++ n_sub ++ [47] ++ [104, 37, 50, 51, 120], .body [3]⟩,
      ⟨ex_base ++ n_sub ++ [47] ++ idx, .redirect⟩ ] := by decide

/-- theorems 2 and 3 instantiated on the example (their hypotheses are satisfiable) -/
example : (walk ex_base [46] ex_tree).filter (fun e => e.url = pathToURL ex_base (n_sub ++ [47] ++ n_h))
    = [⟨pathToURL ex_base (n_sub ++ [47] ++ n_h), .body [3]⟩] :=
  each_file_exactly_once ex_base ex_tree (by decide) (by decide) _ _ (by decide) (by decide)

example : (walk ex_base [46] ex_tree).filter (fun e => e.url = dirURL ex_base (dirname (n_sub ++ [47] ++ idx)))
    = [⟨dirURL ex_base (dirname (n_sub ++ [47] ++ idx)), .body [4]⟩] :=
  (index_html_delivered_at_directory ex_base ex_tree (by decide) (by decide) _ _ (by decide) (by decide)).2

/-- finding (a): a name containing '/' breaks the characterisation -/
def bad_slash : Node := .dir [([97, 47] ++ idx, .file [1])]

theorem counterexample_slash_in_name :
    ([97, 47] ++ idx, [1]) ∈ files bad_slash ∧ basename ([97, 47] ++ idx) = idx ∧
    (⟨dirURL ex_base (dirname ([97, 47] ++ idx)), .body [1]⟩ : Exch) ∉ walk ex_base [46] bad_slash := by
  decide

/-- finding (b): two siblings called index.html break the characterisation -/
def bad_dup : Node := .dir [(idx, .file [1]), (idx, .file [2])]

theorem counterexample_duplicate_index :
    (idx, [2]) ∈ files bad_dup ∧ basename idx = idx ∧
    (⟨dirURL ex_base (dirname idx), .body [2]⟩ : Exch) ∉ walk ex_base [46] bad_dup := by
  decide

end Theorems


end WebPkg.DirWalk
