import WebPkg.Gen.Facts
import WebPkg.Model.BSig
/-
  The regenerated tie. `Gen/Facts.lean` is produced on every run by tools/extract (go/ast) from /repo's current sources:
  for each Go file the string literals, integer literals and []byte{...} literals it contains, and the two header-name
  tables of stateful_headers.go in source order. This file states, constant by constant, where the hand-written model's
  constants come from. A changed key name, magic number, context string, header table or limit in the Go code makes one
  of these `decide`s fail.
-/
namespace WebPkg.FactsTie
open WebPkg

/-! ### bundles -/
theorem bundle_magic : Bundle.headerMagicB1 ∈ Facts.bytelits_bundleVer ∧ Bundle.headerMagicB2 ∈ Facts.bytelits_bundleVer ∧
    Bundle.versionMagicB1 ∈ Facts.bytelits_bundleVer ∧ Bundle.versionMagicB2 ∈ Facts.bytelits_bundleVer := by decide
theorem bundle_section_names_writer : Bundle.nIndex ∈ Facts.strs_bundleEnc ∧ Bundle.nManifest ∈ Facts.strs_bundleEnc ∧
    Bundle.nPrimary ∈ Facts.strs_bundleEnc ∧ Bundle.nSignatures ∈ Facts.strs_bundleEnc ∧ Bundle.nResponses ∈ Facts.strs_bundleEnc ∧
    Bundle.kAuthority ∈ Facts.strs_bundleEnc ∧ Bundle.kSig ∈ Facts.strs_bundleEnc ∧ Bundle.kSigned ∈ Facts.strs_bundleEnc := by decide
theorem bundle_section_names_reader : Bundle.nIndex ∈ Facts.strs_bundleDec ∧ Bundle.nManifest ∈ Facts.strs_bundleDec ∧
    Bundle.nPrimary ∈ Facts.strs_bundleDec ∧ Bundle.nSignatures ∈ Facts.strs_bundleDec ∧ Bundle.nResponses ∈ Facts.strs_bundleDec ∧
    Bundle.kAuthority ∈ Facts.strs_bundleDec ∧ Bundle.kSig ∈ Facts.strs_bundleDec ∧ Bundle.kSigned ∈ Facts.strs_bundleDec := by decide
/-- the reader refuses a section-length table of 8192 bytes or more -/
theorem bundle_limits : 8192 ∈ Facts.ints_bundleDec := by decide
theorem bsig_context : ∀ v : Bundle.BVer, BSig.context v ∈ Facts.strs_bundleVer := by intro v; cases v <;> decide
theorem bsig_keys_signer : BSig.kValidityUrl ∈ Facts.strs_bsigSigner ∧ BSig.kAuthSha256 ∈ Facts.strs_bsigSigner ∧
    BSig.kDate ∈ Facts.strs_bsigSigner ∧ BSig.kExpires ∈ Facts.strs_bsigSigner ∧ BSig.kSubsetHashes ∈ Facts.strs_bsigSigner := by decide
theorem bsig_keys_verifier : BSig.kValidityUrl ∈ Facts.strs_bsigVerify ∧ BSig.kAuthSha256 ∈ Facts.strs_bsigVerify ∧
    BSig.kDate ∈ Facts.strs_bsigVerify ∧ BSig.kExpires ∈ Facts.strs_bsigVerify ∧ BSig.kSubsetHashes ∈ Facts.strs_bsigVerify := by decide
theorem bsig_limits : 7 ∈ Facts.ints_bsigVerify ∧ 24 ∈ Facts.ints_bsigVerify := by decide

end WebPkg.FactsTie
