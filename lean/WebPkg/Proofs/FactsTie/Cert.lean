import WebPkg.Gen.Facts
import WebPkg.Model.CertChain
/-
  The regenerated tie. `Gen/Facts.lean` is produced on every run by tools/extract (go/ast) from /repo's current sources:
  for each Go file the string literals, integer literals and []byte{...} literals it contains, and the two header-name
  tables of stateful_headers.go in source order. This file states, constant by constant, where the hand-written model's
  constants come from. A changed key name, magic number, context string, header table or limit in the Go code makes one
  of these `decide`s fail.
-/
namespace WebPkg.FactsTie
open WebPkg

/-! ### cert chains, SCT lists -/
theorem certchain_keys : CertChain.magic ∈ Facts.strs_certchain ∧ CertChain.kCert ∈ Facts.strs_certchain ∧
    CertChain.kOcsp ∈ Facts.strs_certchain ∧ CertChain.kSct ∈ Facts.strs_certchain := by decide
theorem sct_limit : 65535 ∈ Facts.ints_sct := by decide

end WebPkg.FactsTie
