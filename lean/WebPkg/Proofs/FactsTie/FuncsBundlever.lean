import WebPkg.Gen.FuncsBundlever
import WebPkg.Model.Bundle
import WebPkg.Model.BSig
import WebPkg.Proofs.BundleWF
import WebPkg.Proofs.FactsTie.FuncsMice
/- Function-level tie (see FuncsCommon.lean): generated module WebPkg.Gen.FuncsBundlever (tools/xlate, regenerated from /repo on every run) against the hand-written model. -/
namespace WebPkg.FuncsTie
open WebPkg.Gen.Funcs

/-! ### bundle/version/version.go — model: `Bundle.BVer` (`magic`), `BSig.context`; the per-version feature tests are
    pattern matches on `BVer` inside `Bundle.write` / `Bundle.loadMetadata` / `Bundle.parseIndex` (no named predicate) -/

def bverOf (v : Bytes) : Option Bundle.BVer :=
  if v = bundlever.VersionB1 then some .b1 else if v = bundlever.VersionB2 then some .b2 else none

theorem bver_distinct : bundlever.VersionB1 ≠ bundlever.VersionB2 := by decide
theorem bverOf_view_surj : bverOf bundlever.VersionB1 = some .b1 ∧ bverOf bundlever.VersionB2 = some .b2 := by decide

theorem bundle_magic_consts :
    bundlever.HeaderMagicBytesB1 = Bundle.headerMagicB1 ∧ bundlever.HeaderMagicBytesB2 = Bundle.headerMagicB2 ∧
    bundlever.VersionMagicBytesB1 = Bundle.versionMagicB1 ∧ bundlever.VersionMagicBytesB2 = Bundle.versionMagicB2 := by decide

theorem bundle_headerMagicBytes_eq (v : Bytes) : bundlever.HeaderMagicBytes v = (bverOf v).map Bundle.BVer.magic := by
  by_cases h1 : v = bundlever.VersionB1
  · subst h1; decide
  · by_cases h2 : v = bundlever.VersionB2
    · subst h2; decide
    · simp [bundlever.HeaderMagicBytes, bverOf, h1, h2]

theorem bundle_signatureContextString_eq (v : Bytes) : bundlever.SignatureContextString v = (bverOf v).map BSig.context := by
  by_cases h1 : v = bundlever.VersionB1
  · subst h1; decide
  · by_cases h2 : v = bundlever.VersionB2
    · subst h2; decide
    · simp [bundlever.SignatureContextString, bverOf, h1, h2]

/-- bundles always use draft-03 MI (hard-wired as `.draft03` in `BSig.addPayloadIntegrity` / `BSig.verifyExchange`) -/
theorem bundle_miceEncoding_eq (v : Bytes) : bundlever.MiceEncoding v = (bverOf v).map fun _ => Mice.Enc.draft03.name := by
  by_cases h1 : v = bundlever.VersionB1
  · subst h1; decide
  · by_cases h2 : v = bundlever.VersionB2
    · subst h2; decide
    · simp [bundlever.MiceEncoding, bverOf, h1, h2]

/-- model-side views of the per-version feature tests, read off the model's `match`es:
    b1 carries the primary URL in the header (`Bundle.write` head, `Bundle.loadMetadata` fallback URL), only b1 may have
    a manifest section (`WErr.manifestNotSupported`), only b1 has the variants-aware index (`finalizeIndex`, `parseIndex`). -/
def hasPrimaryURLInHeader : Bundle.BVer → Bool | .b1 => true | .b2 => false
def supportsManifest (x : Bundle.BVer) : Bool := !decide (x ≠ .b1)
def supportsVariants : Bundle.BVer → Bool | .b1 => true | .b2 => false

theorem bundle_pred_table (v : Bytes) :
    bundlever.HasPrimaryURLFieldInHeader v = ((bverOf v).map hasPrimaryURLInHeader).getD false ∧
    bundlever.SupportsManifestSection v = ((bverOf v).map supportsManifest).getD false ∧
    bundlever.SupportsVariants v = ((bverOf v).map supportsVariants).getD false ∧
    bundlever.SupportsSignatures v = true := by
  by_cases h1 : v = bundlever.VersionB1
  · subst h1; decide
  · by_cases h2 : v = bundlever.VersionB2
    · subst h2; decide
    · simp [bundlever.HasPrimaryURLFieldInHeader, bundlever.SupportsManifestSection, bundlever.SupportsVariants,
        bundlever.SupportsSignatures, bverOf, h1, h2]

/-! model-side meaning of the three views: the `match`es of `Bundle.write` (through the decomposition `write_eq` /
    `write_ok` of Proofs/BundleWF.lean), `Bundle.finalizeIndex` and `Bundle.parseIndex` are exactly these predicates -/

/-- the header of a written bundle carries the primary URL iff `hasPrimaryURLInHeader` -/
theorem headOf_view (b : Bundle.Bundle) : Bundle.headOf b =
    if hasPrimaryURLInHeader b.version then
      match b.primaryURL with
      | none => .panic
      | some u => match Cbor.encodeText u with
        | .ok t => .ok (.ok (b.version.magic ++ t))
        | .error e => .ok (.error (.enc e))
    else .ok (.ok b.version.magic) := by
  unfold Bundle.headOf
  cases b.version <;> rfl

/-- ... and otherwise the primary URL goes into a "primary" section -/
theorem primarySec_view (b : Bundle.Bundle) : Bundle.primarySec b =
    if hasPrimaryURLInHeader b.version then .ok []
    else match b.primaryURL with
      | none => .ok []
      | some u => match Bundle.encodeUrlSection u with
        | .ok s => .ok [(Bundle.nPrimary, s)]
        | .error e => .error (.enc e) := by
  unfold Bundle.primarySec
  cases b.version <;> cases b.primaryURL <;> rfl

theorem write_primary (b : Bundle.Bundle) (out : Bytes) (h : Bundle.write b = .ok (.ok out))
    (hp : hasPrimaryURLInHeader b.version = true) : b.primaryURL ≠ none := by
  obtain ⟨_, _, _, _, _, _, hd, _, _, _, _, _, hh, _⟩ := Bundle.write_ok b out h
  rw [headOf_view, hp] at hh
  intro hn
  rw [hn] at hh
  cases hh

/-- a bundle with a manifest URL can be written only for versions with `supportsManifest` -/
theorem write_manifest (b : Bundle.Bundle) (out : Bytes) (h : Bundle.write b = .ok (.ok out))
    (hm : b.manifestURL ≠ none) : supportsManifest b.version = true := by
  obtain ⟨_, _, _, _, m, _, _, _, _, _, hms, _, _, _⟩ := Bundle.write_ok b out h
  rcases Bundle.manifestSec_ok b m hms with hnil | ⟨hv, _⟩
  · unfold Bundle.manifestSec at hms
    cases hu : b.manifestURL with
    | none => exact absurd hu hm
    | some u =>
      rw [hu] at hms
      by_cases hv : b.version ≠ .b1
      · simp [hv] at hms
      · simp [supportsManifest, hv]
  · simp [supportsManifest, hv]

/-- several resources for one URL are an error exactly for the versions without `supportsVariants` -/
theorem finalizeIndex_variants (ver : Bundle.BVer) (entries : List Bundle.IndexEntry) (hv : supportsVariants ver = false)
    (hm : (Bundle.groupByUrl entries []).any (fun g => g.2.length > 1) = true) :
    Bundle.finalizeIndex ver entries = .ok (.error .multipleResources) := by
  cases ver with
  | b1 => simp [supportsVariants] at hv
  | b2 =>
    unfold Bundle.finalizeIndex
    simp only [hm]
    split <;> simp

theorem parseIndex_view (url : Bundle.BUrlFacts) (ver : Bundle.BVer) (contents : Bytes) (sectionsStart : Nat)
    (sos : List Bundle.SectionOffset) : Bundle.parseIndex url ver contents sectionsStart sos =
    match Cbor.decodeMapHeader contents with
    | none => none
    | some (n, bs) =>
      match Bundle.findSection sos Bundle.nResponses 0 with
      | none => none
      | some (respso, rel) =>
        if supportsVariants ver then Bundle.indexEntriesB1 url respso.length (Bundle.w64 (sectionsStart + rel)) n bs []
        else Bundle.indexEntriesB2 url respso.length (Bundle.w64 (sectionsStart + rel)) n bs [] := by
  unfold Bundle.parseIndex
  cases ver <;> rfl


end WebPkg.FuncsTie
