import WebPkg.Gen.FuncsCbor
import WebPkg.Model.Cbor
import WebPkg.Model.Deterministic
import WebPkg.Proofs.FactsTie.FuncsCommon
/- Function-level tie (see FuncsCommon.lean): generated module WebPkg.Gen.FuncsCbor (tools/xlate, regenerated from /repo on every run) against the hand-written model. -/
namespace WebPkg.FuncsTie
open WebPkg.Gen.Funcs

/-! ### internal/cbor/types.go + addinfo.go — initial byte of a data item
    model: `Cbor.decodeHead` splits the byte as (b / 32, b % 32); `Cbor.nfollow`; `Det.aiLength`, `Det.aiLowerLimit`. -/

/-- view of the model: the Go enum value `AdditionalInfo…` for additional information `ai`, read off the model's
    `Cbor.nfollow` (the model refuses 28..31 alike; Go names 31 "indefinite" and 28..30 "reserved") -/
def aiClass (ai : Nat) : Nat :=
  match Cbor.nfollow ai with
  | some 0 => cbor.AdditionalInfoDirect
  | some 1 => cbor.AdditionalInfoOneByte
  | some 2 => cbor.AdditionalInfoTwoBytes
  | some 4 => cbor.AdditionalInfoFourBytes
  | some 8 => cbor.AdditionalInfoEightBytes
  | _ => if ai = 31 then cbor.AdditionalInfoIndefinite else cbor.AdditionalInfoReserved

theorem getMajorType_fin : ∀ n : Fin 256,
    (cbor.getMajorType (UInt8.ofNat n.val)).toNat = 32 * ((UInt8.ofNat n.val).toNat / 32) := by decide +kernel
/-- `getMajorType b` is `32 * mt` where `mt = b / 32` is the model's major type (cf. the header comment of Model/Cbor.lean) -/
theorem getMajorType_eq : ∀ b : UInt8, (cbor.getMajorType b).toNat = 32 * (b.toNat / 32) := forall_byte getMajorType_fin

/-- the Go `Type…` constants are `32 * mt` for the model's major types 0..7 -/
theorem type_consts :
    cbor.TypePosInt.toNat = 32 * 0 ∧ cbor.TypeNegInt = 32 * 1 ∧ cbor.TypeBytes = 32 * 2 ∧ cbor.TypeText = 32 * 3 ∧
    cbor.TypeArray = 32 * 4 ∧ cbor.TypeMap = 32 * 5 ∧ cbor.TypeTag = 32 * 6 ∧ cbor.TypeOther = 32 * 7 := by decide

theorem directValue_fin : ∀ n : Fin 256,
    (cbor.getAdditionalInfoDirectValue (UInt8.ofNat n.val)).toNat = (UInt8.ofNat n.val).toNat % 32 := by decide +kernel
/-- `getAdditionalInfoDirectValue b` is the model's additional information `b % 32` -/
theorem directValue_eq : ∀ b : UInt8, (cbor.getAdditionalInfoDirectValue b).toNat = b.toNat % 32 := forall_byte directValue_fin

theorem convert_fin : ∀ n : Fin 256,
    cbor.convertToAdditionalInfo (UInt8.ofNat n.val) = aiClass ((UInt8.ofNat n.val).toNat % 32) := by decide +kernel
theorem convert_eq : ∀ b : UInt8, cbor.convertToAdditionalInfo b = aiClass (b.toNat % 32) := forall_byte convert_fin

theorem length_fin : ∀ n : Fin 256,
    cbor.getAdditionalInfoLength (cbor.convertToAdditionalInfo (UInt8.ofNat n.val)) = Cbor.nfollow ((UInt8.ofNat n.val).toNat % 32) := by
  decide +kernel
/-- number of argument bytes after the initial byte: Go (`none` = panic) = model (`none` = refused) for every byte -/
theorem length_eq : ∀ b : UInt8, cbor.getAdditionalInfoLength (cbor.convertToAdditionalInfo b) = Cbor.nfollow (b.toNat % 32) :=
  forall_byte length_fin

/-- the model's head decoder, written with the translated Go helpers -/
theorem decodeHead_gen (b : UInt8) (rest : Bytes) :
    Cbor.decodeHead (b :: rest) =
      match cbor.getAdditionalInfoLength (cbor.convertToAdditionalInfo b) with
      | none => none
      | some 0 => some ((cbor.getMajorType b).toNat / 32, (cbor.getAdditionalInfoDirectValue b).toNat, rest)
      | some k => if rest.length < k then none else some ((cbor.getMajorType b).toNat / 32, beVal (rest.take k), rest.drop k) := by
  have h : (cbor.getMajorType b).toNat / 32 = b.toNat / 32 := by rw [getMajorType_eq]; omega
  rw [length_eq, directValue_eq, h]
  rfl

theorem lowerLimit_fin : ∀ n : Fin 256,
    cbor.getAdditionalInfoValueLowerLimit (cbor.convertToAdditionalInfo (UInt8.ofNat n.val)) =
      (let ai := (UInt8.ofNat n.val).toNat % 32
       if ai < 24 then some 0 else if ai ≤ 27 then some (Det.aiLowerLimit ai) else none) := by decide +kernel
/-- shortest-form lower limits: 0 for direct values, `Det.aiLowerLimit` for 24..27, panic for 28..31 -/
theorem lowerLimit_eq : ∀ b : UInt8,
    cbor.getAdditionalInfoValueLowerLimit (cbor.convertToAdditionalInfo b) =
      (let ai := b.toNat % 32
       if ai < 24 then some 0 else if ai ≤ 27 then some (Det.aiLowerLimit ai) else none) := forall_byte lowerLimit_fin

theorem aiLength_fin : ∀ n : Fin 256,
    (let ai := (UInt8.ofNat n.val).toNat % 32
     24 ≤ ai → ai ≤ 27 → cbor.getAdditionalInfoLength (cbor.convertToAdditionalInfo (UInt8.ofNat n.val)) = some (Det.aiLength ai)) := by
  decide +kernel
/-- `Det.aiLength` is `getAdditionalInfoLength` on 24..27 -/
theorem aiLength_eq : ∀ b : UInt8,
    (let ai := b.toNat % 32
     24 ≤ ai → ai ≤ 27 → cbor.getAdditionalInfoLength (cbor.convertToAdditionalInfo b) = some (Det.aiLength ai)) := forall_byte aiLength_fin

/-- the model's `unsignedIntegerDeterministic`, written with the translated Go helpers
    (Go: reserved/indefinite are rejected before the helpers are called, so their panics are unreachable) -/
theorem uintDet_gen (b : UInt8) (rest : Bytes) :
    Det.uintDet (b :: rest) =
      (let ainfo := cbor.convertToAdditionalInfo b
       if ainfo == cbor.AdditionalInfoReserved || ainfo == cbor.AdditionalInfoIndefinite then .error
       else if ainfo == cbor.AdditionalInfoDirect then .ok (0, (cbor.getAdditionalInfoDirectValue b).toNat)
       else match cbor.getAdditionalInfoLength ainfo, cbor.getAdditionalInfoValueLowerLimit ainfo with
         | some k, some lim =>
           if rest.length < k then .panic
           else if beVal (rest.take k) < lim then .error else .ok (k, beVal (rest.take k))
         | _, _ => .panic) := by
  have hc := convert_eq b
  have hl := length_eq b
  have hm := lowerLimit_eq b
  have hd := directValue_eq b
  have hlt : b.toNat % 32 < 32 := Nat.mod_lt _ (by decide)
  rw [hc] at hl hm
  simp only [Det.uintDet, hc, hd]
  rw [hl, hm]
  generalize b.toNat % 32 = ai at *
  have : ai < 24 ∨ ai = 24 ∨ ai = 25 ∨ ai = 26 ∨ ai = 27 ∨ ai = 28 ∨ ai = 29 ∨ ai = 30 ∨ ai = 31 := by omega
  rcases this with h | h | h | h | h | h | h | h | h
  · have h1 : ¬ 28 ≤ ai := by omega
    simp [aiClass, Cbor.nfollow, h, h1, cbor.AdditionalInfoDirect, cbor.AdditionalInfoReserved, cbor.AdditionalInfoIndefinite]
  all_goals (subst h; simp [aiClass, Cbor.nfollow, Det.aiLength, Det.aiLowerLimit, cbor.AdditionalInfoDirect,
    cbor.AdditionalInfoOneByte, cbor.AdditionalInfoTwoBytes, cbor.AdditionalInfoFourBytes, cbor.AdditionalInfoEightBytes,
    cbor.AdditionalInfoReserved, cbor.AdditionalInfoIndefinite])

/-- the two enum-indexed Go functions on ALL enum values (including values that are no enum constant): explicit table;
    together with `convert_range` this covers every input of the composition theorems above -/
theorem getAdditionalInfoLength_table (a : Nat) :
    cbor.getAdditionalInfoLength a =
      if a = 0 then some 0 else if a = 1 then some 1 else if a = 2 then some 2 else if a = 3 then some 4
      else if a = 4 then some 8 else none := by
  simp [cbor.getAdditionalInfoLength, cbor.AdditionalInfoDirect, cbor.AdditionalInfoOneByte, cbor.AdditionalInfoTwoBytes,
    cbor.AdditionalInfoFourBytes, cbor.AdditionalInfoEightBytes]
theorem getAdditionalInfoValueLowerLimit_table (a : Nat) :
    cbor.getAdditionalInfoValueLowerLimit a =
      if a = 0 then some 0 else if a = 1 then some 24 else if a = 2 then some (2 ^ 8) else if a = 3 then some (2 ^ 16)
      else if a = 4 then some (2 ^ 32) else none := by
  simp [cbor.getAdditionalInfoValueLowerLimit, cbor.AdditionalInfoDirect, cbor.AdditionalInfoOneByte, cbor.AdditionalInfoTwoBytes,
    cbor.AdditionalInfoFourBytes, cbor.AdditionalInfoEightBytes]
/-- `convertToAdditionalInfo` reaches exactly the seven enum constants -/
theorem convert_range_fin : ∀ n : Fin 256, cbor.convertToAdditionalInfo (UInt8.ofNat n.val) ≤ cbor.AdditionalInfoIndefinite := by
  decide +kernel
theorem convert_range : ∀ b : UInt8, cbor.convertToAdditionalInfo b ≤ cbor.AdditionalInfoIndefinite := forall_byte convert_range_fin
theorem convert_onto : ∀ a : Fin 7, ∃ n : Fin 256, cbor.convertToAdditionalInfo (UInt8.ofNat n.val) = a.val := by decide +kernel


end WebPkg.FuncsTie
