import WebPkg.Model.Basic
/-
  Function-level tie between the Go sources and the hand-written model.

  `WebPkg.Gen.Funcs` is produced mechanically by tools/xlate from the Go FuncDecls (one Lean `def` per Go function).
  Every theorem below states, for ALL inputs, that such a generated def agrees with the model definition that plays its
  role.  Editing one of the Go functions changes the regenerated module and breaks the corresponding theorem.

  Shape of the statements
  * byte functions: `∀ c : UInt8, Gen.f c = Model.f c`, proved on `Fin 256` by `decide` and lifted.
  * the Go code dispatches on version / encoding *strings*, the model on inductive types (`Sxg.Ver`, `Bundle.BVer`,
    `Mice.Enc`).  The views `sxgVerOf`, `bverOf`, `miceEncOf : Bytes → Option _` decode the Go string; each tie then
    reads `Gen.f v = (view v).map Model.f` (`none` = Go panics = the string names no version of the model).
    `*_view_surj` / `*_distinct` show that the views are onto and the Go constants pairwise distinct.
-/
namespace WebPkg.FuncsTie

/-- lifting a statement checked on `Fin 256` to all bytes -/
theorem forall_byte {P : UInt8 → Prop} (h : ∀ n : Fin 256, P (UInt8.ofNat n.val)) : ∀ c : UInt8, P c := by
  intro c
  have := h ⟨c.toNat, c.toNat_lt⟩
  simpa using this

end WebPkg.FuncsTie
