import WebPkg.Gen.FuncsMice
import WebPkg.Model.Mice
import WebPkg.Proofs.FactsTie.FuncsCommon
/- Function-level tie (see FuncsCommon.lean): generated module WebPkg.Gen.FuncsMice (tools/xlate, regenerated from /repo on every run) against the hand-written model. -/
namespace WebPkg.FuncsTie
open WebPkg.Gen.Funcs

/-! ### signedexchange/mice/mice.go — model: `Mice.Enc` (`name`, `digestHeaderName`, `integrityIdentifier`, `b64encode/b64decode`) -/

/-- the model encoding named by a Go `mice.Encoding` string (`Enc.name` is the model's content-encoding name) -/
def miceEncOf (e : Bytes) : Option Mice.Enc :=
  if e = Mice.Enc.draft02.name then some .draft02 else if e = Mice.Enc.draft03.name then some .draft03 else none

theorem mice_consts : mice.Draft02Encoding = Mice.Enc.draft02.name ∧ mice.Draft03Encoding = Mice.Enc.draft03.name := by decide
theorem miceEncOf_name (x : Mice.Enc) : miceEncOf x.name = some x := by cases x <;> decide

/-- `ContentEncoding()` is the identity on the encoding string; on the model's encodings it is `Enc.name` -/
theorem contentEncoding_eq (e : Bytes) : mice.ContentEncoding e = e := rfl
theorem contentEncoding_model (x : Mice.Enc) : mice.ContentEncoding x.name = x.name := rfl

/-- `DigestHeaderName()`: no panic; every string other than the draft-02 name gets the draft-03 header -/
theorem digestHeaderName_eq (e : Bytes) :
    mice.DigestHeaderName e = ((miceEncOf e).getD .draft03).digestHeaderName := by
  by_cases h1 : e = Mice.Enc.draft02.name
  · subst h1; decide
  · by_cases h2 : e = Mice.Enc.draft03.name
    · subst h2; decide
    · simp [mice.DigestHeaderName, miceEncOf, mice_consts.1, h1, h2, Mice.Enc.digestHeaderName]

theorem integrityIdentifier_eq (e : Bytes) :
    mice.IntegrityIdentifier e = (miceEncOf e).map Mice.Enc.integrityIdentifier := by
  by_cases h1 : e = Mice.Enc.draft02.name
  · subst h1; decide
  · by_cases h2 : e = Mice.Enc.draft03.name
    · subst h2; decide
    · simp [mice.IntegrityIdentifier, miceEncOf, mice_consts.1, mice_consts.2, h1, h2]

/-- view of the model: (URL alphabet?, '=' padding?) of the base64 flavour an encoding uses -/
def b64Flavour : Mice.Enc → Bool × Bool
  | .draft02 => (true, false)
  | .draft03 => (false, true)
theorem b64Flavour_encode (x : Mice.Enc) : x.b64encode = Base64.encode (b64Flavour x).1 (b64Flavour x).2 := by cases x <;> rfl
theorem b64Flavour_decode (x : Mice.Enc) : x.b64decode = Base64.decode (b64Flavour x).1 (b64Flavour x).2 := by cases x <;> rfl

/-- Go's name (package-level variable of encoding/base64) of a flavour -/
def goBase64Name : Bool × Bool → Bytes
  | (true, false) => [82, 97, 119, 85, 82, 76, 69, 110, 99, 111, 100, 105, 110, 103]       -- "RawURLEncoding"
  | (false, true) => [83, 116, 100, 69, 110, 99, 111, 100, 105, 110, 103]                   -- "StdEncoding"
  | (true, true) => [85, 82, 76, 69, 110, 99, 111, 100, 105, 110, 103]                      -- "URLEncoding"
  | (false, false) => [82, 97, 119, 83, 116, 100, 69, 110, 99, 111, 100, 105, 110, 103]     -- "RawStdEncoding"

theorem base64Encoding_eq (e : Bytes) :
    mice.base64Encoding e = (miceEncOf e).map fun x => goBase64Name (b64Flavour x) := by
  by_cases h1 : e = Mice.Enc.draft02.name
  · subst h1; decide
  · by_cases h2 : e = Mice.Enc.draft03.name
    · subst h2; decide
    · simp [mice.base64Encoding, miceEncOf, mice_consts.1, mice_consts.2, h1, h2]

theorem usesRawURLBase64_eq (e : Bytes) : mice.usesRawURLBase64 e = (miceEncOf e == some .draft02) := by
  unfold mice.usesRawURLBase64
  rw [base64Encoding_eq]
  by_cases h1 : e = Mice.Enc.draft02.name
  · subst h1; decide
  · by_cases h2 : e = Mice.Enc.draft03.name
    · subst h2; decide
    · simp [miceEncOf, h1, h2]


end WebPkg.FuncsTie
