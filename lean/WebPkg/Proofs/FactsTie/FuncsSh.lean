import WebPkg.Gen.FuncsSh
import WebPkg.Model.StructuredHeader
import WebPkg.Proofs.FactsTie.FuncsCommon
/- Function-level tie (see FuncsCommon.lean): generated module WebPkg.Gen.FuncsSh (tools/xlate, regenerated from /repo on every run) against the hand-written model. -/
namespace WebPkg.FuncsTie
open WebPkg.Gen.Funcs

/-! ### structuredheader/parser.go — character classes (model: `SH.isDigit` … `SH.isTokenChar`) -/

theorem isDigit_fin : ∀ n : Fin 256, sh.isDigit (UInt8.ofNat n.val) = SH.isDigit (UInt8.ofNat n.val) := by decide +kernel
theorem isLCAlpha_fin : ∀ n : Fin 256, sh.isLCAlpha (UInt8.ofNat n.val) = SH.isLCAlpha (UInt8.ofNat n.val) := by decide +kernel
theorem isAlpha_fin : ∀ n : Fin 256, sh.isAlpha (UInt8.ofNat n.val) = SH.isAlpha (UInt8.ofNat n.val) := by decide +kernel
theorem isKeyChar_fin : ∀ n : Fin 256, sh.isKeyChar (UInt8.ofNat n.val) = SH.isKeyChar (UInt8.ofNat n.val) := by decide +kernel
theorem isTokenChar_fin : ∀ n : Fin 256, sh.isTokenChar (UInt8.ofNat n.val) = SH.isTokenChar (UInt8.ofNat n.val) := by decide +kernel

theorem isDigit_eq : ∀ c, sh.isDigit c = SH.isDigit c := forall_byte isDigit_fin
theorem isLCAlpha_eq : ∀ c, sh.isLCAlpha c = SH.isLCAlpha c := forall_byte isLCAlpha_fin
theorem isAlpha_eq : ∀ c, sh.isAlpha c = SH.isAlpha c := forall_byte isAlpha_fin
theorem isKeyChar_eq : ∀ c, sh.isKeyChar c = SH.isKeyChar c := forall_byte isKeyChar_fin
theorem isTokenChar_eq : ∀ c, sh.isTokenChar c = SH.isTokenChar c := forall_byte isTokenChar_fin

/-- consequence used by the parser/serialiser model: the Go predicates validate exactly the model's keys and tokens -/
theorem isValidKey_gen (s : Bytes) :
    SH.isValidKey s = (match s with | [] => false | c :: _ => sh.isLCAlpha c && s.all sh.isKeyChar) := by
  have h : sh.isKeyChar = SH.isKeyChar := funext isKeyChar_eq
  cases s <;> simp [SH.isValidKey, h, isLCAlpha_eq]
theorem isValidToken_gen (s : Bytes) :
    SH.isValidToken s = (match s with | [] => false | c :: _ => sh.isAlpha c && s.all sh.isTokenChar) := by
  have h : sh.isTokenChar = SH.isTokenChar := funext isTokenChar_eq
  cases s <;> simp [SH.isValidToken, h, isAlpha_eq]


end WebPkg.FuncsTie
