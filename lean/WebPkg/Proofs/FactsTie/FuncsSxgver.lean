import WebPkg.Gen.FuncsSxgver
import WebPkg.Model.Sxg
import WebPkg.Proofs.FactsTie.FuncsMice
/- Function-level tie (see FuncsCommon.lean): generated module WebPkg.Gen.FuncsSxgver (tools/xlate, regenerated from /repo on every run) against the hand-written model. -/
namespace WebPkg.FuncsTie
open WebPkg.Gen.Funcs

/-! ### signedexchange/version/version.go — model: `Sxg.Ver` (`magic`, `mice`) -/

/-- the model version named by a Go `version.Version` string (the model has no version strings of its own) -/
def sxgVerOf (v : Bytes) : Option Sxg.Ver :=
  if v = sxgver.Version1b1 then some .b1 else if v = sxgver.Version1b2 then some .b2
  else if v = sxgver.Version1b3 then some .b3 else none

theorem sxgVer_distinct : sxgver.Version1b1 ≠ sxgver.Version1b2 ∧ sxgver.Version1b1 ≠ sxgver.Version1b3 ∧
    sxgver.Version1b2 ≠ sxgver.Version1b3 := by decide
theorem sxgVerOf_view_surj : sxgVerOf sxgver.Version1b1 = some .b1 ∧ sxgVerOf sxgver.Version1b2 = some .b2 ∧
    sxgVerOf sxgver.Version1b3 = some .b3 := by decide

theorem sxg_headerMagicBytes_eq (v : Bytes) : sxgver.HeaderMagicBytes v = (sxgVerOf v).map Sxg.Ver.magic := by
  by_cases h1 : v = sxgver.Version1b1
  · subst h1; decide
  · by_cases h2 : v = sxgver.Version1b2
    · subst h2; decide
    · by_cases h3 : v = sxgver.Version1b3
      · subst h3; decide
      · simp [sxgver.HeaderMagicBytes, sxgVerOf, h1, h2, h3]

/-- all magic strings have the length the reader takes (`HeaderMagicBytesLen`, `bs.take 8` in `Sxg.parse`) -/
theorem sxg_magic_len (x : Sxg.Ver) : x.magic.length = sxgver.HeaderMagicBytesLen := by cases x <;> rfl

theorem sxg_miceEncoding_eq (v : Bytes) : sxgver.MiceEncoding v = (sxgVerOf v).map fun x => x.mice.name := by
  by_cases h1 : v = sxgver.Version1b1
  · subst h1; decide
  · by_cases h2 : v = sxgver.Version1b2
    · subst h2; decide
    · by_cases h3 : v = sxgver.Version1b3
      · subst h3; decide
      · simp [sxgver.MiceEncoding, sxgVerOf, h1, h2, h3]

/-- composition used by the signer/verifier model (`v.mice.integrityIdentifier` in `Sxg.signatureHeaderValue`) -/
theorem sxg_integrity_eq (v : Bytes) :
    (sxgver.MiceEncoding v).bind mice.IntegrityIdentifier = (sxgVerOf v).map fun x => x.mice.integrityIdentifier := by
  rw [sxg_miceEncoding_eq]
  cases sxgVerOf v with
  | none => rfl
  | some x => simp [integrityIdentifier_eq, miceEncOf_name]


end WebPkg.FuncsTie
