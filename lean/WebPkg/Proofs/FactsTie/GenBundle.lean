import WebPkg.Gen.Facts
import WebPkg.Model.HarWalk
import WebPkg.Model.DirWalk
/-
  Regenerated tie for cmd/gen-bundle: the literals of fromhar.go / fromdir.go that the models HarWalk / DirWalk use
  (the `Variants` map key, the pseudo-header prefix `:`, the status bounds 100 and 999, the `base64` encoding name that
  selects the decoding branch; `index.html` and the `/` suffix of fromdir.go).
-/
namespace WebPkg.FactsTie
open WebPkg

theorem genbundle_har_constants :
    HarWalk.kVariants ∈ Facts.strs_genHar ∧ [58] ∈ Facts.strs_genHar ∧ [98, 97, 115, 101, 54, 52] ∈ Facts.strs_genHar ∧
    Facts.ints_genHar = [100, 999] := by decide

theorem genbundle_dir_constants : DirWalk.idx ∈ Facts.strs_genDir ∧ [47] ∈ Facts.strs_genDir := by decide

end WebPkg.FactsTie
