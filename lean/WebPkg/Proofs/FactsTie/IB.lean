import WebPkg.Gen.Facts
import WebPkg.Model.IntegrityBlock
/-
  The regenerated tie. `Gen/Facts.lean` is produced on every run by tools/extract (go/ast) from /repo's current sources:
  for each Go file the string literals, integer literals and []byte{...} literals it contains, and the two header-name
  tables of stateful_headers.go in source order. This file states, constant by constant, where the hand-written model's
  constants come from. A changed key name, magic number, context string, header table or limit in the Go code makes one
  of these `decide`s fail.
-/
namespace WebPkg.FactsTie
open WebPkg

/-! ### integrity block -/
theorem ib_constants : IB.blockMagic ∈ Facts.bytelits_ib ∧ IB.versionB1 ∈ Facts.bytelits_ib ∧
    IB.kEd25519PublicKey ∈ Facts.strs_ib := by decide

end WebPkg.FactsTie
