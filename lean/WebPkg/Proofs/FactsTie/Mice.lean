import WebPkg.Gen.Facts
import WebPkg.Model.Mice
/-
  The regenerated tie. `Gen/Facts.lean` is produced on every run by tools/extract (go/ast) from /repo's current sources:
  for each Go file the string literals, integer literals and []byte{...} literals it contains, and the two header-name
  tables of stateful_headers.go in source order. This file states, constant by constant, where the hand-written model's
  constants come from. A changed key name, magic number, context string, header table or limit in the Go code makes one
  of these `decide`s fail.
-/
namespace WebPkg.FactsTie
open WebPkg

/-! ### MI -/
theorem mice_names : ∀ e : Mice.Enc, e.name ∈ Facts.strs_mice ∧ e.digestHeaderName ∈ Facts.strs_mice ∧
    e.integrityIdentifier ∈ Facts.strs_mice := by intro e; cases e <;> decide

end WebPkg.FactsTie
