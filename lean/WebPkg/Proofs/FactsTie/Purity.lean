import WebPkg.Gen.Purity
/-
  Regenerated tie for C18 (purity / race freedom of the serializers). `Gen/Purity.lean` is produced on every run by
  tools/purity (go/ast) from the library packages of /repo (no cmd/, no tests): every place OUTSIDE init() and variable
  initialisers where a function assigns to, increments, takes the address of, appends to, copies into or calls a method
  on a package-level variable, and every use of sync, sync/atomic, math/rand, unsafe, time.Now/Since/Until, os.Getenv.
  The theorem below says that this list is exactly the audited one:
    * the two `append(HeaderMagicBytesBx, VersionMagicBytesBx...)` in bundle/version: the first argument is a
      `[]byte{...}` literal (len = cap), so append always allocates and never writes behind the shared slice
      (checked dynamically by `c18.retain magic`);
    * `MatchString` on the two package-level `*regexp.Regexp` of go/bundle (documented safe for concurrent use, no state);
    * `os.Getenv` in the encrypted-private-key path of internal/signingalgorithm (command-line key loading, not a serializer).
  So no serializer reads or writes mutable package-level state: with inputs that are not mutated, concurrent calls share
  nothing they write. A new cache, pool, once-initialised table or counter shows up here as a new entry and breaks the
  theorem (the race-detector histories and the per-process version histories of gen/c18.py then look for a witness).
-/
namespace WebPkg.PurityTie

theorem shared_state_touches_are_the_audited_ones :
    Purity.sharedStateTouches = [
      "go/bundle/version:Version.HeaderMagicBytes:append:HeaderMagicBytesB1",
      "go/bundle/version:Version.HeaderMagicBytes:append:HeaderMagicBytesB2",
      "go/bundle:isAscii:method:reIsAscii.MatchString",
      "go/bundle:loadResponse:method:reStatus.MatchString",
      "go/internal/signingalgorithm:parseEncryptedPrivateKeyBlock:uses:os.Getenv"] := by decide

end WebPkg.PurityTie
