import WebPkg.Gen.Facts
import WebPkg.Model.SxgVerify
/-
  The regenerated tie. `Gen/Facts.lean` is produced on every run by tools/extract (go/ast) from /repo's current sources:
  for each Go file the string literals, integer literals and []byte{...} literals it contains, and the two header-name
  tables of stateful_headers.go in source order. This file states, constant by constant, where the hand-written model's
  constants come from. A changed key name, magic number, context string, header table or limit in the Go code makes one
  of these `decide`s fail.
-/
namespace WebPkg.FactsTie
open WebPkg

/-! ### header tables (exact, in order) -/
theorem stateful_table : Facts.table_statefulRequestHeaders = Sxg.statefulRequestHeaders := by decide
theorem uncached_table : Facts.table_uncachedHeaders = Sxg.uncachedHeaders := by decide

/-! ### signed exchanges -/
theorem sxg_magic : ∀ v : Sxg.Ver, v.magic ∈ Facts.strs_sxgVersion := by intro v; cases v <;> decide
theorem sxg_context : ∀ v : Sxg.Ver, v.context ∈ Facts.strs_sxgSigner := by intro v; cases v <;> decide
theorem sxg_keys : Sxg.keyMethod ∈ Facts.strs_sxg ∧ Sxg.keyURL ∈ Facts.strs_sxg ∧ Sxg.keyStatus ∈ Facts.strs_sxg ∧
    Sxg.https ∈ Facts.strs_sxg ∧ Sxg.hContentEncoding ∈ Facts.strs_sxg := by decide
theorem sxg_signature_params : Sxg.kCertSha256 ∈ Facts.strs_sxgSigner ∧ Sxg.kValidityUrl ∈ Facts.strs_sxgSigner ∧
    Sxg.kDate ∈ Facts.strs_sxgSigner ∧ Sxg.kExpires ∈ Facts.strs_sxgSigner ∧ Sxg.kHeaders ∈ Facts.strs_sxgSigner ∧
    Sxg.kCertUrl ∈ Facts.strs_sxgSigner ∧ Sxg.kIntegrity ∈ Facts.strs_sxgSigner ∧ Sxg.kSig ∈ Facts.strs_sxgSigner ∧
    Sxg.kLabel ∈ Facts.strs_sxgSigner := by decide
theorem sxg_signature_params_verifier : Sxg.kCertSha256 ∈ Facts.strs_sxgVerify ∧ Sxg.kValidityUrl ∈ Facts.strs_sxgVerify ∧
    Sxg.kDate ∈ Facts.strs_sxgVerify ∧ Sxg.kExpires ∈ Facts.strs_sxgVerify ∧ Sxg.kCertUrl ∈ Facts.strs_sxgVerify ∧
    Sxg.kIntegrity ∈ Facts.strs_sxgVerify ∧ Sxg.kSig ∈ Facts.strs_sxgVerify := by decide
theorem sxg_policy_strings : Sxg.dNoStore ∈ Facts.strs_sxgVerify ∧ Sxg.dPrivate ∈ Facts.strs_sxgVerify ∧
    Sxg.dMaxAge ∈ Facts.strs_sxgVerify ∧ Sxg.dSMaxage ∈ Facts.strs_sxgVerify ∧ Sxg.dPublic ∈ Facts.strs_sxgVerify ∧
    Sxg.hCacheControl ∈ Facts.strs_sxgVerify ∧ Sxg.hExpires ∈ Facts.strs_sxgVerify ∧ Sxg.hContentType ∈ Facts.strs_sxgVerify := by decide
/-- limits: 7-day lifetime (7 * 24 hours), MI record size limit of the verifier, writer limits -/
theorem sxg_limits : 7 ∈ Facts.ints_sxgVerify ∧ 24 ∈ Facts.ints_sxgVerify ∧ 16384 ∈ Facts.ints_sxgVerify := by decide

end WebPkg.FactsTie
