import WebPkg.Model.SxgVerify
/-
  On the "sane" range (|unix seconds| ≤ 2^62) the Go `time.Time` window test of
  `verifyTimestamps` coincides with the plain integer test.  The overflow branch of
  `Time.Sub` (wrapping Duration arithmetic, then saturation) is handled in full.
-/
namespace WebPkg.GoTime

theorem wrapS64_eq {z : Int} (h1 : -(2:Int)^63 ≤ z) (h2 : z < (2:Int)^63) : wrapS64 z = z := by
  unfold wrapS64; omega

theorem wrapS64_range (z : Int) : -(2:Int)^63 ≤ wrapS64 z ∧ wrapS64 z < (2:Int)^63 := by
  unfold wrapS64; omega

theorem wrapS64_eq_iff (z : Int) : wrapS64 z = z ↔ (-(2:Int)^63 ≤ z ∧ z < (2:Int)^63) := by
  unfold wrapS64; omega

theorem before_iff (a b : T) :
    before a b = true ↔ (a.isec < b.isec ∨ (a.isec = b.isec ∧ a.nsec < b.nsec)) := by
  simp [before]

/-- truncated division by 10^9, in a form `omega` can use -/
theorem tdivmod_spec (d : Int) :
    d = 1000000000 * Int.tdiv d 1000000000 + Int.tmod d 1000000000 ∧
    -1000000000 < Int.tmod d 1000000000 ∧ Int.tmod d 1000000000 < 1000000000 ∧
    (0 ≤ d → 0 ≤ Int.tmod d 1000000000) ∧ (d ≤ 0 → Int.tmod d 1000000000 ≤ 0) := by
  refine ⟨(Int.mul_tdiv_add_tmod d 1000000000).symm, ?_, ?_, ?_, ?_⟩
  · have := Int.lt_tmod_of_pos d (b := 1000000000) (by decide); omega
  · exact Int.tmod_lt_of_pos d (by decide)
  · exact fun h => Int.tmod_nonneg _ h
  · intro h
    have h1 : 0 ≤ (-d).tmod 1000000000 := Int.tmod_nonneg _ (by omega)
    rw [Int.neg_tmod] at h1
    omega

/-- `Time.Add` on a whole-second time whose seconds are far from the int64 limits:
    the result is a given whole-second time exactly when `d` is the exact difference. -/
theorem add_eq_iff (D X d : Int)
    (hD : -(2:Int)^63 + 10000000000 ≤ D ∧ D < (2:Int)^63 - 10000000000)
    (hd : -(2:Int)^63 ≤ d ∧ d < (2:Int)^63) :
    add ⟨D, 0⟩ d = ⟨X, 0⟩ ↔ d = (X - D) * 1000000000 := by
  obtain ⟨h0, h1, h2, h3, h4⟩ := tdivmod_spec d
  unfold add
  simp only [Int.zero_add]
  generalize Int.tdiv d 1000000000 = q at *
  generalize Int.tmod d 1000000000 = r at *
  have hge : ¬ (r ≥ 1000000000) := by omega
  rw [if_neg hge]
  by_cases hneg : r < 0
  · rw [if_pos hneg]
    simp only [T.mk.injEq]
    constructor
    · intro h; omega
    · intro h; omega
  · rw [if_neg hneg]
    simp only
    have hs : wrapS64 (D + q) = D + q := wrapS64_eq (by omega) (by omega)
    rw [hs]
    have hb : (decide (D + q > D) == decide (q > 0)) = true := by
      by_cases hq : q > 0
      · have : D + q > D := by omega
        simp [hq, this]
      · have : ¬ (D + q > D) := by omega
        simp [hq, this]
    rw [if_pos hb]
    simp only [T.mk.injEq]
    constructor
    · intro h; omega
    · intro h; omega

/-- `Time.Sub` of two whole-second times in the sane range: exact when the nanosecond
    difference fits an int64, otherwise saturated in the direction of the difference. -/
theorem sub_whole (D X : Int)
    (hD : -(2:Int)^63 + 10000000000 ≤ D ∧ D < (2:Int)^63 - 10000000000) :
    sub ⟨X, 0⟩ ⟨D, 0⟩ =
      if -(2:Int)^63 ≤ (X - D) * 1000000000 ∧ (X - D) * 1000000000 < (2:Int)^63 then (X - D) * 1000000000
      else if X < D then minDuration else maxDuration := by
  unfold sub
  simp only [Int.sub_zero, Int.add_zero]
  simp only [add_eq_iff D X _ hD (wrapS64_range _), wrapS64_eq_iff]
  by_cases h : -(2:Int)^63 ≤ (X - D) * 1000000000 ∧ (X - D) * 1000000000 < (2:Int)^63
  · rw [if_pos h, if_pos h, wrapS64_eq h.1 h.2]
  · rw [if_neg h, if_neg h]
    simp [before_iff]

/-- overflow branch, stated separately: if the difference in nanoseconds does not fit an
    int64, `Sub` saturates to `maxDuration` / `minDuration` according to the sign. -/
theorem sub_whole_overflow (D X : Int)
    (hD : -(2:Int)^63 + 10000000000 ≤ D ∧ D < (2:Int)^63 - 10000000000)
    (ho : ¬ (-(2:Int)^63 ≤ (X - D) * 1000000000 ∧ (X - D) * 1000000000 < (2:Int)^63)) :
    sub ⟨X, 0⟩ ⟨D, 0⟩ = if X < D then minDuration else maxDuration := by
  rw [sub_whole D X hD, if_neg ho]

end WebPkg.GoTime

namespace WebPkg.Sxg
open WebPkg.GoTime

theorem ofUnix_sane (x n : Int) (h : -(2:Int)^62 ≤ x ∧ x < (2:Int)^62) :
    ofUnix x n = ⟨x + unixToInternal, n⟩ := by
  unfold ofUnix
  rw [wrapS64_eq (by unfold unixToInternal; omega) (by unfold unixToInternal; omega)]

/-- the lifetime check alone -/
theorem sub_gt_week_iff (date expires : Int)
    (hd : -(2:Int)^62 ≤ date ∧ date < (2:Int)^62) (hx : -(2:Int)^62 ≤ expires ∧ expires < (2:Int)^62) :
    GoTime.sub (ofUnix expires 0) (ofUnix date 0) > 604800 * 1000000000 ↔ expires - date > 604800 := by
  rw [ofUnix_sane _ _ hd, ofUnix_sane _ _ hx,
    sub_whole _ _ (by unfold unixToInternal; omega)]
  have he : expires + unixToInternal - (date + unixToInternal) = expires - date := by omega
  rw [he]
  by_cases h : -(2:Int)^63 ≤ (expires - date) * 1000000000 ∧ (expires - date) * 1000000000 < (2:Int)^63
  · rw [if_pos h]; omega
  · rw [if_neg h]
    by_cases h2 : expires + unixToInternal < date + unixToInternal
    · rw [if_pos h2]; unfold minDuration; omega
    · rw [if_neg h2]; unfold maxDuration; omega

theorem timestampsOk_iff (s : Signature) (ts tn : Int)
    (hd : -(2:Int)^62 ≤ s.date ∧ s.date < (2:Int)^62) (hx : -(2:Int)^62 ≤ s.expires ∧ s.expires < (2:Int)^62)
    (ht : -(2:Int)^62 ≤ ts ∧ ts < (2:Int)^62) (hn : 0 ≤ tn ∧ tn < 1000000000) :
    timestampsOk s (GoTime.ofUnix ts tn) = true ↔
      (s.expires - s.date ≤ 604800 ∧ (s.date < ts ∨ (s.date = ts ∧ 0 ≤ tn)) ∧ (ts < s.expires ∨ (ts = s.expires ∧ tn ≤ 0))) := by
  have _ := hn
  unfold timestampsOk
  simp only
  have hw := sub_gt_week_iff s.date s.expires hd hx
  by_cases hlife : GoTime.sub (ofUnix s.expires 0) (ofUnix s.date 0) > 604800 * 1000000000
  · rw [if_pos hlife]
    have := hw.mp hlife
    constructor
    · intro h; cases h
    · intro h; omega
  · rw [if_neg hlife]
    have hle : s.expires - s.date ≤ 604800 := by
      have : ¬ (s.expires - s.date > 604800) := fun h => hlife (hw.mpr h)
      omega
    rw [ofUnix_sane _ _ hd, ofUnix_sane _ _ hx, ofUnix_sane _ _ ht]
    by_cases hb : before ⟨ts + unixToInternal, tn⟩ ⟨s.date + unixToInternal, 0⟩ = true
    · rw [if_pos hb]
      rw [before_iff] at hb
      simp only at hb
      constructor
      · intro h; cases h
      · intro h; omega
    · rw [if_neg hb]
      rw [before_iff] at hb
      simp only at hb
      by_cases ha : after ⟨ts + unixToInternal, tn⟩ ⟨s.expires + unixToInternal, 0⟩ = true
      · rw [if_pos ha]
        rw [after, before_iff] at ha
        simp only at ha
        constructor
        · intro h; cases h
        · intro h; omega
      · rw [if_neg ha]
        rw [after, before_iff] at ha
        simp only at ha
        constructor
        · intro _; omega
        · intro _; rfl

theorem sameOrigin_refl (a : Bytes × Bytes × Bytes) : sameOrigin a a = true := by
  simp [sameOrigin]

theorem sameOrigin_symm (a b : Bytes × Bytes × Bytes) : sameOrigin a b = sameOrigin b a := by
  unfold sameOrigin
  rw [Bool.beq_comm (a := a.1), Bool.beq_comm (a := Http.lowerAscii a.2.1), Bool.beq_comm (a := effectivePort a.1 a.2.2)]

end WebPkg.Sxg
