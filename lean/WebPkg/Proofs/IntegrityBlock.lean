import WebPkg.Model.IntegrityBlock
import WebPkg.Properties.C13
import WebPkg.Properties.C11
import WebPkg.Proofs.Basic
/-
  Integrity-block signing of Web Bundles (Model/IntegrityBlock.lean):
  the block is deterministic CBOR, layout of the signed file, error cases, the signature-stack
  history invariant, injectivity of the data-to-be-signed, and the Web Bundle ID.
-/
namespace WebPkg.IB
open WebPkg.Cbor WebPkg.Spec.Cbor

/-! ### 3. `SignAndAddNewSignature`: success and error cases -/

/-- once the block encodes, is deterministic, the data-to-be-signed is built and the strategy signs,
    the outcome is decided by `ed25519.Verify` alone -/
theorem ib_signAndAdd_of (sign : Bytes → Option Bytes) (edVerify : Bytes → Bytes → Bytes → Bool) (hash : Bytes)
    (b : Block) (pk : Bytes) (attrs : List (Bytes × Bytes)) (bb dts sig : Bytes)
    (hb : blockCbor b = .ok bb) (hd : Det.deterministic bb = .ok ())
    (hdts : dataToBeSigned hash bb attrs = .ok dts) (hs : sign dts = some sig) :
    signAndAdd sign edVerify hash b pk attrs =
      if !edVerify pk dts sig then .ok (.error .verification)
      else .ok (.ok { b with stack := { attrs := attrs, signature := sig } :: b.stack }) := by
  unfold signAndAdd
  simp only [hb, hd, hdts, hs]

/-- a signature that does not verify under the recorded key is refused; nothing is added -/
theorem signAndAdd_verification_fails (sign : Bytes → Option Bytes) (edVerify : Bytes → Bytes → Bytes → Bool)
    (hash : Bytes) (b : Block) (pk : Bytes) (attrs : List (Bytes × Bytes)) (bb dts sig : Bytes)
    (hb : blockCbor b = .ok bb) (hd : Det.deterministic bb = .ok ())
    (hdts : dataToBeSigned hash bb attrs = .ok dts) (hs : sign dts = some sig)
    (hv : edVerify pk dts sig = false) :
    signAndAdd sign edVerify hash b pk attrs = .ok (.error .verification) := by
  rw [ib_signAndAdd_of sign edVerify hash b pk attrs bb dts sig hb hd hdts hs, hv]
  rfl

/-- a failing signing strategy is reported as such; nothing is added -/
theorem signAndAdd_strategy_fails (sign : Bytes → Option Bytes) (edVerify : Bytes → Bytes → Bytes → Bool)
    (hash : Bytes) (b : Block) (pk : Bytes) (attrs : List (Bytes × Bytes)) (bb dts : Bytes)
    (hb : blockCbor b = .ok bb) (hd : Det.deterministic bb = .ok ())
    (hdts : dataToBeSigned hash bb attrs = .ok dts) (hs : sign dts = none) :
    signAndAdd sign edVerify hash b pk attrs = .ok (.error .strategy) := by
  unfold signAndAdd
  simp only [hb, hd, hdts, hs]

/-- a block whose CBOR is not deterministic is refused before anything is signed -/
theorem signAndAdd_not_deterministic (sign : Bytes → Option Bytes) (edVerify : Bytes → Bytes → Bytes → Bool)
    (hash : Bytes) (b : Block) (pk : Bytes) (attrs : List (Bytes × Bytes)) (bb : Bytes)
    (hb : blockCbor b = .ok bb) (hd : Det.deterministic bb = .error) :
    signAndAdd sign edVerify hash b pk attrs = .ok (.error .notDeterministic) := by
  unfold signAndAdd
  simp only [hb, hd]

theorem signAndAdd_ok_iff (sign : Bytes → Option Bytes) (edVerify : Bytes → Bytes → Bytes → Bool) (hash : Bytes)
    (b : Block) (pk : Bytes) (attrs : List (Bytes × Bytes)) (b' : Block) :
    signAndAdd sign edVerify hash b pk attrs = .ok (.ok b') ↔
      ∃ bb dts sig, blockCbor b = .ok bb ∧ Det.deterministic bb = .ok () ∧
        dataToBeSigned hash bb attrs = .ok dts ∧ sign dts = some sig ∧ edVerify pk dts sig = true ∧
        b' = { b with stack := ⟨attrs, sig⟩ :: b.stack } := by
  constructor
  · intro h
    unfold signAndAdd at h
    cases hb : blockCbor b with
    | error e => simp only [hb] at h; cases h
    | ok bb =>
      simp only [hb] at h
      cases hd : Det.deterministic bb with
      | panic => simp only [hd] at h; cases h
      | error => simp only [hd] at h; cases h
      | ok u =>
        simp only [hd] at h
        cases hdts : dataToBeSigned hash bb attrs with
        | error e => simp only [hdts] at h; cases h
        | ok dts =>
          simp only [hdts] at h
          cases hs : sign dts with
          | none => simp only [hs] at h; cases h
          | some sig =>
            simp only [hs] at h
            cases hv : edVerify pk dts sig with
            | false => simp only [hv] at h; cases h
            | true =>
              simp only [hv] at h
              refine ⟨bb, dts, sig, rfl, hd, hdts, hs, hv, ?_⟩
              simp only [Bool.not_true, Bool.false_eq_true, if_false] at h
              injection h with h
              injection h with h
              exact h.symm
  · rintro ⟨bb, dts, sig, hb, hd, hdts, hs, hv, rfl⟩
    rw [ib_signAndAdd_of sign edVerify hash b pk attrs bb dts sig hb hd hdts hs, hv]
    rfl

/-! ### 3b. `ObtainIntegrityBlock` -/

theorem ib_beVal_last8_lt (file : Bytes) (h8 : 8 ≤ file.length) :
    beVal (file.drop (file.length - 8)) < 2 ^ 64 := by
  have h := beVal_lt (file.drop (file.length - 8))
  have hl : (file.drop (file.length - 8)).length = 8 := by rw [List.length_drop]; omega
  rw [hl] at h
  exact h

/-- exact acceptance condition, with no side hypothesis: the trailing 8 bytes, read as a big-endian
    integer, must equal the file size, and that size must be a non-negative int64.  A trailer
    ≥ 2^63 is a negative `int64`, the computed block length is then positive and the file is refused. -/
theorem obtain_iff' (file : Bytes) :
    (obtain file).isSome = true ↔
      (8 ≤ file.length ∧ beVal (file.drop (file.length - 8)) = file.length ∧ file.length < 2 ^ 63) := by
  unfold obtain
  by_cases h8 : file.length < 8
  · rw [if_pos h8]
    constructor
    · intro h; cases h
    · intro h; omega
  · rw [if_neg h8]
    have hv := ib_beVal_last8_lt file (by omega)
    simp only
    generalize beVal (file.drop (file.length - 8)) = v at hv ⊢
    unfold toInt64
    by_cases h63 : v < 2 ^ 63
    · rw [if_pos h63]
      by_cases hneg : (file.length : Int) - (v : Int) < 0
      · rw [if_pos hneg]
        constructor
        · intro h; cases h
        · intro h; omega
      · rw [if_neg hneg]
        by_cases hne : (file.length : Int) - (v : Int) ≠ 0
        · rw [if_pos hne]
          constructor
          · intro h; cases h
          · intro h; omega
        · rw [if_neg hne]
          constructor
          · intro _; omega
          · intro _; rfl
    · rw [if_neg h63]
      have hpos : ¬ ((file.length : Int) - ((v : Int) - 2 ^ 64) < 0) := by omega
      have hne : (file.length : Int) - ((v : Int) - 2 ^ 64) ≠ 0 := by omega
      rw [if_neg hpos, if_pos hne]
      constructor
      · intro h; cases h
      · intro h; omega

/-- a trailer with the top bit set (a "negative" length) is always refused -/
theorem obtain_negative_trailer (file : Bytes) (h : 2 ^ 63 ≤ beVal (file.drop (file.length - 8))) :
    obtain file = none := by
  cases ho : obtain file with
  | none => rfl
  | some r =>
    have := (obtain_iff' file).mp (by rw [ho]; rfl)
    omega

theorem obtain_iff (file : Bytes) (hlen : file.length < 2 ^ 63) :
    (obtain file).isSome = true ↔ (8 ≤ file.length ∧ beVal (file.drop (file.length - 8)) = file.length) := by
  rw [obtain_iff']
  constructor
  · intro h; exact ⟨h.1, h.2.1⟩
  · intro h; exact ⟨h.1, h.2, hlen⟩

theorem obtain_some (file : Bytes) (blk : Block) (off : Nat) (h : obtain file = some (blk, off)) :
    blk = emptyBlock ∧ off = 0 := by
  unfold obtain at h
  by_cases h8 : file.length < 8
  · rw [if_pos h8] at h; cases h
  · rw [if_neg h8] at h
    simp only at h
    by_cases hneg : (file.length : Int) - toInt64 (beVal (file.drop (file.length - 8))) < 0
    · rw [if_pos hneg] at h; cases h
    · rw [if_neg hneg] at h
      by_cases hne : (file.length : Int) - toInt64 (beVal (file.drop (file.length - 8))) ≠ 0
      · rw [if_pos hne] at h; cases h
      · rw [if_neg hne] at h
        injection h with h
        injection h with h1 h2
        exact ⟨h1.symm, h2.symm⟩

/-! ### 2. layout of the output of `SignWithIntegrityBlock` -/

/-- the CBOR bytes of the empty block: array(3) [bstr(8) magic, bstr(4) "1b\0\0", array(0)] -/
def emptyBlockBytes : Bytes :=
  [0x83, 0x48, 0xf0, 0x9f, 0x96, 0x8b, 0xf0, 0x9f, 0x93, 0xa6, 0x44, 0x31, 0x62, 0x00, 0x00, 0x80]

theorem blockCbor_emptyBlock : blockCbor emptyBlock = .ok emptyBlockBytes := rfl

theorem signFile_layout (H512 : Bytes → Bytes) (sign : Bytes → Option Bytes) (edVerify : Bytes → Bytes → Bytes → Bool)
    (pk file out : Bytes) (h : signFile H512 sign edVerify pk file = .ok (some out)) :
    ∃ blockBytes sig, out = blockBytes ++ file ∧
      blockCbor { magic := blockMagic, version := versionB1,
                  stack := [{ attrs := [(kEd25519PublicKey, pk)], signature := sig }] } = .ok blockBytes ∧
      Det.deterministic blockBytes = .ok () ∧
      (∃ dts, dataToBeSigned (H512 file) emptyBlockBytes [(kEd25519PublicKey, pk)] = .ok dts ∧
        sign dts = some sig ∧ edVerify pk dts sig = true) := by
  unfold signFile at h
  cases ho : obtain file with
  | none => simp only [ho] at h; cases h
  | some r =>
    obtain ⟨blk, off⟩ := r
    obtain ⟨rfl, rfl⟩ := obtain_some file blk off ho
    simp only [ho, List.drop_zero] at h
    cases hs : signAndAdd sign edVerify (H512 file) emptyBlock pk [(kEd25519PublicKey, pk)] with
    | panic => simp only [hs] at h; cases h
    | error => simp only [hs] at h; cases h
    | ok r =>
      cases r with
      | error e => simp only [hs] at h; cases h
      | ok b' =>
        simp only [hs] at h
        obtain ⟨bb, dts, sig, hb, _, hdts, hsg, hv, rfl⟩ := (signAndAdd_ok_iff _ _ _ _ _ _ _).mp hs
        rw [blockCbor_emptyBlock] at hb
        injection hb with hb
        subst hb
        cases hb' : blockCbor { emptyBlock with stack := ⟨[(kEd25519PublicKey, pk)], sig⟩ :: emptyBlock.stack } with
        | error e => simp only [hb'] at h; cases h
        | ok bytes =>
          simp only [hb'] at h
          cases hd : Det.deterministic bytes with
          | panic => simp only [hd] at h; cases h
          | error => simp only [hd] at h; cases h
          | ok u =>
            simp only [hd] at h
            injection h with h
            injection h with h
            exact ⟨bytes, sig, h.symm, hb', hd, dts, hdts, hsg, hv⟩

/-- the file is left untouched when anything fails: `signFile` never returns a partial output -/
theorem signFile_obtain_fails (H512 : Bytes → Bytes) (sign : Bytes → Option Bytes)
    (edVerify : Bytes → Bytes → Bytes → Bool) (pk file : Bytes) (h : obtain file = none) :
    signFile H512 sign edVerify pk file = .ok none := by
  unfold signFile
  simp only [h]

/-! ### 5. the data-to-be-signed determines its three parts -/

theorem ib_dataToBeSigned_shape (h b : Bytes) (a : List (Bytes × Bytes)) (d : Bytes)
    (e : dataToBeSigned h b a = .ok d) :
    ∃ ac, attrsCbor a = .ok ac ∧
      d = beBytes 8 h.length ++ (h ++ (beBytes 8 b.length ++ (b ++ (beBytes 8 ac.length ++ ac)))) := by
  unfold dataToBeSigned at e
  cases ha : attrsCbor a with
  | error err => rw [ha] at e; cases e
  | ok ac =>
    rw [ha] at e
    simp only [bind, Except.bind, pure, Except.pure] at e
    injection e with e
    refine ⟨ac, rfl, ?_⟩
    rw [← e]
    simp only [List.append_assoc]

/-- The hash and the block bytes are 8-byte-length-prefixed, so they need `length < 2^64` (the prefix keeps
    only the low 64 bits); the attribute map is the last part and runs to the end of the message, so it
    needs no bound. -/
theorem dataToBeSigned_injective (h₁ h₂ b₁ b₂ : Bytes) (a₁ a₂ : List (Bytes × Bytes)) (d : Bytes)
    (hh1 : h₁.length < 2 ^ 64) (hh2 : h₂.length < 2 ^ 64) (hb1 : b₁.length < 2 ^ 64) (hb2 : b₂.length < 2 ^ 64)
    (e1 : dataToBeSigned h₁ b₁ a₁ = .ok d) (e2 : dataToBeSigned h₂ b₂ a₂ = .ok d) :
    h₁ = h₂ ∧ b₁ = b₂ ∧ attrsCbor a₁ = attrsCbor a₂ := by
  obtain ⟨ac₁, ha1, hs1⟩ := ib_dataToBeSigned_shape h₁ b₁ a₁ d e1
  obtain ⟨ac₂, ha2, hs2⟩ := ib_dataToBeSigned_shape h₂ b₂ a₂ d e2
  have hp : (256 : Nat) ^ 8 = 2 ^ 64 := by decide
  have heq := hs1.symm.trans hs2
  obtain ⟨hl, heq⟩ := List.append_inj heq (by rw [beBytes_length, beBytes_length])
  have hhlen : h₁.length = h₂.length := beBytes_inj (by omega) (by omega) hl
  obtain ⟨hh, heq⟩ := List.append_inj heq hhlen
  obtain ⟨hl2, heq⟩ := List.append_inj heq (by rw [beBytes_length, beBytes_length])
  have hblen : b₁.length = b₂.length := beBytes_inj (by omega) (by omega) hl2
  obtain ⟨hb, heq⟩ := List.append_inj heq hblen
  obtain ⟨_, hac⟩ := List.append_inj heq (by rw [beBytes_length, beBytes_length])
  refine ⟨hh, hb, ?_⟩
  rw [ha1, ha2, hac]

/-! ### 1. the block is deterministic CBOR -/

/-- every length that goes into a CBOR head fits a uint64 (always true of Go slices) -/
def SigBounded (s : IntegritySignature) : Prop :=
  s.signature.length < 2 ^ 64 ∧ s.attrs.length < 2 ^ 64 ∧
    ∀ kv ∈ s.attrs, kv.1.length < 2 ^ 64 ∧ kv.2.length < 2 ^ 64

def BlockBounded (b : Block) : Prop :=
  b.magic.length < 2 ^ 64 ∧ b.version.length < 2 ^ 64 ∧ b.stack.length < 2 ^ 64 ∧ ∀ s ∈ b.stack, SigBounded s

theorem ib_attrKey_detItem (k : Bytes) (hu : utf8Valid k = true) (hl : k.length < 2 ^ 64) : DetItem (attrKey k) := by
  unfold attrKey
  cases he : encodeText k with
  | error e =>
    exfalso
    unfold encodeText at he
    rw [if_pos hu] at he
    cases he
  | ok out => exact C13.encoder_text_accepted k out hl he

theorem ib_attrsCbor_detItem (attrs : List (Bytes × Bytes)) (a : Bytes) (h : attrsCbor attrs = .ok a)
    (hk : ∀ kv ∈ attrs, utf8Valid kv.1 = true) (hn : attrs.length < 2 ^ 64)
    (hl : ∀ kv ∈ attrs, kv.1.length < 2 ^ 64 ∧ kv.2.length < 2 ^ 64) : DetItem a := by
  unfold attrsCbor at h
  refine C13.encoder_map_accepted _ a (by rw [List.length_map]; exact hn) ?_ ?_ h
  · intro e he
    obtain ⟨kv, hkv, rfl⟩ := List.mem_map.mp he
    obtain ⟨k, v⟩ := kv
    exact ib_attrKey_detItem k (hk _ hkv) (hl _ hkv).1
  · intro e he
    obtain ⟨kv, hkv, rfl⟩ := List.mem_map.mp he
    obtain ⟨k, v⟩ := kv
    exact C13.encoder_bytes_accepted v (hl _ hkv).2

theorem ib_sigCbor_detItem (s : IntegritySignature) (x : Bytes) (h : sigCbor s = .ok x)
    (hk : ∀ kv ∈ s.attrs, utf8Valid kv.1 = true) (hb : SigBounded s) : DetItem x := by
  unfold sigCbor at h
  cases ha : attrsCbor s.attrs with
  | error e => rw [ha] at h; cases h
  | ok a =>
    rw [ha] at h
    simp only [bind, Except.bind, pure, Except.pure] at h
    injection h with h
    have hda := ib_attrsCbor_detItem s.attrs a ha hk hb.2.1 hb.2.2
    have := C13.encoder_array_accepted [a, encodeBytes s.signature] (by show 2 < 2 ^ 64; decide) (by
      intro i hi
      rcases List.mem_cons.mp hi with rfl | hi
      · exact hda
      · rcases List.mem_cons.mp hi with rfl | hi
        · exact C13.encoder_bytes_accepted _ hb.1
        · cases hi)
    rw [← h]
    simpa only [List.length_cons, List.length_nil, List.flatten_cons, List.flatten_nil, List.append_nil,
      List.append_assoc] using this

theorem ib_stackCbor_items : ∀ (l : List IntegritySignature) (st : Bytes), stackCbor l = .ok st →
    (∀ s ∈ l, ∀ kv ∈ s.attrs, utf8Valid kv.1 = true) → (∀ s ∈ l, SigBounded s) →
    ∃ items : List Bytes, items.length = l.length ∧ (∀ i ∈ items, DetItem i) ∧ st = items.flatten
  | [], st, h, _, _ => by
    rw [stackCbor] at h
    injection h with h
    exact ⟨[], rfl, (by intro i hi; cases hi), (by rw [← h]; rfl)⟩
  | s :: rest, st, h, hk, hb => by
    rw [stackCbor] at h
    cases hx : sigCbor s with
    | error e => rw [hx] at h; cases h
    | ok x =>
      cases hr : stackCbor rest with
      | error e => rw [hx, hr] at h; cases h
      | ok r =>
        rw [hx, hr] at h
        simp only [bind, Except.bind, pure, Except.pure] at h
        injection h with h
        obtain ⟨items, hlen, hall, hflat⟩ := ib_stackCbor_items rest r hr
          (fun s' hs' => hk s' (List.mem_cons_of_mem _ hs')) (fun s' hs' => hb s' (List.mem_cons_of_mem _ hs'))
        have hdx := ib_sigCbor_detItem s x hx (hk s List.mem_cons_self) (hb s List.mem_cons_self)
        refine ⟨x :: items, by simp only [List.length_cons, hlen], ?_, ?_⟩
        · intro i hi
          rcases List.mem_cons.mp hi with rfl | hi
          · exact hdx
          · exact hall i hi
        · rw [← h, hflat, List.flatten_cons]

/-- `IntegrityBlock.CborBytes()` is one item in RFC 8949 core deterministic encoding:
    array(3) [bstr magic, bstr version, array(n) [[map attrs, bstr sig] …]].
    The attribute names must be valid UTF-8: `attrKey` drops the encoder's error, and an invalid name
    leaves an empty key buffer, so the map would announce more items than it contains. -/
theorem blockCbor_deterministic (b : Block) (out : Bytes) (h : blockCbor b = .ok out)
    (hk : ∀ s ∈ b.stack, ∀ kv ∈ s.attrs, utf8Valid kv.1 = true) (hlen : BlockBounded b) : DetItem out := by
  unfold blockCbor at h
  cases hs : stackCbor b.stack with
  | error e => rw [hs] at h; cases h
  | ok st =>
    rw [hs] at h
    simp only [bind, Except.bind, pure, Except.pure] at h
    injection h with h
    obtain ⟨items, hl, hall, hflat⟩ := ib_stackCbor_items b.stack st hs hk hlen.2.2.2
    have harr : DetItem (encodeArrayHeader b.stack.length ++ st) := by
      rw [hflat, ← hl]
      exact C13.encoder_array_accepted items (by rw [hl]; exact hlen.2.2.1) hall
    have := C13.encoder_array_accepted
      [encodeBytes b.magic, encodeBytes b.version, encodeArrayHeader b.stack.length ++ st] (by show 3 < 2 ^ 64; decide) (by
      intro i hi
      rcases List.mem_cons.mp hi with rfl | hi
      · exact C13.encoder_bytes_accepted _ hlen.1
      · rcases List.mem_cons.mp hi with rfl | hi
        · exact C13.encoder_bytes_accepted _ hlen.2.1
        · rcases List.mem_cons.mp hi with rfl | hi
          · exact harr
          · cases hi)
    rw [← h]
    simpa only [List.length_cons, List.length_nil, List.flatten_cons, List.flatten_nil, List.append_nil,
      List.append_assoc] using this

/-- … hence the library's own `Deterministic` check accepts it -/
theorem blockCbor_deterministic_check (b : Block) (out : Bytes) (h : blockCbor b = .ok out)
    (hk : ∀ s ∈ b.stack, ∀ kv ∈ s.attrs, utf8Valid kv.1 = true) (hlen : BlockBounded b) :
    Det.deterministic out = .ok () :=
  (C13.deterministic_iff out).mpr
    ⟨[out], (by
      intro i hi
      rcases List.mem_cons.mp hi with rfl | hi
      · exact blockCbor_deterministic b i h hk hlen
      · cases hi), (by simp only [List.flatten_cons, List.flatten_nil, List.append_nil])⟩

/-- consequently `SignAndAddNewSignature` never answers "not deterministic" and never panics on a block
    with valid attribute names -/
theorem signAndAdd_no_panic (sign : Bytes → Option Bytes) (edVerify : Bytes → Bytes → Bytes → Bool) (hash : Bytes)
    (b : Block) (pk : Bytes) (attrs : List (Bytes × Bytes))
    (hk : ∀ s ∈ b.stack, ∀ kv ∈ s.attrs, utf8Valid kv.1 = true) (hlen : BlockBounded b) :
    ∃ r, signAndAdd sign edVerify hash b pk attrs = .ok r ∧ r ≠ .error .notDeterministic := by
  unfold signAndAdd
  cases hb : blockCbor b with
  | error e => exact ⟨_, rfl, by intro h; cases h⟩
  | ok bb =>
    simp only [blockCbor_deterministic_check b bb hb hk hlen]
    cases hdts : dataToBeSigned hash bb attrs with
    | error e => exact ⟨_, rfl, by intro h; cases h⟩
    | ok dts =>
      simp only
      cases hs : sign dts with
      | none => exact ⟨_, rfl, by intro h; cases h⟩
      | some sig =>
        simp only
        cases hv : edVerify pk dts sig with
        | false => exact ⟨_, rfl, by intro h; cases h⟩
        | true => exact ⟨_, rfl, by intro h; cases h⟩

/-! ### 4. history invariant of the signature stack

  `signMany` runs a list of signing operations, oldest first, from the empty block; an operation that
  fails (any error, or a panic) is **skipped**: the block is left as it was, exactly as the Go method
  leaves its receiver untouched on every error path.  The run also returns the log of the operations
  that succeeded, newest first. -/

/-- one call `SignAndAddNewSignature(pk, attrs)` with signing strategy `sign` -/
structure Op where
  sign : Bytes → Option Bytes
  pk : Bytes
  attrs : List (Bytes × Bytes)

def signStep (edVerify : Bytes → Bytes → Bytes → Bool) (hash : Bytes) (st : Block × List Op) (op : Op) :
    Block × List Op :=
  match signAndAdd op.sign edVerify hash st.1 op.pk op.attrs with
  | .ok (.ok b') => (b', op :: st.2)
  | _ => st

def signManyFrom (edVerify : Bytes → Bytes → Bytes → Bool) (hash : Bytes) (st : Block × List Op) (ops : List Op) :
    Block × List Op :=
  ops.foldl (signStep edVerify hash) st

/-- final block and the successful operations (newest first) -/
def signMany (edVerify : Bytes → Bytes → Bytes → Bool) (hash : Bytes) (ops : List Op) : Block × List Op :=
  signManyFrom edVerify hash (emptyBlock, []) ops

/-- `GoodStack hash edVerify stack ops`: the stack (newest first) lines up with the operations `ops`
    (newest first) that produced it, and at every position the signature is the one the strategy returned
    and verifies under that operation's key over the data-to-be-signed built from the payload hash,
    the CBOR of the block **as it stood before that operation** (the older entries only) and the attributes. -/
inductive GoodStack (hash : Bytes) (edVerify : Bytes → Bytes → Bytes → Bool) :
    List IntegritySignature → List Op → Prop
  | nil : GoodStack hash edVerify [] []
  | cons (s : IntegritySignature) (rest : List IntegritySignature) (op : Op) (ops : List Op) (bb dts : Bytes) :
      GoodStack hash edVerify rest ops →
      blockCbor { magic := blockMagic, version := versionB1, stack := rest } = .ok bb →
      Det.deterministic bb = .ok () →
      s.attrs = op.attrs →
      dataToBeSigned hash bb op.attrs = .ok dts →
      op.sign dts = some s.signature →
      edVerify op.pk dts s.signature = true →
      GoodStack hash edVerify (s :: rest) (op :: ops)

def HistInv (hash : Bytes) (edVerify : Bytes → Bytes → Bytes → Bool) (st : Block × List Op) : Prop :=
  st.1.magic = blockMagic ∧ st.1.version = versionB1 ∧ GoodStack hash edVerify st.1.stack st.2

/-- what one step does: either nothing, or it pushes exactly one entry on top of an unchanged stack -/
theorem ib_signStep_cases (edVerify : Bytes → Bytes → Bytes → Bool) (hash : Bytes) (st : Block × List Op) (op : Op) :
    signStep edVerify hash st op = st ∨
    ∃ bb dts sig, blockCbor st.1 = .ok bb ∧ Det.deterministic bb = .ok () ∧
      dataToBeSigned hash bb op.attrs = .ok dts ∧ op.sign dts = some sig ∧ edVerify op.pk dts sig = true ∧
      signStep edVerify hash st op = ({ st.1 with stack := ⟨op.attrs, sig⟩ :: st.1.stack }, op :: st.2) := by
  unfold signStep
  cases hr : signAndAdd op.sign edVerify hash st.1 op.pk op.attrs with
  | panic => exact Or.inl rfl
  | error => exact Or.inl rfl
  | ok r =>
    cases r with
    | error e => exact Or.inl rfl
    | ok b' =>
      obtain ⟨bb, dts, sig, hb, hd, hdts, hs, hv, rfl⟩ := (signAndAdd_ok_iff _ _ _ _ _ _ _).mp hr
      exact Or.inr ⟨bb, dts, sig, hb, hd, hdts, hs, hv, rfl⟩

theorem ib_signStep_inv (edVerify : Bytes → Bytes → Bytes → Bool) (hash : Bytes) (st : Block × List Op) (op : Op)
    (hi : HistInv hash edVerify st) : HistInv hash edVerify (signStep edVerify hash st op) := by
  rcases ib_signStep_cases edVerify hash st op with h | ⟨bb, dts, sig, hb, hd, hdts, hs, hv, h⟩
  · rw [h]; exact hi
  · rw [h]
    obtain ⟨hm, hver, hg⟩ := hi
    refine ⟨hm, hver, ?_⟩
    have hst : st.1 = { magic := blockMagic, version := versionB1, stack := st.1.stack } := by
      rw [← hm, ← hver]
    rw [hst] at hb
    exact GoodStack.cons ⟨op.attrs, sig⟩ st.1.stack op st.2 bb dts hg hb hd rfl hdts hs hv

theorem ib_signManyFrom_inv (edVerify : Bytes → Bytes → Bytes → Bool) (hash : Bytes) :
    ∀ (ops : List Op) (st : Block × List Op), HistInv hash edVerify st →
      HistInv hash edVerify (signManyFrom edVerify hash st ops)
  | [], _, hi => hi
  | op :: ops, st, hi => by
    unfold signManyFrom
    rw [List.foldl_cons]
    exact ib_signManyFrom_inv edVerify hash ops _ (ib_signStep_inv edVerify hash st op hi)

/-- History invariant: after any sequence of operations the block still carries the magic and version,
    and its stack is `GoodStack` with respect to the successful operations, newest first. -/
theorem signMany_good (edVerify : Bytes → Bytes → Bytes → Bool) (hash : Bytes) (ops : List Op) :
    (signMany edVerify hash ops).1.magic = blockMagic ∧ (signMany edVerify hash ops).1.version = versionB1 ∧
      GoodStack hash edVerify (signMany edVerify hash ops).1.stack (signMany edVerify hash ops).2 :=
  ib_signManyFrom_inv edVerify hash ops (emptyBlock, []) ⟨rfl, rfl, GoodStack.nil⟩

/-- the stack entries are, position by position, the attributes of the logged operations -/
theorem GoodStack.attrs_eq {hash : Bytes} {edVerify : Bytes → Bytes → Bytes → Bool}
    {stack : List IntegritySignature} {ops : List Op} (h : GoodStack hash edVerify stack ops) :
    stack.length = ops.length ∧ stack.map (·.attrs) = ops.map (·.attrs) := by
  induction h with
  | nil => exact ⟨rfl, rfl⟩
  | cons s rest op ops bb dts _ _ _ ha _ _ _ ih =>
    refine ⟨by simp only [List.length_cons, ih.1], ?_⟩
    simp only [List.map_cons, ha, ih.2]

/-- every suffix of a good stack is a good stack: the older entries do not depend on the newer ones -/
theorem GoodStack.tail {hash : Bytes} {edVerify : Bytes → Bytes → Bytes → Bool}
    {s : IntegritySignature} {rest : List IntegritySignature} {op : Op} {ops : List Op}
    (h : GoodStack hash edVerify (s :: rest) (op :: ops)) : GoodStack hash edVerify rest ops := by
  cases h with
  | cons _ _ _ _ _ _ hg => exact hg

/-- Later operations never modify earlier entries: running more operations only puts new entries
    in front of the existing stack (and of the log). -/
theorem signManyFrom_extends (edVerify : Bytes → Bytes → Bytes → Bool) (hash : Bytes) :
    ∀ (more : List Op) (st : Block × List Op),
      ∃ (newEntries : List IntegritySignature) (newOps : List Op),
        (signManyFrom edVerify hash st more).1.stack = newEntries ++ st.1.stack ∧
        (signManyFrom edVerify hash st more).2 = newOps ++ st.2 ∧
        newEntries.length = newOps.length ∧ newOps.Sublist more.reverse
  | [], st => ⟨[], [], rfl, rfl, rfl, List.Sublist.slnil⟩
  | op :: more, st => by
    unfold signManyFrom
    rw [List.foldl_cons]
    obtain ⟨ne, no, h1, h2, h3, h4⟩ := signManyFrom_extends edVerify hash more (signStep edVerify hash st op)
    unfold signManyFrom at h1 h2
    rw [List.reverse_cons]
    rcases ib_signStep_cases edVerify hash st op with h | ⟨bb, dts, sig, _, _, _, _, _, h⟩
    · rw [h] at h1 h2 ⊢
      exact ⟨ne, no, h1, h2, h3, h4.trans (List.sublist_append_left _ _)⟩
    · rw [h] at h1 h2 ⊢
      refine ⟨ne ++ [⟨op.attrs, sig⟩], no ++ [op], ?_, ?_, ?_, ?_⟩
      · rw [h1, List.append_assoc]; rfl
      · rw [h2, List.append_assoc]; rfl
      · simp only [List.length_append, List.length_cons, List.length_nil, h3]
      · exact List.Sublist.append h4 (List.Sublist.refl _)

theorem signMany_append (edVerify : Bytes → Bytes → Bytes → Bool) (hash : Bytes) (ops more : List Op) :
    signMany edVerify hash (ops ++ more) = signManyFrom edVerify hash (signMany edVerify hash ops) more := by
  unfold signMany signManyFrom
  rw [List.foldl_append]

/-- the entries present after `ops` are still there, unchanged and in the same (oldest) positions, after
    `ops ++ more` -/
theorem signMany_earlier_unchanged (edVerify : Bytes → Bytes → Bytes → Bool) (hash : Bytes) (ops more : List Op) :
    ∃ newEntries : List IntegritySignature,
      (signMany edVerify hash (ops ++ more)).1.stack = newEntries ++ (signMany edVerify hash ops).1.stack ∧
      newEntries.length ≤ more.length := by
  rw [signMany_append]
  obtain ⟨ne, no, h1, _, h3, h4⟩ := signManyFrom_extends edVerify hash more (signMany edVerify hash ops)
  refine ⟨ne, h1, ?_⟩
  have := h4.length_le
  rw [List.length_reverse] at this
  omega

/-- the log is the sub-sequence of successful operations, newest first -/
theorem signMany_log_sublist (edVerify : Bytes → Bytes → Bytes → Bool) (hash : Bytes) (ops : List Op) :
    (signMany edVerify hash ops).2.Sublist ops.reverse := by
  obtain ⟨ne, no, _, h2, _, h4⟩ := signManyFrom_extends edVerify hash ops (emptyBlock, [])
  unfold signMany
  rw [h2, List.append_nil]
  exact h4

/-! ### 6. Web Bundle ID -/

/-- lower-cased base32 character of a 5-bit value -/
def lc32 (v : Nat) : UInt8 := Http.toLowerByte (b32char v)

theorem ib_lc32_alpha_fin : ∀ v : Fin 32,
    (97 ≤ lc32 v.val ∧ lc32 v.val ≤ 122) ∨ (50 ≤ lc32 v.val ∧ lc32 v.val ≤ 55) := by
  decide +kernel

theorem ib_lc32_inj_fin : ∀ v w : Fin 32, lc32 v.val = lc32 w.val → v = w := by
  decide +kernel

theorem ib_lc32_alpha (v : Nat) (h : v < 32) :
    (97 ≤ lc32 v ∧ lc32 v ≤ 122) ∨ (50 ≤ lc32 v ∧ lc32 v ≤ 55) := ib_lc32_alpha_fin ⟨v, h⟩

theorem ib_lc32_inj (v w : Nat) (hv : v < 32) (hw : w < 32) (h : lc32 v = lc32 w) : v = w :=
  congrArg Fin.val (ib_lc32_inj_fin ⟨v, hv⟩ ⟨w, hw⟩ h)

/-- one full 5-byte group gives 8 characters -/
theorem ib_lower_base32_cons5 (a b c d e : UInt8) (rest : Bytes) :
    Http.lowerAscii (base32 (a :: b :: c :: d :: e :: rest)) =
      lc32 (a.toNat / 8) :: lc32 (a.toNat % 8 * 4 + b.toNat / 64) :: lc32 (b.toNat / 2 % 32) ::
      lc32 (b.toNat % 2 * 16 + c.toNat / 16) :: lc32 (c.toNat % 16 * 2 + d.toNat / 128) ::
      lc32 (d.toNat / 4 % 32) :: lc32 (d.toNat % 4 * 8 + e.toNat / 32) :: lc32 (e.toNat % 32) ::
      Http.lowerAscii (base32 rest) := by
  rw [base32]
  rfl

/-- on whole 5-byte groups: 8 characters per group, all in [a-z2-7], no `=` padding -/
theorem ib_lower_base32_groups : ∀ (n : Nat) (l : Bytes), l.length = 5 * n →
    (Http.lowerAscii (base32 l)).length = 8 * n ∧
      ∀ ch ∈ Http.lowerAscii (base32 l), (97 ≤ ch ∧ ch ≤ 122) ∨ (50 ≤ ch ∧ ch ≤ 55)
  | 0, l, h => by
    have : l = [] := List.eq_nil_of_length_eq_zero (by omega)
    subst this
    exact ⟨rfl, by intro ch hch; cases hch⟩
  | n + 1, l, h => by
    match l, h with
    | [], h => simp only [List.length_nil] at h; omega
    | [_], h => simp only [List.length_cons, List.length_nil] at h; omega
    | [_, _], h => simp only [List.length_cons, List.length_nil] at h; omega
    | [_, _, _], h => simp only [List.length_cons, List.length_nil] at h; omega
    | [_, _, _, _], h => simp only [List.length_cons, List.length_nil] at h; omega
    | a :: b :: c :: d :: e :: rest, h =>
      have hr : rest.length = 5 * n := by simp only [List.length_cons] at h; omega
      obtain ⟨ih1, ih2⟩ := ib_lower_base32_groups n rest hr
      rw [ib_lower_base32_cons5]
      have ha := a.toNat_lt; have hb := b.toNat_lt; have hc := c.toNat_lt
      have hd := d.toNat_lt; have he := e.toNat_lt
      refine ⟨by simp only [List.length_cons, ih1]; omega, ?_⟩
      intro ch hch
      rcases List.mem_cons.mp hch with rfl | hch
      · exact ib_lc32_alpha _ (by omega)
      rcases List.mem_cons.mp hch with rfl | hch
      · exact ib_lc32_alpha _ (by omega)
      rcases List.mem_cons.mp hch with rfl | hch
      · exact ib_lc32_alpha _ (by omega)
      rcases List.mem_cons.mp hch with rfl | hch
      · exact ib_lc32_alpha _ (by omega)
      rcases List.mem_cons.mp hch with rfl | hch
      · exact ib_lc32_alpha _ (by omega)
      rcases List.mem_cons.mp hch with rfl | hch
      · exact ib_lc32_alpha _ (by omega)
      rcases List.mem_cons.mp hch with rfl | hch
      · exact ib_lc32_alpha _ (by omega)
      rcases List.mem_cons.mp hch with rfl | hch
      · exact ib_lc32_alpha _ (by omega)
      exact ih2 ch hch

/-- lower-cased base32 is injective on whole 5-byte groups (each character determines 5 bits) -/
theorem ib_lower_base32_inj : ∀ (n : Nat) (l₁ l₂ : Bytes), l₁.length = 5 * n → l₂.length = 5 * n →
    Http.lowerAscii (base32 l₁) = Http.lowerAscii (base32 l₂) → l₁ = l₂
  | 0, l₁, l₂, h1, h2, _ => by
    rw [List.eq_nil_of_length_eq_zero (l := l₁) (by omega), List.eq_nil_of_length_eq_zero (l := l₂) (by omega)]
  | n + 1, l₁, l₂, h1, h2, heq => by
    match l₁, h1 with
    | [], h => simp only [List.length_nil] at h; omega
    | [_], h => simp only [List.length_cons, List.length_nil] at h; omega
    | [_, _], h => simp only [List.length_cons, List.length_nil] at h; omega
    | [_, _, _], h => simp only [List.length_cons, List.length_nil] at h; omega
    | [_, _, _, _], h => simp only [List.length_cons, List.length_nil] at h; omega
    | a :: b :: c :: d :: e :: r₁, h1 =>
      match l₂, h2 with
      | [], h => simp only [List.length_nil] at h; omega
      | [_], h => simp only [List.length_cons, List.length_nil] at h; omega
      | [_, _], h => simp only [List.length_cons, List.length_nil] at h; omega
      | [_, _, _], h => simp only [List.length_cons, List.length_nil] at h; omega
      | [_, _, _, _], h => simp only [List.length_cons, List.length_nil] at h; omega
      | a' :: b' :: c' :: d' :: e' :: r₂, h2 =>
        have hr1 : r₁.length = 5 * n := by simp only [List.length_cons] at h1; omega
        have hr2 : r₂.length = 5 * n := by simp only [List.length_cons] at h2; omega
        rw [ib_lower_base32_cons5, ib_lower_base32_cons5] at heq
        have ha := a.toNat_lt; have hb := b.toNat_lt; have hc := c.toNat_lt
        have hd := d.toNat_lt; have he := e.toNat_lt
        have ha' := a'.toNat_lt; have hb' := b'.toNat_lt; have hc' := c'.toNat_lt
        have hd' := d'.toNat_lt; have he' := e'.toNat_lt
        injection heq with q1 heq
        injection heq with q2 heq
        injection heq with q3 heq
        injection heq with q4 heq
        injection heq with q5 heq
        injection heq with q6 heq
        injection heq with q7 heq
        injection heq with q8 heq
        have p1 := ib_lc32_inj _ _ (by omega) (by omega) q1
        have p2 := ib_lc32_inj _ _ (by omega) (by omega) q2
        have p3 := ib_lc32_inj _ _ (by omega) (by omega) q3
        have p4 := ib_lc32_inj _ _ (by omega) (by omega) q4
        have p5 := ib_lc32_inj _ _ (by omega) (by omega) q5
        have p6 := ib_lc32_inj _ _ (by omega) (by omega) q6
        have p7 := ib_lc32_inj _ _ (by omega) (by omega) q7
        have p8 := ib_lc32_inj _ _ (by omega) (by omega) q8
        have ea : a = a' := UInt8.toNat.inj (by omega)
        have eb : b = b' := UInt8.toNat.inj (by omega)
        have ec : c = c' := UInt8.toNat.inj (by omega)
        have ed : d = d' := UInt8.toNat.inj (by omega)
        have ee : e = e' := UInt8.toNat.inj (by omega)
        rw [ea, eb, ec, ed, ee, ib_lower_base32_inj n r₁ r₂ hr1 hr2 heq]

/-- the Web Bundle ID of a 32-byte Ed25519 key: 56 characters of [a-z2-7], no padding -/
theorem webBundleId_32 (pk : Bytes) (h : pk.length = 32) :
    (webBundleId pk).length = 56 ∧ ∀ c ∈ webBundleId pk, (97 ≤ c ∧ c ≤ 122) ∨ (50 ≤ c ∧ c ≤ 55) := by
  unfold webBundleId
  exact ib_lower_base32_groups 7 (pk ++ [0, 1, 2])
    (by rw [List.length_append, h]; rfl)

/-- distinct keys have distinct Web Bundle IDs -/
theorem webBundleId_injective (p q : Bytes) (hp : p.length = 32) (hq : q.length = 32)
    (h : webBundleId p = webBundleId q) : p = q := by
  unfold webBundleId at h
  have := ib_lower_base32_inj 7 (p ++ [0, 1, 2]) (q ++ [0, 1, 2])
    (by rw [List.length_append, hp]; rfl) (by rw [List.length_append, hq]; rfl) h
  exact List.append_cancel_right this

/-! ### completeness / non-vacuity: the success path is attainable -/

theorem ib_attrsCbor_single (k v : Bytes) :
    attrsCbor [(k, v)] = .ok (encodeMapHeader 1 ++ (attrKey k ++ encodeBytes v)) := by
  unfold attrsCbor encodeMap sortEntries
  simp only [List.map_cons, List.map_nil, List.mergeSort_singleton, hasAdjDup, List.length_cons, List.length_nil,
    List.flatten_cons, List.flatten_nil, List.append_nil]
  rfl

theorem ib_utf8Valid_ascii : ∀ (l : Bytes), (∀ c ∈ l, c < 0x80) → utf8Valid l = true
  | [], _ => by rw [utf8Valid]
  | c :: rest, h => by
    rw [utf8Valid.eq_def]
    simp only [if_pos (h c List.mem_cons_self)]
    exact ib_utf8Valid_ascii rest (fun c' hc' => h c' (List.mem_cons_of_mem _ hc'))

theorem ib_key_utf8 : utf8Valid kEd25519PublicKey = true := ib_utf8Valid_ascii _ (by decide)

/-- completeness (the hypotheses of `signFile_layout` are attainable): a file whose trailing length equals
    its size, a strategy that signs and a signature that verifies give the block followed by the file -/
theorem signFile_succeeds (H512 : Bytes → Bytes) (sign : Bytes → Option Bytes) (edVerify : Bytes → Bytes → Bytes → Bool)
    (pk file dts sig : Bytes) (hlen : file.length < 2 ^ 63) (h8 : 8 ≤ file.length)
    (htr : beVal (file.drop (file.length - 8)) = file.length)
    (hpk : pk.length < 2 ^ 64) (hsig : sig.length < 2 ^ 64)
    (hdts : dataToBeSigned (H512 file) emptyBlockBytes [(kEd25519PublicKey, pk)] = .ok dts)
    (hs : sign dts = some sig) (hv : edVerify pk dts sig = true) :
    ∃ blockBytes,
      blockCbor { magic := blockMagic, version := versionB1,
                  stack := [{ attrs := [(kEd25519PublicKey, pk)], signature := sig }] } = .ok blockBytes ∧
      signFile H512 sign edVerify pk file = .ok (some (blockBytes ++ file)) := by
  have ho : obtain file = some (emptyBlock, 0) := by
    cases ho : obtain file with
    | none =>
      have := (obtain_iff file hlen).mpr ⟨h8, htr⟩
      rw [ho] at this; cases this
    | some r =>
      obtain ⟨blk, off⟩ := r
      obtain ⟨rfl, rfl⟩ := obtain_some file blk off ho
      rfl
  have hde : Det.deterministic emptyBlockBytes = .ok () :=
    blockCbor_deterministic_check emptyBlock _ blockCbor_emptyBlock (by intro s hs; cases hs)
      ⟨by decide, by decide, by decide, by intro s hs; cases hs⟩
  have hsa := (signAndAdd_ok_iff sign edVerify (H512 file) emptyBlock pk [(kEd25519PublicKey, pk)] _).mpr
    ⟨emptyBlockBytes, dts, sig, blockCbor_emptyBlock, hde, hdts, hs, hv, rfl⟩
  have hb : ∃ bytes,
      blockCbor { magic := blockMagic, version := versionB1,
                  stack := [{ attrs := [(kEd25519PublicKey, pk)], signature := sig }] } = .ok bytes := by
    unfold blockCbor
    simp only [stackCbor, sigCbor, ib_attrsCbor_single, bind, Except.bind, pure, Except.pure]
    exact ⟨_, rfl⟩
  obtain ⟨bytes, hb⟩ := hb
  have hd : Det.deterministic bytes = .ok () := by
    refine blockCbor_deterministic_check _ bytes hb ?_ ⟨by show blockMagic.length < 2 ^ 64; decide,
      by show versionB1.length < 2 ^ 64; decide, by show 1 < 2 ^ 64; decide, ?_⟩
    · intro s hs kv hkv
      rcases List.mem_cons.mp hs with rfl | hs
      · rcases List.mem_cons.mp hkv with rfl | hkv
        · exact ib_key_utf8
        · cases hkv
      · cases hs
    · intro s hs
      rcases List.mem_cons.mp hs with rfl | hs
      · refine ⟨hsig, by show 1 < 2 ^ 64; decide, ?_⟩
        intro kv hkv
        rcases List.mem_cons.mp hkv with rfl | hkv
        · exact ⟨by show kEd25519PublicKey.length < 2 ^ 64; decide, hpk⟩
        · cases hkv
      · cases hs
  refine ⟨bytes, hb, ?_⟩
  unfold signFile
  simp only [ho, List.drop_zero, hsa]
  have hb' : blockCbor { emptyBlock with stack := ⟨[(kEd25519PublicKey, pk)], sig⟩ :: emptyBlock.stack } = .ok bytes := hb
  simp only [hb', hd]


theorem ib_dataToBeSigned_single (hash bb k v : Bytes) :
    ∃ dts, dataToBeSigned hash bb [(k, v)] = .ok dts := by
  unfold dataToBeSigned
  simp only [ib_attrsCbor_single, bind, Except.bind, pure, Except.pure]
  exact ⟨_, rfl⟩

/-- a concrete run of the tool that succeeds (8-byte file whose trailer says 8) -/
example : ∃ out, signFile (fun _ => []) (fun _ => some [1]) (fun _ _ _ => true) [] [0, 0, 0, 0, 0, 0, 0, 8]
    = .ok (some out) := by
  obtain ⟨dts, hd⟩ := ib_dataToBeSigned_single [] emptyBlockBytes kEd25519PublicKey []
  obtain ⟨bb, _, h⟩ := signFile_succeeds (fun _ => []) (fun _ => some [1]) (fun _ _ _ => true) []
    [0, 0, 0, 0, 0, 0, 0, 8] dts [1] (by decide) (by decide) (by decide) (by decide) (by decide) hd rfl rfl
  exact ⟨_, h⟩

/-- a trailer that disagrees with the file size (e.g. a file that already carries a block) is refused -/
example : obtain [0, 0, 0, 0, 0, 0, 0, 7] = none := by decide
/-- a "negative" trailer is refused -/
example : obtain [0xff, 0xff, 0xff, 0xff, 0xff, 0xff, 0xff, 0xf8] = none := by decide

/-- a history with one failing operation (skipped) and one successful operation -/
example : (signMany (fun _ _ _ => true) []
      [⟨fun _ => none, [], [(kEd25519PublicKey, [])]⟩, ⟨fun _ => some [1], [], [(kEd25519PublicKey, [])]⟩]).1.stack
    = [⟨[(kEd25519PublicKey, [])], [1]⟩] := by
  have hde : Det.deterministic emptyBlockBytes = .ok () :=
    blockCbor_deterministic_check emptyBlock _ blockCbor_emptyBlock (by intro s hs; cases hs)
      ⟨by decide, by decide, by decide, by intro s hs; cases hs⟩
  obtain ⟨dts, hd⟩ := ib_dataToBeSigned_single [] emptyBlockBytes kEd25519PublicKey []
  have h1 := signAndAdd_strategy_fails (fun _ => none) (fun _ _ _ => true) [] emptyBlock []
    [(kEd25519PublicKey, [])] emptyBlockBytes dts blockCbor_emptyBlock hde hd rfl
  have h2 := (signAndAdd_ok_iff (fun _ => some [1]) (fun _ _ _ => true) [] emptyBlock []
    [(kEd25519PublicKey, [])] _).mpr ⟨emptyBlockBytes, dts, [1], blockCbor_emptyBlock, hde, hd, rfl, rfl, rfl⟩
  unfold signMany signManyFrom
  simp only [List.foldl_cons, List.foldl_nil, signStep, h1, h2]
  rfl

end WebPkg.IB
