import WebPkg.Model.Mice
import WebPkg.Spec.Mice
import WebPkg.Proofs.Basic
import WebPkg.Proofs.Base64
namespace WebPkg.Mice
open WebPkg.Spec.Mice

variable (H : Bytes → Bytes)

theorem append_single_inj {a b : Bytes} {x y : UInt8} (h : a ++ [x] = b ++ [y]) : a = b ∧ x = y := by
  have := List.append_inj' h rfl
  simpa using this

theorem chain_length (hlen : ∀ x, (H x).length = 32) (recs : List Bytes) (hne : recs ≠ []) : (chain H recs).length = 32 := by
  cases recs with
  | nil => exact absurd rfl hne
  | cons r rest => cases rest <;> simp [chain, hlen]

/-- Soundness of the record loop: whatever stream `s` is fed to the decoder together with the proof
    of an honest record list, the released bytes are a prefix of the honest payload, and clean EOF
    is reported only after the whole payload — or a SHA-256 collision has been exhibited. -/
theorem loop_sound (hlen : ∀ x, (H x).length = 32) (draft02 : Bool) (rs : Nat)
    (recs : List Bytes) (hne : recs ≠ []) (s : Bytes) :
    ((loop H draft02 rs s (chain H recs)).1 <+: recs.flatten ∧
      ((loop H draft02 rs s (chain H recs)).2 = .eof → (loop H draft02 rs s (chain H recs)).1 = recs.flatten))
    ∨ Collision H := by
  by_cases hc : Collision H
  · exact Or.inr hc
  have inj : ∀ x y, H x = H y → x = y := by
    intro x y hxy
    by_cases hxy' : x = y
    · exact hxy'
    · exact absurd ⟨x, y, hxy', hxy⟩ hc
  left
  induction recs generalizing s with
  | nil => exact absurd rfl hne
  | cons r rest ih =>
    rw [loop]
    cases rest with
    | nil =>
      simp only [chain, List.flatten_cons, List.flatten_nil, List.append_nil]
      by_cases h1 : rs + 32 ≤ s.length
      · simp only [h1, dite_true]
        by_cases h2 : H (List.take (rs + 32) s ++ [1]) = H (r ++ [0])
        · have := (append_single_inj (inj _ _ h2)).2
          simp at this
        · simp [h2]
      · simp only [h1, dite_false]
        by_cases h3 : s.length = 0
        · simp only [h3, if_true]
          by_cases hd : draft02 = true
          · simp only [hd, if_true]
            by_cases h4 : H [0] = H (r ++ [0])
            · have := (append_single_inj (a := []) (inj _ _ h4)).1
              subst this; simp [h4]
            · simp [h4]
          · simp [hd]
        · simp only [h3, if_false]
          by_cases h5 : rs < s.length
          · simp [h5]
          · simp only [h5, if_false]
            by_cases h6 : H (s ++ [0]) = H (r ++ [0])
            · have := (append_single_inj (inj _ _ h6)).1
              subst this; simp [h6]
            · simp [h6]
    | cons r' rest' =>
      have ih' := ih (by simp)
      simp only [chain, List.flatten_cons, List.append_assoc] at ih' ⊢
      by_cases h1 : rs + 32 ≤ s.length
      · simp only [h1, dite_true]
        by_cases h2 : H (List.take (rs + 32) s ++ [1]) = H (r ++ (chain H (r' :: rest') ++ [1]))
        · have e := (append_single_inj (b := r ++ chain H (r' :: rest')) (by simpa using inj _ _ h2)).1
          have hl : (List.take (rs + 32) s).length = rs + 32 := by simp; omega
          have hr : r.length = rs := by
            have := congrArg List.length e
            simp only [List.length_append] at this
            have hch : (chain H (r' :: rest')).length = 32 := chain_length H hlen _ (by simp)
            omega
          have e1 : List.take rs (List.take (rs + 32) s) = r := by
            rw [e, List.take_append_of_le_length (by omega), ← hr, List.take_length]
          have e2 : List.drop rs (List.take (rs + 32) s) = chain H (r' :: rest') := by
            rw [e, ← hr, List.drop_left]
          simp only [h2, if_true, e1, e2]
          have := ih' (List.drop (rs + 32) s)
          refine ⟨?_, ?_⟩
          · exact (List.prefix_append_right_inj r).mpr this.1
          · intro h; rw [this.2 h]
        · simp [h2]
      · simp only [h1, dite_false]
        by_cases h3 : s.length = 0
        · simp only [h3, if_true]
          by_cases hd : draft02 = true
          · simp only [hd, if_true]
            by_cases h4 : H [0] = H (r ++ (chain H (r' :: rest') ++ [1]))
            · have := (append_single_inj (a := []) (b := r ++ chain H (r' :: rest')) (by simpa using inj _ _ h4)).2
              simp at this
            · simp [h4]
          · simp [hd]
        · simp only [h3, if_false]
          by_cases h5 : rs < s.length
          · simp [h5]
          · simp only [h5, if_false]
            by_cases h6 : H (s ++ [0]) = H (r ++ (chain H (r' :: rest') ++ [1]))
            · have := (append_single_inj (b := r ++ chain H (r' :: rest')) (by simpa using inj _ _ h6)).2
              simp at this
            · simp [h6]

/-- `decodeAll` by cases (prologue of `NewDecoder` unfolded) -/
theorem decodeAll_eq (enc : Enc) (stream digest : Bytes) (maxRs : Nat) (proof : Bytes)
    (hd : parseDigestHeader enc digest = some proof) :
    decodeAll H enc stream digest maxRs =
      if stream.length = 0 ∧ enc ≠ .draft02 then (if H [0] = proof then ([], .eof) else ([], .errValidation))
      else if stream.length < 8 then ([], .errOther)
      else if beVal (stream.take 8) = 0 ∨ beVal (stream.take 8) > maxRs then ([], .errOther)
      else loop H (enc = .draft02) (beVal (stream.take 8)) (stream.drop 8) proof := by
  unfold decodeAll newDecoder
  rw [hd]
  dsimp only
  by_cases h1 : stream.length = 0 ∧ enc ≠ .draft02
  · rw [if_pos h1, if_pos h1]
    by_cases h2 : H [0] = proof
    · rw [if_pos h2, if_pos h2]
    · rw [if_neg h2, if_neg h2]
  · rw [if_neg h1, if_neg h1]
    by_cases h3 : stream.length < 8
    · rw [if_pos h3, if_pos h3]
    · rw [if_neg h3, if_neg h3]
      by_cases h4 : beVal (stream.take 8) = 0 ∨ beVal (stream.take 8) > maxRs
      · rw [if_pos h4, if_pos h4]
      · rw [if_neg h4, if_neg h4]

/-- what `NewDecoder` + `ReadAll` release, for any stream, under the digest of an honest record list -/
theorem decodeAll_sound (hlen : ∀ x, (H x).length = 32) (enc : Enc) (recs : List Bytes) (hne : recs ≠ [])
    (stream digest : Bytes) (maxRs : Nat) (hd : parseDigestHeader enc digest = some (chain H recs)) :
    ((decodeAll H enc stream digest maxRs).1 <+: recs.flatten ∧
      ((decodeAll H enc stream digest maxRs).2 = .eof → (decodeAll H enc stream digest maxRs).1 = recs.flatten))
    ∨ Collision H := by
  by_cases hc : Collision H
  · exact Or.inr hc
  have inj : ∀ x y, H x = H y → x = y := by
    intro x y hxy
    by_cases hxy' : x = y
    · exact hxy'
    · exact absurd ⟨x, y, hxy', hxy⟩ hc
  rw [decodeAll_eq H enc stream digest maxRs _ hd]
  by_cases h1 : stream.length = 0 ∧ enc ≠ .draft02
  · rw [if_pos h1]
    by_cases h2 : H [0] = chain H recs
    · rw [if_pos h2]
      left
      refine ⟨List.nil_prefix, fun _ => ?_⟩
      -- the digest equals H(0x00): the committed payload is empty
      cases recs with
      | nil => exact absurd rfl hne
      | cons r rest =>
        cases rest with
        | nil =>
          simp only [chain] at h2
          have := (append_single_inj (a := []) (inj _ _ h2)).1
          simp [← this]
        | cons r' rest' =>
          simp only [chain] at h2
          have := (append_single_inj (a := []) (b := r ++ chain H (r' :: rest')) (by simpa using inj _ _ h2)).2
          simp at this
    · rw [if_neg h2]
      left; exact ⟨List.nil_prefix, fun h => by simp at h⟩
  · rw [if_neg h1]
    by_cases h3 : stream.length < 8
    · rw [if_pos h3]
      left; exact ⟨List.nil_prefix, fun h => by simp at h⟩
    · rw [if_neg h3]
      by_cases h4 : beVal (stream.take 8) = 0 ∨ beVal (stream.take 8) > maxRs
      · rw [if_pos h4]
        left; exact ⟨List.nil_prefix, fun h => by simp at h⟩
      · rw [if_neg h4]
        exact loop_sound H hlen _ _ recs hne _

/-! ### the `Read` state machine refines the record loop -/

/-- everything a decoder state will still release, and the status it will end with -/
def future (st : State) : Bytes × RecStatus :=
  match st.nextProof with
  | none => (st.out, .eof)
  | some p =>
    let r := loop H (st.enc = .draft02) st.rs st.rest p
    (st.out ++ r.1, r.2)

/-- One `Read` call: the bytes handed out are the next bytes of `future`, nothing is skipped or
    invented, and an end status (EOF / error) is reported only when nothing is left to release and
    it is the status the loop ends with. -/
theorem read_refines (st : State) (n : Nat) (hrs : 0 < st.rs ∨ st.nextProof = none) :
    match read H st n with
    | (st', bs, .ok) => (future H st).1 = bs ++ (future H st').1 ∧ (future H st').2 = (future H st).2 ∧
        (0 < st'.rs ∨ st'.nextProof = none)
    | (_, bs, s) => bs = [] ∧ (future H st).1 = [] ∧ (future H st).2 = s := by
  unfold read
  by_cases ho : st.out.length = 0
  · have hout : st.out = [] := List.eq_nil_of_length_eq_zero ho
    simp only [ho, if_true]
    cases hp : st.nextProof with
    | none => simp [future, hp, hout]
    | some p =>
      have hrs' : 0 < st.rs := by
        rcases hrs with h | h
        · exact h
        · rw [hp] at h; simp at h
      simp only
      unfold readNextRecord
      by_cases h1 : st.rs + 32 ≤ st.rest.length
      · simp only [h1, if_true]
        by_cases h2 : H (List.take (st.rs + 32) st.rest ++ [1]) = p
        · simp only [h2, if_true]
          simp only [future, hp, hout, List.nil_append]
          rw [loop]
          simp only [h1, dite_true, h2, if_true]
          refine ⟨?_, ?_, Or.inl hrs'⟩
          · rw [← List.append_assoc, List.take_append_drop]
          · first | rfl | trivial
        · simp only [h2, if_false]
          simp only [future, hp, hout, List.nil_append]
          rw [loop]
          simp [h1, h2]
      · simp only [h1, if_false]
        by_cases h3 : st.rest.length = 0
        · simp only [h3, if_true]
          by_cases hd : st.enc = .draft02
          · simp only [hd, if_true]
            by_cases h4 : H [0] = p
            · simp only [h4, if_true]
              simp only [future, hp, hout, List.nil_append]
              rw [loop]
              simp [h1, h3, hd, h4]
            · simp only [h4, if_false]
              simp only [future, hp, hout, List.nil_append]
              rw [loop]
              simp [h1, h3, hd, h4]
          · simp only [hd, if_false]
            simp only [future, hp, hout, List.nil_append]
            rw [loop]
            simp [h1, h3, hd]
        · simp only [h3, if_false]
          by_cases h5 : st.rs < st.rest.length
          · simp only [h5, if_true]
            simp only [future, hp, hout, List.nil_append]
            rw [loop]
            simp [h1, h3, h5]
          · simp only [h5, if_false]
            by_cases h6 : H (st.rest ++ [0]) = p
            · simp only [h6, if_true]
              simp only [future, hp, hout, List.nil_append]
              rw [loop]
              simp [h1, h3, h5, h6]
            · simp only [h6, if_false]
              simp only [future, hp, hout, List.nil_append]
              rw [loop]
              simp [h1, h3, h5, h6]
  · simp only [ho, if_false]
    cases hp : st.nextProof with
    | none => simp [future, hp]
    | some p =>
      simp only [future, hp]
      refine ⟨?_, ?_, ?_⟩
      · rw [← List.append_assoc, List.take_append_drop]
      · first | rfl | trivial
      · rcases hrs with h | h
        · exact Or.inl h
        · rw [hp] at h; simp at h


/-- a sequence of `Read` calls with destination sizes `ns`: concatenated output and the status that
    ended it (`.ok` = the list of sizes was exhausted first) -/
def readSeq (st : State) : List Nat → Bytes × RecStatus
  | [] => ([], .ok)
  | n :: ns =>
    match read H st n with
    | (st', bs, .ok) => let r := readSeq st' ns; (bs ++ r.1, r.2)
    | (_, _, s) => ([], s)

/-- Any sequence of `Read` calls hands out a prefix of what `ReadAll` would release, in order, and
    when it ends (EOF or error) everything has been handed out and the status is the loop's. -/
theorem readSeq_refines (ns : List Nat) : ∀ (st : State), (0 < st.rs ∨ st.nextProof = none) →
    (readSeq H st ns).1 <+: (future H st).1 ∧
    ((readSeq H st ns).2 ≠ .ok → (readSeq H st ns).1 = (future H st).1 ∧ (readSeq H st ns).2 = (future H st).2) := by
  induction ns with
  | nil => intro st _; simp [readSeq]
  | cons n ns ih =>
    intro st hrs
    have h := read_refines H st n hrs
    simp only [readSeq]
    rcases hr : read H st n with ⟨st', bs, s⟩
    rw [hr] at h
    cases s with
    | ok =>
      simp only at h ⊢
      obtain ⟨h1, h2, h3⟩ := h
      have := ih st' h3
      rw [h1, ← h2]
      refine ⟨(List.prefix_append_right_inj bs).mpr this.1, fun hne => ?_⟩
      have := this.2 hne
      exact ⟨by rw [this.1], this.2⟩
    | eof => simp only at h ⊢; simp [h.2.1, h.2.2]
    | errValidation => simp only at h ⊢; simp [h.2.1, h.2.2]
    | errOther => simp only at h ⊢; simp [h.2.1, h.2.2]

/-- the decoder state right after `NewDecoder` has exactly `decodeAll` as its future -/
theorem newDecoder_future (enc : Enc) (stream digest : Bytes) (maxRs : Nat) (st : State)
    (h : newDecoder H enc stream digest maxRs = .ok st) :
    future H st = decodeAll H enc stream digest maxRs ∧ (0 < st.rs ∨ st.nextProof = none) := by
  unfold decodeAll
  rw [h]
  unfold newDecoder at h
  cases hd : parseDigestHeader enc digest with
  | none => simp [hd] at h
  | some proof =>
    simp only [hd] at h
    by_cases h1 : stream.length = 0 ∧ enc ≠ .draft02
    · rw [if_pos h1] at h
      by_cases h2 : H [0] = proof
      · rw [if_pos h2] at h
        injection h with h; subst h
        simp [future]
      · rw [if_neg h2] at h; simp at h
    · rw [if_neg h1] at h
      by_cases h3 : stream.length < 8
      · rw [if_pos h3] at h; simp at h
      · rw [if_neg h3] at h
        by_cases h4 : beVal (stream.take 8) = 0 ∨ beVal (stream.take 8) > maxRs
        · rw [if_pos h4] at h; simp at h
        · rw [if_neg h4] at h
          injection h with h; subst h
          simp only [future, List.nil_append]
          exact ⟨trivial, Or.inl (by omega)⟩

/-! ### honest streams decode to the payload -/

/-- the shape of a record list produced by cutting a payload: all but the last record full,
    the last one non-empty (an empty single record is the draft-02 empty payload) -/
def Honest (draft02 : Bool) (rs : Nat) : List Bytes → Prop
  | [] => False
  | [r] => r.length ≤ rs ∧ (r = [] → draft02 = true)
  | r :: r' :: rest => r.length = rs ∧ Honest draft02 rs (r' :: rest)

theorem loop_honest (hlen : ∀ x, (H x).length = 32) (draft02 : Bool) (rs : Nat) :
    ∀ (recs : List Bytes), Honest draft02 rs recs → loop H draft02 rs (body H recs) (chain H recs) = (recs.flatten, .eof)
  | [], h => by simp [Honest] at h
  | [r], h => by
    simp only [Honest] at h
    simp only [body, chain, List.flatten_cons, List.flatten_nil, List.append_nil]
    rw [loop]
    have h1 : ¬ rs + 32 ≤ r.length := by omega
    rw [dif_neg h1]
    by_cases h3 : r.length = 0
    · have hr : r = [] := List.eq_nil_of_length_eq_zero h3
      subst hr
      simp [h.2 rfl]
    · have h5 : ¬ rs < r.length := by omega
      simp [h3, h5]
  | r :: r' :: rest, h => by
    simp only [Honest] at h
    have ih := loop_honest hlen draft02 rs (r' :: rest) h.2
    have hch : (chain H (r' :: rest)).length = 32 := chain_length H hlen _ (by simp)
    simp only [body, chain, List.flatten_cons]
    rw [loop]
    have h1 : rs + 32 ≤ (r ++ chain H (r' :: rest) ++ body H (r' :: rest)).length := by
      simp only [List.length_append]; omega
    rw [dif_pos h1]
    have e0 : List.take (rs + 32) (r ++ chain H (r' :: rest) ++ body H (r' :: rest)) = r ++ chain H (r' :: rest) := by
      rw [List.take_append_of_le_length (by simp only [List.length_append]; omega)]
      rw [List.take_of_length_le (by simp only [List.length_append]; omega)]
    have e1 : List.drop (rs + 32) (r ++ chain H (r' :: rest) ++ body H (r' :: rest)) = body H (r' :: rest) := by
      have : rs + 32 = (r ++ chain H (r' :: rest)).length := by simp only [List.length_append]; omega
      rw [this, List.drop_left]
    simp only [e0, e1]
    have e2 : List.drop rs (r ++ chain H (r' :: rest)) = chain H (r' :: rest) := by rw [← h.1, List.drop_left]
    have e3 : List.take rs (r ++ chain H (r' :: rest)) = r := by rw [← h.1, List.take_left]
    simp only [if_true, e2, e3, ih]
    simp


theorem chunks_nil (rs : Nat) : chunks rs [] = [] := by rw [chunks]; simp

theorem chunks_cons (rs : Nat) (p : Bytes) (hp : p ≠ []) (hrs : 0 < rs) :
    chunks rs p = p.take rs :: chunks rs (p.drop rs) := by
  rw [chunks]
  have : ¬ (p.length = 0 ∨ rs = 0) := by
    intro h; rcases h with h | h
    · exact hp (List.eq_nil_of_length_eq_zero h)
    · omega
  rw [dif_neg this]

theorem chunks_flatten (rs : Nat) (hrs : 0 < rs) : ∀ (n : Nat) (p : Bytes), p.length ≤ n → (chunks rs p).flatten = p := by
  intro n
  induction n with
  | zero => intro p hp; have : p = [] := List.eq_nil_of_length_eq_zero (by omega); subst this; simp [chunks_nil]
  | succ n ih =>
    intro p hp
    by_cases h0 : p = []
    · subst h0; simp [chunks_nil]
    · rw [chunks_cons rs p h0 hrs, List.flatten_cons, ih (p.drop rs) (by simp; omega), List.take_append_drop]

theorem chunks_honest (draft02 : Bool) (rs : Nat) (hrs : 0 < rs) : ∀ (n : Nat) (p : Bytes), p.length ≤ n → p ≠ [] →
    Honest draft02 rs (chunks rs p) := by
  intro n
  induction n with
  | zero => intro p hp hne; exact absurd (List.eq_nil_of_length_eq_zero (by omega)) hne
  | succ n ih =>
    intro p hp hne
    rw [chunks_cons rs p hne hrs]
    by_cases hd : p.drop rs = []
    · rw [hd, chunks_nil]
      have hl : p.length ≤ rs := by simpa using hd
      simp only [Honest]
      refine ⟨by simp; omega, fun h => ?_⟩
      rw [List.take_of_length_le hl] at h
      exact absurd h hne
    · have ih' := ih (p.drop rs) (by simp; omega) hd
      rw [chunks_cons rs (p.drop rs) hd hrs] at ih' ⊢
      simp only [Honest]
      refine ⟨?_, ih'⟩
      have : rs < p.length := by
        have := List.length_pos_iff.mpr hd
        simp at this; omega
      simp; omega

theorem recordsOf_flatten (rs : Nat) (hrs : 0 < rs) (p : Bytes) : (recordsOf rs p).flatten = p := by
  unfold recordsOf
  by_cases h : p.length = 0
  · simp [h, List.eq_nil_of_length_eq_zero h]
  · simp only [h, if_false]; exact chunks_flatten rs hrs _ p (Nat.le_refl _)

theorem recordsOf_ne_nil (rs : Nat) (hrs : 0 < rs) (p : Bytes) : recordsOf rs p ≠ [] := by
  unfold recordsOf
  by_cases h : p.length = 0
  · simp [h]
  · have hp : p ≠ [] := fun e => h (by simp [e])
    simp only [h, if_false]; rw [chunks_cons rs p hp hrs]; simp

/-- Round trip on the draft's definition: the decoder run on the honest stream with the honest
    proof returns the payload and clean EOF, for every payload, every record size `1 ≤ rs ≤ max`
    (that fits the 8-byte field) and both drafts. -/
theorem decodeAll_honest (hlen : ∀ x, (H x).length = 32) (enc : Enc) (rs maxRs : Nat) (p digest : Bytes)
    (hrs : 0 < rs) (hmax : rs ≤ maxRs) (h64 : rs < 2 ^ 64)
    (hd : parseDigestHeader enc digest = some (topProof H rs p)) :
    decodeAll H enc (stream H (enc = .draft03) rs p) digest maxRs = (p, .eof) := by
  rw [decodeAll_eq H enc _ digest maxRs _ hd]
  unfold stream
  by_cases hp : p.length = 0
  · have hp' : p = [] := List.eq_nil_of_length_eq_zero hp
    subst hp'
    cases enc with
    | draft03 =>
      simp [topProof, recordsOf, chain]
    | draft02 =>
      have hs : (if decide (Enc.draft02 = Enc.draft03) = true ∧ ([] : Bytes).length = 0 then []
          else beBytes 8 rs ++ body H (recordsOf rs [])) = beBytes 8 rs := by
        simp [recordsOf, body]
      rw [hs]
      have e2 : List.take 8 (beBytes 8 rs) = beBytes 8 rs := List.take_of_length_le (by simp)
      have e3 : List.drop 8 (beBytes 8 rs) = [] := List.drop_of_length_le (by simp)
      have e4 : beVal (beBytes 8 rs) = rs := beVal_beBytes_of_lt (by omega)
      have n1 : ¬ ((beBytes 8 rs).length = 0 ∧ Enc.draft02 ≠ Enc.draft02) := by simp
      have n2 : ¬ (beBytes 8 rs).length < 8 := by simp
      rw [if_neg n1, if_neg n2, e2, e3, e4]
      have n3 : ¬ (rs = 0 ∨ rs > maxRs) := by omega
      rw [if_neg n3, loop]
      simp [topProof, recordsOf, chain]
  · have hpne : p ≠ [] := fun e => hp (by simp [e])
    have n0 : ¬ (decide (enc = Enc.draft03) = true ∧ p.length = 0) := fun h => hp h.2
    rw [if_neg n0]
    have e2 : List.take 8 (beBytes 8 rs ++ body H (recordsOf rs p)) = beBytes 8 rs := by
      rw [List.take_left' (by simp)]
    have e3 : List.drop 8 (beBytes 8 rs ++ body H (recordsOf rs p)) = body H (recordsOf rs p) := by
      rw [List.drop_left' (by simp)]
    have e4 : beVal (beBytes 8 rs) = rs := beVal_beBytes_of_lt (by omega)
    have n1 : ¬ ((beBytes 8 rs ++ body H (recordsOf rs p)).length = 0 ∧ enc ≠ Enc.draft02) := by
      simp only [List.length_append, beBytes_length]; omega
    have n2 : ¬ (beBytes 8 rs ++ body H (recordsOf rs p)).length < 8 := by
      simp only [List.length_append, beBytes_length]; omega
    rw [if_neg n1, if_neg n2, e2, e3, e4]
    have n3 : ¬ (rs = 0 ∨ rs > maxRs) := by omega
    rw [if_neg n3]
    have hh : Honest (decide (enc = Enc.draft02)) rs (recordsOf rs p) := by
      unfold recordsOf; simp only [hp, if_false]
      exact chunks_honest _ rs hrs _ p (Nat.le_refl _) hpne
    rw [topProof, loop_honest H hlen _ rs _ hh, recordsOf_flatten rs hrs]


/-! ### the Go loops compute the draft's recursive definition -/

def proofsOf : List Bytes → List Bytes
  | [] => []
  | r :: rest => chain H (r :: rest) :: proofsOf rest

def tailBody : List Bytes → Bytes
  | [] => []
  | r :: rest => chain H (r :: rest) ++ body H (r :: rest)

theorem body_cons (r : Bytes) (rest : List Bytes) : body H (r :: rest) = r ++ tailBody H rest := by
  cases rest with
  | nil => simp [body, tailBody]
  | cons r' rest' => simp [body, tailBody]

/-- `recs` is what the index arithmetic of `Encode` cuts out of `buf` -/
structure Cut (buf : Bytes) (rs : Nat) (recs : List Bytes) : Prop where
  ne : recs ≠ []
  step : ∀ i, i < recs.length → recs.drop i = slice buf rs i :: recs.drop (i + 1)
  last : buf.drop ((recs.length - 1) * rs) = slice buf rs (recs.length - 1)

theorem proofsRev_eq {buf : Bytes} {rs : Nat} {recs : List Bytes} (hc : Cut buf rs recs) :
    ∀ k, k ≤ recs.length - 1 → proofsRev H buf rs recs.length k = proofsOf H (recs.drop (recs.length - 1 - k)) := by
  have hn : 0 < recs.length := List.length_pos_iff.mpr hc.ne
  intro k
  induction k with
  | zero =>
    intro _
    simp only [proofsRev, Nat.sub_zero]
    have := hc.step (recs.length - 1) (by omega)
    rw [this, hc.last]
    have e : recs.drop (recs.length - 1 + 1) = [] := List.drop_of_length_le (by omega)
    simp [proofsOf, e, chain]
  | succ k ih =>
    intro hk
    have ih' := ih (by omega)
    simp only [proofsRev]
    rw [ih']
    have h1 := hc.step (recs.length - 2 - k) (by omega)
    have e1 : recs.length - 2 - k + 1 = recs.length - 1 - k := by omega
    have e2 : recs.length - 1 - (k + 1) = recs.length - 2 - k := by omega
    rw [e1] at h1
    rw [e2, h1]
    have h2 := hc.step (recs.length - 1 - k) (by omega)
    rw [h2]
    simp [proofsOf, chain]

theorem emit_eq {buf : Bytes} {rs : Nat} {recs : List Bytes} (hc : Cut buf rs recs) :
    ∀ (l : List Bytes) (i : Nat), l = recs.drop i →
      emit buf rs i (proofsOf H l) = if i = 0 then body H l else tailBody H l := by
  intro l
  induction l with
  | nil => intro i _; simp [proofsOf, emit, body, tailBody]
  | cons r rest ih =>
    intro i hl
    have hi : i < recs.length := by
      have := congrArg List.length hl
      simp at this; omega
    have hs := hc.step i hi
    rw [← hl] at hs
    injection hs with e1 e2
    have ih' := ih (i + 1) e2
    simp only [proofsOf, emit]
    rw [ih', ← e1]
    by_cases h0 : i = 0
    · simp [h0, body_cons]
    · rw [if_neg h0, if_neg h0, if_neg (Nat.succ_ne_zero i)]
      show _ = chain H (r :: rest) ++ body H (r :: rest)
      rw [body_cons, List.append_assoc]

theorem chunks_drop (rs : Nat) (hrs : 0 < rs) : ∀ (i : Nat) (p : Bytes), (chunks rs p).drop i = chunks rs (p.drop (i * rs)) := by
  intro i
  induction i with
  | zero => intro p; simp
  | succ i ih =>
    intro p
    by_cases hp : p = []
    · subst hp; simp [chunks_nil]
    · rw [chunks_cons rs p hp hrs, List.drop_succ_cons, ih (p.drop rs), List.drop_drop]
      congr 2
      rw [Nat.succ_mul]; omega

theorem chunks_length (rs : Nat) (hrs : 0 < rs) : ∀ (n : Nat) (p : Bytes), p.length ≤ n →
    (chunks rs p).length = (p.length + rs - 1) / rs := by
  intro n
  induction n with
  | zero =>
    intro p hp
    have : p = [] := List.eq_nil_of_length_eq_zero (by omega)
    subst this
    simp only [chunks_nil, List.length_nil, Nat.zero_add]
    exact (Nat.div_eq_of_lt (by omega)).symm
  | succ n ih =>
    intro p hp
    by_cases h0 : p = []
    · subst h0
      simp only [chunks_nil, List.length_nil, Nat.zero_add]
      exact (Nat.div_eq_of_lt (by omega)).symm
    · have hpos : 0 < p.length := List.length_pos_iff.mpr h0
      rw [chunks_cons rs p h0 hrs, List.length_cons, ih (p.drop rs) (by simp; omega)]
      simp only [List.length_drop]
      by_cases hle : p.length ≤ rs
      · have e1 : p.length - rs + rs - 1 = rs - 1 := by omega
        rw [e1, Nat.div_eq_of_lt (by omega)]
        have : (p.length + rs - 1) / rs = 1 := by
          have e2 : p.length + rs - 1 = (p.length - 1) + rs := by omega
          rw [e2, Nat.add_div_right _ hrs, Nat.div_eq_of_lt (by omega)]
        omega
      · have e2 : p.length + rs - 1 = (p.length - rs + rs - 1) + rs := by omega
        rw [e2, Nat.add_div_right _ hrs]

theorem cut_chunks (rs : Nat) (hrs : 0 < rs) (p : Bytes) (hp : p ≠ []) : Cut p rs (chunks rs p) := by
  have hne : chunks rs p ≠ [] := by rw [chunks_cons rs p hp hrs]; simp
  have hlen := chunks_length rs hrs p.length p (Nat.le_refl _)
  have hpos : 0 < p.length := List.length_pos_iff.mpr hp
  refine ⟨hne, ?_, ?_⟩
  · intro i hi
    rw [chunks_drop rs hrs i p, chunks_drop rs hrs (i + 1) p]
    have hq : p.drop (i * rs) ≠ [] := by
      intro e
      have := chunks_drop rs hrs i p
      rw [e, chunks_nil] at this
      have := congrArg List.length this
      simp at this; omega
    rw [chunks_cons rs _ hq hrs, List.drop_drop]
    simp only [slice]
    congr 2
    rw [Nat.succ_mul]
    try omega
  · -- what remains after the last full cut is at most one record
    simp only [slice]
    rw [List.take_of_length_le]
    rw [hlen, List.length_drop]
    have h1 : (p.length + rs - 1) / rs * rs ≤ p.length + rs - 1 := Nat.div_mul_le_self _ _
    have h2 : p.length + rs - 1 < ((p.length + rs - 1) / rs + 1) * rs := by
      have := Nat.lt_div_mul_add (a := p.length + rs - 1) hrs
      rw [Nat.add_mul]; omega
    have h3 : 1 ≤ (p.length + rs - 1) / rs := by
      rw [Nat.le_div_iff_mul_le hrs]; omega
    have h4 : ((p.length + rs - 1) / rs - 1) * rs + rs = (p.length + rs - 1) / rs * rs := by
      rw [← Nat.succ_mul]; congr 1; omega
    rw [Nat.add_mul] at h2
    omega

theorem cut_empty (rs : Nat) : Cut [] rs [[]] := by
  refine ⟨by simp, ?_, by simp [slice]⟩
  intro i hi
  have : i = 0 := by simp at hi; omega
  subst this; simp [slice]

/-- C14-T1 core: the bytes `Encode` writes and the proof it reports are the draft's stream and
    top-level proof. -/
theorem encode_eq_spec (enc : Enc) (buf : Bytes) (rs : Nat) (hrs : 0 < rs) :
    encode H enc buf rs = (stream H (enc = .draft03) rs buf, formatDigestHeader enc (topProof H rs buf)) := by
  unfold encode stream
  by_cases h0 : buf.length = 0
  · have hb : buf = [] := List.eq_nil_of_length_eq_zero h0
    subst hb
    cases enc with
    | draft03 => simp [topProof, recordsOf, chain]
    | draft02 =>
      simp [topProof, recordsOf, chain, proofsRev, emit, body, slice]
  · have hb : buf ≠ [] := fun e => h0 (by simp [e])
    have n1 : ¬ (enc = .draft03 ∧ buf.length = 0) := fun h => h0 h.2
    have n2 : ¬ (decide (enc = .draft03) = true ∧ buf.length = 0) := fun h => h0 h.2
    rw [if_neg n1, if_neg n2]
    simp only [h0, if_false]
    have hc := cut_chunks rs hrs buf hb
    have hlen := chunks_length rs hrs buf.length buf (Nat.le_refl _)
    have hrec : recordsOf rs buf = chunks rs buf := by simp [recordsOf, h0]
    rw [← hlen]
    have hp := proofsRev_eq H hc ((chunks rs buf).length - 1) (Nat.le_refl _)
    simp only [Nat.sub_self, List.drop_zero] at hp
    rw [hp]
    have he := emit_eq H hc (chunks rs buf) 0 (by simp)
    simp only [if_true] at he
    rw [he, topProof, hrec]
    have hne := hc.ne
    cases hch : chunks rs buf with
    | nil => exact absurd hch hne
    | cons r rest => simp [proofsOf]


theorem splitEq_append : ∀ (a b : Bytes), (∀ c ∈ a, c ≠ 61) → splitEq (a ++ 61 :: b) = some (a, b)
  | [], b, _ => by simp [splitEq]
  | x :: a, b, h => by
    have hx : x ≠ 61 := h x (by simp)
    simp only [List.cons_append, splitEq, hx, if_false]
    rw [splitEq_append a b (fun c hc => h c (by simp [hc]))]
    rfl

theorem name_no_eq (enc : Enc) : ∀ c ∈ enc.name, c ≠ 61 := by
  cases enc <;> decide

/-- C14-T3: the digest header value written by `FormatDigestHeader` is parsed back to the same proof -/
theorem parse_format (enc : Enc) (d : Bytes) (hd : d.length = 32) :
    parseDigestHeader enc (formatDigestHeader enc d) = some d := by
  unfold parseDigestHeader formatDigestHeader
  rw [List.append_assoc, List.singleton_append, splitEq_append _ _ (name_no_eq enc)]
  simp only [ne_eq, not_true_eq_false, if_false]
  have : enc.b64decode (enc.b64encode d) = some d := by
    cases enc <;> exact Base64.decode_encode _ _ d
  rw [this]
  simp [hd]

end WebPkg.Mice
