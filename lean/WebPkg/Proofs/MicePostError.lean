import WebPkg.Proofs.Mice
/-
  MI-sha256 decoder: soundness of `Read` ACROSS reported errors.

  `C15.read_sound` drives the `Read` state machine with `readSeq`, which stops at the first
  non-ok status. The real decoder (and the model) stays usable after `ErrValidationFailure`:
  the rejected record has been consumed from the underlying reader, `nextProof` is unchanged,
  and a further `Read` validates the NEXT `rs+32` bytes against the same expected proof.
  Here: whatever a caller that ignores every error obtains is still a prefix of the unique
  payload the digest commits to (or a SHA-256 collision has been exhibited).
-/
namespace WebPkg.MicePostError
open WebPkg.Mice WebPkg.Spec.Mice

/-- drive the `Read` state machine with the given destination sizes, NEVER stopping: collect every
    byte any call hands out, whatever statuses were reported in between -/
def readEvery (H : Bytes → Bytes) (st : State) : List Nat → Bytes
  | [] => []
  | n :: ns => let (st', bs, _) := read H st n; bs ++ readEvery H st' ns

/-- the same run, keeping what every single call returned (bytes and status) -/
def readTrace (H : Bytes → Bytes) (st : State) : List Nat → List (Bytes × RecStatus)
  | [] => []
  | n :: ns => let (st', bs, s) := read H st n; (bs, s) :: readTrace H st' ns

variable (H : Bytes → Bytes)

theorem mpe_readEvery_nil (st : State) : readEvery H st [] = [] := rfl

theorem mpe_readEvery_cons (st : State) (n : Nat) (ns : List Nat) :
    readEvery H st (n :: ns) = (read H st n).2.1 ++ readEvery H (read H st n).1 ns := rfl

theorem mpe_readTrace_cons (st : State) (n : Nat) (ns : List Nat) :
    readTrace H st (n :: ns) = ((read H st n).2.1, (read H st n).2.2) :: readTrace H (read H st n).1 ns := rfl

/-- `readEvery` is the concatenation of the bytes of `readTrace` -/
theorem mpe_readEvery_eq_trace (ns : List Nat) : ∀ st : State,
    readEvery H st ns = ((readTrace H st ns).map Prod.fst).flatten := by
  induction ns with
  | nil => intro st; rfl
  | cons n ns ih =>
    intro st
    rw [mpe_readEvery_cons, mpe_readTrace_cons, ih]
    simp

/-- The invariant, lifted from the record loop to `State`: `G` is everything the decoder may still
    hand out — its buffered `out`, then the concatenation of a record list `tl` whose chain proof is
    exactly the `nextProof` the state expects (`tl = []` when nothing more is expected). -/
def Good (st : State) (G : Bytes) : Prop :=
  ∃ tl : List Bytes, G = st.out ++ tl.flatten ∧
    ((st.nextProof = none ∧ tl = []) ∨ (tl ≠ [] ∧ st.nextProof = some (chain H tl)))

/-- a candidate record hashing (flag 1) to the proof of `tl`: it is the head record of `tl` followed
    by the proof of the (non-empty) rest -/
theorem mpe_chain_one (inj : ∀ x y, H x = H y → x = y) (c : Bytes) (tl : List Bytes) (htl : tl ≠ [])
    (h : H (c ++ [1]) = chain H tl) :
    ∃ r tl', tl' ≠ [] ∧ tl = r :: tl' ∧ c = r ++ chain H tl' := by
  cases tl with
  | nil => exact absurd rfl htl
  | cons r tl' =>
    cases tl' with
    | nil =>
      simp only [chain] at h
      have := (append_single_inj (inj _ _ h)).2
      simp at this
    | cons r' tl'' =>
      simp only [chain] at h
      have e := (append_single_inj (inj _ _ h)).1
      exact ⟨r, r' :: tl'', by simp, rfl, e⟩

/-- a candidate final record hashing (flag 0) to the proof of `tl`: `tl` is that single record -/
theorem mpe_chain_zero (inj : ∀ x y, H x = H y → x = y) (c : Bytes) (tl : List Bytes) (htl : tl ≠ [])
    (h : H (c ++ [0]) = chain H tl) : tl = [c] := by
  cases tl with
  | nil => exact absurd rfl htl
  | cons r tl' =>
    cases tl' with
    | nil =>
      simp only [chain] at h
      have e := (append_single_inj (inj _ _ h)).1
      rw [e]
    | cons r' tl'' =>
      simp only [chain] at h
      have := (append_single_inj (inj _ _ h)).2
      simp at this

/-- consuming `n` buffered bytes keeps the invariant -/
theorem mpe_good_take (st : State) (G : Bytes) (n : Nat) (hg : Good H st G) :
    ∃ G', G = st.out.take n ++ G' ∧ Good H { st with out := st.out.drop n } G' := by
  obtain ⟨tl, hG, hp⟩ := hg
  refine ⟨st.out.drop n ++ tl.flatten, ?_, tl, rfl, hp⟩
  rw [hG, ← List.append_assoc, List.take_append_drop]

/-- `readNextRecord` under the invariant, for EVERY outcome (ok, eof, either error): the new state
    satisfies the invariant for the same expected remainder; EOF only when nothing was left. -/
theorem mpe_rnr (hlen : ∀ x, (H x).length = 32) (inj : ∀ x y, H x = H y → x = y)
    (st : State) (tl : List Bytes) (htl : tl ≠ []) (hout : st.out = [])
    (hp : st.nextProof = some (chain H tl)) :
    Good H (readNextRecord H st (chain H tl)).1 tl.flatten ∧
    ((readNextRecord H st (chain H tl)).2 = .eof → tl.flatten = []) := by
  have hsame : ∀ st' : State, st'.out = st.out → st'.nextProof = st.nextProof → Good H st' tl.flatten := by
    intro st' e1 e2
    exact ⟨tl, by rw [e1, hout]; rfl, Or.inr ⟨htl, by rw [e2, hp]⟩⟩
  unfold readNextRecord
  by_cases h1 : st.rs + 32 ≤ st.rest.length
  · simp only [h1, if_true]
    by_cases h2 : H (List.take (st.rs + 32) st.rest ++ [1]) = chain H tl
    · simp only [h2, if_true]
      obtain ⟨r, tl', hne', etl, ec⟩ := mpe_chain_one H inj _ tl htl h2
      have hl : (List.take (st.rs + 32) st.rest).length = st.rs + 32 := by simp; omega
      have hch : (chain H tl').length = 32 := chain_length H hlen _ hne'
      have hr : r.length = st.rs := by
        have := congrArg List.length ec
        simp only [List.length_append] at this
        omega
      have e1 : List.take st.rs (List.take (st.rs + 32) st.rest) = r := by
        rw [ec, List.take_append_of_le_length (by omega), ← hr, List.take_length]
      have e2 : List.drop st.rs (List.take (st.rs + 32) st.rest) = chain H tl' := by
        rw [ec, ← hr, List.drop_left]
      refine ⟨⟨tl', ?_, Or.inr ⟨hne', ?_⟩⟩, by simp⟩
      · simp only [e1, etl, List.flatten_cons]
      · simp only [e2]
    · simp only [h2, if_false]
      exact ⟨hsame _ rfl rfl, by simp⟩
  · simp only [h1, if_false]
    by_cases h3 : st.rest.length = 0
    · simp only [h3, if_true]
      by_cases hd : st.enc = .draft02
      · simp only [hd, if_true]
        by_cases h4 : H [0] = chain H tl
        · simp only [h4, if_true]
          have etl := mpe_chain_zero H inj [] tl htl (by simpa using h4)
          subst etl
          refine ⟨⟨[], by simp, Or.inl ⟨rfl, rfl⟩⟩, fun _ => by simp⟩
        · simp only [h4, if_false]
          exact ⟨hsame _ rfl rfl, by simp⟩
      · simp only [hd, if_false]
        exact ⟨hsame _ rfl rfl, by simp⟩
    · simp only [h3, if_false]
      by_cases h5 : st.rs < st.rest.length
      · simp only [h5, if_true]
        exact ⟨hsame _ rfl rfl, by simp⟩
      · simp only [h5, if_false]
        by_cases h6 : H (st.rest ++ [0]) = chain H tl
        · simp only [h6, if_true]
          have etl := mpe_chain_zero H inj _ tl htl h6
          subst etl
          refine ⟨⟨[], by simp, Or.inl ⟨rfl, rfl⟩⟩, by simp⟩
        · simp only [h6, if_false]
          exact ⟨hsame _ rfl rfl, by simp⟩

/-- One `Read` call under the invariant, for EVERY status: the bytes handed out are the next bytes
    of the expected remainder `G`, the new state satisfies the invariant for what is left, and EOF
    is reported only when nothing is left. -/
theorem mpe_read_step (hlen : ∀ x, (H x).length = 32) (inj : ∀ x y, H x = H y → x = y)
    (st : State) (G : Bytes) (n : Nat) (hg : Good H st G) :
    ∃ G', G = (read H st n).2.1 ++ G' ∧ Good H (read H st n).1 G' ∧
      ((read H st n).2.2 = .eof → G = []) := by
  unfold Mice.read
  by_cases ho : st.out.length = 0
  · have hout : st.out = [] := List.eq_nil_of_length_eq_zero ho
    simp only [ho, if_true]
    obtain ⟨tl, hG, hp⟩ := hg
    rcases hp with ⟨hp, htl⟩ | ⟨htl, hp⟩
    · rw [hp]
      subst htl
      refine ⟨G, by simp, ⟨[], hG, Or.inl ⟨hp, rfl⟩⟩, fun _ => by simp [hG, hout]⟩
    · rw [hp]
      simp only
      have hr := mpe_rnr H hlen inj st tl htl hout hp
      have hG' : G = tl.flatten := by rw [hG, hout]; rfl
      rcases hrr : readNextRecord H st (chain H tl) with ⟨st1, s⟩
      rw [hrr] at hr
      simp only at hr
      rw [← hG'] at hr
      cases s with
      | ok =>
        simp only
        obtain ⟨G', e, hg'⟩ := mpe_good_take H st1 G n hr.1
        exact ⟨G', e, hg', fun h => by simp at h⟩
      | eof => exact ⟨G, by simp, hr.1, hr.2⟩
      | errValidation => exact ⟨G, by simp, hr.1, fun h => by simp at h⟩
      | errOther => exact ⟨G, by simp, hr.1, fun h => by simp at h⟩
  · simp only [ho, if_false]
    obtain ⟨G', e, hg'⟩ := mpe_good_take H st G n hg
    exact ⟨G', e, hg', fun h => by simp at h⟩

/-- the invariant bounds everything `readEvery` can ever collect -/
theorem mpe_readEvery_prefix (hlen : ∀ x, (H x).length = 32) (inj : ∀ x y, H x = H y → x = y)
    (ns : List Nat) : ∀ (st : State) (G : Bytes), Good H st G → readEvery H st ns <+: G := by
  induction ns with
  | nil => intro st G _; exact List.nil_prefix
  | cons n ns ih =>
    intro st G hg
    obtain ⟨G', e, hg', _⟩ := mpe_read_step H hlen inj st G n hg
    rw [mpe_readEvery_cons, e]
    exact (List.prefix_append_right_inj _).mpr (ih _ G' hg')

/-- under the invariant, if any call of the run reports EOF, the run has collected everything -/
theorem mpe_readEvery_eof (hlen : ∀ x, (H x).length = 32) (inj : ∀ x y, H x = H y → x = y)
    (ns : List Nat) : ∀ (st : State) (G : Bytes), Good H st G →
      RecStatus.eof ∈ (readTrace H st ns).map Prod.snd → readEvery H st ns = G := by
  induction ns with
  | nil => intro st G _ h; simp [readTrace] at h
  | cons n ns ih =>
    intro st G hg hmem
    obtain ⟨G', e, hg', heof⟩ := mpe_read_step H hlen inj st G n hg
    rw [mpe_readTrace_cons] at hmem
    simp only [List.map_cons, List.mem_cons] at hmem
    rw [mpe_readEvery_cons]
    rcases hmem with h | h
    · have hG := heof h.symm
      have hp := mpe_readEvery_prefix H hlen inj (n :: ns) st G hg
      rw [mpe_readEvery_cons, hG] at hp
      rw [hG]
      exact List.prefix_nil.mp hp
    · rw [ih _ G' hg' h]
      exact e.symm

/-- the state `NewDecoder` returns under the digest of `recs` satisfies the invariant for the whole
    committed payload (or a collision is exhibited: the empty draft-03 message) -/
theorem mpe_newDecoder_good (hlen : ∀ x, (H x).length = 32) (inj : ∀ x y, H x = H y → x = y)
    (enc : Enc) (recs : List Bytes) (hne : recs ≠ []) (stream : Bytes) (maxRs : Nat) (st : State)
    (hst : newDecoder H enc stream (formatDigestHeader enc (chain H recs)) maxRs = .ok st) :
    Good H st recs.flatten := by
  unfold newDecoder at hst
  rw [parse_format enc _ (chain_length H hlen recs hne)] at hst
  simp only at hst
  by_cases h1 : stream.length = 0 ∧ enc ≠ .draft02
  · rw [if_pos h1] at hst
    by_cases h2 : H [0] = chain H recs
    · rw [if_pos h2] at hst
      injection hst with hst; subst hst
      have etl := mpe_chain_zero H inj [] recs hne (by simpa using h2)
      subst etl
      exact ⟨[], by simp, Or.inl ⟨rfl, rfl⟩⟩
    · rw [if_neg h2] at hst; simp at hst
  · rw [if_neg h1] at hst
    by_cases h3 : stream.length < 8
    · rw [if_pos h3] at hst; simp at hst
    · rw [if_neg h3] at hst
      by_cases h4 : beVal (stream.take 8) = 0 ∨ beVal (stream.take 8) > maxRs
      · rw [if_pos h4] at hst; simp at hst
      · rw [if_neg h4] at hst
        injection hst with hst; subst hst
        exact ⟨recs, by simp, Or.inr ⟨hne, rfl⟩⟩

/-- **Soundness across reported errors.** Let the digest header be the proof of a non-empty record
    list `recs`. For EVERY byte stream, every record-size limit and every sequence of destination
    sizes (zeros included), a caller that keeps calling `Read` no matter what statuses come back —
    in particular after `ErrValidationFailure`, when the decoder goes on to validate the next
    `rs+32` bytes against the same expected proof — only ever obtains a prefix of the committed
    payload, or a SHA-256 collision has been exhibited. -/
theorem readEvery_sound (hlen : ∀ x, (H x).length = 32) (enc : Enc) (recs : List Bytes) (hne : recs ≠ [])
    (stream : Bytes) (maxRs : Nat) (st : State) (sizes : List Nat)
    (hst : newDecoder H enc stream (formatDigestHeader enc (chain H recs)) maxRs = .ok st) :
    readEvery H st sizes <+: recs.flatten ∨ Collision H := by
  by_cases hc : Collision H
  · exact Or.inr hc
  have inj : ∀ x y, H x = H y → x = y := by
    intro x y hxy
    by_cases hxy' : x = y
    · exact hxy'
    · exact absurd ⟨x, y, hxy', hxy⟩ hc
  left
  exact mpe_readEvery_prefix H hlen inj sizes st _
    (mpe_newDecoder_good H hlen inj enc recs hne stream maxRs st hst)

/-- **Completeness of EOF across errors.** In the same never-stopping run, if ANY call reports a
    clean EOF — even after earlier calls reported errors — then the bytes collected over the whole
    run are exactly the committed payload (or a collision has been exhibited). -/
theorem readEvery_eof_complete (hlen : ∀ x, (H x).length = 32) (enc : Enc) (recs : List Bytes) (hne : recs ≠ [])
    (stream : Bytes) (maxRs : Nat) (st : State) (sizes : List Nat)
    (hst : newDecoder H enc stream (formatDigestHeader enc (chain H recs)) maxRs = .ok st)
    (heof : RecStatus.eof ∈ (readTrace H st sizes).map Prod.snd) :
    readEvery H st sizes = recs.flatten ∨ Collision H := by
  by_cases hc : Collision H
  · exact Or.inr hc
  have inj : ∀ x y, H x = H y → x = y := by
    intro x y hxy
    by_cases hxy' : x = y
    · exact hxy'
    · exact absurd ⟨x, y, hxy', hxy⟩ hc
  left
  exact mpe_readEvery_eof H hlen inj sizes st _
    (mpe_newDecoder_good H hlen inj enc recs hne stream maxRs st hst) heof

/-- **The decoder stays finished after a clean end.** If a `Read` from `st` returned EOF (leaving
    state `st'`), it handed out nothing, and every later `Read` from `st'`, with any destination
    size, again returns no bytes and EOF and leaves the state unchanged. No hypothesis on `H`, on
    the state or on how it was reached. -/
theorem read_after_eof (st st' : State) (n₀ : Nat) (bs : Bytes)
    (h : read H st n₀ = (st', bs, .eof)) :
    bs = [] ∧ st'.out = [] ∧ st'.nextProof = none ∧ ∀ n, read H st' n = (st', [], .eof) := by
  have key : bs = [] ∧ st'.out = [] ∧ st'.nextProof = none := by
    unfold Mice.read at h
    by_cases ho : st.out.length = 0
    · have hout : st.out = [] := List.eq_nil_of_length_eq_zero ho
      simp only [ho, if_true] at h
      cases hp : st.nextProof with
      | none =>
        rw [hp] at h
        simp only [Prod.mk.injEq] at h
        obtain ⟨e1, e2, _⟩ := h
        subst e1
        exact ⟨e2.symm, hout, hp⟩
      | some p =>
        rw [hp] at h
        simp only at h
        rcases hrr : readNextRecord H st p with ⟨st1, s⟩
        rw [hrr] at h
        cases s with
        | ok => simp at h
        | errValidation => simp at h
        | errOther => simp at h
        | eof =>
          simp only [Prod.mk.injEq] at h
          obtain ⟨e1, e2, _⟩ := h
          subst e1
          refine ⟨e2.symm, ?_⟩
          -- the only EOF branch of `readNextRecord`
          unfold readNextRecord at hrr
          by_cases h1 : st.rs + 32 ≤ st.rest.length
          · simp only [h1, if_true] at hrr
            by_cases h2 : H (List.take (st.rs + 32) st.rest ++ [1]) = p
            · simp [h2] at hrr
            · simp [h2] at hrr
          · simp only [h1, if_false] at hrr
            by_cases h3 : st.rest.length = 0
            · simp only [h3, if_true] at hrr
              by_cases hd : st.enc = .draft02
              · simp only [hd, if_true] at hrr
                by_cases h4 : H [0] = p
                · simp only [h4, if_true, Prod.mk.injEq] at hrr
                  rw [← hrr.1]
                  exact ⟨rfl, rfl⟩
                · simp [h4] at hrr
              · simp [hd] at hrr
            · simp only [h3, if_false] at hrr
              by_cases h5 : st.rs < st.rest.length
              · simp [h5] at hrr
              · simp only [h5, if_false] at hrr
                by_cases h6 : H (st.rest ++ [0]) = p
                · simp [h6] at hrr
                · simp [h6] at hrr
    · simp [ho] at h
  refine ⟨key.1, key.2.1, key.2.2, fun n => ?_⟩
  unfold Mice.read
  simp [key.2.1, key.2.2]

/-- corollary: after an EOF a never-stopping run collects nothing more -/
theorem readEvery_after_eof (st st' : State) (n₀ : Nat) (bs : Bytes)
    (h : read H st n₀ = (st', bs, .eof)) (ns : List Nat) : readEvery H st' ns = [] := by
  have hr := (read_after_eof H st st' n₀ bs h).2.2.2
  induction ns with
  | nil => rfl
  | cons n ns ih => rw [mpe_readEvery_cons, hr n]; simpa using ih

/-! ### non-vacuity: the post-error behaviour on a concrete stream

  Degenerate "hashes" with 32-byte outputs are enough to EVALUATE the state machine (the theorems
  above are about arbitrary `H`; with these two a collision exists, so the theorems' disjunction is
  trivially true for them — the examples only show that `readEvery` / `readTrace` really exercise
  the read-after-error path and differ from the stopping `readSeq`). -/

/-- constant hash: accepts every record -/
def H₀ : Bytes → Bytes := fun _ => List.replicate 32 0

/-- a hash that accepts exactly the records starting with byte 7 (it maps them to 32 zero bytes and
    everything else to 32 ones): enough to show a rejected record followed by an accepted one -/
def H₁ : Bytes → Bytes := fun x => if x.head? = some 7 then List.replicate 32 0 else List.replicate 32 1

/-- state: record size 2, expecting proof `0^32`; the stream holds a bad record `[9,9]‖0^32`
    (rejected: validation error, consumed), then a good record `[7,8]‖0^32` (accepted against the
    SAME expected proof), then a good final record `[7]`. -/
def st₁ : State :=
  { enc := .draft03, rs := 2, rest := [9, 9] ++ List.replicate 32 0 ++ ([7, 8] ++ List.replicate 32 0) ++ [7],
    nextProof := some (List.replicate 32 0), out := [] }

example : (readTrace H₁ st₁ [5, 1, 0, 5, 5, 5]) =
    [([], .errValidation), ([7], .ok), ([], .ok), ([8], .ok), ([7], .ok), ([], .eof)] := by decide

example : readEvery H₁ st₁ [5, 1, 0, 5, 5, 5] = [7, 8, 7] := by decide

/-- the stopping run of `C15.read_sound` sees nothing of this -/
example : readSeq H₁ st₁ [5, 1, 0, 5, 5, 5] = ([], .errValidation) := by decide

/-- with the constant hash every record is accepted: `NewDecoder` + never-stopping reads on the
    draft-03 stream `rs=1 ‖ [5] ‖ 0^32 ‖ [6]` under the digest of `[[5],[6]]` -/
example :
    (match newDecoder H₀ .draft03 ([0, 0, 0, 0, 0, 0, 0, 1] ++ [5] ++ List.replicate 32 0 ++ [6])
        (formatDigestHeader .draft03 (chain H₀ [[5], [6]])) 16 with
      | .ok st => some (readEvery H₀ st [0, 3, 3, 3])
      | .error _ => none) = some [5, 6] := by decide

end WebPkg.MicePostError

