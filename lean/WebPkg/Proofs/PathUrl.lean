import WebPkg.Model.PathUrl
import WebPkg.Proofs.Basic
/-
  Properties of the percent-encoding model `WebPkg.PathUrl` (cmd/gen-bundle/fromdir.go `convertPathToURL`):
  decoding inverts encoding, encoding is injective, output alphabet is URL-path safe, `pathToURL` is injective.
-/
namespace WebPkg.PathUrl

/-- the per-byte encoder used by `escapePath` -/
def escByte (c : UInt8) : Bytes :=
  if shouldEscape c then [37, hexUpper (c.toNat / 16), hexUpper (c.toNat % 16)] else [c]

theorem escapePath_eq_flatMap (s : Bytes) : escapePath s = s.flatMap escByte := rfl

@[simp] theorem escapePath_nil : escapePath [] = [] := rfl

theorem escapePath_cons (c : UInt8) (s : Bytes) : escapePath (c :: s) = escByte c ++ escapePath s := by
  simp [escapePath_eq_flatMap, List.flatMap_cons]

theorem escapePath_append (a b : Bytes) : escapePath (a ++ b) = escapePath a ++ escapePath b := by
  simp [escapePath_eq_flatMap, List.flatMap_append]

theorem shouldEscape_slash : shouldEscape 47 = false := by decide

theorem shouldEscape_percent : shouldEscape 37 = true := by decide

theorem ofNat_toNat' (c : UInt8) : UInt8.ofNat c.toNat = c := by simp

/-! ### hex digits -/

theorem unhex_hexUpper_fin : ∀ n : Fin 16, unhex (hexUpper n.val) = some n.val := by decide +kernel

theorem unhex_hexUpper {n : Nat} (h : n < 16) : unhex (hexUpper n) = some n := unhex_hexUpper_fin ⟨n, h⟩

theorem ofNat_div_mod (c : UInt8) : UInt8.ofNat (16 * (c.toNat / 16) + c.toNat % 16) = c := by
  rw [Nat.div_add_mod]; simp

/-! ### decoding inverts encoding -/

theorem unescape_cons_ne {c : UInt8} (hc : c ≠ 37) (rest : Bytes) :
    unescape (c :: rest) = (unescape rest).map (c :: ·) := by
  rw [unescape.eq_def]
  split
  · rename_i h; cases h
  · rename_i h; cases h; exact absurd rfl hc
  · rename_i h; cases h; exact absurd rfl hc
  · rename_i h; cases h; exact absurd rfl hc
  · rename_i h; cases h; rfl

theorem unescape_escByte_append (c : UInt8) (rest : Bytes) :
    unescape (escByte c ++ rest) = (unescape rest).map (c :: ·) := by
  unfold escByte
  by_cases hs : shouldEscape c = true
  · have h16 : c.toNat / 16 < 16 := by have := c.toNat_lt; omega
    have hm : c.toNat % 16 < 16 := Nat.mod_lt _ (by decide)
    simp only [hs, if_true, List.cons_append, List.nil_append]
    rw [unescape, unhex_hexUpper h16, unhex_hexUpper hm]
    cases unescape rest with
    | none => rfl
    | some r => simp only [Option.map_some, ofNat_div_mod]
  · have hc : c ≠ 37 := by
      intro h; subst h; exact hs shouldEscape_percent
    simp only [hs]
    exact unescape_cons_ne hc rest

theorem unescape_escapePath (s : Bytes) : unescape (escapePath s) = some s := by
  induction s with
  | nil => simp [unescape]
  | cons c rest ih => rw [escapePath_cons, unescape_escByte_append, ih]; rfl

theorem escapePath_injective (a b : Bytes) (h : escapePath a = escapePath b) : a = b := by
  have := congrArg unescape h
  rw [unescape_escapePath, unescape_escapePath] at this
  exact Option.some.inj this

/-! ### output alphabet -/

/-- the bytes `escapePath` can emit: no '#', '?', ' ', '"'; printable ASCII -/
def safeByte (c : UInt8) : Bool :=
  c != 35 && c != 63 && c != 32 && c != 34 && decide (33 ≤ c) && decide (c ≤ 126)

theorem escByte_safe_fin : ∀ n : Fin 256, (escByte (UInt8.ofNat n.val)).all safeByte = true := by
  decide +kernel

theorem escByte_safe (c : UInt8) : (escByte c).all safeByte = true := by
  have := escByte_safe_fin ⟨c.toNat, c.toNat_lt⟩
  simpa using this

theorem escapePath_safe (s : Bytes) :
    ∀ c ∈ escapePath s, c ≠ 35 ∧ c ≠ 63 ∧ c ≠ 32 ∧ c ≠ 34 ∧ 33 ≤ c ∧ c ≤ 126 := by
  intro c hc
  rw [escapePath_eq_flatMap, List.mem_flatMap] at hc
  obtain ⟨x, _, hx⟩ := hc
  have h := List.all_eq_true.mp (escByte_safe x) c hx
  simpa [safeByte, and_assoc] using h

/-! ### identity on unreserved bytes -/

theorem escapePath_unreserved (s : Bytes) (h : ∀ c ∈ s, shouldEscape c = false) : escapePath s = s := by
  induction s with
  | nil => rfl
  | cons c rest ih =>
    have hc : shouldEscape c = false := h c (by simp)
    have hr : ∀ x ∈ rest, shouldEscape x = false := fun x hx => h x (by simp [hx])
    rw [escapePath_cons, ih hr]
    simp [escByte, hc]

/-! ### pathToURL -/

theorem escByte_ne_nil (c : UInt8) : escByte c ≠ [] := by
  unfold escByte; split <;> simp

theorem escapePath_ne_nil {a : Bytes} (h : a ≠ []) : escapePath a ≠ [] := by
  cases a with
  | nil => exact absurd rfl h
  | cons c rest =>
    rw [escapePath_cons]
    intro hh
    exact escByte_ne_nil c (List.append_eq_nil_iff.mp hh).1

theorem pathToURL_root (base : Bytes) : pathToURL base [46] = base := by simp [pathToURL]

theorem pathToURL_injective (base a b : Bytes) (ha : a ≠ [46]) (hb : b ≠ [46])
    (h : pathToURL base a = pathToURL base b) : a = b := by
  simp only [pathToURL, ha, hb, if_false] at h
  exact escapePath_injective a b (List.append_cancel_left h)

theorem pathToURL_ne_root (base a : Bytes) (ha : a ≠ [46]) (hne : a ≠ []) : pathToURL base a ≠ base := by
  simp only [pathToURL, ha, if_false]
  intro h
  have : escapePath a = [] := by
    have h' : base ++ escapePath a = base ++ [] := by rw [h]; simp
    exact List.append_cancel_left h'
  exact escapePath_ne_nil hne this

end WebPkg.PathUrl
