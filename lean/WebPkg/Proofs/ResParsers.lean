import WebPkg.Proofs.Resource
import WebPkg.Model.ResParsers
/-
  Property C10: the cost of every parser skeleton of Model/ResParsers.lean is linear in the input length, whatever
  lengths and counts the input declares.  Everything is assembled from the lemma library Proofs/Resource.lean;
  only `miceDecode` (not written with the primitives) is unfolded.

  Slopes: 4 for plain CBOR, 6 where a byte string is post-processed (`byteStringX`), 7 for `sxgRead`
  (`readN` + header slice at 6), 8 for `response` (byte string + header slice at 6), 3 for `miceDecode`.
-/
namespace WebPkg.Res
open WebPkg.Cbor
open RM (head ofType bytesOfType byteString textString readN beUint readAll loop onSlice charge guard fail)

variable {α β : Type}

/-! ### small helpers -/

theorem rp_prog_ofType (t : Nat) : Prog 4 6 (ofType t) :=
  (gen_ofType t).mono (K' := 1) (S' := 0) (Nat.le_refl _) (by omega) (Nat.le_refl _)

/-- `do let _ ← p` -/
theorem rp_good_discard {A S F : Nat} {p : RM α} (h : Good A S F p) :
    Good A S F (RM.bind p (fun _ => (pure () : RM Unit))) := good_bind_pure (fun _ => ()) h

theorem rp_prog_discard {A F : Nat} {p : RM α} (h : Prog A F p) :
    Prog A F (RM.bind p (fun _ => (pure () : RM Unit))) := prog_bind_pure (fun _ => ()) h

/-! ### 1. building blocks -/

theorem prog_byteStringX : Prog 6 6 byteStringX := by
  unfold byteStringX
  refine Gen.mono (K' := 1) (S' := 0)
    (gen_bytesOfType_bind (A := 2) (K := 0) (S := 0) (F := 0) (t := 2) (fun s => ?_))
    (Nat.le_refl _) (Nat.le_refl _) (by decide)
  exact Gen.mono (gen_bind_pure (fun _ => s) (good_charge (A := 6) s.length s.length).gen) (Nat.le_refl _)
    (by omega) (by omega)

theorem good_cborEntry (e : CborEntry) : Good 4 0 6 (cborEntry e) := by
  cases e
  · exact rp_good_discard (rp_prog_ofType 0).good
  · exact rp_good_discard (rp_prog_ofType 4).good
  · exact rp_good_discard (rp_prog_ofType 5).good
  · exact rp_good_discard prog_byteString.good
  · exact rp_good_discard prog_textString.good

/-- (text key, byte-string value) / (byte string, byte string) pairs: the loop bodies of `augCert`, `headerMap` -/
theorem rp_prog_textX : Prog 6 6 (RM.bind textString (fun _ => RM.bind byteStringX (fun _ => (pure () : RM Unit)))) :=
  prog_bind_left_le (prog_textString.mono (by decide) (Nat.le_refl _))
    (fun _ => (rp_prog_discard prog_byteStringX).good) (Nat.le_refl _) (Nat.le_refl _)

theorem rp_prog_XX : Prog 6 6 (RM.bind byteStringX (fun _ => RM.bind byteStringX (fun _ => (pure () : RM Unit)))) :=
  prog_bind_left_le prog_byteStringX (fun _ => (rp_prog_discard prog_byteStringX).good) (Nat.le_refl _) (Nat.le_refl _)

theorem prog_augCert : Prog 6 7 augCert := by
  unfold augCert
  refine prog_bind_left_le (F₁ := 6) (F₂ := 7) ((rp_prog_ofType 5).mono (by decide) (Nat.le_refl _)) (fun m => ?_)
    (by decide) (Nat.le_refl _)
  exact good_loop (F := 6) (fun _ => rp_prog_textX) m ()

theorem good_certChain : Good 6 0 8 certChain := by
  unfold certChain
  refine (prog_bind_left_le (F₁ := 6) (F₂ := 8) (F := 8) ((rp_prog_ofType 4).mono (by decide) (Nat.le_refl _))
    (fun n => ?_) (by decide) (Nat.le_refl _)).good
  refine (prog_bind_left_le (F₁ := 6) (F₂ := 8) (F := 8) (prog_textString.mono (by decide) (Nat.le_refl _))
    (fun _ => ?_) (by decide) (Nat.le_refl _)).good
  exact good_loop (F := 7) (fun _ => prog_augCert) (n - 1) ()

theorem prog_headerMap : Prog 6 7 headerMap := by
  unfold headerMap
  refine prog_bind_left_le (F₁ := 6) (F₂ := 7) ((rp_prog_ofType 5).mono (by decide) (Nat.le_refl _)) (fun m => ?_)
    (by decide) (Nat.le_refl _)
  exact good_loop (F := 6) (fun _ => rp_prog_XX) m ()

theorem good_headerMap : Good 6 0 7 headerMap := prog_headerMap.good

theorem good_exchangeHeaders (b3 : Bool) : Good 6 0 7 (exchangeHeaders b3) := by
  unfold exchangeHeaders
  refine good_ite (fun _ => good_headerMap) (fun _ => ?_)
  refine (prog_bind_left_le (F₁ := 6) (F₂ := 7) (F := 7) ((rp_prog_ofType 4).mono (by decide) (Nat.le_refl _))
    (fun _ => ?_) (by decide) (Nat.le_refl _)).good
  exact good_bind_le good_headerMap (fun _ => good_headerMap) (Nat.le_refl _) (Nat.le_refl _) (Nat.le_refl _)

/-! ### decodeSignedSubset -/

theorem good_hashPairs (k : Nat) : Good 4 0 7 (hashPairs k) := by
  unfold hashPairs
  refine good_loop (F := 6) (fun _ => ?_) k ()
  exact prog_bind_left_le prog_byteString (fun _ => (rp_prog_discard prog_textString).good)
    (Nat.le_refl _) (Nat.le_refl _)

theorem good_subsetEntries (n : Nat) : Good 4 0 8 (subsetEntries n) := by
  unfold subsetEntries
  refine good_loop (F := 7) (fun _ => ?_) n ()
  refine prog_bind_left_le (F₁ := 6) (F₂ := 7) prog_textString (fun _ => ?_) (by decide) (Nat.le_refl _)
  refine (prog_bind_left_le (F₁ := 6) (F₂ := 7) (F := 7) (rp_prog_ofType 4) (fun m => ?_) (by decide)
    (Nat.le_refl _)).good
  exact (prog_bind_left_le (F₁ := 6) (F₂ := 7) (F := 7) prog_byteString (fun _ => good_hashPairs _) (by decide)
    (Nat.le_refl _)).good

theorem good_subsetFields (n : Nat) : Good 4 0 9 (subsetFields n) := by
  unfold subsetFields
  refine good_loop (F := 8) (fun _ => ?_) n ()
  refine prog_bind_left_le (F₁ := 6) (F₂ := 8) prog_textString (fun label => ?_) (by decide) (Nat.le_refl _)
  refine good_ite (fun _ => (rp_good_discard prog_textString.good).mono (Nat.le_refl _) (Nat.le_refl _) (by decide))
    (fun _ => ?_)
  refine good_ite (fun _ => (rp_good_discard prog_byteString.good).mono (Nat.le_refl _) (Nat.le_refl _) (by decide))
    (fun _ => ?_)
  refine good_ite (fun _ => (rp_good_discard (rp_prog_ofType 0).good).mono (Nat.le_refl _) (Nat.le_refl _) (by decide))
    (fun _ => ?_)
  refine good_ite (fun _ => (rp_good_discard (rp_prog_ofType 0).good).mono (Nat.le_refl _) (Nat.le_refl _) (by decide))
    (fun _ => ?_)
  refine good_ite (fun _ => ?_) (fun _ => good_fail.mono (Nat.le_refl _) (Nat.le_refl _) (by decide))
  exact (prog_bind_left_le (F₁ := 6) (F₂ := 8) (F := 8) (rp_prog_ofType 5) (fun m => good_subsetEntries m)
    (by decide) (Nat.le_refl _)).good

theorem good_signedSubset : Good 4 0 9 signedSubset := by
  unfold signedSubset
  exact (prog_bind_left_le (F₁ := 6) (F₂ := 9) (F := 9) (rp_prog_ofType 5) (fun n => good_subsetFields n)
    (by decide) (Nat.le_refl _)).good

/-! ### bundle sections -/

theorem good_sectionPairs : Good 4 0 7 sectionPairs := by
  unfold sectionPairs
  refine (prog_bind_left_le (F₁ := 6) (F₂ := 7) (F := 7) (rp_prog_ofType 4) (fun n => ?_) (by decide)
    (Nat.le_refl _)).good
  refine good_loop (F := 6) (fun acc => ?_) ((n + 1) / 2) []
  exact prog_bind_left_le prog_textString (fun name => good_bind_pure _ (rp_prog_ofType 0).good)
    (Nat.le_refl _) (Nat.le_refl _)

theorem rp_prog_offLen (acc : List (Nat × Nat)) :
    Prog 4 6 (RM.bind (ofType 0) (fun off => RM.bind (ofType 0) (fun len => (pure (acc ++ [(off, len)]) : RM _)))) :=
  prog_bind_left_le (rp_prog_ofType 0) (fun _ => good_bind_pure _ (rp_prog_ofType 0).good)
    (Nat.le_refl _) (Nat.le_refl _)

theorem good_indexB2 : Good 4 0 7 indexB2 := by
  unfold indexB2
  refine (prog_bind_left_le (F₁ := 6) (F₂ := 7) (F := 7) (rp_prog_ofType 5) (fun n => ?_) (by decide)
    (Nat.le_refl _)).good
  refine good_loop (F := 6) (fun acc => ?_) n []
  refine prog_bind_left_le prog_textString (fun _ => ?_) (Nat.le_refl _) (Nat.le_refl _)
  exact (prog_bind_left_le (rp_prog_ofType 4) (fun _ => (rp_prog_offLen acc).good) (Nat.le_refl _) (Nat.le_refl _)).good

theorem good_locations (k : Nat) (acc : List (Nat × Nat)) : Good 4 0 7 (locations k acc) := by
  unfold locations
  exact good_loop (F := 6) (fun acc => rp_prog_offLen acc) k acc

theorem good_indexB1 : Good 6 0 8 indexB1 := by
  unfold indexB1
  refine (prog_bind_left_le (F₁ := 6) (F₂ := 8) (F := 8) ((rp_prog_ofType 5).mono (by decide) (Nat.le_refl _))
    (fun n => ?_) (by decide) (Nat.le_refl _)).good
  refine good_loop (F := 7) (fun acc => ?_) n []
  refine prog_bind_left_le (F₁ := 6) (F₂ := 7) (prog_textString.mono (by decide) (Nat.le_refl _)) (fun _ => ?_)
    (by decide) (Nat.le_refl _)
  refine (prog_bind_left_le (F₁ := 6) (F₂ := 7) (F := 7) ((rp_prog_ofType 4).mono (by decide) (Nat.le_refl _))
    (fun _ => ?_) (by decide) (Nat.le_refl _)).good
  refine (prog_bind_left_le (F₁ := 6) (F₂ := 7) (F := 7) prog_byteStringX (fun vv => ?_) (by decide)
    (Nat.le_refl _)).good
  have hl : ∀ num, Good 6 0 7 (locations num acc) := fun num =>
    (good_locations num acc).mono (by decide) (Nat.le_refl _) (Nat.le_refl _)
  refine good_ite (fun _ => hl 1) (fun _ => ?_)
  cases (Bundle.parseListOfStringLists vv).bind (fun v => Bundle.numberOfPossibleKeys v 1) with
  | none => exact good_fail.mono (Nat.le_refl _) (Nat.le_refl _) (by decide)
  | some num => exact hl num

theorem good_vouchedList (k : Nat) : Good 4 0 8 (vouchedList k) := by
  unfold vouchedList
  refine good_loop (F := 7) (fun _ => ?_) k ()
  refine prog_bind_left_le (F₁ := 6) (F₂ := 7) (rp_prog_ofType 5) (fun n => ?_) (by decide) (Nat.le_refl _)
  refine good_loop (F := 6) (fun _ => ?_) n ()
  refine prog_bind_left_le prog_textString (fun label => ?_) (Nat.le_refl _) (Nat.le_refl _)
  exact good_ite (fun _ => rp_good_discard (rp_prog_ofType 0).good) (fun _ => rp_good_discard prog_byteString.good)

theorem good_signaturesSection : Good 6 0 8 signaturesSection := by
  unfold signaturesSection
  have ho : ∀ t, Prog 6 6 (ofType t) := fun t => (rp_prog_ofType t).mono (by decide) (Nat.le_refl _)
  refine (prog_bind_left_le (F₁ := 6) (F₂ := 8) (F := 8) (ho 4) (fun _ => ?_) (by decide) (Nat.le_refl _)).good
  refine (prog_bind_left_le (F₁ := 6) (F₂ := 8) (F := 8) (ho 4) (fun na => ?_) (by decide) (Nat.le_refl _)).good
  refine good_bind_le (S₁ := 0) (S₂ := 0) (F₁ := 8) (F₂ := 8) (good_loop (F := 7) (fun _ => prog_augCert) na ())
    (fun _ => ?_) (Nat.le_refl _) (Nat.le_refl _) (Nat.le_refl _)
  refine (prog_bind_left_le (F₁ := 6) (F₂ := 8) (F := 8) (ho 4) (fun nv => ?_) (by decide) (Nat.le_refl _)).good
  exact (good_vouchedList nv).mono (by decide) (Nat.le_refl _) (Nat.le_refl _)

theorem good_urlSection : Good 4 0 6 urlSection := by
  unfold urlSection
  exact rp_good_discard prog_textString.good

/-- a non-empty fixed-size read pays for itself at slope 3 -/
theorem rp_prog_readN (n : Nat) (hn : 1 ≤ n) : Prog 3 (n + 1) (readN n) := by
  intro bs c
  constructor
  · intro s rest c' e
    obtain ⟨_, h2, h3⟩ := readN_some e
    omega
  · intro c' e
    have := readN_none e
    omega

/-- one response is even `Prog`: slope 8 = 2 (copy of the header byte string) + 6 (header map on that copy) -/
theorem prog_response : Prog 8 7 response := by
  unfold response
  refine prog_bind_left_le (F₁ := 2) (F₂ := 7) ((rp_prog_readN 1 (Nat.le_refl _)).mono (by decide) (Nat.le_refl _))
    (fun _ => ?_) (by decide) (Nat.le_refl _)
  refine Gen.toGood (Gen.mono (K' := 0) (S' := 0) (F' := 7)
    (gen_bytesOfType_bind (A := 4) (K := 0) (S := 0) (F := 7) (t := 2) (fun s => ?_))
    (Nat.le_refl _) (by omega) (by decide))
  refine Good.gen (good_bind_le (S₁ := 6 * s.length) (S₂ := 0) (F₁ := 6 * s.length + 7) (F₂ := 6)
    (good_onSlice (A' := 8) good_headerMap) (fun _ => rp_good_discard (prog_byteString.good.mono (by decide)
      (Nat.le_refl _) (Nat.le_refl _))) (by omega) (by omega) (by omega))

theorem good_response : Good 8 0 7 response := prog_response.good

/-! ### 2. signedexchange.ReadExchange -/

theorem rp_foldl_lt : ∀ (bs : Bytes) (acc : Nat),
    bs.foldl (fun acc b => acc * 256 + b.toNat) acc < (acc + 1) * 256 ^ bs.length := by
  intro bs
  induction bs with
  | nil => intro acc; simp
  | cons b r ih =>
    intro acc
    rw [List.foldl_cons, List.length_cons, Nat.pow_succ]
    have h1 := ih (acc * 256 + b.toNat)
    have hb : b.toNat < 256 := b.toNat_lt
    have h2 : (acc * 256 + b.toNat + 1) * 256 ^ r.length ≤ ((acc + 1) * 256) * 256 ^ r.length :=
      Nat.mul_le_mul_right _ (by omega)
    have h3 : (acc + 1) * (256 ^ r.length * 256) = ((acc + 1) * 256) * 256 ^ r.length := by
      rw [Nat.mul_comm (256 ^ r.length) 256, Nat.mul_assoc]
    omega

theorem rp_beVal_lt (bs : Bytes) : beVal bs < 256 ^ bs.length := by
  have := rp_foldl_lt bs 0
  unfold beVal
  omega

/-- a `k`-byte big-endian field yields a value below `256 ^ k` -/
theorem rp_beUint_lt {k : Nat} {bs : Bytes} {c c' : Cost} {n : Nat} {rest : Bytes}
    (h : RM.beUint k bs c = (some (n, rest), c')) : n < 256 ^ k := by
  rw [RM.beUint_eq] at h
  obtain ⟨b, r1, c1, e1, e2⟩ := RM.bind_some_inv h
  obtain ⟨h1, _, _⟩ := readN_some e1
  unfold RM.pure at e2
  cases e2
  rw [← h1]
  exact rp_beVal_lt b

/-- `good_bind` when only the values the first parser can actually produce need to be handled -/
theorem rp_good_bind_of {A S₁ S₂ F₁ F₂ : Nat} (P : α → Prop) {p : RM α} {f : α → RM β} (hp : Good A S₁ F₁ p)
    (hP : ∀ bs c a rest c', p bs c = (some (a, rest), c') → P a)
    (hf : ∀ a, P a → Good A S₂ F₂ (f a)) :
    Good A (S₁ + S₂) (max F₁ (S₁ + F₂)) (RM.bind p f) := by
  intro bs c
  constructor
  · intro b rest c' e
    obtain ⟨a, r1, c1, e1, e2⟩ := RM.bind_some_inv e
    have ⟨h1, h2⟩ := (hp bs c).1 a r1 c1 e1
    have ⟨h3, h4⟩ := (hf a (hP _ _ _ _ _ e1) r1 c1).1 b rest c' e2
    omega
  · intro c' e
    have := Nat.le_max_left F₁ (S₁ + F₂)
    have := Nat.le_max_right F₁ (S₁ + F₂)
    rcases RM.bind_none_inv e with e1 | ⟨a, r1, c1, e1, e2⟩
    · have := (hp bs c).2 c' e1
      omega
    · have ⟨h1, _⟩ := (hp bs c).1 a r1 c1 e1
      have h3 := (hf a (hP _ _ _ _ _ e1) r1 c1).2 c' e2
      omega

theorem rp_good_bind_of_le {A S S₁ S₂ F F₁ F₂ : Nat} (P : α → Prop) {p : RM α} {f : α → RM β} (hp : Good A S₁ F₁ p)
    (hP : ∀ bs c a rest c', p bs c = (some (a, rest), c') → P a)
    (hf : ∀ a, P a → Good A S₂ F₂ (f a))
    (hS : S₁ + S₂ ≤ S) (hF₁ : F₁ ≤ F) (hF₂ : S₁ + F₂ ≤ F) : Good A S F (RM.bind p f) :=
  (rp_good_bind_of P hp hP hf).mono (Nat.le_refl _) hS (Nat.max_le.mpr ⟨hF₁, hF₂⟩)

/-- a fixed-size read whose content is then used (sub-slice parse, then more): the read pays one unit per byte, the
    continuation may spend `A` per byte of what was read -/
theorem rp_good_readN_bind {A S F : Nat} {n : Nat} {f : Bytes → RM β}
    (hf : ∀ s, Good (A + 1) (A * s.length + S) (A * s.length + F) (f s)) :
    Good (A + 1) (S + 1) (max (n + 1) (F + 1)) (RM.bind (readN n) f) := by
  intro bs c
  constructor
  · intro x rest c' e
    obtain ⟨s, r1, c1, e1, e2⟩ := RM.bind_some_inv e
    obtain ⟨h1, h2, h3⟩ := readN_some e1
    have ⟨h4, h5⟩ := (hf s r1 c1).1 x rest c' e2
    refine ⟨?_, by omega⟩
    rw [h2, Nat.mul_add, Nat.add_mul, Nat.add_mul]
    rw [h1, Nat.add_mul] at h4
    omega
  · intro c' e
    have := Nat.le_max_left (n + 1) (F + 1)
    have := Nat.le_max_right (n + 1) (F + 1)
    rcases RM.bind_none_inv e with e1 | ⟨s, r1, c1, e1, e2⟩
    · have := readN_none e1
      omega
    · obtain ⟨h1, h2, h3⟩ := readN_some e1
      have h4 := (hf s r1 c1).2 c' e2
      rw [h2, Nat.mul_add, Nat.add_mul, Nat.add_mul]
      rw [h1, Nat.add_mul] at h4
      omega

/-- everything after the fallback URL -/
def rp_sxgTail (magic : Bytes) : RM Unit :=
  RM.bind (beUint 3) (fun sigLen => RM.bind (beUint 3) (fun hdrLen => RM.bind (readN sigLen) (fun _ =>
    RM.bind (readN hdrLen) (fun hdr => RM.bind (onSlice hdr (exchangeHeaders (magic == sxgMagicB3))) (fun _ =>
      RM.bind readAll (fun _ => RM.pure ()))))))

def rp_sxgMid (magic : Bytes) (fallbackLen : Nat) : RM Unit :=
  if (magic == sxgMagicB1) = true then RM.bind (RM.pure ([] : Bytes)) (fun _ => rp_sxgTail magic)
  else RM.bind (readN fallbackLen) (fun _ => rp_sxgTail magic)

theorem rp_sxgRead_eq : sxgRead = RM.bind (readN 8) (fun magic =>
    if (magic == sxgMagicB1) = true then RM.bind (RM.pure 0) (fun fl => rp_sxgMid magic fl)
    else RM.bind (beUint 2) (fun fl => rp_sxgMid magic fl)) := rfl

/-- after the two 3-byte length fields: both lengths are below 2^24 -/
theorem rp_good_sxgBody (magic : Bytes) (sigLen hdrLen : Nat) (hs : sigLen < 2 ^ 24) (hh : hdrLen < 2 ^ 24) :
    Good 7 515 (2 ^ 24 + 1) (RM.bind (readN sigLen) (fun _ =>
      RM.bind (readN hdrLen) (fun hdr => RM.bind (onSlice hdr (exchangeHeaders (magic == sxgMagicB3))) (fun _ =>
        RM.bind readAll (fun _ => (RM.pure () : RM Unit)))))) := by
  refine good_bind_le (S₁ := 1) (S₂ := 514) (F₁ := 2 ^ 24) (F₂ := 2 ^ 24)
    ((good_readN sigLen).mono (by decide) (Nat.le_refl _) (by omega)) (fun _ => ?_) (by omega) (by omega) (by omega)
  refine (rp_good_readN_bind (A := 6) (S := 513) (F := 7) (n := hdrLen) (fun hdr => ?_)).mono (Nat.le_refl _)
    (Nat.le_refl _) (Nat.max_le.mpr ⟨by omega, by omega⟩)
  refine good_bind_le (S₁ := 6 * hdr.length) (S₂ := 513) (F₁ := 6 * hdr.length + 7) (F₂ := 0)
    (good_onSlice (A' := 7) (good_exchangeHeaders _)) (fun _ => ?_) (by omega) (by omega) (by omega)
  exact (gen_bind_pure (fun _ => ()) (good_readAll.mono (A' := 7) (by decide) (Nat.le_refl _) (Nat.le_refl _)).gen).good

theorem rp_good_sxgTail (magic : Bytes) : Good 7 517 (2 ^ 24 + 3) (rp_sxgTail magic) := by
  unfold rp_sxgTail
  refine rp_good_bind_of_le (S₁ := 1) (S₂ := 516) (F₁ := 4) (F₂ := 2 ^ 24 + 2) (fun n => n < 2 ^ 24)
    ((good_beUint 3).mono (by decide) (Nat.le_refl _) (Nat.le_refl _))
    (fun _ _ _ _ _ e => rp_beUint_lt e) (fun sigLen hs => ?_) (by omega) (by omega) (by omega)
  refine rp_good_bind_of_le (S₁ := 1) (S₂ := 515) (F₁ := 4) (F₂ := 2 ^ 24 + 1) (fun n => n < 2 ^ 24)
    ((good_beUint 3).mono (by decide) (Nat.le_refl _) (Nat.le_refl _))
    (fun _ _ _ _ _ e => rp_beUint_lt e) (fun hdrLen hh => ?_) (by omega) (by omega) (by omega)
  exact rp_good_sxgBody magic sigLen hdrLen hs hh

theorem rp_good_sxgMid (magic : Bytes) (fl : Nat) (hfl : fl < 2 ^ 16) :
    Good 7 518 (2 ^ 24 + 4) (rp_sxgMid magic fl) := by
  unfold rp_sxgMid
  refine good_ite (fun _ => ?_) (fun _ => ?_)
  · exact good_bind_le (S₁ := 0) (F₁ := 0) (good_pure' _) (fun _ => rp_good_sxgTail magic) (by omega) (by omega)
      (by omega)
  · exact good_bind_le (S₁ := 1) (F₁ := 2 ^ 16) ((good_readN fl).mono (by decide) (Nat.le_refl _) (by omega))
      (fun _ => rp_good_sxgTail magic) (by omega) (by omega) (by omega)

/-- `ReadExchange`: slope 7; the additive constant on failure is one maximal 3-byte length (`make([]byte, n)` with
    `n < 2^24` before a short read) plus 6.  The three declared lengths do not add up: a read that succeeds has
    consumed as many input bytes as it allocated. -/
theorem good_sxgRead : Good 7 520 (2 ^ 24 + 6) sxgRead := by
  rw [rp_sxgRead_eq]
  refine good_bind_le (S₁ := 1) (S₂ := 519) (F₁ := 9) (F₂ := 2 ^ 24 + 5)
    ((good_readN 8).mono (by decide) (Nat.le_refl _) (Nat.le_refl _)) (fun magic => ?_) (by omega) (by omega) (by omega)
  refine good_ite (fun _ => ?_) (fun _ => ?_)
  · show Good 7 519 (2 ^ 24 + 5) (rp_sxgMid magic 0)
    exact (rp_good_sxgMid magic 0 (by decide)).mono (Nat.le_refl _) (by omega) (by omega)
  · exact rp_good_bind_of_le (S₁ := 1) (S₂ := 518) (F₁ := 3) (F₂ := 2 ^ 24 + 4) (fun n => n < 2 ^ 16)
      ((good_beUint 2).mono (by decide) (Nat.le_refl _) (Nat.le_refl _))
      (fun _ _ _ _ _ e => rp_beUint_lt e) (fun fl hfl => rp_good_sxgMid magic fl hfl) (by omega) (by omega) (by omega)

/-! ### 3. mice decoder -/

theorem good_miceDecode (d02 : Bool) (mx : Nat) : Good 3 (mx + 522) 1 (miceDecode d02 mx) := by
  intro bs c
  unfold miceDecode
  by_cases h8 : bs.length < 8
  · rw [if_pos h8]
    constructor
    · intro a rest c' e
      simp only [Prod.mk.injEq] at e
      obtain ⟨e1, rfl⟩ := e
      by_cases hb : (bs.isEmpty && !d02) = true
      · rw [if_pos hb] at e1
        simp only [Option.some.injEq, Prod.mk.injEq] at e1
        obtain ⟨_, rfl⟩ := e1
        simp only [Cost.m, List.length_nil]
        omega
      · rw [if_neg hb] at e1; cases e1
    · intro c' e
      simp only [Prod.mk.injEq] at e
      obtain ⟨_, rfl⟩ := e
      simp only [Cost.m]
      omega
  · rw [if_neg h8]
    simp only []
    by_cases hr : beVal (bs.take 8) = 0 ∨ beVal (bs.take 8) > mx
    · rw [if_pos hr]
      constructor
      · intro a rest c' e; cases e
      · intro c' e
        simp only [Prod.mk.injEq] at e
        obtain ⟨_, rfl⟩ := e
        simp only [Cost.m]
        omega
    · rw [if_neg hr]
      constructor
      · intro a rest c' e
        simp only [Prod.mk.injEq, Option.some.injEq] at e
        obtain ⟨⟨_, rfl⟩, rfl⟩ := e
        have hd : (bs.length - 8) / (beVal (bs.take 8) + 32) ≤ bs.length - 8 := Nat.div_le_self _ _
        simp only [Cost.m, List.length_nil, List.length_drop]
        omega
      · intro c' e; cases e

/-! ### 4. corollaries: one linear bound per entry point -/

theorem cborEntry_linear (e : CborEntry) (bs : Bytes) :
    (RM.run (cborEntry e) bs).2.alloc ≤ 4 * bs.length + 6 ∧ (RM.run (cborEntry e) bs).2.steps ≤ 4 * bs.length + 6 :=
  (good_cborEntry e).run_bound bs

theorem certChain_linear (bs : Bytes) :
    (RM.run certChain bs).2.alloc ≤ 6 * bs.length + 8 ∧ (RM.run certChain bs).2.steps ≤ 6 * bs.length + 8 :=
  good_certChain.run_bound bs

theorem sxgRead_linear (bs : Bytes) :
    (RM.run sxgRead bs).2.alloc ≤ 7 * bs.length + (2 ^ 24 + 6) ∧
    (RM.run sxgRead bs).2.steps ≤ 7 * bs.length + (2 ^ 24 + 6) :=
  good_sxgRead.run_bound bs

theorem signedSubset_linear (bs : Bytes) :
    (RM.run signedSubset bs).2.alloc ≤ 4 * bs.length + 9 ∧ (RM.run signedSubset bs).2.steps ≤ 4 * bs.length + 9 :=
  good_signedSubset.run_bound bs

theorem miceDecode_linear (d02 : Bool) (mx : Nat) (bs : Bytes) :
    (RM.run (miceDecode d02 mx) bs).2.alloc ≤ 3 * bs.length + (mx + 522) ∧
    (RM.run (miceDecode d02 mx) bs).2.steps ≤ 3 * bs.length + (mx + 522) := by
  have h := (good_miceDecode d02 mx).run_bound bs
  have : max (mx + 522) 1 = mx + 522 := Nat.max_eq_left (by omega)
  rw [this] at h
  exact h

theorem shCost_linear (bs : Bytes) : (shCost bs).alloc ≤ bs.length ∧ (shCost bs).steps ≤ 2 * bs.length + 1 :=
  ⟨Nat.le_refl _, Nat.le_refl _⟩

theorem ibCost_const : ibCost.alloc = 16 ∧ ibCost.steps = 2 := ⟨rfl, rfl⟩

/-- `Exchange.Verify`: Signature header + certificate chain + MI payload (record size limit 16384) -/
theorem verifyCost_linear (sigHeader certBytes payload : Bytes) (d02 : Bool) :
    (verifyCost sigHeader certBytes payload d02).alloc ≤
      6 * (sigHeader.length + certBytes.length + payload.length) + 16914 ∧
    (verifyCost sigHeader certBytes payload d02).steps ≤
      6 * (sigHeader.length + certBytes.length + payload.length) + 16915 := by
  have h1 := certChain_linear certBytes
  have h2 := miceDecode_linear d02 16384 payload
  unfold verifyCost shCost
  simp only []
  omega

/-! ### 5. the bundle reader

  Bytes consumed versus list elements produced: the index (and the section table) cannot have more entries than
  the input has bytes, whatever counts are declared. -/

/-- every success consumes at least `k` bytes -/
def rp_Shrinks (k : Nat) (p : RM α) : Prop :=
  ∀ bs c a rest c', p bs c = (some (a, rest), c') → rest.length + k ≤ bs.length

/-- a list-producing parser: `w` input bytes are consumed per element produced (beyond a credit of `n`) -/
def rp_Acc {γ : Type} (w n : Nat) (p : RM (List γ)) : Prop :=
  ∀ bs c a rest c', p bs c = (some (a, rest), c') → w * a.length + rest.length ≤ n + bs.length

theorem rp_shrinks_of_good {A S F : Nat} {p : RM α} (h : Good A S F p) : rp_Shrinks 0 p :=
  fun _ _ _ _ _ e => (h.some e).2

theorem rp_shrinks_mono {k k' : Nat} {p : RM α} (h : rp_Shrinks k p) (hk : k' ≤ k) : rp_Shrinks k' p := by
  intro bs c a rest c' e
  have := h bs c a rest c' e
  omega

theorem rp_shrinks_bind {k₁ k₂ : Nat} {p : RM α} {f : α → RM β} (hp : rp_Shrinks k₁ p)
    (hf : ∀ a, rp_Shrinks k₂ (f a)) : rp_Shrinks (k₁ + k₂) (RM.bind p f) := by
  intro bs c b rest c' e
  obtain ⟨a, r1, c1, e1, e2⟩ := RM.bind_some_inv e
  have := hp bs c a r1 c1 e1
  have := hf a r1 c1 b rest c' e2
  omega

theorem rp_shrinks_ofType (t : Nat) : rp_Shrinks 1 (ofType t) := by
  intro bs c a rest c' e
  obtain ⟨k, _, h, _⟩ := ofType_some e
  omega

theorem rp_shrinks_textString : rp_Shrinks 1 textString := by
  intro bs c a rest c' e
  have := (prog_textString.some e).2
  rw [RM.textString_eq] at e
  obtain ⟨s, r1, c1, e1, e2⟩ := RM.bind_some_inv e
  obtain ⟨k, _, h, _⟩ := bytesOfType_some e1
  have h0 : rp_Shrinks 0 (RM.bind (RM.guard (utf8Valid s)) (fun _ =>
      RM.bind (RM.charge s.length 0) (fun _ => RM.pure s))) :=
    rp_shrinks_bind (k₁ := 0) (k₂ := 0) (rp_shrinks_of_good (good_guard (A := 0) _))
      (fun _ => rp_shrinks_of_good (gen_bind_pure (fun _ => s) (good_charge (A := 0) s.length 0).gen).good)
  have := h0 r1 c1 a rest c' e2
  omega

theorem rp_acc_pure {γ : Type} {w n : Nat} (a : List γ) (h : w * a.length ≤ n) : rp_Acc w n (RM.pure a) := by
  intro bs c a' rest c' e
  unfold RM.pure at e
  cases e
  omega

theorem rp_acc_fail {γ : Type} {w n : Nat} : rp_Acc w n (RM.fail : RM (List γ)) := by
  intro bs c a' rest c' e
  unfold RM.fail at e
  cases e

theorem rp_acc_mono {γ : Type} {w n n' : Nat} {p : RM (List γ)} (h : rp_Acc w n p) (hn : n ≤ n') : rp_Acc w n' p := by
  intro bs c a rest c' e
  have := h bs c a rest c' e
  omega

theorem rp_acc_bind {γ : Type} {w n k : Nat} {p : RM α} {f : α → RM (List γ)} (hp : rp_Shrinks k p)
    (hf : ∀ a, rp_Acc w (n + k) (f a)) : rp_Acc w n (RM.bind p f) := by
  intro bs c b rest c' e
  obtain ⟨a, r1, c1, e1, e2⟩ := RM.bind_some_inv e
  have := hp bs c a r1 c1 e1
  have := hf a r1 c1 b rest c' e2
  omega

theorem rp_acc_ite {γ : Type} {w n : Nat} {c : Prop} [Decidable c] {p q : RM (List γ)} (hp : rp_Acc w n p)
    (hq : rp_Acc w n q) : rp_Acc w n (if c then p else q) := by
  by_cases h : c
  · rw [if_pos h]; exact hp
  · rw [if_neg h]; exact hq

/-- the declared count does not matter: the list grows only as fast as the input is consumed -/
theorem rp_acc_loop {γ : Type} {w : Nat} {body : List γ → RM (List γ)}
    (hb : ∀ a, rp_Acc w (w * a.length) (body a)) : ∀ n a, rp_Acc w (w * a.length) (RM.loop body n a) := by
  intro n
  induction n with
  | zero =>
    intro a
    rw [RM.loop_zero]
    exact rp_acc_pure a (Nat.le_refl _)
  | succ n ih =>
    intro a
    rw [RM.loop_succ]
    intro bs c b rest c' e
    obtain ⟨u, r1, c1, e1, e2⟩ := RM.bind_some_inv e
    have h1 := (good_charge (A := 0) 0 1 |>.some e1).2
    obtain ⟨a', r2, c2, e3, e4⟩ := RM.bind_some_inv e2
    have h2 := hb a r1 c1 a' r2 c2 e3
    have h3 := ih a' r2 c2 b rest c' e4
    omega

theorem rp_acc_sectionPairs : rp_Acc 2 0 sectionPairs := by
  unfold sectionPairs
  refine rp_acc_bind (k := 0) (rp_shrinks_mono (rp_shrinks_ofType 4) (Nat.zero_le _)) (fun n => ?_)
  refine rp_acc_loop (w := 2) (fun acc => ?_) ((n + 1) / 2) []
  refine rp_acc_bind rp_shrinks_textString (fun name => ?_)
  refine rp_acc_bind (rp_shrinks_ofType 0) (fun len => ?_)
  refine rp_acc_pure _ ?_
  simp only [List.length_append, List.length_cons, List.length_nil]
  omega

theorem rp_acc_offLen (n : Nat) (acc : List (Nat × Nat)) (hn : acc.length ≤ n) :
    rp_Acc 1 n (RM.bind (ofType 0) (fun off => RM.bind (ofType 0) (fun len =>
      (pure (acc ++ [(off, len)]) : RM _)))) := by
  refine rp_acc_bind (rp_shrinks_ofType 0) (fun off => ?_)
  refine rp_acc_bind (k := 0) (rp_shrinks_mono (rp_shrinks_ofType 0) (Nat.zero_le _)) (fun len => ?_)
  refine rp_acc_pure _ ?_
  simp only [List.length_append, List.length_cons, List.length_nil]
  omega

theorem rp_acc_indexB2 : rp_Acc 1 0 indexB2 := by
  unfold indexB2
  refine rp_acc_bind (k := 0) (rp_shrinks_mono (rp_shrinks_ofType 5) (Nat.zero_le _)) (fun n => ?_)
  refine rp_acc_loop (w := 1) (fun acc => ?_) n []
  refine rp_acc_bind (k := 0) (rp_shrinks_mono rp_shrinks_textString (Nat.zero_le _)) (fun _ => ?_)
  refine rp_acc_bind (k := 0) (rp_shrinks_mono (rp_shrinks_ofType 4) (Nat.zero_le _)) (fun _ => ?_)
  exact rp_acc_offLen _ acc (by omega)

theorem rp_acc_locations (k : Nat) (acc : List (Nat × Nat)) : rp_Acc 1 acc.length (locations k acc) := by
  unfold locations
  have := rp_acc_loop (w := 1) (body := fun acc => RM.bind (ofType 0) (fun off => RM.bind (ofType 0) (fun len =>
      (pure (acc ++ [(off, len)]) : RM _)))) (fun acc => rp_acc_offLen _ acc (by omega)) k acc
  exact rp_acc_mono this (by omega)

theorem rp_acc_indexB1 : rp_Acc 1 0 indexB1 := by
  unfold indexB1
  refine rp_acc_bind (k := 0) (rp_shrinks_mono (rp_shrinks_ofType 5) (Nat.zero_le _)) (fun n => ?_)
  refine rp_acc_loop (w := 1) (fun acc => ?_) n []
  refine rp_acc_bind (k := 0) (rp_shrinks_mono rp_shrinks_textString (Nat.zero_le _)) (fun _ => ?_)
  refine rp_acc_bind (k := 0) (rp_shrinks_mono (rp_shrinks_ofType 4) (Nat.zero_le _)) (fun _ => ?_)
  refine rp_acc_bind (k := 0) (rp_shrinks_of_good prog_byteStringX.good) (fun vv => ?_)
  have hl : ∀ num, rp_Acc 1 (1 * acc.length + 0 + 0 + 0) (locations num acc) := fun num =>
    rp_acc_mono (rp_acc_locations num acc) (by omega)
  refine rp_acc_ite (hl 1) ?_
  cases (Bundle.parseListOfStringLists vv).bind (fun v => Bundle.numberOfPossibleKeys v 1) with
  | none => exact rp_acc_fail
  | some num => exact hl num

/-! #### the response loop and the section loop -/

/-- 5a. one `loadResponse` per index entry: 8 units per declared byte plus 8 (7 for a failing response, 1 step) -/
theorem responsesCost_bound (resp : Bytes) : ∀ (entries : List (Nat × Nat)) (c : Cost) (r : Option Unit) (c' : Cost),
    responsesCost resp entries c = (r, c') → c'.m ≤ c.m + (entries.map (fun e => 8 * e.2 + 8)).sum := by
  intro entries
  induction entries with
  | nil =>
    intro c r c' h
    rw [responsesCost] at h
    cases h
    simp
  | cons e rest ih =>
    intro c r c' h
    obtain ⟨off, len⟩ := e
    rw [responsesCost] at h
    have hl : ((resp.drop off).take len).length ≤ len := by
      rw [List.length_take]; exact Nat.min_le_left _ _
    have hc : ({ c with steps := c.steps + 1 } : Cost).m = c.m + 1 := by simp only [Cost.m]; omega
    simp only [List.map_cons, List.sum_cons]
    cases e1 : response ((resp.drop off).take len) { c with steps := c.steps + 1 } with | mk o c1 =>
    rw [e1] at h
    cases o with
    | none =>
      simp only [Prod.mk.injEq] at h
      obtain ⟨_, rfl⟩ := h
      have := good_response.none e1
      omega
    | some ar =>
      obtain ⟨a, r1⟩ := ar
      simp only [] at h
      have := (good_response.some e1).1
      have := ih c1 r c' h
      omega

theorem rp_take_drop_length (n : Nat) (bs : Bytes) : (bs.take n).length + (bs.drop n).length = bs.length := by
  rw [List.length_take, List.length_drop]; omega

theorem rp_good_index (b1 : Bool) : Good 6 0 8 (if b1 = true then indexB1 else indexB2) := by
  cases b1
  · exact good_indexB2.mono (by decide) (Nat.le_refl _) (by decide)
  · exact good_indexB1

theorem rp_acc_index (b1 : Bool) : rp_Acc 1 0 (if b1 = true then indexB1 else indexB2) := by
  cases b1
  · exact rp_acc_indexB2
  · exact rp_acc_indexB1

/-- 5b. the sections are parsed on consecutive, disjoint pieces of `bs`: 6 units per byte of `bs` plus 8 per section
    table entry (a failing section parser), however the table cuts `bs` up -/
theorem sectionsCost_bound (b1 : Bool) : ∀ (sos : List Bundle.SectionOffset) (bs : Bytes) (c : Cost)
    (acc : List (Nat × Nat)) (r : Option (List (Nat × Nat))) (c' : Cost),
    sectionsCost b1 sos bs c acc = (r, c') → c'.m ≤ c.m + 6 * bs.length + sos.length * 8 := by
  intro sos
  induction sos with
  | nil =>
    intro bs c acc r c' h
    rw [sectionsCost] at h
    cases h
    omega
  | cons so rest ih =>
    intro bs c acc r c' h
    rw [sectionsCost] at h
    have hlen := rp_take_drop_length so.length bs
    rw [List.length_cons, Nat.add_mul]
    -- one section parsed by a `Good 6 0 8` parser on `bs.take so.length`, then the remaining sections
    have stepN : ∀ {γ : Type} (p : RM γ), Good 6 0 8 p → ∀ c1, p (bs.take so.length) c = (none, c1) →
        c1.m ≤ c.m + 6 * bs.length + (rest.length * 8 + 1 * 8) := by
      intro γ p hp c1 e1
      have := hp.none e1
      omega
    have stepS : ∀ {γ : Type} (p : RM γ), Good 6 0 8 p → ∀ ar c1, p (bs.take so.length) c = (some ar, c1) →
        ∀ acc', sectionsCost b1 rest (bs.drop so.length) c1 acc' = (r, c') →
        c'.m ≤ c.m + 6 * bs.length + (rest.length * 8 + 1 * 8) := by
      intro γ p hp ar c1 e1 acc' h
      obtain ⟨a, r1⟩ := ar
      have := (hp.some e1).1
      have := ih _ _ _ _ _ h
      omega
    by_cases h1 : so.name = Bundle.nIndex
    · rw [if_pos h1] at h
      cases e1 : (if b1 = true then indexB1 else indexB2) (bs.take so.length) c with | mk o c1 =>
      rw [e1] at h
      cases o with
      | none =>
        simp only [Prod.mk.injEq] at h
        obtain ⟨_, rfl⟩ := h
        exact stepN _ (rp_good_index b1) _ e1
      | some ar =>
        obtain ⟨a, r1⟩ := ar
        exact stepS _ (rp_good_index b1) _ _ e1 _ h
    · rw [if_neg h1] at h
      by_cases h2 : so.name = Bundle.nPrimary ∨ so.name = Bundle.nManifest
      · rw [if_pos h2] at h
        cases e1 : urlSection (bs.take so.length) c with | mk o c1 =>
        rw [e1] at h
        cases o with
        | none =>
          simp only [Prod.mk.injEq] at h
          obtain ⟨_, rfl⟩ := h
          exact stepN _ (good_urlSection.mono (by decide) (Nat.le_refl _) (by decide)) _ e1
        | some ar => exact stepS _ (good_urlSection.mono (by decide) (Nat.le_refl _) (by decide)) _ _ e1 _ h
      · rw [if_neg h2] at h
        by_cases h3 : so.name = Bundle.nSignatures
        · rw [if_pos h3] at h
          cases e1 : signaturesSection (bs.take so.length) c with | mk o c1 =>
          rw [e1] at h
          cases o with
          | none =>
            simp only [Prod.mk.injEq] at h
            obtain ⟨_, rfl⟩ := h
            exact stepN _ good_signaturesSection _ e1
          | some ar => exact stepS _ good_signaturesSection _ _ e1 _ h
        · rw [if_neg h3] at h
          have := ih _ _ _ _ _ h
          omega

/-- 5b (entries). what `sectionsCost` returns is the accumulator or the result of an index parser run on a slice of
    `bs`: it has no more elements than that slice has bytes -/
theorem sectionsCost_entries (b1 : Bool) : ∀ (sos : List Bundle.SectionOffset) (bs : Bytes) (c : Cost)
    (acc es : List (Nat × Nat)) (c' : Cost),
    sectionsCost b1 sos bs c acc = (some es, c') → es.length ≤ max acc.length bs.length := by
  intro sos
  induction sos with
  | nil =>
    intro bs c acc es c' h
    rw [sectionsCost] at h
    cases h
    exact Nat.le_max_left _ _
  | cons so rest ih =>
    intro bs c acc es c' h
    rw [sectionsCost] at h
    have hlen := rp_take_drop_length so.length bs
    have skip : ∀ c1, sectionsCost b1 rest (bs.drop so.length) c1 acc = (some es, c') →
        es.length ≤ max acc.length bs.length := by
      intro c1 h
      have := ih _ _ _ _ _ h
      omega
    by_cases h1 : so.name = Bundle.nIndex
    · rw [if_pos h1] at h
      cases e1 : (if b1 = true then indexB1 else indexB2) (bs.take so.length) c with | mk o c1 =>
      rw [e1] at h
      cases o with
      | none => cases h
      | some ar =>
        obtain ⟨a, r1⟩ := ar
        simp only [] at h
        have := rp_acc_index b1 _ _ _ _ _ e1
        have := ih _ _ _ _ _ h
        omega
    · rw [if_neg h1] at h
      by_cases h2 : so.name = Bundle.nPrimary ∨ so.name = Bundle.nManifest
      · rw [if_pos h2] at h
        cases e1 : urlSection (bs.take so.length) c with | mk o c1 =>
        rw [e1] at h
        cases o with
        | none => cases h
        | some ar => exact skip c1 h
      · rw [if_neg h2] at h
        by_cases h3 : so.name = Bundle.nSignatures
        · rw [if_pos h3] at h
          cases e1 : signaturesSection (bs.take so.length) c with | mk o c1 =>
          rw [e1] at h
          cases o with
          | none => cases h
          | some ar => exact skip c1 h
        · rw [if_neg h3] at h
          have := ih _ _ _ _ _ h
          omega

/-! #### `bundle.Read` -/

/-- the preamble of `loadMetadata` after the magic: (fallback URL,) section-lengths byte string parsed on its own
    slice, header of the sections array -/
def rp_proTail : RM (List Bundle.SectionOffset) :=
  RM.bind byteString (fun sl => RM.bind (guard (decide (sl.length < 8192))) (fun _ =>
    RM.bind (onSlice sl sectionPairs) (fun sos => RM.bind (ofType 4) (fun _ => RM.pure sos))))

def rp_pro (b1 : Bool) : RM (List Bundle.SectionOffset) :=
  if b1 = true then RM.bind textString (fun _ => rp_proTail) else rp_proTail

/-- `bundleRead` after the magic bytes -/
def rp_bundleBody (b1 : Bool) (r0 : Bytes) (c0 : Cost) : Option Unit × Cost × List (Nat × Nat) :=
  match rp_pro b1 r0 c0 with
  | (none, c1) => (none, c1, [])
  | (some (sos, r3), c1) =>
    if !Bundle.sectionsFit sos r3.length then (none, c1, [])
    else
      match sectionsCost b1 sos r3 c1 [] with
      | (none, c2) => (none, c2, [])
      | (some entries, c2) =>
        let respLen := (sos.getLast?.map (·.length)).getD 0
        let respOff := ((sos.dropLast.map (·.length)).sum)
        let ok := entries.filter (inResponses respLen)
        if ok.length ≠ entries.length then (none, c2, [])
        else
          match responsesCost ((r3.drop respOff).take respLen) ok c2 with
          | (r, c3) => (r, c3, ok)

theorem rp_bundleRead_eq (bs : Bytes) : bundleRead bs =
    match Bundle.parseMagic bs with
    | none => (none, { alloc := 2 * bs.length + 512, steps := 1 }, [])
    | some (ver, r0) => rp_bundleBody (ver == .b1) r0 { alloc := 2 * bs.length + 512, steps := 1 } := rfl

theorem rp_parseMagic_len {bs : Bytes} {ver : Bundle.BVer} {r0 : Bytes}
    (h : Bundle.parseMagic bs = some (ver, r0)) : r0.length + 15 ≤ bs.length := by
  unfold Bundle.parseMagic at h
  by_cases h1 : bs.length < 10
  · rw [if_pos h1] at h; cases h
  · rw [if_neg h1] at h
    simp only [] at h
    by_cases h2 : bs.take 10 ≠ Bundle.headerMagicB1 ∧ bs.take 10 ≠ Bundle.headerMagicB2
    · rw [if_pos h2] at h; cases h
    · rw [if_neg h2] at h
      by_cases h3 : (bs.drop 10).length < 5
      · rw [if_pos h3] at h; cases h
      · rw [if_neg h3] at h
        have hr : r0 = (bs.drop 10).drop 5 := by
          repeat' split at h
          all_goals (cases h <;> rfl)
        rw [hr]
        simp only [List.length_drop] at h3 ⊢
        omega

theorem rp_sectionsFit_last : ∀ (sos : List Bundle.SectionOffset) (n : Nat), Bundle.sectionsFit sos n = true →
    (sos.getLast?.map (·.length)).getD 0 ≤ n := by
  intro sos
  induction sos with
  | nil => intro n _; simp
  | cons so rest ih =>
    intro n h
    rw [Bundle.sectionsFit] at h
    by_cases hg : so.length > n
    · rw [if_pos hg] at h; cases h
    · rw [if_neg hg] at h
      have := ih _ h
      cases rest with
      | nil => simp; omega
      | cons x r =>
        rw [List.getLast?_cons_cons]
        omega

theorem rp_good_pro (b1 : Bool) : Good 6 0 7 (rp_pro b1) := by
  have ht : Prog 6 7 rp_proTail := by
    unfold rp_proTail
    refine Gen.mono (K' := 1) (S' := 0) (F' := 7)
      (gen_bytesOfType_bind (A := 2) (K := 0) (S := 0) (F := 7) (t := 2) (fun sl => ?_))
      (Nat.le_refl _) (Nat.le_refl _) (by decide)
    refine Good.gen (good_bind_le (S₁ := 0) (S₂ := 4 * sl.length) (F₁ := 0) (F₂ := 4 * sl.length + 7)
      (good_guard _) (fun _ => ?_) (by omega) (by omega) (by omega))
    refine good_bind_le (S₁ := 4 * sl.length) (S₂ := 0) (F₁ := 4 * sl.length + 7) (F₂ := 6)
      (good_onSlice (A' := 6) good_sectionPairs) (fun sos => ?_) (by omega) (by omega) (by omega)
    exact gen_bind_pure (fun _ => sos) ((rp_prog_ofType 4).good.mono (by decide) (Nat.le_refl _) (Nat.le_refl _)).gen
  unfold rp_pro
  refine good_ite (fun _ => ?_) (fun _ => ht.good)
  exact (prog_bind_left_le (F₁ := 6) (F₂ := 7) (F := 7) (prog_textString.mono (by decide) (Nat.le_refl _))
    (fun _ => ht.good) (by decide) (Nat.le_refl _)).good

/-- two bytes of the section-lengths string per section-table entry -/
theorem rp_acc_pro (b1 : Bool) : rp_Acc 2 0 (rp_pro b1) := by
  have ht : rp_Acc 2 0 rp_proTail := by
    unfold rp_proTail
    intro bs c sos rest c' e
    obtain ⟨sl, r1, c1, e1, e2⟩ := RM.bind_some_inv e
    obtain ⟨k, _, h1, _⟩ := bytesOfType_some e1
    obtain ⟨u, r2, c2, e3, e4⟩ := RM.bind_some_inv e2
    have h2 := ((good_guard (A := 0) _).some e3).2
    obtain ⟨sos', r3, c3, e5, e6⟩ := RM.bind_some_inv e4
    obtain ⟨rfl, r, e7⟩ := RM.onSlice_some_inv e5
    have h3 := rp_acc_sectionPairs _ _ _ _ _ e7
    obtain ⟨v, r4, c4, e8, e9⟩ := RM.bind_some_inv e6
    have h4 := ((rp_prog_ofType 4).some e8).2
    unfold RM.pure at e9
    cases e9
    omega
  unfold rp_pro
  exact rp_acc_ite (rp_acc_bind (k := 0) (rp_shrinks_mono rp_shrinks_textString (Nat.zero_le _)) (fun _ => ht)) ht

/-- what is needed about the result of `bundleRead` after the magic (`n` = bytes left after the magic) -/
def rp_Spec (c0 : Cost) (n : Nat) (res : Option Unit × Cost × List (Nat × Nat)) : Prop :=
  ∃ (respLen : Nat) (c2 : Cost), c2.m ≤ c0.m + 10 * n + 7 ∧
    res.2.1.m ≤ c2.m + (res.2.2.map (fun e => 8 * e.2 + 8)).sum ∧
    res.2.2.length ≤ n ∧ respLen ≤ n ∧ ∀ e ∈ res.2.2, inResponses respLen e = true

theorem rp_spec_fail {c0 : Cost} {n : Nat} {c : Cost} (h : c.m ≤ c0.m + 10 * n + 7) : rp_Spec c0 n (none, c, []) :=
  ⟨0, c, h, by simp, by simp, Nat.zero_le _, by simp⟩

theorem rp_bundleBody_spec (b1 : Bool) (r0 : Bytes) (c0 : Cost) :
    rp_Spec c0 r0.length (rp_bundleBody b1 r0 c0) := by
  unfold rp_bundleBody
  cases e1 : rp_pro b1 r0 c0 with | mk o c1 =>
  cases o with
  | none =>
    have := (rp_good_pro b1).none e1
    exact rp_spec_fail (by omega)
  | some ar =>
    obtain ⟨sos, r3⟩ := ar
    have ⟨hc1, hr3⟩ := (rp_good_pro b1).some e1
    have hacc := rp_acc_pro b1 _ _ _ _ _ e1
    simp only []
    by_cases hf : (!Bundle.sectionsFit sos r3.length) = true
    · rw [if_pos hf]; exact rp_spec_fail (by omega)
    · rw [if_neg hf]
      have hfit : Bundle.sectionsFit sos r3.length = true := by simpa using hf
      have hlast := rp_sectionsFit_last _ _ hfit
      cases e2 : sectionsCost b1 sos r3 c1 [] with | mk o2 c2 =>
      have hb := sectionsCost_bound b1 _ _ _ _ _ _ e2
      cases o2 with
      | none => exact rp_spec_fail (by omega)
      | some entries =>
        have hen := sectionsCost_entries b1 _ _ _ _ _ _ e2
        simp only []
        split
        · exact rp_spec_fail (by omega)
        · have hfl := List.length_filter_le (inResponses ((sos.getLast?.map (·.length)).getD 0)) entries
          simp only [List.length_nil] at hen
          cases e3 : responsesCost
            (List.take ((sos.getLast?.map (·.length)).getD 0) (List.drop (sos.dropLast.map (·.length)).sum r3))
            (entries.filter (inResponses ((sos.getLast?.map (·.length)).getD 0))) c2 with | mk r c3 =>
          refine ⟨(sos.getLast?.map (·.length)).getD 0, c2, by omega, responsesCost_bound _ _ _ _ _ e3, ?_,
            by omega, ?_⟩
          · show (entries.filter _).length ≤ _
            omega
          · intro e he
            exact (List.mem_filter.mp he).2

/-! #### disjoint index entries cover at most the responses section -/

theorem rp_inResponses_iff (L : Nat) (e : Nat × Nat) : inResponses L e = true ↔ e.2 ≤ L ∧ e.1 ≤ L - e.2 := by
  unfold inResponses
  simp only [Bool.and_eq_true, decide_eq_true_eq]

/-- close the gap left by removing the interval `[a, a + l)` -/
def rp_shift (a l : Nat) (f : Nat × Nat) : Nat × Nat := if a + l ≤ f.1 then (f.1 - l, f.2) else f

theorem rp_shift_snd (a l : Nat) (f : Nat × Nat) : (rp_shift a l f).2 = f.2 := by
  unfold rp_shift
  by_cases c : a + l ≤ f.1
  · rw [if_pos c]
  · rw [if_neg c]

theorem rp_shift_sep (a l : Nat) (hl : 0 < l) (f g : Nat × Nat)
    (hf : a + l ≤ f.1 ∨ f.1 + f.2 ≤ a) (hg : a + l ≤ g.1 ∨ g.1 + g.2 ≤ a)
    (h : f.1 + f.2 ≤ g.1 ∨ g.1 + g.2 ≤ f.1) :
    (rp_shift a l f).1 + (rp_shift a l f).2 ≤ (rp_shift a l g).1 ∨
    (rp_shift a l g).1 + (rp_shift a l g).2 ≤ (rp_shift a l f).1 := by
  unfold rp_shift
  by_cases c1 : a + l ≤ f.1 <;> by_cases c2 : a + l ≤ g.1
  · rw [if_pos c1, if_pos c2]; simp only []; omega
  · rw [if_pos c1, if_neg c2]; simp only []; omega
  · rw [if_neg c1, if_pos c2]; simp only []; omega
  · rw [if_neg c1, if_neg c2]; omega

theorem rp_disjoint_shift (a l : Nat) (hl : 0 < l) : ∀ (rest : List (Nat × Nat)),
    (∀ f ∈ rest, a + l ≤ f.1 ∨ f.1 + f.2 ≤ a) → Disjoint rest → Disjoint (rest.map (rp_shift a l)) := by
  intro rest
  induction rest with
  | nil => intro _ _; exact True.intro
  | cons f r ih =>
    intro hsep hd
    obtain ⟨h1, h2⟩ := (hd : (∀ g ∈ r, f.1 + f.2 ≤ g.1 ∨ g.1 + g.2 ≤ f.1) ∧ Disjoint r)
    rw [List.map_cons]
    refine (⟨?_, ih (fun g hg => hsep g (List.mem_cons_of_mem _ hg)) h2⟩ :
      (∀ g ∈ r.map (rp_shift a l), (rp_shift a l f).1 + (rp_shift a l f).2 ≤ g.1 ∨
        g.1 + g.2 ≤ (rp_shift a l f).1) ∧ Disjoint (r.map (rp_shift a l)))
    intro g' hg'
    obtain ⟨g, hg, rfl⟩ := List.mem_map.mp hg'
    exact rp_shift_sep a l hl f g (hsep f (List.mem_cons_self ..)) (hsep g (List.mem_cons_of_mem _ hg)) (h1 g hg)

theorem rp_sum_shift (a l : Nat) (rest : List (Nat × Nat)) :
    ((rest.map (rp_shift a l)).map (·.2)).sum = (rest.map (·.2)).sum := by
  induction rest with
  | nil => rfl
  | cons f r ih => simp only [List.map_cons, List.sum_cons, rp_shift_snd, ih]

/-- pairwise disjoint ranges inside `[0, L)` have total length at most `L` (empty ranges are harmless) -/
theorem rp_disjoint_sum_le : ∀ (n : Nat) (es : List (Nat × Nat)) (L : Nat), es.length = n →
    (∀ e ∈ es, inResponses L e = true) → Disjoint es → (es.map (·.2)).sum ≤ L := by
  intro n
  induction n with
  | zero =>
    intro es L hn _ _
    have : es = [] := List.length_eq_zero_iff.mp hn
    rw [this]; simp
  | succ n ih =>
    intro es L hn hin hd
    cases es with
    | nil => simp
    | cons e rest =>
      obtain ⟨a, l⟩ := e
      obtain ⟨h1, h2⟩ := (hd : (∀ g ∈ rest, a + l ≤ g.1 ∨ g.1 + g.2 ≤ a) ∧ Disjoint rest)
      have he := (rp_inResponses_iff L (a, l)).mp (hin _ (List.mem_cons_self ..))
      simp only [] at he
      have hlen : rest.length = n := by simpa using hn
      simp only [List.map_cons, List.sum_cons]
      by_cases hl : l = 0
      · have := ih rest L hlen (fun f hf => hin f (List.mem_cons_of_mem _ hf)) h2
        omega
      · have hpos : 0 < l := Nat.pos_of_ne_zero hl
        have := ih (rest.map (rp_shift a l)) (L - l) (by rw [List.length_map]; exact hlen) ?_
          (rp_disjoint_shift a l hpos rest h1 h2)
        · rw [rp_sum_shift] at this
          omega
        · intro f' hf'
          obtain ⟨f, hf, rfl⟩ := List.mem_map.mp hf'
          have hfin := (rp_inResponses_iff L f).mp (hin f (List.mem_cons_of_mem _ hf))
          have hs := h1 f hf
          rw [rp_inResponses_iff]
          unfold rp_shift
          by_cases c : a + l ≤ f.1
          · rw [if_pos c]; simp only []; omega
          · rw [if_neg c]; omega

theorem rp_sum_affine (es : List (Nat × Nat)) :
    (es.map (fun e => 8 * e.2 + 8)).sum = 8 * (es.map (·.2)).sum + 8 * es.length := by
  induction es with
  | nil => rfl
  | cons e r ih =>
    simp only [List.map_cons, List.sum_cons, List.length_cons, ih]
    omega

theorem rp_sum_le_length_mul (es : List (Nat × Nat)) (f : Nat × Nat → Nat) (B : Nat) (h : ∀ e ∈ es, f e ≤ B) :
    (es.map f).sum ≤ es.length * B := by
  induction es with
  | nil => simp
  | cons e r ih =>
    have h1 := h e (List.mem_cons_self ..)
    have h2 := ih (fun x hx => h x (List.mem_cons_of_mem _ hx))
    simp only [List.map_cons, List.sum_cons, List.length_cons, Nat.add_mul]
    omega

/-! #### the theorems about `bundle.Read` -/

theorem rp_bundleRead_spec (bs : Bytes) :
    rp_Spec { alloc := 2 * bs.length + 512, steps := 1 } bs.length (bundleRead bs) := by
  rw [rp_bundleRead_eq]
  cases e : Bundle.parseMagic bs with
  | none => exact rp_spec_fail (by omega)
  | some vr =>
    obtain ⟨ver, r0⟩ := vr
    have hlen := rp_parseMagic_len e
    obtain ⟨respLen, c2, h1, h2, h3, h4, h5⟩ := rp_bundleBody_spec (ver == .b1) r0
      { alloc := 2 * bs.length + 512, steps := 1 }
    show rp_Spec _ _ (rp_bundleBody (ver == .b1) r0 _)
    exact ⟨respLen, c2, by omega, h2, by omega, by omega, h5⟩

/-- 5c. in general: linear in the input *plus* what the index entries declare, each entry being loaded separately -/
theorem bundleRead_general (bs : Bytes) :
    (bundleRead bs).2.1.m ≤ 12 * bs.length + 520 + ((bundleRead bs).2.2.map (fun e => 8 * e.2 + 8)).sum := by
  obtain ⟨respLen, c2, h1, h2, _, _, _⟩ := rp_bundleRead_spec bs
  simp only [Cost.m] at h1 h2 ⊢
  omega

/-- 5d. the index cannot have more entries than the bundle has bytes -/
theorem bundleRead_entries_le (bs : Bytes) : (bundleRead bs).2.2.length ≤ bs.length := by
  obtain ⟨_, _, _, _, h3, _, _⟩ := rp_bundleRead_spec bs
  exact h3

/-- every accepted index entry lies inside the responses section, which lies inside the bundle -/
theorem bundleRead_entry_le (bs : Bytes) : ∀ e ∈ (bundleRead bs).2.2, e.1 + e.2 ≤ bs.length := by
  obtain ⟨respLen, _, _, _, _, h4, h5⟩ := rp_bundleRead_spec bs
  intro e he
  have := (rp_inResponses_iff respLen e).mp (h5 e he)
  omega

/-- 5d'. for every input the cost is at most quadratic -/
theorem bundleRead_quadratic (bs : Bytes) :
    (bundleRead bs).2.1.m ≤ 12 * bs.length + 520 + bs.length * (8 * bs.length + 8) := by
  have hg := bundleRead_general bs
  obtain ⟨respLen, c2, _, _, h3, h4, h5⟩ := rp_bundleRead_spec bs
  have hs := rp_sum_le_length_mul (bundleRead bs).2.2 (fun e => 8 * e.2 + 8) (8 * bs.length + 8) (by
    intro e he
    have := (rp_inResponses_iff respLen e).mp (h5 e he)
    omega)
  have hm : (bundleRead bs).2.2.length * (8 * bs.length + 8) ≤ bs.length * (8 * bs.length + 8) :=
    Nat.mul_le_mul_right _ h3
  omega

/-- 5e. with pairwise disjoint index entries (what every bundle writer produces) the cost is linear -/
theorem bundleRead_linear_of_disjoint (bs : Bytes) (hd : Disjoint (bundleRead bs).2.2) :
    (bundleRead bs).2.1.m ≤ 28 * bs.length + 520 := by
  have hg := bundleRead_general bs
  obtain ⟨respLen, c2, _, _, h3, h4, h5⟩ := rp_bundleRead_spec bs
  have hs := rp_disjoint_sum_le _ (bundleRead bs).2.2 respLen rfl h5 hd
  rw [rp_sum_affine] at hg
  omega

/-! #### 5f. no sharing: an index entry repeated `k` times is paid for `k` times

  Every parser built from the primitives behaves the same from any starting cost (`rp_Shift`), so the response loop
  adds the cost of one `loadResponse` once per entry, whether or not the entries denote the same bytes. -/

def rp_addC (d c : Cost) : Cost := { alloc := d.alloc + c.alloc, steps := d.steps + c.steps }

/-- starting from a larger cost shifts the resulting cost by the same amount and changes nothing else -/
def rp_Shift (p : RM α) : Prop := ∀ bs c d, p bs (rp_addC d c) = ((p bs c).1, rp_addC d (p bs c).2)

theorem rp_shift_pure (a : α) : rp_Shift (RM.pure a) := fun _ _ _ => rfl
theorem rp_shift_fail : rp_Shift (RM.fail : RM α) := fun _ _ _ => rfl

theorem rp_shift_guard (b : Bool) : rp_Shift (RM.guard b) := by
  cases b
  · exact rp_shift_fail
  · exact rp_shift_pure ()

theorem rp_shift_charge (x y : Nat) : rp_Shift (RM.charge x y) := by
  intro bs c d
  simp only [RM.charge, rp_addC, Nat.add_assoc]

theorem rp_shift_bind {p : RM α} {f : α → RM β} (hp : rp_Shift p) (hf : ∀ a, rp_Shift (f a)) :
    rp_Shift (RM.bind p f) := by
  intro bs c d
  unfold RM.bind
  rw [hp bs c d]
  cases e : p bs c with | mk o c1 =>
  cases o with
  | none => rfl
  | some ar =>
    obtain ⟨a, r1⟩ := ar
    exact hf a r1 c1 d

theorem rp_shift_head : rp_Shift RM.head := by
  intro bs c d
  cases bs with
  | nil => simp only [RM.head, rp_addC, Nat.add_assoc]
  | cons b r =>
    unfold RM.head
    simp only []
    cases decodeArg (b.toNat / 32) (b.toNat % 32) r with
    | none => simp only [rp_addC, Nat.add_assoc]
    | some t => simp only [rp_addC, Nat.add_assoc]

theorem rp_shift_ofType (t : Nat) : rp_Shift (ofType t) := by
  rw [RM.ofType_eq]
  exact rp_shift_bind rp_shift_head (fun x => rp_shift_bind (rp_shift_guard _) (fun _ => rp_shift_pure _))

theorem rp_shift_copyN (n : Nat) : rp_Shift (copyN n) := by
  intro bs c d
  unfold copyN
  simp only []
  by_cases h : bs.length < n
  · rw [if_pos h, if_pos h]; simp only [rp_addC, Nat.add_assoc]
  · rw [if_neg h, if_neg h]; simp only [rp_addC, Nat.add_assoc]

theorem rp_shift_bytesOfType (t : Nat) : rp_Shift (bytesOfType t) := by
  rw [RM.bytesOfType_eq]
  exact rp_shift_bind (rp_shift_ofType t) (fun n => rp_shift_bind (rp_shift_guard _) (fun _ => rp_shift_copyN n))

theorem rp_shift_readN (n : Nat) : rp_Shift (readN n) := by
  intro bs c d
  unfold RM.readN
  simp only []
  by_cases h : bs.length < n
  · rw [if_pos h, if_pos h]; simp only [rp_addC, Nat.add_assoc]
  · rw [if_neg h, if_neg h]; simp only [rp_addC, Nat.add_assoc]

theorem rp_shift_loop {body : α → RM α} (hb : ∀ a, rp_Shift (body a)) : ∀ n a, rp_Shift (RM.loop body n a) := by
  intro n
  induction n with
  | zero => intro a; rw [RM.loop_zero]; exact rp_shift_pure a
  | succ n ih =>
    intro a
    rw [RM.loop_succ]
    exact rp_shift_bind (rp_shift_charge 0 1) (fun _ => rp_shift_bind (hb a) (fun a' => ih a'))

theorem rp_shift_onSlice {p : RM α} (sub : Bytes) (hp : rp_Shift p) : rp_Shift (RM.onSlice sub p) := by
  intro bs c d
  unfold RM.onSlice
  rw [hp sub c d]
  cases e : p sub c with | mk o c1 =>
  cases o with
  | none => rfl
  | some ar => rfl

theorem rp_shift_byteStringX : rp_Shift byteStringX := by
  unfold byteStringX
  exact rp_shift_bind (rp_shift_bytesOfType 2) (fun b => rp_shift_bind (rp_shift_charge _ _) (fun _ => rp_shift_pure b))

theorem rp_shift_headerMap : rp_Shift headerMap := by
  unfold headerMap
  refine rp_shift_bind (rp_shift_ofType 5) (fun n => rp_shift_loop (fun _ => ?_) n ())
  exact rp_shift_bind rp_shift_byteStringX (fun _ => rp_shift_bind rp_shift_byteStringX (fun _ => rp_shift_pure ()))

theorem rp_shift_response : rp_Shift response := by
  unfold response
  refine rp_shift_bind (rp_shift_readN 1) (fun _ => rp_shift_bind (rp_shift_bytesOfType 2) (fun hdr => ?_))
  exact rp_shift_bind (rp_shift_onSlice hdr rp_shift_headerMap) (fun _ =>
    rp_shift_bind (rp_shift_bytesOfType 2) (fun _ => rp_shift_pure ()))

/-- 5f. if one `loadResponse` of the range `(off, len)` costs `d` (from zero cost), an index that lists this range `k`
    times makes the response loop spend exactly `k` times `d` plus `k` steps: the same bytes are copied again for
    every entry.  This is why `bundleRead_linear_of_disjoint` needs its hypothesis. -/
theorem responsesCost_replicate (resp : Bytes) (off len : Nat) (r : Bytes) (d : Cost)
    (h : response ((resp.drop off).take len) {} = (some ((), r), d)) :
    ∀ (k : Nat) (c : Cost), responsesCost resp (List.replicate k (off, len)) c =
      (some (), { alloc := c.alloc + k * d.alloc, steps := c.steps + k * (d.steps + 1) }) := by
  intro k
  induction k with
  | zero =>
    intro c
    rw [List.replicate_zero, responsesCost]
    simp
  | succ k ih =>
    intro c
    rw [List.replicate_succ, responsesCost]
    have hc : ({ c with steps := c.steps + 1 } : Cost) = rp_addC { alloc := c.alloc, steps := c.steps + 1 } {} := by
      simp only [rp_addC]; rfl
    rw [hc, rp_shift_response _ _ _, h]
    simp only []
    rw [ih]
    simp only [rp_addC, Nat.succ_mul, Prod.mk.injEq, Cost.mk.injEq, true_and]
    constructor <;> omega

/-- consequence for the combined measure -/
theorem responsesCost_replicate_m (resp : Bytes) (off len : Nat) (r : Bytes) (d : Cost)
    (h : response ((resp.drop off).take len) {} = (some ((), r), d)) (k : Nat) (c : Cost) :
    (responsesCost resp (List.replicate k (off, len)) c).2.m = c.m + k * (d.m + 1) := by
  rw [responsesCost_replicate resp off len r d h k c]
  simp only [Cost.m, Nat.mul_add, Nat.mul_one]
  omega

/-! ### 6. non-vacuity: the skeletons run, succeed on well-formed input, and the constants are of the right size -/

/-- a chain of one augmented certificate `{"": h'07'}` -/
example : RM.run certChain [0x82, 0x60, 0xa1, 0x60, 0x41, 0x07] = (some (), { alloc := 8, steps := 11 }) := by
  decide +kernel

/-- an array header declaring 2^64-1 certificates on a 10-byte input: refused after 16 units -/
example : RM.run certChain [0x9b, 0xff, 0xff, 0xff, 0xff, 0xff, 0xff, 0xff, 0xff, 0x60] =
    (none, { alloc := 11, steps := 5 }) := by
  decide +kernel

/-- the additive constant of `good_sxgRead` is real: 16 bytes of input declaring a 2^24-1 byte header section make
    `ReadExchange` allocate 16 MiB before `io.ReadFull` fails -/
example : RM.run sxgRead (sxgMagicB3 ++ [0, 0, 0, 0, 0, 0xff, 0xff, 0xff]) =
    (none, { alloc := 16777231, steps := 7 }) := by
  decide +kernel

/-- a b2 bundle: section table `["index", 5, "responses", 7]`, index `{"": [0, 7]}`, one response
    (empty header map, 3-byte body) -/
def rp_b2one : Bytes := [133, 72, 240, 159, 140, 144, 240, 159, 147, 166, 68, 98, 50, 0, 0,
  0x53, 0x84, 0x65, 105, 110, 100, 101, 120, 0x05, 0x69, 114, 101, 115, 112, 111, 110, 115, 101, 115, 0x07,
  0x82,
  0xa1, 0x60, 0x82, 0x00, 0x07,
  0x82, 0x41, 0xa0, 0x43, 1, 2, 3]

/-- the same bundle with an index that lists the one response under three URLs -/
def rp_b2three : Bytes := [133, 72, 240, 159, 140, 144, 240, 159, 147, 166, 68, 98, 50, 0, 0,
  0x53, 0x84, 0x65, 105, 110, 100, 101, 120, 0x10, 0x69, 114, 101, 115, 112, 111, 110, 115, 101, 115, 0x07,
  0x82,
  0xa3, 0x61, 0x61, 0x82, 0x00, 0x07, 0x61, 0x62, 0x82, 0x00, 0x07, 0x61, 0x63, 0x82, 0x00, 0x07,
  0x82, 0x41, 0xa0, 0x43, 1, 2, 3]

example : bundleRead rp_b2one = (some (), { alloc := 712, steps := 27 }, [(0, 7)]) := by decide +kernel

/-- 11 more input bytes, but 63 more allocated bytes: the response is loaded once per index entry -/
example : bundleRead rp_b2three = (some (), { alloc := 775, steps := 53 }, [(0, 7), (0, 7), (0, 7)]) := by
  decide +kernel

example : Disjoint (bundleRead rp_b2one).2.2 ∧ ¬ Disjoint (bundleRead rp_b2three).2.2 := by
  have h1 : (bundleRead rp_b2one).2.2 = [(0, 7)] := by decide +kernel
  have h3 : (bundleRead rp_b2three).2.2 = [(0, 7), (0, 7), (0, 7)] := by decide +kernel
  rw [h1, h3]
  refine ⟨⟨fun f hf => (nomatch hf), True.intro⟩, fun h => ?_⟩
  have := h.1 (0, 7) (List.mem_cons_self ..)
  omega

/-- instance of `responsesCost_replicate`: `k` index entries for the same 7 bytes cost `12 k` bytes and `7 k` steps -/
example (k : Nat) : responsesCost [0x82, 0x41, 0xa0, 0x43, 1, 2, 3] (List.replicate k (0, 7)) {} =
    (some (), { alloc := 0 + k * 12, steps := 0 + k * (6 + 1) }) :=
  responsesCost_replicate [0x82, 0x41, 0xa0, 0x43, 1, 2, 3] 0 7 [] { alloc := 12, steps := 6 } (by decide +kernel) k {}

end WebPkg.Res
