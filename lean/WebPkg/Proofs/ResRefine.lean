import WebPkg.Proofs.ResParsers
import WebPkg.Proofs.BundleSafe
import WebPkg.Model.CertChain
import WebPkg.Model.Sxg
import WebPkg.Model.BSig
import WebPkg.Model.Mice
/-
  Refinement between the full parser models (Model/*.lean) and their cost skeletons (Model/ResParsers.lean):
  **whenever the full model accepts an input, the skeleton accepts it too** (for the CBOR entry points: iff).
  So the accept class of the skeleton contains the accept class of the full model, and the linear cost bounds of
  Proofs/ResParsers.lean are bounds for every input the modelled Go function accepts.
-/
namespace WebPkg.Res
open WebPkg.Cbor
open RM (head ofType bytesOfType byteString textString readN beUint readAll loop onSlice charge guard fail)

variable {α β : Type}

/-! ### 0. vocabulary: "the parser succeeds with this value and this rest, from every starting cost" -/

/-- `p` run on `bs` yields `a` and leaves `rest`, whatever has been spent before -/
def rr_Succ (p : RM α) (bs : Bytes) (a : α) (rest : Bytes) : Prop := ∀ c, ∃ c', p bs c = (some (a, rest), c')

theorem rr_eq_of_fst {x : Option (α × Bytes) × Cost} {o : Option (α × Bytes)} (h : x.1 = o) : x = (o, x.2) := by
  cases x with | mk a b =>
  cases h
  rfl

theorem rr_succ_of_fst {p : RM α} {bs : Bytes} {a : α} {rest : Bytes}
    (h : ∀ c, (p bs c).1 = some (a, rest)) : rr_Succ p bs a rest := by
  intro c
  exact ⟨(p bs c).2, rr_eq_of_fst (h c)⟩

theorem rr_succ_pure (a : α) (bs : Bytes) : rr_Succ (RM.pure a) bs a bs := fun c => ⟨c, rfl⟩

theorem rr_succ_pure' (a : α) (bs : Bytes) : rr_Succ (pure a : RM α) bs a bs := fun c => ⟨c, rfl⟩

theorem rr_succ_charge (x y : Nat) (bs : Bytes) : rr_Succ (charge x y) bs () bs := fun _ => ⟨_, rfl⟩

theorem rr_succ_guard {b : Bool} (h : b = true) (bs : Bytes) : rr_Succ (guard b) bs () bs := by
  subst h
  exact fun c => ⟨c, rfl⟩

theorem rr_succ_bind {p : RM α} {f : α → RM β} {bs r1 r2 : Bytes} {a : α} {b : β}
    (hp : rr_Succ p bs a r1) (hf : rr_Succ (f a) r1 b r2) : rr_Succ (RM.bind p f) bs b r2 := by
  intro c
  obtain ⟨c1, e1⟩ := hp c
  obtain ⟨c2, e2⟩ := hf c1
  exact ⟨c2, by rw [RM.bind_some_eq e1, e2]⟩

/-- `do let _ ← p` -/
theorem rr_succ_discard {p : RM α} {bs r1 : Bytes} {a : α} (hp : rr_Succ p bs a r1) :
    rr_Succ (RM.bind p (fun _ => (pure () : RM Unit))) bs () r1 :=
  rr_succ_bind hp (rr_succ_pure' () r1)

theorem rr_succ_onSlice {p : RM α} {sub r : Bytes} {a : α} (hp : rr_Succ p sub a r) (bs : Bytes) :
    rr_Succ (onSlice sub p) bs a bs := by
  intro c
  obtain ⟨c1, e1⟩ := hp c
  exact ⟨c1, by unfold RM.onSlice; rw [e1]⟩

theorem rr_succ_readN {n : Nat} {bs : Bytes} (h : n ≤ bs.length) : rr_Succ (readN n) bs (bs.take n) (bs.drop n) := by
  intro c
  unfold RM.readN
  simp only []
  rw [if_neg (by omega)]
  exact ⟨_, rfl⟩

theorem rr_succ_beUint {k : Nat} {bs : Bytes} (h : k ≤ bs.length) :
    rr_Succ (beUint k) bs (beVal (bs.take k)) (bs.drop k) := by
  rw [RM.beUint_eq]
  exact rr_succ_bind (rr_succ_readN h) (rr_succ_pure _ _)

theorem rr_succ_readAll (bs : Bytes) : rr_Succ readAll bs bs [] := fun _ => ⟨_, rfl⟩

theorem rr_succ_loop_zero (body : α → RM α) (a : α) (bs : Bytes) : rr_Succ (loop body 0 a) bs a bs :=
  rr_succ_pure a bs

theorem rr_succ_loop_succ {body : α → RM α} {n : Nat} {a a' a'' : α} {bs r1 r2 : Bytes}
    (hb : rr_Succ (body a) bs a' r1) (hl : rr_Succ (loop body n a') r1 a'' r2) :
    rr_Succ (loop body (n + 1) a) bs a'' r2 := by
  rw [RM.loop_succ]
  exact rr_succ_bind (rr_succ_charge 0 1 bs) (rr_succ_bind hb hl)

theorem rr_run_of_succ {p : RM α} {bs rest : Bytes} {a : α} (h : rr_Succ p bs a rest) :
    (RM.run p bs).1 = some a := by
  obtain ⟨c', e⟩ := h {}
  unfold RM.run
  rw [e]

/-- the result component of `run` -/
theorem rr_run_fst (p : RM α) (bs : Bytes) : (RM.run p bs).1 = ((p bs {}).1).map (·.1) := by
  unfold RM.run
  cases e : p bs {} with | mk o c =>
  cases o with
  | none => rfl
  | some ar => rfl

/-- the result component of `do let _ ← p` -/
theorem rr_discard_fst (p : RM α) (bs : Bytes) (c : Cost) :
    (RM.bind p (fun _ => (pure () : RM Unit)) bs c).1 = ((p bs c).1).map (fun x => ((), x.2)) := by
  cases e : p bs c with | mk o c1 =>
  cases o with
  | none => rw [RM.bind_none_eq e]; rfl
  | some ar =>
    obtain ⟨a, r⟩ := ar
    rw [RM.bind_some_eq e]
    rfl

/-! ### 1. CBOR primitives: the result component of the RM primitive *is* the Option-valued decoder -/

theorem rr_head (bs : Bytes) (c : Cost) :
    (RM.head bs c).1 = (decodeHead bs).map (fun x => ((x.1, x.2.1), x.2.2)) := by
  cases bs with
  | nil => rfl
  | cons b r =>
    unfold RM.head decodeHead
    simp only []
    cases decodeArg (b.toNat / 32) (b.toNat % 32) r with
    | none => rfl
    | some t => rfl

/-- `rr_head` as an equivalence -/
theorem rr_head_iff (bs : Bytes) (c : Cost) (mt n : Nat) (rest : Bytes) :
    (∃ c', RM.head bs c = (some ((mt, n), rest), c')) ↔ decodeHead bs = some (mt, n, rest) := by
  have h := rr_head bs c
  constructor
  · intro ⟨c', e⟩
    rw [e] at h
    cases hd : decodeHead bs with
    | none => rw [hd] at h; cases h
    | some t =>
      rw [hd] at h
      simp only [Option.map_some, Option.some.injEq, Prod.mk.injEq] at h
      obtain ⟨⟨h1, h2⟩, h3⟩ := h
      obtain ⟨a, b, r⟩ := t
      simp only [] at h1 h2 h3
      rw [h1, h2, h3]
  · intro hd
    rw [hd] at h
    exact ⟨(RM.head bs c).2, rr_eq_of_fst h⟩

theorem rr_ofType (t : Nat) (bs : Bytes) (c : Cost) : (ofType t bs c).1 = decodeOfType t bs := by
  have h := rr_head bs c
  rw [RM.ofType_eq]
  unfold decodeOfType
  cases hd : decodeHead bs with
  | none =>
    rw [hd] at h
    have e : RM.head bs c = (none, (RM.head bs c).2) := rr_eq_of_fst h
    rw [RM.bind_none_eq e]
  | some x =>
    obtain ⟨mt, n, r⟩ := x
    rw [hd] at h
    have e : RM.head bs c = (some ((mt, n), r), (RM.head bs c).2) := rr_eq_of_fst h
    rw [RM.bind_some_eq e]
    simp only []
    by_cases hm : mt = t
    · rw [if_pos hm]
      have hb : (mt == t) = true := by rw [hm]; exact beq_self_eq_true t
      rw [hb]
      rfl
    · rw [if_neg hm]
      have hb : (mt == t) = false := by
        cases hbb : (mt == t) with
        | false => rfl
        | true => exact absurd (beq_iff_eq.mp hbb) hm
      rw [hb]
      rfl

theorem rr_copyN (n : Nat) (bs : Bytes) (c : Cost) :
    (copyN n bs c).1 = if bs.length < n then none else some (bs.take n, bs.drop n) := by
  unfold copyN
  simp only []
  by_cases h : bs.length < n
  · rw [if_pos h, if_pos h]
  · rw [if_neg h, if_neg h]

theorem rr_bytesOfType (t : Nat) (bs : Bytes) (c : Cost) : (bytesOfType t bs c).1 = decodeBytesOfType t bs := by
  have h := rr_ofType t bs c
  rw [RM.bytesOfType_eq]
  unfold decodeBytesOfType
  cases hd : decodeOfType t bs with
  | none =>
    rw [hd] at h
    have e : ofType t bs c = (none, (ofType t bs c).2) := rr_eq_of_fst h
    rw [RM.bind_none_eq e]
  | some x =>
    obtain ⟨n, r⟩ := x
    rw [hd] at h
    have e : ofType t bs c = (some (n, r), (ofType t bs c).2) := rr_eq_of_fst h
    rw [RM.bind_some_eq e]
    simp only []
    by_cases hn : 2 ^ 63 ≤ n
    · rw [if_pos hn]
      have hb : decide (n < 2 ^ 63) = false := decide_eq_false (by omega)
      rw [hb]
      rfl
    · rw [if_neg hn]
      have hb : decide (n < 2 ^ 63) = true := decide_eq_true (by omega)
      rw [hb]
      show (copyN n r _).1 = _
      rw [rr_copyN]

theorem rr_byteString (bs : Bytes) (c : Cost) : (byteString bs c).1 = decodeByteString bs := rr_bytesOfType 2 bs c

theorem rr_textString (bs : Bytes) (c : Cost) : (textString bs c).1 = decodeTextString bs := by
  have h := rr_bytesOfType 3 bs c
  rw [RM.textString_eq]
  unfold decodeTextString
  cases hd : decodeBytesOfType 3 bs with
  | none =>
    rw [hd] at h
    have e : bytesOfType 3 bs c = (none, (bytesOfType 3 bs c).2) := rr_eq_of_fst h
    rw [RM.bind_none_eq e]
  | some x =>
    obtain ⟨s, r⟩ := x
    rw [hd] at h
    have e : bytesOfType 3 bs c = (some (s, r), (bytesOfType 3 bs c).2) := rr_eq_of_fst h
    rw [RM.bind_some_eq e]
    simp only []
    cases hu : utf8Valid s with
    | false => rfl
    | true => rfl

/-- `byteString` followed by a `charge`: same result -/
theorem rr_byteStringX (bs : Bytes) (c : Cost) : (byteStringX bs c).1 = decodeByteString bs := by
  have h := rr_byteString bs c
  unfold byteStringX
  cases hd : decodeByteString bs with
  | none =>
    rw [hd] at h
    have e : byteString bs c = (none, (byteString bs c).2) := rr_eq_of_fst h
    show (RM.bind byteString _ bs c).1 = none
    rw [RM.bind_none_eq e]
  | some x =>
    obtain ⟨s, r⟩ := x
    rw [hd] at h
    have e : byteString bs c = (some (s, r), (byteString bs c).2) := rr_eq_of_fst h
    show (RM.bind byteString _ bs c).1 = _
    rw [RM.bind_some_eq e]
    rfl

/-! #### `rr_Succ` forms -/

theorem rr_succ_ofType {t : Nat} {bs rest : Bytes} {n : Nat} (h : decodeOfType t bs = some (n, rest)) :
    rr_Succ (ofType t) bs n rest := rr_succ_of_fst (fun c => by rw [rr_ofType, h])

theorem rr_succ_uint {bs rest : Bytes} {n : Nat} (h : decodeUint bs = some (n, rest)) :
    rr_Succ (ofType 0) bs n rest := rr_succ_ofType h

theorem rr_succ_arrayHeader {bs rest : Bytes} {n : Nat} (h : decodeArrayHeader bs = some (n, rest)) :
    rr_Succ (ofType 4) bs n rest := rr_succ_ofType h

theorem rr_succ_mapHeader {bs rest : Bytes} {n : Nat} (h : decodeMapHeader bs = some (n, rest)) :
    rr_Succ (ofType 5) bs n rest := rr_succ_ofType h

theorem rr_succ_byteString {bs rest s : Bytes} (h : decodeByteString bs = some (s, rest)) :
    rr_Succ byteString bs s rest := rr_succ_of_fst (fun c => by rw [rr_byteString, h])

theorem rr_succ_byteStringX {bs rest s : Bytes} (h : decodeByteString bs = some (s, rest)) :
    rr_Succ byteStringX bs s rest := rr_succ_of_fst (fun c => by rw [rr_byteStringX, h])

theorem rr_succ_textString {bs rest s : Bytes} (h : decodeTextString bs = some (s, rest)) :
    rr_Succ textString bs s rest := rr_succ_of_fst (fun c => by rw [rr_textString, h])

/-! #### the five `go/internal/cbor` entry points: exact agreement of the accept class -/

theorem rr_cbor_uint (bs : Bytes) : (RM.run (cborEntry .uint) bs).1.isSome = (Cbor.decodeUint bs).isSome := by
  rw [rr_run_fst]
  show ((RM.bind (ofType 0) (fun _ => (pure () : RM Unit)) bs {}).1.map (·.1)).isSome = _
  rw [rr_discard_fst, rr_ofType]
  unfold decodeUint
  cases decodeOfType 0 bs <;> rfl

theorem rr_cbor_arrayHeader (bs : Bytes) :
    (RM.run (cborEntry .arrayHeader) bs).1.isSome = (Cbor.decodeArrayHeader bs).isSome := by
  rw [rr_run_fst]
  show ((RM.bind (ofType 4) (fun _ => (pure () : RM Unit)) bs {}).1.map (·.1)).isSome = _
  rw [rr_discard_fst, rr_ofType]
  unfold decodeArrayHeader
  cases decodeOfType 4 bs <;> rfl

theorem rr_cbor_mapHeader (bs : Bytes) :
    (RM.run (cborEntry .mapHeader) bs).1.isSome = (Cbor.decodeMapHeader bs).isSome := by
  rw [rr_run_fst]
  show ((RM.bind (ofType 5) (fun _ => (pure () : RM Unit)) bs {}).1.map (·.1)).isSome = _
  rw [rr_discard_fst, rr_ofType]
  unfold decodeMapHeader
  cases decodeOfType 5 bs <;> rfl

theorem rr_cbor_bytes (bs : Bytes) :
    (RM.run (cborEntry .bytes) bs).1.isSome = (Cbor.decodeByteString bs).isSome := by
  rw [rr_run_fst]
  show ((RM.bind byteString (fun _ => (pure () : RM Unit)) bs {}).1.map (·.1)).isSome = _
  rw [rr_discard_fst, rr_byteString]
  cases decodeByteString bs <;> rfl

theorem rr_cbor_text (bs : Bytes) :
    (RM.run (cborEntry .text) bs).1.isSome = (Cbor.decodeTextString bs).isSome := by
  rw [rr_run_fst]
  show ((RM.bind textString (fun _ => (pure () : RM Unit)) bs {}).1.map (·.1)).isSome = _
  rw [rr_discard_fst, rr_textString]
  cases decodeTextString bs <;> rfl

/-! ### 2. certurl.ReadCertChain -/

/-- the loop body of `augCert` -/
def rr_entryBody : Unit → RM Unit := fun _ => do let _ ← textString; let _ ← byteStringX

theorem rr_augCert_eq : augCert = RM.bind (ofType 5) (fun m => loop rr_entryBody m ()) := rfl

theorem rr_succ_entryBody {bs bs1 bs2 key value : Bytes} (h1 : decodeTextString bs = some (key, bs1))
    (h2 : decodeByteString bs1 = some (value, bs2)) : rr_Succ (rr_entryBody ()) bs () bs2 :=
  rr_succ_bind (rr_succ_textString h1) (rr_succ_discard (rr_succ_byteStringX h2))

/-- entry loop of `DecodeAugmentedCertificateFrom`: the skeleton loop succeeds with the same rest -/
theorem rr_decodeEntries (parseOk : Bytes → Bool) : ∀ (m : Nat) (bs : Bytes)
    (acc acc' : Option Bytes × Option Bytes × Option Bytes) (rest : Bytes),
    CertChain.decodeEntries parseOk m bs acc = some (acc', rest) → rr_Succ (loop rr_entryBody m ()) bs () rest := by
  intro m
  induction m with
  | zero =>
    intro bs acc acc' rest h
    rw [CertChain.decodeEntries] at h
    simp only [Option.some.injEq, Prod.mk.injEq] at h
    obtain ⟨_, rfl⟩ := h
    exact rr_succ_loop_zero _ _ _
  | succ n ih =>
    intro bs acc acc' rest h
    rw [CertChain.decodeEntries] at h
    cases h1 : decodeTextString bs with
    | none => rw [h1] at h; cases h
    | some p =>
      obtain ⟨key, bs1⟩ := p
      rw [h1] at h
      simp only [] at h
      cases h2 : decodeByteString bs1 with
      | none => rw [h2] at h; cases h
      | some q =>
        obtain ⟨value, bs2⟩ := q
        rw [h2] at h
        simp only [] at h
        have hrec : ∃ accX, CertChain.decodeEntries parseOk n bs2 accX = some (acc', rest) := by
          by_cases k1 : key = CertChain.kCert
          · rw [if_pos k1] at h
            by_cases k2 : parseOk value = true
            · rw [if_pos k2] at h; exact ⟨_, h⟩
            · rw [if_neg k2] at h; cases h
          · rw [if_neg k1] at h
            by_cases k2 : key = CertChain.kOcsp
            · rw [if_pos k2] at h; exact ⟨_, h⟩
            · rw [if_neg k2] at h
              by_cases k3 : key = CertChain.kSct
              · rw [if_pos k3] at h; exact ⟨_, h⟩
              · rw [if_neg k3] at h; exact ⟨_, h⟩
        obtain ⟨accX, hX⟩ := hrec
        exact rr_succ_loop_succ (rr_succ_entryBody h1 h2) (ih _ _ _ _ hX)

theorem rr_decodeAugCert (parseOk : Bytes → Bool) {bs rest : Bytes} {a : CertChain.AugCert}
    (h : CertChain.decodeAugCert parseOk bs = some (a, rest)) : rr_Succ augCert bs () rest := by
  unfold CertChain.decodeAugCert at h
  cases h1 : decodeMapHeader bs with
  | none => rw [h1] at h; cases h
  | some p =>
    obtain ⟨m, bs1⟩ := p
    rw [h1] at h
    simp only [] at h
    cases h2 : CertChain.decodeEntries parseOk m bs1 (none, none, none) with
    | none => rw [h2] at h; cases h
    | some q =>
      obtain ⟨⟨c, o, s⟩, r⟩ := q
      rw [h2] at h
      have hr : r = rest := by
        cases c with
        | none => cases h
        | some c =>
          simp only [Option.some.injEq, Prod.mk.injEq] at h
          exact h.2
      subst hr
      rw [rr_augCert_eq]
      exact rr_succ_bind (rr_succ_mapHeader h1) (rr_decodeEntries parseOk _ _ _ _ _ h2)

theorem rr_decodeCerts (parseOk : Bytes → Bool) : ∀ (n : Nat) (bs : Bytes) (acc acc' : List CertChain.AugCert)
    (rest : Bytes), CertChain.decodeCerts parseOk n bs acc = some (acc', rest) →
    rr_Succ (loop (fun _ => augCert) n ()) bs () rest := by
  intro n
  induction n with
  | zero =>
    intro bs acc acc' rest h
    rw [CertChain.decodeCerts] at h
    simp only [Option.some.injEq, Prod.mk.injEq] at h
    obtain ⟨_, rfl⟩ := h
    exact rr_succ_loop_zero _ _ _
  | succ n ih =>
    intro bs acc acc' rest h
    rw [CertChain.decodeCerts] at h
    cases h1 : CertChain.decodeAugCert parseOk bs with
    | none => rw [h1] at h; cases h
    | some p =>
      obtain ⟨a, r1⟩ := p
      rw [h1] at h
      simp only [] at h
      exact rr_succ_loop_succ (rr_decodeAugCert parseOk h1) (ih _ _ _ _ h)

theorem rr_certChain_succ (parseOk : Bytes → Bool) (bs : Bytes) (chain : List CertChain.AugCert)
    (h : CertChain.read parseOk bs = some chain) : ∃ rest, rr_Succ certChain bs () rest := by
  unfold CertChain.read at h
  cases h1 : decodeArrayHeader bs with
  | none => rw [h1] at h; cases h
  | some p =>
    obtain ⟨n, bs1⟩ := p
    rw [h1] at h
    simp only [] at h
    by_cases hn : n < 2
    · rw [if_pos hn] at h; cases h
    · rw [if_neg hn] at h
      cases h2 : decodeTextString bs1 with
      | none => rw [h2] at h; cases h
      | some q =>
        obtain ⟨m, bs2⟩ := q
        rw [h2] at h
        simp only [] at h
        by_cases hm : m ≠ CertChain.magic
        · rw [if_pos hm] at h; cases h
        · rw [if_neg hm] at h
          cases h3 : CertChain.decodeCerts parseOk (n - 1) bs2 [] with
          | none => rw [h3] at h; cases h
          | some r =>
            obtain ⟨chain', rest⟩ := r
            refine ⟨rest, ?_⟩
            unfold certChain
            exact rr_succ_bind (rr_succ_arrayHeader h1)
              (rr_succ_bind (rr_succ_textString h2) (rr_decodeCerts parseOk _ _ _ _ _ h3))

/-- whenever `ReadCertChain` accepts, so does its cost skeleton -/
theorem rr_certChain (parseOk : Bytes → Bool) (bs : Bytes) :
    (CertChain.read parseOk bs).isSome = true → (RM.run certChain bs).1 = some () := by
  intro h
  cases hc : CertChain.read parseOk bs with
  | none => rw [hc] at h; cases h
  | some chain =>
    obtain ⟨rest, hs⟩ := rr_certChain_succ parseOk bs chain hc
    exact rr_run_of_succ hs

/-! ### 3. bundle/signature: decodeSignedSubset -/

def rr_pairBody : Unit → RM Unit := fun _ => do let _ ← byteString; let _ ← textString

theorem rr_hashPairs_eq (k : Nat) : hashPairs k = loop rr_pairBody k () := rfl

theorem rr_decodeHashPairs : ∀ (k : Nat) (bs : Bytes) (acc acc' : List BSig.ResourceIntegrity) (rest : Bytes),
    BSig.decodeHashPairs k bs acc = some (acc', rest) → rr_Succ (hashPairs k) bs () rest := by
  intro k
  induction k with
  | zero =>
    intro bs acc acc' rest h
    rw [BSig.decodeHashPairs] at h
    simp only [Option.some.injEq, Prod.mk.injEq] at h
    obtain ⟨_, rfl⟩ := h
    exact rr_succ_loop_zero _ _ _
  | succ n ih =>
    intro bs acc acc' rest h
    rw [BSig.decodeHashPairs] at h
    cases h1 : decodeByteString bs with
    | none => rw [h1] at h; cases h
    | some p =>
      obtain ⟨hh, bs1⟩ := p
      rw [h1] at h
      simp only [] at h
      cases h2 : decodeTextString bs1 with
      | none => rw [h2] at h; cases h
      | some q =>
        obtain ⟨pp, bs2⟩ := q
        rw [h2] at h
        simp only [] at h
        rw [rr_hashPairs_eq]
        refine rr_succ_loop_succ (a' := ()) ?_ (ih _ _ _ _ h)
        exact rr_succ_bind (rr_succ_byteString h1) (rr_succ_discard (rr_succ_textString h2))

def rr_subsetEntryBody : Unit → RM Unit := fun _ => do
  let _ ← textString
  let m ← ofType 4
  let _ ← byteString
  hashPairs ((m - 1) / 2)

theorem rr_subsetEntries_eq (n : Nat) : subsetEntries n = loop rr_subsetEntryBody n () := rfl

theorem rr_decodeSubsetEntries : ∀ (n : Nat) (bs : Bytes) (acc acc' : List (Bytes × BSig.ResponseHashes))
    (rest : Bytes), BSig.decodeSubsetEntries n bs acc = some (acc', rest) → rr_Succ (subsetEntries n) bs () rest := by
  intro n
  induction n with
  | zero =>
    intro bs acc acc' rest h
    rw [BSig.decodeSubsetEntries] at h
    simp only [Option.some.injEq, Prod.mk.injEq] at h
    obtain ⟨_, rfl⟩ := h
    exact rr_succ_loop_zero _ _ _
  | succ n ih =>
    intro bs acc acc' rest h
    rw [BSig.decodeSubsetEntries] at h
    cases h1 : decodeTextString bs with
    | none => rw [h1] at h; cases h
    | some p =>
      obtain ⟨u, bs1⟩ := p
      rw [h1] at h
      simp only [] at h
      cases h2 : decodeArrayHeader bs1 with
      | none => rw [h2] at h; cases h
      | some q =>
        obtain ⟨m, bs2⟩ := q
        rw [h2] at h
        simp only [] at h
        by_cases hm : m < 3 ∨ m % 2 ≠ 1
        · rw [if_pos hm] at h; cases h
        · rw [if_neg hm] at h
          cases h3 : decodeByteString bs2 with
          | none => rw [h3] at h; cases h
          | some r =>
            obtain ⟨vv, bs3⟩ := r
            rw [h3] at h
            simp only [] at h
            cases h4 : BSig.decodeHashPairs ((m - 1) / 2) bs3 [] with
            | none => rw [h4] at h; cases h
            | some t =>
              obtain ⟨hs, bs4⟩ := t
              rw [h4] at h
              simp only [] at h
              rw [rr_subsetEntries_eq]
              refine rr_succ_loop_succ (a' := ()) ?_ (ih _ _ _ _ h)
              exact rr_succ_bind (rr_succ_textString h1) (rr_succ_bind (rr_succ_arrayHeader h2)
                (rr_succ_bind (rr_succ_byteString h3) (rr_decodeHashPairs _ _ _ _ _ h4)))

def rr_fieldBody : Unit → RM Unit := fun _ => do
  let label ← textString
  if label = BSig.kValidityUrl then do let _ ← textString
  else if label = BSig.kAuthSha256 then do let _ ← byteString
  else if label = BSig.kDate then do let _ ← ofType 0
  else if label = BSig.kExpires then do let _ ← ofType 0
  else if label = BSig.kSubsetHashes then do let m ← ofType 5; subsetEntries m
  else fail

theorem rr_subsetFields_eq (n : Nat) : subsetFields n = loop rr_fieldBody n () := rfl

/-- what follows the label -/
def rr_fieldTail (label : Bytes) : RM Unit :=
  if label = BSig.kValidityUrl then do let _ ← textString
  else if label = BSig.kAuthSha256 then do let _ ← byteString
  else if label = BSig.kDate then do let _ ← ofType 0
  else if label = BSig.kExpires then do let _ ← ofType 0
  else if label = BSig.kSubsetHashes then do let m ← ofType 5; subsetEntries m
  else fail

theorem rr_fieldBody_eq : rr_fieldBody () = RM.bind textString rr_fieldTail := rfl

theorem rr_decodeSubsetFields (urlOk : Bytes → Bool) : ∀ (n : Nat) (bs : Bytes) (acc acc' : BSig.PartialSubset),
    BSig.decodeSubsetFields urlOk n bs acc = some acc' → ∃ rest, rr_Succ (subsetFields n) bs () rest := by
  intro n
  induction n with
  | zero =>
    intro bs acc acc' h
    exact ⟨bs, rr_succ_loop_zero _ _ _⟩
  | succ n ih =>
    intro bs acc acc' h
    rw [BSig.decodeSubsetFields] at h
    cases h1 : decodeTextString bs with
    | none => rw [h1] at h; cases h
    | some p =>
      obtain ⟨label, bs1⟩ := p
      rw [h1] at h
      simp only [] at h
      -- the value is decoded by the skeleton too, and the remaining fields are decoded from the same rest
      have key : ∃ bs2 accX, rr_Succ (rr_fieldTail label) bs1 () bs2 ∧
          BSig.decodeSubsetFields urlOk n bs2 accX = some acc' := by
        unfold rr_fieldTail
        by_cases k1 : label = BSig.kValidityUrl
        · rw [if_pos k1] at h ⊢
          cases h2 : decodeTextString bs1 with
          | none => rw [h2] at h; cases h
          | some q =>
            obtain ⟨u, bs2⟩ := q
            rw [h2] at h
            simp only [] at h
            by_cases hu : urlOk u = true
            · rw [if_pos hu] at h
              exact ⟨bs2, _, rr_succ_discard (rr_succ_textString h2), h⟩
            · rw [if_neg hu] at h; cases h
        · rw [if_neg k1] at h ⊢
          by_cases k2 : label = BSig.kAuthSha256
          · rw [if_pos k2] at h ⊢
            cases h2 : decodeByteString bs1 with
            | none => rw [h2] at h; cases h
            | some q =>
              obtain ⟨u, bs2⟩ := q
              rw [h2] at h
              exact ⟨bs2, _, rr_succ_discard (rr_succ_byteString h2), h⟩
          · rw [if_neg k2] at h ⊢
            by_cases k3 : label = BSig.kDate
            · rw [if_pos k3] at h ⊢
              cases h2 : decodeUint bs1 with
              | none => rw [h2] at h; cases h
              | some q =>
                obtain ⟨u, bs2⟩ := q
                rw [h2] at h
                exact ⟨bs2, _, rr_succ_discard (rr_succ_uint h2), h⟩
            · rw [if_neg k3] at h ⊢
              by_cases k4 : label = BSig.kExpires
              · rw [if_pos k4] at h ⊢
                cases h2 : decodeUint bs1 with
                | none => rw [h2] at h; cases h
                | some q =>
                  obtain ⟨u, bs2⟩ := q
                  rw [h2] at h
                  exact ⟨bs2, _, rr_succ_discard (rr_succ_uint h2), h⟩
              · rw [if_neg k4] at h ⊢
                by_cases k5 : label = BSig.kSubsetHashes
                · rw [if_pos k5] at h ⊢
                  cases h2 : decodeMapHeader bs1 with
                  | none => rw [h2] at h; cases h
                  | some q =>
                    obtain ⟨m, bs2⟩ := q
                    rw [h2] at h
                    simp only [] at h
                    cases h3 : BSig.decodeSubsetEntries m bs2 [] with
                    | none => rw [h3] at h; cases h
                    | some r =>
                      obtain ⟨hs, bs3⟩ := r
                      rw [h3] at h
                      exact ⟨bs3, _, rr_succ_bind (rr_succ_mapHeader h2) (rr_decodeSubsetEntries _ _ _ _ _ h3), h⟩
                · rw [if_neg k5] at h; cases h
      obtain ⟨bs2, accX, hs, hrec⟩ := key
      obtain ⟨rest, hl⟩ := ih _ _ _ hrec
      refine ⟨rest, ?_⟩
      rw [rr_subsetFields_eq] at hl ⊢
      refine rr_succ_loop_succ (a' := ()) ?_ hl
      rw [rr_fieldBody_eq]
      exact rr_succ_bind (rr_succ_textString h1) hs

theorem rr_signedSubset_succ (urlOk : Bytes → Bool) (bs : Bytes) (ss : BSig.SignedSubset)
    (h : BSig.decodeSignedSubset urlOk bs = some ss) : ∃ rest, rr_Succ signedSubset bs () rest := by
  unfold BSig.decodeSignedSubset at h
  cases h1 : decodeMapHeader bs with
  | none => rw [h1] at h; cases h
  | some p =>
    obtain ⟨n, bs1⟩ := p
    rw [h1] at h
    simp only [] at h
    cases h2 : BSig.decodeSubsetFields urlOk n bs1
        { validityUrl := none, authSha256 := none, date := none, expires := none, subsetHashes := none } with
    | none => rw [h2] at h; cases h
    | some ps =>
      obtain ⟨rest, hs⟩ := rr_decodeSubsetFields urlOk _ _ _ _ h2
      exact ⟨rest, rr_succ_bind (rr_succ_mapHeader h1) hs⟩

/-- whenever `decodeSignedSubset` accepts, so does its cost skeleton -/
theorem rr_signedSubset (urlOk : Bytes → Bool) (bs : Bytes) (ss : BSig.SignedSubset) :
    BSig.decodeSignedSubset urlOk bs = some ss → (RM.run signedSubset bs).1 = some () := by
  intro h
  obtain ⟨rest, hs⟩ := rr_signedSubset_succ urlOk bs ss h
  exact rr_run_of_succ hs

/-! ### 4. signedexchange.ReadExchange -/

def rr_xxBody : Unit → RM Unit := fun _ => do let _ ← byteStringX; let _ ← byteStringX

theorem rr_headerMap_eq : headerMap = RM.bind (ofType 5) (fun n => loop rr_xxBody n ()) := rfl

theorem rr_succ_xxBody {bs bs1 bs2 key value : Bytes} (h1 : decodeByteString bs = some (key, bs1))
    (h2 : decodeByteString bs1 = some (value, bs2)) : rr_Succ (rr_xxBody ()) bs () bs2 :=
  rr_succ_bind (rr_succ_byteStringX h1) (rr_succ_discard (rr_succ_byteStringX h2))

theorem rr_res_bind_ok {γ δ : Type} {x : WebPkg.Res γ} {f : γ → WebPkg.Res δ} {b : δ} (h : (x >>= f) = .ok b) :
    ∃ a, x = .ok a ∧ f a = .ok b := by
  cases x with
  | ok a => exact ⟨a, rfl, h⟩
  | err => cases h
  | ood => cases h

theorem rr_decodeRespEntries : ∀ (n : Nat) (bs : Bytes) (acc acc' : Int × Http.Headers) (rest : Bytes),
    Sxg.decodeRespEntries n bs acc = .ok (acc', rest) → rr_Succ (loop rr_xxBody n ()) bs () rest := by
  intro n
  induction n with
  | zero =>
    intro bs acc acc' rest h
    rw [Sxg.decodeRespEntries] at h
    simp only [WebPkg.Res.ok.injEq, Prod.mk.injEq] at h
    obtain ⟨_, rfl⟩ := h
    exact rr_succ_loop_zero _ _ _
  | succ n ih =>
    intro bs acc acc' rest h
    rw [Sxg.decodeRespEntries] at h
    cases h1 : decodeByteString bs with
    | none => rw [h1] at h; cases h
    | some p =>
      obtain ⟨key, bs1⟩ := p
      rw [h1] at h
      simp only [] at h
      by_cases ha : (!Http.isAscii key) = true
      · rw [if_pos ha] at h; cases h
      · rw [if_neg ha] at h
        by_cases hl : key ≠ Http.lowerAscii key
        · rw [if_pos hl] at h; cases h
        · rw [if_neg hl] at h
          cases h2 : decodeByteString bs1 with
          | none => rw [h2] at h; cases h
          | some q =>
            obtain ⟨value, bs2⟩ := q
            rw [h2] at h
            simp only [] at h
            have hrec : ∃ accX, Sxg.decodeRespEntries n bs2 accX = .ok (acc', rest) := by
              by_cases k1 : key = Sxg.keyStatus
              · rw [if_pos k1] at h
                cases h3 : Sxg.atoi value with
                | none => rw [h3] at h; cases h
                | some st => rw [h3] at h; exact ⟨_, h⟩
              · rw [if_neg k1] at h; exact ⟨_, h⟩
            obtain ⟨accX, hX⟩ := hrec
            exact rr_succ_loop_succ (rr_succ_xxBody h1 h2) (ih _ _ _ _ hX)

theorem rr_decodeReqEntries (url : Sxg.UrlFacts) (v : Sxg.Ver) : ∀ (n : Nat) (bs : Bytes) (acc acc' : Sxg.ReqAcc)
    (rest : Bytes), Sxg.decodeReqEntries url v n bs acc = .ok (acc', rest) →
    rr_Succ (loop rr_xxBody n ()) bs () rest := by
  intro n
  induction n with
  | zero =>
    intro bs acc acc' rest h
    rw [Sxg.decodeReqEntries] at h
    simp only [WebPkg.Res.ok.injEq, Prod.mk.injEq] at h
    obtain ⟨_, rfl⟩ := h
    exact rr_succ_loop_zero _ _ _
  | succ n ih =>
    intro bs acc acc' rest h
    rw [Sxg.decodeReqEntries] at h
    cases h1 : decodeByteString bs with
    | none => rw [h1] at h; cases h
    | some p =>
      obtain ⟨key, bs1⟩ := p
      rw [h1] at h
      simp only [] at h
      by_cases ha : (!Http.isAscii key) = true
      · rw [if_pos ha] at h; cases h
      · rw [if_neg ha] at h
        by_cases hl : key ≠ Http.lowerAscii key
        · rw [if_pos hl] at h; cases h
        · rw [if_neg hl] at h
          cases h2 : decodeByteString bs1 with
          | none => rw [h2] at h; cases h
          | some q =>
            obtain ⟨value, bs2⟩ := q
            rw [h2] at h
            simp only [] at h
            have hrec : ∃ accX, Sxg.decodeReqEntries url v n bs2 accX = .ok (acc', rest) := by
              by_cases k1 : key = Sxg.keyMethod
              · rw [if_pos k1] at h; exact ⟨_, h⟩
              · rw [if_neg k1] at h
                by_cases k2 : key = Sxg.keyURL
                · rw [if_pos k2] at h
                  by_cases k3 : v = .b1
                  · rw [if_pos k3] at h
                    by_cases k4 : Sxg.validFallback url value = true
                    · rw [if_pos k4] at h; exact ⟨_, h⟩
                    · rw [if_neg k4] at h; cases h
                  · rw [if_neg k3] at h; cases h
                · rw [if_neg k2] at h; exact ⟨_, h⟩
            obtain ⟨accX, hX⟩ := hrec
            exact rr_succ_loop_succ (rr_succ_xxBody h1 h2) (ih _ _ _ _ hX)

theorem rr_exchangeHeaders_b3 : exchangeHeaders true = headerMap := rfl
theorem rr_exchangeHeaders_nb3 :
    exchangeHeaders false = RM.bind (ofType 4) (fun _ => RM.bind headerMap (fun _ => headerMap)) := rfl

theorem rr_decodeExchangeHeaders (url : Sxg.UrlFacts) (v : Sxg.Ver) (uri0 hdr : Bytes)
    (x : Bytes × Bytes × Http.Headers × Int × Http.Headers)
    (h : Sxg.decodeExchangeHeaders url v uri0 hdr = .ok x) :
    ∃ rest, rr_Succ (exchangeHeaders (decide (v = .b3))) hdr () rest := by
  unfold Sxg.decodeExchangeHeaders at h
  by_cases hv : v = .b3
  · rw [if_pos hv] at h
    rw [decide_eq_true hv, rr_exchangeHeaders_b3, rr_headerMap_eq]
    cases h1 : decodeMapHeader hdr with
    | none => rw [h1] at h; cases h
    | some p =>
      obtain ⟨n, bs⟩ := p
      rw [h1] at h
      simp only [] at h
      obtain ⟨⟨acc', rest⟩, ha, _⟩ := rr_res_bind_ok h
      exact ⟨rest, rr_succ_bind (rr_succ_mapHeader h1) (rr_decodeRespEntries _ _ _ _ _ ha)⟩
  · rw [if_neg hv] at h
    rw [decide_eq_false hv, rr_exchangeHeaders_nb3, rr_headerMap_eq]
    cases h0 : decodeArrayHeader hdr with
    | none => rw [h0] at h; cases h
    | some p0 =>
      obtain ⟨k, bs0⟩ := p0
      rw [h0] at h
      simp only [] at h
      by_cases hk : k ≠ 2
      · rw [if_pos hk] at h; cases h
      · rw [if_neg hk] at h
        cases h1 : decodeMapHeader bs0 with
        | none => rw [h1] at h; cases h
        | some p =>
          obtain ⟨n, bs1⟩ := p
          rw [h1] at h
          simp only [] at h
          obtain ⟨⟨rq, bs2⟩, ha, hb⟩ := rr_res_bind_ok h
          simp only [] at hb
          cases h2 : decodeMapHeader bs2 with
          | none => rw [h2] at hb; cases hb
          | some q =>
            obtain ⟨m, bs3⟩ := q
            rw [h2] at hb
            simp only [] at hb
            obtain ⟨⟨acc', rest⟩, hc, _⟩ := rr_res_bind_ok hb
            refine ⟨rest, rr_succ_bind (rr_succ_arrayHeader h0) (rr_succ_bind (a := ()) (r1 := bs2) (b := ()) ?_ ?_)⟩
            · exact rr_succ_bind (rr_succ_mapHeader h1) (rr_decodeReqEntries url v _ _ _ _ _ ha)
            · exact rr_succ_bind (rr_succ_mapHeader h2) (rr_decodeRespEntries _ _ _ _ _ hc)

theorem rr_ofMagic {m : Bytes} {v : Sxg.Ver} (h : Sxg.Ver.ofMagic m = some v) :
    (m == sxgMagicB1) = decide (v = .b1) ∧ (m == sxgMagicB3) = decide (v = .b3) := by
  unfold Sxg.Ver.ofMagic at h
  by_cases h1 : m = Sxg.Ver.magic .b1
  · rw [if_pos h1] at h
    cases h
    subst h1
    exact ⟨by decide, by decide⟩
  · rw [if_neg h1] at h
    by_cases h2 : m = Sxg.Ver.magic .b2
    · rw [if_pos h2] at h
      cases h
      subst h2
      exact ⟨by decide, by decide⟩
    · rw [if_neg h2] at h
      by_cases h3 : m = Sxg.Ver.magic .b3
      · rw [if_pos h3] at h
        cases h
        subst h3
        exact ⟨by decide, by decide⟩
      · rw [if_neg h3] at h; cases h

/-- `Sxg.read` after the fallback URL -/
def rr_readTail (url : Sxg.UrlFacts) (v : Sxg.Ver) (uri0 bs3 : Bytes) : WebPkg.Res Sxg.Exchange :=
  if bs3.length < 6 then .err
  else
    let sl := beVal (bs3.take 3)
    let hl := beVal ((bs3.drop 3).take 3)
    let bs4 := bs3.drop 6
    if bs4.length < sl then .err
    else
      let sig := bs4.take sl
      let bs5 := bs4.drop sl
      if bs5.length < hl then .err
      else
        match Sxg.decodeExchangeHeaders url v uri0 (bs5.take hl) with
        | .err => .err
        | .ood => .ood
        | .ok (method, uri, rqh, st, rh) =>
          .ok { version := v, uri := uri, method := method, reqHeaders := rqh, status := st, respHeaders := rh,
                sigHeader := sig, payload := bs5.drop hl }

theorem rr_readTail_succ (url : Sxg.UrlFacts) (v : Sxg.Ver) (uri0 bs3 magic : Bytes) (e : Sxg.Exchange)
    (hmagic : (magic == sxgMagicB3) = decide (v = .b3)) (h : rr_readTail url v uri0 bs3 = .ok e) :
    ∃ rest, rr_Succ (rp_sxgTail magic) bs3 () rest := by
  unfold rr_readTail at h
  by_cases h6 : bs3.length < 6
  · rw [if_pos h6] at h; cases h
  · rw [if_neg h6] at h
    simp only [] at h
    by_cases hs : (bs3.drop 6).length < beVal (bs3.take 3)
    · rw [if_pos hs] at h; cases h
    · rw [if_neg hs] at h
      by_cases hh : ((bs3.drop 6).drop (beVal (bs3.take 3))).length < beVal ((bs3.drop 3).take 3)
      · rw [if_pos hh] at h; cases h
      · rw [if_neg hh] at h
        cases hd : Sxg.decodeExchangeHeaders url v uri0
            (((bs3.drop 6).drop (beVal (bs3.take 3))).take (beVal ((bs3.drop 3).take 3))) with
        | err => rw [hd] at h; cases h
        | ood => rw [hd] at h; cases h
        | ok x =>
          obtain ⟨r, hx⟩ := rr_decodeExchangeHeaders url v uri0 _ x hd
          refine ⟨[], ?_⟩
          unfold rp_sxgTail
          have e33 : (bs3.drop 3).drop 3 = bs3.drop 6 := by rw [List.drop_drop]
          have l3 : 3 ≤ (bs3.drop 3).length := by rw [List.length_drop]; omega
          refine rr_succ_bind (rr_succ_beUint (by omega)) (rr_succ_bind (rr_succ_beUint l3) ?_)
          rw [e33]
          refine rr_succ_bind (rr_succ_readN (by omega)) (rr_succ_bind (rr_succ_readN (by omega)) ?_)
          rw [hmagic]
          exact rr_succ_bind (rr_succ_onSlice hx _) (rr_succ_bind (rr_succ_readAll _) (rr_succ_pure _ _))

theorem rr_sxgRead_succ (url : Sxg.UrlFacts) (bs : Bytes) (e : Sxg.Exchange) (h : Sxg.read url bs = .ok e) :
    ∃ rest, rr_Succ sxgRead bs () rest := by
  unfold Sxg.read at h
  by_cases h8 : bs.length < 8
  · rw [if_pos h8] at h; cases h
  · rw [if_neg h8] at h
    cases hv : Sxg.Ver.ofMagic (bs.take 8) with
    | none => rw [hv] at h; cases h
    | some v =>
      rw [hv] at h
      simp only [] at h
      obtain ⟨hm1, hm3⟩ := rr_ofMagic hv
      rw [rp_sxgRead_eq]
      by_cases hb1 : v = .b1
      · rw [if_pos hb1] at h
        have h' : rr_readTail url v [] (bs.drop 8) = .ok e := h
        obtain ⟨rest, ht⟩ := rr_readTail_succ url v [] (bs.drop 8) (bs.take 8) e hm3 h'
        refine ⟨rest, rr_succ_bind (rr_succ_readN (by omega)) ?_⟩
        have hm : ((bs.take 8) == sxgMagicB1) = true := by rw [hm1]; exact decide_eq_true hb1
        rw [if_pos hm]
        refine rr_succ_bind (rr_succ_pure 0 _) ?_
        unfold rp_sxgMid
        rw [if_pos hm]
        exact rr_succ_bind (rr_succ_pure _ _) ht
      · rw [if_neg hb1] at h
        have hm : ¬ (((bs.take 8) == sxgMagicB1) = true) := by
          rw [hm1, decide_eq_false hb1]; exact Bool.false_ne_true
        by_cases h2 : (bs.drop 8).length < 2
        · rw [if_pos h2] at h; cases h
        · rw [if_neg h2] at h
          by_cases hu : ((bs.drop 8).drop 2).length < beVal ((bs.drop 8).take 2)
          · rw [if_pos hu] at h; cases h
          · rw [if_neg hu] at h
            by_cases hf : Sxg.validFallback url (((bs.drop 8).drop 2).take (beVal ((bs.drop 8).take 2))) = true
            · rw [if_pos hf] at h
              have h' : rr_readTail url v (((bs.drop 8).drop 2).take (beVal ((bs.drop 8).take 2)))
                  (((bs.drop 8).drop 2).drop (beVal ((bs.drop 8).take 2))) = .ok e := h
              obtain ⟨rest, ht⟩ := rr_readTail_succ url v _ _ (bs.take 8) e hm3 h'
              refine ⟨rest, rr_succ_bind (rr_succ_readN (by omega)) ?_⟩
              rw [if_neg hm]
              refine rr_succ_bind (rr_succ_beUint (by omega)) ?_
              unfold rp_sxgMid
              rw [if_neg hm]
              exact rr_succ_bind (rr_succ_readN (by omega)) ht
            · rw [if_neg hf] at h; cases h

/-- whenever `ReadExchange` accepts, so does its cost skeleton -/
theorem rr_sxgRead (url : Sxg.UrlFacts) (bs : Bytes) (e : Sxg.Exchange) :
    Sxg.read url bs = .ok e → (RM.run sxgRead bs).1 = some () := by
  intro h
  obtain ⟨rest, hs⟩ := rr_sxgRead_succ url bs e h
  exact rr_run_of_succ hs

/-! ### 5. mice decoder -/

/-- whenever `NewDecoder` accepts, so does the cost skeleton (the skeleton then charges the whole `ReadAll`) -/
theorem rr_mice (H : Bytes → Bytes) (enc : Mice.Enc) (bs digest : Bytes) (mx : Nat) (st : Mice.State) :
    Mice.newDecoder H enc bs digest mx = .ok st → (RM.run (miceDecode (enc == .draft02) mx) bs).1 = some () := by
  intro h
  unfold Mice.newDecoder at h
  cases hp : Mice.parseDigestHeader enc digest with
  | none => rw [hp] at h; cases h
  | some proof =>
    rw [hp] at h
    simp only [] at h
    unfold RM.run miceDecode
    by_cases h0 : bs.length = 0 ∧ enc ≠ .draft02
    · have hl : bs.length < 8 := by omega
      rw [if_pos hl]
      have he : bs = [] := List.eq_nil_of_length_eq_zero h0.1
      have hd : (enc == Mice.Enc.draft02) = false := by
        cases enc with
        | draft02 => exact absurd rfl h0.2
        | draft03 => rfl
      rw [he, hd]
      rfl
    · rw [if_neg h0] at h
      by_cases hl : bs.length < 8
      · rw [if_pos hl] at h; cases h
      · rw [if_neg hl] at h
        rw [if_neg hl]
        simp only [] at h ⊢
        by_cases hr : beVal (bs.take 8) = 0 ∨ beVal (bs.take 8) > mx
        · rw [if_pos hr] at h; cases h
        · rw [if_neg hr]

/-! ### 6. bundle.Read

  #### 6a. one response -/

theorem rr_decodeHeaderEntries : ∀ (n : Nat) (bs : Bytes) (hh : Http.Headers) (pp : List (Bytes × Bytes))
    (x : Http.Headers × List (Bytes × Bytes)), Bundle.decodeHeaderEntries n bs hh pp = some x →
    ∃ rest, rr_Succ (loop rr_xxBody n ()) bs () rest := by
  intro n
  induction n with
  | zero => intro bs hh pp x _; exact ⟨bs, rr_succ_loop_zero _ _ _⟩
  | succ n ih =>
    intro bs hh pp x h
    rw [Bundle.decodeHeaderEntries] at h
    cases h1 : decodeByteString bs with
    | none => rw [h1] at h; cases h
    | some p =>
      obtain ⟨name, bs1⟩ := p
      rw [h1] at h
      simp only [] at h
      cases h2 : decodeByteString bs1 with
      | none => rw [h2] at h; cases h
      | some q =>
        obtain ⟨value, bs2⟩ := q
        rw [h2] at h
        simp only [] at h
        have hrec : ∃ hX pX, Bundle.decodeHeaderEntries n bs2 hX pX = some x := by
          by_cases k1 : (!Http.isAscii name || !Http.isAscii value) = true
          · rw [if_pos k1] at h; cases h
          · rw [if_neg k1] at h
            by_cases k2 : Http.lowerAscii name ≠ name
            · rw [if_pos k2] at h; cases h
            · rw [if_neg k2] at h
              by_cases k3 : name.head? = some 58
              · rw [if_pos k3] at h
                by_cases k4 : (pp.any (·.1 == name)) = true
                · rw [if_pos k4] at h; cases h
                · rw [if_neg k4] at h; exact ⟨_, _, h⟩
              · rw [if_neg k3] at h
                by_cases k4 : (hh.any (·.1 == Http.canonicalKey name)) = true
                · rw [if_pos k4] at h; cases h
                · rw [if_neg k4] at h; exact ⟨_, _, h⟩
        obtain ⟨hX, pX, hr⟩ := hrec
        obtain ⟨rest, hl⟩ := ih _ _ _ _ hr
        exact ⟨rest, rr_succ_loop_succ (rr_succ_xxBody h1 h2) hl⟩

theorem rr_response_eq : response = RM.bind (readN 1) (fun _ => RM.bind byteString (fun hdr =>
    RM.bind (onSlice hdr headerMap) (fun _ => RM.bind byteString (fun _ => (pure () : RM Unit))))) := rfl

/-- the response half: if `loadResponse` accepts, the skeleton accepts the delimited byte range -/
theorem rr_loadResponse (req : Bundle.ReqEntry) (bs : Bytes) (r : Bundle.Resp)
    (h : Bundle.loadResponse req bs = .ok r) :
    ∃ rest, rr_Succ response ((bs.drop req.offset).take req.length) () rest := by
  unfold Bundle.loadResponse at h
  simp only [] at h
  by_cases hc : Bundle.w64 (req.offset + req.length) < req.offset ∨ bs.length < Bundle.w64 (req.offset + req.length)
  · rw [if_pos hc] at h; cases h
  · rw [if_neg hc] at h
    generalize (bs.drop req.offset).take req.length = rng at h ⊢
    cases rng with
    | nil => cases h
    | cons b r1 =>
      simp only [] at h
      by_cases hb : b ≠ 0x82
      · rw [if_pos hb] at h; cases h
      · rw [if_neg hb] at h
        cases h1 : decodeByteString r1 with
        | none => rw [h1] at h; cases h
        | some p =>
          obtain ⟨hdrBytes, r2⟩ := p
          rw [h1] at h
          simp only [] at h
          cases h2 : decodeMapHeader hdrBytes with
          | none => rw [h2] at h; cases h
          | some q =>
            obtain ⟨n, hbs⟩ := q
            rw [h2] at h
            simp only [] at h
            cases h3 : Bundle.decodeHeaderEntries n hbs [] [] with
            | none => rw [h3] at h; cases h
            | some hp =>
              obtain ⟨headers, pseudos⟩ := hp
              rw [h3] at h
              simp only [] at h
              have h4 : ∃ body r3, decodeByteString r2 = some (body, r3) := by
                split at h
                · rename_i k status
                  by_cases hk : k ≠ Sxg.keyStatus
                  · rw [if_pos hk] at h; cases h
                  · rw [if_neg hk] at h
                    by_cases hst : (!Bundle.isStatus3 status) = true
                    · rw [if_pos hst] at h; cases h
                    · rw [if_neg hst] at h
                      cases h4 : decodeByteString r2 with
                      | none => rw [h4] at h; cases h
                      | some br => exact ⟨br.1, br.2, rfl⟩
                · cases h
              obtain ⟨body, r3, h4⟩ := h4
              obtain ⟨hrest, hl⟩ := rr_decodeHeaderEntries _ _ _ _ _ h3
              refine ⟨r3, ?_⟩
              rw [rr_response_eq]
              have h0 : rr_Succ (readN 1) (b :: r1) [b] r1 := rr_succ_readN (bs := b :: r1) (by simp)
              refine rr_succ_bind h0 (rr_succ_bind (rr_succ_byteString h1) (rr_succ_bind (a := ()) (b := ()) (r1 := r2) ?_ ?_))
              · refine rr_succ_onSlice (r := hrest) ?_ _
                rw [rr_headerMap_eq]
                exact rr_succ_bind (rr_succ_mapHeader h2) hl
              · exact rr_succ_discard (rr_succ_byteString h4)

/-! #### 6b. the response loop

  `A` = absolute offset of the responses section in the bundle, `L` = its length.  The full model's request
  entries carry absolute offsets, the skeleton's are relative to the responses section. -/

def rr_Rel (A L : Nat) (reqs : List Bundle.ReqEntry) (es : List (Nat × Nat)) : Prop :=
  reqs.map (fun r => (r.offset, r.length)) = es.map (fun e => (A + e.1, e.2)) ∧ ∀ e ∈ es, inResponses L e = true

theorem rr_rel_nil (A L : Nat) : rr_Rel A L [] [] := ⟨rfl, fun _ he => nomatch he⟩

theorem rr_rel_length {A L : Nat} {reqs : List Bundle.ReqEntry} {es : List (Nat × Nat)} (h : rr_Rel A L reqs es) :
    es.length = reqs.length := by
  have := congrArg List.length h.1
  rw [List.length_map, List.length_map] at this
  exact this.symm

theorem rr_slice (bs : Bytes) (A L off len : Nat) (h : off + len ≤ L) :
    (((bs.drop A).take L).drop off).take len = (bs.drop (A + off)).take len := by
  rw [List.drop_take, List.take_take, List.drop_drop, Nat.min_eq_left (by omega)]

theorem rr_loadResponses (bs : Bytes) (A L : Nat) : ∀ (reqs : List Bundle.ReqEntry) (ents : List (Nat × Nat))
    (acc es : List Bundle.Exch) (c : Cost), Bundle.loadResponses bs reqs acc = .ok es → rr_Rel A L reqs ents →
    (∃ c', responsesCost ((bs.drop A).take L) ents c = (some (), c')) ∧ es.length = acc.length + reqs.length := by
  intro reqs
  induction reqs with
  | nil =>
    intro ents acc es c h hrel
    have he : ents = [] := by
      have := rr_rel_length hrel
      exact List.eq_nil_of_length_eq_zero this
    subst he
    rw [Bundle.loadResponses] at h
    cases h
    exact ⟨⟨c, by rw [responsesCost]⟩, rfl⟩
  | cons req rest ih =>
    intro ents acc es c h hrel
    cases ents with
    | nil => have := rr_rel_length hrel; cases this
    | cons e ents' =>
      obtain ⟨off, len⟩ := e
      obtain ⟨hmap, hin⟩ := hrel
      rw [List.map_cons, List.map_cons, List.cons.injEq, Prod.mk.injEq] at hmap
      obtain ⟨⟨ho, hl⟩, hmap'⟩ := hmap
      simp only [] at ho hl
      have hrel' : rr_Rel A L rest ents' := ⟨hmap', fun e he => hin e (List.mem_cons_of_mem _ he)⟩
      have hio := (rp_inResponses_iff L (off, len)).mp (hin _ (List.mem_cons_self ..))
      simp only [] at hio
      rw [Bundle.loadResponses] at h
      cases hr : Bundle.loadResponse req bs with
      | error => rw [hr] at h; cases h
      | panic => rw [hr] at h; cases h
      | ok r =>
        rw [hr] at h
        simp only [] at h
        obtain ⟨rest0, hs⟩ := rr_loadResponse req bs r hr
        rw [ho, hl] at hs
        obtain ⟨⟨c', hc'⟩, hlen⟩ := ih ents' _ es
          ((hs { c with steps := c.steps + 1 }).choose) h hrel'
        have e1 := (hs { c with steps := c.steps + 1 }).choose_spec
        refine ⟨⟨c', ?_⟩, ?_⟩
        · rw [responsesCost, rr_slice bs A L off len (by omega), e1]
          exact hc'
        · rw [hlen, List.length_append, List.length_cons, List.length_cons, List.length_nil]
          omega

/-! #### 6c. the index section -/

def rr_locBody : List (Nat × Nat) → RM (List (Nat × Nat)) := fun acc => do
  let off ← ofType 0
  let len ← ofType 0
  return acc ++ [(off, len)]

theorem rr_locations_eq (k : Nat) (acc : List (Nat × Nat)) : locations k acc = loop rr_locBody k acc := rfl

theorem rr_rel_snoc {A L : Nat} {acc : List Bundle.ReqEntry} {accS : List (Nat × Nat)} {off len o l : Nat} (u : Bytes)
    (hb : A + L < 2 ^ 64) (hrel : rr_Rel A L acc accS) (hm : Bundle.makeRelative L A off len = some (o, l)) :
    rr_Rel A L (acc ++ [{ url := u, offset := o, length := l }]) (accS ++ [(off, len)]) := by
  obtain ⟨h1, h2, rfl, rfl⟩ := Bundle.makeRelative_spec hb hm
  refine ⟨?_, ?_⟩
  · rw [List.map_append, List.map_append, hrel.1]
    rfl
  · intro e he
    rcases List.mem_append.mp he with h' | h'
    · exact hrel.2 e h'
    · rw [List.mem_singleton] at h'
      subst h'
      exact (rp_inResponses_iff L _).mpr ⟨h1, h2⟩

/-- one (offset, length) pair -/
theorem rr_locStep {bs bs1 bs2 : Bytes} {off len : Nat} (accS : List (Nat × Nat))
    (h1 : decodeUint bs = some (off, bs1)) (h2 : decodeUint bs1 = some (len, bs2)) :
    rr_Succ (rr_locBody accS) bs (accS ++ [(off, len)]) bs2 :=
  rr_succ_bind (rr_succ_uint h1) (rr_succ_bind (rr_succ_uint h2) (rr_succ_pure' _ _))

theorem rr_decodeLocations {A L : Nat} (hb : A + L < 2 ^ 64) (u : Bytes) : ∀ (k : Nat) (bs : Bytes)
    (acc acc' : List Bundle.ReqEntry) (rest : Bytes) (accS : List (Nat × Nat)),
    Bundle.decodeLocations L A u k bs acc = some (acc', rest) → rr_Rel A L acc accS →
    ∃ accS', rr_Succ (locations k accS) bs accS' rest ∧ rr_Rel A L acc' accS' := by
  intro k
  induction k with
  | zero =>
    intro bs acc acc' rest accS h hrel
    rw [Bundle.decodeLocations] at h
    simp only [Option.some.injEq, Prod.mk.injEq] at h
    obtain ⟨rfl, rfl⟩ := h
    exact ⟨accS, rr_succ_loop_zero _ _ _, hrel⟩
  | succ k ih =>
    intro bs acc acc' rest accS h hrel
    rw [Bundle.decodeLocations] at h
    cases h1 : decodeUint bs with
    | none => rw [h1] at h; cases h
    | some p =>
      obtain ⟨off, bs1⟩ := p
      rw [h1] at h
      simp only [] at h
      cases h2 : decodeUint bs1 with
      | none => rw [h2] at h; cases h
      | some q =>
        obtain ⟨len, bs2⟩ := q
        rw [h2] at h
        simp only [] at h
        cases h3 : Bundle.makeRelative L A off len with
        | none => rw [h3] at h; cases h
        | some ol =>
          obtain ⟨o, l⟩ := ol
          rw [h3] at h
          simp only [] at h
          obtain ⟨accS', hs, hrel'⟩ := ih _ _ _ _ (accS ++ [(off, len)]) h (rr_rel_snoc u hb hrel h3)
          refine ⟨accS', ?_, hrel'⟩
          rw [rr_locations_eq] at hs ⊢
          exact rr_succ_loop_succ (rr_locStep accS h1 h2) hs

def rr_b2Body : List (Nat × Nat) → RM (List (Nat × Nat)) := fun acc => do
  let _ ← textString
  let _ ← ofType 4
  let off ← ofType 0
  let len ← ofType 0
  return acc ++ [(off, len)]

theorem rr_indexB2_eq : indexB2 = RM.bind (ofType 5) (fun n => loop rr_b2Body n []) := rfl

theorem rr_b2Body_eq (acc : List (Nat × Nat)) :
    rr_b2Body acc = RM.bind textString (fun _ => RM.bind (ofType 4) (fun _ => rr_locBody acc)) := rfl

theorem rr_indexEntriesB2 (url : Bundle.BUrlFacts) {A L : Nat} (hb : A + L < 2 ^ 64) : ∀ (n : Nat) (bs : Bytes)
    (acc reqs : List Bundle.ReqEntry) (accS : List (Nat × Nat)),
    Bundle.indexEntriesB2 url L A n bs acc = some reqs → rr_Rel A L acc accS →
    ∃ es rest, rr_Succ (loop rr_b2Body n accS) bs es rest ∧ rr_Rel A L reqs es := by
  intro n
  induction n with
  | zero =>
    intro bs acc reqs accS h hrel
    rw [Bundle.indexEntriesB2] at h
    cases h
    exact ⟨accS, bs, rr_succ_loop_zero _ _ _, hrel⟩
  | succ n ih =>
    intro bs acc reqs accS h hrel
    rw [Bundle.indexEntriesB2] at h
    cases h1 : decodeTextString bs with
    | none => rw [h1] at h; cases h
    | some p =>
      obtain ⟨raw, bs1⟩ := p
      rw [h1] at h
      simp only [] at h
      cases h2 : Bundle.indexUrl url raw with
      | none => rw [h2] at h; cases h
      | some u =>
        rw [h2] at h
        simp only [] at h
        cases h3 : decodeArrayHeader bs1 with
        | none => rw [h3] at h; cases h
        | some q =>
          obtain ⟨k, bs2⟩ := q
          rw [h3] at h
          simp only [] at h
          by_cases hk : k ≠ 2
          · rw [if_pos hk] at h; cases h
          · rw [if_neg hk] at h
            cases h4 : Bundle.decodeLocations L A u 1 bs2 acc with
            | none => rw [h4] at h; cases h
            | some ab =>
              obtain ⟨acc1, bs3⟩ := ab
              rw [h4] at h
              simp only [] at h
              -- the single location
              rw [Bundle.decodeLocations] at h4
              cases h5 : decodeUint bs2 with
              | none => rw [h5] at h4; cases h4
              | some p5 =>
                obtain ⟨off, bs21⟩ := p5
                rw [h5] at h4
                simp only [] at h4
                cases h6 : decodeUint bs21 with
                | none => rw [h6] at h4; cases h4
                | some p6 =>
                  obtain ⟨len, bs22⟩ := p6
                  rw [h6] at h4
                  simp only [] at h4
                  cases h7 : Bundle.makeRelative L A off len with
                  | none => rw [h7] at h4; cases h4
                  | some ol =>
                    obtain ⟨o, l⟩ := ol
                    rw [h7] at h4
                    simp only [] at h4
                    rw [Bundle.decodeLocations] at h4
                    simp only [Option.some.injEq, Prod.mk.injEq] at h4
                    obtain ⟨rfl, rfl⟩ := h4
                    obtain ⟨es, rest, hs, hrel'⟩ := ih _ _ _ (accS ++ [(off, len)]) h (rr_rel_snoc u hb hrel h7)
                    refine ⟨es, rest, rr_succ_loop_succ ?_ hs, hrel'⟩
                    rw [rr_b2Body_eq]
                    exact rr_succ_bind (rr_succ_textString h1) (rr_succ_bind (rr_succ_arrayHeader h3)
                      (rr_locStep accS h5 h6))

def rr_b1Tail (acc : List (Nat × Nat)) (vv : Bytes) : RM (List (Nat × Nat)) :=
  if vv.isEmpty then locations 1 acc
  else
    match (Bundle.parseListOfStringLists vv).bind (fun v => Bundle.numberOfPossibleKeys v 1) with
    | none => fail
    | some num => locations num acc

def rr_b1Body : List (Nat × Nat) → RM (List (Nat × Nat)) := fun acc =>
  RM.bind textString (fun _ => RM.bind (ofType 4) (fun _ => RM.bind byteStringX (rr_b1Tail acc)))

theorem rr_indexB1_eq : indexB1 = RM.bind (ofType 5) (fun n => loop rr_b1Body n []) := rfl

theorem rr_indexEntriesB1 (url : Bundle.BUrlFacts) {A L : Nat} (hb : A + L < 2 ^ 64) : ∀ (n : Nat) (bs : Bytes)
    (acc reqs : List Bundle.ReqEntry) (accS : List (Nat × Nat)),
    Bundle.indexEntriesB1 url L A n bs acc = some reqs → rr_Rel A L acc accS →
    ∃ es rest, rr_Succ (loop rr_b1Body n accS) bs es rest ∧ rr_Rel A L reqs es := by
  intro n
  induction n with
  | zero =>
    intro bs acc reqs accS h hrel
    rw [Bundle.indexEntriesB1] at h
    cases h
    exact ⟨accS, bs, rr_succ_loop_zero _ _ _, hrel⟩
  | succ n ih =>
    intro bs acc reqs accS h hrel
    rw [Bundle.indexEntriesB1] at h
    cases h1 : decodeTextString bs with
    | none => rw [h1] at h; cases h
    | some p =>
      obtain ⟨raw, bs1⟩ := p
      rw [h1] at h
      simp only [] at h
      cases h2 : Bundle.indexUrl url raw with
      | none => rw [h2] at h; cases h
      | some u =>
        rw [h2] at h
        simp only [] at h
        cases h3 : decodeArrayHeader bs1 with
        | none => rw [h3] at h; cases h
        | some q =>
          obtain ⟨k, bs2⟩ := q
          rw [h3] at h
          simp only [] at h
          by_cases hk : k = 0
          · rw [if_pos hk] at h; cases h
          · rw [if_neg hk] at h
            cases h4 : decodeByteString bs2 with
            | none => rw [h4] at h; cases h
            | some vb =>
              obtain ⟨vv, bs3⟩ := vb
              rw [h4] at h
              simp only [] at h
              -- the locations of this entry, then the remaining entries
              have key : ∃ acc1 bs4 accS1, rr_Succ (rr_b1Tail accS vv) bs3 accS1 bs4 ∧ rr_Rel A L acc1 accS1 ∧
                  Bundle.indexEntriesB1 url L A n bs4 acc1 = some reqs := by
                unfold rr_b1Tail
                by_cases hv : vv.isEmpty = true
                · rw [if_pos hv] at h ⊢
                  by_cases hk3 : k ≠ 3
                  · rw [if_pos hk3] at h; cases h
                  · rw [if_neg hk3] at h
                    cases h5 : Bundle.decodeLocations L A u 1 bs3 acc with
                    | none => rw [h5] at h; cases h
                    | some ab =>
                      obtain ⟨acc1, bs4⟩ := ab
                      rw [h5] at h
                      obtain ⟨accS1, hs, hr⟩ := rr_decodeLocations hb u _ _ _ _ _ accS h5 hrel
                      exact ⟨acc1, bs4, accS1, hs, hr, h⟩
                · rw [if_neg hv] at h ⊢
                  cases h5 : Bundle.parseListOfStringLists vv with
                  | none => rw [h5] at h; cases h
                  | some variants =>
                    rw [h5] at h
                    simp only [] at h
                    cases h6 : Bundle.numberOfPossibleKeys variants 1 with
                    | none => rw [h6] at h; cases h
                    | some num =>
                      rw [h6] at h
                      simp only [] at h
                      by_cases hkn : k ≠ 2 * num + 1
                      · rw [if_pos hkn] at h; cases h
                      · rw [if_neg hkn] at h
                        cases h7 : Bundle.decodeLocations L A u num bs3 acc with
                        | none => rw [h7] at h; cases h
                        | some ab =>
                          obtain ⟨acc1, bs4⟩ := ab
                          rw [h7] at h
                          obtain ⟨accS1, hs, hr⟩ := rr_decodeLocations hb u _ _ _ _ _ accS h7 hrel
                          refine ⟨acc1, bs4, accS1, ?_, hr, h⟩
                          have hbind : (some variants).bind (fun v => Bundle.numberOfPossibleKeys v 1) = some num := h6
                          rw [hbind]
                          exact hs
              obtain ⟨acc1, bs4, accS1, hs, hr, hrec⟩ := key
              obtain ⟨es, rest, hl, hrel'⟩ := ih _ _ _ accS1 hrec hr
              refine ⟨es, rest, rr_succ_loop_succ ?_ hl, hrel'⟩
              exact rr_succ_bind (rr_succ_textString h1) (rr_succ_bind (rr_succ_arrayHeader h3)
                (rr_succ_bind (rr_succ_byteStringX h4) hs))

/-! #### 6d. signatures and URL sections -/

def rr_vBody : Unit → RM Unit := fun _ => do
  let label ← textString
  if label = Bundle.kAuthority then do let _ ← ofType 0
  else do let _ ← byteString

def rr_vTail (label : Bytes) : RM Unit :=
  if label = Bundle.kAuthority then do let _ ← ofType 0
  else do let _ ← byteString

theorem rr_vBody_eq : rr_vBody () = RM.bind textString rr_vTail := rfl

theorem rr_vouchedList_eq (k : Nat) :
    vouchedList k = loop (fun _ => RM.bind (ofType 5) (fun n => loop rr_vBody n ())) k () := rfl

theorem rr_decodeVouched : ∀ (n : Nat) (bs : Bytes) (acc acc' : Bundle.VouchedSubset) (rest : Bytes),
    Bundle.decodeVouched n bs acc = some (acc', rest) → rr_Succ (loop rr_vBody n ()) bs () rest := by
  intro n
  induction n with
  | zero =>
    intro bs acc acc' rest h
    rw [Bundle.decodeVouched] at h
    simp only [Option.some.injEq, Prod.mk.injEq] at h
    obtain ⟨_, rfl⟩ := h
    exact rr_succ_loop_zero _ _ _
  | succ n ih =>
    intro bs acc acc' rest h
    rw [Bundle.decodeVouched] at h
    cases h1 : decodeTextString bs with
    | none => rw [h1] at h; cases h
    | some p =>
      obtain ⟨label, bs1⟩ := p
      rw [h1] at h
      simp only [] at h
      have key : ∃ bs2 accX, rr_Succ (rr_vTail label) bs1 () bs2 ∧
          Bundle.decodeVouched n bs2 accX = some (acc', rest) := by
        unfold rr_vTail
        by_cases k1 : label = Bundle.kAuthority
        · rw [if_pos k1] at h ⊢
          cases h2 : decodeUint bs1 with
          | none => rw [h2] at h; cases h
          | some q =>
            obtain ⟨v, bs2⟩ := q
            rw [h2] at h
            exact ⟨bs2, _, rr_succ_discard (rr_succ_uint h2), h⟩
        · rw [if_neg k1] at h ⊢
          by_cases k2 : label = Bundle.kSig
          · rw [if_pos k2] at h
            cases h2 : decodeByteString bs1 with
            | none => rw [h2] at h; cases h
            | some q =>
              obtain ⟨v, bs2⟩ := q
              rw [h2] at h
              exact ⟨bs2, _, rr_succ_discard (rr_succ_byteString h2), h⟩
          · rw [if_neg k2] at h
            by_cases k3 : label = Bundle.kSigned
            · rw [if_pos k3] at h
              cases h2 : decodeByteString bs1 with
              | none => rw [h2] at h; cases h
              | some q =>
                obtain ⟨v, bs2⟩ := q
                rw [h2] at h
                exact ⟨bs2, _, rr_succ_discard (rr_succ_byteString h2), h⟩
            · rw [if_neg k3] at h; cases h
      obtain ⟨bs2, accX, hs, hrec⟩ := key
      refine rr_succ_loop_succ (a' := ()) ?_ (ih _ _ _ _ hrec)
      rw [rr_vBody_eq]
      exact rr_succ_bind (rr_succ_textString h1) hs

theorem rr_decodeVouchedList : ∀ (k : Nat) (bs : Bytes) (acc subs : List Bundle.VouchedSubset),
    Bundle.decodeVouchedList k bs acc = some subs → ∃ rest, rr_Succ (vouchedList k) bs () rest := by
  intro k
  induction k with
  | zero => intro bs acc subs _; exact ⟨bs, rr_succ_loop_zero _ _ _⟩
  | succ k ih =>
    intro bs acc subs h
    rw [Bundle.decodeVouchedList] at h
    cases h1 : decodeMapHeader bs with
    | none => rw [h1] at h; cases h
    | some p =>
      obtain ⟨n, bs1⟩ := p
      rw [h1] at h
      simp only [] at h
      by_cases hn : n ≠ 3
      · rw [if_pos hn] at h; cases h
      · rw [if_neg hn] at h
        have hn3 : n = 3 := Decidable.not_not.mp hn
        cases h2 : Bundle.decodeVouched 3 bs1 { authority := 0, sig := [], signed := [] } with
        | none => rw [h2] at h; cases h
        | some q =>
          obtain ⟨vs, bs2⟩ := q
          rw [h2] at h
          simp only [] at h
          obtain ⟨rest, hl⟩ := ih _ _ _ h
          refine ⟨rest, ?_⟩
          rw [rr_vouchedList_eq] at hl ⊢
          refine rr_succ_loop_succ (a' := ()) ?_ hl
          refine rr_succ_bind (rr_succ_mapHeader h1) ?_
          rw [hn3]
          exact rr_decodeVouched _ _ _ _ _ h2

theorem rr_signaturesSection_eq : signaturesSection = RM.bind (ofType 4) (fun _ => RM.bind (ofType 4) (fun na =>
    RM.bind (loop (fun _ => augCert) na ()) (fun _ => RM.bind (ofType 4) (fun nv => vouchedList nv)))) := rfl

theorem rr_parseSignatures (parseOk : Bytes → Bool) (contents : Bytes) (s : Bundle.Sigs)
    (h : Bundle.parseSignatures parseOk contents = some s) : ∃ rest, rr_Succ signaturesSection contents () rest := by
  unfold Bundle.parseSignatures at h
  cases h1 : decodeArrayHeader contents with
  | none => rw [h1] at h; cases h
  | some p =>
    obtain ⟨two, bs⟩ := p
    rw [h1] at h
    simp only [] at h
    by_cases h2 : two ≠ 2
    · rw [if_pos h2] at h; cases h
    · rw [if_neg h2] at h
      cases h3 : decodeArrayHeader bs with
      | none => rw [h3] at h; cases h
      | some q =>
        obtain ⟨na, bs1⟩ := q
        rw [h3] at h
        simp only [] at h
        cases h4 : CertChain.decodeCerts parseOk na bs1 [] with
        | none => rw [h4] at h; cases h
        | some r =>
          obtain ⟨auths, bs2⟩ := r
          rw [h4] at h
          simp only [] at h
          cases h5 : decodeArrayHeader bs2 with
          | none => rw [h5] at h; cases h
          | some t =>
            obtain ⟨nv, bs3⟩ := t
            rw [h5] at h
            simp only [] at h
            cases h6 : Bundle.decodeVouchedList nv bs3 [] with
            | none => rw [h6] at h; cases h
            | some subs =>
              obtain ⟨rest, hv⟩ := rr_decodeVouchedList _ _ _ _ h6
              refine ⟨rest, ?_⟩
              rw [rr_signaturesSection_eq]
              exact rr_succ_bind (rr_succ_arrayHeader h1) (rr_succ_bind (rr_succ_arrayHeader h3)
                (rr_succ_bind (rr_decodeCerts parseOk _ _ _ _ _ h4) (rr_succ_bind (rr_succ_arrayHeader h5) hv)))

theorem rr_parseUrlSection (url : Bundle.BUrlFacts) (contents u : Bytes)
    (h : Bundle.parseUrlSection url contents = some u) : ∃ rest, rr_Succ urlSection contents () rest := by
  unfold Bundle.parseUrlSection at h
  cases h1 : decodeTextString contents with
  | none => rw [h1] at h; cases h
  | some p =>
    obtain ⟨raw, rest⟩ := p
    exact ⟨rest, rr_succ_discard (rr_succ_textString h1)⟩

/-! #### 6e. the section loop -/

theorem rr_unknown_names {n : Bytes} (h : (!Bundle.knownSection n) = true) :
    n ≠ Bundle.nIndex ∧ n ≠ Bundle.nPrimary ∧ n ≠ Bundle.nManifest ∧ n ≠ Bundle.nSignatures := by
  refine ⟨?_, ?_, ?_, ?_⟩ <;> (intro e; subst e; revert h; decide)

theorem rr_findSection (l : Bundle.SectionOffset) (name : Bytes) (hl : l.name = name) :
    ∀ (ys : List Bundle.SectionOffset) (off : Nat), (∀ y ∈ ys, y.name ≠ name) → off + Bundle.lenSum ys < 2 ^ 64 →
    Bundle.findSection (ys ++ [l]) name off = some (l, off + Bundle.lenSum ys) := by
  intro ys
  induction ys with
  | nil =>
    intro off _ _
    rw [List.nil_append, Bundle.findSection, if_pos hl, Bundle.lenSum_nil, Nat.add_zero]
  | cons y ys ih =>
    intro off hys hb
    rw [Bundle.lenSum_cons] at hb
    rw [List.cons_append, Bundle.findSection, if_neg (hys y (List.mem_cons_self ..)),
      Bundle.w64_of_lt (by omega), ih _ (fun z hz => hys z (List.mem_cons_of_mem _ hz)) (by omega),
      Bundle.lenSum_cons, Nat.add_assoc]

theorem rr_sectionLoop (url : Bundle.BUrlFacts) (parseOk : Bytes → Bool) (ver : Bundle.BVer) (bs : Bytes) (S : Nat)
    (sos : List Bundle.SectionOffset) (l : Bundle.SectionOffset) (hl : l.name = Bundle.nResponses)
    (hlen : bs.length < 2 ^ 64) (A L : Nat)
    (hidx : ∀ contents reqs, Bundle.parseIndex url ver contents S sos = some reqs →
      ∃ es rest, rr_Succ (if (ver == Bundle.BVer.b1) = true then indexB1 else indexB2) contents es rest ∧
        rr_Rel A L reqs es) :
    ∀ (ys : List Bundle.SectionOffset) (offset : Nat) (m m' : Bundle.Meta) (c : Cost) (acc : List (Nat × Nat)),
      (∀ y ∈ ys, y.name ≠ Bundle.nResponses) → offset + (Bundle.lenSum ys + l.length) ≤ bs.length →
      rr_Rel A L m.requests acc →
      Bundle.sectionLoop url parseOk ver bs S sos (ys ++ [l]) offset m = .ok m' →
      ∃ c' es, sectionsCost (ver == Bundle.BVer.b1) (ys ++ [l]) (bs.drop offset) c acc = (some es, c') ∧
        rr_Rel A L m'.requests es := by
  intro ys
  induction ys with
  | nil =>
    intro offset m m' c acc _ _ hrel h
    rw [List.nil_append, Bundle.sectionLoop] at h
    have hk : ¬ ((!Bundle.knownSection l.name) = true) := by rw [hl]; decide
    rw [if_neg hk, if_pos hl, Bundle.sectionLoop] at h
    cases h
    have n1 : l.name ≠ Bundle.nIndex := by rw [hl]; decide
    have n2 : ¬ (l.name = Bundle.nPrimary ∨ l.name = Bundle.nManifest) := by rw [hl]; decide
    have n3 : l.name ≠ Bundle.nSignatures := by rw [hl]; decide
    refine ⟨c, acc, ?_, hrel⟩
    rw [List.nil_append, sectionsCost]
    rw [if_neg n1, if_neg n2, if_neg n3, sectionsCost]
  | cons y ys ih =>
    intro offset m m' c acc hys hfit hrel h
    have hy : y.name ≠ Bundle.nResponses := hys y (List.mem_cons_self ..)
    have hys' : ∀ z ∈ ys, z.name ≠ Bundle.nResponses := fun z hz => hys z (List.mem_cons_of_mem _ hz)
    rw [Bundle.lenSum_cons] at hfit
    have hw : Bundle.w64 (offset + y.length) = offset + y.length := Bundle.w64_of_lt (by omega)
    have hfit' : offset + y.length + (Bundle.lenSum ys + l.length) ≤ bs.length := by omega
    have hdd : (bs.drop offset).drop y.length = bs.drop (offset + y.length) := List.drop_drop
    rw [List.cons_append, Bundle.sectionLoop, hw] at h
    rw [List.cons_append, sectionsCost]
    rw [hdd]
    by_cases hk : (!Bundle.knownSection y.name) = true
    · rw [if_pos hk] at h
      obtain ⟨n1, n2, n3, n4⟩ := rr_unknown_names hk
      have n23 : ¬ (y.name = Bundle.nPrimary ∨ y.name = Bundle.nManifest) := fun o => o.elim n2 n3
      rw [if_neg n1, if_neg n23, if_neg n4]
      exact ih _ _ _ c acc hys' hfit' hrel h
    · rw [if_neg hk, if_neg hy] at h
      by_cases h1 : bs.length ≤ offset
      · rw [if_pos h1] at h; cases h
      · rw [if_neg h1] at h
        simp only [] at h
        by_cases h2 : bs.length ≤ offset + y.length
        · rw [if_pos h2] at h; cases h
        · rw [if_neg h2] at h
          by_cases h3 : offset + y.length < offset ∨ bs.length < offset + y.length
          · rw [if_pos h3] at h; cases h
          · rw [if_neg h3] at h
            by_cases hi : y.name = Bundle.nIndex
            · rw [if_pos hi] at h
              rw [if_pos hi]
              cases hp : Bundle.parseIndex url ver ((bs.drop offset).take y.length) S sos with
              | none => rw [hp] at h; cases h
              | some reqs =>
                rw [hp] at h
                simp only [] at h
                obtain ⟨es, rest, hs, hrel'⟩ := hidx _ _ hp
                obtain ⟨c1, e1⟩ := hs c
                rw [e1]
                simp only []
                exact ih _ _ _ c1 es hys' hfit' hrel' h
            · rw [if_neg hi] at h
              rw [if_neg hi]
              by_cases hpr : y.name = Bundle.nPrimary
              · rw [if_pos hpr] at h
                rw [if_pos (Or.inl hpr)]
                cases hp : Bundle.parseUrlSection url ((bs.drop offset).take y.length) with
                | none => rw [hp] at h; cases h
                | some u =>
                  rw [hp] at h
                  simp only [] at h
                  obtain ⟨rest, hs⟩ := rr_parseUrlSection url _ u hp
                  obtain ⟨c1, e1⟩ := hs c
                  rw [e1]
                  simp only []
                  exact ih _ _ _ c1 acc hys' hfit' (by exact hrel) h
              · rw [if_neg hpr] at h
                by_cases hma : y.name = Bundle.nManifest
                · rw [if_pos hma] at h
                  rw [if_pos (Or.inr hma)]
                  cases hp : Bundle.parseUrlSection url ((bs.drop offset).take y.length) with
                  | none => rw [hp] at h; cases h
                  | some u =>
                    rw [hp] at h
                    simp only [] at h
                    obtain ⟨rest, hs⟩ := rr_parseUrlSection url _ u hp
                    obtain ⟨c1, e1⟩ := hs c
                    rw [e1]
                    simp only []
                    exact ih _ _ _ c1 acc hys' hfit' (by exact hrel) h
                · rw [if_neg hma] at h
                  have n23 : ¬ (y.name = Bundle.nPrimary ∨ y.name = Bundle.nManifest) := fun o => o.elim hpr hma
                  rw [if_neg n23]
                  cases hp : Bundle.parseSignatures parseOk ((bs.drop offset).take y.length) with
                  | none => rw [hp] at h; cases h
                  | some sg =>
                    rw [hp] at h
                    simp only [] at h
                    by_cases hsig : y.name = Bundle.nSignatures
                    · rw [if_pos hsig]
                      obtain ⟨rest, hs⟩ := rr_parseSignatures parseOk _ sg hp
                      obtain ⟨c1, e1⟩ := hs c
                      rw [e1]
                      simp only []
                      exact ih _ _ _ c1 acc hys' hfit' (by exact hrel) h
                    · rw [if_neg hsig]
                      exact ih _ _ _ c acc hys' hfit' (by exact hrel) h

/-- `parseIndex` versus `indexB1` / `indexB2` when the responses section is the last one and no other carries
    its name -/
theorem rr_parseIndex (url : Bundle.BUrlFacts) (ver : Bundle.BVer) (S : Nat) (ys : List Bundle.SectionOffset)
    (l : Bundle.SectionOffset) (hl : l.name = Bundle.nResponses) (hys : ∀ y ∈ ys, y.name ≠ Bundle.nResponses)
    (hb : S + Bundle.lenSum ys + l.length < 2 ^ 64) (contents : Bytes) (reqs : List Bundle.ReqEntry)
    (h : Bundle.parseIndex url ver contents S (ys ++ [l]) = some reqs) :
    ∃ es rest, rr_Succ (if (ver == Bundle.BVer.b1) = true then indexB1 else indexB2) contents es rest ∧
      rr_Rel (S + Bundle.lenSum ys) l.length reqs es := by
  unfold Bundle.parseIndex at h
  cases h1 : decodeMapHeader contents with
  | none => rw [h1] at h; cases h
  | some p =>
    obtain ⟨n, bs⟩ := p
    rw [h1, rr_findSection l _ hl ys 0 hys (by omega)] at h
    simp only [Nat.zero_add] at h
    rw [Bundle.w64_of_lt (by omega)] at h
    cases ver with
    | b1 =>
      simp only [] at h
      obtain ⟨es, rest, hs, hrel⟩ := rr_indexEntriesB1 url (by omega) n bs [] reqs [] h (rr_rel_nil _ _)
      refine ⟨es, rest, ?_, hrel⟩
      rw [if_pos (by decide), rr_indexB1_eq]
      exact rr_succ_bind (rr_succ_mapHeader h1) hs
    | b2 =>
      simp only [] at h
      obtain ⟨es, rest, hs, hrel⟩ := rr_indexEntriesB2 url (by omega) n bs [] reqs [] h (rr_rel_nil _ _)
      refine ⟨es, rest, ?_, hrel⟩
      rw [if_neg (by decide), rr_indexB2_eq]
      exact rr_succ_bind (rr_succ_mapHeader h1) hs

/-! #### 6f. the section table -/

def rr_spBody : List Bundle.SectionOffset → RM (List Bundle.SectionOffset) := fun acc => do
  let name ← textString
  let len ← ofType 0
  return acc ++ [{ name := name, length := len }]

theorem rr_sectionPairs_eq : sectionPairs = RM.bind (ofType 4) (fun n => loop rr_spBody ((n + 1) / 2) []) := rfl

/-- the skeleton builds the same table; the duplicate-name check of the full model makes the names pairwise
    distinct -/
theorem rr_decodeSectionPairs : ∀ (k : Nat) (bs : Bytes) (acc sos : List Bundle.SectionOffset),
    Bundle.decodeSectionPairs k bs acc = some sos → acc.Pairwise (fun a b => a.name ≠ b.name) →
    ∃ rest, rr_Succ (loop rr_spBody k acc) bs sos rest ∧ sos.Pairwise (fun a b => a.name ≠ b.name) := by
  intro k
  induction k with
  | zero =>
    intro bs acc sos h hp
    rw [Bundle.decodeSectionPairs] at h
    cases h
    exact ⟨bs, rr_succ_loop_zero _ _ _, hp⟩
  | succ k ih =>
    intro bs acc sos h hp
    rw [Bundle.decodeSectionPairs] at h
    cases h1 : decodeTextString bs with
    | none => rw [h1] at h; cases h
    | some p =>
      obtain ⟨name, bs1⟩ := p
      rw [h1] at h
      simp only [] at h
      by_cases hd : (acc.any (·.name == name)) = true
      · rw [if_pos hd] at h; cases h
      · rw [if_neg hd] at h
        cases h2 : decodeUint bs1 with
        | none => rw [h2] at h; cases h
        | some q =>
          obtain ⟨len, bs2⟩ := q
          rw [h2] at h
          simp only [] at h
          have hd' : acc.any (·.name == name) = false := by
            cases hb : acc.any (·.name == name) with
            | false => rfl
            | true => exact absurd hb hd
          have hp' : (acc ++ [({ name := name, length := len } : Bundle.SectionOffset)]).Pairwise
              (fun a b => a.name ≠ b.name) := by
            rw [List.pairwise_append]
            refine ⟨hp, List.pairwise_singleton _ _, ?_⟩
            intro a ha b hb
            rw [List.mem_singleton] at hb
            subst hb
            intro e
            exact (List.any_eq_false.mp hd') a ha (by show (a.name == name) = true; exact beq_iff_eq.mpr e)
          obtain ⟨rest, hs, hpw⟩ := ih _ _ _ h hp'
          refine ⟨rest, rr_succ_loop_succ ?_ hs, hpw⟩
          exact rr_succ_bind (rr_succ_textString h1) (rr_succ_bind (rr_succ_uint h2) (rr_succ_pure' _ _))

/-! #### 6g. what a successful decoder leaves is a suffix of its input -/

theorem rr_suffix_ofType {t : Nat} {bs rest : Bytes} {n : Nat} (h : decodeOfType t bs = some (n, rest)) :
    ∃ p, bs = p ++ rest := by
  obtain ⟨hd, _, e⟩ := decodeOfType_sound h
  exact ⟨hd, e⟩

theorem rr_suffix_bytesOfType {t : Nat} {bs s rest : Bytes} (h : decodeBytesOfType t bs = some (s, rest)) :
    ∃ p, bs = p ++ rest := by
  obtain ⟨item, _, e⟩ := decodeBytesOfType_sound h
  exact ⟨item, e⟩

theorem rr_suffix_textString {bs s rest : Bytes} (h : decodeTextString bs = some (s, rest)) :
    ∃ p, bs = p ++ rest := by
  unfold decodeTextString at h
  cases h1 : decodeBytesOfType 3 bs with
  | none => rw [h1] at h; cases h
  | some q =>
    obtain ⟨s', r'⟩ := q
    rw [h1] at h
    simp only [] at h
    by_cases hu : utf8Valid s' = true
    · rw [if_pos hu] at h
      simp only [Option.some.injEq, Prod.mk.injEq] at h
      obtain ⟨_, rfl⟩ := h
      exact rr_suffix_bytesOfType h1
    · rw [if_neg hu] at h; cases h

theorem rr_suffix_trans {a b c : Bytes} (h1 : ∃ p, a = p ++ b) (h2 : ∃ p, b = p ++ c) : ∃ p, a = p ++ c := by
  obtain ⟨p1, rfl⟩ := h1
  obtain ⟨p2, rfl⟩ := h2
  exact ⟨p1 ++ p2, (List.append_assoc _ _ _).symm⟩

theorem rr_suffix_drop {bs r : Bytes} (h : ∃ p, bs = p ++ r) :
    r.length ≤ bs.length ∧ r = bs.drop (bs.length - r.length) := by
  obtain ⟨p, rfl⟩ := h
  rw [List.length_append, Nat.add_sub_cancel, List.drop_left]
  exact ⟨by omega, rfl⟩

theorem rr_suffix_parseMagic {bs r0 : Bytes} {ver : Bundle.BVer} (h : Bundle.parseMagic bs = some (ver, r0)) :
    ∃ p, bs = p ++ r0 := by
  unfold Bundle.parseMagic at h
  by_cases h1 : bs.length < 10
  · rw [if_pos h1] at h; cases h
  · rw [if_neg h1] at h
    simp only [] at h
    by_cases h2 : bs.take 10 ≠ Bundle.headerMagicB1 ∧ bs.take 10 ≠ Bundle.headerMagicB2
    · rw [if_pos h2] at h; cases h
    · rw [if_neg h2] at h
      by_cases h3 : (bs.drop 10).length < 5
      · rw [if_pos h3] at h; cases h
      · rw [if_neg h3] at h
        have hr : r0 = (bs.drop 10).drop 5 := by
          repeat' split at h
          all_goals (cases h <;> rfl)
        refine ⟨bs.take 15, ?_⟩
        rw [hr, List.drop_drop, List.take_append_drop]

/-! #### 6h. `loadMetadata` and `bundle.Read` -/

/-- `loadMetadata` after the magic bytes and the (b1) fallback URL -/
def rr_metaTail (url : Bundle.BUrlFacts) (parseOk : Bytes → Bool) (ver : Bundle.BVer) (bs : Bytes)
    (fallback : Option Bytes) (r1 : Bytes) : Outcome Bundle.Meta :=
  match decodeByteString r1 with
  | none => .error
  | some (slbytes, r2) =>
    if slbytes.length ≥ 8192 then .error
    else match Bundle.decodeSectionLengths slbytes with
      | none => .error
      | some sos =>
        match decodeArrayHeader r2 with
        | none => .error
        | some (numSections, r3) =>
          if numSections ≠ sos.length then .error
          else
            let sectionsStart := bs.length - r3.length
            if sos.isEmpty ∨ (sos.getLast?.map (·.name)) ≠ some Bundle.nResponses then .error
            else if !Bundle.sectionsFit sos (bs.length - sectionsStart) then .error
            else Bundle.sectionLoop url parseOk ver bs sectionsStart sos sos sectionsStart
              { version := ver, primaryURL := fallback, manifestURL := none, signatures := none, requests := [] }

/-- the metadata half: the skeleton's prologue yields the same section table, the table fits, and the skeleton's
    section loop yields index entries that are the full model's request entries, relative to the responses section -/
theorem rr_metaTail_spec (url : Bundle.BUrlFacts) (parseOk : Bytes → Bool) (ver : Bundle.BVer) (bs : Bytes)
    (fb : Option Bytes) (r1 : Bytes) (m : Bundle.Meta) (hsuf : ∃ p, bs = p ++ r1) (hlen : bs.length < 2 ^ 64)
    (h : rr_metaTail url parseOk ver bs fb r1 = .ok m) :
    ∃ (sos : List Bundle.SectionOffset) (r3 : Bytes) (ys : List Bundle.SectionOffset) (l : Bundle.SectionOffset)
      (S : Nat), rr_Succ rp_proTail r1 sos r3 ∧ sos = ys ++ [l] ∧ Bundle.sectionsFit sos r3.length = true ∧
      r3 = bs.drop S ∧ S + ((ys.map (·.length)).sum + l.length) ≤ bs.length ∧
      (∀ c, ∃ c' es, sectionsCost (ver == Bundle.BVer.b1) sos r3 c [] = (some es, c') ∧
        rr_Rel (S + (ys.map (·.length)).sum) l.length m.requests es) := by
  unfold rr_metaTail at h
  cases h1 : decodeByteString r1 with
  | none => rw [h1] at h; cases h
  | some p1 =>
    obtain ⟨slbytes, r2⟩ := p1
    rw [h1] at h
    simp only [] at h
    by_cases h2 : slbytes.length ≥ 8192
    · rw [if_pos h2] at h; cases h
    · rw [if_neg h2] at h
      cases h3 : Bundle.decodeSectionLengths slbytes with
      | none => rw [h3] at h; cases h
      | some sos =>
        rw [h3] at h
        simp only [] at h
        cases h4 : decodeArrayHeader r2 with
        | none => rw [h4] at h; cases h
        | some p4 =>
          obtain ⟨numSections, r3⟩ := p4
          rw [h4] at h
          simp only [] at h
          by_cases h5 : numSections ≠ sos.length
          · rw [if_pos h5] at h; cases h
          · rw [if_neg h5] at h
            by_cases h6 : sos.isEmpty ∨ (sos.getLast?.map (·.name)) ≠ some Bundle.nResponses
            · rw [if_pos h6] at h; cases h
            · rw [if_neg h6] at h
              by_cases h7 : (!Bundle.sectionsFit sos (bs.length - (bs.length - r3.length))) = true
              · rw [if_pos h7] at h; cases h
              · rw [if_neg h7] at h
                -- r3 is a suffix of bs
                have hs3 : ∃ p, bs = p ++ r3 :=
                  rr_suffix_trans hsuf (rr_suffix_trans (rr_suffix_bytesOfType h1) (rr_suffix_ofType h4))
                obtain ⟨hle, hdrop⟩ := rr_suffix_drop hs3
                have hsub : bs.length - (bs.length - r3.length) = r3.length := by omega
                rw [hsub] at h7
                have hfit : Bundle.sectionsFit sos r3.length = true := by
                  cases hf : Bundle.sectionsFit sos r3.length with
                  | true => rfl
                  | false => rw [hf] at h7; exact absurd rfl h7
                -- the table ends with the responses section
                have hlast : ∃ l, sos.getLast? = some l ∧ l.name = Bundle.nResponses := by
                  cases hg : sos.getLast? with
                  | none => rw [hg] at h6; exact absurd (Or.inr (by simp)) h6
                  | some l =>
                    refine ⟨l, rfl, ?_⟩
                    rw [hg] at h6
                    cases hn : decide (l.name = Bundle.nResponses) with
                    | true => exact of_decide_eq_true hn
                    | false =>
                      have hne := of_decide_eq_false hn
                      exact absurd (Or.inr (by simp only [Option.map_some, ne_eq, Option.some.injEq]; exact hne)) h6
                obtain ⟨l, hg, hl⟩ := hlast
                obtain ⟨ys, hsos⟩ := List.getLast?_eq_some_iff.mp hg
                -- the table as built by the skeleton, names pairwise distinct
                unfold Bundle.decodeSectionLengths at h3
                cases h8 : decodeArrayHeader slbytes with
                | none => rw [h8] at h3; cases h3
                | some p8 =>
                  obtain ⟨n, srest⟩ := p8
                  rw [h8] at h3
                  simp only [] at h3
                  obtain ⟨srest', hsp, hpw⟩ := rr_decodeSectionPairs _ _ _ _ h3 List.Pairwise.nil
                  rw [hsos, List.pairwise_append] at hpw
                  have hys : ∀ y ∈ ys, y.name ≠ Bundle.nResponses := by
                    intro y hy
                    have := hpw.2.2 y hy l (List.mem_singleton.mpr rfl)
                    rw [hl] at this
                    exact this
                  have hsum := Bundle.sectionsFit_lenSum hfit
                  rw [hsos, Bundle.lenSum_append, Bundle.lenSum_cons, Bundle.lenSum_nil] at hsum
                  have hS : (bs.length - r3.length) + (Bundle.lenSum ys + l.length) ≤ bs.length := by omega
                  refine ⟨sos, r3, ys, l, bs.length - r3.length, ?_, hsos, hfit, hdrop, hS, ?_⟩
                  · unfold rp_proTail
                    refine rr_succ_bind (rr_succ_byteString h1) (rr_succ_bind
                      (rr_succ_guard (decide_eq_true (by omega)) _) (rr_succ_bind (a := sos) (r1 := r2) ?_ ?_))
                    · refine rr_succ_onSlice (r := srest') ?_ _
                      rw [rr_sectionPairs_eq]
                      exact rr_succ_bind (rr_succ_arrayHeader h8) hsp
                    · exact rr_succ_bind (rr_succ_arrayHeader h4) (rr_succ_pure _ _)
                  · intro c
                    have hidx := rr_parseIndex url ver (bs.length - r3.length) ys l hl hys (by omega)
                    rw [hsos] at h
                    have := rr_sectionLoop url parseOk ver bs (bs.length - r3.length) (ys ++ [l]) l hl hlen
                      (bs.length - r3.length + Bundle.lenSum ys) l.length hidx ys (bs.length - r3.length) _ m c []
                      hys hS (rr_rel_nil _ _) h
                    rw [← hdrop, ← hsos] at this
                    exact this

/-- `bundleRead` after the magic bytes, given the conclusions of the metadata half and a successful response loop
    of the full model -/
theorem rr_bundleBody_ok (b1 : Bool) (bs r0 : Bytes) (c0 : Cost) (sos : List Bundle.SectionOffset) (r3 : Bytes)
    (ys : List Bundle.SectionOffset) (l : Bundle.SectionOffset) (S : Nat) (reqs : List Bundle.ReqEntry)
    (exs : List Bundle.Exch)
    (hpro : rr_Succ (rp_pro b1) r0 sos r3) (hsos : sos = ys ++ [l]) (hfit : Bundle.sectionsFit sos r3.length = true)
    (hr3 : r3 = bs.drop S)
    (hsec : ∀ c, ∃ c' es, sectionsCost b1 sos r3 c [] = (some es, c') ∧
      rr_Rel (S + (ys.map (·.length)).sum) l.length reqs es)
    (hresp : Bundle.loadResponses bs reqs [] = .ok exs) :
    ∃ c3 es, rp_bundleBody b1 r0 c0 = (some (), c3, es) ∧ es.length = exs.length := by
  unfold rp_bundleBody
  obtain ⟨c1, e1⟩ := hpro c0
  rw [e1]
  simp only []
  have hf : ¬ ((!Bundle.sectionsFit sos r3.length) = true) := by rw [hfit]; decide
  rw [if_neg hf]
  obtain ⟨c2, es, e2, hrel⟩ := hsec c1
  rw [e2]
  simp only []
  subst hsos
  rw [List.getLast?_concat, List.dropLast_concat]
  simp only [Option.map_some, Option.getD_some]
  have hfil : es.filter (inResponses l.length) = es := List.filter_eq_self.mpr hrel.2
  rw [hfil, if_neg (fun hne => hne rfl)]
  obtain ⟨⟨c3, e3⟩, hlen⟩ := rr_loadResponses bs (S + (ys.map (·.length)).sum) l.length reqs es [] exs c2 hresp hrel
  rw [hr3, List.drop_drop, e3]
  refine ⟨c3, es, rfl, ?_⟩
  rw [hlen, rr_rel_length hrel, List.length_nil, Nat.zero_add]

/-- whenever `bundle.Read` accepts (a bundle shorter than 2^64 bytes), so does its cost skeleton, and the skeleton's
    index has one entry per exchange -/
theorem rr_bundleRead (url : Bundle.BUrlFacts) (parseOk : Bytes → Bool) (bs : Bytes) (b : Bundle.Bundle)
    (hlen : bs.length < 2 ^ 64) :
    Bundle.read url parseOk bs = .ok b →
    (bundleRead bs).1 = some () ∧ (bundleRead bs).2.2.length = b.exchanges.length := by
  intro h
  unfold Bundle.read at h
  cases hm : Bundle.loadMetadata url parseOk bs with
  | error => rw [hm] at h; cases h
  | panic => rw [hm] at h; cases h
  | ok m =>
    rw [hm] at h
    simp only [] at h
    cases hl : Bundle.loadResponses bs m.requests [] with
    | error => rw [hl] at h; cases h
    | panic => rw [hl] at h; cases h
    | ok exs =>
      rw [hl] at h
      simp only [Outcome.ok.injEq] at h
      subst h
      simp only []
      unfold Bundle.loadMetadata at hm
      cases hpm : Bundle.parseMagic bs with
      | none => rw [hpm] at hm; cases hm
      | some vr =>
        obtain ⟨ver, r0⟩ := vr
        rw [hpm] at hm
        simp only [] at hm
        have hs0 := rr_suffix_parseMagic hpm
        rw [rp_bundleRead_eq, hpm]
        simp only []
        -- the conclusion from a successful `rp_bundleBody`
        have fin : ∀ (b1 : Bool) c0, (∃ c3 es, rp_bundleBody b1 r0 c0 = (some (), c3, es) ∧ es.length = exs.length) →
            (rp_bundleBody b1 r0 c0).1 = some () ∧ (rp_bundleBody b1 r0 c0).2.2.length = exs.length := by
          intro b1 c0 ⟨c3, es, e, hl⟩
          rw [e]
          exact ⟨rfl, hl⟩
        apply fin
        cases ver with
        | b1 =>
          simp only [] at hm
          cases h1 : decodeTextString r0 with
          | none => rw [h1] at hm; cases hm
          | some p1 =>
            obtain ⟨raw, r1⟩ := p1
            rw [h1] at hm
            simp only [] at hm
            cases h2 : url raw with
            | none => rw [h2] at hm; cases hm
            | some x =>
              obtain ⟨x1, x2, x3, str⟩ := x
              rw [h2] at hm
              simp only [] at hm
              have hm' : rr_metaTail url parseOk .b1 bs (some str) r1 = .ok m := hm
              obtain ⟨sos, r3, ys, l, S, hpro, hsos, hfit, hr3, _, hsec⟩ := rr_metaTail_spec url parseOk .b1 bs _ r1 m
                (rr_suffix_trans hs0 (rr_suffix_textString h1)) hlen hm'
              refine rr_bundleBody_ok _ bs r0 _ sos r3 ys l S m.requests exs ?_ hsos hfit hr3 hsec hl
              unfold rp_pro
              rw [if_pos (by decide)]
              exact rr_succ_bind (rr_succ_textString h1) hpro
        | b2 =>
          simp only [] at hm
          have hm' : rr_metaTail url parseOk .b2 bs none r0 = .ok m := hm
          obtain ⟨sos, r3, ys, l, S, hpro, hsos, hfit, hr3, _, hsec⟩ := rr_metaTail_spec url parseOk .b2 bs _ r0 m
            hs0 hlen hm'
          refine rr_bundleBody_ok _ bs r0 _ sos r3 ys l S m.requests exs ?_ hsos hfit hr3 hsec hl
          unfold rp_pro
          rw [if_neg (by decide)]
          exact hpro

/-! ### 7. corollaries, non-vacuity, strictness -/

/-- the linear bound of `good_certChain` holds in particular for every chain `ReadCertChain` accepts, and the
    skeleton's verdict on those is `ok` -/
theorem rr_certChain_cost (parseOk : Bytes → Bool) (bs : Bytes) (h : (CertChain.read parseOk bs).isSome = true) :
    (RM.run certChain bs).1 = some () ∧ (RM.run certChain bs).2.alloc ≤ 6 * bs.length + 8 ∧
      (RM.run certChain bs).2.steps ≤ 6 * bs.length + 8 :=
  ⟨rr_certChain parseOk bs h, certChain_linear bs⟩

theorem rr_sxgRead_cost (url : Sxg.UrlFacts) (bs : Bytes) (e : Sxg.Exchange) (h : Sxg.read url bs = .ok e) :
    (RM.run sxgRead bs).1 = some () ∧ (RM.run sxgRead bs).2.alloc ≤ 7 * bs.length + (2 ^ 24 + 6) ∧
      (RM.run sxgRead bs).2.steps ≤ 7 * bs.length + (2 ^ 24 + 6) :=
  ⟨rr_sxgRead url bs e h, sxgRead_linear bs⟩

theorem rr_signedSubset_cost (urlOk : Bytes → Bool) (bs : Bytes) (ss : BSig.SignedSubset)
    (h : BSig.decodeSignedSubset urlOk bs = some ss) :
    (RM.run signedSubset bs).1 = some () ∧ (RM.run signedSubset bs).2.alloc ≤ 4 * bs.length + 9 ∧
      (RM.run signedSubset bs).2.steps ≤ 4 * bs.length + 9 :=
  ⟨rr_signedSubset urlOk bs ss h, signedSubset_linear bs⟩

/-- for an accepted bundle the general bound of `bundleRead_general` reads: linear in the input plus 8 units per
    byte declared by the index entries, of which there is exactly one per exchange -/
theorem rr_bundleRead_cost (url : Bundle.BUrlFacts) (parseOk : Bytes → Bool) (bs : Bytes) (b : Bundle.Bundle)
    (hlen : bs.length < 2 ^ 64) (h : Bundle.read url parseOk bs = .ok b) :
    (bundleRead bs).1 = some () ∧ (bundleRead bs).2.2.length = b.exchanges.length ∧
      (bundleRead bs).2.1.m ≤ 12 * bs.length + 520 + ((bundleRead bs).2.2.map (fun e => 8 * e.2 + 8)).sum :=
  ⟨(rr_bundleRead url parseOk bs b hlen h).1, (rr_bundleRead url parseOk bs b hlen h).2, bundleRead_general bs⟩

/-- a b2 bundle the *full* model accepts: section table `["index", 5, "responses", 17]`, index `{"": [0, 17]}`, one
    response with header map `{":status": "200"}` and a one-byte body -/
def rr_b2ok : Bytes := [133, 72, 240, 159, 140, 144, 240, 159, 147, 166, 68, 98, 50, 0, 0,
  0x53, 0x84, 0x65, 105, 110, 100, 101, 120, 0x05, 0x69, 114, 101, 115, 112, 111, 110, 115, 101, 115, 0x11,
  0x82,
  0xa1, 0x60, 0x82, 0x00, 0x11,
  0x82, 0x4d, 0xa1, 0x47, 58, 115, 116, 97, 116, 117, 115, 0x43, 50, 48, 48, 0x41, 7]

/-- `url.Parse` stub: every string is an absolute URL without fragment or credentials -/
def rr_urlAny : Bundle.BUrlFacts := fun s => some (false, false, true, s)

/-- the hypothesis of `rr_bundleRead` is satisfiable … -/
example : (Bundle.read rr_urlAny (fun _ => true) rr_b2ok).isOk = true := by decide +kernel
/-- … and its conclusion checks out by evaluation -/
example : (bundleRead rr_b2ok).1 = some () ∧ (bundleRead rr_b2ok).2.2 = [(0, 17)] := by decide +kernel

/-- the inclusion is strict: the skeleton accepts `rp_b2one` (empty header map), the full model refuses it for
    lack of a `:status` pseudo-header -/
example : Bundle.read rr_urlAny (fun _ => true) rp_b2one = .error ∧ (bundleRead rp_b2one).1 = some () := by
  decide +kernel

/-- `ReadCertChain`: accepted chain (magic string, `cert` and `ocsp` entries) … -/
example : (CertChain.read (fun _ => true) [0x82, 0x67, 0xF0, 0x9F, 0x93, 0x9C, 0xE2, 0x9B, 0x93,
    0xa2, 0x64, 99, 101, 114, 116, 0x41, 7, 0x64, 111, 99, 115, 112, 0x41, 8]).isSome = true := by decide +kernel
/-- … and an input only the skeleton accepts (no magic string, no `cert` key) -/
example : CertChain.read (fun _ => true) [0x82, 0x60, 0xa1, 0x60, 0x41, 0x07] = none ∧
    (RM.run certChain [0x82, 0x60, 0xa1, 0x60, 0x41, 0x07]).1 = some () := by decide +kernel

/-- `ReadExchange`: a b3 exchange with empty fallback URL, empty signature, header map `{":status": "200"}` -/
example : (match Sxg.read (fun _ => some (Sxg.https, [], []))
      (sxgMagicB3 ++ [0, 0, 0, 0, 0, 0, 0, 13, 0xa1, 0x47, 58, 115, 116, 97, 116, 117, 115, 0x43, 50, 48, 48]) with
    | .ok _ => true | _ => false) = true := by decide +kernel

/-
  Summary.

  Delivered (all without `sorry`):
    rr_head / rr_head_iff / rr_ofType / rr_bytesOfType / rr_byteString / rr_textString / rr_byteStringX
        the result component of each RM primitive equals the Option-valued decoder of Model/Cbor.lean, from every
        starting cost;
    rr_cbor_uint / _arrayHeader / _mapHeader / _bytes / _text     exact agreement (`isSome = isSome`);
    rr_certChain, rr_signedSubset, rr_sxgRead, rr_mice             full model accepts → skeleton accepts;
    rr_loadResponse (response half), rr_metaTail_spec (metadata half), rr_bundleRead (both, plus the index length).

  Deviations from the requested statements:
    * `rr_bundleRead` carries the hypothesis `bs.length < 2 ^ 64`, exactly as the memory-safety theorems of
      Proofs/BundleSafe.lean do: the full model computes section and response offsets in wrapping `uint64`
      arithmetic (`w64`), the skeleton in `Nat`; they agree when nothing wraps, which `sectionsFit` guarantees for
      inputs shorter than 2^64 bytes (every Go slice is).
    * `rr_mice` is stated with the decoder state `st` as a parameter: `newDecoder … = .ok st → …`.
    * `rr_head` is an equation between the result component and `decodeHead` (reshaped by `Option.map`);
      `rr_head_iff` is the requested equivalence, with the resulting cost existentially quantified.

  What the bundle refinement rests on (each is a check the *full* model makes; without it the two would differ):
    * the duplicate-name check of `decodeSectionPairs`: the full model takes the *first* section named "responses"
      (`findSection`), the skeleton the *last* entry of the table; they coincide because `loadMetadata` insists the
      last entry is "responses" and names are pairwise distinct (`rr_decodeSectionPairs`);
    * `sectionsFit` and `makeRelative`'s range check: no `uint64` wrap-around, and the slice of a response taken
      from the responses section equals the slice taken from the whole file (`rr_slice`).

  No input was found on which the full model accepts and the skeleton rejects; the theorems above show there is
  none (for bundles, among inputs shorter than 2^64 bytes).  Unfinished targets: none.
-/

end WebPkg.Res
