import WebPkg.Model.Resource
/-
  Lemma library for the resource layer (property C10): "cost is linear in the input" made compositional.

  `Good A S F p`  -- on success  cost' + A*|rest| ≤ cost + A*|input| + S  and the rest is no longer than the input;
                     on failure  cost' ≤ cost + A*|input| + F
  `Prog A F p`    -- `Good A 0 F p` with one spare unit on success (so a count-driven loop can pay for its
                     per-iteration step whatever count is declared)
  `Gen A K S F p` -- the common generalisation (K spare units, S additive slack): `Good = Gen _ 0 _ _`,
                     `Prog = Gen _ 1 0 _`.  One bind lemma (`gen_bind`) serves all three.
-/
namespace WebPkg.Res
open WebPkg.Cbor

/-- combined measure -/
def Cost.m (c : Cost) : Nat := c.alloc + c.steps

/-- `Good A S F p`: on success the cost grows by at most `A * consumed + S` and the rest is no longer than the
    input; on failure the cost grows by at most `A * |input| + F`. -/
def Good {α} (A S F : Nat) (p : RM α) : Prop :=
  ∀ (bs : Bytes) (c : Cost),
    (∀ a rest c', p bs c = (some (a, rest), c') →
        c'.m + A * rest.length ≤ c.m + A * bs.length + S ∧ rest.length ≤ bs.length) ∧
    (∀ c', p bs c = (none, c') → c'.m ≤ c.m + A * bs.length + F)

/-- `Prog A F p`: like `Good A 0 F` but every success pays for one extra unit (so it consumes at least one byte
    when A > 0): this is what lets a count-driven loop run any declared number of times. -/
def Prog {α} (A F : Nat) (p : RM α) : Prop :=
  ∀ (bs : Bytes) (c : Cost),
    (∀ a rest c', p bs c = (some (a, rest), c') →
        c'.m + A * rest.length + 1 ≤ c.m + A * bs.length ∧ rest.length ≤ bs.length) ∧
    (∀ c', p bs c = (none, c') → c'.m ≤ c.m + A * bs.length + F)

/-- common generalisation: `K` spare units and `S` additive slack on success -/
def Gen {α} (A K S F : Nat) (p : RM α) : Prop :=
  ∀ (bs : Bytes) (c : Cost),
    (∀ a rest c', p bs c = (some (a, rest), c') →
        c'.m + A * rest.length + K ≤ c.m + A * bs.length + S ∧ rest.length ≤ bs.length) ∧
    (∀ c', p bs c = (none, c') → c'.m ≤ c.m + A * bs.length + F)

variable {α β : Type} {A A' K K' K₁ K₂ S S' S₁ S₂ F F' F₁ F₂ : Nat}

/-! ### intro / elim -/

theorem Good.intro {p : RM α}
    (hs : ∀ bs c a rest c', p bs c = (some (a, rest), c') →
        c'.m + A * rest.length ≤ c.m + A * bs.length + S ∧ rest.length ≤ bs.length)
    (hn : ∀ bs c c', p bs c = (none, c') → c'.m ≤ c.m + A * bs.length + F) : Good A S F p :=
  fun bs c => ⟨hs bs c, hn bs c⟩

theorem Good.some {p : RM α} (h : Good A S F p) {bs c a rest c'} (e : p bs c = (some (a, rest), c')) :
    c'.m + A * rest.length ≤ c.m + A * bs.length + S ∧ rest.length ≤ bs.length := (h bs c).1 a rest c' e

theorem Good.none {p : RM α} (h : Good A S F p) {bs c c'} (e : p bs c = (none, c')) :
    c'.m ≤ c.m + A * bs.length + F := (h bs c).2 c' e

theorem Prog.intro {p : RM α}
    (hs : ∀ bs c a rest c', p bs c = (some (a, rest), c') →
        c'.m + A * rest.length + 1 ≤ c.m + A * bs.length ∧ rest.length ≤ bs.length)
    (hn : ∀ bs c c', p bs c = (none, c') → c'.m ≤ c.m + A * bs.length + F) : Prog A F p :=
  fun bs c => ⟨hs bs c, hn bs c⟩

theorem Prog.some {p : RM α} (h : Prog A F p) {bs c a rest c'} (e : p bs c = (some (a, rest), c')) :
    c'.m + A * rest.length + 1 ≤ c.m + A * bs.length ∧ rest.length ≤ bs.length := (h bs c).1 a rest c' e

theorem Prog.none {p : RM α} (h : Prog A F p) {bs c c'} (e : p bs c = (none, c')) :
    c'.m ≤ c.m + A * bs.length + F := (h bs c).2 c' e

/-- the `match` formulation of `Good` -/
theorem good_iff_match {p : RM α} : Good A S F p ↔
    ∀ (bs : Bytes) (c : Cost),
      match p bs c with
      | (some (_, rest), c') => c'.m + A * rest.length ≤ c.m + A * bs.length + S ∧ rest.length ≤ bs.length
      | (none, c') => c'.m ≤ c.m + A * bs.length + F := by
  constructor
  · intro h bs c
    have hs := (h bs c).1
    have hn := (h bs c).2
    cases e : p bs c with | mk o c' =>
    cases o with
    | none => exact hn c' e
    | some ar => exact hs ar.1 ar.2 c' e
  · intro h bs c
    have := h bs c
    constructor
    · intro a rest c' e
      rw [e] at this; exact this
    · intro c' e
      rw [e] at this; exact this

/-- the `match` formulation of `Prog` -/
theorem prog_iff_match {p : RM α} : Prog A F p ↔
    ∀ (bs : Bytes) (c : Cost),
      match p bs c with
      | (some (_, rest), c') => c'.m + A * rest.length + 1 ≤ c.m + A * bs.length ∧ rest.length ≤ bs.length
      | (none, c') => c'.m ≤ c.m + A * bs.length + F := by
  constructor
  · intro h bs c
    have hs := (h bs c).1
    have hn := (h bs c).2
    cases e : p bs c with | mk o c' =>
    cases o with
    | none => exact hn c' e
    | some ar => exact hs ar.1 ar.2 c' e
  · intro h bs c
    have := h bs c
    constructor
    · intro a rest c' e
      rw [e] at this; exact this
    · intro c' e
      rw [e] at this; exact this

theorem good_iff_gen {p : RM α} : Good A S F p ↔ Gen A 0 S F p := Iff.rfl
theorem prog_iff_gen {p : RM α} : Prog A F p ↔ Gen A 1 0 F p := Iff.rfl

theorem Good.gen {p : RM α} (h : Good A S F p) : Gen A 0 S F p := h
theorem Prog.gen {p : RM α} (h : Prog A F p) : Gen A 1 0 F p := h
theorem Gen.good {p : RM α} (h : Gen A 0 S F p) : Good A S F p := h
theorem Gen.prog {p : RM α} (h : Gen A 1 0 F p) : Prog A F p := h

/-! ### monotonicity -/

/-- weaken: larger rate, fewer spare units, more slack; spare units and slack may be traded one for one
    (`K' + S ≤ K + S'`) -/
theorem Gen.mono {p : RM α} (h : Gen A K S F p) (hA : A ≤ A') (hKS : K' + S ≤ K + S') (hF : F ≤ F') :
    Gen A' K' S' F' p := by
  intro bs c
  constructor
  · intro a rest c' e
    have ⟨h1, h2⟩ := (h bs c).1 a rest c' e
    refine ⟨?_, h2⟩
    obtain ⟨d, rfl⟩ := Nat.exists_eq_add_of_le hA
    obtain ⟨r, hr⟩ := Nat.exists_eq_add_of_le h2
    rw [hr, Nat.add_mul, Nat.add_mul, Nat.mul_add, Nat.mul_add]
    rw [hr, Nat.mul_add] at h1
    omega
  · intro c' e
    have h1 := (h bs c).2 c' e
    have : A * bs.length ≤ A' * bs.length := Nat.mul_le_mul_right _ hA
    omega

theorem Good.mono {p : RM α} (h : Good A S F p) (hA : A ≤ A') (hS : S ≤ S') (hF : F ≤ F') :
    Good A' S' F' p :=
  Gen.mono (K := 0) (K' := 0) h hA (by omega) hF

theorem Prog.mono {p : RM α} (h : Prog A F p) (hA : A ≤ A') (hF : F ≤ F') : Prog A' F' p :=
  Gen.mono (K := 1) (K' := 1) (S := 0) (S' := 0) h hA (Nat.le_refl _) hF

theorem Prog.good {p : RM α} (h : Prog A F p) : Good A 0 F p :=
  Gen.mono (K := 1) (K' := 0) (S := 0) (S' := 0) h (Nat.le_refl _) (by omega) (Nat.le_refl _)

/-- a `Good` parser with no additive slack that is known to have one spare unit -/
theorem Gen.toProg {p : RM α} (h : Gen A K S F p) (hKS : 1 + S ≤ K) : Prog A F p :=
  Gen.mono (K' := 1) (S' := 0) h (Nat.le_refl _) (by omega) (Nat.le_refl _)

theorem Gen.toGood {p : RM α} (h : Gen A K S F p) : Good A S F p :=
  Gen.mono (K' := 0) (S' := S) h (Nat.le_refl _) (by omega) (Nat.le_refl _)

/-! ### the monad structure -/

@[simp] theorem RM.bind_eq (p : RM α) (f : α → RM β) : (p >>= f) = RM.bind p f := rfl
@[simp] theorem RM.pure_eq (a : α) : (pure a : RM α) = RM.pure a := rfl
theorem RM.map_eq (g : α → β) (p : RM α) : (g <$> p) = RM.bind p (fun a => RM.pure (g a)) := rfl

theorem RM.bind_some_eq {p : RM α} {f : α → RM β} {bs : Bytes} {c c1 : Cost} {a : α} {r : Bytes}
    (h : p bs c = (some (a, r), c1)) : RM.bind p f bs c = f a r c1 := by
  unfold RM.bind; rw [h]

theorem RM.bind_none_eq {p : RM α} {f : α → RM β} {bs : Bytes} {c c1 : Cost}
    (h : p bs c = (none, c1)) : RM.bind p f bs c = (none, c1) := by
  unfold RM.bind; rw [h]

/-- inversion of a successful `bind` -/
theorem RM.bind_some_inv {p : RM α} {f : α → RM β} {bs : Bytes} {c c' : Cost} {b : β} {rest : Bytes}
    (h : RM.bind p f bs c = (some (b, rest), c')) :
    ∃ a r1 c1, p bs c = (some (a, r1), c1) ∧ f a r1 c1 = (some (b, rest), c') := by
  cases e : p bs c with | mk o c1 =>
  cases o with
  | none => rw [RM.bind_none_eq e] at h; cases h
  | some ar =>
    obtain ⟨a, r1⟩ := ar
    rw [RM.bind_some_eq e] at h
    exact ⟨a, r1, c1, rfl, h⟩

/-- inversion of a failing `bind` -/
theorem RM.bind_none_inv {p : RM α} {f : α → RM β} {bs : Bytes} {c c' : Cost}
    (h : RM.bind p f bs c = (none, c')) :
    p bs c = (none, c') ∨ ∃ a r1 c1, p bs c = (some (a, r1), c1) ∧ f a r1 c1 = (none, c') := by
  cases e : p bs c with | mk o c1 =>
  cases o with
  | none => rw [RM.bind_none_eq e] at h; cases h; exact Or.inl rfl
  | some ar =>
    obtain ⟨a, r1⟩ := ar
    rw [RM.bind_some_eq e] at h
    exact Or.inr ⟨a, r1, c1, rfl, h⟩

/-- the one bind lemma: spare units and slack add up; a failure of the continuation is charged the slack of
    the first part less its spare units -/
theorem gen_bind {p : RM α} {f : α → RM β} (hp : Gen A K₁ S₁ F₁ p) (hf : ∀ a, Gen A K₂ S₂ F₂ (f a)) :
    Gen A (K₁ + K₂) (S₁ + S₂) (max F₁ (S₁ + F₂ - K₁)) (RM.bind p f) := by
  intro bs c
  constructor
  · intro b rest c' e
    obtain ⟨a, r1, c1, e1, e2⟩ := RM.bind_some_inv e
    have ⟨h1, h2⟩ := (hp bs c).1 a r1 c1 e1
    have ⟨h3, h4⟩ := (hf a r1 c1).1 b rest c' e2
    omega
  · intro c' e
    rcases RM.bind_none_inv e with e1 | ⟨a, r1, c1, e1, e2⟩
    · have := (hp bs c).2 c' e1
      have := Nat.le_max_left F₁ (S₁ + F₂ - K₁)
      omega
    · have ⟨h1, _⟩ := (hp bs c).1 a r1 c1 e1
      have h3 := (hf a r1 c1).2 c' e2
      have := Nat.le_max_right F₁ (S₁ + F₂ - K₁)
      omega

theorem good_bind {p : RM α} {f : α → RM β} (hp : Good A S₁ F₁ p) (hf : ∀ a, Good A S₂ F₂ (f a)) :
    Good A (S₁ + S₂) (max F₁ (S₁ + F₂)) (RM.bind p f) := by
  refine Gen.mono (gen_bind hp.gen (fun a => (hf a).gen)) (Nat.le_refl _) (Nat.le_refl _) ?_
  have := Nat.le_max_left F₁ (S₁ + F₂)
  have := Nat.le_max_right F₁ (S₁ + F₂)
  exact Nat.max_le.mpr ⟨by omega, by omega⟩

theorem prog_bind_left {p : RM α} {f : α → RM β} (hp : Prog A F₁ p) (hf : ∀ a, Good A 0 F₂ (f a)) :
    Prog A (max F₁ F₂) (RM.bind p f) := by
  refine Gen.mono (K' := 1) (S' := 0) (gen_bind hp.gen (fun a => (hf a).gen)) (Nat.le_refl _) (Nat.le_refl _) ?_
  have := Nat.le_max_left F₁ F₂
  have := Nat.le_max_right F₁ F₂
  exact Nat.max_le.mpr ⟨by omega, by omega⟩

theorem prog_bind_right {p : RM α} {f : α → RM β} (hp : Good A 0 F₁ p) (hf : ∀ a, Prog A F₂ (f a)) :
    Prog A (max F₁ F₂) (RM.bind p f) := by
  refine Gen.mono (K' := 1) (S' := 0) (gen_bind hp.gen (fun a => (hf a).gen)) (Nat.le_refl _) (Nat.le_refl _) ?_
  have := Nat.le_max_left F₁ F₂
  have := Nat.le_max_right F₁ F₂
  exact Nat.max_le.mpr ⟨by omega, by omega⟩

/-- `apply`-friendly form of `good_bind`: the target constants are given, the arithmetic is a side goal -/
theorem good_bind_le {p : RM α} {f : α → RM β} (hp : Good A S₁ F₁ p) (hf : ∀ a, Good A S₂ F₂ (f a))
    (hS : S₁ + S₂ ≤ S) (hF₁ : F₁ ≤ F) (hF₂ : S₁ + F₂ ≤ F) : Good A S F (RM.bind p f) :=
  (good_bind hp hf).mono (Nat.le_refl _) hS (Nat.max_le.mpr ⟨hF₁, hF₂⟩)

theorem prog_bind_left_le {p : RM α} {f : α → RM β} (hp : Prog A F₁ p) (hf : ∀ a, Good A 0 F₂ (f a))
    (hF₁ : F₁ ≤ F) (hF₂ : F₂ ≤ F) : Prog A F (RM.bind p f) :=
  (prog_bind_left hp hf).mono (Nat.le_refl _) (Nat.max_le.mpr ⟨hF₁, hF₂⟩)

theorem prog_bind_right_le {p : RM α} {f : α → RM β} (hp : Good A 0 F₁ p) (hf : ∀ a, Prog A F₂ (f a))
    (hF₁ : F₁ ≤ F) (hF₂ : F₂ ≤ F) : Prog A F (RM.bind p f) :=
  (prog_bind_right hp hf).mono (Nat.le_refl _) (Nat.max_le.mpr ⟨hF₁, hF₂⟩)

/-! ### leaves -/

theorem gen_pure (a : α) : Gen A 0 0 0 (RM.pure a) := by
  intro bs c
  constructor
  · intro a' rest c' e
    unfold RM.pure at e
    cases e
    omega
  · intro c' e
    unfold RM.pure at e
    cases e

theorem good_pure' (a : α) : Good A 0 0 (RM.pure a) := gen_pure a
theorem good_pure (a : α) : Good A 0 0 (pure a : RM α) := gen_pure a

theorem good_fail : Good A 0 0 (RM.fail : RM α) := by
  intro bs c
  constructor
  · intro a' rest c' e
    unfold RM.fail at e
    cases e
  · intro c' e
    unfold RM.fail at e
    cases e
    omega

theorem good_guard (b : Bool) : Good A 0 0 (RM.guard b) := by
  unfold RM.guard
  cases b
  · exact good_fail
  · exact good_pure ()

theorem good_ofOption (o : Option α) : Good A 0 0 (RM.ofOption o) := by
  cases o with
  | none => exact good_fail
  | some a => exact good_pure a

theorem good_charge (x y : Nat) : Good A (x + y) 0 (RM.charge x y) := by
  intro bs c
  constructor
  · intro a' rest c' e
    unfold RM.charge at e
    cases e
    simp only [Cost.m]
    omega
  · intro c' e
    unfold RM.charge at e
    cases e

theorem good_remaining : Good A 0 0 RM.remaining := by
  intro bs c
  constructor
  · intro a' rest c' e
    unfold RM.remaining at e
    cases e
    omega
  · intro c' e
    unfold RM.remaining at e
    cases e

theorem good_ite {c : Prop} [Decidable c] {p q : RM α} (hp : c → Good A S F p) (hq : ¬c → Good A S F q) :
    Good A S F (if c then p else q) := by
  by_cases h : c
  · rw [if_pos h]; exact hp h
  · rw [if_neg h]; exact hq h

theorem prog_ite {c : Prop} [Decidable c] {p q : RM α} (hp : c → Prog A F p) (hq : ¬c → Prog A F q) :
    Prog A F (if c then p else q) := by
  by_cases h : c
  · rw [if_pos h]; exact hp h
  · rw [if_neg h]; exact hq h

/-! ### `Functor.map` and `… ; return x` -/

/-- post-processing the result with a pure function changes nothing -/
theorem gen_bind_pure {p : RM α} (g : α → β) (h : Gen A K S F p) :
    Gen A K S F (RM.bind p (fun a => RM.pure (g a))) := by
  intro bs c
  constructor
  · intro b rest c' e
    obtain ⟨a, r1, c1, e1, e2⟩ := RM.bind_some_inv e
    unfold RM.pure at e2
    cases e2
    exact (h bs c).1 a rest c' e1
  · intro c' e
    rcases RM.bind_none_inv e with e1 | ⟨a, r1, c1, e1, e2⟩
    · exact (h bs c).2 c' e1
    · unfold RM.pure at e2
      cases e2

theorem good_bind_pure {p : RM α} (g : α → β) (h : Good A S F p) :
    Good A S F (RM.bind p (fun a => pure (g a))) := gen_bind_pure g h.gen

theorem prog_bind_pure {p : RM α} (g : α → β) (h : Prog A F p) :
    Prog A F (RM.bind p (fun a => pure (g a))) := gen_bind_pure g h.gen

theorem good_map {p : RM α} (g : α → β) (h : Good A S F p) : Good A S F (g <$> p) := by
  rw [RM.map_eq]; exact gen_bind_pure g h.gen

theorem prog_map {p : RM α} (g : α → β) (h : Prog A F p) : Prog A F (g <$> p) := by
  rw [RM.map_eq]; exact gen_bind_pure g h.gen

/-! ### CBOR primitives (A = 4) -/

theorem nfollow_le (ai : Nat) : (nfollow ai).getD 0 ≤ 8 := by
  unfold nfollow
  repeat' split
  all_goals simp

theorem decodeArg_some {mt ai : Nat} {rest : Bytes} {mt' n : Nat} {rest' : Bytes}
    (h : decodeArg mt ai rest = some (mt', n, rest')) :
    rest.length = (nfollow ai).getD 0 + rest'.length := by
  unfold decodeArg at h
  cases hn : nfollow ai with
  | none => rw [hn] at h; cases h
  | some k =>
    rw [hn] at h
    cases k with
    | zero =>
      simp only [Option.some.injEq, Prod.mk.injEq] at h
      obtain ⟨_, _, rfl⟩ := h
      simp
    | succ k =>
      simp only [] at h
      by_cases hl : rest.length < k + 1
      · rw [if_pos hl] at h; cases h
      · rw [if_neg hl] at h
        simp only [Option.some.injEq, Prod.mk.injEq] at h
        obtain ⟨_, _, rfl⟩ := h
        simp only [Option.getD_some, List.length_drop]
        omega

/-- exact account of a successful head decode: `1 + k` bytes consumed, `2 + k` units spent (`k ≤ 8`) -/
theorem head_some {bs : Bytes} {c c' : Cost} {x : Nat × Nat} {rest : Bytes}
    (h : RM.head bs c = (some (x, rest), c')) :
    ∃ k, k ≤ 8 ∧ bs.length = 1 + k + rest.length ∧ c'.m = c.m + 2 + k := by
  cases bs with
  | nil => unfold RM.head at h; cases h
  | cons b r =>
    unfold RM.head at h
    simp only [] at h
    cases hd : decodeArg (b.toNat / 32) (b.toNat % 32) r with
    | none => rw [hd] at h; cases h
    | some t =>
      obtain ⟨mt, n, r'⟩ := t
      rw [hd] at h
      simp only [Prod.mk.injEq, Option.some.injEq] at h
      obtain ⟨⟨_, rfl⟩, rfl⟩ := h
      refine ⟨(nfollow (b.toNat % 32)).getD 0, nfollow_le _, ?_, ?_⟩
      · rw [List.length_cons, decodeArg_some hd]; omega
      · simp only [Cost.m]; omega

/-- a failing head decode spends at most 10 units, and only 2 on empty input -/
theorem head_none {bs : Bytes} {c c' : Cost} (h : RM.head bs c = (none, c')) :
    c'.m ≤ c.m + 10 ∧ (bs.length = 0 → c'.m = c.m + 2) := by
  cases bs with
  | nil =>
    unfold RM.head at h
    cases h
    simp only [Cost.m]
    omega
  | cons b r =>
    unfold RM.head at h
    simp only [] at h
    cases hd : decodeArg (b.toNat / 32) (b.toNat % 32) r with
    | some t => rw [hd] at h; cases h
    | none =>
      rw [hd] at h
      simp only [Prod.mk.injEq] at h
      obtain ⟨_, rfl⟩ := h
      have := nfollow_le (b.toNat % 32)
      simp only [Cost.m, List.length_cons]
      omega

/-- the head decoder has two spare units; its failure constant 6 is attained by the one-byte input `[0x1b]` -/
theorem gen_head : Gen 4 2 0 6 RM.head := by
  intro bs c
  constructor
  · intro x rest c' e
    obtain ⟨k, _, h2, h3⟩ := head_some e
    omega
  · intro c' e
    have ⟨h1, h2⟩ := head_none e
    cases bs with
    | nil => have := h2 rfl; omega
    | cons b r => simp only [List.length_cons]; omega

theorem prog_head : Prog 4 10 RM.head :=
  gen_head.mono (K' := 1) (S' := 0) (Nat.le_refl _) (by omega) (by omega)

theorem RM.ofType_eq (t : Nat) :
    RM.ofType t = RM.bind RM.head (fun x => RM.bind (RM.guard (x.1 == t)) (fun _ => RM.pure x.2)) := rfl

theorem gen_ofType (t : Nat) : Gen 4 2 0 6 (RM.ofType t) := by
  rw [RM.ofType_eq]
  refine Gen.mono (gen_bind gen_head (fun x => gen_bind (good_guard (x.1 == t)).gen (fun _ => gen_pure x.2)))
    (Nat.le_refl _) (Nat.le_refl _) ?_
  exact Nat.max_le.mpr ⟨by omega, by simp⟩

theorem prog_ofType (t : Nat) : Prog 4 10 (RM.ofType t) :=
  (gen_ofType t).mono (K' := 1) (S' := 0) (Nat.le_refl _) (by omega) (by omega)

/-- exact account of a successful `ofType` -/
theorem ofType_some {t : Nat} {bs : Bytes} {c c' : Cost} {n : Nat} {rest : Bytes}
    (h : RM.ofType t bs c = (some (n, rest), c')) :
    ∃ k, k ≤ 8 ∧ bs.length = 1 + k + rest.length ∧ c'.m = c.m + 2 + k := by
  rw [RM.ofType_eq] at h
  obtain ⟨x, r1, c1, e1, e2⟩ := RM.bind_some_inv h
  obtain ⟨u, r2, c2, e3, e4⟩ := RM.bind_some_inv e2
  have hg : r2 = r1 ∧ c2 = c1 := by
    unfold RM.guard at e3
    cases hb : (x.1 == t) with
    | false => rw [hb] at e3; cases e3
    | true => rw [hb] at e3; cases e3; exact ⟨rfl, rfl⟩
  obtain ⟨rfl, rfl⟩ := hg
  unfold RM.pure at e4
  cases e4
  exact head_some e1

/-- the `io.CopyN` step of `decodeBytesOfType` -/
def copyN (n : Nat) : RM Bytes := fun bs c =>
  let c1 : Cost := { alloc := c.alloc + 2 * min n bs.length, steps := c.steps + 1 }
  if bs.length < n then (none, c1) else (some (bs.take n, bs.drop n), c1)

theorem RM.bytesOfType_eq (t : Nat) :
    RM.bytesOfType t =
      RM.bind (RM.ofType t) (fun n => RM.bind (RM.guard (decide (n < 2 ^ 63))) (fun _ => copyN n)) := rfl

theorem copyN_some {n : Nat} {bs : Bytes} {c c' : Cost} {s rest : Bytes}
    (h : copyN n bs c = (some (s, rest), c')) :
    s.length = n ∧ bs.length = n + rest.length ∧ c'.m = c.m + 2 * n + 1 := by
  unfold copyN at h
  simp only [] at h
  by_cases hl : bs.length < n
  · rw [if_pos hl] at h; cases h
  · rw [if_neg hl] at h
    simp only [Prod.mk.injEq, Option.some.injEq] at h
    obtain ⟨⟨rfl, rfl⟩, rfl⟩ := h
    have hm : min n bs.length = n := Nat.min_eq_left (by omega)
    refine ⟨?_, ?_, ?_⟩
    · rw [List.length_take]; exact hm
    · rw [List.length_drop]; omega
    · simp only [Cost.m, hm]; omega

theorem copyN_none {n : Nat} {bs : Bytes} {c c' : Cost} (h : copyN n bs c = (none, c')) :
    c'.m = c.m + 2 * bs.length + 1 := by
  unfold copyN at h
  simp only [] at h
  by_cases hl : bs.length < n
  · rw [if_pos hl] at h
    simp only [Prod.mk.injEq] at h
    obtain ⟨_, rfl⟩ := h
    have hm : min n bs.length = bs.length := Nat.min_eq_right (by omega)
    simp only [Cost.m, hm]; omega
  · rw [if_neg hl] at h; cases h

theorem gen_copyN (n : Nat) : Gen 4 0 1 1 (copyN n) := by
  intro bs c
  constructor
  · intro s rest c' e
    obtain ⟨_, h2, h3⟩ := copyN_some e
    omega
  · intro c' e
    have := copyN_none e
    omega

/-- `decodeBytesOfType` keeps one spare unit; failure constant 6 (one-byte input `[0x5b]`: 10 units spent) -/
theorem gen_bytesOfType (t : Nat) : Gen 4 1 0 6 (RM.bytesOfType t) := by
  rw [RM.bytesOfType_eq]
  refine Gen.mono
    (gen_bind (gen_ofType t) (fun n => gen_bind (good_guard (decide (n < 2 ^ 63))).gen (fun _ => gen_copyN n)))
    (Nat.le_refl _) (by omega) ?_
  exact Nat.max_le.mpr ⟨by omega, by simp⟩

theorem prog_bytesOfType (t : Nat) : Prog 4 6 (RM.bytesOfType t) := gen_bytesOfType t

theorem prog_byteString : Prog 4 6 RM.byteString := prog_bytesOfType 2

/-- exact account of a successful `decodeBytesOfType`: head (`1 + k` bytes, `2 + k` units), then `|s|` bytes copied
    at 2 units each plus one step -/
theorem bytesOfType_some {t : Nat} {bs : Bytes} {c c' : Cost} {s rest : Bytes}
    (h : RM.bytesOfType t bs c = (some (s, rest), c')) :
    ∃ k, k ≤ 8 ∧ bs.length = 1 + k + s.length + rest.length ∧ c'.m = c.m + 3 + k + 2 * s.length := by
  rw [RM.bytesOfType_eq] at h
  obtain ⟨n, r1, c1, e1, e2⟩ := RM.bind_some_inv h
  obtain ⟨u, r2, c2, e3, e4⟩ := RM.bind_some_inv e2
  have hg : r2 = r1 ∧ c2 = c1 := by
    unfold RM.guard at e3
    cases hb : decide (n < 2 ^ 63) with
    | false => rw [hb] at e3; cases e3
    | true => rw [hb] at e3; cases e3; exact ⟨rfl, rfl⟩
  obtain ⟨rfl, rfl⟩ := hg
  obtain ⟨k, hk, h1, h2⟩ := ofType_some e1
  obtain ⟨h3, h4, h5⟩ := copyN_some e4
  exact ⟨k, hk, by omega, by omega⟩

/-- a byte string prepays for its content: whatever is done next may spend up to `A + 2` further units per content
    byte (at rate `A + 4`) and the whole still has a spare unit.  (`byteStringX`, `textString`, and
    `byteString` followed by `onSlice` are all instances.) -/
theorem gen_bytesOfType_bind {t : Nat} {f : Bytes → RM β}
    (hf : ∀ s, Gen (A + 4) K ((A + 2) * s.length + S) ((A + 2) * s.length + F) (f s)) :
    Gen (A + 4) (K + 1) S (max 6 F) (RM.bind (RM.bytesOfType t) f) := by
  intro bs c
  constructor
  · intro b rest c' e
    obtain ⟨s, r1, c1, e1, e2⟩ := RM.bind_some_inv e
    obtain ⟨k, hk, h1, h2⟩ := bytesOfType_some e1
    have ⟨h3, h4⟩ := (hf s r1 c1).1 b rest c' e2
    refine ⟨?_, by omega⟩
    rw [h1, Nat.mul_add, Nat.mul_add, Nat.mul_add, Nat.mul_one]
    have e4 : (A + 4) * s.length = (A + 2) * s.length + 2 * s.length := by
      rw [Nat.add_mul, Nat.add_mul]; omega
    have : k ≤ (A + 4) * k := Nat.le_mul_of_pos_left _ (by omega)
    omega
  · intro c' e
    have := Nat.le_max_left 6 F
    have := Nat.le_max_right 6 F
    rcases RM.bind_none_inv e with e1 | ⟨s, r1, c1, e1, e2⟩
    · have h1 := (gen_bytesOfType t bs c).2 c' e1
      have : 4 * bs.length ≤ (A + 4) * bs.length := Nat.mul_le_mul_right _ (by omega)
      omega
    · obtain ⟨k, hk, h1, h2⟩ := bytesOfType_some e1
      have h3 := (hf s r1 c1).2 c' e2
      rw [h1, Nat.mul_add, Nat.mul_add, Nat.mul_add, Nat.mul_one]
      have e4 : (A + 4) * s.length = (A + 2) * s.length + 2 * s.length := by
        rw [Nat.add_mul, Nat.add_mul]; omega
      have : k ≤ (A + 4) * k := Nat.le_mul_of_pos_left _ (by omega)
      omega

/-- `A = 4` instance in `Good`/`Prog` vocabulary: the continuation may spend `2 * |s|` -/
theorem prog_bytesOfType_bind {t : Nat} {f : Bytes → RM β} (hf : ∀ s, Good 4 (2 * s.length) F (f s)) :
    Prog 4 (max 6 F) (RM.bind (RM.bytesOfType t) f) := by
  have := gen_bytesOfType_bind (A := 0) (K := 0) (S := 0) (F := F) (t := t) (f := f)
    (fun s => (hf s).gen.mono (Nat.le_refl _) (by omega) (by omega))
  exact this

theorem prog_byteString_bind {f : Bytes → RM β} (hf : ∀ s, Good 4 (2 * s.length) F (f s)) :
    Prog 4 (max 6 F) (RM.bind RM.byteString f) := prog_bytesOfType_bind hf

theorem RM.textString_eq :
    RM.textString = RM.bind (RM.bytesOfType 3) (fun s =>
      RM.bind (RM.guard (utf8Valid s)) (fun _ => RM.bind (RM.charge s.length 0) (fun _ => RM.pure s))) := rfl

theorem prog_textString : Prog 4 6 RM.textString := by
  rw [RM.textString_eq]
  refine (prog_bytesOfType_bind (F := 0) (fun s => ?_)).mono (Nat.le_refl _) (by decide)
  exact good_bind_le (good_guard _) (fun _ => (gen_bind_pure (fun _ => s) (good_charge s.length 0).gen).good)
    (by omega) (Nat.le_refl _) (Nat.le_refl _)

/-! ### fixed-size reads -/

theorem readN_some {n : Nat} {bs : Bytes} {c c' : Cost} {s rest : Bytes}
    (h : RM.readN n bs c = (some (s, rest), c')) :
    s.length = n ∧ bs.length = n + rest.length ∧ c'.m = c.m + n + 1 := by
  unfold RM.readN at h
  simp only [] at h
  by_cases hl : bs.length < n
  · rw [if_pos hl] at h; cases h
  · rw [if_neg hl] at h
    simp only [Prod.mk.injEq, Option.some.injEq] at h
    obtain ⟨⟨rfl, rfl⟩, rfl⟩ := h
    refine ⟨?_, ?_, ?_⟩
    · rw [List.length_take]; exact Nat.min_eq_left (by omega)
    · rw [List.length_drop]; omega
    · simp only [Cost.m]; omega

theorem readN_none {n : Nat} {bs : Bytes} {c c' : Cost} (h : RM.readN n bs c = (none, c')) :
    c'.m = c.m + n + 1 := by
  unfold RM.readN at h
  simp only [] at h
  by_cases hl : bs.length < n
  · rw [if_pos hl] at h
    simp only [Prod.mk.injEq] at h
    obtain ⟨_, rfl⟩ := h
    simp only [Cost.m]; omega
  · rw [if_neg hl] at h; cases h

theorem good_readN (n : Nat) : Good 1 1 (n + 1) (RM.readN n) := by
  intro bs c
  constructor
  · intro s rest c' e
    obtain ⟨_, h2, h3⟩ := readN_some e
    omega
  · intro c' e
    have := readN_none e
    omega

theorem RM.beUint_eq (k : Nat) : RM.beUint k = RM.bind (RM.readN k) (fun b => RM.pure (beVal b)) := rfl

theorem good_beUint (k : Nat) : Good 1 1 (k + 1) (RM.beUint k) := by
  rw [RM.beUint_eq]
  exact good_bind_le (good_readN k) (fun b => good_pure' (beVal b)) (by omega) (Nat.le_refl _) (by omega)

theorem good_readAll : Good 2 513 0 RM.readAll := by
  intro bs c
  constructor
  · intro s rest c' e
    unfold RM.readAll at e
    simp only [Prod.mk.injEq, Option.some.injEq] at e
    obtain ⟨⟨rfl, rfl⟩, rfl⟩ := e
    simp only [Cost.m, List.length_nil]
    omega
  · intro c' e
    unfold RM.readAll at e
    cases e

/-! ### the count-driven loop -/

theorem RM.loop_zero (body : α → RM α) (a : α) : RM.loop body 0 a = RM.pure a := rfl
theorem RM.loop_succ (body : α → RM α) (n : Nat) (a : α) :
    RM.loop body (n + 1) a =
      RM.bind (RM.charge 0 1) (fun _ => RM.bind (body a) (fun a' => RM.loop body n a')) := rfl

/-- The heart: the declared count `n` does not appear in the bound.  Each iteration charges one step; the spare
    unit of the `Prog` body pays for it.  (The failure constant is `F + 1`: the step of the iteration in which the
    body fails has been charged and nothing has paid for it.) -/
theorem good_loop {body : α → RM α} (hb : ∀ a, Prog A F (body a)) :
    ∀ n a, Good A 0 (F + 1) (RM.loop body n a) := by
  intro n
  induction n with
  | zero =>
    intro a
    rw [RM.loop_zero]
    exact (good_pure' a).mono (Nat.le_refl _) (Nat.le_refl _) (by omega)
  | succ n ih =>
    intro a
    rw [RM.loop_succ]
    -- body then the remaining iterations: one spare unit, failure constant F
    have h1 : Gen A 1 0 F (RM.bind (body a) (fun a' => RM.loop body n a')) :=
      Gen.mono (gen_bind (hb a).gen (fun a' => (ih a').gen)) (Nat.le_refl _) (Nat.le_refl _)
        (Nat.max_le.mpr ⟨Nat.le_refl _, by omega⟩)
    exact Gen.mono (K' := 0) (S' := 0) (gen_bind (good_charge 0 1).gen (fun _ => h1)) (Nat.le_refl _)
      (by omega) (Nat.max_le.mpr ⟨by omega, by omega⟩)

/-! ### sub-slices -/

theorem RM.onSlice_some_inv {sub : Bytes} {p : RM α} {bs : Bytes} {c c' : Cost} {a : α} {rest : Bytes}
    (h : RM.onSlice sub p bs c = (some (a, rest), c')) : rest = bs ∧ ∃ r, p sub c = (some (a, r), c') := by
  unfold RM.onSlice at h
  cases e : p sub c with | mk o c1 =>
  rw [e] at h
  cases o with
  | none => cases h
  | some ar =>
    obtain ⟨a1, r⟩ := ar
    simp only [Prod.mk.injEq, Option.some.injEq] at h
    obtain ⟨⟨rfl, rfl⟩, rfl⟩ := h
    exact ⟨rfl, r, rfl⟩

theorem RM.onSlice_none_inv {sub : Bytes} {p : RM α} {bs : Bytes} {c c' : Cost}
    (h : RM.onSlice sub p bs c = (none, c')) : p sub c = (none, c') := by
  unfold RM.onSlice at h
  cases e : p sub c with | mk o c1 =>
  rw [e] at h
  cases o with
  | none =>
    simp only [Prod.mk.injEq] at h
    obtain ⟨_, rfl⟩ := h
    rfl
  | some ar => cases h

/-- the outer input is not consumed, so any outer rate `A'` will do; the inner parser's linear cost is in the
    additive constants -/
theorem good_onSlice {p : RM α} {sub : Bytes} (h : Good A S F p) :
    Good A' (A * sub.length + S) (A * sub.length + F) (RM.onSlice sub p) := by
  intro bs c
  constructor
  · intro a rest c' e
    obtain ⟨rfl, r, e1⟩ := RM.onSlice_some_inv e
    have ⟨h1, _⟩ := (h sub c).1 a r c' e1
    omega
  · intro c' e
    have h1 := (h sub c).2 c' (RM.onSlice_none_inv e)
    omega

theorem good_readN_onSlice {n : Nat} {q : Bytes → RM β} (hq : ∀ b, Good A S F (q b)) :
    Good (A + 1) (S + 1) (max (n + 1) (F + 1)) (RM.bind (RM.readN n) (fun b => RM.onSlice b (q b))) := by
  intro bs c
  constructor
  · intro x rest c' e
    obtain ⟨s, r1, c1, e1, e2⟩ := RM.bind_some_inv e
    obtain ⟨h1, h2, h3⟩ := readN_some e1
    have ⟨h4, h5⟩ := (good_onSlice (A' := 0) (hq s) r1 c1).1 x rest c' e2
    obtain ⟨rfl, _⟩ := RM.onSlice_some_inv e2
    refine ⟨?_, by omega⟩
    rw [h2, Nat.mul_add, Nat.add_mul, Nat.add_mul]
    rw [h1] at h4
    omega
  · intro c' e
    have := Nat.le_max_left (n + 1) (F + 1)
    have := Nat.le_max_right (n + 1) (F + 1)
    rcases RM.bind_none_inv e with e1 | ⟨s, r1, c1, e1, e2⟩
    · have := readN_none e1
      omega
    · obtain ⟨h1, h2, h3⟩ := readN_some e1
      have h4 := (good_onSlice (A' := 0) (hq s) r1 c1).2 c' e2
      rw [h2, Nat.mul_add, Nat.add_mul, Nat.add_mul]
      rw [h1] at h4
      omega

/-- byte string parsed on its own slice: one spare unit remains whatever `S` is -/
theorem gen_byteString_onSlice {q : Bytes → RM β} (hq : ∀ b, Good A S F (q b)) :
    Gen (A + 4) 1 S (max 6 F) (RM.bind RM.byteString (fun b => RM.onSlice b (q b))) := by
  refine gen_bytesOfType_bind (K := 0) (fun s => ?_)
  have h : A * s.length ≤ (A + 2) * s.length := Nat.mul_le_mul_right _ (by omega)
  exact (good_onSlice (A' := A + 4) (hq s)).gen.mono (Nat.le_refl _) (by omega) (by omega)

theorem good_byteString_onSlice {q : Bytes → RM β} (hq : ∀ b, Good A S F (q b)) :
    Good (A + 4) S (max 6 F) (RM.bind RM.byteString (fun b => RM.onSlice b (q b))) :=
  (gen_byteString_onSlice hq).toGood

theorem prog_byteString_onSlice0 {q : Bytes → RM β} (hq : ∀ b, Good A 0 F (q b)) :
    Prog (A + 4) (max 6 F) (RM.bind RM.byteString (fun b => RM.onSlice b (q b))) :=
  gen_byteString_onSlice hq

/-! ### the payoff -/

theorem Good.run_bound {p : RM α} (h : Good A S F p) (bs : Bytes) :
    (RM.run p bs).2.alloc ≤ A * bs.length + max S F ∧ (RM.run p bs).2.steps ≤ A * bs.length + max S F := by
  have hS := Nat.le_max_left S F
  have hF := Nat.le_max_right S F
  have h0 : ({} : Cost).m = 0 := rfl
  unfold RM.run
  cases e : p bs {} with | mk o c' =>
  cases o with
  | none =>
    have h1 := (h bs {}).2 c' e
    simp only []
    unfold Cost.m at h1 h0
    omega
  | some ar =>
    obtain ⟨a, r⟩ := ar
    have ⟨h1, _⟩ := (h bs {}).1 a r c' e
    simp only []
    unfold Cost.m at h1 h0
    omega

theorem Good.run_m_bound {p : RM α} (h : Good A S F p) (bs : Bytes) :
    (RM.run p bs).2.m ≤ A * bs.length + max S F := by
  have hS := Nat.le_max_left S F
  have hF := Nat.le_max_right S F
  have h0 : ({} : Cost).m = 0 := rfl
  unfold RM.run
  cases e : p bs {} with | mk o c' =>
  cases o with
  | none =>
    have h1 := (h bs {}).2 c' e
    simp only []
    omega
  | some ar =>
    obtain ⟨a, r⟩ := ar
    have ⟨h1, _⟩ := (h bs {}).1 a r c' e
    simp only []
    omega

/-! ### the constants are sharp -/

/-- `Prog 4 6` is the best failure constant for the CBOR primitives: a lone initial byte announcing an 8-byte
    argument costs 10 units on 1 byte of input -/
theorem head_fail_witness : RM.head [0x1b] {} = (none, { alloc := 9, steps := 1 }) := by decide
theorem bytesOfType_fail_witness : RM.bytesOfType 2 [0x5b] {} = (none, { alloc := 9, steps := 1 }) := by decide

theorem loop_fail_witness :
    RM.loop (fun _ : Nat => RM.ofType 0) 1 0 [0x1b] {} = (none, { alloc := 9, steps := 2 }) := by decide

/-- `good_loop` cannot conclude `Good A 0 F`: the body `ofType 0` is `Prog 4 6` (`gen_ofType`), one iteration on
    `[0x1b]` fails having spent 11 > 4 * 1 + 6 units -/
theorem good_loop_sharp : ¬ Good 4 0 6 (RM.loop (fun _ : Nat => RM.ofType 0) 1 0) := by
  intro h
  have := (h [0x1b] {}).2 _ loop_fail_witness
  revert this
  decide

/-! ### `do` notation check and a worked example -/

example : Prog 4 10 (do let (mt, n) ← RM.head; RM.guard (mt == 2); return n) :=
  prog_bind_left_le prog_head (fun x => good_bind_le (good_guard _) (fun _ => good_pure x.2)
    (Nat.le_refl _) (Nat.le_refl _) (Nat.le_refl _)) (Nat.le_refl _) (by decide)

/-- a CBOR array of byte strings with a declared count -/
def exampleArray : RM (List Bytes) := do
  let n ← RM.ofType 4
  RM.loop (fun acc => do let b ← RM.byteString; return acc ++ [b]) n []

/-- proved with the library only: no primitive is unfolded -/
theorem exampleArray_good : Good 4 0 10 exampleArray := by
  unfold exampleArray
  refine (prog_bind_left_le (F := 10) (prog_ofType 4) (fun n => ?_) (Nat.le_refl _) (Nat.le_refl _)).good
  refine (good_loop (F := 6) (fun acc => ?_) n []).mono (Nat.le_refl _) (Nat.le_refl _) (by decide)
  exact prog_bind_pure _ prog_byteString

/-- whatever count the array header declares, at most `4 * |input| + 10` bytes are allocated and at most as many
    steps are taken -/
theorem exampleArray_bound (bs : Bytes) :
    (RM.run exampleArray bs).2.alloc ≤ 4 * bs.length + 10 ∧ (RM.run exampleArray bs).2.steps ≤ 4 * bs.length + 10 :=
  exampleArray_good.run_bound bs

end WebPkg.Res
