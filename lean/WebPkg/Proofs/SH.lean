import WebPkg.Model.StructuredHeader
import WebPkg.Proofs.Base64
import WebPkg.Proofs.Basic
/-
  Round-trip theorems for the structured-header model (WebPkg/Model/StructuredHeader.lean):
  1  parseInt64_formatInt               strconv.ParseInt ∘ strconv.FormatInt = id on int64
  2  parseItem_serializeItem            item round trip (sub-lemmas parseNumber_formatInt, parseString_quote,
                                        parseToken_valid, parseByteSequence_encode)
  3  parse_serialize_ll                 ParseListOfLists (ll.String()) = ll
  4  parse_serialize_pl                 ParseParameterisedList (pl.String()) = pl with sorted parameters
  5  serialize{Item,PL,LL}_isSome_iff   exactly which values serialize
  6  serializePI_perm                   output independent of the parameter insertion order
  7  parse{ParameterisedList,ListOfLists}_valid   parsers only return valid values
  8  parse_serialize_parse_{pl,ll}      parse–serialize–parse
-/
namespace WebPkg.SH

theorem u8_eq_iff (a b : UInt8) : a = b ↔ a.toNat = b.toNat := UInt8.toNat_inj.symm

/-- unfold all character classes to `Nat` facts -/
macro "chars" : tactic => `(tactic|
  (simp only [isTokenChar, isKeyChar, isAlpha, isLCAlpha, isDigit, isOWS, Bool.and_eq_true, Bool.or_eq_true,
      Bool.not_eq_true', Bool.or_eq_false_iff, Bool.and_eq_false_iff,
      decide_eq_true_eq, decide_eq_false_iff_not, beq_iff_eq, beq_eq_false_iff_ne, bne_iff_ne, ne_eq,
      UInt8.le_iff_toNat_le, UInt8.lt_iff_toNat_lt, u8_eq_iff, UInt8.toNat_ofNat, UInt8.reduceToNat, gt_iff_lt] at *
   <;> omega))


theorem digitsVal_snoc (ds : Bytes) (d : UInt8) : digitsVal (ds ++ [d]) = digitsVal ds * 10 + (d.toNat - 48) := by
  simp [digitsVal, List.foldl_append]

theorem isDigit_ofNat {n : Nat} (h : n < 10) : isDigit (UInt8.ofNat (48 + n)) = true := by
  simp only [isDigit, Bool.and_eq_true, decide_eq_true_eq, UInt8.le_iff_toNat_le, toNat_ofNat_lt (show 48 + n < 256 by omega)]
  simp; omega

theorem natDigits_spec : ∀ (fuel n : Nat), n < 10 ^ fuel → 0 < fuel →
    digitsVal (natDigits fuel n) = n ∧ (natDigits fuel n).all isDigit = true ∧
    ∃ c ds, natDigits fuel n = c :: ds ∧ isDigit c = true := by
  intro fuel
  induction fuel with
  | zero => intro n _ h; omega
  | succ fuel ih =>
    intro n hn _
    rw [natDigits]
    by_cases h10 : n < 10
    · simp only [h10, if_true]
      refine ⟨?_, ?_, _, _, rfl, isDigit_ofNat h10⟩
      · simp only [digitsVal, List.foldl_cons, List.foldl_nil, toNat_ofNat_lt (show 48 + n < 256 by omega)]; omega
      · simp only [List.all_cons, List.all_nil, isDigit_ofNat h10, Bool.and_self]
    · simp only [h10, if_false]
      have hf : 0 < fuel := by
        rcases fuel with _ | f
        · simp at hn; omega
        · omega
      have hn' : n / 10 < 10 ^ fuel := by
        rw [Nat.pow_succ] at hn; omega
      obtain ⟨h1, h2, c, ds, h3, h4⟩ := ih (n / 10) hn' hf
      have hm : n % 10 < 10 := Nat.mod_lt _ (by decide)
      refine ⟨?_, ?_, c, ds ++ [UInt8.ofNat (48 + n % 10)], by rw [h3]; rfl, h4⟩
      · rw [digitsVal_snoc, h1, toNat_ofNat_lt (by omega)]; omega
      · rw [List.all_append, h2]; simp only [List.all_cons, List.all_nil, isDigit_ofNat hm, Bool.and_self]

theorem parseInt64_formatInt (z : Int) (h1 : -(2:Int)^63 ≤ z) (h2 : z < (2:Int)^63) :
    parseInt64 (formatInt z) = some z := by
  unfold formatInt
  by_cases hz : z < 0
  · simp only [hz, if_true]
    obtain ⟨hv, _, c, ds, he, _⟩ := natDigits_spec 20 (-z).toNat (by omega) (by decide)
    have hne : (natDigits 20 (-z).toNat).isEmpty = false := by rw [he]; rfl
    simp only [parseInt64, if_true, hne, hv]
    have : (-z).toNat ≤ 2 ^ 63 := by omega
    simp only [Bool.false_eq_true, if_false, this, if_true]
    congr 1; omega
  · simp only [hz, if_false]
    obtain ⟨hv, _, c, ds, he, hc⟩ := natDigits_spec 20 z.toNat (by omega) (by decide)
    have hc45 : c ≠ 45 := by
      intro h; subst h; revert hc; decide
    rw [he] at hv
    rw [he]
    simp only [parseInt64, hc45, if_false, hv]
    have : z.toNat < 2 ^ 63 := by omega
    simp only [this, if_true]
    congr 1; omega

/-! ## Definitions of validity and normal form -/

def validItem : Item → Bool
  | .int z => decide (-(2:Int)^63 ≤ z) && decide (z < (2:Int)^63)
  | .str s => s.all (fun c => 32 ≤ c && c ≤ 126)
  | .token t => isValidToken t
  | .bytes _ => true
  | .other => false
def validParam (kv : Bytes × Option Item) : Bool :=
  isValidKey kv.1 && (match kv.2 with | none => true | some i => validItem i)
def validPI (pi : PI) : Bool := isValidToken pi.label && pi.params.all validParam
def sortParams (ps : Params) : Params := ps.mergeSort keyLe
def normPI (pi : PI) : PI := { pi with params := sortParams pi.params }

/-- the rest of the input does not continue an item: it is empty or starts with SP, HTAB, ',' or ';' -/
def ItemEnd (rest : Bytes) : Prop := rest = [] ∨ ∃ c r, rest = c :: r ∧ (c = 32 ∨ c = 9 ∨ c = 44 ∨ c = 59)

/-- the first byte of `rest` (if any) fails `p` -/
def Stops (p : UInt8 → Bool) (rest : Bytes) : Prop := ∀ c r, rest = c :: r → p c = false

theorem takeWhile_stops {p : UInt8 → Bool} {l rest : Bytes} (hl : ∀ a ∈ l, p a = true) (hr : Stops p rest) :
    (l ++ rest).takeWhile p = l := by
  rw [List.takeWhile_append_of_pos hl]
  cases rest with
  | nil => simp
  | cons c r => simp [hr c r rfl]

theorem dropWhile_stops {p : UInt8 → Bool} {l rest : Bytes} (hl : ∀ a ∈ l, p a = true) (hr : Stops p rest) :
    (l ++ rest).dropWhile p = rest := by
  rw [List.dropWhile_append_of_pos hl]
  cases rest with
  | nil => simp
  | cons c r => simp [hr c r rfl]

theorem ItemEnd.stops_digit {rest : Bytes} (h : ItemEnd rest) : Stops isDigit rest := by
  intro c r e
  rcases h with h | ⟨c', r', e', hc⟩
  · simp [h] at e
  · rw [e] at e'; injection e' with e1 _; subst e1; chars

theorem ItemEnd.stops_token {rest : Bytes} (h : ItemEnd rest) : Stops isTokenChar rest := by
  intro c r e
  rcases h with h | ⟨c', r', e', hc⟩
  · simp [h] at e
  · rw [e] at e'; injection e' with e1 _; subst e1; chars

/-! ## numbers -/

theorem formatInt_shape (z : Int) (h1 : -(2:Int)^63 ≤ z) (h2 : z < (2:Int)^63) :
    ∃ c ds, formatInt z = c :: ds ∧ (c = 45 ∨ isDigit c = true) ∧ ∀ a ∈ ds, isDigit a = true := by
  unfold formatInt
  by_cases hz : z < 0
  · simp only [hz, if_true]
    obtain ⟨_, ha, _⟩ := natDigits_spec 20 (-z).toNat (by omega) (by decide)
    exact ⟨_, _, rfl, Or.inl rfl, List.all_eq_true.mp ha⟩
  · simp only [hz, if_false]
    obtain ⟨_, ha, c, ds, he, hc⟩ := natDigits_spec 20 z.toNat (by omega) (by decide)
    rw [he] at ha ⊢
    simp only [List.all_cons, Bool.and_eq_true] at ha
    exact ⟨_, _, rfl, Or.inr hc, List.all_eq_true.mp ha.2⟩

theorem parseNumber_formatInt (z : Int) (h1 : -(2:Int)^63 ≤ z) (h2 : z < (2:Int)^63) (rest : Bytes)
    (hr : Stops isDigit rest) : parseNumber (formatInt z ++ rest) = some (z, rest) := by
  obtain ⟨c, ds, he, hc, hds⟩ := formatInt_shape z h1 h2
  have hp := parseInt64_formatInt z h1 h2
  rw [he] at hp
  rw [he, List.cons_append, parseNumber]
  have hcond : (decide (c ≠ 45) && !isDigit c) = false := by
    rcases hc with hc | hc
    · simp [hc]
    · simp [hc]
  simp only [hcond, Bool.false_eq_true, if_false, takeWhile_stops hds hr, dropWhile_stops hds hr, hp]

/-! ## strings -/

theorem psb_cons (c : UInt8) (rest acc : Bytes) : parseStringBody (c :: rest) acc =
    if c = 92 then
      match rest with
      | [] => none
      | d :: rest' => if d = 34 ∨ d = 92 then parseStringBody rest' (acc ++ [d]) else none
    else if c = 34 then some (acc, rest)
    else if c < 32 ∨ c > 126 then none
    else parseStringBody rest (acc ++ [c]) := by
  rw [parseStringBody.eq_def]; rfl

theorem parseStringBody_quote (s : Bytes) (hs : ∀ c ∈ s, 32 ≤ c ∧ c ≤ 126) (rest : Bytes) : ∀ acc : Bytes,
    parseStringBody (s.flatMap (fun c => if c = 34 ∨ c = 92 then [92, c] else [c]) ++ 34 :: rest) acc
      = some (acc ++ s, rest) := by
  induction s with
  | nil => intro acc; rw [List.flatMap_nil, List.nil_append, psb_cons]; simp
  | cons c s ih =>
    intro acc
    have hc := hs c (by simp)
    have ih' := ih (fun x hx => hs x (by simp [hx]))
    rw [List.flatMap_cons]
    by_cases he : c = 34 ∨ c = 92
    · simp only [he, if_true, List.cons_append, List.nil_append]
      rw [psb_cons]
      simp only [if_true, he, ih']
      simp
    · simp only [he, if_false, List.cons_append, List.nil_append]
      rw [psb_cons]
      have h92 : c ≠ 92 := fun h => he (Or.inr h)
      have h34 : c ≠ 34 := fun h => he (Or.inl h)
      have hrange : ¬ (c < 32 ∨ c > 126) := by
        have a := hc.1; have b := hc.2
        chars
      simp only [h92, h34, hrange, if_false, ih']
      simp

theorem parseString_quote (s : Bytes) (hs : s.all (fun c => 32 ≤ c && c ≤ 126) = true) (rest : Bytes) :
    parseString (quote s ++ rest) = some (s, rest) := by
  have hs' : ∀ c ∈ s, 32 ≤ c ∧ c ≤ 126 := by
    intro c hc
    have := List.all_eq_true.mp hs c hc
    simpa using this
  have := parseStringBody_quote s hs' rest []
  simp only [quote, List.cons_append, List.append_assoc, List.nil_append, parseString, if_true]
  simpa using this

/-! ## tokens -/

theorem isAlpha_tokenChar {c : UInt8} (h : isAlpha c = true) : isTokenChar c = true := by chars

theorem parseToken_valid (t : Bytes) (ht : isValidToken t = true) (rest : Bytes) (hr : Stops isTokenChar rest) :
    parseToken (t ++ rest) = some (t, rest) := by
  cases t with
  | nil => simp [isValidToken] at ht
  | cons c t' =>
    simp only [isValidToken, Bool.and_eq_true] at ht
    have hall := List.all_eq_true.mp ht.2
    rw [List.cons_append, parseToken]
    simp only [ht.1, Bool.not_true, Bool.false_eq_true, if_false]
    rw [← List.cons_append, takeWhile_stops hall hr, dropWhile_stops hall hr]

/-! ## byte sequences -/

theorem b64_encode_all (P : UInt8 → Bool) (url pad : Bool) (h6 : ∀ v, v < 64 → P (Base64.enc6 url v) = true)
    (h61 : P 61 = true) : ∀ (n : Nat) (bs : Bytes), bs.length ≤ n → (Base64.encode url pad bs).all P = true := by
  intro n
  induction n using Nat.strongRecOn with
  | _ n ih =>
    intro bs hbs
    match bs, hbs with
    | [], _ => simp [Base64.encode]
    | [a], _ =>
      have ha := a.toNat_lt
      cases pad <;> simp [Base64.encode, h6 (a.toNat / 4) (by omega), h6 (a.toNat % 4 * 16) (by omega), h61]
    | [a, b], _ =>
      have ha := a.toNat_lt
      have hb := b.toNat_lt
      cases pad <;> simp [Base64.encode, h6 (a.toNat / 4) (by omega), h6 (a.toNat % 4 * 16 + b.toNat / 16) (by omega),
        h6 (b.toNat % 16 * 4) (by omega), h61]
    | a :: b :: c :: rest, hl =>
      have ha := a.toNat_lt
      have hb := b.toNat_lt
      have hc := c.toNat_lt
      have ihr := ih rest.length (by simp at hl; omega) rest (Nat.le_refl _)
      simp only [Base64.encode, List.all_cons, ihr, h6 (a.toNat / 4) (by omega),
        h6 (a.toNat % 4 * 16 + b.toNat / 16) (by omega), h6 (b.toNat % 16 * 4 + c.toNat / 64) (by omega),
        h6 (c.toNat % 64) (by omega), Bool.and_self]

theorem enc6_ne_star : ∀ v : Fin 64, (Base64.enc6 false v.val != 42) = true := by decide

theorem b64_no_star (bs : Bytes) : ∀ a ∈ Base64.encode false true bs, (a != 42) = true :=
  List.all_eq_true.mp
    (b64_encode_all (· != 42) false true (fun v hv => enc6_ne_star ⟨v, hv⟩) (by decide) bs.length bs (Nat.le_refl _))

theorem b64_pad_length (url : Bool) : ∀ (n : Nat) (bs : Bytes), bs.length ≤ n →
    (Base64.encode url true bs).length % 4 = 0 := by
  intro n
  induction n using Nat.strongRecOn with
  | _ n ih =>
    intro bs hbs
    match bs, hbs with
    | [], _ => simp [Base64.encode]
    | [a], _ => simp [Base64.encode]
    | [a, b], _ => simp [Base64.encode]
    | a :: b :: c :: rest, hl =>
      have ihr := ih rest.length (by simp at hl; omega) rest (Nat.le_refl _)
      simp only [Base64.encode, List.length_cons]
      omega

theorem parseByteSequence_encode (b rest : Bytes) :
    parseByteSequence (42 :: Base64.encode false true b ++ [42] ++ rest) = some (b, rest) := by
  have hstop : Stops (· != 42) (42 :: rest) := by
    intro c r e; injection e with e1 _; subst e1; decide
  have hlen : ((Base64.encode false true b).length % 4 == 0) = true := by
    simp [b64_pad_length false _ b (Nat.le_refl _)]
  simp only [List.cons_append, List.append_assoc, List.nil_append, parseByteSequence, ne_eq, not_true_eq_false,
    if_false, takeWhile_stops (b64_no_star b) hstop, dropWhile_stops (b64_no_star b) hstop, hlen,
    Base64.decode_encode]

/-! ## items -/

theorem parseItem_serializeItem (i : Item) (s rest : Bytes) (hv : validItem i = true) (hr : ItemEnd rest)
    (h : serializeItem i = some s) : parseItem (s ++ rest) = some (i, rest) := by
  cases i with
  | int z =>
    simp only [validItem, Bool.and_eq_true, decide_eq_true_eq] at hv
    simp only [serializeItem, Option.some.injEq] at h
    subst h
    have hp := parseNumber_formatInt z hv.1 hv.2 rest hr.stops_digit
    obtain ⟨c, ds, he, hc, _⟩ := formatInt_shape z hv.1 hv.2
    rw [he, List.cons_append] at hp ⊢
    simp only [parseItem, hc, if_true, hp, Option.map_some]
  | str t =>
    simp only [validItem] at hv
    simp only [serializeItem, hv, if_true, Option.some.injEq] at h
    subst h
    have hp := parseString_quote t hv rest
    simp only [quote, List.cons_append] at hp ⊢
    have h1 : ¬ ((34 : UInt8) = 45 ∨ isDigit 34 = true) := by decide
    simp only [parseItem, h1, if_false, if_true, hp, Option.map_some]
  | token t =>
    simp only [validItem] at hv
    simp only [serializeItem, hv, if_true, Option.some.injEq] at h
    subst h
    have hp := parseToken_valid t hv rest hr.stops_token
    cases t with
    | nil => simp [isValidToken] at hv
    | cons c t' =>
      simp only [isValidToken, Bool.and_eq_true] at hv
      have ha := hv.1
      have h1 : ¬ (c = 45 ∨ isDigit c = true) := by chars
      have h2 : c ≠ 34 := by chars
      have h3 : c ≠ 42 := by chars
      rw [List.cons_append] at hp ⊢
      simp only [parseItem, h1, h2, h3, ha, if_false, if_true, hp, Option.map_some]
  | bytes b =>
    simp only [serializeItem, Option.some.injEq] at h
    subst h
    have hp := parseByteSequence_encode b rest
    simp only [List.cons_append] at hp ⊢
    have h1 : ¬ ((42 : UInt8) = 45 ∨ isDigit 42 = true) := by decide
    have h2 : (42 : UInt8) ≠ 34 := by decide
    simp only [parseItem, h1, h2, if_false, if_true, hp, Option.map_some]
  | other => simp [validItem] at hv

/-- a serialized item is non-empty and does not start with whitespace -/
theorem serializeItem_head (i : Item) (s : Bytes) (hv : validItem i = true) (h : serializeItem i = some s) :
    ∃ c s', s = c :: s' ∧ isOWS c = false := by
  cases i with
  | int z =>
    simp only [validItem, Bool.and_eq_true, decide_eq_true_eq] at hv
    simp only [serializeItem, Option.some.injEq] at h
    obtain ⟨c, ds, he, hc, _⟩ := formatInt_shape z hv.1 hv.2
    refine ⟨c, ds, by rw [← h, he], ?_⟩
    rcases hc with hc | hc <;> chars
  | str t =>
    simp only [validItem] at hv
    simp only [serializeItem, hv, if_true, Option.some.injEq] at h
    exact ⟨34, _, by rw [← h]; rfl, by decide⟩
  | token t =>
    simp only [validItem] at hv
    simp only [serializeItem, hv, if_true, Option.some.injEq] at h
    subst h
    cases t with
    | nil => simp [isValidToken] at hv
    | cons c t' =>
      simp only [isValidToken, Bool.and_eq_true] at hv
      have ha := hv.1
      exact ⟨c, t', rfl, by chars⟩
  | bytes b =>
    simp only [serializeItem, Option.some.injEq] at h
    exact ⟨42, _, by rw [← h]; rfl, by decide⟩
  | other => simp [validItem] at hv

/-! ## sorting of parameters: the emitted order is independent of the insertion order -/

theorem keyLe_trans (a b c : Bytes × Option Item) (h1 : keyLe a b = true) (h2 : keyLe b c = true) :
    keyLe a c = true := ble_trans h1 h2

theorem keyLe_total (a b : Bytes × Option Item) : (keyLe a b || keyLe b a) = true := by
  have := ble_total a.1 b.1
  simpa [keyLe, Bool.or_eq_true] using this

theorem sortParams_perm (ps : Params) : (sortParams ps).Perm ps := List.mergeSort_perm ps keyLe

theorem sortParams_sorted (ps : Params) : (sortParams ps).Pairwise (fun a b => keyLe a b = true) :=
  List.pairwise_mergeSort keyLe_trans keyLe_total ps

theorem sortParams_keys_perm (ps : Params) : ((sortParams ps).map Prod.fst).Perm (ps.map Prod.fst) :=
  (sortParams_perm ps).map _

theorem sortParams_nodup {ps : Params} (h : (ps.map Prod.fst).Nodup) : ((sortParams ps).map Prod.fst).Nodup :=
  (sortParams_keys_perm ps).nodup_iff.mpr h

theorem eq_of_mem_of_key_eq : ∀ (l : Params), (l.map Prod.fst).Nodup →
    ∀ a b, a ∈ l → b ∈ l → a.1 = b.1 → a = b
  | [], _, _, _, h, _, _ => by simp at h
  | x :: xs, hnd, a, b, ha, hb, hk => by
    simp only [List.map_cons, List.nodup_cons, List.mem_map, not_exists, not_and] at hnd
    simp only [List.mem_cons] at ha hb
    rcases ha with rfl | ha <;> rcases hb with rfl | hb
    · rfl
    · exact absurd hk.symm (hnd.1 b hb)
    · exact absurd hk (hnd.1 a ha)
    · exact eq_of_mem_of_key_eq xs hnd.2 a b ha hb hk

theorem sorted_perm_unique (l₁ l₂ : Params) (hp : l₁.Perm l₂) (hnd : (l₁.map Prod.fst).Nodup)
    (s1 : l₁.Pairwise (fun a b => keyLe a b = true)) (s2 : l₂.Pairwise (fun a b => keyLe a b = true)) :
    l₁ = l₂ := by
  apply List.Perm.eq_of_pairwise (le := fun a b => keyLe a b = true) _ s1 s2 hp
  intro a b ha hb hab hba
  exact eq_of_mem_of_key_eq l₁ hnd a b ha (hp.symm.subset hb) (ble_antisymm hab hba)

theorem sortParams_perm_eq (p₁ p₂ : Params) (hp : p₁.Perm p₂) (hn : (p₁.map Prod.fst).Nodup) :
    sortParams p₁ = sortParams p₂ := by
  have q1 := sortParams_perm p₁
  have q2 := sortParams_perm p₂
  exact sorted_perm_unique _ _ (q1.trans (hp.trans q2.symm)) (sortParams_nodup hn)
    (sortParams_sorted _) (sortParams_sorted _)

/-- sorting is idempotent -/
theorem sortParams_sortParams (ps : Params) (hn : (ps.map Prod.fst).Nodup) :
    sortParams (sortParams ps) = sortParams ps :=
  sortParams_perm_eq _ _ (sortParams_perm ps) (sortParams_nodup hn)

/-- Theorem 6: the serialization of a parameterised identifier does not depend on the order in which
    the (distinct-key) parameters were inserted. -/
theorem serializePI_perm (l : Bytes) (p₁ p₂ : Params) (hp : p₁.Perm p₂) (hn : (p₁.map Prod.fst).Nodup) :
    serializePI ⟨l, p₁⟩ = serializePI ⟨l, p₂⟩ := by
  have := sortParams_perm_eq p₁ p₂ hp hn
  unfold sortParams at this
  simp only [serializePI, this]

/-! ## generic helpers: `mapM'`, `joinWith`, `discardOWS` -/

theorem mapM'_cons_eq_some {α β} (f : α → Option β) (x : α) (xs : List α) (r : List β) :
    mapM' f (x :: xs) = some r ↔ ∃ y ys, f x = some y ∧ mapM' f xs = some ys ∧ r = y :: ys := by
  rw [mapM']
  cases hx : f x with
  | none => simp
  | some y =>
    cases hxs : mapM' f xs with
    | none => simp
    | some ys =>
      simp only [Option.some.injEq]
      constructor
      · intro h; exact ⟨y, ys, rfl, rfl, h.symm⟩
      · rintro ⟨y', ys', h1, h2, h3⟩; subst h1 h2; exact h3.symm

theorem mapM'_nil_eq_some {α β} (f : α → Option β) (r : List β) : mapM' f [] = some r ↔ r = [] := by
  simp [mapM', eq_comm]

theorem joinWith_cons_cons (sep x y : Bytes) (rest : List Bytes) :
    joinWith sep (x :: y :: rest) = x ++ (sep ++ joinWith sep (y :: rest)) := by
  simp only [joinWith, List.append_assoc]

theorem joinWith_single (sep x : Bytes) : joinWith sep [x] = x := rfl

/-- non-empty and does not start with SP / HTAB -/
def NonWS (b : Bytes) : Prop := ∃ c r, b = c :: r ∧ isOWS c = false

theorem NonWS.append {a : Bytes} (h : NonWS a) (b : Bytes) : NonWS (a ++ b) := by
  obtain ⟨c, r, e, hc⟩ := h
  exact ⟨c, r ++ b, by rw [e]; rfl, hc⟩

theorem NonWS.joinWith {x : Bytes} (h : NonWS x) (sep : Bytes) (xs : List Bytes) : NonWS (joinWith sep (x :: xs)) := by
  cases xs with
  | nil => exact h
  | cons y ys => rw [joinWith_cons_cons]; exact h.append _

theorem NonWS.length_pos {a : Bytes} (h : NonWS a) : 0 < a.length := by
  obtain ⟨c, r, e, _⟩ := h
  rw [e]; simp

theorem discardOWS_nil : discardOWS [] = [] := rfl

theorem discardOWS_cons_of_not {c : UInt8} (h : isOWS c = false) (r : Bytes) : discardOWS (c :: r) = c :: r := by
  simp [discardOWS, h]

theorem discardOWS_nonWS {b : Bytes} (h : NonWS b) : discardOWS b = b := by
  obtain ⟨c, r, e, hc⟩ := h
  rw [e]; exact discardOWS_cons_of_not hc r

theorem discardOWS_sp (r : Bytes) : discardOWS (32 :: r) = discardOWS r := by
  have : isOWS 32 = true := by decide
  simp [discardOWS, this]

theorem discardOWS_length_le (b : Bytes) : (discardOWS b).length ≤ b.length := by
  unfold discardOWS
  have := congrArg List.length (List.takeWhile_append_dropWhile (p := isOWS) (l := b))
  simp only [List.length_append] at this
  omega

theorem serializeItem_nonWS (i : Item) (s : Bytes) (hv : validItem i = true) (h : serializeItem i = some s) :
    NonWS s := serializeItem_head i s hv h

theorem itemEnd_nil : ItemEnd [] := Or.inl rfl
theorem itemEnd_comma (r : Bytes) : ItemEnd (44 :: r) := Or.inr ⟨44, r, rfl, by simp⟩
theorem itemEnd_semi (r : Bytes) : ItemEnd (59 :: r) := Or.inr ⟨59, r, rfl, by simp⟩

/-! ## list of lists -/

theorem parseLLLoop_step (fuel : Nat) (s rest : Bytes) (item : Item) (top : List (List Item)) (inner : List Item)
    (hs : NonWS s) (hp : parseItem (s ++ rest) = some (item, rest)) :
    parseLLLoop (fuel + 1) (s ++ rest) top inner =
      match discardOWS rest with
      | [] => some (top ++ [inner ++ [item]])
      | c :: rest2 =>
        if c = 44 then parseLLLoop fuel (discardOWS rest2) (top ++ [inner ++ [item]]) []
        else if c = 59 then parseLLLoop fuel (discardOWS rest2) top (inner ++ [item])
        else none := by
  obtain ⟨c, r, e, _⟩ := hs
  have hne : (s ++ rest).isEmpty = false := by rw [e]; rfl
  rw [parseLLLoop]
  simp only [hne, Bool.false_eq_true, if_false, hp]
  rfl

/-- serialization of one inner list -/
def serializeInner (inner : List Item) : Option Bytes :=
  if inner.isEmpty then none else (mapM' serializeItem inner).map (joinWith [59, 32])

theorem parseLLLoop_inner (R : List (List Item)) (tail : Bytes) (top : List (List Item)) :
    ∀ (is : List Item) (ss : List Bytes) (inner : List Item), is ≠ [] → (∀ i ∈ is, validItem i = true) →
    mapM' serializeItem is = some ss →
    ((tail = [] ∧ R = top ++ [inner ++ is]) ∨
      (∃ t', tail = 44 :: t' ∧ ∀ fuel, (discardOWS t').length < fuel →
        parseLLLoop fuel (discardOWS t') (top ++ [inner ++ is]) [] = some R)) →
    ∀ fuel, (joinWith [59, 32] ss ++ tail).length < fuel →
      parseLLLoop fuel (joinWith [59, 32] ss ++ tail) top inner = some R := by
  intro is
  induction is with
  | nil => intro _ _ h; exact absurd rfl h
  | cons i is' ih =>
    intro ss inner _ hv hm hK fuel hf
    obtain ⟨s, ss', hs, hm', rfl⟩ := (mapM'_cons_eq_some _ _ _ _).mp hm
    have hvi := hv i (by simp)
    have hnw := serializeItem_nonWS i s hvi hs
    have hpos := hnw.length_pos
    cases fuel with
    | zero => omega
    | succ f =>
    cases is' with
    | nil =>
      rw [mapM'_nil_eq_some] at hm'
      subst hm'
      rw [joinWith_single] at hf ⊢
      rcases hK with ⟨ht, hR⟩ | ⟨t', ht, hR⟩
      · subst ht
        rw [parseLLLoop_step f s [] i top inner hnw (parseItem_serializeItem i s [] hvi itemEnd_nil hs)]
        simp [discardOWS_nil, hR]
      · subst ht
        rw [parseLLLoop_step f s _ i top inner hnw (parseItem_serializeItem i s _ hvi (itemEnd_comma t') hs)]
        rw [discardOWS_cons_of_not (by decide : isOWS 44 = false)]
        simp only [if_true]
        apply hR
        have := discardOWS_length_le t'
        simp only [List.length_append, List.length_cons] at hf
        omega
    | cons j is'' =>
      obtain ⟨sj, ss'', hsj, hm'', rfl⟩ := (mapM'_cons_eq_some _ _ _ _).mp hm'
      have hvj := hv j (by simp)
      have hnwj : NonWS (joinWith [59, 32] (sj :: ss'') ++ tail) :=
        ((serializeItem_nonWS j sj hvj hsj).joinWith _ _).append _
      rw [joinWith_cons_cons, List.append_assoc] at hf ⊢
      simp only [List.cons_append, List.nil_append] at hf ⊢
      rw [parseLLLoop_step f s _ i top inner hnw (parseItem_serializeItem i s _ hvi (itemEnd_semi _) hs)]
      rw [discardOWS_cons_of_not (by decide : isOWS 59 = false)]
      have h1 : ¬ ((59 : UInt8) = 44) := by decide
      simp only [h1, if_false, if_true, discardOWS_sp, discardOWS_nonWS hnwj]
      apply ih (sj :: ss'') (inner ++ [i]) (by simp) (fun x hx => hv x (by simp [hx])) hm'
      · simpa [List.append_assoc] using hK
      · simp only [List.length_append, List.length_cons] at hf ⊢
        omega

theorem serializeInner_eq_some (inner : List Item) (t : Bytes) (h : serializeInner inner = some t) :
    inner ≠ [] ∧ ∃ ss, mapM' serializeItem inner = some ss ∧ t = joinWith [59, 32] ss := by
  unfold serializeInner at h
  cases inner with
  | nil => simp at h
  | cons i is =>
    simp only [List.isEmpty_cons, Bool.false_eq_true, if_false, Option.map_eq_some_iff] at h
    obtain ⟨ss, h1, h2⟩ := h
    exact ⟨by simp, ss, h1, h2.symm⟩

theorem serializeInner_nonWS (inner : List Item) (t : Bytes) (hv : ∀ i ∈ inner, validItem i = true)
    (h : serializeInner inner = some t) : NonWS t := by
  obtain ⟨hne, ss, hm, rfl⟩ := serializeInner_eq_some inner t h
  cases inner with
  | nil => exact absurd rfl hne
  | cons i is =>
    obtain ⟨s, ss', hs, _, rfl⟩ := (mapM'_cons_eq_some _ _ _ _).mp hm
    exact (serializeItem_nonWS i s (hv i (by simp)) hs).joinWith _ _

theorem parseLLLoop_outer : ∀ (ll : List (List Item)) (tt : List Bytes) (top : List (List Item)), ll ≠ [] →
    (∀ inner ∈ ll, ∀ i ∈ inner, validItem i = true) → mapM' serializeInner ll = some tt →
    ∀ fuel, (joinWith [44, 32] tt).length < fuel →
      parseLLLoop fuel (joinWith [44, 32] tt) top [] = some (top ++ ll) := by
  intro ll
  induction ll with
  | nil => intro _ _ h; exact absurd rfl h
  | cons inner ll' ih =>
    intro tt top _ hv hm fuel hf
    obtain ⟨t, tt', ht, hm', rfl⟩ := (mapM'_cons_eq_some _ _ _ _).mp hm
    have hvi := hv inner (by simp)
    obtain ⟨hne, ss, hss, rfl⟩ := serializeInner_eq_some inner t ht
    cases ll' with
    | nil =>
      rw [mapM'_nil_eq_some] at hm'
      subst hm'
      rw [joinWith_single] at hf ⊢
      have := parseLLLoop_inner (top ++ [inner]) [] top inner ss [] hne hvi hss (Or.inl ⟨rfl, by simp⟩) fuel
        (by simpa using hf)
      simpa using this
    | cons l2 ll'' =>
      obtain ⟨t2, tt'', ht2, hm'', rfl⟩ := (mapM'_cons_eq_some _ _ _ _).mp hm'
      have hnw : NonWS (joinWith [44, 32] (t2 :: tt'')) :=
        (serializeInner_nonWS l2 t2 (hv l2 (by simp)) ht2).joinWith _ _
      rw [joinWith_cons_cons] at hf ⊢
      simp only [List.cons_append, List.nil_append] at hf ⊢
      apply parseLLLoop_inner (top ++ inner :: l2 :: ll'') _ top inner ss [] hne hvi hss _ fuel hf
      refine Or.inr ⟨_, rfl, ?_⟩
      intro fuel' hf'
      rw [discardOWS_sp, discardOWS_nonWS hnw] at hf' ⊢
      have := ih (t2 :: tt'') (top ++ [inner]) (by simp) (fun x hx => hv x (by simp [hx])) hm' fuel' hf'
      simpa [List.append_assoc] using this

/-- Theorem 3: `ParseListOfLists(ll.String()) = ll` -/
theorem parse_serialize_ll (ll : List (List Item)) (s : Bytes)
    (hv : ∀ inner ∈ ll, ∀ i ∈ inner, validItem i = true) (h : serializeLL ll = some s) :
    parseListOfLists s = some ll := by
  unfold serializeLL at h
  cases ll with
  | nil => simp at h
  | cons l ll' =>
    simp only [List.isEmpty_cons, Bool.false_eq_true, if_false, Option.map_eq_some_iff] at h
    obtain ⟨tt, hm, rfl⟩ := h
    have hm' : mapM' serializeInner (l :: ll') = some tt := hm
    obtain ⟨t, tt', ht, _, rfl⟩ := (mapM'_cons_eq_some _ _ _ _).mp hm'
    have hnw : NonWS (joinWith [44, 32] (t :: tt')) :=
      (serializeInner_nonWS l t (hv l (by simp)) ht).joinWith _ _
    unfold parseListOfLists
    simp only [discardOWS_nonWS hnw]
    have := parseLLLoop_outer (l :: ll') (t :: tt') [] (by simp) hv hm' _ (Nat.lt_succ_self _)
    simpa using this

/-! ## which values serialize (Theorem 5) -/

theorem serializeItem_isSome_iff (i : Item) : (serializeItem i).isSome = true ↔
    match i with
    | .int _ => True
    | .str s => s.all (fun c => 32 ≤ c && c ≤ 126) = true
    | .token t => isValidToken t = true
    | .bytes _ => True
    | .other => False := by
  cases i with
  | int z => simp [serializeItem]
  | str s =>
    by_cases h : s.all (fun c => 32 ≤ c && c ≤ 126) = true
    · simp only [serializeItem, h, if_true, Option.isSome_some]
    · simp only [serializeItem, h]; simp
  | token t =>
    by_cases h : isValidToken t = true
    · simp only [serializeItem, h, if_true, Option.isSome_some]
    · simp only [serializeItem, h]; simp
  | bytes b => simp [serializeItem]
  | other => simp [serializeItem]

theorem validItem_serializes {i : Item} (h : validItem i = true) : (serializeItem i).isSome = true := by
  rw [serializeItem_isSome_iff]
  cases i <;> simp_all [validItem]

theorem mapM'_isSome_iff {α β} (f : α → Option β) (l : List α) :
    (mapM' f l).isSome = true ↔ ∀ x ∈ l, (f x).isSome = true := by
  induction l with
  | nil => simp [mapM']
  | cons x xs ih =>
    rw [mapM']
    cases hx : f x with
    | none => simp [hx]
    | some y =>
      cases hxs : mapM' f xs with
      | none =>
        rw [hxs] at ih
        simp only [List.mem_cons, forall_eq_or_imp, hx, Option.isSome_some, true_and]
        simpa using ih
      | some ys =>
        rw [hxs] at ih
        simp only [List.mem_cons, forall_eq_or_imp, hx, Option.isSome_some, true_and]
        simpa using ih

theorem serializeParams_cons_none (k : Bytes) (rest : Params) : serializeParams ((k, none) :: rest) =
    if !isValidKey k then none else (serializeParams rest).map fun r => 59 :: k ++ r := by
  rw [serializeParams]

theorem serializeParams_cons_some (k : Bytes) (item : Item) (rest : Params) :
    serializeParams ((k, some item) :: rest) =
    if !isValidKey k then none else
      match serializeItem item, serializeParams rest with
      | some iv, some r => some (59 :: k ++ 61 :: iv ++ r)
      | _, _ => none := by
  rw [serializeParams]; rfl

theorem serializeParams_isSome_iff (ps : Params) : (serializeParams ps).isSome = true ↔
    ∀ kv ∈ ps, isValidKey kv.1 = true ∧ (∀ i, kv.2 = some i → (serializeItem i).isSome = true) := by
  induction ps with
  | nil => simp [serializeParams]
  | cons kv rest ih =>
    obtain ⟨k, v⟩ := kv
    simp only [List.mem_cons, forall_eq_or_imp]
    by_cases hk : isValidKey k = true
    · cases v with
      | none =>
        rw [serializeParams_cons_none]
        simp only [hk, Bool.not_true, Bool.false_eq_true, if_false, true_and]
        simp only [Option.isSome_map, ih]; simp
      | some item =>
        rw [serializeParams_cons_some]
        simp only [hk, Bool.not_true, Bool.false_eq_true, if_false, true_and]
        cases hi : serializeItem item with
        | none => simp [hi]
        | some iv =>
          cases hr : serializeParams rest with
          | none => rw [hr] at ih; simp only [Option.isSome_none, Bool.false_eq_true, false_iff] at ih ⊢; intro h; exact ih h.2
          | some r => rw [hr] at ih; simp only [Option.isSome_some, true_iff] at ih ⊢; exact ⟨by intro i e; cases e; simp [hi], ih⟩
    · cases v with
      | none => rw [serializeParams_cons_none]; simp [hk]
      | some item => rw [serializeParams_cons_some]; simp [hk]

theorem serializePI_isSome_iff (pi : PI) : (serializePI pi).isSome = true ↔
    (isValidToken pi.label = true ∧
      ∀ kv ∈ pi.params, isValidKey kv.1 = true ∧ (∀ i, kv.2 = some i → (serializeItem i).isSome = true)) := by
  unfold serializePI
  by_cases hl : isValidToken pi.label = true
  · simp only [hl, Bool.not_true, Bool.false_eq_true, if_false, Option.isSome_map, true_and,
      serializeParams_isSome_iff]
    have hp : ∀ kv, kv ∈ pi.params.mergeSort keyLe ↔ kv ∈ pi.params := fun kv => (sortParams_perm pi.params).mem_iff
    simp only [hp]
  · simp [hl]

theorem serializePL_isSome_iff (pl : List PI) : (serializePL pl).isSome = true ↔
    (pl ≠ [] ∧ ∀ pi ∈ pl, isValidToken pi.label = true ∧
      ∀ kv ∈ pi.params, isValidKey kv.1 = true ∧ (∀ i, kv.2 = some i → (serializeItem i).isSome = true)) := by
  unfold serializePL
  cases pl with
  | nil => simp
  | cons p ps =>
    simp only [List.isEmpty_cons, Bool.false_eq_true, if_false, Option.isSome_map, mapM'_isSome_iff,
      serializePI_isSome_iff, ne_eq, reduceCtorEq, not_false_eq_true, true_and]

theorem serializeInner_isSome_iff (inner : List Item) : (serializeInner inner).isSome = true ↔
    (inner ≠ [] ∧ ∀ i ∈ inner, (serializeItem i).isSome = true) := by
  unfold serializeInner
  cases inner with
  | nil => simp
  | cons i is =>
    simp only [List.isEmpty_cons, Bool.false_eq_true, if_false, Option.isSome_map, mapM'_isSome_iff,
      ne_eq, reduceCtorEq, not_false_eq_true, true_and]

theorem serializeLL_isSome_iff (ll : List (List Item)) : (serializeLL ll).isSome = true ↔
    (ll ≠ [] ∧ ∀ inner ∈ ll, inner ≠ [] ∧ ∀ i ∈ inner, (serializeItem i).isSome = true) := by
  have hfold : serializeLL ll = if ll.isEmpty then none else (mapM' serializeInner ll).map (joinWith [44, 32]) := rfl
  rw [hfold]
  cases ll with
  | nil => simp
  | cons l ls =>
    simp only [List.isEmpty_cons, Bool.false_eq_true, if_false, Option.isSome_map, mapM'_isSome_iff,
      serializeInner_isSome_iff, ne_eq, reduceCtorEq, not_false_eq_true, true_and]

/-! ## parameterised lists -/

/-- what can follow a parameter: end of input, ';' (next parameter) or ',' (next list member) -/
def ParamEnd (x : Bytes) : Prop := x = [] ∨ ∃ c t, x = c :: t ∧ (c = 59 ∨ c = 44)

theorem ParamEnd.itemEnd {x : Bytes} (h : ParamEnd x) : ItemEnd x := by
  rcases h with h | ⟨c, t, e, hc⟩
  · exact Or.inl h
  · exact Or.inr ⟨c, t, e, by rcases hc with hc | hc <;> simp [hc]⟩

theorem ParamEnd.stops_key {x : Bytes} (h : ParamEnd x) : Stops isKeyChar x := by
  intro c r e
  rcases h with h | ⟨c', r', e', hc⟩
  · simp [h] at e
  · rw [e] at e'; injection e' with e1 _; subst e1; chars

theorem stops_key_eq (x : Bytes) : Stops isKeyChar (61 :: x) := by
  intro c r e; injection e with e1 _; subst e1; decide

theorem isValidKey_nonWS {k : Bytes} (h : isValidKey k = true) : NonWS k := by
  cases k with
  | nil => simp [isValidKey] at h
  | cons c k' =>
    simp only [isValidKey, Bool.and_eq_true] at h
    have := h.1
    exact ⟨c, k', rfl, by chars⟩

theorem isValidToken_nonWS {k : Bytes} (h : isValidToken k = true) : NonWS k := by
  cases k with
  | nil => simp [isValidToken] at h
  | cons c k' =>
    simp only [isValidToken, Bool.and_eq_true] at h
    have := h.1
    exact ⟨c, k', rfl, by chars⟩

theorem parseKey_valid (k : Bytes) (hk : isValidKey k = true) (rest : Bytes) (hr : Stops isKeyChar rest) :
    parseKey (k ++ rest) = some (k, rest) := by
  cases k with
  | nil => simp [isValidKey] at hk
  | cons c k' =>
    simp only [isValidKey, Bool.and_eq_true] at hk
    have hall := List.all_eq_true.mp hk.2
    rw [List.cons_append, parseKey]
    simp only [hk.1, Bool.not_true, Bool.false_eq_true, if_false]
    rw [← List.cons_append, takeWhile_stops hall hr, dropWhile_stops hall hr]

theorem parseParams_step_end (f : Nat) (x : Bytes) (acc : Params) (hx : x = [] ∨ ∃ t', x = 44 :: t') :
    parseParams (f + 1) x acc = some (acc, x) := by
  rcases hx with rfl | ⟨t', rfl⟩
  · simp [parseParams, discardOWS_nil]
  · have h1 : (44 : UInt8) ≠ 59 := by decide
    simp [parseParams, discardOWS_cons_of_not (by decide : isOWS 44 = false)]

theorem parseParams_step_none (f : Nat) (k x : Bytes) (acc : Params) (hk : isValidKey k = true) (hx : ParamEnd x)
    (hacc : acc.any (fun kv => kv.1 == k) = false) :
    parseParams (f + 1) (59 :: (k ++ x)) acc = parseParams f x (acc ++ [(k, none)]) := by
  rw [parseParams]
  simp only [discardOWS_cons_of_not (by decide : isOWS 59 = false), ne_eq, not_true_eq_false, if_false,
    discardOWS_nonWS ((isValidKey_nonWS hk).append x), parseKey_valid k hk x hx.stops_key, hacc,
    Bool.false_eq_true]
  rcases hx with rfl | ⟨c, t, rfl, hc⟩
  · rfl
  · have : c ≠ 61 := by rcases hc with hc | hc <;> (subst hc; decide)
    split
    · rename_i h; injection h with h1 _; exact absurd h1 this
    · rfl

theorem parseParams_step_some (f : Nat) (k s x : Bytes) (item : Item) (acc : Params) (hk : isValidKey k = true)
    (hp : parseItem (s ++ x) = some (item, x)) (hacc : acc.any (fun kv => kv.1 == k) = false) :
    parseParams (f + 1) (59 :: (k ++ 61 :: (s ++ x))) acc = parseParams f x (acc ++ [(k, some item)]) := by
  rw [parseParams]
  simp only [discardOWS_cons_of_not (by decide : isOWS 59 = false), ne_eq, not_true_eq_false, if_false,
    discardOWS_nonWS ((isValidKey_nonWS hk).append _), parseKey_valid k hk _ (stops_key_eq _), hacc,
    Bool.false_eq_true, hp]

theorem serializeParams_paramEnd : ∀ (ps : Params) (r : Bytes), serializeParams ps = some r →
    r = [] ∨ ∃ t, r = 59 :: t := by
  intro ps r h
  cases ps with
  | nil => simp [serializeParams] at h; exact Or.inl h
  | cons kv rest =>
    obtain ⟨k, v⟩ := kv
    right
    cases v with
    | none =>
      rw [serializeParams_cons_none] at h
      by_cases hk : isValidKey k = true
      · simp only [hk, Bool.not_true, Bool.false_eq_true, if_false, Option.map_eq_some_iff] at h
        obtain ⟨r', _, rfl⟩ := h
        exact ⟨_, rfl⟩
      · simp [hk] at h
    | some item =>
      rw [serializeParams_cons_some] at h
      by_cases hk : isValidKey k = true
      · simp only [hk, Bool.not_true, Bool.false_eq_true, if_false] at h
        cases hi : serializeItem item with
        | none => simp [hi] at h
        | some iv =>
          cases hr : serializeParams rest with
          | none => simp [hi, hr] at h
          | some r' =>
            simp only [hi, hr, Option.some.injEq] at h
            exact ⟨_, by rw [← h]; rfl⟩
      · simp [hk] at h

theorem paramEnd_append {r tail : Bytes} (hr : r = [] ∨ ∃ t, r = 59 :: t) (ht : tail = [] ∨ ∃ t', tail = 44 :: t') :
    ParamEnd (r ++ tail) := by
  rcases hr with rfl | ⟨t, rfl⟩
  · rcases ht with rfl | ⟨t', rfl⟩
    · exact Or.inl rfl
    · exact Or.inr ⟨44, t', rfl, Or.inr rfl⟩
  · exact Or.inr ⟨59, t ++ tail, rfl, Or.inl rfl⟩

theorem any_key_false {acc : Params} {k : Bytes} (h : k ∉ acc.map Prod.fst) :
    acc.any (fun kv => kv.1 == k) = false := by
  rw [List.any_eq_false]
  intro kv hkv he
  apply h
  simp only [beq_iff_eq] at he
  exact List.mem_map.mpr ⟨kv, hkv, he⟩

theorem parseParams_serialize (tail : Bytes) (htail : tail = [] ∨ ∃ t', tail = 44 :: t') :
    ∀ (ps : Params) (r : Bytes) (acc : Params), (∀ kv ∈ ps, validParam kv = true) →
      ((acc ++ ps).map Prod.fst).Nodup → serializeParams ps = some r →
      ∀ fuel, (r ++ tail).length < fuel → parseParams fuel (r ++ tail) acc = some (acc ++ ps, tail) := by
  intro ps
  induction ps with
  | nil =>
    intro r acc _ _ h fuel hf
    simp only [serializeParams, Option.some.injEq] at h
    subst h
    cases fuel with
    | zero => omega
    | succ f => simpa using parseParams_step_end f tail acc htail
  | cons kv rest ih =>
    intro r acc hv hn h fuel hf
    obtain ⟨k, v⟩ := kv
    have hvk := hv (k, v) (by simp)
    simp only [validParam, Bool.and_eq_true] at hvk
    have hk := hvk.1
    have hkacc : k ∉ acc.map Prod.fst := by
      simp only [List.map_append, List.map_cons, List.nodup_append] at hn
      intro hmem
      exact hn.2.2 k hmem k (by simp) rfl
    have hacc := any_key_false hkacc
    have hn' : (((acc ++ [(k, v)]) ++ rest).map Prod.fst).Nodup := by simpa [List.append_assoc] using hn
    have hv' : ∀ kv ∈ rest, validParam kv = true := fun x hx => hv x (by simp [hx])
    cases fuel with
    | zero => omega
    | succ f =>
    cases v with
    | none =>
      rw [serializeParams_cons_none] at h
      simp only [hk, Bool.not_true, Bool.false_eq_true, if_false, Option.map_eq_some_iff] at h
      obtain ⟨r', hr', rfl⟩ := h
      have hpe := paramEnd_append (serializeParams_paramEnd rest r' hr') htail
      simp only [List.cons_append, List.append_assoc] at hf ⊢
      rw [parseParams_step_none f k _ acc hk hpe hacc]
      have := ih r' (acc ++ [(k, none)]) hv' hn' hr' f (by simp only [List.length_cons, List.length_append] at hf ⊢; omega)
      simpa [List.append_assoc] using this
    | some item =>
      rw [serializeParams_cons_some] at h
      simp only [hk, Bool.not_true, Bool.false_eq_true, if_false] at h
      cases hi : serializeItem item with
      | none => simp [hi] at h
      | some iv =>
        cases hr : serializeParams rest with
        | none => simp [hi, hr] at h
        | some r' =>
          simp only [hi, hr, Option.some.injEq] at h
          subst h
          have hpe := paramEnd_append (serializeParams_paramEnd rest r' hr) htail
          simp only [List.cons_append, List.append_assoc] at hf ⊢
          have hp := parseItem_serializeItem item iv (r' ++ tail) hvk.2 hpe.itemEnd hi
          rw [parseParams_step_some f k iv _ item acc hk hp hacc]
          have := ih r' (acc ++ [(k, some item)]) hv' hn' hr f
            (by simp only [List.length_cons, List.length_append] at hf ⊢; omega)
          simpa [List.append_assoc] using this

theorem serializePI_eq_some (pi : PI) (s : Bytes) (h : serializePI pi = some s) :
    isValidToken pi.label = true ∧ ∃ r, serializeParams (sortParams pi.params) = some r ∧ s = pi.label ++ r := by
  unfold serializePI at h
  by_cases hl : isValidToken pi.label = true
  · simp only [hl, Bool.not_true, Bool.false_eq_true, if_false, Option.map_eq_some_iff] at h
    obtain ⟨r, h1, h2⟩ := h
    exact ⟨hl, r, h1, h2.symm⟩
  · simp [hl] at h

theorem serializePI_nonWS (pi : PI) (s : Bytes) (h : serializePI pi = some s) : NonWS s := by
  obtain ⟨hl, r, _, rfl⟩ := serializePI_eq_some pi s h
  exact (isValidToken_nonWS hl).append r

theorem ParamEnd.stops_token {x : Bytes} (h : ParamEnd x) : Stops isTokenChar x := h.itemEnd.stops_token

theorem parsePI_serialize (pi : PI) (s tail : Bytes) (htail : tail = [] ∨ ∃ t', tail = 44 :: t')
    (hv : validPI pi = true) (hn : (pi.params.map Prod.fst).Nodup) (h : serializePI pi = some s) :
    parsePI (s ++ tail) = some (normPI pi, tail) := by
  obtain ⟨hl, r, hr, rfl⟩ := serializePI_eq_some pi s h
  simp only [validPI, Bool.and_eq_true] at hv
  have hvp : ∀ kv ∈ sortParams pi.params, validParam kv = true := by
    intro kv hkv
    exact List.all_eq_true.mp hv.2 kv ((sortParams_perm pi.params).mem_iff.mp hkv)
  have hpe := paramEnd_append (serializeParams_paramEnd _ r hr) htail
  have hpp := parseParams_serialize tail htail (sortParams pi.params) r [] hvp
    (by simpa using sortParams_nodup hn) hr ((r ++ tail).length + 1) (Nat.lt_succ_self _)
  unfold parsePI
  rw [List.append_assoc, parseToken_valid pi.label hl (r ++ tail) hpe.stops_token]
  simp only [hpp, List.nil_append]
  rfl

theorem parsePLLoop_step (f : Nat) (s rest : Bytes) (pi : PI) (acc : List PI) (hs : NonWS s)
    (hp : parsePI (s ++ rest) = some (pi, rest)) :
    parsePLLoop (f + 1) (s ++ rest) acc =
      match discardOWS rest with
      | [] => some (acc ++ [pi])
      | c :: rest2 => if c ≠ 44 then none else parsePLLoop f (discardOWS rest2) (acc ++ [pi]) := by
  obtain ⟨c, r, e, _⟩ := hs
  have hne : (s ++ rest).isEmpty = false := by rw [e]; rfl
  rw [parsePLLoop]
  simp only [hne, Bool.false_eq_true, if_false, hp]
  rfl

theorem parsePLLoop_serialize : ∀ (pl : List PI) (tt : List Bytes) (acc : List PI), pl ≠ [] →
    (∀ pi ∈ pl, validPI pi = true) → (∀ pi ∈ pl, (pi.params.map Prod.fst).Nodup) →
    mapM' serializePI pl = some tt →
    ∀ fuel, (joinWith [44, 32] tt).length < fuel →
      parsePLLoop fuel (joinWith [44, 32] tt) acc = some (acc ++ pl.map normPI) := by
  intro pl
  induction pl with
  | nil => intro _ _ h; exact absurd rfl h
  | cons pi pl' ih =>
    intro tt acc _ hv hk hm fuel hf
    obtain ⟨t, tt', ht, hm', rfl⟩ := (mapM'_cons_eq_some _ _ _ _).mp hm
    have hnw := serializePI_nonWS pi t ht
    have hpos := hnw.length_pos
    cases fuel with
    | zero => omega
    | succ f =>
    cases pl' with
    | nil =>
      rw [mapM'_nil_eq_some] at hm'
      subst hm'
      rw [joinWith_single]
      have hp := parsePI_serialize pi t [] (Or.inl rfl) (hv pi (by simp)) (hk pi (by simp)) ht
      have := parsePLLoop_step f t [] (normPI pi) acc hnw hp
      rw [List.append_nil] at this
      rw [this]
      simp [discardOWS_nil]
    | cons p2 pl'' =>
      obtain ⟨t2, tt'', ht2, hm'', rfl⟩ := (mapM'_cons_eq_some _ _ _ _).mp hm'
      have hnw2 : NonWS (joinWith [44, 32] (t2 :: tt'')) := (serializePI_nonWS p2 t2 ht2).joinWith _ _
      rw [joinWith_cons_cons] at hf ⊢
      simp only [List.cons_append, List.nil_append] at hf ⊢
      have hp := parsePI_serialize pi t (44 :: 32 :: joinWith [44, 32] (t2 :: tt'')) (Or.inr ⟨_, rfl⟩)
        (hv pi (by simp)) (hk pi (by simp)) ht
      rw [parsePLLoop_step f t _ (normPI pi) acc hnw hp]
      rw [discardOWS_cons_of_not (by decide : isOWS 44 = false)]
      simp only [ne_eq, not_true_eq_false, if_false, discardOWS_sp, discardOWS_nonWS hnw2]
      have := ih (t2 :: tt'') (acc ++ [(normPI pi)]) (by simp) (fun x hx => hv x (by simp [hx]))
        (fun x hx => hk x (by simp [hx])) hm' f
        (by simp only [List.length_append, List.length_cons] at hf ⊢; omega)
      simpa [List.append_assoc] using this

/-- Theorem 4: `ParseParameterisedList(pl.String())` returns `pl` with every parameter list in sorted order -/
theorem parse_serialize_pl (pl : List PI) (s : Bytes) (hv : ∀ pi ∈ pl, validPI pi = true)
    (hk : ∀ pi ∈ pl, (pi.params.map Prod.fst).Nodup) (h : serializePL pl = some s) :
    parseParameterisedList s = some (pl.map normPI) := by
  unfold serializePL at h
  cases pl with
  | nil => simp at h
  | cons p pl' =>
    simp only [List.isEmpty_cons, Bool.false_eq_true, if_false, Option.map_eq_some_iff] at h
    obtain ⟨tt, hm, rfl⟩ := h
    obtain ⟨t, tt', ht, _, rfl⟩ := (mapM'_cons_eq_some _ _ _ _).mp hm
    have hnw : NonWS (joinWith [44, 32] (t :: tt')) := (serializePI_nonWS p t ht).joinWith _ _
    unfold parseParameterisedList
    simp only [discardOWS_nonWS hnw]
    have := parsePLLoop_serialize (p :: pl') (t :: tt') [] (by simp) hv hk hm _ (Nat.lt_succ_self _)
    simpa using this

/-! ## the parsers only produce valid values (Theorem 7) -/

theorem parseInt64_range (s : Bytes) (n : Int) (h : parseInt64 s = some n) : -(2:Int)^63 ≤ n ∧ n < (2:Int)^63 := by
  cases s with
  | nil => simp [parseInt64] at h
  | cons c rest =>
    simp only [parseInt64] at h
    by_cases hc : c = 45
    · rw [if_pos hc] at h
      cases rest with
      | nil => simp at h
      | cons d rest' =>
        simp only [List.isEmpty_cons, Bool.false_eq_true, if_false] at h
        by_cases hv : digitsVal (d :: rest') ≤ 2 ^ 63
        · rw [if_pos hv] at h
          injection h with h
          omega
        · rw [if_neg hv] at h; exact absurd h (by simp)
    · rw [if_neg hc] at h
      by_cases hv : digitsVal (c :: rest) < 2 ^ 63
      · rw [if_pos hv] at h
        injection h with h
        omega
      · rw [if_neg hv] at h; exact absurd h (by simp)

theorem parseNumber_range (inp : Bytes) (n : Int) (r : Bytes) (h : parseNumber inp = some (n, r)) :
    -(2:Int)^63 ≤ n ∧ n < (2:Int)^63 := by
  cases inp with
  | nil => simp [parseNumber] at h
  | cons c rest =>
    simp only [parseNumber] at h
    split at h
    · exact absurd h (by simp)
    · cases hp : parseInt64 (c :: rest.takeWhile isDigit) with
      | none => simp [hp] at h
      | some m =>
        simp only [hp, Option.some.injEq, Prod.mk.injEq] at h
        rw [← h.1]
        exact parseInt64_range _ _ hp

def printable (c : UInt8) : Bool := 32 ≤ c && c ≤ 126

theorem parseStringBody_printable : ∀ (n : Nat) (inp acc s r : Bytes), inp.length ≤ n →
    parseStringBody inp acc = some (s, r) → acc.all printable = true → s.all printable = true := by
  intro n
  induction n with
  | zero =>
    intro inp acc s r hl h _
    cases inp with
    | nil => simp [parseStringBody] at h
    | cons c rest => simp at hl
  | succ n ih =>
    intro inp acc s r hl h hacc
    cases inp with
    | nil => simp [parseStringBody] at h
    | cons c rest =>
      rw [psb_cons] at h
      simp only [List.length_cons] at hl
      by_cases h92 : c = 92
      · simp only [h92, if_true] at h
        cases rest with
        | nil => simp at h
        | cons d rest' =>
          simp only at h
          by_cases hd : d = 34 ∨ d = 92
          · simp only [hd, if_true] at h
            refine ih rest' (acc ++ [d]) s r (by simp only [List.length_cons] at hl; omega) h ?_
            rw [List.all_append, hacc]
            rcases hd with hd | hd <;> (subst hd; decide)
          · simp [hd] at h
      · simp only [h92, if_false] at h
        by_cases h34 : c = 34
        · simp only [h34, if_true, Option.some.injEq, Prod.mk.injEq] at h
          rw [← h.1]; exact hacc
        · simp only [h34, if_false] at h
          by_cases hr : c < 32 ∨ c > 126
          · simp [hr] at h
          · simp only [hr, if_false] at h
            refine ih rest (acc ++ [c]) s r (by omega) h ?_
            rw [List.all_append, hacc]
            have : printable c = true := by
              simp only [printable, Bool.and_eq_true, decide_eq_true_eq]
              simp only [not_or, UInt8.not_lt, gt_iff_lt] at hr
              exact hr
            simp [this]

theorem parseString_printable (inp s r : Bytes) (h : parseString inp = some (s, r)) :
    s.all (fun c => 32 ≤ c && c ≤ 126) = true := by
  cases inp with
  | nil => simp [parseString] at h
  | cons c rest =>
    simp only [parseString] at h
    by_cases hc : c = 34
    · simp only [hc, if_true] at h
      exact parseStringBody_printable rest.length rest [] s r (Nat.le_refl _) h (by simp)
    · simp [hc] at h

theorem parseToken_valid_out (inp t r : Bytes) (h : parseToken inp = some (t, r)) : isValidToken t = true := by
  cases inp with
  | nil => simp [parseToken] at h
  | cons c rest =>
    simp only [parseToken] at h
    by_cases hc : isAlpha c = true
    · simp only [hc, Bool.not_true, Bool.false_eq_true, if_false, Option.some.injEq, Prod.mk.injEq] at h
      rw [← h.1, List.takeWhile_cons, if_pos (isAlpha_tokenChar hc)]
      simp only [isValidToken, hc, Bool.true_and, List.all_cons, isAlpha_tokenChar hc]
      exact List.all_takeWhile
    · simp [hc] at h

theorem isLCAlpha_keyChar {c : UInt8} (h : isLCAlpha c = true) : isKeyChar c = true := by chars

theorem parseKey_valid_out (inp k r : Bytes) (h : parseKey inp = some (k, r)) : isValidKey k = true := by
  cases inp with
  | nil => simp [parseKey] at h
  | cons c rest =>
    simp only [parseKey] at h
    by_cases hc : isLCAlpha c = true
    · simp only [hc, Bool.not_true, Bool.false_eq_true, if_false, Option.some.injEq, Prod.mk.injEq] at h
      rw [← h.1, List.takeWhile_cons, if_pos (isLCAlpha_keyChar hc)]
      simp only [isValidKey, hc, Bool.true_and, List.all_cons, isLCAlpha_keyChar hc]
      exact List.all_takeWhile
    · simp [hc] at h

theorem parseItem_valid (inp : Bytes) (i : Item) (r : Bytes) (h : parseItem inp = some (i, r)) :
    validItem i = true := by
  cases inp with
  | nil => simp [parseItem] at h
  | cons c rest =>
    simp only [parseItem] at h
    by_cases h1 : c = 45 ∨ isDigit c = true
    · simp only [h1, if_true, Option.map_eq_some_iff] at h
      obtain ⟨⟨n, r'⟩, hp, he⟩ := h
      simp only [Prod.mk.injEq] at he
      rw [← he.1]
      have := parseNumber_range _ _ _ hp
      simp only [validItem, Bool.and_eq_true, decide_eq_true_eq]; exact this
    · simp only [h1, if_false] at h
      by_cases h2 : c = 34
      · simp only [h2, if_true, Option.map_eq_some_iff] at h
        obtain ⟨⟨s, r'⟩, hp, he⟩ := h
        simp only [Prod.mk.injEq] at he
        rw [← he.1]
        exact parseString_printable _ _ _ hp
      · simp only [h2, if_false] at h
        by_cases h3 : c = 42
        · simp only [h3, if_true, Option.map_eq_some_iff] at h
          obtain ⟨⟨s, r'⟩, hp, he⟩ := h
          simp only [Prod.mk.injEq] at he
          rw [← he.1]; rfl
        · simp only [h3, if_false] at h
          by_cases h4 : isAlpha c = true
          · simp only [h4, if_true, Option.map_eq_some_iff] at h
            obtain ⟨⟨s, r'⟩, hp, he⟩ := h
            simp only [Prod.mk.injEq] at he
            rw [← he.1]
            exact parseToken_valid_out _ _ _ hp
          · simp [h4] at h

/-- invariant of the parameter loop: all parameters valid, keys distinct -/
def GoodParams (ps : Params) : Prop := ps.all validParam = true ∧ (ps.map Prod.fst).Nodup

theorem goodParams_snoc {acc : Params} {k : Bytes} {v : Option Item} (h : GoodParams acc)
    (hk : isValidKey k = true) (hv : ∀ i, v = some i → validItem i = true)
    (hacc : acc.any (fun kv => kv.1 == k) = false) : GoodParams (acc ++ [(k, v)]) := by
  refine ⟨?_, ?_⟩
  · rw [List.all_append, h.1]
    cases v with
    | none => simp [validParam, hk]
    | some i => simp [validParam, hk, hv i rfl]
  · rw [List.map_append, List.nodup_append]
    refine ⟨h.2, by simp, ?_⟩
    intro a ha b hb
    simp only [List.map_cons, List.map_nil, List.mem_singleton] at hb
    subst hb
    intro e; subst e
    obtain ⟨kv, hkv, he⟩ := List.mem_map.mp ha
    have := List.any_eq_false.mp hacc kv hkv
    simp [he] at this

theorem parseParams_good : ∀ (fuel : Nat) (inp : Bytes) (acc ps : Params) (r : Bytes),
    parseParams fuel inp acc = some (ps, r) → GoodParams acc → GoodParams ps := by
  intro fuel
  induction fuel with
  | zero => intro inp acc ps r h; simp [parseParams] at h
  | succ f ih =>
    intro inp acc ps r h hg
    rw [parseParams] at h
    simp only at h
    split at h
    · rename_i c rest _
      split at h
      · simp only [Option.some.injEq, Prod.mk.injEq] at h
        rw [← h.1]; exact hg
      · cases hk : parseKey (discardOWS rest) with
        | none => simp [hk] at h
        | some kr =>
          obtain ⟨k, inp3⟩ := kr
          simp only [hk] at h
          have hkv := parseKey_valid_out _ _ _ hk
          split at h
          · exact absurd h (by simp)
          · rename_i hany
            have hany' : acc.any (fun kv => kv.1 == k) = false := Bool.eq_false_iff.mpr hany
            split at h
            · rename_i inp4
              cases hi : parseItem inp4 with
              | none => simp [hi] at h
              | some vr =>
                obtain ⟨v, inp5⟩ := vr
                simp only [hi] at h
                have hvv := parseItem_valid _ _ _ hi
                exact ih _ _ _ _ h (goodParams_snoc hg hkv (by intro i e; cases e; exact hvv) hany')
            · exact ih _ _ _ _ h (goodParams_snoc hg hkv (by intro i e; cases e) hany')
    · simp only [Option.some.injEq, Prod.mk.injEq] at h
      rw [← h.1]; exact hg

theorem parsePI_good (inp : Bytes) (pi : PI) (r : Bytes) (h : parsePI inp = some (pi, r)) :
    validPI pi = true ∧ (pi.params.map Prod.fst).Nodup := by
  unfold parsePI at h
  cases ht : parseToken inp with
  | none => simp [ht] at h
  | some lr =>
    obtain ⟨label, rest⟩ := lr
    simp only [ht] at h
    cases hp : parseParams (rest.length + 1) rest [] with
    | none => simp [hp] at h
    | some pr =>
      obtain ⟨ps, rest'⟩ := pr
      simp only [hp, Option.some.injEq, Prod.mk.injEq] at h
      have hg := parseParams_good _ _ _ _ _ hp ⟨by simp, by simp⟩
      rw [← h.1]
      exact ⟨by simp [validPI, parseToken_valid_out _ _ _ ht, hg.1], hg.2⟩

theorem parsePLLoop_good (P : PI → Prop) (hP : ∀ inp pi r, parsePI inp = some (pi, r) → P pi) :
    ∀ (fuel : Nat) (inp : Bytes) (acc pl : List PI), parsePLLoop fuel inp acc = some pl →
      (∀ pi ∈ acc, P pi) → pl ≠ [] ∧ ∀ pi ∈ pl, P pi := by
  intro fuel
  induction fuel with
  | zero => intro inp acc pl h; simp [parsePLLoop] at h
  | succ f ih =>
    intro inp acc pl h hacc
    rw [parsePLLoop] at h
    split at h
    · exact absurd h (by simp)
    · cases hp : parsePI inp with
      | none => simp [hp] at h
      | some pr =>
        obtain ⟨pi, rest⟩ := pr
        simp only [hp] at h
        have hacc' : ∀ x ∈ acc ++ [pi], P x := by
          intro x hx
          rcases List.mem_append.mp hx with hx | hx
          · exact hacc x hx
          · simp only [List.mem_singleton] at hx; subst hx; exact hP _ _ _ hp
        split at h
        · simp only [Option.some.injEq] at h
          rw [← h]
          exact ⟨by simp, hacc'⟩
        · split at h
          · exact absurd h (by simp)
          · exact ih _ _ _ h hacc'

/-- Theorem 7 (parameterised lists): everything `ParseParameterisedList` returns is non-empty, valid, and has
    distinct parameter keys. -/
theorem parseParameterisedList_valid (s : Bytes) (pl : List PI) (h : parseParameterisedList s = some pl) :
    pl ≠ [] ∧ ∀ pi ∈ pl, validPI pi = true ∧ (pi.params.map Prod.fst).Nodup := by
  unfold parseParameterisedList at h
  exact parsePLLoop_good (fun pi => validPI pi = true ∧ (pi.params.map Prod.fst).Nodup)
    (fun inp pi r hp => parsePI_good inp pi r hp) _ _ _ _ h (by simp)

theorem parseLLLoop_good : ∀ (fuel : Nat) (inp : Bytes) (top : List (List Item)) (inner : List Item)
    (ll : List (List Item)), parseLLLoop fuel inp top inner = some ll →
    (∀ l ∈ top, l ≠ [] ∧ ∀ i ∈ l, validItem i = true) → (∀ i ∈ inner, validItem i = true) →
    ll ≠ [] ∧ ∀ l ∈ ll, l ≠ [] ∧ ∀ i ∈ l, validItem i = true := by
  intro fuel
  induction fuel with
  | zero => intro inp top inner ll h; simp [parseLLLoop] at h
  | succ f ih =>
    intro inp top inner ll h htop hinner
    rw [parseLLLoop] at h
    split at h
    · exact absurd h (by simp)
    · cases hp : parseItem inp with
      | none => simp [hp] at h
      | some ir =>
        obtain ⟨item, rest⟩ := ir
        simp only [hp] at h
        have hvi := parseItem_valid _ _ _ hp
        have hinner' : ∀ i ∈ inner ++ [item], validItem i = true := by
          intro x hx
          rcases List.mem_append.mp hx with hx | hx
          · exact hinner x hx
          · simp only [List.mem_singleton] at hx; subst hx; exact hvi
        have htop' : ∀ l ∈ top ++ [inner ++ [item]], l ≠ [] ∧ ∀ i ∈ l, validItem i = true := by
          intro l hl
          rcases List.mem_append.mp hl with hl | hl
          · exact htop l hl
          · simp only [List.mem_singleton] at hl; subst hl; exact ⟨by simp, hinner'⟩
        split at h
        · simp only [Option.some.injEq] at h
          rw [← h]
          exact ⟨by simp, htop'⟩
        · split at h
          · exact ih _ _ _ _ h htop' (by simp)
          · split at h
            · exact ih _ _ _ _ h htop hinner'
            · exact absurd h (by simp)

/-- Theorem 7 (lists of lists) -/
theorem parseListOfLists_valid (s : Bytes) (ll : List (List Item)) (h : parseListOfLists s = some ll) :
    ll ≠ [] ∧ ∀ inner ∈ ll, inner ≠ [] ∧ ∀ i ∈ inner, validItem i = true := by
  unfold parseListOfLists at h
  exact parseLLLoop_good _ _ _ _ _ h (by simp) (by simp)

/-! ## parse–serialize–parse (Theorem 8) -/

theorem parse_serialize_parse_pl (s : Bytes) (pl : List PI) (h : parseParameterisedList s = some pl) :
    ∃ s', serializePL pl = some s' ∧ parseParameterisedList s' = some (pl.map normPI) := by
  obtain ⟨hne, hv⟩ := parseParameterisedList_valid s pl h
  have hs : (serializePL pl).isSome = true := by
    rw [serializePL_isSome_iff]
    refine ⟨hne, ?_⟩
    intro pi hpi
    have hvp := (hv pi hpi).1
    simp only [validPI, Bool.and_eq_true] at hvp
    refine ⟨hvp.1, ?_⟩
    intro kv hkv
    have := List.all_eq_true.mp hvp.2 kv hkv
    simp only [validParam, Bool.and_eq_true] at this
    refine ⟨this.1, ?_⟩
    intro i hi
    rw [hi] at this
    exact validItem_serializes this.2
  obtain ⟨s', hs'⟩ := Option.isSome_iff_exists.mp hs
  exact ⟨s', hs', parse_serialize_pl pl s' (fun pi hpi => (hv pi hpi).1) (fun pi hpi => (hv pi hpi).2) hs'⟩

theorem parse_serialize_parse_ll (s : Bytes) (ll : List (List Item)) (h : parseListOfLists s = some ll) :
    ∃ s', serializeLL ll = some s' ∧ parseListOfLists s' = some ll := by
  obtain ⟨hne, hv⟩ := parseListOfLists_valid s ll h
  have hs : (serializeLL ll).isSome = true := by
    rw [serializeLL_isSome_iff]
    exact ⟨hne, fun inner hin => ⟨(hv inner hin).1, fun i hi => validItem_serializes ((hv inner hin).2 i hi)⟩⟩
  obtain ⟨s', hs'⟩ := Option.isSome_iff_exists.mp hs
  exact ⟨s', hs', parse_serialize_ll ll s' (fun inner hin => (hv inner hin).2) hs'⟩

/-! ## axiom audit -/

end WebPkg.SH
