import WebPkg.Proofs.SH
import WebPkg.Spec.SH
/-
  The recursive-descent structured-header parser (WebPkg/Model/StructuredHeader.lean) accepts exactly the
  grammar of WebPkg/Spec/SH.lean:

    parseItem_sound / parseItem_complete      item level
    parseListOfLists_iff                      parseListOfLists s = some ll ↔ LLD s ll
    parseParameterisedList_iff                parseParameterisedList s = some pl ↔ PLD s pl
-/
namespace WebPkg.SH
open WebPkg.Spec.SH

/-! ## generic list / whitespace helpers -/

theorem mem_takeWhile_true {p : UInt8 → Bool} : ∀ (l : Bytes) (x : UInt8), x ∈ l.takeWhile p → p x = true
  | [], x, h => by simp at h
  | a :: l, x, h => by
    rw [List.takeWhile_cons] at h
    by_cases ha : p a = true
    · rw [if_pos ha] at h
      rcases List.mem_cons.mp h with h | h
      · rw [h]; exact ha
      · exact mem_takeWhile_true l x h
    · rw [if_neg ha] at h; simp at h

theorem dropWhile_head {p : UInt8 → Bool} : ∀ (l : Bytes) (x : UInt8) (t : Bytes),
    l.dropWhile p = x :: t → p x = false
  | [], x, t, h => by simp at h
  | a :: l, x, t, h => by
    rw [List.dropWhile_cons] at h
    by_cases ha : p a = true
    · rw [if_pos ha] at h; exact dropWhile_head l x t h
    · rw [if_neg ha] at h
      injection h with h1 _
      subst h1
      simpa using ha

theorem dropWhile_stops_self (p : UInt8 → Bool) (l : Bytes) : Stops p (l.dropWhile p) :=
  fun c r e => dropWhile_head l c r e

theorem isOWS_iff (c : UInt8) : isOWS c = true ↔ (c = 32 ∨ c = 9) := by
  simp [isOWS]

theorem IsOWS.all {w : Bytes} (h : IsOWS w) : ∀ a ∈ w, isOWS a = true :=
  fun a ha => (isOWS_iff a).mpr (h a ha)

theorem isOWS_nil : IsOWS [] := by
  intro c hc; cases hc

theorem IsOWS.append {a b : Bytes} (ha : IsOWS a) (hb : IsOWS b) : IsOWS (a ++ b) := by
  intro c hc
  rcases List.mem_append.mp hc with h | h
  · exact ha c h
  · exact hb c h

/-- leading optional whitespace is skipped -/
theorem discardOWS_ows_append {w : Bytes} (hw : IsOWS w) (x : Bytes) : discardOWS (w ++ x) = discardOWS x := by
  unfold discardOWS
  exact List.dropWhile_append_of_pos (IsOWS.all hw)

theorem discardOWS_stops {x : Bytes} (h : Stops isOWS x) : discardOWS x = x := by
  cases x with
  | nil => rfl
  | cons c r => exact discardOWS_cons_of_not (h c r rfl) r

/-- `discardOWS (w ++ x) = x` when `w` is whitespace and `x` is empty or starts with a non-whitespace byte -/
theorem discardOWS_ows_stops {w x : Bytes} (hw : IsOWS w) (hx : Stops isOWS x) : discardOWS (w ++ x) = x := by
  rw [discardOWS_ows_append hw, discardOWS_stops hx]

theorem discardOWS_ows {w : Bytes} (hw : IsOWS w) : discardOWS w = [] := by
  have := discardOWS_ows_stops (x := []) hw (fun c r e => by cases e)
  simpa using this

theorem discardOWS_result_stops (inp : Bytes) : Stops isOWS (discardOWS inp) :=
  dropWhile_stops_self isOWS inp

theorem discardOWS_idem (inp : Bytes) : discardOWS (discardOWS inp) = discardOWS inp :=
  discardOWS_stops (discardOWS_result_stops inp)

/-- every input splits into its leading whitespace and `discardOWS` of it -/
theorem discardOWS_spec (inp : Bytes) : ∃ w, IsOWS w ∧ inp = w ++ discardOWS inp := by
  refine ⟨inp.takeWhile isOWS, ?_, (List.takeWhile_append_dropWhile (p := isOWS) (l := inp)).symm⟩
  intro c hc
  exact (isOWS_iff c).mp (mem_takeWhile_true inp c hc)

theorem NonWS.stops {b : Bytes} (h : NonWS b) : Stops isOWS b := by
  obtain ⟨c, r, e, hc⟩ := h
  intro c' r' e'
  rw [e] at e'; injection e' with e1 _; subst e1; exact hc

theorem NonWS.ne_nil {b : Bytes} (h : NonWS b) : b ≠ [] := by
  obtain ⟨c, r, e, _⟩ := h
  rw [e]; simp

/-! ## delimiters are neither key characters, token characters nor digits -/

theorem ItemEnd.stops_key {rest : Bytes} (h : ItemEnd rest) : Stops isKeyChar rest := by
  intro c r e
  rcases h with h | ⟨c', r', e', hc⟩
  · simp [h] at e
  · rw [e] at e'; injection e' with e1 _; subst e1; chars

theorem ItemEnd.not_eq {rest : Bytes} (h : ItemEnd rest) : ∀ r, rest ≠ 61 :: r := by
  intro r e
  rcases h with h | ⟨c', r', e', hc⟩
  · simp [h] at e
  · rw [e] at e'; injection e' with e1 _; subst e1
    revert hc; decide

theorem stops_token_stops_digit {rest : Bytes} (h : Stops isTokenChar rest) : Stops isDigit rest := by
  intro c r e
  have := h c r e
  chars

theorem itemEnd_of_ows_append {w x : Bytes} (hw : IsOWS w) (hx : ItemEnd x) : ItemEnd (w ++ x) := by
  cases w with
  | nil => simpa using hx
  | cons c w' =>
    refine Or.inr ⟨c, w' ++ x, rfl, ?_⟩
    rcases hw c (by simp) with h | h
    · exact Or.inl h
    · exact Or.inr (Or.inl h)

/-! ## tokens and keys -/

theorem isValidToken_iff (t : Bytes) : isValidToken t = true ↔ IsToken t := by
  cases t with
  | nil =>
    simp only [isValidToken, IsToken]
    constructor
    · intro h; cases h
    · rintro ⟨c, r, e, _⟩; cases e
  | cons c r =>
    simp only [isValidToken, Bool.and_eq_true, IsToken]
    constructor
    · intro h
      exact ⟨c, r, rfl, h.1, fun x hx => List.all_eq_true.mp h.2 x (List.mem_cons_of_mem _ hx)⟩
    · rintro ⟨c', r', e, h1, h2⟩
      injection e with e1 e2
      subst e1 e2
      refine ⟨h1, List.all_eq_true.mpr ?_⟩
      intro x hx
      rcases List.mem_cons.mp hx with hx | hx
      · rw [hx]; exact isAlpha_tokenChar h1
      · exact h2 x hx

theorem isValidKey_iff (t : Bytes) : isValidKey t = true ↔ IsKey t := by
  cases t with
  | nil =>
    simp only [isValidKey, IsKey]
    constructor
    · intro h; cases h
    · rintro ⟨c, r, e, _⟩; cases e
  | cons c r =>
    simp only [isValidKey, Bool.and_eq_true, IsKey]
    constructor
    · intro h
      exact ⟨c, r, rfl, h.1, fun x hx => List.all_eq_true.mp h.2 x (List.mem_cons_of_mem _ hx)⟩
    · rintro ⟨c', r', e, h1, h2⟩
      injection e with e1 e2
      subst e1 e2
      refine ⟨h1, List.all_eq_true.mpr ?_⟩
      intro x hx
      rcases List.mem_cons.mp hx with hx | hx
      · rw [hx]; exact isLCAlpha_keyChar h1
      · exact h2 x hx

theorem isToken_nonWS {t : Bytes} (h : IsToken t) : NonWS t := isValidToken_nonWS ((isValidToken_iff t).mpr h)
theorem isKey_nonWS {t : Bytes} (h : IsKey t) : NonWS t := isValidKey_nonWS ((isValidKey_iff t).mpr h)

theorem parseToken_sound (inp t r : Bytes) (h : parseToken inp = some (t, r)) : inp = t ++ r ∧ IsToken t := by
  refine ⟨?_, (isValidToken_iff t).mp (parseToken_valid_out inp t r h)⟩
  cases inp with
  | nil => simp [parseToken] at h
  | cons c rest =>
    simp only [parseToken] at h
    by_cases hc : isAlpha c = true
    · simp only [hc, Bool.not_true, Bool.false_eq_true, if_false, Option.some.injEq, Prod.mk.injEq] at h
      rw [← h.1, ← h.2, List.takeWhile_append_dropWhile]
    · simp [hc] at h

theorem parseKey_sound (inp t r : Bytes) (h : parseKey inp = some (t, r)) : inp = t ++ r ∧ IsKey t := by
  refine ⟨?_, (isValidKey_iff t).mp (parseKey_valid_out inp t r h)⟩
  cases inp with
  | nil => simp [parseKey] at h
  | cons c rest =>
    simp only [parseKey] at h
    by_cases hc : isLCAlpha c = true
    · simp only [hc, Bool.not_true, Bool.false_eq_true, if_false, Option.some.injEq, Prod.mk.injEq] at h
      rw [← h.1, ← h.2, List.takeWhile_append_dropWhile]
    · simp [hc] at h

theorem parseToken_complete (t rest : Bytes) (ht : IsToken t) (hr : Stops isTokenChar rest) :
    parseToken (t ++ rest) = some (t, rest) :=
  parseToken_valid t ((isValidToken_iff t).mpr ht) rest hr

theorem parseKey_complete (k rest : Bytes) (hk : IsKey k) (hr : Stops isKeyChar rest) :
    parseKey (k ++ rest) = some (k, rest) :=
  parseKey_valid k ((isValidKey_iff k).mpr hk) rest hr

/-! ## numbers -/

theorem parseNumber_sound (inp : Bytes) (n : Int) (r : Bytes) (h : parseNumber inp = some (n, r)) :
    ∃ ie, inp = ie ++ r ∧ ItemD ie (.int n) := by
  cases inp with
  | nil => simp [parseNumber] at h
  | cons c rest =>
    simp only [parseNumber] at h
    split at h
    · exact absurd h (by simp)
    · rename_i hcond
      cases hp : parseInt64 (c :: rest.takeWhile isDigit) with
      | none => simp [hp] at h
      | some m =>
        simp only [hp, Option.some.injEq, Prod.mk.injEq] at h
        obtain ⟨h1, h2⟩ := h
        subst h1 h2
        have hsplit : c :: rest = (c :: rest.takeWhile isDigit) ++ rest.dropWhile isDigit := by
          rw [List.cons_append, List.takeWhile_append_dropWhile]
        have hds : ∀ d ∈ rest.takeWhile isDigit, isDigit d = true := fun d hd => mem_takeWhile_true rest d hd
        refine ⟨c :: rest.takeWhile isDigit, hsplit, ?_⟩
        generalize rest.takeWhile isDigit = ds at hp hds
        simp only [parseInt64] at hp
        by_cases hc : c = 45
        · subst hc
          simp only [if_true] at hp
          cases ds with
          | nil => simp at hp
          | cons d ds' =>
            simp only [List.isEmpty_cons, Bool.false_eq_true, if_false] at hp
            by_cases hv : digitsVal (d :: ds') ≤ 2 ^ 63
            · rw [if_pos hv] at hp
              injection hp with hp
              subst hp
              exact ItemD.neg _ (by simp) hds hv
            · rw [if_neg hv] at hp; exact absurd hp (by simp)
        · rw [if_neg hc] at hp
          have hcd : isDigit c = true := by simpa [hc] using hcond
          by_cases hv : digitsVal (c :: ds) < 2 ^ 63
          · rw [if_pos hv] at hp
            injection hp with hp
            subst hp
            refine ItemD.pos _ (by simp) ?_ hv
            intro d hd
            rcases List.mem_cons.mp hd with hd | hd
            · rw [hd]; exact hcd
            · exact hds d hd
          · rw [if_neg hv] at hp; exact absurd hp (by simp)

theorem parseNumber_complete_pos (ds rest : Bytes) (hne : ds ≠ []) (hds : ∀ d ∈ ds, isDigit d = true)
    (hv : digitsVal ds < 2 ^ 63) (hr : Stops isDigit rest) :
    parseNumber (ds ++ rest) = some ((digitsVal ds : Int), rest) := by
  cases ds with
  | nil => exact absurd rfl hne
  | cons c ds' =>
    have hc : isDigit c = true := hds c (by simp)
    have hds' : ∀ d ∈ ds', isDigit d = true := fun d hd => hds d (List.mem_cons_of_mem _ hd)
    have hc45 : c ≠ 45 := by
      intro e; subst e; revert hc; decide
    have hcond : (decide (c ≠ 45) && !isDigit c) = false := by simp [hc]
    rw [List.cons_append, parseNumber]
    simp only [hcond, Bool.false_eq_true, if_false, takeWhile_stops hds' hr, dropWhile_stops hds' hr,
      parseInt64, hc45, hv, if_true]

theorem parseNumber_complete_neg (ds rest : Bytes) (hne : ds ≠ []) (hds : ∀ d ∈ ds, isDigit d = true)
    (hv : digitsVal ds ≤ 2 ^ 63) (hr : Stops isDigit rest) :
    parseNumber (45 :: ds ++ rest) = some (-(digitsVal ds : Int), rest) := by
  have hcond : (decide ((45 : UInt8) ≠ 45) && !isDigit 45) = false := by decide
  have hemp : ds.isEmpty = false := by
    cases ds with
    | nil => exact absurd rfl hne
    | cons _ _ => rfl
  rw [List.cons_append, parseNumber]
  simp only [hcond, Bool.false_eq_true, if_false, takeWhile_stops hds hr, dropWhile_stops hds hr,
    parseInt64, hemp, hv, if_true]

/-! ## strings -/

theorem parseStringBody_sound : ∀ (n : Nat) (inp acc s r : Bytes), inp.length ≤ n →
    parseStringBody inp acc = some (s, r) → ∃ e d, inp = e ++ 34 :: r ∧ s = acc ++ d ∧ StrBody e d := by
  intro n
  induction n with
  | zero =>
    intro inp acc s r hl h
    cases inp with
    | nil => simp [parseStringBody] at h
    | cons c rest => simp at hl
  | succ n ih =>
    intro inp acc s r hl h
    cases inp with
    | nil => simp [parseStringBody] at h
    | cons c rest =>
      rw [psb_cons] at h
      simp only [List.length_cons] at hl
      by_cases h92 : c = 92
      · simp only [h92, if_true] at h
        cases rest with
        | nil => simp at h
        | cons d rest' =>
          simp only at h
          by_cases hd : d = 34 ∨ d = 92
          · simp only [hd, if_true] at h
            obtain ⟨e, d', he, hs, hb⟩ :=
              ih rest' (acc ++ [d]) s r (by simp only [List.length_cons] at hl; omega) h
            refine ⟨92 :: d :: e, d :: d', ?_, ?_, StrBody.esc d e d' hd hb⟩
            · rw [h92, he]; rfl
            · rw [hs]; simp
          · simp [hd] at h
      · simp only [h92, if_false] at h
        by_cases h34 : c = 34
        · simp only [h34, if_true, Option.some.injEq, Prod.mk.injEq] at h
          refine ⟨[], [], ?_, ?_, StrBody.nil⟩
          · rw [h34, h.2]; rfl
          · rw [← h.1]; simp
        · simp only [h34, if_false] at h
          by_cases hr : c < 32 ∨ c > 126
          · simp [hr] at h
          · simp only [hr, if_false] at h
            obtain ⟨e, d', he, hs, hb⟩ := ih rest (acc ++ [c]) s r (by omega) h
            simp only [not_or, UInt8.not_lt, gt_iff_lt] at hr
            refine ⟨c :: e, c :: d', ?_, ?_, StrBody.plain c e d' hr.1 hr.2 h34 h92 hb⟩
            · rw [he]; rfl
            · rw [hs]; simp

theorem parseStringBody_complete {e d : Bytes} (h : StrBody e d) : ∀ (rest acc : Bytes),
    parseStringBody (e ++ 34 :: rest) acc = some (acc ++ d, rest) := by
  induction h with
  | nil =>
    intro rest acc
    rw [List.nil_append, psb_cons]
    simp
  | plain c e d h1 h2 h34 h92 _ ih =>
    intro rest acc
    have hrange : ¬ (c < 32 ∨ c > 126) := by
      simp only [not_or, UInt8.not_lt, gt_iff_lt]; exact ⟨h1, h2⟩
    rw [List.cons_append, psb_cons]
    simp only [h92, h34, hrange, if_false, ih]
    simp
  | esc c e d hc _ ih =>
    intro rest acc
    rw [List.cons_append, List.cons_append, psb_cons]
    simp only [if_true, hc, ih]
    simp

theorem parseString_sound (inp s r : Bytes) (h : parseString inp = some (s, r)) :
    ∃ ie, inp = ie ++ r ∧ ItemD ie (.str s) := by
  cases inp with
  | nil => simp [parseString] at h
  | cons c rest =>
    simp only [parseString] at h
    by_cases hc : c = 34
    · simp only [hc, if_true] at h
      obtain ⟨e, d, he, hs, hb⟩ := parseStringBody_sound rest.length rest [] s r (Nat.le_refl _) h
      rw [List.nil_append] at hs
      subst hs
      refine ⟨34 :: e ++ [34], ?_, ItemD.str e s hb⟩
      rw [hc, he]; simp
    · simp [hc] at h

theorem parseString_complete (e d rest : Bytes) (h : StrBody e d) :
    parseString (34 :: e ++ [34] ++ rest) = some (d, rest) := by
  have := parseStringBody_complete h rest []
  simp only [List.cons_append, List.append_assoc, List.nil_append, parseString, if_true] at this ⊢
  exact this

/-! ## byte sequences -/

theorem parseByteSequence_sound (inp b r : Bytes) (h : parseByteSequence inp = some (b, r)) :
    ∃ ie, inp = ie ++ r ∧ ItemD ie (.bytes b) := by
  cases inp with
  | nil => simp [parseByteSequence] at h
  | cons c rest =>
    simp only [parseByteSequence] at h
    by_cases hc : c = 42
    · simp only [hc, ne_eq, not_true_eq_false, if_false] at h
      have hsplit := (List.takeWhile_append_dropWhile (p := (· != 42)) (l := rest)).symm
      have hs : ∀ x ∈ rest.takeWhile (· != 42), x ≠ 42 := by
        intro x hx
        have := mem_takeWhile_true (p := (· != 42)) rest x hx
        simpa using this
      cases hafter : rest.dropWhile (· != 42) with
      | nil => simp [hafter] at h
      | cons x after' =>
        have hx : x = 42 := by
          have := dropWhile_head (p := (· != 42)) rest x after' hafter
          simpa using this
        simp only [hafter] at h
        cases hdec : Base64.decode false ((rest.takeWhile (· != 42)).length % 4 == 0) (rest.takeWhile (· != 42)) with
        | none => simp [hdec] at h
        | some data =>
          simp only [hdec, Option.some.injEq, Prod.mk.injEq] at h
          obtain ⟨h1, h2⟩ := h
          subst h1 h2
          refine ⟨42 :: rest.takeWhile (· != 42) ++ [42], ?_, ItemD.bytes _ _ hs hdec⟩
          rw [hafter, hx] at hsplit
          rw [hc]
          simp only [List.cons_append, List.append_assoc, List.nil_append]
          rw [← hsplit]
    · simp [hc] at h

theorem parseByteSequence_complete (s d rest : Bytes) (hs : ∀ c ∈ s, c ≠ 42)
    (hdec : Base64.decode false (s.length % 4 == 0) s = some d) :
    parseByteSequence (42 :: s ++ [42] ++ rest) = some (d, rest) := by
  have hstop : Stops (· != 42) (42 :: rest) := by
    intro c r e; injection e with e1 _; subst e1; decide
  have hs' : ∀ a ∈ s, (a != 42) = true := by
    intro a ha; simpa using hs a ha
  simp only [List.cons_append, List.append_assoc, List.nil_append, parseByteSequence, ne_eq, not_true_eq_false,
    if_false, takeWhile_stops hs' hstop, dropWhile_stops hs' hstop, hdec]

/-! ## items -/

/-- A. soundness: whatever `parseItem` consumes is a grammar item denoting the returned value -/
theorem parseItem_sound (inp : Bytes) (i : Item) (rest : Bytes) (h : parseItem inp = some (i, rest)) :
    ∃ ie, inp = ie ++ rest ∧ ItemD ie i := by
  cases inp with
  | nil => simp [parseItem] at h
  | cons c inp' =>
    simp only [parseItem] at h
    by_cases h1 : c = 45 ∨ isDigit c = true
    · simp only [h1, if_true, Option.map_eq_some_iff] at h
      obtain ⟨⟨n, r'⟩, hp, he⟩ := h
      simp only [Prod.mk.injEq] at he
      obtain ⟨e1, e2⟩ := he
      subst e1 e2
      exact parseNumber_sound _ _ _ hp
    · simp only [h1, if_false] at h
      by_cases h2 : c = 34
      · simp only [h2, if_true, Option.map_eq_some_iff] at h
        obtain ⟨⟨n, r'⟩, hp, he⟩ := h
        simp only [Prod.mk.injEq] at he
        obtain ⟨e1, e2⟩ := he
        subst e1 e2
        rw [h2]
        exact parseString_sound _ _ _ hp
      · simp only [h2, if_false] at h
        by_cases h3 : c = 42
        · simp only [h3, if_true, Option.map_eq_some_iff] at h
          obtain ⟨⟨n, r'⟩, hp, he⟩ := h
          simp only [Prod.mk.injEq] at he
          obtain ⟨e1, e2⟩ := he
          subst e1 e2
          rw [h3]
          exact parseByteSequence_sound _ _ _ hp
        · simp only [h3, if_false] at h
          by_cases h4 : isAlpha c = true
          · simp only [h4, if_true, Option.map_eq_some_iff] at h
            obtain ⟨⟨n, r'⟩, hp, he⟩ := h
            simp only [Prod.mk.injEq] at he
            obtain ⟨e1, e2⟩ := he
            subst e1 e2
            obtain ⟨e, ht⟩ := parseToken_sound _ _ _ hp
            exact ⟨n, e, ItemD.token n ht⟩
          · simp [h4] at h

/-- The side condition of item completeness: `rest` does not continue the item.  An integer must not be
    followed by a digit, a token must not be followed by a token character; strings and byte sequences are
    self-delimiting and need nothing. -/
def ItemStop : Item → Bytes → Prop
  | .int _, rest => Stops isDigit rest
  | .token _, rest => Stops isTokenChar rest
  | _, _ => True

/-- A. completeness -/
theorem parseItem_complete (ie : Bytes) (i : Item) (rest : Bytes) (h : ItemD ie i) (hr : ItemStop i rest) :
    parseItem (ie ++ rest) = some (i, rest) := by
  cases h with
  | pos _ hne hds hv =>
    have hp := parseNumber_complete_pos ie rest hne hds hv hr
    cases ie with
    | nil => exact absurd rfl hne
    | cons c ds' =>
      have hc : isDigit c = true := hds c (by simp)
      rw [List.cons_append] at hp ⊢
      simp only [parseItem, hc, or_true, if_true, hp, Option.map_some]
  | neg ds hne hds hv =>
    have hp := parseNumber_complete_neg ds rest hne hds hv hr
    rw [List.cons_append] at hp ⊢
    simp only [parseItem, true_or, if_true, hp, Option.map_some]
  | str e d hb =>
    have hp := parseString_complete e d rest hb
    simp only [List.cons_append] at hp ⊢
    have h1 : ¬ ((34 : UInt8) = 45 ∨ isDigit 34 = true) := by decide
    simp only [parseItem, h1, if_false, if_true, hp, Option.map_some]
  | token _ ht =>
    have hp := parseToken_complete ie rest ht hr
    obtain ⟨c, r, e, ha, _⟩ := ht
    subst e
    have h1 : ¬ (c = 45 ∨ isDigit c = true) := by chars
    have h2 : c ≠ 34 := by chars
    have h3 : c ≠ 42 := by chars
    rw [List.cons_append] at hp ⊢
    simp only [parseItem, h1, h2, h3, ha, if_false, if_true, hp, Option.map_some]
  | bytes s d hs hdec =>
    have hp := parseByteSequence_complete s d rest hs hdec
    simp only [List.cons_append] at hp ⊢
    have h1 : ¬ ((42 : UInt8) = 45 ∨ isDigit 42 = true) := by decide
    have h2 : (42 : UInt8) ≠ 34 := by decide
    simp only [parseItem, h1, h2, if_false, if_true, hp, Option.map_some]

/-- `ItemStop` is also necessary: whatever `parseItem` leaves over satisfies it, so it is the weakest
    possible side condition for `parseItem_complete`. -/
theorem parseItem_rest_stop (inp : Bytes) (i : Item) (rest : Bytes) (h : parseItem inp = some (i, rest)) :
    ItemStop i rest := by
  cases inp with
  | nil => simp [parseItem] at h
  | cons c inp' =>
    simp only [parseItem] at h
    by_cases h1 : c = 45 ∨ isDigit c = true
    · simp only [h1, if_true, Option.map_eq_some_iff] at h
      obtain ⟨⟨n, r'⟩, hp, he⟩ := h
      simp only [Prod.mk.injEq] at he
      obtain ⟨e1, e2⟩ := he
      subst e1 e2
      simp only [parseNumber] at hp
      split at hp
      · exact absurd hp (by simp)
      · cases hq : parseInt64 (c :: inp'.takeWhile isDigit) with
        | none => simp [hq] at hp
        | some m =>
          simp only [hq, Option.some.injEq, Prod.mk.injEq] at hp
          rw [← hp.2]
          exact dropWhile_stops_self isDigit inp'
    · simp only [h1, if_false] at h
      by_cases h2 : c = 34
      · simp only [h2, if_true, Option.map_eq_some_iff] at h
        obtain ⟨⟨n, r'⟩, hp, he⟩ := h
        simp only [Prod.mk.injEq] at he
        rw [← he.1]; trivial
      · simp only [h2, if_false] at h
        by_cases h3 : c = 42
        · simp only [h3, if_true, Option.map_eq_some_iff] at h
          obtain ⟨⟨n, r'⟩, hp, he⟩ := h
          simp only [Prod.mk.injEq] at he
          rw [← he.1]; trivial
        · simp only [h3, if_false] at h
          by_cases h4 : isAlpha c = true
          · simp only [h4, if_true, Option.map_eq_some_iff] at h
            obtain ⟨⟨n, r'⟩, hp, he⟩ := h
            simp only [Prod.mk.injEq] at he
            obtain ⟨e1, e2⟩ := he
            subst e1 e2
            simp only [parseToken, h4, Bool.not_true, Bool.false_eq_true, if_false, Option.some.injEq,
              Prod.mk.injEq] at hp
            rw [← hp.2]
            exact dropWhile_stops_self isTokenChar (c :: inp')
          · simp [h4] at h

theorem parseItem_complete_iff (ie : Bytes) (i : Item) (rest : Bytes) (h : ItemD ie i) :
    parseItem (ie ++ rest) = some (i, rest) ↔ ItemStop i rest :=
  ⟨parseItem_rest_stop _ i rest, parseItem_complete ie i rest h⟩

/-- a uniform sufficient side condition: the next byte is not a token character -/
theorem itemStop_of_stops_token {rest : Bytes} (h : Stops isTokenChar rest) (i : Item) : ItemStop i rest := by
  cases i with
  | int z => exact stops_token_stops_digit h
  | token t => exact h
  | str s => trivial
  | bytes b => trivial
  | other => trivial

theorem ItemEnd.itemStop {rest : Bytes} (h : ItemEnd rest) (i : Item) : ItemStop i rest :=
  itemStop_of_stops_token h.stops_token i

/-- a grammar item is non-empty and does not start with whitespace -/
theorem itemD_nonWS {ie : Bytes} {i : Item} (h : ItemD ie i) : NonWS ie := by
  cases h with
  | pos _ hne hds hv =>
    cases ie with
    | nil => exact absurd rfl hne
    | cons c ds' =>
      have hc : isDigit c = true := hds c (by simp)
      exact ⟨c, ds', rfl, by chars⟩
  | neg ds hne hds hv => exact ⟨45, ds, rfl, by decide⟩
  | str e d hb => exact ⟨34, e ++ [34], rfl, by decide⟩
  | token _ ht => exact isToken_nonWS ht
  | bytes s d hs hdec => exact ⟨42, s ++ [42], rfl, by decide⟩

theorem parseItem_ne_nil {inp : Bytes} {i : Item} {rest : Bytes} (h : parseItem inp = some (i, rest)) :
    inp.isEmpty = false := by
  cases inp with
  | nil => simp [parseItem] at h
  | cons _ _ => rfl

/-! ## list of lists -/

/-- what `parseLLLoop` does after an item -/
def llCont (fuel : Nat) (rest : Bytes) (top : List (List Item)) (inner' : List Item) : Option (List (List Item)) :=
  match discardOWS rest with
  | [] => some (top ++ [inner'])
  | c :: rest2 =>
    if c = 44 then parseLLLoop fuel (discardOWS rest2) (top ++ [inner']) []
    else if c = 59 then parseLLLoop fuel (discardOWS rest2) top inner'
    else none

theorem parseLLLoop_succ (f : Nat) (inp rest : Bytes) (item : Item) (top : List (List Item)) (inner : List Item)
    (hp : parseItem inp = some (item, rest)) :
    parseLLLoop (f + 1) inp top inner = llCont f rest top (inner ++ [item]) := by
  rw [parseLLLoop]
  simp only [parseItem_ne_nil hp, Bool.false_eq_true, if_false, hp]
  rfl

theorem llCont_nil {f : Nat} {rest : Bytes} {top : List (List Item)} {inner' : List Item}
    (h : discardOWS rest = []) : llCont f rest top inner' = some (top ++ [inner']) := by
  simp only [llCont, h]

theorem llCont_comma {f : Nat} {rest r2 : Bytes} {top : List (List Item)} {inner' : List Item}
    (h : discardOWS rest = 44 :: r2) :
    llCont f rest top inner' = parseLLLoop f (discardOWS r2) (top ++ [inner']) [] := by
  simp only [llCont, h, if_true]

theorem llCont_semi {f : Nat} {rest r2 : Bytes} {top : List (List Item)} {inner' : List Item}
    (h : discardOWS rest = 59 :: r2) :
    llCont f rest top inner' = parseLLLoop f (discardOWS r2) top inner' := by
  have h1 : ¬ ((59 : UInt8) = 44) := by decide
  simp only [llCont, h, h1, if_false, if_true]

theorem parseLLLoop_sound : ∀ (fuel : Nat) (inp : Bytes) (top : List (List Item)) (inner : List Item)
    (ll : List (List Item)), parseLLLoop fuel inp top inner = some ll →
    ∃ s1 rest is ls, inp = s1 ++ rest ∧ InnerD s1 is ∧ LLTail rest ls ∧ ll = top ++ (inner ++ is) :: ls := by
  intro fuel
  induction fuel with
  | zero => intro inp top inner ll h; simp [parseLLLoop] at h
  | succ f ih =>
    intro inp top inner ll h
    cases hp : parseItem inp with
    | none =>
      rw [parseLLLoop] at h
      split at h
      · exact absurd h (by simp)
      · simp [hp] at h
    | some ir =>
      obtain ⟨item, r⟩ := ir
      rw [parseLLLoop_succ f inp r item top inner hp] at h
      obtain ⟨ie, hie, hd⟩ := parseItem_sound inp item r hp
      obtain ⟨w, hw, hr⟩ := discardOWS_spec r
      unfold llCont at h
      generalize discardOWS r = r1 at h hr
      subst hr
      have hitem : InnerD ie [item] := ⟨ie, [], item, [], hd, InnerTail.nil, by simp, rfl⟩
      cases r1 with
      | nil =>
        simp only [Option.some.injEq] at h
        refine ⟨ie, w, [item], [], ?_, hitem, LLTail.done w hw, h.symm⟩
        rw [hie]; simp
      | cons c rest2 =>
        simp only at h
        obtain ⟨w2, hw2, hr2⟩ := discardOWS_spec rest2
        by_cases h44 : c = 44
        · subst h44
          simp only [if_true] at h
          obtain ⟨s1', rest', is', ls', e1, hin, htl, hll⟩ := ih _ _ _ _ h
          refine ⟨ie, w ++ [44] ++ w2 ++ s1' ++ rest', [item], is' :: ls', ?_, hitem,
            LLTail.more w w2 s1' rest' is' ls' hw hw2 hin htl, ?_⟩
          · rw [hie, hr2, e1]; simp
          · rw [hll]; simp
        · by_cases h59 : c = 59
          · subst h59
            simp only [h44, if_false, if_true] at h
            obtain ⟨s1', rest', is', ls', e1, ⟨ie', t', i', is'', hd', ht', es, eis⟩, htl, hll⟩ := ih _ _ _ _ h
            subst es eis
            refine ⟨ie ++ (w ++ [59] ++ w2 ++ ie' ++ t'), rest', item :: i' :: is'', ls', ?_,
              ⟨ie, w ++ [59] ++ w2 ++ ie' ++ t', item, i' :: is'', hd,
                InnerTail.more w w2 ie' t' i' is'' hw hw2 hd' ht', rfl, rfl⟩, htl, ?_⟩
            · rw [hie, hr2, e1]; simp
            · rw [hll]; simp
          · simp [h44, h59] at h

theorem llTail_itemEnd {rest : Bytes} {ls : List (List Item)} (h : LLTail rest ls) : ItemEnd rest := by
  cases h with
  | done w hw =>
    have := itemEnd_of_ows_append hw itemEnd_nil
    simpa using this
  | more w1 w2 s rest inner ls hw1 hw2 hin ht =>
    have := itemEnd_of_ows_append hw1 (itemEnd_comma (w2 ++ (s ++ rest)))
    simpa [List.append_assoc] using this

theorem stops_ows_cons {c : UInt8} (h : isOWS c = false) (r : Bytes) : Stops isOWS (c :: r) := by
  intro c' r' e; injection e with e1 _; subst e1; exact h

theorem parseLLLoop_inner_complete {t : Bytes} {is : List Item} (ht : InnerTail t is) :
    ∀ (rest : Bytes) (ls : List (List Item)), ItemEnd rest →
    (∀ fuel top inner', rest.length ≤ fuel → llCont fuel rest top inner' = some (top ++ inner' :: ls)) →
    ∀ (ie : Bytes) (i : Item) (top : List (List Item)) (inner : List Item) (fuel : Nat), ItemD ie i →
      (ie ++ (t ++ rest)).length < fuel →
      parseLLLoop fuel (ie ++ (t ++ rest)) top inner = some (top ++ (inner ++ i :: is) :: ls) := by
  induction ht with
  | nil =>
    intro rest ls hend hK ie i top inner fuel hd hf
    have hpos := (itemD_nonWS hd).length_pos
    cases fuel with
    | zero => omega
    | succ f =>
      rw [List.nil_append] at hf ⊢
      rw [parseLLLoop_succ f _ rest i top inner (parseItem_complete ie i rest hd (hend.itemStop i))]
      rw [hK f top (inner ++ [i]) (by simp only [List.length_append] at hf; omega)]
  | more w1 w2 ie' t' i' is' hw1 hw2 hd' ht' ih =>
    intro rest ls hend hK ie i top inner fuel hd hf
    have hpos := (itemD_nonWS hd).length_pos
    cases fuel with
    | zero => omega
    | succ f =>
      have hend' : ItemEnd ((w1 ++ [59] ++ w2 ++ ie' ++ t') ++ rest) := by
        have := itemEnd_of_ows_append hw1 (itemEnd_semi (w2 ++ (ie' ++ (t' ++ rest))))
        simpa [List.append_assoc] using this
      have hdisc : discardOWS ((w1 ++ [59] ++ w2 ++ ie' ++ t') ++ rest) = 59 :: (w2 ++ (ie' ++ (t' ++ rest))) := by
        have := discardOWS_ows_stops hw1 (stops_ows_cons (by decide : isOWS 59 = false) (w2 ++ (ie' ++ (t' ++ rest))))
        simpa [List.append_assoc] using this
      rw [parseLLLoop_succ f _ _ i top inner (parseItem_complete ie i _ hd (hend'.itemStop i))]
      rw [llCont_semi hdisc, discardOWS_ows_stops hw2 ((itemD_nonWS hd').append _).stops]
      have := ih rest ls hend hK ie' i' top (inner ++ [i]) f hd' (by
        simp only [List.length_append, List.length_cons, List.length_nil] at hf ⊢; omega)
      simpa [List.append_assoc] using this

theorem llCont_complete {rest : Bytes} {ls : List (List Item)} (h : LLTail rest ls) :
    ∀ (fuel : Nat) (top : List (List Item)) (inner' : List Item), rest.length ≤ fuel →
      llCont fuel rest top inner' = some (top ++ inner' :: ls) := by
  induction h with
  | done w hw =>
    intro fuel top inner' _
    rw [llCont_nil (discardOWS_ows hw)]
  | more w1 w2 s rest inner ls hw1 hw2 hin ht ih =>
    intro fuel top inner' hf
    obtain ⟨ie, t, i, is, hd, hit, rfl, rfl⟩ := hin
    have hdisc : discardOWS (w1 ++ [44] ++ w2 ++ (ie ++ t) ++ rest) = 44 :: (w2 ++ (ie ++ (t ++ rest))) := by
      have := discardOWS_ows_stops hw1 (stops_ows_cons (by decide : isOWS 44 = false) (w2 ++ (ie ++ (t ++ rest))))
      simpa [List.append_assoc] using this
    rw [llCont_comma hdisc, discardOWS_ows_stops hw2 ((itemD_nonWS hd).append _).stops]
    have := parseLLLoop_inner_complete hit rest ls (llTail_itemEnd ht) ih ie i (top ++ [inner']) [] fuel hd (by
      simp only [List.length_append, List.length_cons, List.length_nil] at hf ⊢; omega)
    simpa [List.append_assoc] using this

/-- B. `ParseListOfLists` accepts exactly the list-of-lists grammar, with the value the grammar assigns -/
theorem parseListOfLists_iff (s : Bytes) (ll : List (List Item)) : parseListOfLists s = some ll ↔ LLD s ll := by
  constructor
  · intro h
    unfold parseListOfLists at h
    obtain ⟨w, hw, hs⟩ := discardOWS_spec s
    obtain ⟨s1, rest, is, ls, e, hin, htl, hll⟩ := parseLLLoop_sound _ _ _ _ _ h
    refine ⟨w, s1, rest, is, ls, hw, hin, htl, ?_, by simpa using hll⟩
    rw [List.append_assoc, ← e]; exact hs
  · rintro ⟨w, s1, rest, inner, ls, hw, hin, htl, rfl, rfl⟩
    obtain ⟨ie, t, i, is, hd, hit, rfl, rfl⟩ := hin
    have hdisc : discardOWS (w ++ (ie ++ t) ++ rest) = ie ++ (t ++ rest) := by
      have := discardOWS_ows_stops hw ((itemD_nonWS hd).append (t ++ rest)).stops
      simpa [List.append_assoc] using this
    unfold parseListOfLists
    simp only [hdisc]
    have := parseLLLoop_inner_complete hit rest ls (llTail_itemEnd htl) (llCont_complete htl) ie i [] [] _ hd
      (Nat.lt_succ_self _)
    simpa using this

/-! ## parameters -/

theorem parseParams_sound : ∀ (fuel : Nat) (inp : Bytes) (acc ps : Params) (r : Bytes),
    parseParams fuel inp acc = some (ps, r) →
    ∃ s w ps', inp = s ++ w ++ r ∧ IsOWS w ∧ ParamsD s ps' ∧ ps = acc ++ ps' := by
  intro fuel
  induction fuel with
  | zero => intro inp acc ps r h; simp [parseParams] at h
  | succ f ih =>
    intro inp acc ps r h
    rw [parseParams] at h
    simp only at h
    obtain ⟨w, hw, hinp⟩ := discardOWS_spec inp
    generalize discardOWS inp = inp1 at h hinp
    subst hinp
    cases inp1 with
    | nil =>
      simp only [Option.some.injEq, Prod.mk.injEq] at h
      obtain ⟨h1, h2⟩ := h
      subst h1 h2
      exact ⟨[], w, [], by simp, hw, ParamsD.nil, by simp⟩
    | cons c rest =>
      simp only at h
      by_cases hc : c = 59
      · subst hc
        simp only [ne_eq, not_true_eq_false, if_false] at h
        obtain ⟨w2, hw2, hrest⟩ := discardOWS_spec rest
        cases hk : parseKey (discardOWS rest) with
        | none => simp [hk] at h
        | some kr =>
          obtain ⟨k, inp3⟩ := kr
          simp only [hk] at h
          obtain ⟨hk1, hk2⟩ := parseKey_sound _ _ _ hk
          split at h
          · exact absurd h (by simp)
          · split at h
            · rename_i inp4
              cases hi : parseItem inp4 with
              | none => simp [hi] at h
              | some vr =>
                obtain ⟨v, inp5⟩ := vr
                simp only [hi] at h
                obtain ⟨ie, hie, hd⟩ := parseItem_sound _ _ _ hi
                obtain ⟨s', w', ps', e, hw', hpd, hps⟩ := ih _ _ _ _ h
                refine ⟨w ++ [59] ++ w2 ++ k ++ [61] ++ ie ++ s', w', (k, some v) :: ps', ?_, hw',
                  ParamsD.val w w2 k ie s' v ps' hw hw2 hk2 hd hpd, ?_⟩
                · rw [hrest, hk1, hie, e]; simp
                · rw [hps]; simp
            · obtain ⟨s', w', ps', e, hw', hpd, hps⟩ := ih _ _ _ _ h
              refine ⟨w ++ [59] ++ w2 ++ k ++ s', w', (k, none) :: ps', ?_, hw',
                ParamsD.flag w w2 k s' ps' hw hw2 hk2 hpd, ?_⟩
              · rw [hrest, hk1, e]; simp
              · rw [hps]; simp
      · simp only [ne_eq, hc, not_false_eq_true, if_true, Option.some.injEq, Prod.mk.injEq] at h
        obtain ⟨h1, h2⟩ := h
        subst h1 h2
        exact ⟨[], w, [], by simp, hw, ParamsD.nil, by simp⟩

/-- `parsePI` consumes a parameterised identifier of the grammar and the whitespace that follows it -/
theorem parsePI_sound (inp : Bytes) (pi : PI) (r : Bytes) (h : parsePI inp = some (pi, r)) :
    ∃ s w, inp = s ++ w ++ r ∧ IsOWS w ∧ PID s pi := by
  have hgood := (parsePI_good inp pi r h).2
  unfold parsePI at h
  cases ht : parseToken inp with
  | none => simp [ht] at h
  | some lr =>
    obtain ⟨label, rest⟩ := lr
    simp only [ht] at h
    cases hp : parseParams (rest.length + 1) rest [] with
    | none => simp [hp] at h
    | some pr =>
      obtain ⟨ps, rest'⟩ := pr
      simp only [hp, Option.some.injEq, Prod.mk.injEq] at h
      obtain ⟨h1, h2⟩ := h
      subst h1 h2
      obtain ⟨e, htok⟩ := parseToken_sound _ _ _ ht
      obtain ⟨s, w, ps', e2, hw, hpd, hps⟩ := parseParams_sound _ _ _ _ _ hp
      rw [List.nil_append] at hps
      subst hps
      exact ⟨label ++ s, w, by rw [e, e2]; simp, hw, ⟨s, rfl, htok, hpd, hgood⟩⟩

/-- what may follow a parameterised identifier: optional whitespace, then the end of input or a comma -/
def PIEnd (tail : Bytes) : Prop := ∃ w x, tail = w ++ x ∧ IsOWS w ∧ (x = [] ∨ ∃ y, x = 44 :: y)

theorem piEnd_itemEnd {tail : Bytes} (h : PIEnd tail) : ItemEnd tail := by
  obtain ⟨w, x, rfl, hw, hx⟩ := h
  apply itemEnd_of_ows_append hw
  rcases hx with rfl | ⟨y, rfl⟩
  · exact itemEnd_nil
  · exact itemEnd_comma y

theorem piEnd_discard {tail : Bytes} (h : PIEnd tail) : discardOWS tail = [] ∨ ∃ y, discardOWS tail = 44 :: y := by
  obtain ⟨w, x, rfl, hw, hx⟩ := h
  rcases hx with rfl | ⟨y, rfl⟩
  · left; rw [List.append_nil]; exact discardOWS_ows hw
  · right; exact ⟨y, discardOWS_ows_stops hw (stops_ows_cons (by decide) y)⟩

theorem paramsD_itemEnd {t : Bytes} {ps : Params} {tail : Bytes} (h : ParamsD t ps) (ht : PIEnd tail) :
    ItemEnd (t ++ tail) := by
  cases h with
  | nil => simpa using piEnd_itemEnd ht
  | flag w1 w2 key rest ps hw1 hw2 hk hpd =>
    have := itemEnd_of_ows_append hw1 (itemEnd_semi (w2 ++ (key ++ (rest ++ tail))))
    simpa [List.append_assoc] using this
  | val w1 w2 key ie rest i ps hw1 hw2 hk hd hpd =>
    have := itemEnd_of_ows_append hw1 (itemEnd_semi (w2 ++ (key ++ (61 :: (ie ++ (rest ++ tail))))))
    simpa [List.append_assoc] using this

theorem parseParams_step_flag (f : Nat) (w1 w2 k x : Bytes) (acc : Params) (hw1 : IsOWS w1) (hw2 : IsOWS w2)
    (hk : IsKey k) (hx : ItemEnd x) (hacc : acc.any (fun kv => kv.1 == k) = false) :
    parseParams (f + 1) (w1 ++ [59] ++ w2 ++ k ++ x) acc = parseParams f x (acc ++ [(k, none)]) := by
  have h1 : discardOWS (w1 ++ [59] ++ w2 ++ k ++ x) = 59 :: (w2 ++ (k ++ x)) := by
    have := discardOWS_ows_stops hw1 (stops_ows_cons (by decide : isOWS 59 = false) (w2 ++ (k ++ x)))
    simpa [List.append_assoc] using this
  have h2 : discardOWS (w2 ++ (k ++ x)) = k ++ x := discardOWS_ows_stops hw2 ((isKey_nonWS hk).append x).stops
  rw [parseParams]
  simp only [h1, ne_eq, not_true_eq_false, if_false, h2, parseKey_complete k x hk hx.stops_key, hacc,
    Bool.false_eq_true]
  split
  · rename_i inp4
    exact absurd rfl (hx.not_eq inp4)
  · rfl

theorem parseParams_step_val (f : Nat) (w1 w2 k ie x : Bytes) (i : Item) (acc : Params) (hw1 : IsOWS w1)
    (hw2 : IsOWS w2) (hk : IsKey k) (hp : parseItem (ie ++ x) = some (i, x))
    (hacc : acc.any (fun kv => kv.1 == k) = false) :
    parseParams (f + 1) (w1 ++ [59] ++ w2 ++ k ++ [61] ++ ie ++ x) acc = parseParams f x (acc ++ [(k, some i)]) := by
  have h1 : discardOWS (w1 ++ [59] ++ w2 ++ k ++ [61] ++ ie ++ x) = 59 :: (w2 ++ (k ++ 61 :: (ie ++ x))) := by
    have := discardOWS_ows_stops hw1 (stops_ows_cons (by decide : isOWS 59 = false) (w2 ++ (k ++ 61 :: (ie ++ x))))
    simpa [List.append_assoc] using this
  have h2 : discardOWS (w2 ++ (k ++ 61 :: (ie ++ x))) = k ++ 61 :: (ie ++ x) :=
    discardOWS_ows_stops hw2 ((isKey_nonWS hk).append _).stops
  rw [parseParams]
  simp only [h1, ne_eq, not_true_eq_false, if_false, h2, parseKey_complete k _ hk (stops_key_eq _), hacc,
    Bool.false_eq_true, hp]

theorem parseParams_complete {t : Bytes} {ps : Params} (h : ParamsD t ps) :
    ∀ (tail : Bytes) (acc : Params) (fuel : Nat), PIEnd tail → ((acc ++ ps).map Prod.fst).Nodup →
      (t ++ tail).length < fuel → parseParams fuel (t ++ tail) acc = some (acc ++ ps, discardOWS tail) := by
  induction h with
  | nil =>
    intro tail acc fuel ht _ hf
    cases fuel with
    | zero => omega
    | succ f =>
      rw [List.nil_append, parseParams]
      simp only
      rcases piEnd_discard ht with h0 | ⟨y, h0⟩
      · rw [h0]; simp
      · rw [h0]; simp
  | flag w1 w2 key rest ps hw1 hw2 hk hpd ih =>
    intro tail acc fuel ht hn hf
    cases fuel with
    | zero => omega
    | succ f =>
      have hkacc : key ∉ acc.map Prod.fst := by
        simp only [List.map_append, List.map_cons, List.nodup_append] at hn
        intro hmem
        exact hn.2.2 key hmem key (by simp) rfl
      have hacc := any_key_false hkacc
      have hn' : (((acc ++ [(key, none)]) ++ ps).map Prod.fst).Nodup := by simpa [List.append_assoc] using hn
      have hend := paramsD_itemEnd hpd ht
      have e : (w1 ++ [59] ++ w2 ++ key ++ rest) ++ tail = w1 ++ [59] ++ w2 ++ key ++ (rest ++ tail) := by
        simp [List.append_assoc]
      rw [e] at hf ⊢
      rw [parseParams_step_flag f w1 w2 key (rest ++ tail) acc hw1 hw2 hk hend hacc]
      have := ih tail (acc ++ [(key, none)]) f ht hn' (by
        simp only [List.length_append, List.length_cons, List.length_nil] at hf ⊢; omega)
      simpa [List.append_assoc] using this
  | val w1 w2 key ie rest i ps hw1 hw2 hk hd hpd ih =>
    intro tail acc fuel ht hn hf
    cases fuel with
    | zero => omega
    | succ f =>
      have hkacc : key ∉ acc.map Prod.fst := by
        simp only [List.map_append, List.map_cons, List.nodup_append] at hn
        intro hmem
        exact hn.2.2 key hmem key (by simp) rfl
      have hacc := any_key_false hkacc
      have hn' : (((acc ++ [(key, some i)]) ++ ps).map Prod.fst).Nodup := by simpa [List.append_assoc] using hn
      have hend := paramsD_itemEnd hpd ht
      have e : (w1 ++ [59] ++ w2 ++ key ++ [61] ++ ie ++ rest) ++ tail
          = w1 ++ [59] ++ w2 ++ key ++ [61] ++ ie ++ (rest ++ tail) := by
        simp [List.append_assoc]
      rw [e] at hf ⊢
      rw [parseParams_step_val f w1 w2 key ie (rest ++ tail) i acc hw1 hw2 hk
        (parseItem_complete ie i _ hd (hend.itemStop i)) hacc]
      have := ih tail (acc ++ [(key, some i)]) f ht hn' (by
        simp only [List.length_append, List.length_cons, List.length_nil] at hf ⊢; omega)
      simpa [List.append_assoc] using this

theorem pid_nonWS {s : Bytes} {pi : PI} (h : PID s pi) : NonWS s := by
  obtain ⟨ps, rfl, htok, _, _⟩ := h
  exact (isToken_nonWS htok).append ps

theorem parsePI_complete (s tail : Bytes) (pi : PI) (h : PID s pi) (ht : PIEnd tail) :
    parsePI (s ++ tail) = some (pi, discardOWS tail) := by
  obtain ⟨ps, rfl, htok, hpd, hn⟩ := h
  have hend := paramsD_itemEnd hpd ht
  unfold parsePI
  rw [List.append_assoc, parseToken_complete pi.label (ps ++ tail) htok hend.stops_token]
  simp only [parseParams_complete hpd tail [] _ ht (by simpa using hn) (Nat.lt_succ_self _), List.nil_append]

/-! ## parameterised lists -/

/-- what `parsePLLoop` does after a parameterised identifier -/
def plCont (fuel : Nat) (rest : Bytes) (acc' : List PI) : Option (List PI) :=
  match discardOWS rest with
  | [] => some acc'
  | c :: rest2 => if c ≠ 44 then none else parsePLLoop fuel (discardOWS rest2) acc'

theorem parsePI_ne_nil {inp : Bytes} {pi : PI} {rest : Bytes} (h : parsePI inp = some (pi, rest)) :
    inp.isEmpty = false := by
  cases inp with
  | nil => simp [parsePI, parseToken] at h
  | cons _ _ => rfl

theorem parsePLLoop_succ (f : Nat) (inp rest : Bytes) (pi : PI) (acc : List PI)
    (hp : parsePI inp = some (pi, rest)) :
    parsePLLoop (f + 1) inp acc = plCont f rest (acc ++ [pi]) := by
  rw [parsePLLoop]
  simp only [parsePI_ne_nil hp, Bool.false_eq_true, if_false, hp]
  rfl

theorem plCont_discard (f : Nat) (rest : Bytes) (acc' : List PI) :
    plCont f (discardOWS rest) acc' = plCont f rest acc' := by
  unfold plCont
  rw [discardOWS_idem]

theorem plCont_comma {f : Nat} {rest r2 : Bytes} {acc' : List PI} (h : discardOWS rest = 44 :: r2) :
    plCont f rest acc' = parsePLLoop f (discardOWS r2) acc' := by
  simp only [plCont, h, ne_eq, not_true_eq_false, if_false]

theorem parsePLLoop_sound : ∀ (fuel : Nat) (inp : Bytes) (acc pl : List PI), parsePLLoop fuel inp acc = some pl →
    ∃ s rest pi pis, inp = s ++ rest ∧ PID s pi ∧ PLTail rest pis ∧ pl = acc ++ pi :: pis := by
  intro fuel
  induction fuel with
  | zero => intro inp acc pl h; simp [parsePLLoop] at h
  | succ f ih =>
    intro inp acc pl h
    cases hp : parsePI inp with
    | none =>
      rw [parsePLLoop] at h
      split at h
      · exact absurd h (by simp)
      · simp [hp] at h
    | some pr =>
      obtain ⟨pi, r⟩ := pr
      rw [parsePLLoop_succ f inp r pi acc hp] at h
      obtain ⟨s, w, e, hw, hpid⟩ := parsePI_sound inp pi r hp
      obtain ⟨w', hw', hr⟩ := discardOWS_spec r
      unfold plCont at h
      generalize discardOWS r = r1 at h hr
      subst hr
      cases r1 with
      | nil =>
        simp only [Option.some.injEq] at h
        exact ⟨s, w ++ w', pi, [], by rw [e]; simp, hpid, PLTail.done _ (IsOWS.append hw hw'), h.symm⟩
      | cons c rest2 =>
        simp only at h
        by_cases h44 : c = 44
        · subst h44
          simp only [ne_eq, not_true_eq_false, if_false] at h
          obtain ⟨w2, hw2, hr2⟩ := discardOWS_spec rest2
          obtain ⟨s', rest', pi', pis', e1, hpid', htl, hpl⟩ := ih _ _ _ h
          refine ⟨s, (w ++ w') ++ [44] ++ w2 ++ s' ++ rest', pi, pi' :: pis', ?_, hpid,
            PLTail.more (w ++ w') w2 s' rest' pi' pis' (IsOWS.append hw hw') hw2 hpid' htl, ?_⟩
          · rw [e, hr2, e1]; simp
          · rw [hpl]; simp
        · simp [h44] at h

theorem plTail_piEnd {rest : Bytes} {pis : List PI} (h : PLTail rest pis) : PIEnd rest := by
  cases h with
  | done w hw => exact ⟨rest, [], by simp, hw, Or.inl rfl⟩
  | more w1 w2 s rest pi pis hw1 hw2 hpid ht =>
    exact ⟨w1, 44 :: (w2 ++ (s ++ rest)), by simp [List.append_assoc], hw1, Or.inr ⟨_, rfl⟩⟩

theorem plCont_complete {rest : Bytes} {pis : List PI} (h : PLTail rest pis) :
    ∀ (fuel : Nat) (acc' : List PI), rest.length ≤ fuel → plCont fuel rest acc' = some (acc' ++ pis) := by
  induction h with
  | done w hw =>
    intro fuel acc' _
    simp only [plCont, discardOWS_ows hw, List.append_nil]
  | more w1 w2 s rest pi pis hw1 hw2 hpid ht ih =>
    intro fuel acc' hf
    have hnw := pid_nonWS hpid
    have hpos := hnw.length_pos
    have hdisc : discardOWS (w1 ++ [44] ++ w2 ++ s ++ rest) = 44 :: (w2 ++ (s ++ rest)) := by
      have := discardOWS_ows_stops hw1 (stops_ows_cons (by decide : isOWS 44 = false) (w2 ++ (s ++ rest)))
      simpa [List.append_assoc] using this
    rw [plCont_comma hdisc, discardOWS_ows_stops hw2 (hnw.append rest).stops]
    simp only [List.length_append, List.length_cons, List.length_nil] at hf
    cases fuel with
    | zero => omega
    | succ f =>
      rw [parsePLLoop_succ f _ _ pi acc' (parsePI_complete s rest pi hpid (plTail_piEnd ht)), plCont_discard]
      have := ih f (acc' ++ [pi]) (by omega)
      simpa [List.append_assoc] using this

/-- C. `ParseParameterisedList` accepts exactly the parameterised-list grammar, with the value the grammar
    assigns -/
theorem parseParameterisedList_iff (s : Bytes) (pl : List PI) : parseParameterisedList s = some pl ↔ PLD s pl := by
  constructor
  · intro h
    unfold parseParameterisedList at h
    obtain ⟨w, hw, hs⟩ := discardOWS_spec s
    obtain ⟨s1, rest, pi, pis, e, hpid, htl, hpl⟩ := parsePLLoop_sound _ _ _ _ h
    exact ⟨w, s1, rest, pi, pis, hw, hpid, htl, by rw [List.append_assoc, ← e]; exact hs, by simpa using hpl⟩
  · rintro ⟨w, s1, rest, pi, pis, hw, hpid, htl, rfl, rfl⟩
    have hnw := pid_nonWS hpid
    have hdisc : discardOWS (w ++ s1 ++ rest) = s1 ++ rest := by
      have := discardOWS_ows_stops hw (hnw.append rest).stops
      simpa [List.append_assoc] using this
    unfold parseParameterisedList
    simp only [hdisc]
    rw [parsePLLoop_succ _ _ _ pi [] (parsePI_complete s1 rest pi hpid (plTail_piEnd htl)), plCont_discard]
    have := plCont_complete htl (s1 ++ rest).length [pi] (by simp only [List.length_append]; omega)
    simpa using this

end WebPkg.SH
