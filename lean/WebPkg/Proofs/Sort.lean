import WebPkg.Model.Cbor
import WebPkg.Proofs.Basic
/- `EncodeMap`: sorting by encoded key, duplicate detection, independence of insertion order. -/
namespace WebPkg.Cbor

theorem entryLe_trans (a b c : Entry) (h1 : entryLe a b = true) (h2 : entryLe b c = true) : entryLe a c = true :=
  ble_trans h1 h2

theorem entryLe_total (a b : Entry) : (entryLe a b || entryLe b a) = true := by
  have := ble_total a.1 b.1
  simpa [entryLe, Bool.or_eq_true] using this

theorem sortEntries_perm (es : List Entry) : (sortEntries es).Perm es := List.mergeSort_perm es entryLe

theorem sortEntries_sorted (es : List Entry) : (sortEntries es).Pairwise (fun a b => entryLe a b = true) :=
  List.pairwise_mergeSort entryLe_trans entryLe_total es

/-- keys strictly ascending in `bytes.Compare` order -/
def StrictAsc (l : List Entry) : Prop := l.Pairwise (fun a b => blt a.1 b.1 = true)

theorem strictAsc_of_sorted_noAdjDup : ∀ (l : List Entry), l.Pairwise (fun a b => entryLe a b = true) →
    hasAdjDup l = false → StrictAsc l
  | [], _, _ => List.Pairwise.nil
  | [a], _, _ => by simp [StrictAsc]
  | a :: b :: rest, hs, hd => by
    simp only [hasAdjDup, Bool.or_eq_false_iff] at hd
    have hs' := List.pairwise_cons.mp hs
    have ih := strictAsc_of_sorted_noAdjDup (b :: rest) hs'.2 hd.2
    have hab : blt a.1 b.1 = true := by
      rw [blt_iff]; exact ⟨hs'.1 b (by simp), by simpa using hd.1⟩
    refine List.pairwise_cons.mpr ⟨?_, ih⟩
    intro c hc
    rcases List.mem_cons.mp hc with rfl | hc
    · exact hab
    · exact blt_trans hab ((List.pairwise_cons.mp ih).1 c hc)

theorem nodup_keys_of_strictAsc : ∀ (l : List Entry), StrictAsc l → (l.map Prod.fst).Nodup
  | [], _ => by simp
  | a :: rest, h => by
    have h' := List.pairwise_cons.mp h
    simp only [List.map_cons, List.nodup_cons, List.mem_map, not_exists, not_and]
    refine ⟨?_, nodup_keys_of_strictAsc rest h'.2⟩
    intro c hc e
    have := h'.1 c hc
    rw [e, blt_irrefl] at this
    exact absurd this (by simp)

theorem adjDup_not_nodup : ∀ (l : List Entry), hasAdjDup l = true → ¬ (l.map Prod.fst).Nodup
  | [], h => by simp [hasAdjDup] at h
  | [a], h => by simp [hasAdjDup] at h
  | a :: b :: rest, h => by
    simp only [hasAdjDup, Bool.or_eq_true] at h
    intro hn
    simp only [List.map_cons, List.nodup_cons] at hn
    rcases h with h | h
    · have : a.1 = b.1 := by simpa using h
      exact hn.1 (by simp [this])
    · exact adjDup_not_nodup (b :: rest) h (by simpa using hn.2)

/-- `EncodeMap` reports `ErrDuplicatedKey` exactly when two entries have equal encoded keys. -/
theorem hasAdjDup_sort_iff (es : List Entry) : hasAdjDup (sortEntries es) = false ↔ (es.map Prod.fst).Nodup := by
  have hp : ((sortEntries es).map Prod.fst).Perm (es.map Prod.fst) := (sortEntries_perm es).map _
  constructor
  · intro h
    exact hp.nodup_iff.mp (nodup_keys_of_strictAsc _ (strictAsc_of_sorted_noAdjDup _ (sortEntries_sorted es) h))
  · intro h
    cases hd : hasAdjDup (sortEntries es) with
    | false => rfl
    | true => exact absurd (hp.nodup_iff.mpr h) (adjDup_not_nodup _ hd)

theorem eq_of_mem_of_key_eq : ∀ (l : List Entry), (l.map Prod.fst).Nodup →
    ∀ a b, a ∈ l → b ∈ l → a.1 = b.1 → a = b
  | [], _, _, _, h, _, _ => by simp at h
  | x :: xs, hnd, a, b, ha, hb, hk => by
    simp only [List.map_cons, List.nodup_cons, List.mem_map, not_exists, not_and] at hnd
    simp only [List.mem_cons] at ha hb
    rcases ha with rfl | ha <;> rcases hb with rfl | hb
    · rfl
    · exact absurd hk.symm (hnd.1 b hb)
    · exact absurd hk (hnd.1 a ha)
    · exact eq_of_mem_of_key_eq xs hnd.2 a b ha hb hk

/-- any two lists that are sorted by key, permutations of each other and have distinct keys are equal:
    the emitted order does not depend on the sorting algorithm or on the insertion order. -/
theorem sorted_perm_unique (l₁ l₂ : List Entry) (hp : l₁.Perm l₂) (hnd : (l₁.map Prod.fst).Nodup)
    (s1 : l₁.Pairwise (fun a b => entryLe a b = true)) (s2 : l₂.Pairwise (fun a b => entryLe a b = true)) : l₁ = l₂ := by
  apply List.Perm.eq_of_pairwise (le := fun a b => entryLe a b = true) _ s1 s2 hp
  intro a b ha hb hab hba
  exact eq_of_mem_of_key_eq l₁ hnd a b ha (hp.symm.subset hb) (ble_antisymm hab hba)

theorem sort_perm_eq (es₁ es₂ : List Entry) (hp : es₁.Perm es₂) (hnd : (es₁.map Prod.fst).Nodup) :
    sortEntries es₁ = sortEntries es₂ := by
  have p1 := sortEntries_perm es₁
  have p2 := sortEntries_perm es₂
  refine sorted_perm_unique _ _ (p1.trans (hp.trans p2.symm)) ?_ (sortEntries_sorted _) (sortEntries_sorted _)
  exact ((p1.map Prod.fst).nodup_iff).mpr hnd

end WebPkg.Cbor
