import WebPkg.Model.Sxg
import WebPkg.Proofs.Basic
import WebPkg.Proofs.Cbor
import WebPkg.Proofs.Sort
/-
  For versions b2/b3 the signed message (the byte string that is actually signed)
  determines every field that went into it.
-/
namespace WebPkg.Sxg
open WebPkg.Cbor WebPkg.Http WebPkg.Spec.Cbor

theorem encodeBytesUint8_eq_some {n : Int} {b : Bytes} (h : BigEndian.encodeBytesUint n 8 = some b) :
    0 ≤ n ∧ b = beBytes 8 n.toNat := by
  unfold BigEndian.encodeBytesUint at h
  by_cases hn : n < 0
  · rw [if_pos hn] at h; cases h
  · rw [if_neg hn] at h
    have h7 : ¬ (8 < 7 ∧ (2 : Int) ^ (8 * 8) ≤ n) := by omega
    rw [if_neg h7] at h
    injection h with h
    exact ⟨by omega, h.symm⟩

theorem context_length (v : Ver) : v.context.length = 18 := by
  cases v <;> rfl

theorem context_inj_b23 {v w : Ver} (hv : v ≠ .b1) (hw : w ≠ .b1) (h : v.context = w.context) : v = w := by
  cases v <;> cases w <;> first | rfl | (exfalso; first | exact hv rfl | exact hw rfl | (revert h; decide))

/-- the shape of the b2/b3 signed message, right-associated -/
theorem signedMessage_b23_shape (e : Exchange) (h : e.version ≠ .b1) (c v : Bytes) (d x : Int) (m : Bytes)
    (hm : signedMessage e (some c) v d x = some m) :
    ∃ hdr, encodeExchangeHeaders e = .ok hdr ∧ 0 ≤ d ∧ 0 ≤ x ∧
      m = List.replicate 64 (32 : UInt8) ++ (e.version.context ++ ([0, 32] ++ (c ++ (beBytes 8 v.length ++ (v ++
            (beBytes 8 d.toNat ++ (beBytes 8 x.toNat ++ (beBytes 8 e.uri.length ++ (e.uri ++
              (beBytes 8 hdr.length ++ hdr)))))))))) := by
  unfold signedMessage at hm
  cases hh : encodeExchangeHeaders e with
  | error err => rw [hh] at hm; cases hm
  | ok hdr =>
    rw [hh] at hm
    simp only [if_neg h] at hm
    cases h1 : BigEndian.encodeBytesUint (v.length : Int) 8 with
    | none => rw [h1] at hm; cases hm
    | some vl =>
      cases h2 : BigEndian.encodeBytesUint d 8 with
      | none => rw [h1, h2] at hm; cases hm
      | some db =>
        cases h3 : BigEndian.encodeBytesUint x 8 with
        | none => rw [h1, h2, h3] at hm; cases hm
        | some xb =>
          cases h4 : BigEndian.encodeBytesUint (e.uri.length : Int) 8 with
          | none => rw [h1, h2, h3, h4] at hm; cases hm
          | some ul =>
            cases h5 : BigEndian.encodeBytesUint (hdr.length : Int) 8 with
            | none => rw [h1, h2, h3, h4, h5] at hm; cases hm
            | some hl =>
              rw [h1, h2, h3, h4, h5] at hm
              simp only [Option.some.injEq] at hm
              obtain ⟨_, e1⟩ := encodeBytesUint8_eq_some h1
              obtain ⟨hd0, e2⟩ := encodeBytesUint8_eq_some h2
              obtain ⟨hx0, e3⟩ := encodeBytesUint8_eq_some h3
              obtain ⟨_, e4⟩ := encodeBytesUint8_eq_some h4
              obtain ⟨_, e5⟩ := encodeBytesUint8_eq_some h5
              rw [Int.toNat_natCast] at e1 e4 e5
              subst e1 e2 e3 e4 e5
              refine ⟨hdr, rfl, hd0, hx0, ?_⟩
              rw [← hm]
              simp only [List.append_assoc, List.cons_append, List.nil_append]

theorem signedMessage_b23_injective (e₁ e₂ : Exchange) (h1 : e₁.version ≠ .b1) (h2 : e₂.version ≠ .b1)
    (c₁ c₂ v₁ v₂ : Bytes) (d₁ x₁ d₂ x₂ : Int) (hc1 : c₁.length = 32) (hc2 : c₂.length = 32) (m : Bytes)
    (hv1 : v₁.length < 2 ^ 64) (hv2 : v₂.length < 2 ^ 64)
    (hu1 : e₁.uri.length < 2 ^ 64) (hu2 : e₂.uri.length < 2 ^ 64)
    (hd1 : d₁ < 2 ^ 64) (hd2 : d₂ < 2 ^ 64) (hx1 : x₁ < 2 ^ 64) (hx2 : x₂ < 2 ^ 64)
    (hm1 : signedMessage e₁ (some c₁) v₁ d₁ x₁ = some m) (hm2 : signedMessage e₂ (some c₂) v₂ d₂ x₂ = some m) :
    e₁.version = e₂.version ∧ c₁ = c₂ ∧ v₁ = v₂ ∧ d₁ = d₂ ∧ x₁ = x₂ ∧ e₁.uri = e₂.uri ∧
      encodeExchangeHeaders e₁ = encodeExchangeHeaders e₂ := by
  obtain ⟨hdr₁, he1, hd10, hx10, hs1⟩ := signedMessage_b23_shape e₁ h1 c₁ v₁ d₁ x₁ m hm1
  obtain ⟨hdr₂, he2, hd20, hx20, hs2⟩ := signedMessage_b23_shape e₂ h2 c₂ v₂ d₂ x₂ m hm2
  have hp : (256 : Nat) ^ 8 = 2 ^ 64 := by decide
  have heq := hs1.symm.trans hs2
  -- padding
  obtain ⟨_, heq⟩ := List.append_inj heq (by simp only [List.length_replicate])
  -- context string
  obtain ⟨hctx, heq⟩ := List.append_inj heq (by rw [context_length, context_length])
  have hver : e₁.version = e₂.version := context_inj_b23 h1 h2 hctx
  -- [0, 32]
  obtain ⟨_, heq⟩ := List.append_inj heq rfl
  -- cert-sha256
  obtain ⟨hc, heq⟩ := List.append_inj heq (by rw [hc1, hc2])
  -- validity-url length, validity-url
  obtain ⟨hvl, heq⟩ := List.append_inj heq (by rw [beBytes_length, beBytes_length])
  have hvlen : v₁.length = v₂.length := beBytes_inj (by omega) (by omega) hvl
  obtain ⟨hv, heq⟩ := List.append_inj heq hvlen
  -- date
  obtain ⟨hdb, heq⟩ := List.append_inj heq (by rw [beBytes_length, beBytes_length])
  have hdn : d₁.toNat = d₂.toNat := beBytes_inj (by omega) (by omega) hdb
  -- expires
  obtain ⟨hxb, heq⟩ := List.append_inj heq (by rw [beBytes_length, beBytes_length])
  have hxn : x₁.toNat = x₂.toNat := beBytes_inj (by omega) (by omega) hxb
  -- uri length, uri
  obtain ⟨hul, heq⟩ := List.append_inj heq (by rw [beBytes_length, beBytes_length])
  have hulen : e₁.uri.length = e₂.uri.length := beBytes_inj (by omega) (by omega) hul
  obtain ⟨hu, heq⟩ := List.append_inj heq hulen
  -- header length, headers
  obtain ⟨_, hh⟩ := List.append_inj heq (by rw [beBytes_length, beBytes_length])
  refine ⟨hver, hc, hv, by omega, by omega, hu, ?_⟩
  rw [he1, he2, hh]

/-- the bounds on `date`/`expires` in `signedMessage_b23_injective` are necessary: the 8-byte field
    keeps only the low 64 bits, so (as mathematical integers) 0 and 2^64 give the same message -/
theorem encodeBytesUint8_wraps : BigEndian.encodeBytesUint (2 ^ 64) 8 = BigEndian.encodeBytesUint 0 8 := by
  decide +kernel

theorem signedMessage_date_wraps (e : Exchange) (c : Option Bytes) (v : Bytes) (x : Int) :
    e.version ≠ .b1 → signedMessage e c v (2 ^ 64) x = signedMessage e c v 0 x := by
  intro h
  unfold signedMessage
  simp only [if_neg h, encodeBytesUint8_wraps]

/-! ### header block: equal bytes give equal map entries up to order (b3) -/

/-- CBOR byte strings are self-delimiting -/
theorem encodeBytes_prefix_inj {a b r r' : Bytes} (ha : a.length < 2 ^ 63) (hb : b.length < 2 ^ 63)
    (h : encodeBytes a ++ r = encodeBytes b ++ r') : a = b ∧ r = r' := by
  have sa : IsString 2 (encodeBytes a) a := ⟨_, encodeHead_isHead 2 a.length (by omega) (by omega), rfl⟩
  have sb : IsString 2 (encodeBytes b) b := ⟨_, encodeHead_isHead 2 b.length (by omega) (by omega), rfl⟩
  have d1 := decodeBytesOfType_complete sa ha r
  have d2 := decodeBytesOfType_complete sb hb r'
  rw [h, d2] at d1
  injection d1 with d1
  injection d1 with d1a d1b
  exact ⟨d1a.symm, d1b.symm⟩

/-- a map entry made of two byte-string items of length < 2^63 -/
def BstrEntry (p : Entry) : Prop :=
  ∃ k v : Bytes, p = (encodeBytes k, encodeBytes v) ∧ k.length < 2 ^ 63 ∧ v.length < 2 ^ 63

theorem bstrEntries_flatten_inj : ∀ (l₁ l₂ : List Entry), (∀ p ∈ l₁, BstrEntry p) → (∀ p ∈ l₂, BstrEntry p) →
    l₁.length = l₂.length →
    (l₁.map fun e => e.1 ++ e.2).flatten = (l₂.map fun e => e.1 ++ e.2).flatten → l₁ = l₂
  | [], [], _, _, _, _ => rfl
  | [], _ :: _, _, _, hl, _ => by simp at hl
  | _ :: _, [], _, _, hl, _ => by simp at hl
  | p :: l₁, q :: l₂, h1, h2, hl, hf => by
    obtain ⟨k, v, rfl, hk, hv⟩ := h1 _ (List.mem_cons_self)
    obtain ⟨k', v', rfl, hk', hv'⟩ := h2 _ (List.mem_cons_self)
    simp only [List.map_cons, List.flatten_cons, List.append_assoc] at hf
    obtain ⟨rfl, hf1⟩ := encodeBytes_prefix_inj hk hk' hf
    obtain ⟨rfl, hf2⟩ := encodeBytes_prefix_inj hv hv' hf1
    have := bstrEntries_flatten_inj l₁ l₂ (fun p hp => h1 p (List.mem_cons_of_mem _ hp))
      (fun p hp => h2 p (List.mem_cons_of_mem _ hp)) (by simpa using hl) hf2
    rw [this]

/-- `EncodeMap` is injective up to the order of the entries (byte-string entries, < 2^64 of them) -/
theorem encodeMap_perm_of_eq (es₁ es₂ : List Entry) (out : Bytes)
    (hw1 : ∀ p ∈ es₁, BstrEntry p) (hw2 : ∀ p ∈ es₂, BstrEntry p)
    (hn1 : es₁.length < 2 ^ 64) (hn2 : es₂.length < 2 ^ 64)
    (h1 : encodeMap es₁ = .ok out) (h2 : encodeMap es₂ = .ok out) : es₁.Perm es₂ := by
  unfold encodeMap at h1 h2
  simp only at h1 h2
  by_cases d1 : hasAdjDup (sortEntries es₁) = true
  · rw [if_pos d1] at h1; cases h1
  · by_cases d2 : hasAdjDup (sortEntries es₂) = true
    · rw [if_pos d2] at h2; cases h2
    · rw [if_neg d1] at h1; rw [if_neg d2] at h2
      injection h1 with h1; injection h2 with h2
      have heq := h1.trans h2.symm
      obtain ⟨_, _, hlen, hflat⟩ := isHead_prefix_unique
        (encodeHead_isHead 5 es₁.length (by omega) hn1) (encodeHead_isHead 5 es₂.length (by omega) hn2) heq
      have p1 := sortEntries_perm es₁
      have p2 := sortEntries_perm es₂
      have hs : sortEntries es₁ = sortEntries es₂ :=
        bstrEntries_flatten_inj _ _ (fun p hp => hw1 p (p1.mem_iff.mp hp)) (fun p hp => hw2 p (p2.mem_iff.mp hp))
          (by rw [p1.length_eq, p2.length_eq, hlen]) hflat
      exact p1.symm.trans (hs ▸ p2)

/-- the entries of the b3 response map, as handed to `EncodeMap` -/
def responseEntries (e : Exchange) : List Entry :=
  (encodeBytes keyStatus, encodeBytes (SH.formatInt e.status)) :: headerEntries e.respHeaders

/-- b3: equal signed header blocks come from the same set of (lower-cased name, joined value) entries
    and the same status -/
theorem encodeExchangeHeaders_b3_perm (e₁ e₂ : Exchange) (hv1 : e₁.version = .b3) (hv2 : e₂.version = .b3)
    (hw1 : ∀ p ∈ responseEntries e₁, BstrEntry p) (hw2 : ∀ p ∈ responseEntries e₂, BstrEntry p)
    (hn1 : (responseEntries e₁).length < 2 ^ 64) (hn2 : (responseEntries e₂).length < 2 ^ 64)
    (h : encodeExchangeHeaders e₁ = encodeExchangeHeaders e₂) (hdr : Bytes) (hok : encodeExchangeHeaders e₁ = .ok hdr) :
    (responseEntries e₁).Perm (responseEntries e₂) := by
  have hok2 : encodeExchangeHeaders e₂ = .ok hdr := h ▸ hok
  unfold encodeExchangeHeaders at hok hok2
  rw [if_pos hv1] at hok
  rw [if_pos hv2] at hok2
  exact encodeMap_perm_of_eq _ _ hdr hw1 hw2 hn1 hn2 hok hok2

end WebPkg.Sxg
