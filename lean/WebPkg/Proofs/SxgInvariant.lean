import WebPkg.Proofs.SxgVerify
import WebPkg.Proofs.SxgRoundTrip
import WebPkg.Proofs.SxgSpec
import WebPkg.Properties.C11
import WebPkg.Properties.C14
import WebPkg.Properties.C16
/-
  Two facts about the verifier model (Model/SxgVerify.lean) that connect it to the writer/reader and
  to the signer:

  (A) `verify_readBack`   the verdict of `Exchange.Verify` is the same on an exchange and on what
                          `ReadExchange` returns for the file `Exchange.Write` produced from it
                          (`ReadBack e e'` is literally the conclusion of `read_write`);
  (B) `honest_verifies`   MiEncodePayload → sign the serialized message → AddSignatureHeader gives an
                          exchange that `Exchange.Verify` accepts, returning the original payload.
-/
namespace WebPkg.Sxg
open WebPkg.Cbor WebPkg.Http WebPkg.Spec.Policy

/-! ## (A) verdict invariance under write → read -/

/-- header map as produced by Go's `Header.Add/Set` on ASCII names: stored names are canonical, pairwise distinct
    after case folding; a name that is not a valid token is stored unchanged by Go, and we require it lower-case -/
structure CanonHeaders (hs : Headers) : Prop where
  canon : ∀ kv ∈ hs, canonicalKey kv.1 = kv.1
  ascii : ∀ kv ∈ hs, isAscii kv.1 = true
  lowerIfInvalid : ∀ kv ∈ hs, kv.1.all validHeaderFieldByte = true ∨ lowerAscii kv.1 = kv.1
  distinct : (hs.map fun kv => lowerAscii kv.1).Nodup

/-- `e'` is `e` as it comes back from write → read (the conclusion of `read_write`) -/
structure ReadBack (e e' : Exchange) : Prop where
  version : e'.version = e.version
  uri : e'.uri = e.uri
  method : e'.method = (if e.version = .b3 then [71, 69, 84] else e.method)
  status : e'.status = e.status
  sig : e'.sigHeader = e.sigHeader
  payload : e'.payload = e.payload
  resp : e'.respHeaders.Perm (e.respHeaders.map normField)
  req : if e.version = .b3 then e'.reqHeaders = [] else e'.reqHeaders.Perm (e.reqHeaders.map normField)

/-! ### bytes -/

theorem inv_toUpper_toLower_fin : ∀ n : Fin 256,
    toUpperByte (toLowerByte (UInt8.ofNat n.val)) = toUpperByte (UInt8.ofNat n.val) := by
  decide +kernel

theorem inv_toLower_eq45_fin : ∀ n : Fin 256,
    (toLowerByte (UInt8.ofNat n.val) == 45) = (UInt8.ofNat n.val == 45) := by
  decide +kernel

theorem inv_valid_toLower_fin : ∀ n : Fin 256,
    validHeaderFieldByte (toLowerByte (UInt8.ofNat n.val)) = validHeaderFieldByte (UInt8.ofNat n.val) := by
  decide +kernel

theorem inv_toUpper_toLower (c : UInt8) : toUpperByte (toLowerByte c) = toUpperByte c := by
  have := inv_toUpper_toLower_fin ⟨c.toNat, c.toNat_lt⟩
  simpa using this

theorem inv_toLower_eq45 (c : UInt8) : (toLowerByte c == 45) = (c == 45) := by
  have := inv_toLower_eq45_fin ⟨c.toNat, c.toNat_lt⟩
  simpa using this

theorem inv_valid_toLower (c : UInt8) : validHeaderFieldByte (toLowerByte c) = validHeaderFieldByte c := by
  have := inv_valid_toLower_fin ⟨c.toNat, c.toNat_lt⟩
  simpa using this

/-- title-casing does not see the letter case of its input -/
theorem inv_titleCase_lowerAscii (s : Bytes) : ∀ b : Bool, titleCase b (lowerAscii s) = titleCase b s := by
  induction s with
  | nil => intro b; rfl
  | cons c rest ih =>
    intro b
    have ih' := ih (c == 45)
    simp only [lowerAscii, List.map_cons, titleCase] at ih' ⊢
    rw [inv_toLower_eq45, ih', inv_toUpper_toLower, toLower_toLower]

theorem inv_all_valid_lowerAscii (s : Bytes) :
    (lowerAscii s).all validHeaderFieldByte = s.all validHeaderFieldByte := by
  induction s with
  | nil => rfl
  | cons c rest ih =>
    simp only [lowerAscii, List.map_cons, List.all_cons] at ih ⊢
    rw [ih, inv_valid_toLower]

/-- `CanonicalMIMEHeaderKey(strings.ToLower(s)) = CanonicalMIMEHeaderKey(s)` for token names -/
theorem inv_canonicalKey_lowerAscii (s : Bytes) (h : s.all validHeaderFieldByte = true) :
    canonicalKey (lowerAscii s) = canonicalKey s := by
  unfold canonicalKey
  rw [inv_all_valid_lowerAscii, if_pos h, if_pos h, inv_titleCase_lowerAscii]

/-- a stored name of a `CanonHeaders` map comes back unchanged -/
theorem inv_canon_fix (n : Bytes) (hc : canonicalKey n = n)
    (hl : n.all validHeaderFieldByte = true ∨ lowerAscii n = n) : canonicalKey (lowerAscii n) = n := by
  rcases hl with hl | hl
  · rw [inv_canonicalKey_lowerAscii n hl, hc]
  · rw [hl, hc]

/-! ### association lists -/

theorem inv_eq_of_mem_of_key_eq {β : Type} : ∀ (l : List (Bytes × β)), (l.map Prod.fst).Nodup →
    ∀ a b, a ∈ l → b ∈ l → a.1 = b.1 → a = b := by
  intro l
  induction l with
  | nil => intro _ a b ha; cases ha
  | cons x xs ih =>
    intro hnd a b ha hb hk
    rw [List.map_cons, List.nodup_cons] at hnd
    rcases List.mem_cons.mp ha with ha | ha
    · rcases List.mem_cons.mp hb with hb | hb
      · rw [ha, hb]
      · exact absurd (by rw [← ha, hk]; exact List.mem_map.mpr ⟨b, hb, rfl⟩ : x.1 ∈ xs.map Prod.fst) hnd.1
    · rcases List.mem_cons.mp hb with hb | hb
      · exact absurd (by rw [← hb, ← hk]; exact List.mem_map.mpr ⟨a, ha, rfl⟩ : x.1 ∈ xs.map Prod.fst) hnd.1
      · exact ih hnd.2 a b ha hb hk

/-- looking a key up in a map does not depend on the iteration order -/
theorem inv_find_perm {β : Type} (l₁ l₂ : List (Bytes × β)) (hp : l₁.Perm l₂) (hnd : (l₂.map Prod.fst).Nodup)
    (k : Bytes) : l₁.find? (fun kv => kv.1 == k) = l₂.find? (fun kv => kv.1 == k) := by
  cases h2 : l₂.find? (fun kv => kv.1 == k) with
  | none =>
    rw [List.find?_eq_none] at h2 ⊢
    intro x hx
    exact h2 x (hp.subset hx)
  | some a =>
    have ha := List.mem_of_find?_eq_some h2
    have hak : (a.1 == k) = true := List.find?_some (p := fun kv : Bytes × β => kv.1 == k) h2
    cases h1 : l₁.find? (fun kv => kv.1 == k) with
    | none =>
      rw [List.find?_eq_none] at h1
      exact absurd hak (h1 a (hp.symm.subset ha))
    | some b =>
      have hb := List.mem_of_find?_eq_some h1
      have hbk : (b.1 == k) = true := List.find?_some (p := fun kv : Bytes × β => kv.1 == k) h1
      have : b = a := inv_eq_of_mem_of_key_eq l₂ hnd b a (hp.subset hb) ha
        (by rw [eq_of_beq hbk, eq_of_beq hak])
      rw [this]

theorem inv_joined_cons (kv : Bytes × List Bytes) (hs : Headers) (k : Bytes) :
    joined (kv :: hs) k = if (kv.1 == canonicalKey k) = true then joinComma kv.2 else joined hs k := by
  unfold joined values
  rw [List.find?_cons]
  cases h : kv.1 == canonicalKey k
  · simp only [Bool.false_eq_true, if_false]
  · simp only [if_true]

theorem inv_joined_perm (hs₁ hs₂ : Headers) (hp : hs₁.Perm hs₂) (hnd : (hs₂.map Prod.fst).Nodup) (k : Bytes) :
    joined hs₁ k = joined hs₂ k := by
  unfold joined values
  rw [inv_find_perm hs₁ hs₂ hp hnd]

/-- `joinedHeaderValue` of the re-read field list -/
theorem inv_joined_map_normField (k : Bytes) : ∀ (hs : Headers),
    (∀ kv ∈ hs, canonicalKey (lowerAscii kv.1) = kv.1) → joined (hs.map normField) k = joined hs k := by
  intro hs
  induction hs with
  | nil => intro _; rfl
  | cons kv rest ih =>
    intro h
    rw [List.map_cons, inv_joined_cons, inv_joined_cons, ih (fun x hx => h x (List.mem_cons_of_mem _ hx))]
    have h1 : (normField kv).1 = kv.1 := h kv (by simp)
    have h2 : joinComma (normField kv).2 = joinComma kv.2 := rfl
    rw [h1, h2]

theorem inv_keys_map_normField : ∀ (hs : Headers), (∀ kv ∈ hs, canonicalKey (lowerAscii kv.1) = kv.1) →
    (hs.map normField).map Prod.fst = hs.map Prod.fst := by
  intro hs h
  rw [List.map_map]
  apply List.map_congr_left
  intro kv hkv
  exact h kv hkv

theorem inv_canon_nodup (hs : Headers) (hc : CanonHeaders hs) : (hs.map Prod.fst).Nodup := by
  have h := hc.distinct
  have : (hs.map fun kv => lowerAscii kv.1) = (hs.map Prod.fst).map lowerAscii := by rw [List.map_map]; rfl
  rw [this] at h
  exact nodup_of_map _ _ h

/-- (3) every header lookup of the verifier gives the same joined value before and after the round trip -/
theorem inv_joined_readBack (hs hs' : Headers) (hc : CanonHeaders hs) (hp : hs'.Perm (hs.map normField)) (k : Bytes) :
    joined hs' k = joined hs k := by
  have hfix : ∀ kv ∈ hs, canonicalKey (lowerAscii kv.1) = kv.1 :=
    fun kv hkv => inv_canon_fix kv.1 (hc.canon kv hkv) (hc.lowerIfInvalid kv hkv)
  rw [inv_joined_perm hs' _ hp (by rw [inv_keys_map_normField hs hfix]; exact inv_canon_nodup hs hc)]
  exact inv_joined_map_normField k hs hfix

/-! The verifier only looks up the five token names Cache-Control, Expires, Content-Type, Digest and MI-Draft2.
    For token names `lowerIfInvalid` (and `ascii`) are not needed: a stored name that is not a token cannot
    match a token name, before or after the round trip. -/

/-- what (A) needs of the response header map: the first and the last field of `CanonHeaders` -/
structure CanonKeys (hs : Headers) : Prop where
  canon : ∀ kv ∈ hs, canonicalKey kv.1 = kv.1
  distinct : (hs.map fun kv => lowerAscii kv.1).Nodup

theorem CanonHeaders.keys {hs : Headers} (h : CanonHeaders hs) : CanonKeys hs := ⟨h.canon, h.distinct⟩

theorem inv_key_match (n ck : Bytes) (hc : canonicalKey n = n) (hk : ck.all validHeaderFieldByte = true) :
    (canonicalKey (lowerAscii n) == ck) = (n == ck) := by
  by_cases hv : n.all validHeaderFieldByte = true
  · rw [inv_canonicalKey_lowerAscii n hv, hc]
  · have h1 : (n == ck) = false := by
      cases hh : n == ck with
      | false => rfl
      | true => rw [eq_of_beq hh] at hv; exact absurd hk hv
    have hv' : ¬ (lowerAscii n).all validHeaderFieldByte = true := by rw [inv_all_valid_lowerAscii]; exact hv
    have h2 : (canonicalKey (lowerAscii n) == ck) = false := by
      unfold canonicalKey
      rw [if_neg hv']
      cases hh : lowerAscii n == ck with
      | false => rfl
      | true => rw [eq_of_beq hh] at hv'; exact absurd hk hv'
    rw [h1, h2]

theorem inv_joined_map_normField_token (k : Bytes) (hk : (canonicalKey k).all validHeaderFieldByte = true) :
    ∀ (hs : Headers), (∀ kv ∈ hs, canonicalKey kv.1 = kv.1) → joined (hs.map normField) k = joined hs k := by
  intro hs
  induction hs with
  | nil => intro _; rfl
  | cons kv rest ih =>
    intro h
    rw [List.map_cons, inv_joined_cons, inv_joined_cons, ih (fun x hx => h x (List.mem_cons_of_mem _ hx))]
    have h1 : ((normField kv).1 == canonicalKey k) = (kv.1 == canonicalKey k) :=
      inv_key_match kv.1 _ (h kv (by simp)) hk
    have h2 : joinComma (normField kv).2 = joinComma kv.2 := rfl
    rw [h1, h2]

theorem inv_keys_nodup_normField (hs : Headers) (hd : (hs.map fun kv => lowerAscii kv.1).Nodup) :
    ((hs.map normField).map Prod.fst).Nodup := by
  have : ((hs.map normField).map Prod.fst).map lowerAscii = hs.map fun kv => lowerAscii kv.1 := by
    rw [List.map_map, List.map_map]
    apply List.map_congr_left
    intro kv _
    simp only [Function.comp, normField]
    rw [lowerAscii_canonicalKey, lowerAscii_idem]
  rw [← this] at hd
  exact nodup_of_map _ _ hd

/-- (3) for token names, from `CanonKeys` alone -/
theorem inv_joined_readBack_token (hs hs' : Headers) (hc : CanonKeys hs) (hp : hs'.Perm (hs.map normField)) (k : Bytes)
    (hk : (canonicalKey k).all validHeaderFieldByte = true) : joined hs' k = joined hs k := by
  rw [inv_joined_perm hs' _ hp (inv_keys_nodup_normField hs hc.distinct)]
  exact inv_joined_map_normField_token k hk hs hc.canon

theorem inv_token_hCacheControl : (canonicalKey hCacheControl).all validHeaderFieldByte = true := by decide +kernel
theorem inv_token_hExpires : (canonicalKey hExpires).all validHeaderFieldByte = true := by decide +kernel
theorem inv_token_hContentType : (canonicalKey hContentType).all validHeaderFieldByte = true := by decide +kernel
theorem inv_token_digestName (enc : Mice.Enc) : (canonicalKey enc.digestHeaderName).all validHeaderFieldByte = true := by
  cases enc <;> decide +kernel

/-! ### the signed header block -/

/-- (2) `encodeHeaders` of the re-read field list: same lower-cased names, same joined values -/
theorem inv_headerEntries_normField (hs : Headers) : headerEntries (hs.map normField) = headerEntries hs := by
  unfold headerEntries
  rw [List.map_map]
  apply List.map_congr_left
  intro kv _
  obtain ⟨n, vs⟩ := kv
  simp only [Function.comp, normField]
  rw [lowerAscii_canonicalKey, lowerAscii_idem]
  rfl

theorem inv_headerEntries_perm (hs hs' : Headers) (hp : hs'.Perm (hs.map normField)) :
    (headerEntries hs').Perm (headerEntries hs) := by
  rw [← inv_headerEntries_normField hs]
  unfold headerEntries
  exact hp.map _

theorem inv_encodeResponseMap (e e' : Exchange) (hrb : ReadBack e e') : encodeResponseMap e' = encodeResponseMap e := by
  unfold encodeResponseMap
  rw [hrb.status]
  exact C11.encodeMap_perm _ _ (List.Perm.cons _ (inv_headerEntries_perm _ _ hrb.resp))

theorem inv_encodeRequestMap (e e' : Exchange) (hrb : ReadBack e e') (hv : e.version ≠ .b3) :
    encodeRequestMap e' = encodeRequestMap e := by
  have hm := hrb.method
  have hr := hrb.req
  rw [if_neg hv] at hm hr
  unfold encodeRequestMap
  rw [hm, hrb.version, hrb.uri]
  exact C11.encodeMap_perm _ _ (List.Perm.append_left _ (inv_headerEntries_perm _ _ hr))

theorem inv_encodeExchangeHeaders (e e' : Exchange) (hrb : ReadBack e e') :
    encodeExchangeHeaders e' = encodeExchangeHeaders e := by
  unfold encodeExchangeHeaders
  rw [hrb.version]
  by_cases hv : e.version = .b3
  · rw [if_pos hv, if_pos hv]
    exact inv_encodeResponseMap e e' hrb
  · rw [if_neg hv, if_neg hv, inv_encodeResponseMap e e' hrb, inv_encodeRequestMap e e' hrb hv]

theorem inv_signedMessage (e e' : Exchange) (hrb : ReadBack e e') (c : Option Bytes) (v : Bytes) (d x : Int) :
    signedMessage e' c v d x = signedMessage e c v d x := by
  unfold signedMessage
  rw [inv_encodeExchangeHeaders e e' hrb, hrb.version, hrb.uri]

/-! ### the policy checks -/

theorem inv_isUncached_normKey (n : Bytes) : isUncachedHeader (canonicalKey (lowerAscii n)) = isUncachedHeader n := by
  unfold isUncachedHeader
  rw [lowerAscii_canonicalKey, lowerAscii_idem]

theorem inv_isStateful_normKey (n : Bytes) :
    isStatefulRequestHeader (canonicalKey (lowerAscii n)) = isStatefulRequestHeader n := by
  unfold isStatefulRequestHeader
  rw [lowerAscii_canonicalKey, lowerAscii_idem]

theorem inv_any_readBack (P : Bytes → Bool) (hP : ∀ n, P (canonicalKey (lowerAscii n)) = P n) (hs hs' : Headers)
    (hp : hs'.Perm (hs.map normField)) : hs'.any (fun kv => P kv.1) = hs.any (fun kv => P kv.1) := by
  rw [hp.any_eq, List.any_map]
  congr 1
  funext kv
  exact hP kv.1

/-- (4) `verifyHeaders` -/
theorem inv_headersOk (e e' : Exchange) (hrb : ReadBack e e')
    (hb3 : e.version = .b3 → e.reqHeaders.any (fun kv => isStatefulRequestHeader kv.1) = false) :
    headersOk e' = headersOk e := by
  unfold headersOk
  rw [inv_any_readBack isUncachedHeader inv_isUncached_normKey _ _ hrb.resp]
  congr 2
  have hr := hrb.req
  by_cases hv : e.version = .b3
  · rw [if_pos hv] at hr
    rw [hr, hb3 hv]; rfl
  · rw [if_neg hv] at hr
    exact inv_any_readBack isStatefulRequestHeader inv_isStateful_normKey _ _ hr

theorem inv_isCacheable (env : Env) (e e' : Exchange) (hc : CanonKeys e.respHeaders) (hrb : ReadBack e e') :
    isCacheable env e' = isCacheable env e := by
  unfold isCacheable
  rw [hrb.status, inv_joined_readBack_token _ _ hc hrb.resp _ inv_token_hCacheControl,
    inv_joined_readBack_token _ _ hc hrb.resp _ inv_token_hExpires]

theorem inv_verifyPayload (env : Env) (e e' : Exchange) (hc : CanonKeys e.respHeaders) (hrb : ReadBack e e')
    (s : Signature) : verifyPayload env e' s = verifyPayload env e s := by
  unfold verifyPayload
  simp only [hrb.version, hrb.payload, inv_joined_readBack_token _ _ hc hrb.resp _ (inv_token_digestName _)]

/-- everything `Acceptable` reads from the exchange -/
structure SameView (env : Env) (e e' : Exchange) : Prop where
  version : e'.version = e.version
  uri : e'.uri = e.uri
  method : e.version ≠ .b3 → e'.method = e.method
  msg : ∀ c v d x, signedMessage e' c v d x = signedMessage e c v d x
  payload : ∀ s, verifyPayload env e' s = verifyPayload env e s
  contentType : joined e'.respHeaders hContentType = joined e.respHeaders hContentType
  cacheable : isCacheable env e' = isCacheable env e
  headers : headersOk e' = headersOk e

theorem inv_acceptable_of_sameView (env : Env) (e e' : Exchange) (t : GoTime.T) (s : Signature) (p : Bytes)
    (hv : SameView env e e') (h : Acceptable env e t s p) : Acceptable env e' t s p := by
  refine ⟨?_, ?_, h.time, ?_, ?_, ?_, ?_, ?_⟩
  · rw [hv.uri]; exact h.origin
  · obtain ⟨cb, main, rest, h1, h2, h3, h4, msg, h5, h6⟩ := h.chain
    exact ⟨cb, main, rest, h1, h2, h3, h4, msg, by rw [hv.msg]; exact h5, h6⟩
  · rw [hv.payload]; exact h.payload
  · rw [hv.version, hv.contentType]; exact h.contentType
  · rw [hv.version]
    intro hb
    have hne : e.version ≠ .b3 := by
      rcases hb with hb | hb <;> rw [hb] <;> decide
    rw [hv.method hne]
    exact h.method hb
  · rw [hv.version, hv.cacheable]; exact h.cacheable
  · rw [hv.headers]; exact h.headers

theorem SameView.symm {env : Env} {e e' : Exchange} (h : SameView env e e') : SameView env e' e :=
  ⟨h.version.symm, h.uri.symm, fun hne => (h.method (by rw [← h.version]; exact hne)).symm,
   fun c v d x => (h.msg c v d x).symm, fun s => (h.payload s).symm, h.contentType.symm, h.cacheable.symm,
   h.headers.symm⟩

theorem inv_verify_of_sameView (env : Env) (e e' : Exchange) (t : GoTime.T) (hv : SameView env e e')
    (hsig : e'.sigHeader = e.sigHeader) : verify env e' t = verify env e t := by
  have hone : verifyOne env e' t = verifyOne env e t := by
    funext pi
    apply Option.ext
    intro p
    rw [verifyOne_iff, verifyOne_iff]
    constructor
    · rintro ⟨s, hs, ha⟩
      exact ⟨s, hs, inv_acceptable_of_sameView env e' e t s p hv.symm ha⟩
    · rintro ⟨s, hs, ha⟩
      exact ⟨s, hs, inv_acceptable_of_sameView env e e' t s p hv ha⟩
  unfold verify
  rw [hsig, hone]

theorem inv_sameView_readBack (env : Env) (e e' : Exchange) (hc1 : CanonKeys e.respHeaders)
    (hb3 : e.version = .b3 → e.reqHeaders.any (fun kv => isStatefulRequestHeader kv.1) = false)
    (hrb : ReadBack e e') : SameView env e e' := by
  refine ⟨hrb.version, hrb.uri, ?_, inv_signedMessage e e' hrb, inv_verifyPayload env e e' hc1 hrb,
    inv_joined_readBack_token _ _ hc1 hrb.resp _ inv_token_hContentType, inv_isCacheable env e e' hc1 hrb,
    inv_headersOk e e' hrb hb3⟩
  intro hne
  have hm := hrb.method
  rw [if_neg hne] at hm
  exact hm

/-- (A), strongest form: of the response header map only `CanonKeys` is used (stored names canonical and
    distinct after case folding — true of every map built with `Header.Add/Set/Del`), nothing of the request map -/
theorem verify_readBack_canonKeys (env : Env) (e e' : Exchange) (t : GoTime.T)
    (hc1 : CanonKeys e.respHeaders)
    (hb3 : e.version = .b3 → e.reqHeaders.any (fun kv => isStatefulRequestHeader kv.1) = false)
    (hrb : ReadBack e e') : verify env e' t = verify env e t :=
  inv_verify_of_sameView env e e' t (inv_sameView_readBack env e e' hc1 hb3 hrb) hrb.sig

/-- **(A)** `Exchange.Verify` gives the same verdict (same decoded payload, or the same refusal) on an exchange
    and on what `ReadExchange` returns for the file `Exchange.Write` produced from it.

    Weaker than asked for in two places: nothing is assumed about the request header map, and for b3 (whose
    file has no request part) it suffices that the in-memory request headers contain no stateful name — the
    method is irrelevant because `Verify` looks at it for b1/b2 only. -/
theorem verify_readBack (env : Env) (e e' : Exchange) (t : GoTime.T)
    (hc1 : CanonHeaders e.respHeaders)
    (hb3 : e.version = .b3 → e.reqHeaders.any (fun kv => isStatefulRequestHeader kv.1) = false)
    (hrb : ReadBack e e') : verify env e' t = verify env e t :=
  verify_readBack_canonKeys env e e' t hc1.keys hb3 hrb

/-- (A) with the hypotheses exactly as first stated (request map canonical too; b3: no request headers, GET) -/
theorem verify_readBack_asStated (env : Env) (e e' : Exchange) (t : GoTime.T)
    (hc1 : CanonHeaders e.respHeaders) (_hc2 : CanonHeaders e.reqHeaders)
    (hb3 : e.version = .b3 → e.reqHeaders = [] ∧ e.method = [71, 69, 84])
    (hrb : ReadBack e e') : verify env e' t = verify env e t :=
  verify_readBack env e e' t hc1 (fun hv => by rw [(hb3 hv).1]; rfl) hrb

/-- (A) composed with `read_write`: verifying the file's exchange = verifying the in-memory exchange -/
theorem verify_read_write (env : Env) (e : Exchange) (out : Bytes) (t : GoTime.T) (hd : Dom env.url e)
    (hw : write e = .ok out) (hc1 : CanonKeys e.respHeaders)
    (hb3 : e.version = .b3 → e.reqHeaders.any (fun kv => isStatefulRequestHeader kv.1) = false) :
    ∃ e', read env.url out = .ok e' ∧ verify env e' t = verify env e t := by
  obtain ⟨e', hr, h1, h2, h3, h4, h5, h6, h7, h8⟩ := read_write env.url e out hd hw
  exact ⟨e', hr, verify_readBack_canonKeys env e e' t hc1 hb3 ⟨h1, h2, h3, h4, h5, h6, h7, h8⟩⟩


/-! ## (B) an honestly signed exchange verifies -/

/-! ### `Header.Add` followed by `Header.Values` -/

/-- the update `Header.Add` applies to the stored fields when the name is present -/
def inv_addAt (ck v : Bytes) (x : Bytes × List Bytes) : Bytes × List Bytes :=
  if x.1 == ck then (x.1, x.2 ++ [v]) else (x.1, x.2)

theorem inv_addAt_key (ck v : Bytes) (x : Bytes × List Bytes) : (inv_addAt ck v x).1 = x.1 := by
  unfold inv_addAt
  cases x.1 == ck <;> rfl

theorem inv_add_eq (h : Headers) (k v : Bytes) :
    add h k v = if h.any (fun x => x.1 == canonicalKey k) = true then h.map (inv_addAt (canonicalKey k) v)
      else h ++ [(canonicalKey k, [v])] := rfl

theorem inv_find_addAt (ck v ck' : Bytes) (h : Headers) :
    (h.map (inv_addAt ck v)).find? (fun x => x.1 == ck') =
      (h.find? (fun x => x.1 == ck')).map (inv_addAt ck v) := by
  have : ((fun x : Bytes × List Bytes => x.1 == ck') ∘ inv_addAt ck v) = (fun x => x.1 == ck') := by
    funext x
    simp only [Function.comp, inv_addAt_key]
  rw [List.find?_map, this]

theorem inv_find_none_of_any_false (h : Headers) (ck : Bytes) (hn : ¬ h.any (fun x => x.1 == ck) = true) :
    h.find? (fun x => x.1 == ck) = none := by
  rw [List.find?_eq_none]
  intro x hx hxk
  exact hn (List.any_eq_true.mpr ⟨x, hx, hxk⟩)

/-- `Header.Add(k, v)` appends `v` to `Header.Values(k)` -/
theorem inv_values_add_same (h : Headers) (k v : Bytes) : values (add h k v) k = values h k ++ [v] := by
  rw [inv_add_eq]
  unfold values
  by_cases hany : h.any (fun x => x.1 == canonicalKey k) = true
  · rw [if_pos hany, inv_find_addAt]
    cases hf : h.find? (fun x => x.1 == canonicalKey k) with
    | none =>
      rw [List.find?_eq_none] at hf
      obtain ⟨x, hx, hxk⟩ := List.any_eq_true.mp hany
      exact absurd hxk (hf x hx)
    | some x =>
      have hxk : (x.1 == canonicalKey k) = true := List.find?_some (p := fun x : Bytes × List Bytes => x.1 == canonicalKey k) hf
      obtain ⟨n, vs⟩ := x
      simp only [Option.map_some, inv_addAt, hxk, if_true]
  · rw [if_neg hany, List.find?_append, inv_find_none_of_any_false h _ hany]
    simp only [Option.none_or, List.find?_cons, beq_self_eq_true, List.nil_append]

/-- ... and leaves `Header.Values` of every other name alone -/
theorem inv_values_add_other (h : Headers) (k v k' : Bytes) (hne : canonicalKey k ≠ canonicalKey k') :
    values (add h k v) k' = values h k' := by
  rw [inv_add_eq]
  unfold values
  by_cases hany : h.any (fun x => x.1 == canonicalKey k) = true
  · rw [if_pos hany, inv_find_addAt]
    cases hf : h.find? (fun x => x.1 == canonicalKey k') with
    | none => rfl
    | some x =>
      have hxk : (x.1 == canonicalKey k') = true := List.find?_some (p := fun x : Bytes × List Bytes => x.1 == canonicalKey k') hf
      have hxne : (x.1 == canonicalKey k) = false := by
        cases hh : x.1 == canonicalKey k with
        | false => rfl
        | true => exact absurd ((eq_of_beq hh).symm.trans (eq_of_beq hxk)) hne
      obtain ⟨n, vs⟩ := x
      simp only [Option.map_some, inv_addAt, hxne, Bool.false_eq_true, if_false]
  · rw [if_neg hany, List.find?_append]
    have : (((canonicalKey k, [v]) : Bytes × List Bytes).1 == canonicalKey k') = false := by
      cases hh : canonicalKey k == canonicalKey k' with
      | false => rfl
      | true => exact absurd (eq_of_beq hh) hne
    rw [List.find?_cons_of_neg (by simpa using this), List.find?_nil, Option.or_none]

theorem inv_digestName_ne (enc : Mice.Enc) : canonicalKey hContentEncoding ≠ canonicalKey enc.digestHeaderName := by
  cases enc <;> decide +kernel

theorem inv_digest_ne_nil (H : Bytes → Bytes) (enc : Mice.Enc) (p : Bytes) (rs : Nat) : (Mice.encode H enc p rs).2 ≠ [] := by
  unfold Mice.encode
  by_cases h : enc = .draft03 ∧ p.length = 0
  · rw [if_pos h]; cases enc <;> simp [Mice.formatDigestHeader, Mice.Enc.name]
  · rw [if_neg h]; cases enc <;> simp [Mice.formatDigestHeader, Mice.Enc.name]

/-! ### the three steps of the signer -/

theorem honest_miEncodePayload_eq (H : Bytes → Bytes) (e0 e1 : Exchange) (rs : Nat) (h : miEncodePayload H e0 rs = some e1) :
    e1 = { e0 with payload := (Mice.encode H e0.version.mice e0.payload rs).1,
                   respHeaders := add (add e0.respHeaders hContentEncoding e0.version.mice.name)
                     e0.version.mice.digestHeaderName (Mice.encode H e0.version.mice e0.payload rs).2 } := by
  unfold miEncodePayload at h
  by_cases hg : values e0.respHeaders e0.version.mice.digestHeaderName ≠ []
  · rw [if_pos hg] at h
    cases h
  · rw [if_neg hg] at h
    injection h with h
    exact h.symm

/-- since fix F14 `MiEncodePayload` only proceeds when the response has no entry at all under the digest name -/
theorem honest_miEncodePayload_nodigest (H : Bytes → Bytes) (e0 e1 : Exchange) (rs : Nat) (h : miEncodePayload H e0 rs = some e1) :
    values e0.respHeaders e0.version.mice.digestHeaderName = [] := by
  unfold miEncodePayload at h
  by_cases hg : values e0.respHeaders e0.version.mice.digestHeaderName ≠ []
  · rw [if_pos hg] at h; cases h
  · simpa using hg

/-- the digest header the verifier reads back is exactly the one `MiEncodePayload` added, provided the
    response had no value under that name -/
theorem honest_digest_joined (hs : Headers) (enc : Mice.Enc) (digest : Bytes) (hno : values hs enc.digestHeaderName = []) :
    joined (add (add hs hContentEncoding enc.name) enc.digestHeaderName digest) enc.digestHeaderName = digest := by
  unfold joined
  rw [inv_values_add_same, inv_values_add_other _ _ _ _ (inv_digestName_ne enc), hno]
  rfl

/-- `verifyPayload` on the MI-encoded exchange returns the original payload -/
theorem honest_payload_decodes (env : Env) (hlen : ∀ x, (env.H x).length = 32) (e0 e1 : Exchange) (rs : Nat)
    (hrs : 1 ≤ rs) (hrs2 : rs ≤ 16384) (hmi : miEncodePayload env.H e0 rs = some e1)
    (hno : values e0.respHeaders e0.version.mice.digestHeaderName = []) (s : Signature)
    (hint : s.integrity = e0.version.mice.integrityIdentifier) :
    verifyPayload env e1 s = some e0.payload := by
  have he1 := honest_miEncodePayload_eq env.H e0 e1 rs hmi
  have hv : e1.version = e0.version := by rw [he1]
  have hp : e1.payload = (Mice.encode env.H e0.version.mice e0.payload rs).1 := by rw [he1]
  have hr : e1.respHeaders = add (add e0.respHeaders hContentEncoding e0.version.mice.name)
      e0.version.mice.digestHeaderName (Mice.encode env.H e0.version.mice e0.payload rs).2 := by rw [he1]
  unfold verifyPayload
  simp only [hv, hp, hr, honest_digest_joined _ _ _ hno, hint, ne_eq, not_true_eq_false, if_false,
    inv_digest_ne_nil]
  rw [C14.decode_encode env.H hlen e0.version.mice e0.payload rs 16384 hrs hrs2 (by omega)]

/-- the parameterised identifier `signatureHeaderValue` serializes -/
def honestPI (v : Ver) (sig validityUrl certUrl certSha : Bytes) (date expires : Int) : SH.PI :=
  { label := kLabel, params := [
    (kSig, some (.bytes sig)), (kValidityUrl, some (.str validityUrl)), (kIntegrity, some (.str v.mice.integrityIdentifier)),
    (kCertUrl, some (.str certUrl)), (kCertSha256, some (.bytes certSha)), (kDate, some (.int date)),
    (kExpires, some (.int expires))] }

theorem honest_normPI (v : Ver) (sig validityUrl certUrl certSha : Bytes) (date expires : Int) :
    SH.normPI (honestPI v sig validityUrl certUrl certSha date expires) =
      { label := kLabel, params := sigParamsSorted v sig validityUrl certUrl certSha date expires } := by
  unfold SH.normPI SH.sortParams honestPI
  simp only [sigParams_sort]

/-- the Signature header the signer emits parses to one signature with the seven parameters (in key order) -/
theorem honest_sigHeader_parses (v : Ver) (sig validityUrl certUrl certSha : Bytes) (date expires : Int) (hd : Bytes)
    (hint : -(2:Int)^63 ≤ date ∧ date < (2:Int)^63 ∧ -(2:Int)^63 ≤ expires ∧ expires < (2:Int)^63)
    (h : signatureHeaderValue v sig validityUrl certUrl certSha date expires = some hd) :
    SH.parseParameterisedList hd =
      some [{ label := kLabel, params := sigParamsSorted v sig validityUrl certUrl certSha date expires }] := by
  have hpr : validityUrl.all (fun c => 32 ≤ c && c ≤ 126) = true ∧ certUrl.all (fun c => 32 ≤ c && c ≤ 126) = true := by
    rw [signatureHeaderValue_eq] at h
    by_cases hc : validityUrl.all (fun c => 32 ≤ c && c ≤ 126) = true ∧ certUrl.all (fun c => 32 ≤ c && c ≤ 126) = true
    · exact hc
    · rw [if_neg hc] at h; cases h
  have hser : SH.serializePI (honestPI v sig validityUrl certUrl certSha date expires) = some hd := h
  have hpl : SH.serializePL [honestPI v sig validityUrl certUrl certSha date expires] = some hd := by
    unfold SH.serializePL
    simp only [List.isEmpty_cons, Bool.false_eq_true, if_false, SH.mapM', hser, Option.map_some, SH.joinWith]
  have hl : SH.isValidToken kLabel = true := by decide +kernel
  have k1 : SH.isValidKey kCertSha256 = true := by decide +kernel
  have k2 : SH.isValidKey kCertUrl = true := by decide +kernel
  have k3 : SH.isValidKey kDate = true := by decide +kernel
  have k4 : SH.isValidKey kExpires = true := by decide +kernel
  have k5 : SH.isValidKey kIntegrity = true := by decide +kernel
  have k6 : SH.isValidKey kSig = true := by decide +kernel
  have k7 : SH.isValidKey kValidityUrl = true := by decide +kernel
  have hvalid : SH.validPI (honestPI v sig validityUrl certUrl certSha date expires) = true := by
    simp only [SH.validPI, honestPI, List.all_cons, List.all_nil, SH.validParam, SH.validItem, hl, k1, k2, k3, k4, k5, k6, k7,
      hpr.1, hpr.2, integrity_printable, hint.1, hint.2.1, hint.2.2.1, hint.2.2.2, decide_true, Bool.and_self]
  have hkeys : ((honestPI v sig validityUrl certUrl certSha date expires).params.map Prod.fst).Nodup := by
    have : (honestPI v sig validityUrl certUrl certSha date expires).params.map Prod.fst =
        [kSig, kValidityUrl, kIntegrity, kCertUrl, kCertSha256, kDate, kExpires] := rfl
    rw [this]; decide +kernel
  have := SH.parse_serialize_pl [honestPI v sig validityUrl certUrl certSha date expires] hd
    (fun pi hpi => by rw [List.mem_singleton.mp hpi]; exact hvalid)
    (fun pi hpi => by rw [List.mem_singleton.mp hpi]; exact hkeys) hpl
  rw [this, List.map_cons, List.map_nil, honest_normPI]

/-- `extractSignatureFields` on that signature -/
theorem honest_extract (v : Ver) (sig validityUrl certUrl certSha : Bytes) (date expires : Int) :
    extractSignature { label := kLabel, params := sigParamsSorted v sig validityUrl certUrl certSha date expires } =
      some { label := kLabel, sig := sig, integrity := v.mice.integrityIdentifier, certUrl := certUrl,
             certSha256 := certSha, validityUrl := validityUrl, date := date, expires := expires } := by
  rfl

theorem honest_addSignatureHeader_eq (e1 e2 : Exchange) (sig validityUrl certUrl certSha : Bytes) (date expires : Int)
    (h : addSignatureHeader e1 sig validityUrl certUrl certSha date expires = some e2) :
    ∃ hd, signatureHeaderValue e1.version sig validityUrl certUrl certSha date expires = some hd ∧
      e2 = { e1 with sigHeader := hd } := by
  unfold addSignatureHeader at h
  cases hs : signatureHeaderValue e1.version sig validityUrl certUrl certSha date expires with
  | none => simp only [hs] at h; cases h
  | some hd =>
    simp only [hs] at h
    injection h with h
    exact ⟨hd, rfl, h.symm⟩

/-- replacing the Signature header does not change anything `Acceptable` reads -/
theorem honest_sameView (env : Env) (e1 : Exchange) (hd : Bytes) : SameView env e1 { e1 with sigHeader := hd } :=
  ⟨rfl, rfl, fun _ => rfl, fun _ _ _ _ => rfl, fun _ => rfl, rfl, rfl, rfl⟩

/-! ### why `hnodigest` is there

  `MiEncodePayload` only checks `Header.Get(digestName) == ""`.  A response that already carries the digest
  header with one *empty* value passes that check, `Header.Add` then makes the field `["", digest]`, the
  verifier reads `"," ++ digest`, whose algorithm part is not the MI name: the honestly signed exchange is
  refused.  So `get … = []` (or a `CanonHeaders` assumption) is not enough for (B); `values … = []` is. -/

theorem honest_digest_shape (H : Bytes → Bytes) (enc : Mice.Enc) (p : Bytes) (rs : Nat) :
    ∃ b, (Mice.encode H enc p rs).2 = enc.name ++ 61 :: b := by
  unfold Mice.encode
  by_cases h : enc = .draft03 ∧ p.length = 0
  · rw [if_pos h]; exact ⟨_, by simp only [Mice.formatDigestHeader, List.append_assoc, List.singleton_append]; rfl⟩
  · rw [if_neg h]; exact ⟨_, by simp only [Mice.formatDigestHeader, List.append_assoc, List.singleton_append]; rfl⟩

theorem honest_comma_digest_unparsable (enc : Mice.Enc) (b : Bytes) :
    Mice.parseDigestHeader enc (44 :: (enc.name ++ 61 :: b)) = none := by
  have hs : Mice.splitEq (44 :: (enc.name ++ 61 :: b)) = some (44 :: enc.name, b) := by
    have := Mice.splitEq_append (44 :: enc.name) b (by
      intro c hc
      rcases List.mem_cons.mp hc with rfl | hc
      · decide
      · exact Mice.name_no_eq enc c hc)
    rw [List.cons_append] at this
    exact this
  unfold Mice.parseDigestHeader
  rw [hs]
  have hne : (44 :: enc.name : Bytes) ≠ enc.name := by
    intro h
    have := congrArg List.length h
    simp at this
  simp only [hne, ne_eq, not_false_eq_true, if_true]

/-- **(B)** MI-encode the payload, sign the serialized message with the certificate's key, add the
    Signature header: `Exchange.Verify` accepts the result and returns the original payload. -/
theorem honest_verifies (env : Env) (hlen : ∀ x, (env.H x).length = 32)
    (e0 e1 e2 : Exchange) (rs : Nat) (hrs : 1 ≤ rs) (hrs2 : rs ≤ 16384)
    (sig validityUrl certUrl certBytes : Bytes) (main : CertChain.AugCert) (rest : List CertChain.AugCert)
    (date expires : Int) (t : GoTime.T) (msg : Bytes)
    (hmi : miEncodePayload env.H e0 rs = some e1)
    (hmsg : signedMessage e1 (some (env.H main.cert)) validityUrl date expires = some msg)
    (hsign : addSignatureHeader e1 sig validityUrl certUrl (env.H main.cert) date expires = some e2)
    (hfetch : env.fetch certUrl = some certBytes) (hchain : CertChain.read env.parseOk certBytes = some (main :: rest))
    (hkey : env.keyOk main.cert = true) (hsv : env.sigVerify main.cert msg sig = true)
    (hurl : ∃ vu ru, env.url validityUrl = some vu ∧ env.url e0.uri = some ru ∧ sameOrigin vu ru = true)
    (htime : timestampsOk
        { label := kLabel, sig := sig, integrity := e0.version.mice.integrityIdentifier, certUrl := certUrl,
          certSha256 := env.H main.cert, validityUrl := validityUrl, date := date, expires := expires } t = true)
    (hint : -(2:Int)^63 ≤ date ∧ date < (2:Int)^63 ∧ -(2:Int)^63 ≤ expires ∧ expires < (2:Int)^63)
    (hpolicy : headersOk e1 = true ∧ ((e0.version = .b1 ∨ e0.version = .b2) → (e0.method = mGET ∨ e0.method = mHEAD)) ∧
       (e0.version = .b3 → isCacheable env e1 = true ∧ joined e1.respHeaders hContentType ≠ []))
    (hnodigest : values e0.respHeaders e0.version.mice.digestHeaderName = [])
    : verify env e2 t = some e0.payload := by
  have he1 := honest_miEncodePayload_eq env.H e0 e1 rs hmi
  have hv : e1.version = e0.version := by rw [he1]
  have hu : e1.uri = e0.uri := by rw [he1]
  have hm : e1.method = e0.method := by rw [he1]
  obtain ⟨hd, hshv, he2⟩ := honest_addSignatureHeader_eq e1 e2 sig validityUrl certUrl (env.H main.cert) date expires hsign
  rw [hv] at hshv
  have hparse := honest_sigHeader_parses e0.version sig validityUrl certUrl (env.H main.cert) date expires hd hint hshv
  have hsig2 : e2.sigHeader = hd := by rw [he2]
  obtain ⟨vu, ru, hvu, hru, hso⟩ := hurl
  have hacc1 : Acceptable env e1 t
      { label := kLabel, sig := sig, integrity := e0.version.mice.integrityIdentifier, certUrl := certUrl,
        certSha256 := env.H main.cert, validityUrl := validityUrl, date := date, expires := expires }
      e0.payload := by
    refine ⟨⟨vu, ru, hvu, by rw [hu]; exact hru, hso⟩, ⟨certBytes, main, rest, hfetch, hchain, hkey, rfl, msg, hmsg, hsv⟩,
      htime, honest_payload_decodes env hlen e0 e1 rs hrs hrs2 hmi hnodigest _ rfl, ?_, ?_, ?_, hpolicy.1⟩
    · rw [hv]; exact fun h3 => (hpolicy.2.2 h3).2
    · rw [hv, hm]; exact hpolicy.2.1
    · rw [hv]; exact fun h3 => (hpolicy.2.2 h3).1
  have hacc2 := inv_acceptable_of_sameView env e1 e2 t _ _ (by rw [he2]; exact honest_sameView env e1 hd) hacc1
  unfold verify
  rw [hsig2, hparse]
  simp only [List.findSome?_cons, List.findSome?_nil]
  rw [(verifyOne_iff env e2 t _ e0.payload).mpr ⟨_, honest_extract _ _ _ _ _ _ _, hacc2⟩]

/-- (B) on the repaired code: since fix F14 `MiEncodePayload` itself guarantees that no digest entry was
    present, so no extra hypothesis about the original headers is needed. (Before the fix an exchange whose
    digest header was present with an empty value was signed and then refused by every verifier.) -/
theorem honest_verifies_f14 (env : Env) (hlen : ∀ x, (env.H x).length = 32)
    (e0 e1 e2 : Exchange) (rs : Nat) (hrs : 1 ≤ rs) (hrs2 : rs ≤ 16384)
    (sig validityUrl certUrl certBytes : Bytes) (main : CertChain.AugCert) (rest : List CertChain.AugCert)
    (date expires : Int) (t : GoTime.T) (msg : Bytes)
    (hmi : miEncodePayload env.H e0 rs = some e1)
    (hmsg : signedMessage e1 (some (env.H main.cert)) validityUrl date expires = some msg)
    (hsign : addSignatureHeader e1 sig validityUrl certUrl (env.H main.cert) date expires = some e2)
    (hfetch : env.fetch certUrl = some certBytes) (hchain : CertChain.read env.parseOk certBytes = some (main :: rest))
    (hkey : env.keyOk main.cert = true) (hsv : env.sigVerify main.cert msg sig = true)
    (hurl : ∃ vu ru, env.url validityUrl = some vu ∧ env.url e0.uri = some ru ∧ sameOrigin vu ru = true)
    (htime : timestampsOk
        { label := kLabel, sig := sig, integrity := e0.version.mice.integrityIdentifier, certUrl := certUrl,
          certSha256 := env.H main.cert, validityUrl := validityUrl, date := date, expires := expires } t = true)
    (hint : -(2:Int)^63 ≤ date ∧ date < (2:Int)^63 ∧ -(2:Int)^63 ≤ expires ∧ expires < (2:Int)^63)
    (hpolicy : headersOk e1 = true ∧ ((e0.version = .b1 ∨ e0.version = .b2) → (e0.method = mGET ∨ e0.method = mHEAD)) ∧
       (e0.version = .b3 → isCacheable env e1 = true ∧ joined e1.respHeaders hContentType ≠ []))
    : verify env e2 t = some e0.payload :=
  honest_verifies env hlen e0 e1 e2 rs hrs hrs2 sig validityUrl certUrl certBytes main rest date expires t msg
    hmi hmsg hsign hfetch hchain hkey hsv hurl htime hint hpolicy (honest_miEncodePayload_nodigest env.H e0 e1 rs hmi)

end WebPkg.Sxg
