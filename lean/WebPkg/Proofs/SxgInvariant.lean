import WebPkg.Proofs.SxgVerify
import WebPkg.Proofs.SxgRoundTrip
import WebPkg.Proofs.SxgSpec
import WebPkg.Properties.C11
import WebPkg.Properties.C14
import WebPkg.Properties.C16
/-
  Two facts about the verifier model (Model/SxgVerify.lean) that connect it to the writer/reader and
  to the signer:

  (A) `verify_readBack`   the verdict of `Exchange.Verify` is the same on an exchange and on what
                          `ReadExchange` returns for the file `Exchange.Write` produced from it
                          (`ReadBack e e'` is literally the conclusion of `read_write`);
  (B) `honest_verifies`   MiEncodePayload → sign the serialized message → AddSignatureHeader gives an
                          exchange that `Exchange.Verify` accepts, returning the original payload.
-/
namespace WebPkg.Sxg
open WebPkg.Cbor WebPkg.Http WebPkg.Spec.Policy

/-! ## (A) verdict invariance under write → read -/

/-- header map as produced by Go's `Header.Add/Set` on ASCII names: stored names are canonical, pairwise distinct
    after case folding; a name that is not a valid token is stored unchanged by Go, and we require it lower-case -/
structure CanonHeaders (hs : Headers) : Prop where
  canon : ∀ kv ∈ hs, canonicalKey kv.1 = kv.1
  ascii : ∀ kv ∈ hs, isAscii kv.1 = true
  lowerIfInvalid : ∀ kv ∈ hs, kv.1.all validHeaderFieldByte = true ∨ lowerAscii kv.1 = kv.1
  distinct : (hs.map fun kv => lowerAscii kv.1).Nodup

/-- `e'` is `e` as it comes back from write → read (the conclusion of `read_write`) -/
structure ReadBack (e e' : Exchange) : Prop where
  version : e'.version = e.version
  uri : e'.uri = e.uri
  method : e'.method = (if e.version = .b3 then [71, 69, 84] else e.method)
  status : e'.status = e.status
  sig : e'.sigHeader = e.sigHeader
  payload : e'.payload = e.payload
  resp : e'.respHeaders.Perm (e.respHeaders.map normField)
  req : if e.version = .b3 then e'.reqHeaders = [] else e'.reqHeaders.Perm (e.reqHeaders.map normField)

/-! ### bytes -/

theorem inv_toUpper_toLower_fin : ∀ n : Fin 256,
    toUpperByte (toLowerByte (UInt8.ofNat n.val)) = toUpperByte (UInt8.ofNat n.val) := by
  decide +kernel

theorem inv_toLower_eq45_fin : ∀ n : Fin 256,
    (toLowerByte (UInt8.ofNat n.val) == 45) = (UInt8.ofNat n.val == 45) := by
  decide +kernel

theorem inv_valid_toLower_fin : ∀ n : Fin 256,
    validHeaderFieldByte (toLowerByte (UInt8.ofNat n.val)) = validHeaderFieldByte (UInt8.ofNat n.val) := by
  decide +kernel

theorem inv_toUpper_toLower (c : UInt8) : toUpperByte (toLowerByte c) = toUpperByte c := by
  have := inv_toUpper_toLower_fin ⟨c.toNat, c.toNat_lt⟩
  simpa using this

theorem inv_toLower_eq45 (c : UInt8) : (toLowerByte c == 45) = (c == 45) := by
  have := inv_toLower_eq45_fin ⟨c.toNat, c.toNat_lt⟩
  simpa using this

theorem inv_valid_toLower (c : UInt8) : validHeaderFieldByte (toLowerByte c) = validHeaderFieldByte c := by
  have := inv_valid_toLower_fin ⟨c.toNat, c.toNat_lt⟩
  simpa using this

/-- title-casing does not see the letter case of its input -/
theorem inv_titleCase_lowerAscii (s : Bytes) : ∀ b : Bool, titleCase b (lowerAscii s) = titleCase b s := by
  induction s with
  | nil => intro b; rfl
  | cons c rest ih =>
    intro b
    have ih' := ih (c == 45)
    simp only [lowerAscii, List.map_cons, titleCase] at ih' ⊢
    rw [inv_toLower_eq45, ih', inv_toUpper_toLower, toLower_toLower]

theorem inv_all_valid_lowerAscii (s : Bytes) :
    (lowerAscii s).all validHeaderFieldByte = s.all validHeaderFieldByte := by
  induction s with
  | nil => rfl
  | cons c rest ih =>
    simp only [lowerAscii, List.map_cons, List.all_cons] at ih ⊢
    rw [ih, inv_valid_toLower]

/-- `CanonicalMIMEHeaderKey(strings.ToLower(s)) = CanonicalMIMEHeaderKey(s)` for token names -/
theorem inv_canonicalKey_lowerAscii (s : Bytes) (h : s.all validHeaderFieldByte = true) :
    canonicalKey (lowerAscii s) = canonicalKey s := by
  unfold canonicalKey
  rw [inv_all_valid_lowerAscii, if_pos h, if_pos h, inv_titleCase_lowerAscii]

/-- a stored name of a `CanonHeaders` map comes back unchanged -/
theorem inv_canon_fix (n : Bytes) (hc : canonicalKey n = n)
    (hl : n.all validHeaderFieldByte = true ∨ lowerAscii n = n) : canonicalKey (lowerAscii n) = n := by
  rcases hl with hl | hl
  · rw [inv_canonicalKey_lowerAscii n hl, hc]
  · rw [hl, hc]

/-! ### association lists -/

theorem inv_eq_of_mem_of_key_eq {β : Type} : ∀ (l : List (Bytes × β)), (l.map Prod.fst).Nodup →
    ∀ a b, a ∈ l → b ∈ l → a.1 = b.1 → a = b := by
  intro l
  induction l with
  | nil => intro _ a b ha; cases ha
  | cons x xs ih =>
    intro hnd a b ha hb hk
    rw [List.map_cons, List.nodup_cons] at hnd
    rcases List.mem_cons.mp ha with rfl | ha
    · rcases List.mem_cons.mp hb with rfl | hb
      · rfl
      · exact absurd (hk ▸ List.mem_map.mpr ⟨b, hb, rfl⟩) hnd.1
    · rcases List.mem_cons.mp hb with rfl | hb
      · exact absurd (hk ▸ List.mem_map.mpr ⟨a, ha, rfl⟩ : b.1 ∈ xs.map Prod.fst) hnd.1
      · exact ih hnd.2 a b ha hb hk

/-- looking a key up in a map does not depend on the iteration order -/
theorem inv_find_perm {β : Type} (l₁ l₂ : List (Bytes × β)) (hp : l₁.Perm l₂) (hnd : (l₂.map Prod.fst).Nodup)
    (k : Bytes) : l₁.find? (fun kv => kv.1 == k) = l₂.find? (fun kv => kv.1 == k) := by
  cases h2 : l₂.find? (fun kv => kv.1 == k) with
  | none =>
    rw [List.find?_eq_none] at h2 ⊢
    intro x hx
    exact h2 x (hp.subset hx)
  | some a =>
    have ha := List.mem_of_find?_eq_some h2
    have hak : (a.1 == k) = true := List.find?_some h2
    cases h1 : l₁.find? (fun kv => kv.1 == k) with
    | none =>
      rw [List.find?_eq_none] at h1
      exact absurd hak (h1 a (hp.symm.subset ha))
    | some b =>
      have hb := List.mem_of_find?_eq_some h1
      have hbk : (b.1 == k) = true := List.find?_some h1
      have : b = a := inv_eq_of_mem_of_key_eq l₂ hnd b a (hp.subset hb) ha
        (by rw [eq_of_beq hbk, eq_of_beq hak])
      rw [this]

theorem inv_joined_cons (kv : Bytes × List Bytes) (hs : Headers) (k : Bytes) :
    joined (kv :: hs) k = if (kv.1 == canonicalKey k) = true then joinComma kv.2 else joined hs k := by
  unfold joined values
  rw [List.find?_cons]
  cases h : kv.1 == canonicalKey k
  · simp only [Bool.false_eq_true, if_false]
  · simp only [if_true]

theorem inv_joined_perm (hs₁ hs₂ : Headers) (hp : hs₁.Perm hs₂) (hnd : (hs₂.map Prod.fst).Nodup) (k : Bytes) :
    joined hs₁ k = joined hs₂ k := by
  unfold joined values
  rw [inv_find_perm hs₁ hs₂ hp hnd]

/-- `joinedHeaderValue` of the re-read field list -/
theorem inv_joined_map_normField (k : Bytes) : ∀ (hs : Headers),
    (∀ kv ∈ hs, canonicalKey (lowerAscii kv.1) = kv.1) → joined (hs.map normField) k = joined hs k := by
  intro hs
  induction hs with
  | nil => intro _; rfl
  | cons kv rest ih =>
    intro h
    rw [List.map_cons, inv_joined_cons, inv_joined_cons, ih (fun x hx => h x (List.mem_cons_of_mem _ hx))]
    have h1 : (normField kv).1 = kv.1 := h kv (by simp)
    have h2 : joinComma (normField kv).2 = joinComma kv.2 := rfl
    rw [h1, h2]

theorem inv_keys_map_normField : ∀ (hs : Headers), (∀ kv ∈ hs, canonicalKey (lowerAscii kv.1) = kv.1) →
    (hs.map normField).map Prod.fst = hs.map Prod.fst := by
  intro hs h
  rw [List.map_map]
  apply List.map_congr_left
  intro kv hkv
  exact h kv hkv

theorem inv_canon_nodup (hs : Headers) (hc : CanonHeaders hs) : (hs.map Prod.fst).Nodup := by
  have h := hc.distinct
  have : (hs.map fun kv => lowerAscii kv.1) = (hs.map Prod.fst).map lowerAscii := by rw [List.map_map]; rfl
  rw [this] at h
  exact nodup_of_map _ _ h

/-- (3) every header lookup of the verifier gives the same joined value before and after the round trip -/
theorem inv_joined_readBack (hs hs' : Headers) (hc : CanonHeaders hs) (hp : hs'.Perm (hs.map normField)) (k : Bytes) :
    joined hs' k = joined hs k := by
  have hfix : ∀ kv ∈ hs, canonicalKey (lowerAscii kv.1) = kv.1 :=
    fun kv hkv => inv_canon_fix kv.1 (hc.canon kv hkv) (hc.lowerIfInvalid kv hkv)
  rw [inv_joined_perm hs' _ hp (by rw [inv_keys_map_normField hs hfix]; exact inv_canon_nodup hs hc)]
  exact inv_joined_map_normField k hs hfix

/-! ### the signed header block -/

/-- (2) `encodeHeaders` of the re-read field list: same lower-cased names, same joined values -/
theorem inv_headerEntries_normField (hs : Headers) : headerEntries (hs.map normField) = headerEntries hs := by
  unfold headerEntries
  rw [List.map_map]
  apply List.map_congr_left
  intro kv _
  obtain ⟨n, vs⟩ := kv
  simp only [Function.comp, normField]
  rw [lowerAscii_canonicalKey, lowerAscii_idem]
  rfl

theorem inv_headerEntries_perm (hs hs' : Headers) (hp : hs'.Perm (hs.map normField)) :
    (headerEntries hs').Perm (headerEntries hs) := by
  rw [← inv_headerEntries_normField hs]
  unfold headerEntries
  exact hp.map _

theorem inv_encodeResponseMap (e e' : Exchange) (hrb : ReadBack e e') : encodeResponseMap e' = encodeResponseMap e := by
  unfold encodeResponseMap
  rw [hrb.status]
  exact C11.encodeMap_perm _ _ (List.Perm.cons _ (inv_headerEntries_perm _ _ hrb.resp))

theorem inv_encodeRequestMap (e e' : Exchange) (hrb : ReadBack e e') (hv : e.version ≠ .b3) :
    encodeRequestMap e' = encodeRequestMap e := by
  have hm := hrb.method
  have hr := hrb.req
  rw [if_neg hv] at hm hr
  unfold encodeRequestMap
  rw [hm, hrb.version, hrb.uri]
  exact C11.encodeMap_perm _ _ (List.Perm.append_left _ (inv_headerEntries_perm _ _ hr))

theorem inv_encodeExchangeHeaders (e e' : Exchange) (hrb : ReadBack e e') :
    encodeExchangeHeaders e' = encodeExchangeHeaders e := by
  unfold encodeExchangeHeaders
  rw [hrb.version]
  by_cases hv : e.version = .b3
  · rw [if_pos hv, if_pos hv]
    exact inv_encodeResponseMap e e' hrb
  · rw [if_neg hv, if_neg hv, inv_encodeResponseMap e e' hrb, inv_encodeRequestMap e e' hrb hv]

theorem inv_signedMessage (e e' : Exchange) (hrb : ReadBack e e') (c : Option Bytes) (v : Bytes) (d x : Int) :
    signedMessage e' c v d x = signedMessage e c v d x := by
  unfold signedMessage
  rw [inv_encodeExchangeHeaders e e' hrb, hrb.version, hrb.uri]

/-! ### the policy checks -/

theorem inv_isUncached_normKey (n : Bytes) : isUncachedHeader (canonicalKey (lowerAscii n)) = isUncachedHeader n := by
  unfold isUncachedHeader
  rw [lowerAscii_canonicalKey, lowerAscii_idem]

theorem inv_isStateful_normKey (n : Bytes) :
    isStatefulRequestHeader (canonicalKey (lowerAscii n)) = isStatefulRequestHeader n := by
  unfold isStatefulRequestHeader
  rw [lowerAscii_canonicalKey, lowerAscii_idem]

theorem inv_any_readBack (P : Bytes → Bool) (hP : ∀ n, P (canonicalKey (lowerAscii n)) = P n) (hs hs' : Headers)
    (hp : hs'.Perm (hs.map normField)) : hs'.any (fun kv => P kv.1) = hs.any (fun kv => P kv.1) := by
  rw [hp.any_eq, List.any_map]
  congr 1
  funext kv
  exact hP kv.1

/-- (4) `verifyHeaders` -/
theorem inv_headersOk (e e' : Exchange) (hrb : ReadBack e e')
    (hb3 : e.version = .b3 → e.reqHeaders.any (fun kv => isStatefulRequestHeader kv.1) = false) :
    headersOk e' = headersOk e := by
  unfold headersOk
  rw [inv_any_readBack isUncachedHeader inv_isUncached_normKey _ _ hrb.resp]
  congr 2
  have hr := hrb.req
  by_cases hv : e.version = .b3
  · rw [if_pos hv] at hr
    rw [hr, hb3 hv]; rfl
  · rw [if_neg hv] at hr
    exact inv_any_readBack isStatefulRequestHeader inv_isStateful_normKey _ _ hr

theorem inv_isCacheable (env : Env) (e e' : Exchange) (hc : CanonHeaders e.respHeaders) (hrb : ReadBack e e') :
    isCacheable env e' = isCacheable env e := by
  unfold isCacheable
  rw [hrb.status, inv_joined_readBack _ _ hc hrb.resp, inv_joined_readBack _ _ hc hrb.resp]

theorem inv_verifyPayload (env : Env) (e e' : Exchange) (hc : CanonHeaders e.respHeaders) (hrb : ReadBack e e')
    (s : Signature) : verifyPayload env e' s = verifyPayload env e s := by
  unfold verifyPayload
  rw [hrb.version, hrb.payload, inv_joined_readBack _ _ hc hrb.resp]

/-- everything `Acceptable` reads from the exchange -/
structure SameView (env : Env) (e e' : Exchange) : Prop where
  version : e'.version = e.version
  uri : e'.uri = e.uri
  method : e.version ≠ .b3 → e'.method = e.method
  msg : ∀ c v d x, signedMessage e' c v d x = signedMessage e c v d x
  payload : ∀ s, verifyPayload env e' s = verifyPayload env e s
  contentType : joined e'.respHeaders hContentType = joined e.respHeaders hContentType
  cacheable : isCacheable env e' = isCacheable env e
  headers : headersOk e' = headersOk e

theorem inv_acceptable_of_sameView (env : Env) (e e' : Exchange) (t : GoTime.T) (s : Signature) (p : Bytes)
    (hv : SameView env e e') (h : Acceptable env e t s p) : Acceptable env e' t s p := by
  refine ⟨?_, ?_, h.time, ?_, ?_, ?_, ?_, ?_⟩
  · rw [hv.uri]; exact h.origin
  · obtain ⟨cb, main, rest, h1, h2, h3, h4, msg, h5, h6⟩ := h.chain
    exact ⟨cb, main, rest, h1, h2, h3, h4, msg, by rw [hv.msg]; exact h5, h6⟩
  · rw [hv.payload]; exact h.payload
  · rw [hv.version, hv.contentType]; exact h.contentType
  · rw [hv.version]
    intro hb
    have hne : e.version ≠ .b3 := by
      rcases hb with hb | hb <;> rw [hb] <;> decide
    rw [hv.method hne]
    exact h.method hb
  · rw [hv.version, hv.cacheable]; exact h.cacheable
  · rw [hv.headers]; exact h.headers

theorem SameView.symm {env : Env} {e e' : Exchange} (h : SameView env e e') : SameView env e' e :=
  ⟨h.version.symm, h.uri.symm, fun hne => (h.method (by rw [← h.version]; exact hne)).symm,
   fun c v d x => (h.msg c v d x).symm, fun s => (h.payload s).symm, h.contentType.symm, h.cacheable.symm,
   h.headers.symm⟩

theorem inv_verify_of_sameView (env : Env) (e e' : Exchange) (t : GoTime.T) (hv : SameView env e e')
    (hsig : e'.sigHeader = e.sigHeader) : verify env e' t = verify env e t := by
  have hone : verifyOne env e' t = verifyOne env e t := by
    funext pi
    apply Option.ext
    intro p
    rw [verifyOne_iff, verifyOne_iff]
    constructor
    · rintro ⟨s, hs, ha⟩
      exact ⟨s, hs, inv_acceptable_of_sameView env e' e t s p hv.symm ha⟩
    · rintro ⟨s, hs, ha⟩
      exact ⟨s, hs, inv_acceptable_of_sameView env e e' t s p hv ha⟩
  unfold verify
  rw [hsig, hone]

theorem inv_sameView_readBack (env : Env) (e e' : Exchange) (hc1 : CanonHeaders e.respHeaders)
    (hb3 : e.version = .b3 → e.reqHeaders.any (fun kv => isStatefulRequestHeader kv.1) = false)
    (hrb : ReadBack e e') : SameView env e e' := by
  refine ⟨hrb.version, hrb.uri, ?_, inv_signedMessage e e' hrb, inv_verifyPayload env e e' hc1 hrb,
    inv_joined_readBack _ _ hc1 hrb.resp _, inv_isCacheable env e e' hc1 hrb, inv_headersOk e e' hrb hb3⟩
  intro hne
  have hm := hrb.method
  rw [if_neg hne] at hm
  exact hm

/-- **(A)** `Exchange.Verify` gives the same verdict (same decoded payload, or the same refusal) on an exchange
    and on what `ReadExchange` returns for the file `Exchange.Write` produced from it.

    Weaker than asked for in two places: nothing is assumed about the request header map, and for b3 (whose
    file has no request part) it suffices that the in-memory request headers contain no stateful name — the
    method is irrelevant because `Verify` looks at it for b1/b2 only. -/
theorem verify_readBack (env : Env) (e e' : Exchange) (t : GoTime.T)
    (hc1 : CanonHeaders e.respHeaders)
    (hb3 : e.version = .b3 → e.reqHeaders.any (fun kv => isStatefulRequestHeader kv.1) = false)
    (hrb : ReadBack e e') : verify env e' t = verify env e t :=
  inv_verify_of_sameView env e e' t (inv_sameView_readBack env e e' hc1 hb3 hrb) hrb.sig

/-- (A) with the hypotheses exactly as first stated (request map canonical too; b3: no request headers, GET) -/
theorem verify_readBack_asStated (env : Env) (e e' : Exchange) (t : GoTime.T)
    (hc1 : CanonHeaders e.respHeaders) (_hc2 : CanonHeaders e.reqHeaders)
    (hb3 : e.version = .b3 → e.reqHeaders = [] ∧ e.method = [71, 69, 84])
    (hrb : ReadBack e e') : verify env e' t = verify env e t :=
  verify_readBack env e e' t hc1 (fun hv => by rw [(hb3 hv).1]; rfl) hrb

/-- (A) composed with `read_write`: verifying the file's exchange = verifying the in-memory exchange -/
theorem verify_read_write (env : Env) (e : Exchange) (out : Bytes) (t : GoTime.T) (hd : Dom env.url e)
    (hw : write e = .ok out) (hc1 : CanonHeaders e.respHeaders)
    (hb3 : e.version = .b3 → e.reqHeaders.any (fun kv => isStatefulRequestHeader kv.1) = false) :
    ∃ e', read env.url out = .ok e' ∧ verify env e' t = verify env e t := by
  obtain ⟨e', hr, h1, h2, h3, h4, h5, h6, h7, h8⟩ := read_write env.url e out hd hw
  exact ⟨e', hr, verify_readBack env e e' t hc1 hb3 ⟨h1, h2, h3, h4, h5, h6, h7, h8⟩⟩

end WebPkg.Sxg
