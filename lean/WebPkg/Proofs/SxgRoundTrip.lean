import WebPkg.Model.Sxg
import WebPkg.Proofs.SH
import WebPkg.Properties.C11
import WebPkg.Properties.C12
/-
  Write → read round trip for the application/signed-exchange file format model (Model/Sxg.lean):
  `read url out` recovers the exchange from `write e = .ok out` (theorem `read_write`).

  Contents
    atoi_formatInt            strconv.Atoi ∘ strconv.FormatInt = id on int64
    lowerAscii_canonicalKey   CanonicalMIMEHeaderKey only changes letter case
    foldl_addkv               Header.Add on fresh canonical names appends
    encodeMap_raw             layout of a successful EncodeMap over byte-string keys/values
    respLoop, reqLoop         the reader's entry loops over the writer's entries
    read_of_write             the prologue (magic, lengths, fallback URL, signature, header block, payload)
    read_write                the round trip
-/
namespace WebPkg.Sxg
open WebPkg.Cbor WebPkg.Http

/-! ### bytes -/

theorem toLower_toLower_fin : ∀ n : Fin 256,
    toLowerByte (toLowerByte (UInt8.ofNat n.val)) = toLowerByte (UInt8.ofNat n.val) := by
  decide +kernel

theorem toLower_toUpper_fin : ∀ n : Fin 256,
    toLowerByte (toUpperByte (UInt8.ofNat n.val)) = toLowerByte (UInt8.ofNat n.val) := by
  decide +kernel

theorem toLower_lt128_fin : ∀ n : Fin 256,
    UInt8.ofNat n.val < 128 → toLowerByte (UInt8.ofNat n.val) < 128 := by
  decide +kernel

theorem u8_ofNat_toNat (c : UInt8) : UInt8.ofNat c.toNat = c := by simp

theorem toLower_toLower (c : UInt8) : toLowerByte (toLowerByte c) = toLowerByte c := by
  have := toLower_toLower_fin ⟨c.toNat, c.toNat_lt⟩
  simpa using this

theorem toLower_toUpper (c : UInt8) : toLowerByte (toUpperByte c) = toLowerByte c := by
  have := toLower_toUpper_fin ⟨c.toNat, c.toNat_lt⟩
  simpa using this

theorem toLower_lt128 (c : UInt8) (h : c < 128) : toLowerByte c < 128 := by
  have := toLower_lt128_fin ⟨c.toNat, c.toNat_lt⟩
  simp only [u8_ofNat_toNat] at this
  exact this h

theorem lowerAscii_idem (s : Bytes) : lowerAscii (lowerAscii s) = lowerAscii s := by
  induction s with
  | nil => rfl
  | cons c rest ih =>
    simp only [lowerAscii, List.map_cons, List.map_map] at ih ⊢
    rw [toLower_toLower, ih]

theorem isAscii_lowerAscii (s : Bytes) (h : isAscii s = true) : isAscii (lowerAscii s) = true := by
  induction s with
  | nil => rfl
  | cons c rest ih =>
    simp only [isAscii, lowerAscii, List.map_cons, List.all_cons, Bool.and_eq_true] at ih h ⊢
    exact ⟨by simpa using toLower_lt128 c (by simpa using h.1), ih h.2⟩

theorem lowerAscii_titleCase (s : Bytes) : ∀ b : Bool, lowerAscii (titleCase b s) = lowerAscii s := by
  induction s with
  | nil => intro b; rfl
  | cons c rest ih =>
    intro b
    have ih' := ih (c == 45)
    simp only [lowerAscii, titleCase, List.map_cons] at ih' ⊢
    rw [ih']
    cases b
    · simp only [Bool.false_eq_true, if_false, toLower_toLower]
    · simp only [if_true, toLower_toUpper]

/-- `CanonicalMIMEHeaderKey` only changes letter case -/
theorem lowerAscii_canonicalKey (s : Bytes) : lowerAscii (canonicalKey s) = lowerAscii s := by
  unfold canonicalKey
  by_cases h : s.all validHeaderFieldByte = true
  · rw [if_pos h, lowerAscii_titleCase]
  · rw [if_neg h]

/-- hence it is injective on lower-case names -/
theorem canonicalKey_inj_lower {a b : Bytes} (ha : lowerAscii a = a) (hb : lowerAscii b = b)
    (h : canonicalKey a = canonicalKey b) : a = b := by
  have := congrArg lowerAscii h
  rwa [lowerAscii_canonicalKey, lowerAscii_canonicalKey, ha, hb] at this

/-! ### strconv.Atoi ∘ strconv.FormatInt -/

theorem atoi_formatInt (z : Int) (h1 : -(2:Int)^63 ≤ z) (h2 : z < (2:Int)^63) :
    atoi (SH.formatInt z) = some z := by
  unfold SH.formatInt
  by_cases hz : z < 0
  · simp only [hz, if_true]
    obtain ⟨hv, hall, c, ds, he, _⟩ := SH.natDigits_spec 20 (-z).toNat (by omega) (by decide)
    have hne : (SH.natDigits 20 (-z).toNat).isEmpty = false := by rw [he]; rfl
    have : (-z).toNat ≤ 2 ^ 63 := by omega
    simp only [atoi, beq_self_eq_true, Bool.true_or, if_true, hne, hall, hv, Bool.not_true, Bool.or_self,
      Bool.false_eq_true, if_false, this]
    congr 1; omega
  · simp only [hz, if_false]
    obtain ⟨hv, hall, c, ds, he, hc⟩ := SH.natDigits_spec 20 z.toNat (by omega) (by decide)
    have hc45 : (c == 45) = false := by
      cases h : c == 45 with
      | false => rfl
      | true => have : c = 45 := by simpa using h
                subst this; revert hc; decide
    have hc43 : (c == 43) = false := by
      cases h : c == 43 with
      | false => rfl
      | true => have : c = 43 := by simpa using h
                subst this; revert hc; decide
    rw [he] at hv hall
    rw [he]
    have : z.toNat < 2 ^ 63 := by omega
    simp only [atoi, hc45, hc43, Bool.or_self, Bool.false_eq_true, if_false, List.isEmpty_cons, hall, Bool.not_true,
      hv, this, if_true]
    congr 1; omega

/-! ### Header.Add on fresh names -/

/-- `Header.Add` of a (name, value) pair -/
def addkv (h : Headers) (kv : Bytes × Bytes) : Headers := add h kv.1 kv.2

theorem add_fresh (h : Headers) (k v : Bytes) (hk : canonicalKey k ∉ h.map Prod.fst) :
    add h k v = h ++ [(canonicalKey k, [v])] := by
  unfold add
  have : h.any (fun x => x.1 == canonicalKey k) = false := by
    cases hh : h.any (fun x => x.1 == canonicalKey k) with
    | false => rfl
    | true =>
      exfalso
      obtain ⟨x, hx, hxe⟩ := List.any_eq_true.mp hh
      exact hk (List.mem_map.mpr ⟨x, hx, by simpa using hxe⟩)
  simp only [this, Bool.false_eq_true, if_false]

theorem foldl_addkv : ∀ (l : List (Bytes × Bytes)) (h : Headers),
    (h.map Prod.fst ++ l.map (fun kv => canonicalKey kv.1)).Nodup →
    l.foldl addkv h = h ++ l.map (fun kv => (canonicalKey kv.1, [kv.2])) := by
  intro l
  induction l with
  | nil => intro h _; simp
  | cons kv rest ih =>
    intro h hnd
    have hfresh : canonicalKey kv.1 ∉ h.map Prod.fst := by
      intro hm
      have := (List.nodup_append.mp hnd).2.2 _ hm (canonicalKey kv.1) (by simp)
      exact this rfl
    rw [List.foldl_cons, addkv, add_fresh h kv.1 kv.2 hfresh, ih]
    · simp
    · have : ((h ++ [(canonicalKey kv.1, [kv.2])]).map Prod.fst ++ rest.map (fun kv => canonicalKey kv.1)) =
          h.map Prod.fst ++ (kv :: rest).map (fun kv => canonicalKey kv.1) := by simp
      rw [this]; exact hnd

/-! ### EncodeMap over byte-string keys and values -/

/-- a (key, value) pair of byte strings as an `EncodeMap` entry -/
def encE (kv : Bytes × Bytes) : Entry := (encodeBytes kv.1, encodeBytes kv.2)

/-- the emitted entries -/
def flat (rs : List (Bytes × Bytes)) : Bytes := (rs.map fun kv => encodeBytes kv.1 ++ encodeBytes kv.2).flatten

/-- how `encodeHeaders` turns a header field into a (key, value) pair -/
def hraw (kv : Bytes × List Bytes) : Bytes × Bytes := (lowerAscii kv.1, joinComma kv.2)

theorem headerEntries_eq_rt (hs : Headers) : headerEntries hs = (hs.map hraw).map encE := by
  simp only [headerEntries, List.map_map]
  apply List.map_congr_left
  intro ⟨n, vs⟩ _
  rfl

theorem perm_map_exists {α β : Type} (f : α → β) : ∀ (l : List β) (raw : List α), l.Perm (raw.map f) →
    ∃ raw' : List α, raw'.Perm raw ∧ l = raw'.map f := by
  intro l
  induction l with
  | nil =>
    intro raw hp
    have := hp.length_eq
    cases raw with
    | nil => exact ⟨[], List.Perm.refl _, rfl⟩
    | cons a r => simp at this
  | cons x l' ih =>
    intro raw hp
    have hx : x ∈ raw.map f := hp.subset (by simp)
    obtain ⟨a, ha, rfl⟩ := List.mem_map.mp hx
    obtain ⟨s, t, rfl⟩ := List.append_of_mem ha
    have hp2 : (f a :: l').Perm (f a :: (s ++ t).map f) := by
      refine hp.trans ?_
      have := (List.perm_middle (a := a) (l₁ := s) (l₂ := t)).map f
      simp only [List.map_append, List.map_cons] at this ⊢
      exact this
    obtain ⟨r', hr', rfl⟩ := ih (s ++ t) hp2.cons_inv
    exact ⟨a :: r', (List.Perm.cons a hr').trans List.perm_middle.symm, rfl⟩

theorem nodup_of_map {α β : Type} (f : α → β) (l : List α) (h : (l.map f).Nodup) : l.Nodup := by
  unfold List.Nodup at h ⊢
  rw [List.pairwise_map] at h
  exact h.imp (fun hab e => hab (congrArg f e))

theorem length_le_flatten {α : Type} (x : List α) : ∀ (L : List (List α)), x ∈ L → x.length ≤ L.flatten.length := by
  intro L
  induction L with
  | nil => intro h; simp at h
  | cons y L ih =>
    intro h
    simp only [List.flatten_cons, List.length_append]
    rcases List.mem_cons.mp h with rfl | h
    · omega
    · have := ih h; omega

theorem length_le_flat : ∀ (rs : List (Bytes × Bytes)), rs.length ≤ (flat rs).length := by
  intro rs
  induction rs with
  | nil => simp
  | cons kv rest ih =>
    have : 0 < (encodeBytes kv.1).length := by
      unfold encodeBytes
      simp only [List.length_append]
      have h2 : 0 < (encodeHead 2 kv.1.length).length := by
        rw [encodeHead_length]; repeat' split
        all_goals omega
      omega
    simp only [flat, List.map_cons, List.flatten_cons, List.length_append, List.length_cons] at ih ⊢
    omega

theorem mem_flat_bound (rs : List (Bytes × Bytes)) (kv : Bytes × Bytes) (h : kv ∈ rs) :
    kv.1.length ≤ (flat rs).length ∧ kv.2.length ≤ (flat rs).length := by
  have := length_le_flatten (encodeBytes kv.1 ++ encodeBytes kv.2)
    (rs.map fun kv => encodeBytes kv.1 ++ encodeBytes kv.2) (List.mem_map.mpr ⟨kv, h, rfl⟩)
  have h1 : kv.1.length ≤ (encodeBytes kv.1).length := by simp only [encodeBytes, List.length_append]; omega
  have h2 : kv.2.length ≤ (encodeBytes kv.2).length := by simp only [encodeBytes, List.length_append]; omega
  rw [List.length_append] at this
  simp only [flat]
  omega

/-- a successful `EncodeMap` over byte-string entries: distinct keys, and the output is the map head
    followed by a permutation of the entries -/
theorem encodeMap_raw (raw : List (Bytes × Bytes)) (out : Bytes) (h : encodeMap (raw.map encE) = .ok out) :
    ∃ rs, rs.Perm raw ∧ (raw.map Prod.fst).Nodup ∧ out = encodeHead 5 raw.length ++ flat rs := by
  obtain ⟨sorted, hp, _, ho⟩ := C11.encodeMap_layout _ _ h
  obtain ⟨rs, hrs, rfl⟩ := perm_map_exists encE sorted raw hp
  refine ⟨rs, hrs, ?_, ?_⟩
  · have hnd : ((raw.map encE).map Prod.fst).Nodup := by
      apply Classical.byContradiction
      intro hn
      rw [(C11.encodeMap_dup_iff _).mpr hn] at h
      cases h
    rw [List.map_map] at hnd
    have : (raw.map (Prod.fst ∘ encE)) = (raw.map Prod.fst).map encodeBytes := by
      rw [List.map_map]; rfl
    rw [this] at hnd
    exact nodup_of_map _ _ hnd
  · rw [ho, List.length_map, List.map_map]; rfl

/-! ### the reader's entry loops -/

/-- what the reader needs of one emitted (key, value) pair -/
structure EntryOk (kv : Bytes × Bytes) : Prop where
  l1 : kv.1.length < 2 ^ 63
  l2 : kv.2.length < 2 ^ 63
  ascii : isAscii kv.1 = true
  lower : lowerAscii kv.1 = kv.1

theorem flat_cons (kv : Bytes × Bytes) (rest : List (Bytes × Bytes)) (tail : Bytes) :
    flat (kv :: rest) ++ tail = encodeBytes kv.1 ++ (encodeBytes kv.2 ++ (flat rest ++ tail)) := by
  simp [flat]

/-- one round of `decodeResponseMap` as a pure function -/
def stepResp (st0 : Int) (acc : Int × Headers) (kv : Bytes × Bytes) : Int × Headers :=
  if kv.1 = keyStatus then (st0, acc.2) else (acc.1, add acc.2 kv.1 kv.2)

/-- the response-map loop consumes exactly the emitted entries -/
theorem respLoop (st0 : Int) : ∀ (rs : List (Bytes × Bytes)) (tail : Bytes) (acc : Int × Headers),
    (∀ kv ∈ rs, EntryOk kv ∧ (kv.1 = keyStatus → atoi kv.2 = some st0)) →
    decodeRespEntries rs.length (flat rs ++ tail) acc = .ok (rs.foldl (stepResp st0) acc, tail) := by
  intro rs
  induction rs with
  | nil => intro tail acc _; simp [flat, decodeRespEntries]
  | cons kv rest ih =>
    intro tail acc h
    obtain ⟨hok, hst⟩ := h kv (by simp)
    have hrest : ∀ kv ∈ rest, EntryOk kv ∧ (kv.1 = keyStatus → atoi kv.2 = some st0) :=
      fun kv' hkv' => h kv' (List.mem_cons_of_mem _ hkv')
    rw [flat_cons, List.length_cons, decodeRespEntries, C12.roundtrip_bytes _ hok.l1]
    simp only [hok.ascii, Bool.not_true, Bool.false_eq_true, if_false, hok.lower, ne_eq, not_true_eq_false]
    rw [C12.roundtrip_bytes _ hok.l2]
    simp only [List.foldl_cons]
    by_cases hk : kv.1 = keyStatus
    · simp only [hk, if_true, hst hk, stepResp]
      exact ih tail _ hrest
    · simp only [hk, if_false, stepResp]
      exact ih tail _ hrest

/-- one round of `decodeRequestMap` as a pure function -/
def stepReq (acc : ReqAcc) (kv : Bytes × Bytes) : ReqAcc :=
  if kv.1 = keyMethod then { acc with method := kv.2 }
  else if kv.1 = keyURL then { acc with uri := kv.2 }
  else { acc with headers := add acc.headers kv.1 kv.2 }

/-- the request-map loop consumes exactly the emitted entries -/
theorem reqLoop (url : UrlFacts) (v : Ver) : ∀ (rs : List (Bytes × Bytes)) (tail : Bytes) (acc : ReqAcc),
    (∀ kv ∈ rs, EntryOk kv ∧ (kv.1 = keyURL → v = .b1 ∧ validFallback url kv.2 = true)) →
    decodeReqEntries url v rs.length (flat rs ++ tail) acc = .ok (rs.foldl stepReq acc, tail) := by
  intro rs
  induction rs with
  | nil => intro tail acc _; simp [flat, decodeReqEntries]
  | cons kv rest ih =>
    intro tail acc h
    obtain ⟨hok, hu⟩ := h kv (by simp)
    have hrest : ∀ kv ∈ rest, EntryOk kv ∧ (kv.1 = keyURL → v = .b1 ∧ validFallback url kv.2 = true) :=
      fun kv' hkv' => h kv' (List.mem_cons_of_mem _ hkv')
    rw [flat_cons, List.length_cons, decodeReqEntries, C12.roundtrip_bytes _ hok.l1]
    simp only [hok.ascii, Bool.not_true, Bool.false_eq_true, if_false, hok.lower, ne_eq, not_true_eq_false]
    rw [C12.roundtrip_bytes _ hok.l2]
    simp only [List.foldl_cons]
    by_cases hm : kv.1 = keyMethod
    · simp only [hm, if_true, stepReq]
      exact ih tail _ hrest
    · by_cases hk : kv.1 = keyURL
      · obtain ⟨hv, hvf⟩ := hu hk
        have hne : keyURL ≠ keyMethod := by decide
        simp only [hk, hne, if_false, if_true, stepReq, hvf]
        rw [if_pos hv]
        exact ih tail _ hrest
      · simp only [hm, hk, if_false, stepReq]
        exact ih tail _ hrest

/-! ### the file prologue -/

/-- the exchange `read` builds from the decoded header block -/
def finish (v : Ver) (sig payload : Bytes) (r : Res (Bytes × Bytes × Headers × Int × Headers)) : Res Exchange :=
  match r with
  | .ok (m, u, rq, st, rh) =>
    .ok { version := v, uri := u, method := m, reqHeaders := rq, status := st, respHeaders := rh,
          sigHeader := sig, payload := payload }
  | .err => .err
  | .ood => .ood

theorem magic_length (v : Ver) : (Ver.magic v).length = 8 := by cases v <;> rfl

theorem ofMagic_magic (v : Ver) : Ver.ofMagic (Ver.magic v) = some v := by cases v <;> decide

theorem take_app {α : Type} (a b : List α) (n : Nat) (h : a.length = n) : (a ++ b).take n = a := List.take_left' h
theorem drop_app {α : Type} (a b : List α) (n : Nat) (h : a.length = n) : (a ++ b).drop n = b := List.drop_left' h

theorem read_layout_b1 (url : UrlFacts) (sig hdr payload : Bytes) (hs : sig.length < 2 ^ 24) (hh : hdr.length < 2 ^ 24) :
    read url (Ver.magic .b1 ++ (beBytes 3 sig.length ++ (beBytes 3 hdr.length ++ (sig ++ (hdr ++ payload))))) =
      finish .b1 sig payload (decodeExchangeHeaders url .b1 [] hdr) := by
  have e6 : beBytes 3 sig.length ++ (beBytes 3 hdr.length ++ (sig ++ (hdr ++ payload))) =
      (beBytes 3 sig.length ++ beBytes 3 hdr.length) ++ (sig ++ (hdr ++ payload)) := by simp
  simp only [read]
  rw [take_app _ _ 8 (magic_length _), drop_app _ _ 8 (magic_length _), ofMagic_magic]
  simp only [if_true]
  rw [e6, drop_app _ _ 6 (by simp), ← e6, take_app _ _ 3 (by simp), drop_app _ _ 3 (by simp), take_app _ _ 3 (by simp)]
  rw [beVal_beBytes_of_lt (by omega : sig.length < 256 ^ 3), beVal_beBytes_of_lt (by omega : hdr.length < 256 ^ 3)]
  rw [take_app _ _ _ rfl, drop_app _ _ _ rfl, take_app _ _ _ rfl, drop_app _ _ _ rfl]
  have l1 : ¬ ((Ver.magic .b1 ++ (beBytes 3 sig.length ++ (beBytes 3 hdr.length ++ (sig ++ (hdr ++ payload))))).length < 8) := by
    simp only [List.length_append, magic_length]; omega
  have l2 : ¬ ((beBytes 3 sig.length ++ (beBytes 3 hdr.length ++ (sig ++ (hdr ++ payload)))).length < 6) := by
    simp only [List.length_append, beBytes_length]; omega
  have l3 : ¬ ((sig ++ (hdr ++ payload)).length < sig.length) := by
    simp only [List.length_append]; omega
  have l4 : ¬ ((hdr ++ payload).length < hdr.length) := by
    simp only [List.length_append]; omega
  simp only [l1, l2, l3, l4, if_false]
  unfold finish
  cases decodeExchangeHeaders url .b1 [] hdr with
  | err => rfl
  | ood => rfl
  | ok r => obtain ⟨m, u, rq, st, rh⟩ := r; rfl

theorem read_layout_b23 (url : UrlFacts) (v : Ver) (hv : v ≠ .b1) (uri sig hdr payload : Bytes)
    (hu : uri.length < 2 ^ 16) (hvf : validFallback url uri = true)
    (hs : sig.length < 2 ^ 24) (hh : hdr.length < 2 ^ 24) :
    read url (Ver.magic v ++ (beBytes 2 uri.length ++ (uri ++
        (beBytes 3 sig.length ++ (beBytes 3 hdr.length ++ (sig ++ (hdr ++ payload))))))) =
      finish v sig payload (decodeExchangeHeaders url v uri hdr) := by
  have e6 : beBytes 3 sig.length ++ (beBytes 3 hdr.length ++ (sig ++ (hdr ++ payload))) =
      (beBytes 3 sig.length ++ beBytes 3 hdr.length) ++ (sig ++ (hdr ++ payload)) := by simp
  simp only [read]
  rw [take_app _ _ 8 (magic_length _), drop_app _ _ 8 (magic_length _), ofMagic_magic]
  simp only [hv, if_false]
  rw [take_app _ _ 2 (by simp), drop_app _ _ 2 (by simp), beVal_beBytes_of_lt (by omega : uri.length < 256 ^ 2)]
  rw [take_app _ _ _ rfl, drop_app _ _ _ rfl]
  have l0 : ¬ ((Ver.magic v ++ (beBytes 2 uri.length ++ (uri ++
        (beBytes 3 sig.length ++ (beBytes 3 hdr.length ++ (sig ++ (hdr ++ payload))))))).length < 8) := by
    simp only [List.length_append, magic_length]; omega
  have l0a : ¬ ((beBytes 2 uri.length ++ (uri ++
        (beBytes 3 sig.length ++ (beBytes 3 hdr.length ++ (sig ++ (hdr ++ payload)))))).length < 2) := by
    simp only [List.length_append, beBytes_length]; omega
  have l0b : ¬ ((uri ++ (beBytes 3 sig.length ++ (beBytes 3 hdr.length ++ (sig ++ (hdr ++ payload))))).length
      < uri.length) := by
    simp only [List.length_append]; omega
  simp only [l0, l0a, l0b, hvf, if_false, if_true]
  rw [e6, drop_app _ _ 6 (by simp), ← e6, take_app _ _ 3 (by simp), drop_app _ _ 3 (by simp), take_app _ _ 3 (by simp)]
  rw [beVal_beBytes_of_lt (by omega : sig.length < 256 ^ 3), beVal_beBytes_of_lt (by omega : hdr.length < 256 ^ 3)]
  rw [take_app _ _ _ rfl, drop_app _ _ _ rfl, take_app _ _ _ rfl, drop_app _ _ _ rfl]
  have l2 : ¬ ((beBytes 3 sig.length ++ (beBytes 3 hdr.length ++ (sig ++ (hdr ++ payload)))).length < 6) := by
    simp only [List.length_append, beBytes_length]; omega
  have l3 : ¬ ((sig ++ (hdr ++ payload)).length < sig.length) := by
    simp only [List.length_append]; omega
  have l4 : ¬ ((hdr ++ payload).length < hdr.length) := by
    simp only [List.length_append]; omega
  simp only [l2, l3, l4, if_false]
  unfold finish
  cases decodeExchangeHeaders url v uri hdr with
  | err => rfl
  | ood => rfl
  | ok r => obtain ⟨m, u, rq, st, rh⟩ := r; rfl

theorem encodeBytesUint3 {n : Nat} {bs : Bytes} (h : BigEndian.encodeBytesUint (n : Int) 3 = some bs) :
    bs = beBytes 3 n ∧ n < 2 ^ 24 := by
  unfold BigEndian.encodeBytesUint at h
  by_cases h1 : (n : Int) < 0
  · omega
  · rw [if_neg h1] at h
    by_cases h2 : 3 < 7 ∧ (2 : Int) ^ (3 * 8) ≤ (n : Int)
    · rw [if_pos h2] at h; cases h
    · rw [if_neg h2] at h
      simp only [Int.toNat_natCast, Option.some.injEq] at h
      refine ⟨h.symm, ?_⟩
      have : ¬ ((2 : Int) ^ (3 * 8) ≤ (n : Int)) := fun hh => h2 ⟨by decide, hh⟩
      omega

theorem encodeBytesUint2 {n : Nat} {bs : Bytes} (h : BigEndian.encodeBytesUint (n : Int) 2 = some bs) :
    bs = beBytes 2 n ∧ n < 2 ^ 16 := by
  unfold BigEndian.encodeBytesUint at h
  by_cases h1 : (n : Int) < 0
  · omega
  · rw [if_neg h1] at h
    by_cases h2 : 2 < 7 ∧ (2 : Int) ^ (2 * 8) ≤ (n : Int)
    · rw [if_pos h2] at h; cases h
    · rw [if_neg h2] at h
      simp only [Int.toNat_natCast, Option.some.injEq] at h
      refine ⟨h.symm, ?_⟩
      have : ¬ ((2 : Int) ^ (2 * 8) ≤ (n : Int)) := fun hh => h2 ⟨by decide, hh⟩
      omega

/-- the prologue: on the writer's output the reader gets to the header block the writer emitted, with the
    writer's fallback URL, signature and payload -/
theorem read_of_write (url : UrlFacts) (e : Exchange) (out : Bytes) (hw : write e = .ok out)
    (hf : e.version ≠ .b1 → validFallback url e.uri = true) :
    ∃ hdr, encodeExchangeHeaders e = .ok hdr ∧ hdr.length < 2 ^ 24 ∧
      read url out = finish e.version e.sigHeader e.payload
        (decodeExchangeHeaders url e.version (if e.version = .b1 then [] else e.uri) hdr) := by
  unfold write at hw
  cases hh : encodeExchangeHeaders e with
  | error err => simp only [hh] at hw; cases hw
  | ok hdr =>
    simp only [hh] at hw
    refine ⟨hdr, rfl, ?_⟩
    cases hv : e.version with
    | b1 =>
      simp only [hv] at hw
      cases h1 : BigEndian.encodeBytesUint (e.sigHeader.length : Int) 3 with
      | none => simp only [h1] at hw; cases hw
      | some sl =>
        cases h2 : BigEndian.encodeBytesUint (hdr.length : Int) 3 with
        | none => simp only [h1, h2] at hw; cases hw
        | some hl =>
          simp only [h1, h2, Except.ok.injEq] at hw
          obtain ⟨rfl, b1⟩ := encodeBytesUint3 h1
          obtain ⟨rfl, b2⟩ := encodeBytesUint3 h2
          refine ⟨b2, ?_⟩
          rw [← hw]
          simp only [List.append_assoc, if_true]
          exact read_layout_b1 url _ _ _ b1 b2
    | b2 =>
      have hvf := hf (by rw [hv]; decide)
      simp only [hv] at hw
      cases h0 : BigEndian.encodeBytesUint (e.uri.length : Int) 2 with
      | none => simp only [h0] at hw; cases hw
      | some ul =>
        simp only [h0] at hw
        by_cases g1 : e.sigHeader.length > 16384
        · rw [if_pos g1] at hw; cases hw
        · rw [if_neg g1] at hw
          cases h1 : BigEndian.encodeBytesUint (e.sigHeader.length : Int) 3 with
          | none => simp only [h1] at hw; cases hw
          | some sl =>
            simp only [h1] at hw
            by_cases g2 : hdr.length > 524288
            · rw [if_pos g2] at hw; cases hw
            · rw [if_neg g2] at hw
              cases h2 : BigEndian.encodeBytesUint (hdr.length : Int) 3 with
              | none => simp only [h2] at hw; cases hw
              | some hl =>
                simp only [h2, Except.ok.injEq] at hw
                obtain ⟨rfl, b0⟩ := encodeBytesUint2 h0
                obtain ⟨rfl, b1⟩ := encodeBytesUint3 h1
                obtain ⟨rfl, b2⟩ := encodeBytesUint3 h2
                refine ⟨b2, ?_⟩
                rw [← hw]
                simp only [List.append_assoc, if_false, reduceCtorEq]
                exact read_layout_b23 url _ (by decide) _ _ _ _ b0 hvf b1 b2
    | b3 =>
      have hvf := hf (by rw [hv]; decide)
      simp only [hv] at hw
      cases h0 : BigEndian.encodeBytesUint (e.uri.length : Int) 2 with
      | none => simp only [h0] at hw; cases hw
      | some ul =>
        simp only [h0] at hw
        by_cases g1 : e.sigHeader.length > 16384
        · rw [if_pos g1] at hw; cases hw
        · rw [if_neg g1] at hw
          cases h1 : BigEndian.encodeBytesUint (e.sigHeader.length : Int) 3 with
          | none => simp only [h1] at hw; cases hw
          | some sl =>
            simp only [h1] at hw
            by_cases g2 : hdr.length > 524288
            · rw [if_pos g2] at hw; cases hw
            · rw [if_neg g2] at hw
              cases h2 : BigEndian.encodeBytesUint (hdr.length : Int) 3 with
              | none => simp only [h2] at hw; cases hw
              | some hl =>
                simp only [h2, Except.ok.injEq] at hw
                obtain ⟨rfl, b0⟩ := encodeBytesUint2 h0
                obtain ⟨rfl, b1⟩ := encodeBytesUint3 h1
                obtain ⟨rfl, b2⟩ := encodeBytesUint3 h2
                refine ⟨b2, ?_⟩
                rw [← hw]
                simp only [List.append_assoc, if_false, reduceCtorEq]
                exact read_layout_b23 url _ (by decide) _ _ _ _ b0 hvf b1 b2

/-! ### what the folds compute -/

theorem resp_fold_snd (st0 : Int) : ∀ (rs : List (Bytes × Bytes)) (acc : Int × Headers),
    (rs.foldl (stepResp st0) acc).2 = (rs.filter (fun kv => kv.1 != keyStatus)).foldl addkv acc.2 := by
  intro rs
  induction rs with
  | nil => intro acc; rfl
  | cons kv rest ih =>
    intro acc
    rw [List.foldl_cons, ih]
    by_cases hk : kv.1 = keyStatus
    · rw [List.filter_cons_of_neg (p := fun kv : Bytes × Bytes => kv.1 != keyStatus) (by simp [hk])]
      simp only [stepResp, hk, if_true]
    · rw [List.filter_cons_of_pos (p := fun kv : Bytes × Bytes => kv.1 != keyStatus) (by simp [hk])]
      simp only [stepResp, hk, if_false, List.foldl_cons, addkv]

theorem resp_fold_fst (st0 : Int) : ∀ (rs : List (Bytes × Bytes)) (acc : Int × Headers),
    (acc.1 = st0 ∨ keyStatus ∈ rs.map Prod.fst) → (rs.foldl (stepResp st0) acc).1 = st0 := by
  intro rs
  induction rs with
  | nil => intro acc h; rcases h with h | h
           · exact h
           · simp at h
  | cons kv rest ih =>
    intro acc h
    rw [List.foldl_cons]
    apply ih
    by_cases hk : kv.1 = keyStatus
    · left; simp only [stepResp, hk, if_true]
    · rcases h with h | h
      · left; simp only [stepResp, hk, if_false]; exact h
      · right
        simp only [List.map_cons, List.mem_cons] at h
        rcases h with h | h
        · exact absurd h.symm hk
        · exact h

theorem keyURL_ne_keyMethod : keyURL ≠ keyMethod := by decide

theorem req_fold_headers : ∀ (rs : List (Bytes × Bytes)) (acc : ReqAcc),
    (rs.foldl stepReq acc).headers =
      (rs.filter (fun kv => kv.1 != keyMethod && kv.1 != keyURL)).foldl addkv acc.headers := by
  intro rs
  induction rs with
  | nil => intro acc; rfl
  | cons kv rest ih =>
    intro acc
    rw [List.foldl_cons, ih]
    by_cases hm : kv.1 = keyMethod
    · rw [List.filter_cons_of_neg (by simp [hm])]
      simp only [stepReq, hm, if_true]
    · by_cases hk : kv.1 = keyURL
      · rw [List.filter_cons_of_neg (by simp [hk])]
        simp only [stepReq, hk, keyURL_ne_keyMethod, if_true, if_false]
      · rw [List.filter_cons_of_pos (by simp [hm, hk])]
        simp only [stepReq, hm, hk, if_false, List.foldl_cons, addkv]

theorem req_fold_method (m0 : Bytes) : ∀ (rs : List (Bytes × Bytes)) (acc : ReqAcc),
    (∀ kv ∈ rs, kv.1 = keyMethod → kv.2 = m0) →
    (acc.method = m0 ∨ keyMethod ∈ rs.map Prod.fst) → (rs.foldl stepReq acc).method = m0 := by
  intro rs
  induction rs with
  | nil => intro acc _ h; rcases h with h | h
           · exact h
           · simp at h
  | cons kv rest ih =>
    intro acc hv h
    rw [List.foldl_cons]
    apply ih _ (fun kv' hkv' => hv kv' (List.mem_cons_of_mem _ hkv'))
    by_cases hm : kv.1 = keyMethod
    · left; simp only [stepReq, hm, if_true]; exact hv kv (by simp) hm
    · rcases h with h | h
      · left
        by_cases hk : kv.1 = keyURL
        · simp only [stepReq, hk, keyURL_ne_keyMethod, if_true, if_false]; exact h
        · simp only [stepReq, hm, hk, if_false]; exact h
      · right
        simp only [List.map_cons, List.mem_cons] at h
        rcases h with h | h
        · exact absurd h.symm hm
        · exact h

theorem req_fold_uri (u0 : Bytes) : ∀ (rs : List (Bytes × Bytes)) (acc : ReqAcc),
    (∀ kv ∈ rs, kv.1 = keyURL → kv.2 = u0) →
    (acc.uri = u0 ∨ keyURL ∈ rs.map Prod.fst) → (rs.foldl stepReq acc).uri = u0 := by
  intro rs
  induction rs with
  | nil => intro acc _ h; rcases h with h | h
           · exact h
           · simp at h
  | cons kv rest ih =>
    intro acc hv h
    rw [List.foldl_cons]
    apply ih _ (fun kv' hkv' => hv kv' (List.mem_cons_of_mem _ hkv'))
    by_cases hm : kv.1 = keyMethod
    · rcases h with h | h
      · left; simp only [stepReq, hm, if_true]; exact h
      · right
        simp only [List.map_cons, List.mem_cons] at h
        rcases h with h | h
        · rw [hm] at h; exact absurd h (by decide)
        · exact h
    · by_cases hk : kv.1 = keyURL
      · left; simp only [stepReq, hk, keyURL_ne_keyMethod, if_true, if_false]; exact hv kv (by simp) hk
      · rcases h with h | h
        · left; simp only [stepReq, hm, hk, if_false]; exact h
        · right
          simp only [List.map_cons, List.mem_cons] at h
          rcases h with h | h
          · exact absurd h.symm hk
          · exact h

/-- how a header field comes back: canonical MIME name of the lower-cased name, one comma-joined value -/
def normField (kv : Bytes × List Bytes) : Bytes × List Bytes := (canonicalKey (lowerAscii kv.1), [joinComma kv.2])

/-- the header list the reader accumulates from the non-pseudo entries -/
theorem final_headers (p : Bytes × Bytes → Bool) (rs raw : List (Bytes × Bytes)) (hs : Headers)
    (hp : rs.Perm raw) (hnd : (raw.map Prod.fst).Nodup) (hlow : ∀ kv ∈ raw, lowerAscii kv.1 = kv.1)
    (hf : raw.filter p = hs.map hraw) :
    ((rs.filter p).foldl addkv []).Perm (hs.map normField) := by
  have hnd1 : ((rs.filter p).map Prod.fst).Nodup := by
    have h1 : (rs.map Prod.fst).Nodup := ((hp.map Prod.fst).nodup_iff).mpr hnd
    exact List.Nodup.sublist (List.filter_sublist.map Prod.fst) h1
  have hnd2 : ((rs.filter p).map (fun kv => canonicalKey kv.1)).Nodup := by
    unfold List.Nodup at hnd1 ⊢
    rw [List.pairwise_map] at hnd1 ⊢
    refine List.Pairwise.imp_of_mem ?_ hnd1
    intro a b ha hb hab hc
    have ha' := hlow a (hp.subset (List.mem_filter.mp ha).1)
    have hb' := hlow b (hp.subset (List.mem_filter.mp hb).1)
    exact hab (canonicalKey_inj_lower ha' hb' hc)
  rw [foldl_addkv _ [] (by simpa using hnd2), List.nil_append]
  have := ((hp.filter p).map (fun kv : Bytes × Bytes => (canonicalKey kv.1, [kv.2])))
  rw [hf, List.map_map] at this
  exact this

/-! ### the two maps -/

theorem hraw_ok (x : Bytes × List Bytes) (h : isAscii x.1 = true) :
    isAscii (hraw x).1 = true ∧ lowerAscii (hraw x).1 = (hraw x).1 :=
  ⟨isAscii_lowerAscii _ h, lowerAscii_idem _⟩

theorem normField_eq (hs : Headers) :
    (hs.map hraw).map (fun kv : Bytes × Bytes => (canonicalKey kv.1, [kv.2])) = hs.map normField := by
  rw [List.map_map]; rfl

/-- the reader's response-map pass over the writer's response map (followed by anything) -/
theorem resp_decode (e : Exchange) (out : Bytes)
    (hst : -(2:Int)^63 ≤ e.status ∧ e.status < (2:Int)^63)
    (hascii : ∀ kv ∈ e.respHeaders, isAscii kv.1 = true)
    (h : encodeResponseMap e = .ok out) (hlen : out.length < 2 ^ 63) (tail : Bytes) :
    ∃ n bs rh, decodeMapHeader (out ++ tail) = some (n, bs) ∧
      decodeRespEntries n bs (0, []) = .ok ((e.status, rh), tail) ∧
      rh.Perm (e.respHeaders.map normField) := by
  let raw : List (Bytes × Bytes) := (keyStatus, SH.formatInt e.status) :: e.respHeaders.map hraw
  have hraw_def : raw = (keyStatus, SH.formatInt e.status) :: e.respHeaders.map hraw := rfl
  have he : encodeResponseMap e = encodeMap (raw.map encE) := by
    unfold encodeResponseMap
    rw [headerEntries_eq_rt]; rfl
  rw [he] at h
  obtain ⟨rs, hp, hnd, rfl⟩ := encodeMap_raw raw out h
  have hlen2 : (flat rs).length < 2 ^ 63 := by
    simp only [List.length_append] at hlen; omega
  have hn : raw.length = rs.length := hp.length_eq.symm
  have hn64 : rs.length < 2 ^ 64 := by have := length_le_flat rs; omega
  have hnd' := hnd
  rw [hraw_def, List.map_cons, List.nodup_cons] at hnd'
  have hcond : ∀ kv ∈ rs, EntryOk kv ∧ (kv.1 = keyStatus → atoi kv.2 = some e.status) := by
    intro kv hkv
    have hb := mem_flat_bound rs kv hkv
    have hkr : kv ∈ raw := hp.subset hkv
    refine ⟨?_, ?_⟩
    · have : isAscii kv.1 = true ∧ lowerAscii kv.1 = kv.1 := by
        rw [hraw_def] at hkr
        rcases List.mem_cons.mp hkr with rfl | hm
        · exact ⟨(by decide : isAscii keyStatus = true), (by decide : lowerAscii keyStatus = keyStatus)⟩
        · obtain ⟨x, hx, rfl⟩ := List.mem_map.mp hm
          exact hraw_ok x (hascii x hx)
      exact ⟨by omega, by omega, this.1, this.2⟩
    · intro hk
      have := eq_of_mem_of_key_eq raw hnd kv (keyStatus, SH.formatInt e.status) hkr (by rw [hraw_def]; simp) hk
      rw [this]
      exact atoi_formatInt _ hst.1 hst.2
  have hloop := respLoop e.status rs tail (0, []) hcond
  have hfst := resp_fold_fst e.status rs (0, []) (Or.inr ((hp.map Prod.fst).symm.subset (by rw [hraw_def]; simp)))
  have hsnd := resp_fold_snd e.status rs (0, [])
  have hfilter : raw.filter (fun kv => kv.1 != keyStatus) = e.respHeaders.map hraw := by
    rw [hraw_def, List.filter_cons_of_neg (by simp)]
    rw [List.filter_eq_self]
    intro kv hkv
    have : kv.1 ≠ keyStatus := fun hk => hnd'.1 (hk ▸ List.mem_map.mpr ⟨kv, hkv, rfl⟩)
    simpa using this
  have hlow : ∀ kv ∈ raw, lowerAscii kv.1 = kv.1 := by
    intro kv hkr
    rw [hraw_def] at hkr
    rcases List.mem_cons.mp hkr with rfl | hm
    · exact (by decide : lowerAscii keyStatus = keyStatus)
    · obtain ⟨x, hx, rfl⟩ := List.mem_map.mp hm
      exact lowerAscii_idem _
  have hperm := final_headers (fun kv => kv.1 != keyStatus) rs raw e.respHeaders hp hnd hlow hfilter
  refine ⟨rs.length, flat rs ++ tail, (rs.filter (fun kv => kv.1 != keyStatus)).foldl addkv [], ?_, ?_, hperm⟩
  · rw [hn, List.append_assoc]
    exact C12.roundtrip_mapHeader _ hn64 _
  · rw [hloop]
    congr 2
    exact Prod.ext hfst hsnd

/-- the reader's request-map pass over the writer's request map (b1, b2; followed by anything) -/
theorem req_decode (url : UrlFacts) (e : Exchange) (out : Bytes) (hv3 : e.version ≠ .b3)
    (hvf : validFallback url e.uri = true)
    (hascii : ∀ kv ∈ e.reqHeaders, isAscii kv.1 = true)
    (hno : e.version = .b2 → ∀ kv ∈ e.reqHeaders, lowerAscii kv.1 ≠ keyURL)
    (h : encodeRequestMap e = .ok out) (hlen : out.length < 2 ^ 63) (tail : Bytes) :
    ∃ n bs rq, decodeMapHeader (out ++ tail) = some (n, bs) ∧
      decodeReqEntries url e.version n bs
        { method := [], uri := (if e.version = .b1 then [] else e.uri), headers := [] } = .ok (rq, tail) ∧
      rq.method = e.method ∧ rq.uri = e.uri ∧ rq.headers.Perm (e.reqHeaders.map normField) := by
  let ux : List (Bytes × Bytes) := if e.version = .b1 then [(keyURL, e.uri)] else []
  let raw : List (Bytes × Bytes) := (keyMethod, e.method) :: (ux ++ e.reqHeaders.map hraw)
  have hux_def : ux = if e.version = .b1 then [(keyURL, e.uri)] else [] := rfl
  have hraw_def : raw = (keyMethod, e.method) :: (ux ++ e.reqHeaders.map hraw) := rfl
  have he : encodeRequestMap e = encodeMap (raw.map encE) := by
    unfold encodeRequestMap
    rw [headerEntries_eq_rt, hraw_def, hux_def]
    by_cases hb1 : e.version = .b1
    · simp only [hb1, if_true]; rfl
    · simp only [hb1, if_false]; rfl
  rw [he] at h
  obtain ⟨rs, hp, hnd, rfl⟩ := encodeMap_raw raw out h
  have hlen2 : (flat rs).length < 2 ^ 63 := by
    simp only [List.length_append] at hlen; omega
  have hn : raw.length = rs.length := hp.length_eq.symm
  have hn64 : rs.length < 2 ^ 64 := by have := length_le_flat rs; omega
  have hnd' := hnd
  rw [hraw_def, List.map_cons, List.nodup_cons, List.map_append] at hnd'
  have hmeth_in : (keyMethod, e.method) ∈ raw := by rw [hraw_def]; simp
  have hurl_in : e.version = .b1 → (keyURL, e.uri) ∈ raw := by
    intro hb1; rw [hraw_def, hux_def]; simp [hb1]
  have hmem : ∀ kv ∈ raw, kv = (keyMethod, e.method) ∨ (e.version = .b1 ∧ kv = (keyURL, e.uri)) ∨
      ∃ x ∈ e.reqHeaders, kv = hraw x := by
    intro kv hkv
    rw [hraw_def] at hkv
    rcases List.mem_cons.mp hkv with rfl | hkv
    · exact Or.inl rfl
    · rcases List.mem_append.mp hkv with hkv | hkv
      · rw [hux_def] at hkv
        by_cases hb1 : e.version = .b1
        · rw [if_pos hb1] at hkv
          exact Or.inr (Or.inl ⟨hb1, by simpa using hkv⟩)
        · rw [if_neg hb1] at hkv; simp at hkv
      · obtain ⟨x, hx, rfl⟩ := List.mem_map.mp hkv
        exact Or.inr (Or.inr ⟨x, hx, rfl⟩)
  have hurlkey : ∀ kv ∈ raw, kv.1 = keyURL → e.version = .b1 ∧ kv.2 = e.uri := by
    intro kv hkv hk
    rcases hmem kv hkv with rfl | ⟨hb1, rfl⟩ | ⟨x, hx, rfl⟩
    · exact absurd hk.symm keyURL_ne_keyMethod
    · exact ⟨hb1, rfl⟩
    · by_cases hb1 : e.version = .b1
      · have := eq_of_mem_of_key_eq raw hnd _ _ hkv (hurl_in hb1) hk
        rw [this]; exact ⟨hb1, rfl⟩
      · have hb2 : e.version = .b2 := by
          cases hvv : e.version with
          | b1 => exact absurd hvv hb1
          | b2 => rfl
          | b3 => exact absurd hvv hv3
        exact absurd hk (hno hb2 x hx)
  have hlow : ∀ kv ∈ raw, isAscii kv.1 = true ∧ lowerAscii kv.1 = kv.1 := by
    intro kv hkv
    rcases hmem kv hkv with rfl | ⟨hb1, rfl⟩ | ⟨x, hx, rfl⟩
    · exact ⟨(by decide : isAscii keyMethod = true), (by decide : lowerAscii keyMethod = keyMethod)⟩
    · exact ⟨(by decide : isAscii keyURL = true), (by decide : lowerAscii keyURL = keyURL)⟩
    · exact hraw_ok x (hascii x hx)
  have hcond : ∀ kv ∈ rs, EntryOk kv ∧ (kv.1 = keyURL → e.version = .b1 ∧ validFallback url kv.2 = true) := by
    intro kv hkv
    have hb := mem_flat_bound rs kv hkv
    have hkr : kv ∈ raw := hp.subset hkv
    refine ⟨⟨by omega, by omega, (hlow kv hkr).1, (hlow kv hkr).2⟩, ?_⟩
    intro hk
    obtain ⟨hb1, h2⟩ := hurlkey kv hkr hk
    exact ⟨hb1, by rw [h2]; exact hvf⟩
  have hloop := reqLoop url e.version rs tail
    { method := [], uri := (if e.version = .b1 then [] else e.uri), headers := [] } hcond
  have hmethod := req_fold_method e.method rs
    { method := [], uri := (if e.version = .b1 then [] else e.uri), headers := [] }
    (fun kv hkv hk => by
      have := eq_of_mem_of_key_eq raw hnd kv _ (hp.subset hkv) hmeth_in hk
      rw [this])
    (Or.inr ((hp.map Prod.fst).symm.subset (List.mem_map.mpr ⟨_, hmeth_in, rfl⟩)))
  have huri := req_fold_uri e.uri rs
    { method := [], uri := (if e.version = .b1 then [] else e.uri), headers := [] }
    (fun kv hkv hk => (hurlkey kv (hp.subset hkv) hk).2)
    (by
      by_cases hb1 : e.version = .b1
      · exact Or.inr ((hp.map Prod.fst).symm.subset (List.mem_map.mpr ⟨_, hurl_in hb1, rfl⟩))
      · left; simp only [hb1, if_false])
  have hhdr := req_fold_headers rs
    { method := [], uri := (if e.version = .b1 then [] else e.uri), headers := [] }
  have hfilter : raw.filter (fun kv => kv.1 != keyMethod && kv.1 != keyURL) = e.reqHeaders.map hraw := by
    rw [hraw_def, List.filter_cons_of_neg (by simp), List.filter_append]
    have h1 : ux.filter (fun kv => kv.1 != keyMethod && kv.1 != keyURL) = [] := by
      rw [hux_def]
      by_cases hb1 : e.version = .b1
      · rw [if_pos hb1, List.filter_cons_of_neg (by simp)]; rfl
      · rw [if_neg hb1]; rfl
    rw [h1, List.nil_append, List.filter_eq_self]
    intro kv hkv
    have hk1 : kv.1 ≠ keyMethod := fun hk =>
      hnd'.1 (hk ▸ List.mem_append_right _ (List.mem_map.mpr ⟨kv, hkv, rfl⟩))
    have hk2 : kv.1 ≠ keyURL := by
      intro hk
      have hkr : kv ∈ raw := by rw [hraw_def]; exact List.mem_cons_of_mem _ (List.mem_append_right _ hkv)
      obtain ⟨hb1, _⟩ := hurlkey kv hkr hk
      have hnd2 := hnd'.2
      rw [hux_def, if_pos hb1, List.map_cons, List.map_nil, List.singleton_append, List.nodup_cons] at hnd2
      exact hnd2.1 (hk ▸ List.mem_map.mpr ⟨kv, hkv, rfl⟩)
    simp [hk1, hk2]
  have hperm := final_headers (fun kv => kv.1 != keyMethod && kv.1 != keyURL) rs raw e.reqHeaders hp hnd
    (fun kv hkv => (hlow kv hkv).2) hfilter
  refine ⟨rs.length, flat rs ++ tail, _, ?_, hloop, hmethod, huri, ?_⟩
  · rw [hn, List.append_assoc]
    exact C12.roundtrip_mapHeader _ hn64 _
  · rw [hhdr]; exact hperm

/-! ### the round trip -/

/-- the domain on which the writer's output is readable -/
structure Dom (url : UrlFacts) (e : Exchange) : Prop where
  /-- absolute https URL (the reader enforces it) -/
  fallback : validFallback url e.uri = true
  /-- Go `int` -/
  status : -(2:Int)^63 ≤ e.status ∧ e.status < (2:Int)^63
  asciiReq : ∀ kv ∈ e.reqHeaders, isAscii kv.1 = true
  asciiResp : ∀ kv ∈ e.respHeaders, isAscii kv.1 = true
  /-- b2 readers reject a ":url" request key -/
  noUrlKey : e.version = .b2 → ∀ kv ∈ e.reqHeaders, lowerAscii kv.1 ≠ keyURL

theorem decode_b3 (url : UrlFacts) (e : Exchange) (hdr uri0 : Bytes) (hd : Dom url e) (hv : e.version = .b3)
    (hh : encodeExchangeHeaders e = .ok hdr) (hlen : hdr.length < 2 ^ 24) :
    ∃ rh, decodeExchangeHeaders url .b3 uri0 hdr = .ok ([71, 69, 84], uri0, [], e.status, rh) ∧
      rh.Perm (e.respHeaders.map normField) := by
  unfold encodeExchangeHeaders at hh
  rw [if_pos hv] at hh
  obtain ⟨n, bs, rh, h1, h2, h3⟩ := resp_decode e hdr hd.status hd.asciiResp hh (by omega) []
  rw [List.append_nil] at h1
  refine ⟨rh, ?_, h3⟩
  unfold decodeExchangeHeaders
  simp only [if_true, h1, h2, bind, Res.bind, pure]

theorem decode_b12 (url : UrlFacts) (e : Exchange) (hdr : Bytes) (hd : Dom url e) (hv : e.version ≠ .b3)
    (hh : encodeExchangeHeaders e = .ok hdr) (hlen : hdr.length < 2 ^ 24) :
    ∃ rqh rh, decodeExchangeHeaders url e.version (if e.version = .b1 then [] else e.uri) hdr =
        .ok (e.method, e.uri, rqh, e.status, rh) ∧
      rqh.Perm (e.reqHeaders.map normField) ∧ rh.Perm (e.respHeaders.map normField) := by
  unfold encodeExchangeHeaders at hh
  rw [if_neg hv] at hh
  cases hq : encodeRequestMap e with
  | error err => simp only [hq, bind, Except.bind] at hh; cases hh
  | ok rq =>
    cases hs : encodeResponseMap e with
    | error err => simp only [hq, hs, bind, Except.bind] at hh; cases hh
    | ok rs =>
      simp only [hq, hs, bind, Except.bind, pure, Except.pure, Except.ok.injEq] at hh
      subst hh
      simp only [List.length_append] at hlen
      obtain ⟨n, bs, rqa, h1, h2, hm, hu, hp1⟩ :=
        req_decode url e rq hv hd.fallback hd.asciiReq hd.noUrlKey hq (by omega) rs
      obtain ⟨m, bs', rh, h3, h4, hp2⟩ := resp_decode e rs hd.status hd.asciiResp hs (by omega) []
      rw [List.append_nil] at h3
      refine ⟨rqa.headers, rh, ?_, hp1, hp2⟩
      unfold decodeExchangeHeaders
      rw [if_neg hv, List.append_assoc, C12.roundtrip_arrayHeader 2 (by decide)]
      simp only [ne_eq, not_true_eq_false, if_false, h1, h2, h3, h4, bind, Res.bind, pure, hm, hu]

theorem read_write (url : UrlFacts) (e : Exchange) (out : Bytes) (hd : Dom url e) (hw : write e = .ok out) :
    ∃ e', read url out = .ok e' ∧ e'.version = e.version ∧ e'.uri = e.uri ∧
      e'.method = (if e.version = .b3 then [71, 69, 84] else e.method) ∧ e'.status = e.status ∧
      e'.sigHeader = e.sigHeader ∧ e'.payload = e.payload ∧
      e'.respHeaders.Perm (e.respHeaders.map normField) ∧
      (if e.version = .b3 then e'.reqHeaders = [] else e'.reqHeaders.Perm (e.reqHeaders.map normField)) := by
  obtain ⟨hdr, hh, hlen, hr⟩ := read_of_write url e out hw (fun _ => hd.fallback)
  by_cases hv : e.version = .b3
  · obtain ⟨rh, h1, h2⟩ := decode_b3 url e hdr e.uri hd hv hh hlen
    rw [hv] at hr
    simp only [reduceCtorEq, if_false] at hr
    rw [h1] at hr
    refine ⟨_, hr, ?_⟩
    simp only [hv, if_true]
    exact ⟨trivial, trivial, trivial, trivial, trivial, trivial, h2, trivial⟩
  · obtain ⟨rqh, rh, h1, h2, h3⟩ := decode_b12 url e hdr hd hv hh hlen
    rw [h1] at hr
    refine ⟨_, hr, ?_⟩
    simp only [hv, if_false]
    exact ⟨trivial, trivial, trivial, trivial, trivial, trivial, h3, h2⟩

end WebPkg.Sxg
