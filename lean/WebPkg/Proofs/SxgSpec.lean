import WebPkg.Spec.Sxg
import WebPkg.Proofs.SH
import WebPkg.Proofs.Deterministic
import WebPkg.Properties.C11
/-
  The serializers of go/signedexchange (model: Model/Sxg.lean) produce exactly what
  draft-yasskin-http-origin-signed-responses prescribes (spec: Spec/Sxg.lean):
  1  encodeMap_isCanonical            EncodeMap output is the canonical CBOR map of its entries
  2  encodeExchangeHeaders_spec       the signed-headers block
  3  encodeExchangeHeaders_fails_iff  ... fails exactly on duplicate (encoded) names
  4  signedMessage_b23_spec / signedMessage_b23_isSome_iff
  5  signedMessage_b1_spec
  6  write_spec / write_fails_iff     application/signed-exchange file layout
  7  signatureHeaderValue_spec / signatureHeaderValue_fails_iff
-/
namespace WebPkg.Sxg
open WebPkg.Spec.Sxg WebPkg.Cbor WebPkg.Http

/-! ### 1. canonical maps -/

theorem encodeMap_isCanonical (es : List Entry) (out : Bytes) (h : encodeMap es = .ok out) :
    IsCanonicalMap out es := by
  obtain ⟨sorted, hp, hs, ho⟩ := C11.encodeMap_layout es out h
  exact ⟨sorted, hp, List.Pairwise.imp (fun hab => Det.lexLt_of_blt hab) hs, ho⟩

/-- the only error of `EncodeMap` is `ErrDuplicatedKey` -/
theorem encodeMap_error_iff (es : List Entry) :
    (∃ err, encodeMap es = .error err) ↔ ¬ (es.map Prod.fst).Nodup := by
  constructor
  · rintro ⟨err, h⟩
    apply (C11.encodeMap_dup_iff es).mp
    unfold encodeMap at h ⊢
    cases hd : hasAdjDup (sortEntries es) <;> simp [hd] at h ⊢
  · intro h
    exact ⟨_, (C11.encodeMap_dup_iff es).mpr h⟩

theorem encodeMap_ok_iff (es : List Entry) :
    (∃ out, encodeMap es = .ok out) ↔ (es.map Prod.fst).Nodup := by
  constructor
  · rintro ⟨out, h⟩
    apply Classical.byContradiction
    intro hn
    obtain ⟨err, he⟩ := (encodeMap_error_iff es).mpr hn
    rw [h] at he
    cases he
  · intro h
    cases hm : encodeMap es with
    | ok out => exact ⟨out, rfl⟩
    | error err => exact absurd h ((encodeMap_error_iff es).mp ⟨err, hm⟩)

/-- `IsCanonicalMap` does not depend on the order in which the pairs are listed -/
theorem isCanonicalMap_perm {out : Bytes} {p₁ p₂ : List (Bytes × Bytes)} (hp : p₁.Perm p₂)
    (h : IsCanonicalMap out p₁) : IsCanonicalMap out p₂ := by
  obtain ⟨sorted, h1, h2, h3⟩ := h
  exact ⟨sorted, h1.trans hp, h2, by rw [h3, hp.length_eq]⟩

/-! ### 2. the signed headers block -/

theorem headerEntries_eq (hs : Headers) : headerEntries hs = fieldPairs hs := rfl

theorem responseEntries_eq (e : Exchange) :
    ((encodeBytes keyStatus, encodeBytes (SH.formatInt e.status)) :: headerEntries e.respHeaders : List Entry) =
      responsePairs e := rfl

theorem requestEntries_eq (e : Exchange) :
    ([(encodeBytes keyMethod, encodeBytes e.method)] ++
      (if e.version = .b1 then [(encodeBytes keyURL, encodeBytes e.uri)] else []) ++ headerEntries e.reqHeaders
        : List Entry) = requestPairs e := rfl

theorem encodeResponseMap_eq (e : Exchange) : encodeResponseMap e = encodeMap (responsePairs e) := rfl
theorem encodeRequestMap_eq (e : Exchange) : encodeRequestMap e = encodeMap (requestPairs e) := rfl

theorem encodeExchangeHeaders_eq (e : Exchange) : encodeExchangeHeaders e =
    if e.version = .b3 then encodeMap (responsePairs e)
    else match encodeMap (requestPairs e) with
      | .error err => .error err
      | .ok rq => match encodeMap (responsePairs e) with
        | .error err => .error err
        | .ok rs => .ok (encodeHead 4 2 ++ rq ++ rs) := by
  unfold encodeExchangeHeaders
  rw [encodeResponseMap_eq, encodeRequestMap_eq]
  by_cases hv : e.version = .b3
  · simp only [hv, if_true]
  · simp only [hv, if_false]
    cases encodeMap (requestPairs e) <;> cases encodeMap (responsePairs e) <;> rfl

theorem encodeExchangeHeaders_spec (e : Exchange) (hdr : Bytes) (h : encodeExchangeHeaders e = .ok hdr) :
    IsHeaders e hdr := by
  rw [encodeExchangeHeaders_eq] at h
  unfold IsHeaders
  by_cases hv : e.version = .b3
  · simp only [hv, if_true] at h ⊢
    exact encodeMap_isCanonical _ _ h
  · simp only [hv, if_false] at h ⊢
    cases hrq : encodeMap (requestPairs e) with
    | error err => simp only [hrq] at h; cases h
    | ok rq =>
      cases hrs : encodeMap (responsePairs e) with
      | error err => simp only [hrq, hrs] at h; cases h
      | ok rs =>
        simp only [hrq, hrs] at h
        injection h with h
        exact ⟨rq, rs, encodeMap_isCanonical _ _ hrq, encodeMap_isCanonical _ _ hrs, h.symm⟩

/-! ### 3. when it fails -/

theorem encodeExchangeHeaders_fails_iff (e : Exchange) :
    (∃ err, encodeExchangeHeaders e = .error err) ↔
      ((e.version ≠ .b3 ∧ ¬ ((requestPairs e).map Prod.fst).Nodup) ∨ ¬ ((responsePairs e).map Prod.fst).Nodup) := by
  rw [encodeExchangeHeaders_eq]
  by_cases hv : e.version = .b3
  · simp only [hv, if_true, ne_eq, not_true_eq_false, false_and, false_or]
    exact encodeMap_error_iff _
  · simp only [hv, if_false, ne_eq, not_false_eq_true, true_and]
    rw [← encodeMap_error_iff, ← encodeMap_error_iff]
    cases hrq : encodeMap (requestPairs e) with
    | error err => exact ⟨fun _ => Or.inl ⟨err, rfl⟩, fun _ => ⟨err, rfl⟩⟩
    | ok rq =>
      cases hrs : encodeMap (responsePairs e) with
      | error err => exact ⟨fun _ => Or.inr ⟨err, rfl⟩, fun _ => ⟨err, rfl⟩⟩
      | ok rs =>
        constructor
        · rintro ⟨err, h⟩; cases h
        · rintro (⟨err, h⟩ | ⟨err, h⟩) <;> cases h

theorem encodeExchangeHeaders_ok_iff (e : Exchange) :
    (∃ hdr, encodeExchangeHeaders e = .ok hdr) ↔
      ((e.version ≠ .b3 → ((requestPairs e).map Prod.fst).Nodup) ∧ ((responsePairs e).map Prod.fst).Nodup) := by
  have hf := encodeExchangeHeaders_fails_iff e
  cases hm : encodeExchangeHeaders e with
  | ok hdr =>
    rw [hm] at hf
    constructor
    · intro _
      have : ¬ ((e.version ≠ .b3 ∧ ¬ ((requestPairs e).map Prod.fst).Nodup) ∨ ¬ ((responsePairs e).map Prod.fst).Nodup) := by
        intro hc
        obtain ⟨err, he⟩ := hf.mpr hc
        cases he
      constructor
      · intro hv
        apply Classical.byContradiction
        intro hn
        exact this (Or.inl ⟨hv, hn⟩)
      · apply Classical.byContradiction
        intro hn
        exact this (Or.inr hn)
    · intro _; exact ⟨hdr, rfl⟩
  | error err =>
    rw [hm] at hf
    constructor
    · rintro ⟨hdr, h⟩; cases h
    · rintro ⟨h1, h2⟩
      rcases hf.mp ⟨err, rfl⟩ with ⟨hv, hn⟩ | hn
      · exact absurd (h1 hv) hn
      · exact absurd h2 hn

/-! ### big-endian length fields -/

theorem encU8 (n : Int) : BigEndian.encodeBytesUint n 8 = if n < 0 then none else some (beBytes 8 n.toNat) := by
  unfold BigEndian.encodeBytesUint
  have : ¬ (8 < 7 ∧ (2 : Int) ^ (8 * 8) ≤ n) := fun h => absurd h.1 (by decide)
  simp only [this, if_false]

theorem encU8_nat (n : Nat) : BigEndian.encodeBytesUint (n : Int) 8 = some (beBytes 8 n) := by
  rw [encU8]
  have : ¬ ((n : Int) < 0) := by omega
  simp only [this, if_false, Int.toNat_natCast]

theorem encU3_nat (n : Nat) : BigEndian.encodeBytesUint (n : Int) 3 = if 2 ^ 24 ≤ n then none else some (beBytes 3 n) := by
  unfold BigEndian.encodeBytesUint
  have h0 : ¬ ((n : Int) < 0) := by omega
  simp only [h0, if_false, Int.toNat_natCast]
  by_cases h : 2 ^ 24 ≤ n
  · have : (3 < 7 ∧ (2 : Int) ^ (3 * 8) ≤ (n : Int)) := ⟨by decide, by omega⟩
    rw [if_pos this, if_pos h]
  · have : ¬ (3 < 7 ∧ (2 : Int) ^ (3 * 8) ≤ (n : Int)) := fun hc => h (by omega)
    simp only [this, h, if_false]

theorem encU2_nat (n : Nat) : BigEndian.encodeBytesUint (n : Int) 2 = if 2 ^ 16 ≤ n then none else some (beBytes 2 n) := by
  unfold BigEndian.encodeBytesUint
  have h0 : ¬ ((n : Int) < 0) := by omega
  simp only [h0, if_false, Int.toNat_natCast]
  by_cases h : 2 ^ 16 ≤ n
  · have : (2 < 7 ∧ (2 : Int) ^ (2 * 8) ≤ (n : Int)) := ⟨by decide, by omega⟩
    rw [if_pos this, if_pos h]
  · have : ¬ (2 < 7 ∧ (2 : Int) ^ (2 * 8) ≤ (n : Int)) := fun hc => h (by omega)
    simp only [this, h, if_false]

/-! ### 4. the signed message, b2 / b3 -/

theorem signedMessage_b23_eq (e : Exchange) (hv : e.version ≠ .b1) (certSha validityUrl : Bytes) (date expires : Int)
    (hdr : Bytes) (hh : encodeExchangeHeaders e = .ok hdr) :
    signedMessage e (some certSha) validityUrl date expires =
      if 0 ≤ date ∧ 0 ≤ expires then some (messageB23 e certSha validityUrl date.toNat expires.toNat hdr) else none := by
  unfold signedMessage
  simp only [hh, hv, if_false, encU8_nat]
  simp only [encU8]
  by_cases hd : date < 0
  · have : ¬ (0 ≤ date ∧ 0 ≤ expires) := fun h => by omega
    rw [if_neg this]
    simp only [hd, if_true]
  · simp only [hd, if_false]
    by_cases hx : expires < 0
    · have : ¬ (0 ≤ date ∧ 0 ≤ expires) := fun h => by omega
      rw [if_neg this]
      simp only [hx, if_true]
    · have : (0 ≤ date ∧ 0 ≤ expires) := by omega
      rw [if_pos this]
      simp only [hx, if_false]
      simp only [messageB23, u64, spaces64, List.append_assoc, List.cons_append, List.nil_append]

theorem signedMessage_b23_spec (e : Exchange) (hv : e.version ≠ .b1) (certSha validityUrl : Bytes) (date expires : Int)
    (msg : Bytes) (h : signedMessage e (some certSha) validityUrl date expires = some msg) :
    0 ≤ date ∧ 0 ≤ expires ∧
      ∃ hdr, IsHeaders e hdr ∧ msg = messageB23 e certSha validityUrl date.toNat expires.toNat hdr := by
  cases hh : encodeExchangeHeaders e with
  | error err =>
    unfold signedMessage at h
    simp only [hh] at h
    cases h
  | ok hdr =>
    rw [signedMessage_b23_eq e hv certSha validityUrl date expires hdr hh] at h
    by_cases hc : 0 ≤ date ∧ 0 ≤ expires
    · simp only [hc, and_self, if_true] at h
      injection h with h
      exact ⟨hc.1, hc.2, hdr, encodeExchangeHeaders_spec e hdr hh, h.symm⟩
    · simp only [hc, if_false] at h
      cases h

/-- `serializeSignedMessage` (b2, b3) succeeds exactly for non-negative times and encodable headers -/
theorem signedMessage_b23_isSome_iff (e : Exchange) (hv : e.version ≠ .b1) (certSha validityUrl : Bytes)
    (date expires : Int) :
    (∃ msg, signedMessage e (some certSha) validityUrl date expires = some msg) ↔
      (0 ≤ date ∧ 0 ≤ expires ∧ ∃ hdr, encodeExchangeHeaders e = .ok hdr) := by
  constructor
  · rintro ⟨msg, h⟩
    obtain ⟨h1, h2, _⟩ := signedMessage_b23_spec e hv certSha validityUrl date expires msg h
    refine ⟨h1, h2, ?_⟩
    cases hh : encodeExchangeHeaders e with
    | error err =>
      unfold signedMessage at h
      simp only [hh] at h
      cases h
    | ok hdr => exact ⟨hdr, rfl⟩
  · rintro ⟨h1, h2, hdr, hh⟩
    rw [signedMessage_b23_eq e hv certSha validityUrl date expires hdr hh]
    have : 0 ≤ date ∧ 0 ≤ expires := ⟨h1, h2⟩
    simp only [this, and_self, if_true]
    exact ⟨_, rfl⟩

/-! ### 5. the signed message, b1 -/

theorem signedMessage_b1_spec (e : Exchange) (hv : e.version = .b1) (certSha validityUrl : Bytes) (date expires : Int)
    (msg : Bytes) (h : signedMessage e (some certSha) validityUrl date expires = some msg) :
    ∃ hdr, IsHeaders e hdr ∧ IsMessageB1 e certSha validityUrl date expires hdr msg := by
  unfold signedMessage at h
  cases hh : encodeExchangeHeaders e with
  | error err => simp only [hh] at h; cases h
  | ok hdr =>
    simp only [hh, hv, if_true] at h
    refine ⟨hdr, encodeExchangeHeaders_spec e hdr hh, ?_⟩
    cases hm : encodeMap ([(textKey kCertSha256, encodeBytes certSha)] ++
        [(textKey kValidityUrl, encodeBytes validityUrl), (textKey kDate, encodeInt date),
         (textKey kExpires, encodeInt expires), (textKey kHeaders, hdr)]) with
    | error err => simp only [hm] at h; cases h
    | ok m =>
      simp only [hm] at h
      injection h with h
      refine ⟨m, encodeMap_isCanonical _ _ hm, ?_⟩
      rw [← h, hv]
      simp only [spaces64, List.append_assoc]

/-! ### 6. the file -/

theorem write_eq (e : Exchange) (hdr : Bytes) (hh : encodeExchangeHeaders e = .ok hdr) :
    write e =
      if e.version = .b1 then
        (if 2 ^ 24 ≤ e.sigHeader.length then .error .sigTooLong
         else if 2 ^ 24 ≤ hdr.length then .error .headersTooLong
         else .ok (fileLayout e hdr))
      else
        (if 2 ^ 16 ≤ e.uri.length then .error .urlTooLong
         else if 16384 < e.sigHeader.length then .error .sigTooLong
         else if 524288 < hdr.length then .error .headersTooLong
         else .ok (fileLayout e hdr)) := by
  obtain ⟨ver, uri, method, rqh, st, rh, sig, payload⟩ := e
  unfold write fileLayout
  simp only [hh, encU3_nat, encU2_nat]
  cases ver
  · simp only [if_true]
    by_cases h1 : 2 ^ 24 ≤ sig.length
    · simp only [h1, if_true]
    · simp only [h1, if_false]
      by_cases h2 : 2 ^ 24 ≤ hdr.length
      · simp only [h2, if_true]
      · simp only [h2, if_false]
  all_goals
    simp only [reduceCtorEq, if_false]
    by_cases h1 : 2 ^ 16 ≤ uri.length
    · simp only [h1, if_true]
    · simp only [h1, if_false]
      by_cases h2 : 16384 < sig.length
      · simp only [h2, gt_iff_lt, if_true]
      · have h2' : ¬ 2 ^ 24 ≤ sig.length := by omega
        simp only [h2, h2', gt_iff_lt, if_false]
        by_cases h3 : 524288 < hdr.length
        · simp only [h3, if_true]
        · have h3' : ¬ 2 ^ 24 ≤ hdr.length := by omega
          simp only [h3, h3', if_false, List.append_assoc]

theorem write_spec (e : Exchange) (out : Bytes) (h : write e = .ok out) :
    ∃ hdr, IsHeaders e hdr ∧ out = fileLayout e hdr ∧ e.sigHeader.length < 2 ^ 24 ∧ hdr.length < 2 ^ 24 ∧
      (e.version ≠ .b1 → e.uri.length < 2 ^ 16 ∧ e.sigHeader.length ≤ 16384 ∧ hdr.length ≤ 524288) := by
  cases hh : encodeExchangeHeaders e with
  | error err =>
    unfold write at h
    simp only [hh] at h
    cases h
  | ok hdr =>
    rw [write_eq e hdr hh] at h
    refine ⟨hdr, encodeExchangeHeaders_spec e hdr hh, ?_⟩
    by_cases hv : e.version = .b1
    · simp only [hv, if_true] at h
      by_cases h1 : 2 ^ 24 ≤ e.sigHeader.length
      · simp only [h1, if_true] at h; cases h
      · simp only [h1, if_false] at h
        by_cases h2 : 2 ^ 24 ≤ hdr.length
        · simp only [h2, if_true] at h; cases h
        · simp only [h2, if_false] at h
          injection h with h
          exact ⟨h.symm, by omega, by omega, fun hn => absurd hv hn⟩
    · simp only [hv, if_false] at h
      by_cases h1 : 2 ^ 16 ≤ e.uri.length
      · simp only [h1, if_true] at h; cases h
      · simp only [h1, if_false] at h
        by_cases h2 : 16384 < e.sigHeader.length
        · simp only [h2, if_true] at h; cases h
        · simp only [h2, if_false] at h
          by_cases h3 : 524288 < hdr.length
          · simp only [h3, if_true] at h; cases h
          · simp only [h3, if_false] at h
            injection h with h
            exact ⟨h.symm, by omega, by omega, fun _ => ⟨by omega, by omega, by omega⟩⟩

theorem write_fails_iff (e : Exchange) :
    (∃ err, write e = .error err) ↔
      ((∃ err, encodeExchangeHeaders e = .error err) ∨
        ∃ hdr, encodeExchangeHeaders e = .ok hdr ∧
          (if e.version = .b1 then (2 ^ 24 ≤ e.sigHeader.length ∨ 2 ^ 24 ≤ hdr.length)
           else (2 ^ 16 ≤ e.uri.length ∨ 16384 < e.sigHeader.length ∨ 524288 < hdr.length))) := by
  cases hh : encodeExchangeHeaders e with
  | error err =>
    constructor
    · intro _; exact Or.inl ⟨err, rfl⟩
    · intro _
      unfold write
      simp only [hh]
      exact ⟨_, rfl⟩
  | ok hdr =>
    rw [write_eq e hdr hh]
    constructor
    · rintro ⟨err, h⟩
      refine Or.inr ⟨hdr, rfl, ?_⟩
      by_cases hv : e.version = .b1
      · simp only [hv, if_true] at h ⊢
        by_cases h1 : 2 ^ 24 ≤ e.sigHeader.length
        · exact Or.inl h1
        · by_cases h2 : 2 ^ 24 ≤ hdr.length
          · exact Or.inr h2
          · simp only [h1, h2, if_false] at h; cases h
      · simp only [hv, if_false] at h ⊢
        by_cases h1 : 2 ^ 16 ≤ e.uri.length
        · exact Or.inl h1
        · by_cases h2 : 16384 < e.sigHeader.length
          · exact Or.inr (Or.inl h2)
          · by_cases h3 : 524288 < hdr.length
            · exact Or.inr (Or.inr h3)
            · simp only [h1, h2, h3, if_false] at h; cases h
    · rintro (⟨err, h⟩ | ⟨hdr', h, hc⟩)
      · cases h
      · injection h with h
        subst h
        by_cases hv : e.version = .b1
        · simp only [hv, if_true] at hc ⊢
          by_cases h1 : 2 ^ 24 ≤ e.sigHeader.length
          · simp only [h1, if_true]; exact ⟨_, rfl⟩
          · simp only [h1, if_false]
            have h2 : 2 ^ 24 ≤ hdr.length := by
              rcases hc with hc | hc
              · exact absurd hc h1
              · exact hc
            simp only [h2, if_true]; exact ⟨_, rfl⟩
        · simp only [hv, if_false] at hc ⊢
          by_cases h1 : 2 ^ 16 ≤ e.uri.length
          · simp only [h1, if_true]; exact ⟨_, rfl⟩
          · simp only [h1, if_false]
            by_cases h2 : 16384 < e.sigHeader.length
            · simp only [h2, if_true]; exact ⟨_, rfl⟩
            · simp only [h2, if_false]
              have h3 : 524288 < hdr.length := by
                rcases hc with hc | hc | hc
                · exact absurd hc h1
                · exact absurd hc h2
                · exact hc
              simp only [h3, if_true]; exact ⟨_, rfl⟩

/-! ### 7. the Signature header -/

theorem all_printable_iff (s : Bytes) :
    s.all (fun c => 32 ≤ c && c ≤ 126) = true ↔ ∀ c ∈ s, 32 ≤ c ∧ c ≤ 126 := by
  simp only [List.all_eq_true, Bool.and_eq_true, decide_eq_true_eq]

theorem perm7 {α : Type} (s v i cu cs d x : α) : [cs, cu, d, x, i, s, v].Perm [s, v, i, cu, cs, d, x] := by
  apply List.Perm.symm
  refine (List.perm_middle (l₁ := [s, v, i, cu]) (l₂ := [d, x])).trans (List.Perm.cons _ ?_)
  refine (List.perm_middle (l₁ := [s, v, i]) (l₂ := [d, x])).trans (List.Perm.cons _ ?_)
  refine (List.perm_middle (l₁ := [s, v, i]) (l₂ := [x])).trans (List.Perm.cons _ ?_)
  refine (List.perm_middle (l₁ := [s, v, i]) (l₂ := [])).trans (List.Perm.cons _ ?_)
  exact (List.perm_middle (l₁ := [s, v]) (l₂ := []))

theorem keyLe_pairwise_of_keys (l : SH.Params) (h : (l.map Prod.fst).Pairwise (fun a b => ble a b = true)) :
    l.Pairwise (fun a b => SH.keyLe a b = true) := by
  rw [List.pairwise_map] at h
  exact h

/-- the seven parameters in the order `sort.Strings` puts their keys -/
def sigParamsSorted (v : Ver) (sig validityUrl certUrl certSha : Bytes) (date expires : Int) : SH.Params :=
  [(kCertSha256, some (.bytes certSha)), (kCertUrl, some (.str certUrl)), (kDate, some (.int date)),
   (kExpires, some (.int expires)), (kIntegrity, some (.str v.mice.integrityIdentifier)),
   (kSig, some (.bytes sig)), (kValidityUrl, some (.str validityUrl))]

theorem sigParams_sort (v : Ver) (sig validityUrl certUrl certSha : Bytes) (date expires : Int) :
    List.mergeSort [
      (kSig, some (SH.Item.bytes sig)), (kValidityUrl, some (.str validityUrl)),
      (kIntegrity, some (.str v.mice.integrityIdentifier)),
      (kCertUrl, some (.str certUrl)), (kCertSha256, some (.bytes certSha)), (kDate, some (.int date)),
      (kExpires, some (.int expires))] SH.keyLe = sigParamsSorted v sig validityUrl certUrl certSha date expires := by
  apply Eq.symm
  have hkeys : (sigParamsSorted v sig validityUrl certUrl certSha date expires).map Prod.fst =
      [kCertSha256, kCertUrl, kDate, kExpires, kIntegrity, kSig, kValidityUrl] := rfl
  apply SH.sorted_perm_unique
  · exact (perm7 _ _ _ _ _ _ _).trans (List.mergeSort_perm _ _).symm
  · rw [hkeys]; decide +kernel
  · apply keyLe_pairwise_of_keys
    rw [hkeys]; decide +kernel
  · exact SH.sortParams_sorted _

theorem integrity_printable (v : Ver) :
    v.mice.integrityIdentifier.all (fun c => 32 ≤ c && c ≤ 126) = true := by
  cases v <;> decide +kernel

theorem signatureHeaderValue_eq (v : Ver) (sig validityUrl certUrl certSha : Bytes) (date expires : Int) :
    signatureHeaderValue v sig validityUrl certUrl certSha date expires =
      if validityUrl.all (fun c => 32 ≤ c && c ≤ 126) = true ∧ certUrl.all (fun c => 32 ≤ c && c ≤ 126) = true
      then some (signatureHeader v sig validityUrl certUrl certSha date expires) else none := by
  unfold signatureHeaderValue SH.serializePI
  have hl : SH.isValidToken kLabel = true := by decide +kernel
  have k1 : SH.isValidKey kCertSha256 = true := by decide +kernel
  have k2 : SH.isValidKey kCertUrl = true := by decide +kernel
  have k3 : SH.isValidKey kDate = true := by decide +kernel
  have k4 : SH.isValidKey kExpires = true := by decide +kernel
  have k5 : SH.isValidKey kIntegrity = true := by decide +kernel
  have k6 : SH.isValidKey kSig = true := by decide +kernel
  have k7 : SH.isValidKey kValidityUrl = true := by decide +kernel
  simp only [hl, Bool.not_true, Bool.false_eq_true, if_false, sigParams_sort]
  unfold sigParamsSorted
  have hnil : SH.serializeParams [] = some [] := rfl
  have ib : ∀ b : Bytes, SH.serializeItem (.bytes b) = some (42 :: Base64.encode false true b ++ [42]) := fun _ => rfl
  have ii : ∀ z : Int, SH.serializeItem (.int z) = some (SH.formatInt z) := fun _ => rfl
  have is : ∀ s : Bytes, SH.serializeItem (.str s) =
      if s.all (fun c => 32 ≤ c && c ≤ 126) = true then some (SH.quote s) else none := fun _ => rfl
  simp only [SH.serializeParams_cons_some, hnil, k1, k2, k3, k4, k5, k6, k7,
    Bool.not_true, Bool.false_eq_true, if_false, ib, ii, is, integrity_printable, if_true]
  cases hv : validityUrl.all (fun c => 32 ≤ c && c ≤ 126) <;>
    cases hc : certUrl.all (fun c => 32 ≤ c && c ≤ 126) <;>
    simp only [Bool.false_eq_true, if_false, if_true, and_self, and_true, and_false, Option.map_none, Option.map_some]
  unfold signatureHeader
  simp only [List.append_assoc, List.cons_append, List.nil_append, List.append_nil]

theorem signatureHeaderValue_spec (v : Ver) (sig validityUrl certUrl certSha : Bytes) (date expires : Int)
    (hpr : ∀ c ∈ validityUrl ++ certUrl, 32 ≤ c ∧ c ≤ 126) :
    signatureHeaderValue v sig validityUrl certUrl certSha date expires =
      some (signatureHeader v sig validityUrl certUrl certSha date expires) := by
  rw [signatureHeaderValue_eq]
  have h1 : validityUrl.all (fun c => 32 ≤ c && c ≤ 126) = true :=
    (all_printable_iff _).mpr (fun c hc => hpr c (List.mem_append_left _ hc))
  have h2 : certUrl.all (fun c => 32 ≤ c && c ≤ 126) = true :=
    (all_printable_iff _).mpr (fun c hc => hpr c (List.mem_append_right _ hc))
  rw [if_pos ⟨h1, h2⟩]

/-- `signatureHeaderValue` fails exactly when one of the two URLs is not printable ASCII -/
theorem signatureHeaderValue_fails_iff (v : Ver) (sig validityUrl certUrl certSha : Bytes) (date expires : Int) :
    signatureHeaderValue v sig validityUrl certUrl certSha date expires = none ↔
      ∃ c ∈ validityUrl ++ certUrl, ¬ (32 ≤ c ∧ c ≤ 126) := by
  constructor
  · intro h
    apply Classical.byContradiction
    intro hn
    have hpr : ∀ c ∈ validityUrl ++ certUrl, 32 ≤ c ∧ c ≤ 126 := by
      intro c hc
      apply Classical.byContradiction
      intro hcn
      exact hn ⟨c, hc, hcn⟩
    rw [signatureHeaderValue_spec v sig validityUrl certUrl certSha date expires hpr] at h
    cases h
  · rintro ⟨c, hc, hcn⟩
    rw [signatureHeaderValue_eq]
    rw [if_neg]
    rintro ⟨h1, h2⟩
    rw [all_printable_iff] at h1 h2
    rcases List.mem_append.mp hc with hc | hc
    · exact hcn (h1 c hc)
    · exact hcn (h2 c hc)

end WebPkg.Sxg
