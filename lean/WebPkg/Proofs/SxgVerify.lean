import WebPkg.Model.SxgVerify
import WebPkg.Spec.Policy
namespace WebPkg.Sxg
open WebPkg.Spec.Policy WebPkg.Http

theorem verifySignature_iff (env : Env) (e : Exchange) (t : GoTime.T) (s : Signature) (p : Bytes) :
    verifySignature env e t s = some p ↔
      (∃ certBytes main rest, env.fetch s.certUrl = some certBytes ∧
        CertChain.read env.parseOk certBytes = some (main :: rest) ∧ env.keyOk main.cert = true ∧
        s.certSha256 = env.H main.cert ∧
        ∃ msg, signedMessage e (some (env.H main.cert)) s.validityUrl s.date s.expires = some msg ∧
          env.sigVerify main.cert msg s.sig = true) ∧
      timestampsOk s t = true ∧ verifyPayload env e s = some p ∧
      (e.version = .b3 → joined e.respHeaders hContentType ≠ []) := by
  unfold verifySignature
  cases hf : env.fetch s.certUrl with
  | none => simp
  | some certBytes =>
    simp only
    cases hc : CertChain.read env.parseOk certBytes with
    | none => simp [hc]
    | some chain =>
      cases chain with
      | nil => simp [hc]
      | cons main rest =>
        simp only
        have key : ∀ (P : Prop), (∃ cb m r, some certBytes = some cb ∧ CertChain.read env.parseOk cb = some (m :: r) ∧
            env.keyOk m.cert = true ∧ s.certSha256 = env.H m.cert ∧
            ∃ msg, signedMessage e (some (env.H m.cert)) s.validityUrl s.date s.expires = some msg ∧
              env.sigVerify m.cert msg s.sig = true) ∧ P ↔
            (env.keyOk main.cert = true ∧ s.certSha256 = env.H main.cert ∧
            ∃ msg, signedMessage e (some (env.H main.cert)) s.validityUrl s.date s.expires = some msg ∧
              env.sigVerify main.cert msg s.sig = true) ∧ P := by
          intro P
          constructor
          · rintro ⟨⟨cb, m, r, h1, h2, h3⟩, hP⟩
            injection h1 with h1; subst h1
            rw [hc] at h2; injection h2 with h2; injection h2 with h2a h2b; subst h2a
            exact ⟨h3, hP⟩
          · rintro ⟨h3, hP⟩
            exact ⟨⟨certBytes, main, rest, rfl, hc, h3⟩, hP⟩
        rw [key]
        by_cases hk : env.keyOk main.cert = true
        · by_cases ht : timestampsOk s t = true
          · cases hm : signedMessage e (some (env.H main.cert)) s.validityUrl s.date s.expires with
            | none => simp [hk, ht]
            | some msg =>
              by_cases hs : s.certSha256 = env.H main.cert
              · by_cases hv : env.sigVerify main.cert msg s.sig = true
                · by_cases hct : e.version = .b3 ∧ joined e.respHeaders hContentType = []
                  · simp [hk, ht, hs, hv, hct]
                  · simp only [hk, ht, hs, hv, hct, Bool.not_true, Bool.false_eq_true, if_false, ne_eq, not_true_eq_false]
                    constructor
                    · intro h
                      refine ⟨⟨by first | trivial | assumption, by first | trivial | assumption, msg, rfl, hv⟩,
                        by first | trivial | assumption, h, ?_⟩
                      intro hb3 hj; exact hct ⟨hb3, hj⟩
                    · intro h; exact h.2.2.1
                · simp [hk, ht, hs, hv]
              · simp [hk, ht, hs]
          · simp [hk, ht]
        · simp [hk]

/-- C09/C01 core: one signature makes `Exchange.Verify` return `(p, true)` **iff** every acceptance
    condition of the spec holds for it. -/
theorem verifyOne_iff (env : Env) (e : Exchange) (t : GoTime.T) (pi : SH.PI) (p : Bytes) :
    verifyOne env e t pi = some p ↔ ∃ s, extractSignature pi = some s ∧ Acceptable env e t s p := by
  unfold verifyOne
  cases hs : extractSignature pi with
  | none => simp
  | some s =>
    simp only [Option.some.injEq, exists_eq_left']
    cases hvu : env.url s.validityUrl with
    | none =>
      simp only
      constructor
      · intro h; simp at h
      · intro h; obtain ⟨vu, ru, h1, _⟩ := h.origin; rw [hvu] at h1; simp at h1
    | some vu =>
      cases hru : env.url e.uri with
      | none =>
        simp only
        constructor
        · intro h; simp at h
        · intro h; obtain ⟨vu', ru, _, h2, _⟩ := h.origin; rw [hru] at h2; simp at h2
      | some ru =>
        simp only
        by_cases hso : sameOrigin vu ru = true
        · simp only [hso, Bool.not_true, Bool.false_eq_true, if_false]
          cases hvs : verifySignature env e t s with
          | none =>
            simp only
            constructor
            · intro h; simp at h
            · intro h
              have := (verifySignature_iff env e t s p).mpr ⟨h.chain, h.time, h.payload, h.contentType⟩
              rw [hvs] at this; simp at this
          | some q =>
            have hq := (verifySignature_iff env e t s q).mp hvs
            simp only
            by_cases hm : (e.version = .b1 ∨ e.version = .b2) ∧ e.method ≠ mGET ∧ e.method ≠ mHEAD
            · rw [if_pos hm]
              constructor
              · intro h; simp at h
              · intro h
                rcases h.method hm.1 with h1 | h1
                · exact absurd h1 hm.2.1
                · exact absurd h1 hm.2.2
            · rw [if_neg hm]
              by_cases hc : e.version = .b3 ∧ (!isCacheable env e) = true
              · rw [if_pos hc]
                constructor
                · intro h; simp at h
                · intro h
                  have := h.cacheable hc.1
                  have hc2 := hc.2
                  rw [this] at hc2; simp at hc2
              · rw [if_neg hc]
                by_cases hh : (!headersOk e) = true
                · rw [if_pos hh]
                  constructor
                  · intro h; simp at h
                  · intro h; rw [h.headers] at hh; simp at hh
                · rw [if_neg hh]
                  have hh' : headersOk e = true := by
                    cases hx : headersOk e with
                    | true => rfl
                    | false => rw [hx] at hh; simp at hh
                  constructor
                  · intro hqp
                    injection hqp with hqp; subst hqp
                    refine ⟨⟨vu, ru, hvu, hru, hso⟩, hq.1, hq.2.1, hq.2.2.1, hq.2.2.2, ?_, ?_, hh'⟩
                    · intro hv
                      by_cases h1 : e.method = mGET
                      · exact Or.inl h1
                      · by_cases h2 : e.method = mHEAD
                        · exact Or.inr h2
                        · exact absurd ⟨hv, h1, h2⟩ hm
                    · intro hb3
                      cases hcc : isCacheable env e with
                      | true => rfl
                      | false => exact absurd ⟨hb3, by simp [hcc]⟩ hc
                  · intro h
                    have := h.payload
                    rw [hq.2.2.1] at this
                    exact this
        · have : sameOrigin vu ru = false := by simpa using hso
          simp only [this, Bool.not_false, if_true]
          constructor
          · intro h; simp at h
          · intro h
            obtain ⟨vu', ru', h1, h2, h3⟩ := h.origin
            rw [hvu] at h1; rw [hru] at h2
            injection h1 with h1; injection h2 with h2
            subst h1; subst h2
            rw [h3] at this; simp at this

/-- `Exchange.Verify` succeeds iff some signature of the parsed Signature header is acceptable -/
theorem verify_isSome_iff (env : Env) (e : Exchange) (t : GoTime.T) :
    (verify env e t).isSome = true ↔
      ∃ sigs, SH.parseParameterisedList e.sigHeader = some sigs ∧
        ∃ pi ∈ sigs, ∃ s p, extractSignature pi = some s ∧ Acceptable env e t s p := by
  unfold verify
  cases hp : SH.parseParameterisedList e.sigHeader with
  | none => simp
  | some sigs =>
    simp only [Option.some.injEq, exists_eq_left']
    rw [List.findSome?_isSome_iff]
    constructor
    · rintro ⟨pi, hmem, hsome⟩
      obtain ⟨p, hp'⟩ := Option.isSome_iff_exists.mp hsome
      obtain ⟨s, hs, ha⟩ := (verifyOne_iff env e t pi p).mp hp'
      exact ⟨pi, hmem, s, p, hs, ha⟩
    · rintro ⟨pi, hmem, s, p, hs, ha⟩
      exact ⟨pi, hmem, by rw [(verifyOne_iff env e t pi p).mpr ⟨s, hs, ha⟩]; rfl⟩

/-- what a successful verification returns was checked for one concrete signature -/
theorem verify_some (env : Env) (e : Exchange) (t : GoTime.T) (p : Bytes) (h : verify env e t = some p) :
    ∃ sigs, SH.parseParameterisedList e.sigHeader = some sigs ∧
      ∃ pi ∈ sigs, ∃ s, extractSignature pi = some s ∧ Acceptable env e t s p := by
  unfold verify at h
  cases hp : SH.parseParameterisedList e.sigHeader with
  | none => simp [hp] at h
  | some sigs =>
    simp only [hp] at h
    obtain ⟨pi, hmem, hv⟩ := List.exists_of_findSome?_eq_some h
    obtain ⟨s, hs, ha⟩ := (verifyOne_iff env e t pi p).mp hv
    exact ⟨sigs, rfl, pi, hmem, s, hs, ha⟩

end WebPkg.Sxg
