import WebPkg.Model.Trace
namespace WebPkg.Trace

/-- C19 core: for a checked program with fault-free output `out = chunks.flatten` and a destination that
    fails after `k` bytes: the run fails iff `k < |out|`; what was accepted is a prefix of `out`, of length
    exactly `k` for short writes and at most `k` for error returns; with `k ≥ |out|` everything is written. -/
theorem runChecked_spec (mode : Mode) : ∀ (chunks : List Bytes) (k : Nat),
    let r := runChecked mode chunks k
    r.accepted <+: chunks.flatten ∧ r.accepted.length ≤ k ∧
    (r.failed = true ↔ k < chunks.flatten.length) ∧
    (r.failed = false → r.accepted = chunks.flatten) ∧
    (r.failed = true → mode = .shortWrite → r.accepted.length = k)
  | [], k => by simp [runChecked]
  | c :: rest, k => by
    simp only [runChecked]
    by_cases h : c.length ≤ k
    · rw [if_pos h]
      have ih := runChecked_spec mode rest (k - c.length)
      simp only at ih ⊢
      obtain ⟨h1, h2, h3, h4, h5⟩ := ih
      refine ⟨?_, ?_, ?_, ?_, ?_⟩
      · simp only [List.flatten_cons]; exact (List.prefix_append_right_inj c).mpr h1
      · simp only [List.length_append]; omega
      · rw [h3]; simp only [List.flatten_cons, List.length_append]; omega
      · intro hf; simp only [List.flatten_cons]; rw [h4 hf]
      · intro hf hm; simp only [List.length_append]; have := h5 hf hm; omega
    · rw [if_neg h]
      have hk : k < c.length := by omega
      cases mode with
      | shortWrite =>
        simp only
        refine ⟨?_, ?_, ?_, ?_, ?_⟩
        · simp only [List.flatten_cons]
          exact List.IsPrefix.trans (List.take_prefix k c) (List.prefix_append c _)
        · simp; omega
        · simp only [List.flatten_cons, List.length_append, true_iff]; omega
        · intro hf; simp at hf
        · intro _ _; simp; omega
      | errorReturn =>
        simp only
        refine ⟨List.nil_prefix, by simp, ?_, ?_, ?_⟩
        · simp only [List.flatten_cons, List.length_append, true_iff]; omega
        · intro hf; simp at hf
        · intro _ hm; simp at hm

/-- no partial output is ever reported as success -/
theorem checked_never_partial_success (mode : Mode) (chunks : List Bytes) (k : Nat)
    (h : (runChecked mode chunks k).failed = false) : (runChecked mode chunks k).accepted = chunks.flatten :=
  (runChecked_spec mode chunks k).2.2.2.1 h

/-- the count reported equals what the destination accepted, and never exceeds the failure position -/
theorem counted_le (mode : Mode) (chunks : List Bytes) (k : Nat) : counted (runChecked mode chunks k) ≤ k :=
  (runChecked_spec mode chunks k).2.1

/-- conversely: dropping the error of one destination-facing write makes some failure position report
    success with a strict prefix (so checking every write is exactly the needed condition): witness
    program `[[1]]` with `i = 0`, `k = 0`. -/
theorem dropped_error_is_visible : ∃ (chunks : List Bytes) (i k : Nat) (mode : Mode),
    (runDropping mode i chunks k).failed = false ∧ (runDropping mode i chunks k).accepted ≠ chunks.flatten := by
  refine ⟨[[1]], 0, 0, .errorReturn, ?_, ?_⟩ <;> simp [runDropping]

end WebPkg.Trace
